#!/bin/bash
# Runs the repository's pinned test suite with the verif guard OFF (no -tags verif) and
# compares with /root/.vp/BASELINE.json stable_pass. exit 0 iff every stable test passes.
export GOFLAGS=-mod=mod GOPROXY=off GOSUMDB=off GOTOOLCHAIN=local
REPO="${VERIF_REPO:-/repo}"
OUT="$(mktemp /var/tmp/baseline.XXXXXX.json)"
(cd "$REPO" && go test -mod=mod -json -vet=off -count=1 -timeout 25m ./... > "$OUT" 2>/dev/null)
python3 - "$OUT" <<'PY'
import json,sys
passed=set()
for l in open(sys.argv[1]):
    try: d=json.loads(l)
    except Exception: continue
    if d.get("Action")=="pass" and d.get("Test"):
        passed.add(d["Package"]+"::"+d["Test"])
base=json.load(open("/root/.vp/BASELINE.json"))["stable_pass"]
missing=[t for t in base if t not in passed]
print("baseline stable_pass=%d passed_now=%d missing=%d"%(len(base),len(passed),len(missing)))
for t in missing[:40]: print("  MISSING",t)
sys.exit(1 if missing else 0)
PY
rc=$?
rm -f "$OUT"
exit $rc
