// Package core holds the shared machinery of the runtime-monitoring harness:
// scratch management, the compile/run pipeline for both sides (GopherJS+node and the
// reference toolchain), trace normalisation, evidence and replay-bundle writers.
package core

import (
	"fmt"
	"math/rand"
	"os"
	"path/filepath"
	"runtime"
	"sort"
	"strconv"
	"sync"
	"time"
)

// Ctx is the state of one check run (one property, one tier, one seed).
type Ctx struct {
	ID      string // property id, e.g. "C01"
	Tier    string // "quick" | "thorough"
	Seed    int64
	Jobs    int
	Repo    string // /repo
	Verif   string // /verif
	Scratch string // per-run scratch dir (removed by check.sh)
	Self    string // path of this binary (for child sub-commands)
	Start   time.Time

	mu         sync.Mutex
	violations []Violation
	known      map[string]bool // known-finding keys that fired
	Inconcl    map[string]int  // inconclusive counters by reason
	Counters   map[string]int  // free-form observation counters
	samples    []any
	findings   *Findings
	seq        int
}

// Violation is one observed refutation of the property.
type Violation struct {
	Key    string // stable identity (used to match known findings)
	What   string
	Replay string
}

func NewCtx(id, tier string) *Ctx {
	c := &Ctx{ID: id, Tier: tier, Repo: "/repo", Verif: "/verif", Start: time.Now(),
		known: map[string]bool{}, Inconcl: map[string]int{}, Counters: map[string]int{}}
	c.Seed = 1
	if s := os.Getenv("VERIF_SEED"); s != "" {
		if v, err := strconv.ParseInt(s, 10, 64); err == nil {
			c.Seed = v
		}
	}
	c.Jobs = runtime.NumCPU()
	if s := os.Getenv("VERIF_JOBS"); s != "" {
		if v, err := strconv.Atoi(s); err == nil && v > 0 {
			c.Jobs = v
		}
	}
	if v := os.Getenv("VERIF_REPO"); v != "" {
		c.Repo = v
	}
	// check.sh changes into its own directory: a snapshot of /verif (vp run) then writes its
	// evidence and replay bundles into the snapshot, not into /verif
	if wd, err := os.Getwd(); err == nil {
		if _, err := os.Stat(filepath.Join(wd, "properties.jsonl")); err == nil {
			c.Verif = wd
		}
	}
	c.Scratch = os.Getenv("VERIF_SCRATCH")
	if c.Scratch == "" {
		c.Scratch = filepath.Join("/var/tmp", fmt.Sprintf("verif.%d", os.Getpid()))
	}
	os.MkdirAll(c.Scratch, 0o755)
	self, _ := os.Executable()
	c.Self = self
	c.findings = LoadFindings(filepath.Join(c.Verif, "known_findings.json"))
	return c
}

func (c *Ctx) Quick() bool { return c.Tier != "thorough" }

// N picks the quick or thorough size of a workload.
func (c *Ctx) N(quick, thorough int) int {
	n := thorough
	if c.Quick() {
		n = quick
	}
	// VERIF_SCALE shrinks workloads while developing on a loaded machine (never set by the
	// registered commands).
	if s := os.Getenv("VERIF_SCALE"); s != "" {
		if f, err := strconv.ParseFloat(s, 64); err == nil && f > 0 {
			n = int(float64(n) * f)
			if n < 1 {
				n = 1
			}
		}
	}
	return n
}

// Rand returns a PRNG that is a pure function of (seed, property, stream).
func (c *Ctx) Rand(stream string) *rand.Rand {
	h := uint64(1469598103934665603)
	for _, b := range []byte(c.ID + "/" + stream) {
		h ^= uint64(b)
		h *= 1099511628211
	}
	return rand.New(rand.NewSource(int64(h) ^ (c.Seed * 0x9E3779B97F4A7C)))
}

func (c *Ctx) Count(key string, n int) {
	c.mu.Lock()
	c.Counters[key] += n
	c.mu.Unlock()
}

func (c *Ctx) Inconclusive(reason string) {
	c.mu.Lock()
	c.Inconcl[reason]++
	c.mu.Unlock()
}

// Sample records an actual case for the evidence file (first 6 are kept).
func (c *Ctx) Sample(v any) {
	c.mu.Lock()
	if len(c.samples) < 6 {
		c.samples = append(c.samples, v)
	}
	c.mu.Unlock()
}

// Dir creates a fresh sub-directory of the scratch area.
func (c *Ctx) Dir(name string) string {
	c.mu.Lock()
	c.seq++
	n := c.seq
	c.mu.Unlock()
	d := filepath.Join(c.Scratch, fmt.Sprintf("%s-%04d", name, n))
	os.MkdirAll(d, 0o755)
	return d
}

// Parallel runs f(i) for i in [0,n) on c.Jobs workers.
func (c *Ctx) Parallel(n int, f func(i int)) {
	var wg sync.WaitGroup
	ch := make(chan int)
	jobs := c.Jobs
	if jobs > n {
		jobs = n
	}
	for w := 0; w < jobs; w++ {
		wg.Add(1)
		go func() {
			defer wg.Done()
			for i := range ch {
				f(i)
			}
		}()
	}
	for i := 0; i < n; i++ {
		ch <- i
	}
	close(ch)
	wg.Wait()
}

// Violate records a violation. files are written into the replay bundle.
func (c *Ctx) Violate(key, what string, files map[string]string) {
	c.mu.Lock()
	defer c.mu.Unlock()
	if f := c.findings.Match(c.ID, key); f != nil {
		if !c.known[f.Key] {
			c.known[f.Key] = true
			fmt.Printf("KNOWN-FINDING: property=%s %s\n", c.ID, f.What)
		}
		return
	}
	if len(c.violations) >= 25 { // enough witnesses; keep counting only
		c.violations = append(c.violations, Violation{Key: key, What: what})
		return
	}
	root := filepath.Join(c.Verif, "replay")
	if d := os.Getenv("VERIF_REPLAY_DIR"); d != "" {
		root = d
	}
	dir := filepath.Join(root, c.ID, sanitize(key))
	os.RemoveAll(dir)
	os.MkdirAll(dir, 0o755)
	os.WriteFile(filepath.Join(dir, "WHAT.txt"), []byte(what+"\nseed="+strconv.FormatInt(c.Seed, 10)+" tier="+c.Tier+"\n"), 0o644)
	names := make([]string, 0, len(files))
	for n := range files {
		names = append(names, n)
	}
	sort.Strings(names)
	for _, n := range names {
		p := filepath.Join(dir, n)
		os.MkdirAll(filepath.Dir(p), 0o755)
		os.WriteFile(p, []byte(files[n]), 0o644)
	}
	c.violations = append(c.violations, Violation{Key: key, What: what, Replay: dir})
	fmt.Printf("VIOLATION property=%s replay=%s\n", c.ID, dir)
	fmt.Printf("  what: %s\n", firstLine(what))
}

func (c *Ctx) NumViolations() int {
	c.mu.Lock()
	defer c.mu.Unlock()
	return len(c.violations)
}

func sanitize(s string) string {
	b := []byte(s)
	for i, ch := range b {
		if !(ch >= 'a' && ch <= 'z' || ch >= 'A' && ch <= 'Z' || ch >= '0' && ch <= '9' || ch == '-' || ch == '_' || ch == '.') {
			b[i] = '_'
		}
	}
	if len(b) > 80 {
		b = b[:80]
	}
	return string(b)
}

func firstLine(s string) string {
	for i := 0; i < len(s); i++ {
		if s[i] == '\n' {
			return s[:i]
		}
	}
	return s
}
