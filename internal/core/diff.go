package core

import (
	"fmt"
	"os"
	"path/filepath"
	"sort"
	"strings"
)

// DiffOpt configures the reference-implementation monitor for one program.
type DiffOpt struct {
	Variants  []CompileOpt // observed variants; default: one plain build
	Names     []string     // names of the variants (for messages)
	SecondRef bool         // also build with go1.26.8; programs on which the references disagree are inconclusive
	NoCheck   bool         // skip `node --check`
	Node      NodeOpt
	NativeEnv []string
	NoNative  bool // self-consistency only (variants must agree with each other)
	KeepDir   bool
	Quiet     bool // do not record violations; the caller inspects the result
	// NativeFiles, when set, is the file set given to the reference toolchain instead of the
	// program's own (e.g. the same package with files renamed so that the reference presents
	// them in the order the observed compiler uses).
	NativeFiles map[string]string
}

// DiffResult is what the monitor saw.
type DiffResult struct {
	Dir       string
	JS        []Trace
	Ref       Trace
	Lines     int
	Verdict   string // "held" | "violated" | "inconclusive"
	Diff      string
	Files     map[string]string
	CompileOK bool
}

// DiffProgram runs one program through the observed pipeline (every variant) and the reference
// toolchain and compares the normalised traces. Violations are recorded on the Ctx with key
// "<program name>" (callers may choose names so that sentinels have stable keys).
func (c *Ctx) DiffProgram(p *Program, o DiffOpt) DiffResult {
	res := DiffResult{Verdict: "held"}
	dir := c.WriteProgram(p)
	res.Dir = dir
	if !o.KeepDir {
		defer os.RemoveAll(dir)
	}
	variants := o.Variants
	if len(variants) == 0 {
		variants = []CompileOpt{{}}
	}
	names := o.Names
	for len(names) < len(variants) {
		names = append(names, fmt.Sprintf("js%d", len(names)))
	}

	bundle := func(extra map[string]string) map[string]string {
		m := map[string]string{}
		for k, v := range p.Files {
			m["src/"+k] = v
		}
		for k, v := range extra {
			m[k] = v
		}
		return m
	}

	// reference side first: a program the reference rejects is a generator bug → inconclusive.
	var ref Trace
	if !o.NoNative {
		ndir := dir
		if o.NativeFiles != nil {
			ndir = c.Dir("native")
			WriteFiles(ndir, o.NativeFiles)
			defer os.RemoveAll(ndir)
		}
		bin, br := c.BuildNative(ndir, NativeOpt{})
		if br.Exit != 0 || br.TimedOut {
			c.Inconclusive("reference-rejects-program")
			if os.Getenv("VERIF_DEBUG") != "" {
				fmt.Fprintf(os.Stderr, "reference rejects %s:\n%s\n", p.Name, br.Stderr)
				for k, v := range p.Files {
					os.WriteFile(filepath.Join(os.TempDir(), "rejected-"+sanitize(p.Name)+"-"+sanitize(k)), []byte(v), 0o644)
				}
			}
			res.Verdict = "inconclusive"
			res.Diff = br.Stderr
			return res
		}
		rr := c.RunNative(bin, o.NativeEnv, 0)
		ref = NormNative(rr)
		os.Remove(bin)
		if ref.Outcome == "timeout" {
			c.Inconclusive("reference-timeout")
			res.Verdict = "inconclusive"
			return res
		}
		if strings.HasPrefix(ref.Outcome, "fatal:") || strings.HasPrefix(ref.Outcome, "exit:") {
			c.Inconclusive("reference-abnormal:" + ref.Outcome)
			res.Verdict = "inconclusive"
			return res
		}
		if o.SecondRef {
			bin2, br2 := c.BuildNative(ndir, NativeOpt{Go: "go1.26.8", Out: "native2.bin"})
			if br2.Exit == 0 {
				r2 := NormNative(c.RunNative(bin2, o.NativeEnv, 0))
				os.Remove(bin2)
				if d := DiffTrace(ref, r2, "go1.23", "go1.26"); d != "" {
					c.Inconclusive("references-disagree")
					res.Verdict = "inconclusive"
					res.Diff = d
					return res
				}
				c.Count("second_reference_agreed", 1)
			} else {
				c.Inconclusive("second-reference-build-failed")
			}
		}
		res.Ref = ref
		res.Lines = len(ref.Lines)
	}

	for i, v := range variants {
		v.Out = fmt.Sprintf("out%d.js", i)
		cr := c.CompileJS(dir, v)
		if cr.TimedOut {
			c.Inconclusive("compile-timeout")
			res.Verdict = "inconclusive"
			return res
		}
		if !cr.OK {
			res.Verdict = "violated"
			res.Diff = "compiler rejected a program the reference accepts (" + names[i] + "):\n" + clipN(cr.Output, 4000)
			c.violateUnlessQuiet(o.Quiet, p.Name, res.Diff, bundle(map[string]string{"compile.out": cr.Output}))
			return res
		}
		res.CompileOK = true
		if !o.NoCheck {
			ok, msg, unsure := c.NodeCheck3(cr.JS)
			if unsure {
				c.Inconclusive("node-check-inconclusive")
				res.Verdict = "inconclusive"
				return res
			}
			if !ok {
				res.Verdict = "violated"
				res.Diff = "emitted file is not valid JavaScript (" + names[i] + "): " + clipN(msg, 2000)
				c.violateUnlessQuiet(o.Quiet, p.Name, res.Diff, bundle(nil))
				return res
			}
		}
		jr := c.RunNode(cr.JS, o.Node)
		jt := NormJS(jr)
		if jt.Outcome == "timeout" {
			c.Inconclusive("node-timeout")
			res.Verdict = "inconclusive"
			return res
		}
		res.JS = append(res.JS, jt)
		if o.NoNative {
			if i == 0 {
				res.Lines = len(jt.Lines)
			}
			continue
		}
		if d := DiffTrace(jt, ref, names[i], "go"); d != "" {
			if res.Verdict != "violated" {
				res.Verdict = "violated"
				res.Diff = d
			}
			c.violateUnlessQuiet(o.Quiet, p.Name, fmt.Sprintf("%s: %s", p.Name, d), bundle(map[string]string{
				"js.out": jt.String(), "ref.out": ref.String(), "js.stderr": clipN(jr.Stderr, 6000), "diff.txt": d}))
			if !o.Quiet || len(variants) == 1 {
				return res
			}
			// quiet multi-variant callers classify the difference themselves: run every variant
		}
	}
	if o.NoNative && len(res.JS) > 1 {
		for i := 1; i < len(res.JS); i++ {
			if d := DiffTrace(res.JS[0], res.JS[i], names[0], names[i]); d != "" {
				res.Verdict = "violated"
				res.Diff = d
				c.violateUnlessQuiet(o.Quiet, p.Name, fmt.Sprintf("%s: %s", p.Name, d), bundle(map[string]string{
					names[0] + ".out": res.JS[0].String(), names[i] + ".out": res.JS[i].String(), "diff.txt": d}))
				return res
			}
		}
	}
	return res
}

func clipN(s string, n int) string {
	if len(s) > n {
		return s[:n] + "\n…(clipped)"
	}
	return s
}

// SortedKeys is a small helper for deterministic iteration.
func SortedKeys[V any](m map[string]V) []string {
	ks := make([]string, 0, len(m))
	for k := range m {
		ks = append(ks, k)
	}
	sort.Strings(ks)
	return ks
}

func (c *Ctx) violateUnlessQuiet(quiet bool, key, what string, files map[string]string) {
	if quiet {
		return
	}
	c.Violate(key, what, files)
}
