package core

import (
	"encoding/json"
	"fmt"
	"os"
	"path/filepath"
	"strings"
	"time"
)

// Findings mirrors /verif/known_findings.json. The file is never written at run time.
type Findings struct {
	Findings []Finding `json:"findings"`
	Fixed    []string  `json:"fixed"`
}

// Finding identifies one recorded (not repaired) genuine defect by the specific key of the
// failing case, so that any other violation of the same property is still reported.
type Finding struct {
	Property string `json:"property"`
	Key      string `json:"key"`  // exact violation key, or prefix ending in '*'
	What     string `json:"what"` // printed after KNOWN-FINDING:
}

func LoadFindings(path string) *Findings {
	f := &Findings{}
	b, err := os.ReadFile(path)
	if err == nil {
		json.Unmarshal(b, f)
	}
	return f
}

func (f *Findings) Match(prop, key string) *Finding {
	for i := range f.Findings {
		x := &f.Findings[i]
		if x.Property != prop {
			continue
		}
		if x.Key == key || (strings.HasSuffix(x.Key, "*") && strings.HasPrefix(key, strings.TrimSuffix(x.Key, "*"))) {
			return x
		}
	}
	return nil
}

// Evidence is what gets written to /verif/evidence/<id>.json.
type Evidence struct {
	PropertyID  string         `json:"property_id"`
	Tier        string         `json:"tier"`
	Seed        int64          `json:"seed"`
	Level       string         `json:"level"`
	Coverage    map[string]any `json:"coverage"`
	Assumptions []string       `json:"assumptions,omitempty"`
	WallS       float64        `json:"wall_s"`
	Violations  int            `json:"violations"`
}

// Finish writes the evidence file and returns the process exit code.
// evaluations/distinct are measured by the caller; floor is the observation floor under which
// the run is a machinery failure (exit 2, never a VIOLATION).
func (c *Ctx) Finish(level string, evaluations, distinct, floor int, rule string, extra map[string]any, assumptions []string) int {
	cov := map[string]any{
		"evaluations":         evaluations,
		"distinct_nontrivial": distinct,
		"rule":                rule,
		"samples":             c.samples,
		"counters":            c.Counters,
		"inconclusive":        c.Inconcl,
		"known_findings_seen": keys(c.known),
	}
	if len(c.samples) == 0 {
		cov["samples"] = []any{"(no sample recorded)"}
	}
	for k, v := range extra {
		cov[k] = v
	}
	ev := Evidence{PropertyID: c.ID, Tier: c.Tier, Seed: c.Seed, Level: level, Coverage: cov,
		Assumptions: assumptions, WallS: time.Since(c.Start).Seconds(), Violations: len(c.violations)}
	b, _ := json.MarshalIndent(ev, "", " ")
	dir := filepath.Join(c.Verif, "evidence")
	if d := os.Getenv("VERIF_EVIDENCE_DIR"); d != "" {
		dir = d // validation runs against mutants must not overwrite the evidence of the real tree
	}
	os.MkdirAll(dir, 0o755)
	os.WriteFile(filepath.Join(dir, c.ID+".json"), append(b, '\n'), 0o644)

	fmt.Printf("[%s %s seed=%d] evaluations=%d distinct=%d violations=%d inconclusive=%v wall=%.1fs\n",
		c.ID, c.Tier, c.Seed, evaluations, distinct, len(c.violations), c.Inconcl, ev.WallS)
	if len(c.violations) > 0 {
		return 1
	}
	if distinct < floor || evaluations < 1 || distinct < 2 {
		fmt.Printf("MACHINERY-FAILURE property=%s observation floor not met: distinct=%d floor=%d (not a violation)\n", c.ID, distinct, floor)
		return 2
	}
	return 0
}

func keys(m map[string]bool) []string {
	out := []string{}
	for k := range m {
		out = append(out, k)
	}
	return out
}
