package core

import (
	"bytes"
	"context"
	"errors"
	"fmt"
	"os"
	"os/exec"
	"path/filepath"
	"sort"
	"strings"
	"sync"
	"syscall"
	"time"
)

// Program is a generated workload: a module directory with one or more packages.
type Program struct {
	Name  string
	Files map[string]string // relative path -> content; go.mod is added if absent
	Meta  any               // what the generator knows (for samples / oracles)
}

// BaseEnv is the environment of every child process (offline, version check off).
func BaseEnv(extra ...string) []string {
	env := []string{}
	for _, kv := range os.Environ() {
		k := kv
		if i := strings.IndexByte(kv, '='); i >= 0 {
			k = kv[:i]
		}
		switch k {
		case "GOFLAGS", "GOPROXY", "GOSUMDB", "GOTOOLCHAIN", "GOPHERJS_SKIP_VERSION_CHECK", "GOOS", "GOARCH", "GO111MODULE", "GOCOVERDIR":
			continue
		}
		env = append(env, kv)
	}
	env = append(env, "GOFLAGS=-mod=mod", "GOPROXY=off", "GOSUMDB=off", "GOTOOLCHAIN=local", "GOPHERJS_SKIP_VERSION_CHECK=1")
	return append(env, extra...)
}

// Run is the result of executing a child process.
type Run struct {
	Stdout, Stderr string
	Exit           int
	TimedOut       bool
	Err            error
}

// Exec runs a command with a watchdog; a watchdog firing is reported as TimedOut (inconclusive).
func Exec(dir string, env []string, timeout time.Duration, stdin string, name string, args ...string) Run {
	ctx, cancel := context.WithTimeout(context.Background(), timeout)
	defer cancel()
	cmd := exec.CommandContext(ctx, name, args...)
	cmd.Dir = dir
	cmd.Env = env
	cmd.SysProcAttr = &syscall.SysProcAttr{Setpgid: true}
	cmd.Cancel = func() error { return syscall.Kill(-cmd.Process.Pid, syscall.SIGKILL) }
	cmd.WaitDelay = 10 * time.Second
	var so, se bytes.Buffer
	cmd.Stdout, cmd.Stderr = &so, &se
	if stdin != "" {
		cmd.Stdin = strings.NewReader(stdin)
	}
	err := cmd.Run()
	r := Run{Stdout: so.String(), Stderr: se.String()}
	if ctx.Err() == context.DeadlineExceeded {
		r.TimedOut = true
	}
	if err != nil {
		if ee, ok := err.(*exec.ExitError); ok {
			r.Exit = ee.ExitCode()
		} else if errors.Is(err, exec.ErrWaitDelay) && cmd.ProcessState != nil {
			// the process exited (successfully) but its output pipes were not drained within
			// WaitDelay on a loaded machine: the exit status is the observation
			r.Exit = cmd.ProcessState.ExitCode()
		} else {
			// the command could not be run or waited for: that is a failure of the machinery,
			// never an observation of the program (callers treat TimedOut as inconclusive)
			r.Exit = -1
			r.Err = err
			r.TimedOut = true
		}
	}
	return r
}

// WriteProgram materialises a program under the scratch dir.
func (c *Ctx) WriteProgram(p *Program) string {
	dir := c.Dir("prog")
	WriteFiles(dir, p.Files)
	return dir
}

func WriteFiles(dir string, files map[string]string) {
	if _, ok := files["go.mod"]; !ok {
		os.WriteFile(filepath.Join(dir, "go.mod"), []byte("module prog\n\ngo 1.20\n"), 0o644)
	}
	names := make([]string, 0, len(files))
	for n := range files {
		names = append(names, n)
	}
	sort.Strings(names)
	for _, n := range names {
		p := filepath.Join(dir, n)
		os.MkdirAll(filepath.Dir(p), 0o755)
		os.WriteFile(p, []byte(files[n]), 0o644)
	}
}

// CompileOpt selects the variant of the observed pipeline.
type CompileOpt struct {
	Minify  bool
	Alive   bool     // force every declaration alive (DCE off) – in-process only
	MapFile bool     // write out.js.map
	Tags    []string // user build tags
	TagSep  string   // separator of the tags on the CLI command line (default " ")
	Out     string   // output file name (default out.js)
	Pkg     string   // package dir relative to the module root (default ".")
	Files   []string // build these files as an ephemeral main package (BuildFiles)
	CLI     bool     // use the gopherjs CLI binary instead of the in-process child
	Dump    string   // write API-level observations (JSON) to this file – in-process only
	Env     []string
}

// Compile result.
type CompileRes struct {
	JS       string // path to the output file
	OK       bool
	Output   string // stderr+stdout of the compiler
	Internal bool   // compiler-internal failure text seen
	TimedOut bool
}

var toolOnce sync.Once
var toolPath string
var toolErr error

// GopherJS returns the CLI built from the repo's current working tree with the verif tag.
func (c *Ctx) GopherJS() (string, error) {
	toolOnce.Do(func() {
		out := filepath.Join(c.Scratch, "bin", "gopherjs.verif")
		os.MkdirAll(filepath.Dir(out), 0o755)
		r := Exec(c.Repo, BaseEnv(), 10*time.Minute, "", "go", "build", "-tags", "verif", "-o", out, ".")
		if r.Exit != 0 {
			toolErr = fmt.Errorf("building gopherjs CLI failed: %s%s", r.Stdout, r.Stderr)
			return
		}
		toolPath = out
	})
	return toolPath, toolErr
}

// CompileJS compiles the program in dir with the observed compiler.
func (c *Ctx) CompileJS(dir string, o CompileOpt) CompileRes {
	out := o.Out
	if out == "" {
		out = "out.js"
	}
	if !filepath.IsAbs(out) {
		out = filepath.Join(dir, out)
	}
	var r Run
	env := BaseEnv(o.Env...)
	if o.CLI {
		bin, err := c.GopherJS()
		if err != nil {
			return CompileRes{Output: err.Error()}
		}
		args := []string{"build", "-o", out}
		if o.Minify {
			args = append(args, "-m")
		}
		if len(o.Tags) > 0 {
			sep := o.TagSep
			if sep == "" {
				sep = " "
			}
			args = append(args, "--tags", strings.Join(o.Tags, sep))
		}
		if len(o.Files) > 0 {
			args = append(args, o.Files...)
		} else if o.Pkg != "" {
			args = append(args, "./"+o.Pkg)
		} else {
			args = append(args, ".")
		}
		r = Exec(dir, env, 5*time.Minute, "", bin, args...)
		if !o.MapFile {
			// the CLI always writes a map; that is fine
		}
	} else {
		args := []string{"compile", "-o", out}
		if o.Minify {
			args = append(args, "-minify")
		}
		if o.Alive {
			args = append(args, "-alive")
		}
		if o.MapFile {
			args = append(args, "-map")
		}
		if len(o.Tags) > 0 {
			args = append(args, "-tags", strings.Join(o.Tags, ","))
		}
		if o.Pkg != "" {
			args = append(args, "-pkg", o.Pkg)
		}
		if o.Dump != "" {
			args = append(args, "-dump", o.Dump)
		}
		if len(o.Files) > 0 {
			args = append(args, "-files", strings.Join(o.Files, ","))
		}
		r = Exec(dir, env, 5*time.Minute, "", c.Self, args...)
	}
	res := CompileRes{JS: out, Output: r.Stdout + r.Stderr, TimedOut: r.TimedOut}
	res.OK = r.Exit == 0 && !r.TimedOut
	low := res.Output
	if strings.Contains(low, "[compiler panic]") || strings.Contains(low, "compiler panic") ||
		strings.Contains(low, "simplification error") || strings.Contains(low, "goroutine 1 [running]") ||
		strings.Contains(low, "internal compiler error") {
		res.Internal = true
	}
	return res
}

// NodeOpt controls a node execution.
type NodeOpt struct {
	Preload []string // --require scripts
	Args    []string // node flags
	Env     []string
	Timeout time.Duration
	Stdin   string
}

// RunNode executes an emitted file.
func (c *Ctx) RunNode(js string, o NodeOpt) Run {
	args := []string{"--stack-size=4000"}
	args = append(args, o.Args...)
	for _, p := range o.Preload {
		args = append(args, "--require", p)
	}
	args = append(args, js)
	to := o.Timeout
	if to == 0 {
		to = 60 * time.Second
	}
	return Exec(filepath.Dir(js), BaseEnv(o.Env...), to, o.Stdin, "node", args...)
}

// NodeCheck runs the syntax sanitizer on an emitted file.
func (c *Ctx) NodeCheck(js string) (bool, string) {
	ok, msg, _ := c.NodeCheck3(js)
	return ok, msg
}

// NodeCheck3 is the three-valued form: a file is invalid only if node itself reports a
// SyntaxError; a watchdog firing or node dying otherwise (loaded machine) is inconclusive.
func (c *Ctx) NodeCheck3(js string) (ok bool, msg string, inconclusive bool) {
	// The file is compiled (not run) the way `node --check` does it, as a CommonJS module body;
	// only the name and message of the exception are printed: `node --check` itself echoes the
	// offending source line, which is the whole program for minified output and takes minutes.
	const script = `try { new (require("vm").Script)(require("module").wrap(require("fs").readFileSync(process.argv[1], "utf8")), {filename: process.argv[1]}); } catch (e) { console.error(String(e.name) + ": " + String(e.message)); process.exit(e instanceof SyntaxError ? 3 : 4); }`
	r := Exec(filepath.Dir(js), BaseEnv(), 3*time.Minute, "", "node", "-e", script, js)
	if r.Exit == 0 && !r.TimedOut {
		return true, "", false
	}
	if !r.TimedOut && r.Exit == 3 && strings.Contains(r.Stderr, "SyntaxError") {
		return false, filepath.Base(js) + ": " + r.Stderr, false
	}
	return true, r.Stderr, true
}

// NativeOpt controls the reference build.
type NativeOpt struct {
	Go   string // go binary (default "go" = 1.23.5; "go1.26.8" for the second reference)
	Race bool
	Tags []string
	Pkg  string
	Out  string
}

// BuildNative builds the program with the reference toolchain.
func (c *Ctx) BuildNative(dir string, o NativeOpt) (string, Run) {
	gobin := o.Go
	if gobin == "" {
		gobin = "go"
	}
	out := o.Out
	if out == "" {
		out = "native.bin"
	}
	if !filepath.IsAbs(out) {
		out = filepath.Join(dir, out)
	}
	args := []string{"build", "-o", out}
	if o.Race {
		args = append(args, "-race")
	}
	if len(o.Tags) > 0 {
		args = append(args, "-tags", strings.Join(o.Tags, ","))
	}
	pkg := "."
	if o.Pkg != "" {
		pkg = "./" + o.Pkg
	}
	args = append(args, pkg)
	r := Exec(dir, BaseEnv(), 5*time.Minute, "", gobin, args...)
	return out, r
}

// RunNative executes a reference binary.
func (c *Ctx) RunNative(bin string, env []string, timeout time.Duration) Run {
	if timeout == 0 {
		timeout = 60 * time.Second
	}
	return Exec(filepath.Dir(bin), BaseEnv(env...), timeout, "", bin)
}
