package core

import (
	"fmt"
	"strings"
)

// Trace is the normalised observable behaviour of one execution:
// the program's own lines and the way the program ended.
type Trace struct {
	Lines   []string
	Outcome string // "ok" | "panic:<class>" | "deadlock" | "jserror:<line>" | "timeout" | "exit:<n>"
}

// panicClasses maps a panic message prefix to its class. Go appends operands to several
// messages and GopherJS does not; the properties demand "the error Go raises", so the class
// is what is compared. Anything not in the table is compared verbatim.
var panicClasses = []string{
	"index out of range",
	"slice bounds out of range",
	"assignment to entry in nil map",
	"invalid memory address or nil pointer dereference",
	"integer divide by zero",
	"interface conversion:",
	"comparing uncomparable type",
	"hash of unhashable type",
	"makeslice: len out of range",
	"makeslice: cap out of range",
	"makechan: size out of range",
	"cannot convert slice with length",
	"close of nil channel",
	"close of closed channel",
	"send on closed channel",
	"all goroutines are asleep",
}

// PanicClass normalises a panic message.
func PanicClass(msg string) string {
	msg = strings.TrimSpace(msg)
	msg = strings.TrimSuffix(msg, " [recovered]")
	msg = strings.TrimPrefix(msg, "runtime error: ")
	for _, p := range panicClasses {
		if strings.HasPrefix(msg, p) {
			return p
		}
	}
	// Go prints error values as-is and plain strings as-is; fmt-style goexit etc. verbatim.
	return msg
}

func splitLines(s string) []string {
	s = strings.ReplaceAll(s, "\r\n", "\n")
	if s == "" {
		return nil
	}
	ls := strings.Split(s, "\n")
	if ls[len(ls)-1] == "" {
		ls = ls[:len(ls)-1]
	}
	return ls
}

// NormJS normalises a node execution of GopherJS output: program lines are stdout; the
// outcome is taken from stderr and the exit status.
func NormJS(r Run) Trace {
	t := Trace{Lines: splitLines(r.Stdout)}
	if r.TimedOut {
		t.Outcome = "timeout"
		return t
	}
	errLines := splitLines(r.Stderr)
	for _, l := range errLines {
		if strings.HasPrefix(l, "fatal error: all goroutines are asleep") {
			t.Outcome = "deadlock"
			return t
		}
	}
	if r.Exit == 0 {
		t.Outcome = "ok"
		return t
	}
	for _, l := range errLines {
		if strings.HasPrefix(l, "Error: ") {
			t.Outcome = "panic:" + PanicClass(strings.TrimPrefix(l, "Error: "))
			return t
		}
		if strings.HasPrefix(l, "panic: ") { // $panic of non-error values
			t.Outcome = "panic:" + PanicClass(strings.TrimPrefix(l, "panic: "))
			return t
		}
		// Uncaught JS-level errors: TypeError, ReferenceError, RangeError, SyntaxError …
		if i := strings.Index(l, "Error: "); i > 0 && !strings.HasPrefix(l, " ") && i < 20 {
			t.Outcome = "jserror:" + l
			return t
		}
	}
	t.Outcome = fmt.Sprintf("exit:%d", r.Exit)
	return t
}

// NormNative normalises a run of the reference binary: println goes to stderr there.
func NormNative(r Run) Trace {
	t := Trace{}
	if r.TimedOut {
		t.Outcome = "timeout"
	}
	for _, l := range splitLines(r.Stderr) {
		if strings.HasPrefix(l, "panic: ") {
			if t.Outcome == "" {
				msg := strings.TrimPrefix(l, "panic: ")
				t.Outcome = "panic:" + PanicClass(msg)
				// a chain "panic: first [recovered]\n\tpanic: second": the program dies of the
				// last one
				all := splitLines(r.Stderr)
				for i := range all {
					if all[i] == l {
						for j := i + 1; j < len(all) && strings.HasPrefix(all[j], "\tpanic: "); j++ {
							t.Outcome = "panic:" + PanicClass(strings.TrimPrefix(all[j], "\tpanic: "))
						}
						break
					}
				}
			}
			break
		}
		if strings.HasPrefix(l, "fatal error: all goroutines are asleep") {
			if t.Outcome == "" {
				t.Outcome = "deadlock"
			}
			break
		}
		if strings.HasPrefix(l, "fatal error: ") {
			if t.Outcome == "" {
				t.Outcome = "fatal:" + strings.TrimPrefix(l, "fatal error: ")
			}
			break
		}
		if strings.HasPrefix(l, "goroutine ") && strings.HasSuffix(l, "]:") {
			break
		}
		t.Lines = append(t.Lines, l)
	}
	// stdout of the native program is not used by workloads (println writes to stderr)
	if t.Outcome == "" {
		if r.Exit == 0 {
			t.Outcome = "ok"
		} else {
			t.Outcome = fmt.Sprintf("exit:%d", r.Exit)
		}
	}
	return t
}

// DiffTrace returns "" when the traces are equal, otherwise a short description of the first
// difference.
func DiffTrace(a, b Trace, an, bn string) string {
	n := len(a.Lines)
	if len(b.Lines) < n {
		n = len(b.Lines)
	}
	for i := 0; i < n; i++ {
		if a.Lines[i] != b.Lines[i] {
			return fmt.Sprintf("line %d differs:\n  %s: %s\n  %s: %s", i+1, an, clip(a.Lines[i]), bn, clip(b.Lines[i]))
		}
	}
	if len(a.Lines) != len(b.Lines) {
		var extra string
		if len(a.Lines) > n {
			extra = fmt.Sprintf("%s has extra line %d: %s", an, n+1, clip(a.Lines[n]))
		} else {
			extra = fmt.Sprintf("%s has extra line %d: %s", bn, n+1, clip(b.Lines[n]))
		}
		return fmt.Sprintf("line count differs (%s=%d, %s=%d; outcomes %s / %s): %s", an, len(a.Lines), bn, len(b.Lines), a.Outcome, b.Outcome, extra)
	}
	if a.Outcome != b.Outcome {
		return fmt.Sprintf("outcome differs: %s=%s %s=%s", an, a.Outcome, bn, b.Outcome)
	}
	return ""
}

func clip(s string) string {
	if len(s) > 300 {
		return s[:300] + "…"
	}
	return s
}

func (t Trace) String() string {
	return strings.Join(t.Lines, "\n") + "\n## outcome: " + t.Outcome + "\n"
}
