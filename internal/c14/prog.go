package c14

// progMain is the table-driven string workload. Placeholders: @STRIDE@ @OFFSET@ @NRANDOM@ @SEED@.
// All strings over the boundary alphabet up to length 3 are always enumerated; length-4 strings
// are enumerated with the given stride (1 = exhaustive).
const progMain = `package main

import "runtime"

var alphabet = []byte{0x00, 0x01, 0x22, 0x27, 0x2f, 0x5c, 0x7f, 0x80, 0xbf, 0xc0, 0xc1, 0xc2, 0xdf, 0xe0, 0xed, 0xef, 0xf0, 0xf4, 0xf5, 0xff, 0x08, 0x0a, 0x0d, 'a'}

const stride = @STRIDE@
const offset = @OFFSET@

// each enumerates the workload strings; strings are built at run time from bytes.
func each(fn func(s string)) {
	fn("")
	var buf [4]byte
	k := 0
	for _, a := range alphabet {
		buf[0] = a
		fn(string(buf[:1]))
		for _, b := range alphabet {
			buf[1] = b
			fn(string(buf[:2]))
			for _, c := range alphabet {
				buf[2] = c
				fn(string(buf[:3]))
				for _, d := range alphabet {
					k++
					if (k+offset)%stride != 0 {
						continue
					}
					buf[3] = d
					fn(string(buf[:4]))
				}
			}
		}
	}
}

// eachCat builds the same strings by concatenating one-byte strings (a different runtime path).
func eachCat(fn func(s string)) {
	one := make([]string, len(alphabet))
	for i, a := range alphabet {
		one[i] = string([]byte{a})
	}
	for _, a := range one {
		for _, b := range one {
			s2 := a + b
			fn(s2)
			for _, c := range one {
				s3 := s2
				s3 += c
				fn(s3)
			}
		}
	}
}

func errs(e interface{}) string {
	if re, ok := e.(runtime.Error); ok {
		m := re.Error()
		// operands differ in wording between implementations; keep the class
		for i := 0; i+1 < len(m); i++ {
			if m[i] == ' ' && (m[i+1] == '[' ) {
				return "RE:" + m[:i]
			}
		}
		return "RE:" + m
	}
	return "?"
}

func idx(s string, i int) (r byte, p string) {
	defer func() {
		if e := recover(); e != nil {
			p = errs(e)
		}
	}()
	return s[i], ""
}

func sl(s string, i, j int) (r string, p string) {
	defer func() {
		if e := recover(); e != nil {
			p = errs(e)
		}
	}()
	return s[i:j], ""
}

var refs = []string{"", "a", "\x00", "\x7f", "\x80", "\xff", "aa", "a\x00", "\xc2\x80", "\xed\xa0\x80", "\xf0\x90\x80\x80", "\xf4\x90\x80\x80", "\xef\xbf\xbd", "\"", "\\", "a\xff"}

func sw(s string) int {
	switch s {
	case "":
		return 1
	case "a":
		return 2
	case "\x00":
		return 3
	case "\xff":
		return 4
	case "\x80", "\xbf":
		return 5
	case "a\x00":
		return 6
	case "\xc2\x80":
		return 7
	case "\xef\xbf\xbd":
		return 8
	case "\"":
		return 9
	case "\\":
		return 10
	case "\x08":
		return 11
	case "aa" + "a":
		return 12
	}
	return 0
}

func main() {
	{
		f := newFnv()
		n := 0
		each(func(s string) {
			f.add64(uint64(len(s)))
			for i := 0; i < len(s); i++ {
				f.add64(uint64(s[i]))
			}
			n++
			if n%9973 == 0 {
				println("S lenidx " + q(s) + " " + itoa(len(s)))
			}
		})
		println("D lenidx " + f.sum() + " " + itoa(n))
	}
	{
		f := newFnv()
		n := 0
		each(func(s string) {
			for i := 0; i <= len(s); i++ {
				for j := i; j <= len(s); j++ {
					f.addStr(s[i:j])
				}
				f.addStr(s[i:])
				f.addStr(s[:i])
			}
			f.addStr(s[:])
			n++
			if n%9973 == 0 {
				println("S slices " + q(s))
			}
		})
		println("D slices " + f.sum() + " " + itoa(n))
	}
	{
		f := newFnv()
		n := 0
		each(func(s string) {
			cnt := 0
			for i, r := range s {
				f.add64(uint64(i))
				f.add64(uint64(uint32(r)))
				cnt++
			}
			f.add64(uint64(cnt))
			last := -1
			for i := range s {
				last = i
			}
			f.add64(uint64(int64(last)))
			// every form of the range clause iterates once per rune
			c0, c1, c2, c3 := 0, 0, 0, 0
			for range s {
				c0++
			}
			for _ = range s {
				c1++
			}
			for _, _ = range s {
				c2++
			}
			for _, r := range s {
				c3 += int(r & 1)
				c3 += 2
			}
			f.add64(uint64(c0)<<40 | uint64(c1)<<20 | uint64(c2))
			f.add64(uint64(c3))
			n++
			if n%9973 == 0 {
				println("S range " + q(s) + " " + itoa(cnt) + " " + itoa(last) + " " + itoa(c0) + itoa(c1) + itoa(c2))
			}
		})
		println("D range " + f.sum() + " " + itoa(n))
	}
	{
		f := newFnv()
		n := 0
		each(func(s string) {
			rs := []rune(s)
			f.add64(uint64(len(rs)))
			for _, r := range rs {
				f.add64(uint64(uint32(r)))
			}
			back := string(rs)
			f.addStr(back)
			n++
			if n%9973 == 0 {
				println("S runes " + q(s) + " " + itoa(len(rs)) + " " + q(back))
			}
		})
		println("D runes " + f.sum() + " " + itoa(n))
	}
	{
		f := newFnv()
		n := 0
		dst := make([]byte, 3)
		each(func(s string) {
			bs := []byte(s)
			f.add64(uint64(len(bs)))
			for _, b := range bs {
				f.add64(uint64(b))
			}
			if string(bs) != s {
				f.addStr("roundtrip-mismatch")
			}
			if len(bs) > 0 {
				bs[0] ^= 0xff // must not alias the string
				f.add64(uint64(s[0]))
			}
			ap := append([]byte("x"), s...)
			f.addStr(string(ap))
			c := copy(dst, s)
			f.add64(uint64(c))
			f.addStr(string(dst[:c]))
			n++
			if n%9973 == 0 {
				println("S bytes " + q(s) + " " + q(string(ap)) + " " + itoa(c))
			}
		})
		println("D bytes " + f.sum() + " " + itoa(n))
	}
	{
		f := newFnv()
		n := 0
		prev := ""
		each(func(s string) {
			for _, t := range refs {
				f.addStr(btoa(s == t) + btoa(s != t) + btoa(s < t) + btoa(s <= t) + btoa(s > t) + btoa(s >= t))
			}
			f.addStr(btoa(s == prev) + btoa(s < prev) + btoa(prev <= s))
			f.addStr(s + prev)
			f.addStr(btoa(s < "\x80") + btoa(s >= "\xc2\x80") + btoa("a" <= s) + btoa(s == "\x00"))
			prev = s
			n++
			if n%9973 == 0 {
				println("S compare " + q(s) + " " + q(prev))
			}
		})
		println("D compare " + f.sum() + " " + itoa(n))
	}
	{
		f := newFnv()
		n := 0
		m := map[string]int{}
		keys := []string{"__proto__", "constructor", "toString", "hasOwnProperty", "$", "$$", "\\$", "valueOf"}
		for i, k := range keys {
			m[k] = i + 100
		}
		each(func(s string) {
			m[s] += len(s) + 1
			f.add64(uint64(sw(s)))
			n++
			if n%9973 == 0 {
				println("S mapsw " + q(s) + " " + itoa(len(m)) + " " + itoa(sw(s)))
			}
		})
		f.add64(uint64(len(m)))
		each(func(s string) {
			v, ok := m[s]
			f.add64(uint64(v))
			f.addStr(btoa(ok))
			_, ok2 := m[s+"\x00"]
			f.addStr(btoa(ok2))
		})
		for _, k := range keys {
			f.add64(uint64(m[k]))
		}
		var un map[string]int
		f.add64(uint64(un["__proto__"]))
		println("D mapsw " + f.sum() + " " + itoa(n) + " " + itoa(len(m)))
	}
	{
		f := newFnv()
		n := 0
		eachCat(func(s string) {
			f.addStr(s)
			for _, r := range s {
				f.add64(uint64(uint32(r)))
			}
			n++
			if n%4999 == 0 {
				println("S concat " + q(s))
			}
		})
		println("D concat " + f.sum() + " " + itoa(n))
	}
	{
		f := newFnv()
		n := 0
		bounds := []int32{-2147483648, -2, -1, 0, 1, 0x7f, 0x80, 0xff, 0x100, 0x7ff, 0x800, 0xfff, 0x1000, 0xd7ff, 0xd800, 0xdbff, 0xdc00, 0xdfff, 0xe000, 0xfffd, 0xfffe, 0xffff, 0x10000, 0x10001, 0x1ffff, 0x20000, 0xfffff, 0x100000, 0x10ffff, 0x110000, 0x110001, 0x7fffffff}
		for _, r := range bounds {
			s := string(rune(r))
			f.addStr(s)
			n++
			println("S runeconv " + i64s(int64(r)) + " " + q(s))
		}
		for r := int32(-3); r < 0x110100; r += 7 {
			f.addStr(string(rune(r)))
			n++
		}
		for _, r := range bounds {
			s := string([]rune{'a', rune(r), 'b'})
			f.addStr(s)
			var u8 uint8 = uint8(r)
			f.addStr(string(rune(u8)))
			var i64 int64 = int64(r) * 3
			f.addStr(string(rune(i64)))
			n++
		}
		println("D runeconv " + f.sum() + " " + itoa(n))
	}
	{
		f := newFnv()
		n := 0
		each(func(s string) {
			if len(s) > 3 {
				return
			}
			for i := -1; i <= len(s)+1; i++ {
				r, p := idx(s, i)
				f.add64(uint64(r))
				f.addStr(p)
				for j := -1; j <= len(s)+1; j++ {
					t, p2 := sl(s, i, j)
					f.addStr(t)
					f.addStr(p2)
				}
			}
			n++
			if n%1999 == 0 {
				_, p := idx(s, len(s))
				_, p2 := sl(s, 1, 0)
				println("S bounds " + q(s) + " " + p + " " + p2)
			}
		})
		println("D bounds " + f.sum() + " " + itoa(n))
	}
	{
		f := newFnv()
		n := 0
		rg := &rng{@SEED@}
		for i := 0; i < @NRANDOM@; i++ {
			l := int(rg.next() % 65)
			bs := make([]byte, l)
			mode := rg.next() & 3
			for k := range bs {
				x := rg.next()
				switch mode {
				case 0:
					bs[k] = byte(x >> 16)
				case 1:
					bs[k] = alphabet[int((x>>16)%uint64(len(alphabet)))]
				default:
					// mostly valid UTF-8 lead/continuation mixtures
					if x&1 == 0 {
						bs[k] = 0x80 | byte(x>>8)&0x3f
					} else {
						bs[k] = []byte{0xc2, 0xe1, 0xf0, 0xf3, 0x41, 0xed, 0xe0, 0xf4}[int(x>>9)&7]
					}
				}
			}
			s := string(bs)
			for j, r := range s {
				f.add64(uint64(j))
				f.add64(uint64(uint32(r)))
			}
			rs := []rune(s)
			f.addStr(string(rs))
			a, b := int(rg.next()%uint64(l+1)), int(rg.next()%uint64(l+1))
			if a > b {
				a, b = b, a
			}
			f.addStr(s[a:b])
			f.addStr(s[b:] + s[:a])
			n++
			if n%1000 == 0 {
				println("S random " + q(s) + " " + itoa(len(rs)))
			}
		}
		println("D random " + f.sum() + " " + itoa(n))
	}
	literals()
	{
		// conversions between long byte slices / strings: every offset into the backing array
		// and every length around the chunk size of the run-time conversion loops
		f := newFnv()
		n := 0
		buf := make([]byte, 30011)
		for i := range buf {
			buf[i] = byte(i*7 + i/251 + (i>>8)*3)
		}
		offs := []int{0, 1, 16, 4096, 9999, 10000, 10001, 19999, 20000, 25000}
		lens := []int{0, 1, 2, 9999, 10000, 10001, 12000, 20000, 20001, 30011}
		for _, off := range offs {
			for _, l := range lens {
				if off+l > len(buf) {
					continue
				}
				sub := buf[off : off+l]
				str := string(sub)
				f.add64(uint64(len(str)))
				f.addStr(str)
				if l > 0 {
					f.add64(uint64(str[0])<<8 | uint64(str[l-1]))
				}
				back := []byte(str)
				f.add64(uint64(len(back)))
				same := len(back) == len(sub)
				for i := 0; same && i < len(back); i++ {
					same = back[i] == sub[i]
				}
				f.addStr(btoa(same))
				rs := []rune(str)
				f.add64(uint64(len(rs)))
				f.add64(uint64(len(string(rs))))
				f.addStr(str[l/2:] + str[:l/2])
				n++
				if n%17 == 0 {
					println("S bigconv " + itoa(off) + " " + itoa(l) + " " + itoa(len(str)) + " " + itoa(len(rs)) + " " + btoa(same))
				}
			}
		}
		println("D bigconv " + f.sum() + " " + itoa(n))
	}
	println("END")
}
`
