// Package c14 – strings are byte sequences with Go's UTF-8 behaviour.
//
// A table-driven program enumerates at run time every byte string over a 24-byte boundary
// alphabet up to length 4 (≈346 000 strings) and folds len/index/slice/range/conversion/
// comparison/map-key/switch/bounds results into digests; a second, generated part embeds
// strings as *literals* (all escape forms, raw strings, constants) so that the compiler's
// string-literal encoding is exercised. Both sides print the same lines or the check fires.
package c14

import (
	"fmt"
	"math/rand"
	"strings"
	"sync"
	"unicode/utf8"

	"verif/internal/core"
	"verif/internal/tabled"
)

var alphabet = []byte{0x00, 0x01, 0x22, 0x27, 0x2f, 0x5c, 0x7f, 0x80, 0xbf, 0xc0, 0xc1, 0xc2, 0xdf, 0xe0, 0xed, 0xef, 0xf0, 0xf4, 0xf5, 0xff, 0x08, 0x0a, 0x0d, 'a'}

var special = []string{
	"/*", "*/", "//", "/* x */", "// y\n", "\"", "'", "\\", "a\\", "\\\"", "\\\\\"", "\b", "\x08x", "</script>", "${x}", "`", "`${a}`",
	"\u2028", "\u2029", "\ufeff", "use strict", " lead", "trail ", "\ttab\t", "- -", "+ +", "a - -b", "\x00", "\x7f", "\x80", "\xff",
	"\xc0\x80", "\xed\xa0\x80", "\xf4\x90\x80\x80", "é", "😀", "a😀b", "\U0010ffff", "\n", "\r\n", "\r", "\v\f", "%s%d%%", "\\x41", "\\u0041",
	"function(){}", "return", "$", "$$", "$a", "__proto__", "\\b", "\\\b", "0", "-0", "1e3", "\x1b[31m", "日本語", "à",
}

const punct = "/*\\\"'`$ {}-+\b\n\r\t"

func goLiteral(r *rand.Rand, bs []byte) string {
	// raw string when allowed and chosen
	rawOK := utf8.Valid(bs) && len(bs) > 0
	for _, b := range bs {
		if b == '`' || b == '\r' || b == 0 || b == 0xef /* avoid BOM */ {
			rawOK = false
		}
		if b < 0x20 && b != '\n' && b != '\t' {
			rawOK = false
		}
		if b == 0x7f {
			rawOK = false
		}
	}
	if rawOK && r.Intn(3) == 0 {
		return "`" + string(bs) + "`"
	}
	var b strings.Builder
	b.WriteByte('"')
	for i := 0; i < len(bs); {
		c := bs[i]
		if c >= 0x80 {
			ru, w := utf8.DecodeRune(bs[i:])
			if ru != utf8.RuneError && w > 1 && ru != 0xfeff {
				switch r.Intn(4) {
				case 0:
					b.Write(bs[i : i+w]) // raw UTF-8 in source
				case 1:
					if ru <= 0xffff {
						fmt.Fprintf(&b, "\\u%04x", ru)
					} else {
						fmt.Fprintf(&b, "\\U%08x", ru)
					}
				default:
					for k := 0; k < w; k++ {
						fmt.Fprintf(&b, "\\x%02x", bs[i+k])
					}
				}
				i += w
				continue
			}
			if r.Intn(2) == 0 {
				fmt.Fprintf(&b, "\\x%02x", c)
			} else {
				fmt.Fprintf(&b, "\\%03o", c)
			}
			i++
			continue
		}
		switch {
		case c == '"':
			b.WriteString("\\\"")
		case c == '\\':
			b.WriteString("\\\\")
		case c == '\n' && r.Intn(2) == 0:
			b.WriteString("\\n")
		case c == '\t' && r.Intn(2) == 0:
			b.WriteString("\\t")
		case c == '\b' && r.Intn(2) == 0:
			b.WriteString("\\b")
		case c == '\r' && r.Intn(2) == 0:
			b.WriteString("\\r")
		case c < 0x20 || c == 0x7f:
			if r.Intn(2) == 0 {
				fmt.Fprintf(&b, "\\x%02x", c)
			} else {
				fmt.Fprintf(&b, "\\%03o", c)
			}
		default:
			b.WriteByte(c)
		}
		i++
	}
	b.WriteByte('"')
	return b.String()
}

func bytesLit(bs []byte) string {
	var b strings.Builder
	b.WriteString("[]byte{")
	for i, c := range bs {
		if i > 0 {
			b.WriteString(", ")
		}
		fmt.Fprintf(&b, "0x%02x", c)
	}
	b.WriteString("}")
	return b.String()
}

// genLiterals produces zz_literals.go: a table of (literal, bytes) pairs plus constant forms.
func genLiterals(r *rand.Rand, n int) (string, int) {
	var lits [][]byte
	for _, s := range special {
		lits = append(lits, []byte(s))
	}
	for b := 0; b < 256; b++ { // every single byte, and every byte between two letters
		lits = append(lits, []byte{byte(b)}, []byte{'x', byte(b), 'y'})
	}
	// every byte followed by a character that may change the meaning of an escape sequence
	// written for it (digits after an octal/NUL escape, hex digits after \x and \u, quotes...)
	for b := 0; b < 256; b++ {
		for _, f := range []byte("079afxun\\\"'`${") {
			lits = append(lits, []byte{byte(b), f})
		}
		lits = append(lits, []byte{byte(b), byte(b)}, []byte{byte(b), '1', '2', '3'})
	}
	for i := 0; i < n; i++ {
		l := r.Intn(24)
		bs := make([]byte, l)
		mode := r.Intn(4)
		for k := range bs {
			switch mode {
			case 0:
				bs[k] = byte(r.Intn(256))
			case 1:
				bs[k] = alphabet[r.Intn(len(alphabet))]
			case 2:
				bs[k] = punct[r.Intn(len(punct))]
			default:
				sp := special[r.Intn(len(special))]
				bs = append(bs[:k], sp...)
			}
			if mode == 3 {
				break
			}
		}
		lits = append(lits, bs)
	}
	// one long literal
	long := make([]byte, 20000)
	for i := range long {
		long[i] = byte(i*7 + i/256)
	}
	lits = append(lits, long)

	var b strings.Builder
	b.WriteString("package main\n\nvar litTable = []struct {\n\tlit string\n\tbs  []byte\n}{\n")
	for _, bs := range lits {
		fmt.Fprintf(&b, "\t{%s, %s},\n", goLiteral(r, bs), bytesLit(bs))
	}
	b.WriteString("}\n\n")
	// constants: folding, concatenation, len, index, slicing of constants
	nconst := 0
	b.WriteString("const (\n")
	for i := 0; i < 40; i++ {
		a, c := lits[r.Intn(len(lits)-1)], lits[r.Intn(len(lits)-1)]
		fmt.Fprintf(&b, "\tk%d = %s + %s\n", i, goLiteral(r, a), goLiteral(r, c))
		nconst++
	}
	b.WriteString(")\n\n")
	b.WriteString("func literals() {\n\t{\n\t\tf := newFnv()\n\t\tn := 0\n\t\tfor i, e := range litTable {\n\t\t\tif e.lit != string(e.bs) {\n\t\t\t\tprintln(\"S literal-differs-from-its-bytes \" + itoa(i) + \" \" + q(e.lit) + \" \" + q(string(e.bs)))\n\t\t\t}\n\t\t\tf.addStr(e.lit)\n\t\t\tf.add64(uint64(len(e.lit)))\n\t\t\tn++\n\t\t\tif n%211 == 0 {\n\t\t\t\tprintln(\"S literals \" + itoa(i) + \" \" + q(e.lit))\n\t\t\t}\n\t\t}\n\t\tprintln(\"D literals \" + f.sum() + \" \" + itoa(n))\n\t}\n")
	b.WriteString("\t{\n\t\tf := newFnv()\n\t\tn := 0\n")
	for i := 0; i < nconst; i++ {
		fmt.Fprintf(&b, "\t\tf.addStr(k%d)\n\t\tf.add64(uint64(len(k%d)))\n\t\t{\n\t\t\tvar arr [len(k%d) + 1]byte\n\t\t\tf.add64(uint64(len(arr)))\n\t\t\tv := k%d\n\t\t\tif len(v) > 0 {\n\t\t\t\tf.add64(uint64(v[len(v)-1]))\n\t\t\t\tf.addStr(v[1:])\n\t\t\t}\n\t\t}\n\t\tn++\n", i, i, i, i)
	}
	b.WriteString("\t\tf.add64(uint64(\"abc\"[1]))\n\t\tf.addStr(\"hello, world\"[3:8])\n\t\tf.add64(uint64(len(\"\\xff\\x00é\")))\n")
	b.WriteString("\t\tprintln(\"D constants \" + f.sum() + \" \" + itoa(n))\n\t}\n}\n")
	return b.String(), len(lits) + nconst
}

// Run is the C14 check.
func Run(c *core.Ctx) int {
	type job struct {
		name  string
		files map[string]string
	}
	var jobs []job
	mk := func(name string, stride, offset, nrandom, nlit int, r *rand.Rand) {
		src := progMain
		src = strings.ReplaceAll(src, "@STRIDE@", fmt.Sprint(stride))
		src = strings.ReplaceAll(src, "@OFFSET@", fmt.Sprint(offset))
		src = strings.ReplaceAll(src, "@NRANDOM@", fmt.Sprint(nrandom))
		src = strings.ReplaceAll(src, "@SEED@", fmt.Sprint(r.Int63()|1))
		lit, _ := genLiterals(r, nlit)
		jobs = append(jobs, job{name, map[string]string{"main.go": src, "zz_literals.go": lit}})
	}
	if c.Quick() {
		// length ≤3 exhaustive in every program; length 4 split 4 ways → exhaustive over the run
		for k := 0; k < 4; k++ {
			mk(fmt.Sprintf("strings-q%d", k), 4, k, 3000, 300, c.Rand(fmt.Sprint("q", k)))
		}
	} else {
		for k := 0; k < 16; k++ {
			mk(fmt.Sprintf("strings-t%d", k), 2, k%2, 20000, 3000, c.Rand(fmt.Sprint("t", k)))
		}
	}
	var mu sync.Mutex
	digests, samples, programs := 0, 0, 0
	distinct := map[string]bool{}
	evals := 0
	c.Parallel(len(jobs), func(i int) {
		st := tabled.Run(c, "c14/"+jobs[i].name, jobs[i].files, 40)
		mu.Lock()
		defer mu.Unlock()
		if !st.Ok {
			return
		}
		programs++
		digests += st.Digests
		samples += st.Samples
		evals += st.Evals
		for k := range st.Distinct {
			distinct[k] = true
		}
	})
	c.Count("programs", programs)
	c.Count("digest_lines_compared", digests)
	c.Count("sample_lines_compared", samples)
	c.Count("strings_or_cases_evaluated", evals)
	return c.Finish("exploration", evals, len(distinct), 20,
		"each program enumerates at run time all byte strings over the 24-byte boundary alphabet up to length 3 and a 1/stride slice of length 4 (the programs of one run together cover length 4 exhaustively), PRNG strings up to 64 bytes, rune conversions at every encoding boundary, bounds panics, and a generated table of string literals in every escape form; each category is one digest line compared with the reference toolchain; distinct_nontrivial = distinct (category, digest) pairs on the reference side",
		map[string]any{"alphabet": fmt.Sprintf("% x", alphabet)},
		[]string{"reference toolchain go1.23.5 defines the expected results", "panic messages are compared by class (operands stripped)"})
}
