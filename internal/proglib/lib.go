// Package proglib holds source text shared by all generated workload programs.
//
// Workload programs cannot use fmt/strconv (they do not build under GopherJS with the GOROOT
// of this sandbox), so they print through println with ONE string argument and render values
// with the helpers below. println goes to stdout under GopherJS and stderr natively; the
// harness compares program lines only.
package proglib

// AliasGopherJS / AliasNative give int/uint/uintptr a true 32-bit reference: GopherJS always
// sets the gopherjs build tag, the reference toolchain never does.
const AliasGopherJS = `//go:build gopherjs

package main

type I = int
type U = uint
type P = uintptr
`

const AliasNative = `//go:build !gopherjs

package main

type I = int32
type U = uint32
type P = uint32
`

// Lib is package-main helper code (file zz_lib.go).
const Lib = `package main

const hexdigits = "0123456789abcdef"

func u64s(v uint64) string {
	if v == 0 {
		return "0"
	}
	var b [20]byte
	i := len(b)
	for v > 0 {
		i--
		b[i] = byte('0' + v%10)
		v /= 10
	}
	return string(b[i:])
}

func i64s(v int64) string {
	if v < 0 {
		return "-" + u64s(uint64(-(v+1))+1)
	}
	return u64s(uint64(v))
}

func itoa(v int) string { return i64s(int64(v)) }

func hex64(v uint64) string {
	var b [16]byte
	for i := 15; i >= 0; i-- {
		b[i] = hexdigits[v&15]
		v >>= 4
	}
	return string(b[:])
}

func hex32(v uint32) string {
	var b [8]byte
	for i := 7; i >= 0; i-- {
		b[i] = hexdigits[v&15]
		v >>= 4
	}
	return string(b[:])
}

func btoa(b bool) string {
	if b {
		return "t"
	}
	return "f"
}

// q renders a string as printable ASCII (bytes outside 0x21..0x7e and '\\' are escaped).
func q(s string) string {
	out := make([]byte, 0, len(s)+2)
	for i := 0; i < len(s); i++ {
		c := s[i]
		if c < 0x21 || c > 0x7e || c == '\\' {
			out = append(out, '\\', 'x', hexdigits[c>>4], hexdigits[c&15])
		} else {
			out = append(out, c)
		}
	}
	return string(out)
}

// fnv is the rolling digest used by table-driven programs.
type fnv struct{ h uint64 }

func newFnv() *fnv { return &fnv{14695981039346656037} }
func (f *fnv) add64(v uint64) {
	for i := 0; i < 8; i++ {
		f.h ^= v & 0xff
		f.h *= 1099511628211
		v >>= 8
	}
}
func (f *fnv) addStr(s string) {
	for i := 0; i < len(s); i++ {
		f.h ^= uint64(s[i])
		f.h *= 1099511628211
	}
	f.h ^= 0xff
	f.h *= 1099511628211
}
func (f *fnv) sum() string { return hex64(f.h) }

// xorshift PRNG (64-bit arithmetic only on uint64 – same on both sides).
type rng struct{ s uint64 }

func (r *rng) next() uint64 {
	x := r.s
	x ^= x << 13
	x ^= x >> 7
	x ^= x << 17
	r.s = x
	return x
}
`

// WithLib adds the alias files and the helper library to a program's file set.
func WithLib(files map[string]string) map[string]string {
	files["zz_alias_js.go"] = AliasGopherJS
	files["zz_alias_native.go"] = AliasNative
	files["zz_lib.go"] = Lib
	return files
}
