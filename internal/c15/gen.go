// Package c15 – maps use Go key equality for every comparable key type.
//
// For each key type a PRNG-driven operation history (insert / overwrite / delete / lookup /
// len / full range / range with deletion and insertion) runs over a pool of adversarial keys.
// After every step the observable state (len, comma-ok lookup of every pool key, an
// order-insensitive fold of a full range) is folded into a digest; both sides must print the
// same lines. The range contract (entries present throughout are visited exactly once, entries
// deleted before being reached are never visited) is monitored inside the program because Go
// leaves the visit of concurrently inserted entries open.
package c15

import (
	"fmt"
	"math/rand"
	"strings"
)

type keySpec struct {
	Name  string // identifier-safe name
	Type  string // Go type of the key
	Decls string // package-level declarations needed
	Pool  string // statements appending to `pool` (type []Type)
}

const histTemplate = `
// ---- key type @NAME@: @TYPE@
@DECLS@
func pool_@NAME@() []@TYPE@ {
	var pool []@TYPE@
@POOL@
	return pool
}

func idx_@NAME@(pool []@TYPE@, k @TYPE@) int {
	for j := range pool {
		if pool[j] == k {
			return j
		}
	}
	return -1 // only NaN-bearing keys are unequal to every pool entry (including themselves)
}

func state_@NAME@(f *fnv, m map[@TYPE@]int, pool []@TYPE@) {
	f.add64(uint64(len(m)))
	for j := range pool {
		v, ok := m[pool[j]]
		f.add64(uint64(v))
		f.addStr(btoa(ok))
		f.add64(uint64(m[pool[j]]))
	}
	var acc, cnt uint64
	for k, v := range m {
		j := idx_@NAME@(pool, k)
		x := uint64(j+2)*1000003 + uint64(v)
		x ^= x << 13
		x ^= x >> 7
		x ^= x << 17
		acc += x
		cnt++
	}
	f.add64(acc)
	f.add64(cnt)
}

// cur_@NAME@ lives on and is returned by a getter: a key taken from a call result must be
// copied into the map, later changes of the variable must not reach the stored key.
var cur_@NAME@ @TYPE@

func getcur_@NAME@() @TYPE@ { return cur_@NAME@ }

func hist_@NAME@(seed uint64, steps int) string {
	pool := pool_@NAME@()
	rg := &rng{seed}
	f := newFnv()
	var m map[@TYPE@]int
	if rg.next()&1 == 0 {
		m = make(map[@TYPE@]int)
	} else {
		m = map[@TYPE@]int{}
	}
	viol := ""
	for s := 1; s <= steps; s++ {
		x := rg.next()
		i := int((x >> 8) % uint64(len(pool)))
		switch x & 7 {
		case 0, 1:
			m[pool[i]] = s
		case 2:
			cur_@NAME@ = pool[i]
			m[getcur_@NAME@()] = s
			cur_@NAME@ = pool[int((x>>40)%uint64(len(pool)))]
		case 3:
			delete(m, pool[i])
		case 4:
			m[pool[i]] += 1000
		case 5:
			// range with deletion and insertion: on the first iteration a fixed set is deleted
			// and a fixed set inserted; the monitor checks the visiting contract.
			d1, d2 := pool[int((x>>20)%uint64(len(pool)))], pool[int((x>>28)%uint64(len(pool)))]
			n1 := pool[int((x>>36)%uint64(len(pool)))]
			before := map[int]bool{}
			for k := range m {
				before[idx_@NAME@(pool, k)] = true
			}
			visited := map[int]int{}
			deleted := map[int]bool{}
			first := true
			nan := 0
			for k := range m {
				j := idx_@NAME@(pool, k)
				if j < 0 {
					nan++
				} else {
					visited[j]++
					if deleted[j] {
						viol = "visited-after-delete step " + itoa(s)
					}
				}
				if first {
					first = false
					for _, d := range []@TYPE@{d1, d2} {
						dj := idx_@NAME@(pool, d)
						if dj >= 0 && visited[dj] == 0 && before[dj] {
							deleted[dj] = true
						}
						delete(m, d)
					}
					nj := idx_@NAME@(pool, n1)
					if nj >= 0 && !before[nj] && nj != idx_@NAME@(pool, d1) && nj != idx_@NAME@(pool, d2) {
						m[n1] = -s
					}
				}
			}
			for j := range before {
				if j < 0 {
					continue
				}
				if j == idx_@NAME@(pool, d1) || j == idx_@NAME@(pool, d2) {
					continue
				}
				if visited[j] != 1 {
					viol = "present-throughout-visited-" + itoa(visited[j]) + "-times step " + itoa(s)
				}
			}
			for j, c := range visited {
				if c > 1 {
					viol = "visited-twice key " + itoa(j) + " step " + itoa(s)
				}
			}
		case 6:
			if x&0x300 == 0 {
				for k := range m { // clear by loop
					delete(m, k)
				}
			} else {
				_, ok := m[pool[i]]
				f.addStr(btoa(ok))
			}
		case 7:
			f.add64(uint64(len(m)))
		}
		state_@NAME@(f, m, pool)
		if verbose == "D @NAME@ " {
			println("V step " + itoa(s) + " op=" + itoa(int(x&7)) + " key#" + itoa(i) + " len=" + itoa(len(m)) + " " + f.sum() + " " + viol)
		}
	}
	if viol != "" {
		return "RANGE-CONTRACT-VIOLATION " + viol
	}
	return f.sum()
}

func run_@NAME@() {
	{
		f := newFnv()
		n := 0
		for h := 0; h < histories; h++ {
			r := hist_@NAME@(uint64(h)*2654435761+@SEED@, steps)
			f.addStr(r)
			n++
			if n%7 == 0 || (len(r) > 16) {
				println("S @NAME@ " + itoa(h) + " " + r)
			}
		}
		println("D @NAME@ " + f.sum() + " " + itoa(n*steps))
	}
	// nil map: reads see an empty map, writes panic
	{
		var nm map[@TYPE@]int
		pool := pool_@NAME@()
		v, ok := nm[pool[0]]
		cnt := 0
		for range nm {
			cnt++
		}
		delete(nm, pool[0])
		p := func() (p string) {
			defer func() {
				if e := recover(); e != nil {
					p = perr(e)
				}
			}()
			nm[pool[0]] = 1
			return "no-panic"
		}()
		println("N @NAME@ " + itoa(v) + btoa(ok) + itoa(len(nm)) + itoa(cnt) + " " + p)
	}
}
`

const c15lib = `package main

import "runtime"

const histories = @HIST@
const steps = @STEPS@

func perr(e interface{}) string {
	if re, ok := e.(runtime.Error); ok {
		m := re.Error()
		// the "runtime error: " prefix is not part of every Go message (plainError); class only
		const pre = "runtime error: "
		if len(m) > len(pre) && m[:len(pre)] == pre {
			m = m[len(pre):]
		}
		return "RE:" + m
	}
	return "?"
}

func nan() float64 { z := 0.0; return z / z }
func inf() float64 { z := 0.0; return 1 / z }
func negzero() float64 { z := 0.0; return -1 * z }
`

func intPool(t string, vals ...string) string {
	var b strings.Builder
	for _, v := range vals {
		fmt.Fprintf(&b, "\tpool = append(pool, %s(%s))\n", t, v)
	}
	return b.String()
}

func lines(ls ...string) string {
	var b strings.Builder
	for _, l := range ls {
		b.WriteString("\tpool = append(pool, " + l + ")\n")
	}
	return b.String()
}

// keySpecs returns the catalogue of key types. extra random composite types are derived from
// the seed.
func keySpecs(r *rand.Rand, nrandom int) []keySpec {
	var ks []keySpec
	add := func(name, typ, decls, pool string) { ks = append(ks, keySpec{name, typ, decls, pool}) }
	add("bool", "bool", "", lines("true", "false", "true", "!true"))
	add("int8", "int8", "", intPool("int8", "0", "-1", "127", "-128", "1", "1", "-0", "100"))
	add("uint8", "uint8", "", intPool("uint8", "0", "255", "1", "1", "128", "200"))
	add("int16", "int16", "", intPool("int16", "0", "-1", "32767", "-32768", "1", "256", "-256"))
	add("uint16", "uint16", "", intPool("uint16", "0", "65535", "1", "256", "32768"))
	add("int32", "int32", "", intPool("int32", "0", "-1", "2147483647", "-2147483648", "1", "65536", "-65536", "1"))
	add("uint32", "uint32", "", intPool("uint32", "0", "4294967295", "1", "2147483648", "65536"))
	add("int64", "int64", "", intPool("int64", "0", "-1", "1", "4294967296", "-4294967296", "4294967295", "9223372036854775807", "-9223372036854775808", "1<<32+1", "1", "-4294967295", "8589934592", "9223372036854775806", "-9223372036854775807", "1<<53", "1<<53+1", "-(1<<53)", "-(1<<53)-1", "1<<62", "1<<62+1", "1<<53-1"))
	add("uint64", "uint64", "", intPool("uint64", "0", "1", "4294967296", "4294967295", "18446744073709551615", "9223372036854775808", "1<<32+1", "1", "8589934592", "18446744073709551614", "1<<53", "1<<53+1", "9223372036854775809", "1<<53+2"))
	add("I", "I", "", intPool("I", "0", "-1", "2147483647", "-2147483648", "1", "1"))
	add("U", "U", "", intPool("U", "0", "4294967295", "1", "2147483648"))
	add("P", "P", "", intPool("P", "0", "4294967295", "1", "4096"))
	add("float64", "float64", "", lines("0", "negzero()", "nan()", "nan()", "1", "1.5", "inf()", "-inf()", "0.1+0.2", "0.3", "1e21", "1e-7", "9007199254740992", "9007199254740993", "-1", "float64(float32(0.1))", "0.1", "5e-324", "1.7976931348623157e308"))
	add("float32", "float32", "", lines("0", "float32(negzero())", "float32(nan())", "1", "1.5", "float32(inf())", "0.1", "float32(0.1)+float32(0.2)", "0.3", "16777216", "16777217", "1e-45", "3.4028235e38"))
	add("complex128", "complex128", "", lines("0", "complex(negzero(), 0)", "complex(0, negzero())", "complex(nan(), 0)", "complex(0, nan())", "1+2i", "2+1i", "complex(1, 2)", "complex(inf(), 1)", "1i", "1"))
	add("complex64", "complex64", "", lines("0", "complex64(complex(negzero(), 0))", "complex64(complex(nan(), 1))", "1+2i", "2+1i", "complex64(complex(0.1, 0.2))", "1i"))
	add("string", "string", "", lines(`""`, `"a"`, `"$"`, `"a$b"`, `"\\$"`, `"\\"`, `"\\\\$"`, `"NaN$1"`, `"1"`, `"01"`, `"__proto__"`, `"constructor"`, `"\x00"`, `"a\x00"`, `"a"+""`, `"\xff"`, `"\xc3\xbf"`, `"ÿ"`, `"$$"`, `"toString"`, `"0"`, `"-0"`, `"nil"`))
	add("namedstr", "MyStr", "type MyStr string\n", lines(`""`, `"a"`, `"$a"`, `MyStr("a")`, `"a$"`))
	add("namedint", "MyInt", "type MyInt int32\n", lines("0", "1", "-1", "MyInt(1)"))
	add("ptr", "*int", "var pv_a, pv_b int\nvar pv_arr [3]int\nvar pv_s = struct{ x, y int }{}\n", lines("&pv_a", "&pv_b", "&pv_a", "nil", "&pv_arr[0]", "&pv_arr[1]", "&pv_arr[0]", "&pv_s.x", "&pv_s.y", "&pv_s.x", "new(int)", "new(int)"))
	add("ptrstruct", "*PS", "type PS struct{ a int }\nvar ps_a, ps_b PS\nvar ps_arr [2]PS\n", lines("&ps_a", "&ps_b", "&ps_a", "nil", "&ps_arr[0]", "&ps_arr[1]", "&ps_arr[0]", "new(PS)", "&PS{1}", "&PS{1}"))
	add("chanint", "chan int", "var ch_a, ch_b = make(chan int), make(chan int, 1)\n", lines("ch_a", "ch_b", "ch_a", "nil", "make(chan int)"))
	add("iface", "interface{}", "type IT1 int\ntype IT2 int\ntype IS struct{ a int }\nvar if_x int\nvar if_ch = make(chan int)\ntype IfCh chan int\ntype IfNA [2]int32\nvar if_pna = &IfNA{1, 2}\ntype IfS1 struct{ a int }\ntype IfS2 struct{ a int }\nvar if_ps = &IfS1{1}\n",
		lines("nil", "int8(1)", "int16(1)", "int32(1)", "int64(1)", "uint8(1)", "1.0", "float32(1)", `"1"`, "IT1(1)", "IT2(1)", "true", "IS{1}", "IS{1}", "IS{2}", "&if_x", "&if_x", "[2]int{1, 2}", "[2]int{1, 2}", "[2]int8{1, 2}", "struct{ a int }{1}", "nan()", "complex(1, 0)", "'1'", "rune('1')", "byte('1')", `""`, "[0]int{}", "struct{}{}", "int64(4294967297)", "uint64(4294967297)", "localT1()", "localT2()", "localT1()",
			"if_ch", "(<-chan int)(if_ch)", "(chan<- int)(if_ch)", "IfCh(if_ch)", "(chan int)(nil)", "(chan string)(nil)", "IfCh(nil)", "if_ch",
			"if_pna", "(*[2]int32)(if_pna)", "if_ps", "(*IfS2)(if_ps)", "if_pna"))
	add("ifacem", "Str", "type Str interface{ S() string }\ntype SA int\nfunc (a SA) S() string { return \"\" }\ntype SB int\nfunc (b SB) S() string { return \"\" }\ntype SC struct{ p *int }\nfunc (c SC) S() string { return \"\" }\nvar sc_i int\n",
		lines("nil", "SA(1)", "SB(1)", "SA(1)", "SA(2)", "SC{&sc_i}", "SC{&sc_i}", "SC{nil}", "Str(SA(1))"))
	add("arr2str", "[2]string", "", lines(`[2]string{"a$b", "c"}`, `[2]string{"a", "b$c"}`, `[2]string{"a", "b"}`, `[2]string{"a\\", "$b"}`, `[2]string{"a\\$", "b"}`, `[2]string{"", ""}`, `[2]string{"$", ""}`, `[2]string{"", "$"}`, `[2]string{"a", "b"}`))
	add("arr3i8", "[3]int8", "", lines("[3]int8{1, 2, 3}", "[3]int8{1, 2, 3}", "[3]int8{-1, 2, 3}", "[3]int8{}", "[3]int8{0, 0, 1}"))
	add("arr0", "[0]int", "", lines("[0]int{}", "[0]int{}"))
	add("arrarr", "[2][2]uint16", "", lines("[2][2]uint16{{1, 2}, {3, 4}}", "[2][2]uint16{{1, 2}, {3, 4}}", "[2][2]uint16{{1, 2}, {3, 5}}", "[2][2]uint16{}", "[2][2]uint16{{12, 0}, {3, 4}}", "[2][2]uint16{{1, 20}, {3, 4}}"))
	add("arrf", "[2]float64", "", lines("[2]float64{0, 1}", "[2]float64{negzero(), 1}", "[2]float64{nan(), 1}", "[2]float64{1, 0}", "[2]float64{0.5, 1}"))
	add("arrany", "[2]interface{}", "", lines(`[2]interface{}{1, "a"}`, `[2]interface{}{int8(1), "a"}`, `[2]interface{}{1, "a"}`, `[2]interface{}{nil, nil}`, `[2]interface{}{"1$a", nil}`, `[2]interface{}{"1", "a"}`))
	add("st2s", "S2", "type S2 struct{ a, b string }\n", lines(`S2{"a$b", "c"}`, `S2{"a", "b$c"}`, `S2{"a", "b"}`, `S2{a: "a", b: "b"}`, `S2{}`, `S2{"\\", "$"}`, `S2{"\\$", ""}`))
	add("stmix", "SM", "type SM struct {\n\tx int32\n\ty float64\n\tz string\n\tw bool\n\tv int64\n}\n", lines(`SM{1, 2, "3", true, 4}`, `SM{1, 2, "3", true, 4}`, `SM{1, 2, "3", false, 4}`, `SM{}`, `SM{0, negzero(), "", false, 0}`, `SM{0, nan(), "", false, 0}`, `SM{1, 2, "3", true, 1 << 32}`, `SM{1, 2, "3", true, 1<<32 + 4}`))
	add("stnest", "SN", "type SNI struct {\n\ta [2]int8\n\ts string\n}\ntype SN struct {\n\tin SNI\n\tp  *int\n\ti  interface{}\n}\nvar sn_p int\n", lines(`SN{SNI{[2]int8{1, 2}, "x"}, &sn_p, 1}`, `SN{SNI{[2]int8{1, 2}, "x"}, &sn_p, 1}`, `SN{SNI{[2]int8{1, 2}, "x"}, nil, 1}`, `SN{SNI{[2]int8{1, 2}, "x"}, &sn_p, int8(1)}`, `SN{}`, `SN{SNI{[2]int8{1, 2}, "x$"}, &sn_p, "1"}`))
	add("stempty", "struct{}", "", lines("struct{}{}", "struct{}{}"))
	add("stblank", "SBl", "type SBl struct {\n\ta int\n\t_ int\n\tb string\n}\n", lines(`SBl{a: 1, b: "x"}`, `SBl{a: 1, b: "x"}`, `SBl{a: 2, b: "x"}`))
	add("stembed", "SE", "type SEB struct{ k int16 }\ntype SE struct {\n\tSEB\n\tn string\n}\n", lines(`SE{SEB{1}, "a"}`, `SE{SEB{1}, "a"}`, `SE{SEB{2}, "a"}`, `SE{}`))
	{
		// every pair of strings over the characters the runtime uses to join and escape the
		// parts of a composite key
		var esc []string
		for _, a := range []string{"", "\\", "$", "a"} {
			for _, b := range []string{"", "\\", "$", "$$", "\\$", "$\\"} {
				esc = append(esc, a+b)
			}
		}
		var av, sv, iv []string
		for _, x := range esc {
			for _, y := range esc {
				if (len(x)+len(y))%3 == 0 || x == "" || y == "" {
					av = append(av, fmt.Sprintf("[2]string{%q, %q}", x, y))
					sv = append(sv, fmt.Sprintf("S2E{%q, %q}", x, y))
					iv = append(iv, fmt.Sprintf("[2]interface{}{%q, %q}", x, y))
				}
			}
		}
		add("arr2esc", "[2]string", "", lines(av...))
		add("st2esc", "S2E", "type S2E struct{ a, b string }\n", lines(sv...))
		add("arrany2esc", "[2]interface{}", "", lines(iv...))
	}
	add("namedarr", "NA", "type NAE string\ntype NA [2]NAE\n", lines(`NA{"a", "b"}`, `NA{"a$b", ""}`, `NA{"a", "b"}`))
	// random composite key types
	for i := 0; i < nrandom; i++ {
		ks = append(ks, randomComposite(r, i))
	}
	return ks
}

var leafTypes = []struct {
	typ  string
	vals []string
}{
	{"int8", []string{"0", "1", "-1", "127"}},
	{"uint16", []string{"0", "1", "65535"}},
	{"int32", []string{"0", "-1", "65536"}},
	{"int64", []string{"0", "1", "4294967296", "-1", "1<<53", "1<<53+1", "-9223372036854775808", "-9223372036854775807"}},
	{"uint64", []string{"0", "4294967296", "18446744073709551615", "18446744073709551614", "1<<53+1", "1<<53"}},
	{"string", []string{`""`, `"a"`, `"$"`, `"a$b"`, `"\\"`, `"b"`, `"$$"`, `"a\\"`, `"a$$\\"`, `"\\$"`}},
	{"bool", []string{"true", "false"}},
	{"float64", []string{"0", "negzero()", "1.5", "nan()"}},
	{"interface{}", []string{"nil", "1", "int8(1)", `"1"`, "true"}},
	{"complex128", []string{"0", "1i", "complex(negzero(), 0)"}},
}

// randomComposite builds a nested array/struct key type (depth ≤3) with a pool in which many
// values differ in exactly one leaf.
func randomComposite(r *rand.Rand, n int) keySpec {
	var decls strings.Builder
	cnt := 0
	var gen func(depth int) (typ string, vals func() string)
	gen = func(depth int) (string, func() string) {
		if depth == 0 || r.Intn(4) == 0 {
			lt := leafTypes[r.Intn(len(leafTypes))]
			return lt.typ, func() string { return lt.vals[r.Intn(len(lt.vals))] }
		}
		if r.Intn(2) == 0 {
			et, ev := gen(depth - 1)
			ln := 1 + r.Intn(3)
			typ := fmt.Sprintf("[%d]%s", ln, et)
			return typ, func() string {
				parts := make([]string, ln)
				for i := range parts {
					parts[i] = ev()
				}
				return typ + "{" + strings.Join(parts, ", ") + "}"
			}
		}
		nf := 1 + r.Intn(3)
		cnt++
		name := fmt.Sprintf("RC%d_%d", n, cnt)
		type fld struct {
			t string
			v func() string
		}
		fs := make([]fld, nf)
		var body strings.Builder
		for i := range fs {
			t, v := gen(depth - 1)
			fs[i] = fld{t, v}
			fmt.Fprintf(&body, "\tf%d %s\n", i, t)
		}
		fmt.Fprintf(&decls, "type %s struct {\n%s}\n", name, body.String())
		return name, func() string {
			parts := make([]string, nf)
			for i := range parts {
				parts[i] = fs[i].v()
			}
			return name + "{" + strings.Join(parts, ", ") + "}"
		}
	}
	typ, vals := gen(3)
	var pool []string
	for i := 0; i < 14; i++ {
		pool = append(pool, vals())
	}
	pool = append(pool, pool[0], pool[3])
	name := fmt.Sprintf("rc%d", n)
	return keySpec{name, typ, decls.String(), lines(pool...)}
}

const extras = `
func localT1() interface{} {
	type T int
	return T(1)
}

func localT2() interface{} {
	type T int
	return T(1)
}

func try(fn func()) (p string) {
	defer func() {
		if e := recover(); e != nil {
			p = perr(e)
		}
	}()
	fn()
	return "no-panic"
}

// tryp reports the class of the panic (Go: run-time error "hash of unhashable type T"; the
// operand spelling is not compared).
func tryp(fn func()) string {
	r := try(fn)
	const cls = "RE:hash of unhashable type"
	if len(r) >= len(cls) && r[:len(cls)] == cls {
		return cls
	}
	return r
}

func extraCases() {
	// unhashable dynamic key types must panic on insert, lookup and delete
	m := map[interface{}]int{}
	var sl interface{} = []int{1}
	var mp interface{} = map[int]int{}
	var fn interface{} = func() {}
	var st interface{} = struct{ s []int }{}
	var ar interface{} = [1][]int{}
	for i, k := range []interface{}{sl, mp, fn, st, ar} {
		k := k
		println("U insert " + itoa(i) + " " + tryp(func() { m[k] = 1 }))
		println("U lookup " + itoa(i) + " " + tryp(func() { _ = m[k] }))
		println("U commaok " + itoa(i) + " " + tryp(func() { _, _ = m[k] }))
		println("U delete " + itoa(i) + " " + tryp(func() { delete(m, k) }))
	}
	println("U len " + itoa(len(m)))
	// literals with equal-looking keys of different dynamic types
	lm := map[interface{}]string{int8(1): "a", int16(1): "b", "1": "c", 1: "d", 1.0: "e", true: "f", IT1(1): "g", IT2(1): "h", localT1(): "i", localT2(): "j"}
	println("L len " + itoa(len(lm)) + " " + lm[int8(1)] + lm[int16(1)] + lm["1"] + lm[1] + lm[1.0] + lm[true] + lm[IT1(1)] + lm[IT2(1)] + lm[localT1()] + lm[localT2()])
	// maps of maps, map values that are structs/arrays (copied on read)
	mm := map[string]map[int64]string{}
	mm["a"] = map[int64]string{1 << 40: "x"}
	mm["a"][1] = "y"
	mm["b"] = mm["a"]
	mm["b"][2] = "z"
	println("M " + itoa(len(mm)) + itoa(len(mm["a"])) + mm["a"][1<<40] + mm["b"][1] + mm["a"][2] + mm["c"][5] + itoa(len(mm["c"])))
	type V struct{ a [2]int }
	mv := map[int]V{1: {[2]int{1, 2}}}
	v := mv[1]
	v.a[0] = 9
	println("M " + itoa(mv[1].a[0]) + itoa(v.a[0]))
	// NaN keys: every insert adds an entry, lookups never find them, delete cannot remove them
	fm := map[float64]int{}
	for i := 0; i < 5; i++ {
		fm[nan()] = i
	}
	_, ok := fm[nan()]
	delete(fm, nan())
	sum := 0
	for k, v := range fm {
		if k == k {
			sum += 1000
		}
		sum += v
	}
	fm[negzero()] = 7
	println("F " + itoa(len(fm)) + btoa(ok) + itoa(sum) + itoa(fm[0]))
	im := map[interface{}]int{}
	im[nan()] = 1
	im[nan()] = 2
	im[[1]float64{nan()}] = 3
	im[[1]float64{nan()}] = 4
	_, ok2 := im[nan()]
	println("F " + itoa(len(im)) + btoa(ok2))
}
`

// genProgram builds one program for a group of key specs.
func genProgram(specs []keySpec, seed int64, histories, steps int, withExtras bool) map[string]string {
	var b strings.Builder
	b.WriteString("package main\n")
	for _, k := range specs {
		s := histTemplate
		s = strings.ReplaceAll(s, "@NAME@", k.Name)
		s = strings.ReplaceAll(s, "@TYPE@", k.Type)
		s = strings.ReplaceAll(s, "@DECLS@", k.Decls)
		s = strings.ReplaceAll(s, "@POOL@", k.Pool)
		s = strings.ReplaceAll(s, "@SEED@", fmt.Sprint(uint32(seed)|1))
		b.WriteString(s)
	}
	b.WriteString("\nfunc main() {\n")
	for _, k := range specs {
		fmt.Fprintf(&b, "\trun_%s()\n", k.Name)
	}
	if withExtras {
		b.WriteString("\textraCases()\n")
	}
	b.WriteString("\tprintln(\"END\")\n}\n")
	lib := strings.ReplaceAll(strings.ReplaceAll(c15lib, "@HIST@", fmt.Sprint(histories)), "@STEPS@", fmt.Sprint(steps))
	files := map[string]string{"main.go": b.String(), "c15lib.go": lib}
	if withExtras {
		files["extras.go"] = "package main\n" + extras
	}
	return files
}
