package c15

import (
	"fmt"
	"strings"
	"sync"

	"verif/internal/core"
	"verif/internal/tabled"
)

// Run is the C15 check.
func Run(c *core.Ctx) int {
	r := c.Rand("types")
	specs := keySpecs(r, c.N(12, 120))
	histories, steps := c.N(10, 60), 200
	type job struct {
		name  string
		files map[string]string
		types []string
	}
	var jobs []job
	per := 6
	for i := 0; i < len(specs); i += per {
		j := i + per
		if j > len(specs) {
			j = len(specs)
		}
		grp := specs[i:j]
		extras := false
		var names []string
		for _, k := range grp {
			names = append(names, k.Name+":"+k.Type)
			if k.Name == "iface" {
				extras = true
			}
		}
		jobs = append(jobs, job{fmt.Sprintf("maps-%02d-%s", i/per, grp[0].Name), genProgram(grp, c.Rand(fmt.Sprint("seed", i)).Int63(), histories, steps, extras), names})
	}
	var mu sync.Mutex
	digests, evals, programs, other := 0, 0, 0, 0
	distinct := map[string]bool{}
	c.Parallel(len(jobs), func(i int) {
		st := tabled.Run(c, "c15/"+jobs[i].name, jobs[i].files, 3)
		mu.Lock()
		defer mu.Unlock()
		if !st.Ok {
			return
		}
		programs++
		digests += st.Digests
		evals += st.Evals
		other += st.Samples
		for k := range st.Distinct {
			distinct[k] = true
		}
	})
	c.Count("programs", programs)
	c.Count("key_types", len(specs))
	c.Count("history_steps_executed", evals)
	c.Count("digest_lines_compared", digests)
	var tn []string
	for _, s := range specs {
		tn = append(tn, s.Type)
	}
	return c.Finish("exploration", evals, len(distinct), len(specs)/2,
		"per key type: PRNG-driven histories (insert/overwrite/op-assign/delete/lookup/len/clear-by-loop/range with deletion+insertion) over a pool of adversarial keys; after every step len, comma-ok lookup of every pool key and an order-insensitive fold of a full range are folded into the digest; range contract monitored in-program; nil-map, unhashable-key, NaN-key, literal and map-of-map cases; compared with the reference toolchain. distinct_nontrivial = distinct (key type, digest) pairs",
		map[string]any{"key_types": strings.Join(tn, " | "), "histories_per_type": histories, "steps_per_history": steps},
		[]string{"reference toolchain go1.23.5 defines the expected results", "int keys are referenced through 32-bit aliases"})
}
