// Package c17 – builds are reproducible.
//
// Equivalence classes of builds whose output must be byte-identical: repeated fresh compiler
// processes (Go randomises map iteration per process and per range statement, so repetition is
// the perturbation), permutations of the file arguments of `gopherjs build a.go b.go …`, files
// created on disk in different orders, a package compiled alone vs after other projects in the
// same session, plain and minified. A -race build of the driver runs 8 sessions concurrently
// (the `serve` scenario): a data race inside github.com/gopherjs/gopherjs is shared mutable
// compiler state, i.e. exactly what would make output depend on what else is being compiled.
package c17

import (
	"crypto/sha256"
	"encoding/hex"
	"fmt"
	"math/rand"
	"os"
	"path/filepath"
	"sort"
	"strings"
	"sync"
	"time"

	"verif/internal/c04"
	"verif/internal/core"
	"verif/internal/progen"
)

func hashFile(p string) string {
	b, err := os.ReadFile(p)
	if err != nil {
		return "missing"
	}
	h := sha256.Sum256(b)
	return hex.EncodeToString(h[:8])
}

// splitMain spreads the declarations of main.go over several files (file-order workloads).
func splitMain(files map[string]string, parts int) []string {
	src := files["main.go"]
	chunks := strings.Split(src, "\nfunc ")
	if len(chunks) < parts+1 {
		return []string{"main.go"}
	}
	head := chunks[0]
	hdrEnd := strings.Index(head, "\n\n")
	pkgLine := "package main\n"
	imports := ""
	if i := strings.Index(head, "import ("); i >= 0 {
		j := strings.Index(head[i:], ")\n")
		imports = head[i : i+j+2]
	}
	_ = hdrEnd
	var names []string
	per := (len(chunks) - 1 + parts - 1) / parts
	files["main.go"] = head
	names = append(names, "main.go")
	for p := 0; p < parts; p++ {
		lo, hi := 1+p*per, 1+(p+1)*per
		if lo >= len(chunks) {
			break
		}
		if hi > len(chunks) {
			hi = len(chunks)
		}
		body := "func " + strings.Join(chunks[lo:hi], "\nfunc ")
		name := fmt.Sprintf("part_%c.go", 'z'-p) // names sort opposite to creation order
		// independent package-level initialisers with side effects and the methods of one type
		// spread over the files: their order in the output must not follow the listing order
		body += fmt.Sprintf("\n\nvar spreadInit%d = spreadNote(\"part%d\")\n\nvar spreadTable%d = map[string]int{\"k%d\": spreadNote(\"table%d\")}\n\nfunc (s spreadT) Method%d() string { return \"m%d\" }\n\nfunc (s *spreadT) ptrMethod%d() int { return %d }\n", p, p, p, p, p, p, p, p, p)
		files[name] = pkgLine + "\n" + imports + "\n" + body + "\n"
		names = append(names, name)
	}
	files["main.go"] += "\n\ntype spreadT struct{ n int }\n\nvar spreadLog []string\n\nfunc spreadNote(s string) int {\n\tspreadLog = append(spreadLog, s)\n\treturn len(spreadLog)\n}\n\nvar spreadUse interface{} = &spreadT{}\n"
	return names
}

// indirectGenerics is a program in which six packages hold only generic code that is
// instantiated from the body of main's generic function, and each of them instantiates the
// generics of one shared package with its own type arguments: the instances of those packages
// are discovered in one propagation round, in an order the compiler has to normalise.
func indirectGenerics(r *rand.Rand) map[string]string {
	files := map[string]string{}
	files["shared/shared.go"] = "package shared\n\ntype Box[A, B any] struct {\n\tA A\n\tB B\n}\n\nfunc Size[A, B any](a A, b B) int {\n\treturn len([]interface{}{a, b, Box[A, B]{a, b}, Wrap[B](b)})\n}\n\nfunc Wrap[X any](x X) []X { return []X{x, x} }\n"
	tys := []string{"int8", "uint32", "string", "float64", "[]byte", "map[string]int16", "bool", "complex64", "[2]uint16", "*int32"}
	r.Shuffle(len(tys), func(i, j int) { tys[i], tys[j] = tys[j], tys[i] })
	var calls, imports strings.Builder
	for k := 1; k <= 6; k++ {
		name := fmt.Sprintf("p%c%d", 'a'+r.Intn(26), k)
		files[name+"/"+name+".go"] = fmt.Sprintf("package %s\n\nimport \"prog/shared\"\n\nfunc F[T any](v T) int {\n\tvar z %s\n\treturn shared.Size[T, %s](v, z) + g[T](v)\n}\n\nfunc g[T any](v T) int {\n\tvar z []%s\n\treturn len(shared.Wrap(z)) + shared.Size[[]T, []%s]([]T{v}, z)\n}\n", name, tys[k], tys[k], tys[k], tys[k])
		fmt.Fprintf(&imports, "\t\"prog/%s\"\n", name)
		fmt.Fprintf(&calls, "\tn += %s.F(v)\n", name)
	}
	files["main.go"] = "package main\n\nimport (\n" + imports.String() + ")\n\nfunc stats[T any](v T) int {\n\tn := 0\n" + calls.String() + "\treturn n\n}\n\nfunc main() {\n\tprintln(stats(int32(1)) + stats(\"s\") + stats([]float32{1}))\n}\n"
	return files
}

// Run is the C17 check.
func Run(c *core.Ctx) int {
	nprog := c.N(6, 16)
	builds := c.N(5, 10)
	type job struct {
		name  string
		files map[string]string
		kind  string
	}
	var jobs []job
	for i := 0; i < nprog; i++ {
		r := c.Rand(fmt.Sprint("p", i))
		if i%6 == 4 {
			jobs = append(jobs, job{fmt.Sprintf("indirect-generics-%d", i), indirectGenerics(r), "generic-indirect"})
		} else if i%2 == 0 {
			jobs = append(jobs, job{fmt.Sprintf("generic-%d", i), c04.Generate(r, 8+r.Intn(10)), "generic-5pkg"})
		} else {
			p := progen.Generate(r, progen.Options{Cases: 8, StmtsPer: 8, BoxStruct: true})
			jobs = append(jobs, job{fmt.Sprintf("progen-%d", i), p.Files, "progen"})
		}
	}
	var mu sync.Mutex
	total, classes := 0, 0
	distinct := map[string]bool{}
	c.Parallel(len(jobs), func(i int) {
		j := jobs[i]
		name := "c17/" + j.name
		dir := c.Dir("prog")
		defer os.RemoveAll(dir)
		core.WriteFiles(dir, j.files)
		report := func(class string, hashes map[string][]string) {
			// hashes: hash → builds that produced it
			if len(hashes) > 1 {
				var desc []string
				for h, bs := range hashes {
					desc = append(desc, fmt.Sprintf("%s ← %v", h, bs))
				}
				sort.Strings(desc)
				files := map[string]string{"hashes.txt": strings.Join(desc, "\n") + "\n"}
				for k, v := range j.files {
					files["src/"+k] = v
				}
				c.Violate(name+"/"+class, fmt.Sprintf("%s: builds in equivalence class %q are not byte-identical:\n%s", name, class, strings.Join(desc, "\n")), files)
			}
			mu.Lock()
			classes++
			for h := range hashes {
				distinct[j.kind+"/"+class+"/"+h] = true
			}
			mu.Unlock()
		}
		for _, minify := range []bool{false, true} {
			suffix := map[bool]string{false: "plain", true: "min"}[minify]
			// (1) repeated fresh CLI processes
			js, mp := map[string][]string{}, map[string][]string{}
			for b := 0; b < builds; b++ {
				cr := c.CompileJS(dir, core.CompileOpt{CLI: true, Minify: minify, Out: "out.js"})
				if !cr.OK {
					c.Inconclusive("compile-failed")
					if os.Getenv("VERIF_DEBUG") != "" {
						fmt.Fprintln(os.Stderr, name, cr.Output)
					}
					return
				}
				h := hashFile(filepath.Join(dir, "out.js"))
				js[h] = append(js[h], fmt.Sprint("build#", b))
				h2 := hashFile(filepath.Join(dir, "out.js.map"))
				mp[h2] = append(mp[h2], fmt.Sprint("build#", b))
				mu.Lock()
				total++
				mu.Unlock()
			}
			report("fresh-process/"+suffix+"/js", js)
			report("fresh-process/"+suffix+"/map", mp)
			// the in-process child must produce the same bytes as the CLI
			cr := c.CompileJS(dir, core.CompileOpt{Minify: minify, MapFile: true, Out: "out.js"})
			if cr.OK {
				h := hashFile(filepath.Join(dir, "out.js"))
				js[h] = append(js[h], "in-process")
				report("cli-vs-library/"+suffix, js)
			}
		}
		// (2) compiled alone vs after other projects in the same session
		{
			// the other project has its own import path (two different projects under one
			// import path in one session is not a configuration the property speaks about)
			other := c.Dir("other")
			op := progen.Generate(c.Rand(fmt.Sprint("other", i)), progen.Options{Cases: 4, StmtsPer: 6})
			op.Files["go.mod"] = "module otherproj\n\ngo 1.20\n"
			core.WriteFiles(other, op.Files)
			hs := map[string][]string{}
			r1 := core.Exec(dir, core.BaseEnv(), 5*time.Minute, "", c.Self, "c17-seq", "alone.js", dir)
			r2 := core.Exec(dir, core.BaseEnv(), 5*time.Minute, "", c.Self, "c17-seq", "after.js", other, dir)
			r3 := core.Exec(dir, core.BaseEnv(), 5*time.Minute, "", c.Self, "c17-seq", "twice.js", dir, other, dir)
			if r1.Exit == 0 && r2.Exit == 0 && r3.Exit == 0 {
				hs[hashFile(filepath.Join(dir, "alone.js"))] = append(hs[hashFile(filepath.Join(dir, "alone.js"))], "alone")
				hs[hashFile(filepath.Join(dir, "after.js"))] = append(hs[hashFile(filepath.Join(dir, "after.js"))], "after-other-project")
				hs[hashFile(filepath.Join(dir, "twice.js"))] = append(hs[hashFile(filepath.Join(dir, "twice.js"))], "second-build-in-session")
				report("same-session", hs)
				mu.Lock()
				total += 3
				mu.Unlock()
			} else {
				c.Inconclusive("c17-seq-failed")
				if os.Getenv("VERIF_DEBUG") != "" {
					fmt.Fprintln(os.Stderr, name, r1.Stderr, r2.Stderr, r3.Stderr)
				}
			}
			os.RemoveAll(other)
		}
		// (3) file argument permutations and on-disk creation order (single-package programs)
		if j.kind == "progen" {
			fdir := c.Dir("files")
			defer os.RemoveAll(fdir)
			files := map[string]string{}
			for k, v := range j.files {
				files[k] = v
			}
			names := splitMain(files, 3)
			var all []string
			for k := range files {
				if strings.HasSuffix(k, ".go") && !strings.Contains(k, "/") && k != "zz_alias_native.go" {
					all = append(all, k)
				}
			}
			// two .inc.js files of the package: their order in the output follows neither the
			// listing order nor the creation order
			files["aa.inc.js"] = "// first include\n$global.vpIncOrder = ($global.vpIncOrder || \"\") + \"a\";\n"
			files["bb.inc.js"] = "// second include\n$global.vpIncOrder = ($global.vpIncOrder || \"\") + \"b\";\n"
			all = append(all, "aa.inc.js", "bb.inc.js")
			sort.Strings(all)
			_ = names
			hs := map[string][]string{}
			hsMin := map[string][]string{}
			r := c.Rand("perm" + j.name)
			for p := 0; p < 4; p++ {
				// re-create the files on disk in a different order each time
				os.RemoveAll(fdir)
				os.MkdirAll(fdir, 0o755)
				order := r.Perm(len(all))
				os.WriteFile(filepath.Join(fdir, "go.mod"), []byte("module prog\n\ngo 1.20\n"), 0o644)
				args := make([]string, len(all))
				for k, oi := range order {
					os.WriteFile(filepath.Join(fdir, all[oi]), []byte(files[all[oi]]), 0o644)
					args[k] = all[oi]
				}
				cr := c.CompileJS(fdir, core.CompileOpt{CLI: true, Files: args, Out: "out.js"})
				if !cr.OK {
					c.Inconclusive("files-mode-compile-failed")
					if os.Getenv("VERIF_DEBUG") != "" {
						fmt.Fprintln(os.Stderr, name, cr.Output)
					}
					break
				}
				h := hashFile(filepath.Join(fdir, "out.js"))
				hs[h] = append(hs[h], "order:"+strings.Join(args, ","))
				// the minified build of the same listing (positions in the file set depend on
				// the order in which the files were parsed; nothing of them may reach the output)
				if crm := c.CompileJS(fdir, core.CompileOpt{CLI: true, Files: args, Out: "outm.js", Minify: true}); crm.OK {
					hm := hashFile(filepath.Join(fdir, "outm.js")) + "/" + hashFile(filepath.Join(fdir, "outm.js.map"))
					hsMin[hm] = append(hsMin[hm], "order:"+strings.Join(args, ","))
				} else {
					c.Inconclusive("files-mode-minified-compile-failed")
				}
				cr2 := c.CompileJS(fdir, core.CompileOpt{CLI: true, Out: "dir.js"})
				if cr2.OK {
					h2 := "dirmode:" + hashFile(filepath.Join(fdir, "dir.js"))
					_ = h2
				}
				mu.Lock()
				total++
				mu.Unlock()
			}
			if len(hs) > 0 {
				report("file-argument-order", hs)
			}
			if len(hsMin) > 0 {
				report("file-argument-order/min", hsMin)
			}
			// directory mode after different creation orders
			hd := map[string][]string{}
			for p := 0; p < 3; p++ {
				os.RemoveAll(fdir)
				os.MkdirAll(fdir, 0o755)
				order := r.Perm(len(all))
				os.WriteFile(filepath.Join(fdir, "go.mod"), []byte("module prog\n\ngo 1.20\n"), 0o644)
				var created []string
				for _, oi := range order {
					os.WriteFile(filepath.Join(fdir, all[oi]), []byte(files[all[oi]]), 0o644)
					created = append(created, all[oi])
				}
				os.WriteFile(filepath.Join(fdir, "zz_alias_native.go"), []byte(files["zz_alias_native.go"]), 0o644)
				cr := c.CompileJS(fdir, core.CompileOpt{CLI: true, Out: "out.js"})
				if !cr.OK {
					c.Inconclusive("dir-mode-compile-failed")
					break
				}
				h := hashFile(filepath.Join(fdir, "out.js"))
				hd[h] = append(hd[h], "created:"+strings.Join(created, ","))
				mu.Lock()
				total++
				mu.Unlock()
			}
			if len(hd) > 0 {
				report("file-creation-order", hd)
			}
		}
	})
	// (4) concurrent sessions under the race detector
	races, concBuilds := raceRun(c, jobs[0].files)
	c.Count("builds_hashed", total)
	c.Count("equivalence_classes_checked", classes)
	c.Count("concurrent_builds_under_race_detector", concBuilds)
	c.Count("race_reports_in_gopherjs", races)
	c.Sample(map[string]any{"classes": []string{"fresh-process/{plain,min}/{js,map}", "cli-vs-library", "same-session (alone / after other project / second build)", "file-argument-order", "file-creation-order", "concurrent sessions (-race)"}, "builds_per_class": builds})
	return c.Finish("exploration", total+concBuilds, len(distinct), nprog,
		"per program (5-package generic programs with instances requested from three packages; progen programs split over several files): sha256 of out.js / out.js.map over repeated fresh CLI processes, CLI vs library build, alone vs after another project vs second build in one session, permuted file arguments, permuted on-disk creation order, plain and minified; plus 8 concurrent sessions in a -race build (data-race reports with gopherjs frames are violations). distinct_nontrivial = distinct (workload kind, class, hash) triples observed (one per class when reproducible)",
		nil, []string{"Go's per-process and per-range map iteration randomisation is the only perturbation of compiler-internal order; repetition count bounds the detection probability of order dependence"})
}

// raceRun builds the driver with -race and runs concurrent sessions on one project.
func raceRun(c *core.Ctx, files map[string]string) (races, builds int) {
	bin := filepath.Join(c.Scratch, "bin", "vp.race")
	args := []string{"build", "-race", "-tags", "verif vp_c17", "-o", bin}
	if mf := os.Getenv("VERIF_MODFLAG"); mf != "" {
		args = append(args, mf)
	}
	args = append(args, "./cmd/vp")
	r := core.Exec(c.Verif, core.BaseEnv(), 15*time.Minute, "", "go", args...)
	if r.Exit != 0 {
		c.Inconclusive("race-build-failed")
		fmt.Println("race build failed:", r.Stderr)
		return 0, 0
	}
	dir := c.Dir("race")
	defer os.RemoveAll(dir)
	core.WriteFiles(dir, files)
	logp := filepath.Join(dir, "race.log")
	n := c.N(8, 8)
	rounds := c.N(2, 10)
	rr := core.Exec(dir, core.BaseEnv("GORACE=halt_on_error=0 log_path="+logp), 20*time.Minute, "", bin, "c17-conc", fmt.Sprint(n), fmt.Sprint(rounds))
	if rr.TimedOut {
		c.Inconclusive("race-run-timeout")
		return 0, 0
	}
	builds = n * rounds
	if !strings.Contains(rr.Stdout, "CONC-OK") {
		if strings.Contains(rr.Stdout, "CONC-DIFF") {
			c.Violate("c17/concurrent-sessions-differ", "concurrent sessions produced different output for the same program: "+rr.Stdout, map[string]string{"stdout.txt": rr.Stdout})
		} else {
			c.Inconclusive("race-run-failed")
			fmt.Println("c17-conc failed:", rr.Stdout, rr.Stderr)
			return 0, 0
		}
	}
	logs, _ := filepath.Glob(logp + ".*")
	seen := map[string]bool{}
	for _, lf := range logs {
		b, _ := os.ReadFile(lf)
		for _, blk := range strings.Split(string(b), "==================") {
			if !strings.Contains(blk, "WARNING: DATA RACE") || !strings.Contains(blk, "github.com/gopherjs/gopherjs/") {
				continue
			}
			// dedupe by the first gopherjs frame of each stack
			key := ""
			for _, l := range strings.Split(blk, "\n") {
				l = strings.TrimSpace(l)
				if strings.HasPrefix(l, "github.com/gopherjs/gopherjs/") {
					key += l + "|"
					if strings.Count(key, "|") >= 2 {
						break
					}
				}
			}
			if !seen[key] {
				seen[key] = true
				races++
				c.Violate("c17/data-race/"+key, "data race inside the compiler while sessions build concurrently (shared mutable compiler state):\n"+blk, map[string]string{"race.txt": blk})
			}
		}
	}
	return races, builds
}
