package c10

import (
	"fmt"
	"os"
	"path"
	"regexp"
	"sort"
	"strings"
	"sync"

	"verif/internal/core"
)

// nativeFiles renames the files of every package so that the reference toolchain (ascending
// file-name order) presents them in the order the observed compiler uses (descending
// file-name order, compiler/sources.Sort). Which order is used is left open by the Go
// specification; that it is a function of the names only is checked separately (C17).
func nativeFiles(files map[string]string) map[string]string {
	byDir := map[string][]string{}
	for k := range files {
		if strings.HasSuffix(k, ".go") {
			byDir[path.Dir(k)] = append(byDir[path.Dir(k)], k)
		}
	}
	out := map[string]string{}
	for k, v := range files {
		if !strings.HasSuffix(k, ".go") {
			out[k] = v
		}
	}
	for d, ks := range byDir {
		sort.Sort(sort.Reverse(sort.StringSlice(ks)))
		for i, k := range ks {
			out[path.Join(d, fmt.Sprintf("f%03d_%s", i, path.Base(k)))] = files[k]
		}
	}
	return out
}

var importRe = regexp.MustCompile(`"prog/(p\d+)"`)

// importGraph extracts package → imported packages from the generated sources.
func importGraph(files map[string]string) map[string]map[string]bool {
	g := map[string]map[string]bool{}
	for k, v := range files {
		if !strings.HasSuffix(k, ".go") || strings.HasPrefix(k, "lib/") {
			continue
		}
		p := path.Dir(k)
		if p == "." {
			p = "main"
		}
		if g[p] == nil {
			g[p] = map[string]bool{}
		}
		for _, m := range importRe.FindAllStringSubmatch(v, -1) {
			g[p][m[1]] = true
		}
	}
	return g
}

func pkgOf(line string) string {
	// "I p3/a_0.go:V1 …" or "I main/a_0.go:init#0"
	if !strings.HasPrefix(line, "I ") {
		return ""
	}
	rest := line[2:]
	if i := strings.IndexByte(rest, '/'); i > 0 {
		return rest[:i]
	}
	return ""
}

// checkInitTrace applies the initialisation-order model to one observed trace and compares the
// per-package event order with the reference.
func checkInitTrace(js, ref core.Trace, g map[string]map[string]bool) string {
	if js.Outcome != ref.Outcome {
		return fmt.Sprintf("outcome differs: observed %s, reference %s", js.Outcome, ref.Outcome)
	}
	proj := func(t core.Trace) (map[string][]string, []string) {
		m := map[string][]string{}
		var rest []string
		for _, l := range t.Lines {
			if p := pkgOf(l); p != "" {
				m[p] = append(m[p], l)
			} else {
				rest = append(rest, l)
			}
		}
		return m, rest
	}
	jm, jrest := proj(js)
	rm, rrest := proj(ref)
	for p, rl := range rm {
		if strings.Join(jm[p], "\n") != strings.Join(rl, "\n") {
			d := core.DiffTrace(core.Trace{Lines: jm[p], Outcome: "x"}, core.Trace{Lines: rl, Outcome: "x"}, "observed", "reference")
			return "events of package " + p + " differ from the reference (same file order presented): " + d
		}
	}
	for p := range jm {
		if _, ok := rm[p]; !ok {
			return "package " + p + " initialised in the observed run only"
		}
	}
	if strings.Join(jrest, "\n") != strings.Join(rrest, "\n") {
		return "main.main / SUM / END lines differ: observed " + strings.Join(jrest, " | ") + " reference " + strings.Join(rrest, " | ")
	}
	// model on the observed trace
	first, last := map[string]int{}, map[string]int{}
	var seq []string
	for i, l := range js.Lines {
		p := pkgOf(l)
		if p == "" {
			continue
		}
		if _, ok := first[p]; !ok {
			first[p] = i
			seq = append(seq, p)
		}
		last[p] = i
	}
	for p := range first { // contiguity: initialised once, nothing overtakes
		for i := first[p]; i <= last[p]; i++ {
			if q := pkgOf(js.Lines[i]); q != p {
				return fmt.Sprintf("initialisation of package %s is interleaved with %q (line %d)", p, js.Lines[i], i+1)
			}
		}
	}
	for p, imps := range g {
		for q := range imps {
			if _, ok := first[q]; !ok {
				continue // package without traced events
			}
			if fp, ok := first[p]; ok && last[q] > fp {
				return fmt.Sprintf("package %s (imported by %s) is not fully initialised before %s starts", q, p, p)
			}
		}
	}
	for i, l := range js.Lines {
		if strings.HasSuffix(l, "(suspending)") {
			want := strings.TrimSuffix(l, "(suspending)") + "(resumed)"
			if i+1 >= len(js.Lines) || js.Lines[i+1] != want {
				return fmt.Sprintf("something overtook a suspended initialiser: after %q came %q", l, js.Lines[min(i+1, len(js.Lines)-1)])
			}
		}
		if l == "I main.main" {
			for _, l2 := range js.Lines[i+1:] {
				if pkgOf(l2) != "" {
					return "initialisation event after main.main started: " + l2
				}
			}
		}
	}
	return ""
}

func min(a, b int) int {
	if a < b {
		return a
	}
	return b
}

// Run is the C10 check.
func Run(c *core.Ctx) int {
	n := c.N(32, 400)
	var mu sync.Mutex
	programs, lines, suspends, pkgsSeen := 0, 0, 0, 0
	distinct := map[string]bool{}
	c.Parallel(n+1, func(i int) {
		var name string
		var files map[string]string
		strict := false
		if i == n {
			name, files, strict = "c10/linkname-valid", linknameValid(), true
		} else {
			name, files = fmt.Sprintf("c10/init-%d-%d", c.Seed, i), Generate(c.Rand(fmt.Sprint("p", i)))
		}
		prog := &core.Program{Name: name, Files: files}
		opt := core.DiffOpt{Variants: []core.CompileOpt{{}, {Minify: true}}, Names: []string{"plain", "minified"}, Quiet: true, NativeFiles: nativeFiles(files)}
		res := c.DiffProgram(prog, opt)
		if res.Verdict == "inconclusive" || !res.CompileOK && res.Verdict != "violated" {
			if os.Getenv("VERIF_DEBUG") != "" {
				fmt.Fprintln(os.Stderr, name, res.Diff)
			}
			return
		}
		bundle := map[string]string{"ref.out": res.Ref.String()}
		for k, v := range files {
			bundle["src/"+k] = v
		}
		if len(res.JS) < 2 {
			c.Violate(name, name+": "+res.Diff, bundle)
			return
		}
		g := importGraph(files)
		for vi, jt := range res.JS {
			vn := []string{"plain", "minified"}[vi]
			var why string
			if strict {
				why = core.DiffTrace(jt, res.Ref, vn, "go")
			} else {
				why = checkInitTrace(jt, res.Ref, g)
			}
			if why != "" {
				bundle[vn+".out"] = jt.String()
				c.Violate(name, fmt.Sprintf("%s (%s build): %s", name, vn, why), bundle)
				break
			}
		}
		mu.Lock()
		defer mu.Unlock()
		programs++
		lines += res.Lines
		for _, l := range res.Ref.Lines {
			if strings.Contains(l, "(suspending)") {
				suspends++
			}
		}
		pkgsSeen += len(g)
		distinct[fmt.Sprint(len(g), res.Lines, res.Ref.Outcome)] = true
		if programs <= 2 && len(res.Ref.Lines) > 6 {
			c.Sample(map[string]any{"program": name, "packages": len(g), "trace_head": res.JS[0].Lines[:6]})
		}
	})
	// invalid directive uses must be rejected by the observed compiler (no reference involved)
	inv := linknameInvalid()
	var names []string
	for k := range inv {
		names = append(names, k)
	}
	sort.Strings(names)
	rejected := 0
	for _, k := range names {
		prog := &core.Program{Name: "c10/linkname-invalid/" + k, Files: inv[k]}
		dir := c.WriteProgram(prog)
		cr := c.CompileJS(dir, core.CompileOpt{})
		if cr.OK {
			files := map[string]string{}
			for fn, v := range inv[k] {
				files["src/"+fn] = v
			}
			c.Violate(prog.Name, "unsupported use of go:linkname ("+k+") was accepted by the compiler", files)
		} else if cr.Internal {
			c.Violate(prog.Name+"/internal", "unsupported use of go:linkname ("+k+") ends in an internal compiler error instead of a diagnostic:\n"+cr.Output, nil)
		} else {
			rejected++
		}
		os.RemoveAll(dir)
	}
	c.Count("programs", programs)
	c.Count("packages_initialised", pkgsSeen)
	c.Count("trace_lines_compared_x2", lines)
	c.Count("suspending_initialisers_executed", suspends)
	c.Count("invalid_linkname_uses_rejected", rejected)
	return c.Finish("exploration", programs+len(names), len(distinct), n/3,
		"import DAGs of 2-8 generated packages (plus side-effect-only imports), 1-4 files per package, 3-10 package variables per package with dependency webs through other variables, functions, methods, closures, multi-value initialisers and imported packages' variables, 0-3 init functions per file, suspending initialisers and init functions; every initialiser and init traces itself. Oracle: (a) the events of each package appear in the order the reference toolchain produces when it is presented the files in the observed compiler's order; (b) model over the observed trace: each package's events are contiguous (initialised once, nothing overtakes a suspended initialiser), every imported package is complete before its importer starts, main.main comes last. Plain and minified builds. Plus a linkname program (function, value and pointer methods, blocking target, both import directions, call during package initialisation, function values) compared strictly with the reference, and three invalid uses that must be rejected with a diagnostic. distinct_nontrivial = distinct (package count, trace length, outcome) classes",
		nil, []string{"the order in which the files of a package are presented is left open by the Go specification; the observed compiler uses descending file-name order, the reference is given renamed copies that reproduce it", "relative initialisation order of packages that do not import each other is not part of the property", "reference toolchain go1.23.5"})
}
