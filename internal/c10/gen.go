// Package c10 – packages are linked and initialised in Go order; linknames resolve.
package c10

import (
	"fmt"
	"math/rand"
	"sort"
	"strings"
)

const libSrc = `package lib

var n int32

// Tr traces an initialisation step and passes the value through.
func Tr(name string, v int32) int32 {
	n++
	println("I " + name)
	return v
}

// Yield suspends the calling goroutine once (a pure channel hand-off).
func Yield() {
	c := make(chan struct{})
	go func() { c <- struct{}{} }()
	<-c
}

// TrY traces, suspends, traces again: nothing else may appear between the two lines.
func TrY(name string, v int32) int32 {
	println("I " + name + " (suspending)")
	Yield()
	println("I " + name + " (resumed)")
	return v
}

func Itoa(v int) string {
	if v == 0 {
		return "0"
	}
	neg := v < 0
	if neg {
		v = -v
	}
	s := ""
	for v > 0 {
		s = string(rune('0'+v%10)) + s
		v /= 10
	}
	if neg {
		s = "-" + s
	}
	return s
}
`

type pkg struct {
	Name    string
	Imports []*pkg
	Files   []string
	NVars   int
}

// Generate builds a multi-package program with an initialisation dependency web.
// It returns the files and the list of package names.
func Generate(r *rand.Rand) map[string]string {
	files := map[string]string{"lib/lib.go": libSrc}
	np := 2 + r.Intn(6)
	var pkgs []*pkg
	for i := 0; i < np; i++ {
		p := &pkg{Name: fmt.Sprintf("p%d", i)}
		for _, q := range pkgs {
			if r.Intn(3) == 0 {
				p.Imports = append(p.Imports, q)
			}
		}
		pkgs = append(pkgs, p)
	}
	mainPkg := &pkg{Name: "main"}
	for _, q := range pkgs {
		if r.Intn(2) == 0 {
			mainPkg.Imports = append(mainPkg.Imports, q)
		}
	}
	if len(mainPkg.Imports) == 0 {
		mainPkg.Imports = append(mainPkg.Imports, pkgs[len(pkgs)-1])
	}
	// packages nobody imports are still linked through a side-effect import from main
	imported := map[string]bool{}
	var mark func(p *pkg)
	mark = func(p *pkg) {
		for _, q := range p.Imports {
			if !imported[q.Name] {
				imported[q.Name] = true
				mark(q)
			}
		}
	}
	mark(mainPkg)
	var blankImports []*pkg
	for _, q := range pkgs {
		if !imported[q.Name] && r.Intn(2) == 0 {
			blankImports = append(blankImports, q)
		}
	}
	all := append(append([]*pkg{}, pkgs...), mainPkg)
	for _, p := range all {
		genPkg(r, p, files, p == mainPkg, blankImports)
	}
	return files
}

func genPkg(r *rand.Rand, p *pkg, files map[string]string, isMain bool, blank []*pkg) {
	nf := 1 + r.Intn(4)
	letters := r.Perm(8)
	var fnames []string
	for i := 0; i < nf; i++ {
		fnames = append(fnames, fmt.Sprintf("%c_%d.go", 'a'+letters[i], i))
	}
	sort.Strings(fnames)
	p.Files = fnames
	nv := 3 + r.Intn(8)
	p.NVars = nv
	dir := p.Name + "/"
	pkgName := p.Name
	if isMain {
		dir = ""
	}
	// declarations: variable i may depend on variables < i and on functions <= i; function j
	// reads variables < j. Declarations are then dealt to the files in random order so that
	// forward references across and within files abound.
	type decl struct {
		text string
	}
	var decls []decl
	tag := func(file, name string) string { return fmt.Sprintf("%s/%s:%s", pkgName, file, name) }
	fileOf := make([]string, 0)
	type pending struct {
		mk func(file string) string
	}
	var pend []pending
	for i := 0; i < nv; i++ {
		i := i
		pend = append(pend, pending{func(file string) string {
			var deps []string
			for k := 0; k < r.Intn(3); k++ {
				if i > 0 {
					deps = append(deps, fmt.Sprintf("V%d", r.Intn(i)))
				}
			}
			if r.Intn(3) == 0 {
				deps = append(deps, fmt.Sprintf("fn%d()", r.Intn(i+1)))
			}
			if r.Intn(4) == 0 && i > 0 {
				deps = append(deps, fmt.Sprintf("holder{}.m%d()", r.Intn(i)+1))
			}
			if r.Intn(4) == 0 && i > 0 {
				deps = append(deps, fmt.Sprintf("func() int32 { return V%d + 1 }()", r.Intn(i)))
			}
			for _, q := range p.Imports {
				if r.Intn(3) == 0 {
					deps = append(deps, fmt.Sprintf("%s.V%d", q.Name, r.Intn(q.NVars)))
				}
			}
			expr := fmt.Sprint(i + 1)
			if len(deps) > 0 {
				expr += " + " + strings.Join(deps, " + ")
			}
			tr := "lib.Tr"
			if r.Intn(6) == 0 {
				tr = "lib.TrY" // suspending initialiser
			}
			switch r.Intn(8) {
			case 0:
				return fmt.Sprintf("var V%d, W%d = pair%d(%s(%q, %s))\n", i, i, i, tr, tag(file, fmt.Sprintf("V%d", i)), expr)
			default:
				return fmt.Sprintf("var V%d = %s(%q, %s)\n", i, tr, tag(file, fmt.Sprintf("V%d", i)), expr)
			}
		}})
	}
	for j := 0; j <= nv; j++ {
		j := j
		pend = append(pend, pending{func(file string) string {
			body := fmt.Sprint(j)
			if j > 0 {
				body += fmt.Sprintf(" + V%d", r.Intn(j))
				if r.Intn(2) == 0 {
					body += fmt.Sprintf(" + V%d", r.Intn(j))
				}
			}
			s := fmt.Sprintf("func fn%d() int32 { return %s }\n", j, body)
			s += fmt.Sprintf("func pair%d(a int32) (int32, int32) { return a, a * 2 }\n", j)
			if j > 0 {
				s += fmt.Sprintf("func (holder) m%d() int32 { return V%d }\n", j, j-1)
			}
			return s
		}})
	}
	ninit := r.Intn(3*nf + 1)
	for k := 0; k < ninit; k++ {
		k := k
		pend = append(pend, pending{func(file string) string {
			body := fmt.Sprintf("\tlib.Tr(%q, 0)\n", tag(file, fmt.Sprintf("init#%d", k)))
			if r.Intn(4) == 0 {
				body = fmt.Sprintf("\tlib.TrY(%q, 0)\n", tag(file, fmt.Sprintf("init#%d", k)))
			}
			if r.Intn(3) == 0 {
				body += fmt.Sprintf("\tV%d += 100\n", r.Intn(nv))
			}
			return "func init() {\n" + body + "}\n"
		}})
	}
	if r.Intn(2) == 0 {
		pend = append(pend, pending{func(file string) string {
			return fmt.Sprintf("var _ = lib.Tr(%q, 0)\n", tag(file, "blank"))
		}})
	}
	// deal to files; init functions keep their relative order within a file by construction
	r.Shuffle(len(pend), func(i, j int) { pend[i], pend[j] = pend[j], pend[i] })
	content := map[string]*strings.Builder{}
	for _, f := range fnames {
		b := &strings.Builder{}
		fmt.Fprintf(b, "package %s\n\nimport (\n\t\"prog/lib\"\n", pkgName)
		content[f] = b
	}
	// imports: every file imports everything the package imports (unused imports are avoided by
	// a blank use)
	for _, f := range fnames {
		b := content[f]
		for _, q := range p.Imports {
			fmt.Fprintf(b, "\t\"prog/%s\"\n", q.Name)
		}
		if isMain && f == fnames[0] {
			for _, q := range blank {
				fmt.Fprintf(b, "\t_ \"prog/%s\"\n", q.Name)
			}
		}
		b.WriteString(")\n\nvar _ = lib.Itoa\n")
		for _, q := range p.Imports {
			fmt.Fprintf(b, "var _ = %s.V0\n", q.Name)
		}
		b.WriteString("\n")
	}
	for _, pd := range pend {
		f := fnames[r.Intn(len(fnames))]
		content[f].WriteString(pd.mk(f))
		content[f].WriteString("\n")
	}
	content[fnames[0]].WriteString("type holder struct{}\n\n")
	if isMain {
		b := content[fnames[len(fnames)-1]]
		b.WriteString("func main() {\n\tprintln(\"I main.main\")\n\tsum := int32(0)\n")
		for i := 0; i < nv; i++ {
			fmt.Fprintf(b, "\tsum = sum*3 + V%d\n", i)
		}
		for _, q := range p.Imports {
			fmt.Fprintf(b, "\tsum += %s.V%d\n", q.Name, q.NVars-1)
		}
		b.WriteString("\tprintln(\"SUM \" + lib.Itoa(int(sum)))\n\tprintln(\"END\")\n}\n")
	}
	_ = decls
	_ = fileOf
	for _, f := range fnames {
		files[dir+f] = content[f].String()
	}
}

// linknamePrograms returns programs exercising go:linkname: valid directives whose calls must
// reach the named implementation (compared with the reference), and invalid uses that the
// observed compiler must reject.
func linknameValid() map[string]string {
	return map[string]string{
		"lib/lib.go": libSrc,
		"impl/impl.go": `package impl

import (
	_ "unsafe"

	"prog/lib"
)

type T struct{ N int32 }

func (t T) val(a int32) int32   { lib.Tr("impl.T.val", 0); return t.N + a }
func (t *T) ptr(a int32) int32  { lib.Tr("impl.(*T).ptr", 0); t.N += a; return t.N }
func hidden(a int32) int32      { lib.Tr("impl.hidden", 0); return a * 2 }
func hidden2(a int32) int32     { lib.Tr("impl.hidden2", 0); return a * 3 }
func blocking(a int32) int32    { return lib.TrY("impl.blocking", a+1) }

// suspends only through helpers of its own package (declared after it) and through a
// function value: nothing in its own body blocks
func viaHelper(a int32) int32 { return helper1(a) + helperVar(a) }
func helper1(a int32) int32   { return helper2(a) + 1 }
func helper2(a int32) int32   { return lib.TrY("impl.helper2", a) }

var helperVar = func(a int32) int32 { return helper2(a + 100) }

type W struct{ N int32 }

func (w *W) wait(a int32) int32 { return w.inner(a) }
func (w *W) inner(a int32) int32 { w.N += lib.TrY("impl.(*W).inner", a); return w.N }

// pulled from a package that imports this one (opposite direction of the import graph)
//
//go:linkname fromMid prog/mid.exportedToImpl
func fromMid(a int32) int32

func CallBack(a int32) int32 { return fromMid(a) + 1 }

var Keep = []interface{}{T.val, (*T).ptr, hidden, hidden2, blocking, viaHelper, (*W).wait}
`,
		"impl/stub.s": "// allows body-less declarations\n",
		// a package that declares no directive itself and whose functions are reachable only
		// through the linknames of other packages
		"bare/bare.go": `package bare

import "prog/lib"

type B struct{ N int32 }

func only(a int32) int32        { lib.Tr("bare.only", 0); return a + 7 }
func (b B) val(a int32) int32   { lib.Tr("bare.B.val", 0); return b.N + a }
func (b *B) ptr(a int32) int32  { lib.Tr("bare.(*B).ptr", 0); b.N += a; return b.N }
`,
		"mid/stub.s": "// allows body-less declarations\n",
		"mid/mid.go": `package mid

import (
	_ "unsafe"

	"prog/impl"
	"prog/lib"
)

func exportedToImpl(a int32) int32 { lib.Tr("mid.exportedToImpl", 0); return a + 40 }

// an exported function without a body, implemented in another package, called from a third
//
//go:linkname Exported prog/impl.hidden2
func Exported(a int32) int32

// implemented by the main package (the linker calls its symbols main.<name>)
//
//go:linkname fromMain main.secret
func fromMain(a int32) int32

func CallMain(a int32) int32 { return fromMain(a) + 1 }

func Use(a int32) int32 { return impl.CallBack(a) }

var Keep = exportedToImpl
`,
		"stub.s": "// allows body-less declarations\n",
		"main.go": `package main

import (
	_ "unsafe"

	"prog/bare"
	"prog/impl"
	"prog/lib"
	"prog/mid"
)

//go:linkname hidden prog/impl.hidden
func hidden(a int32) int32

//go:linkname other prog/impl.hidden2
func other(a int32) int32

//go:linkname tval prog/impl.T.val
func tval(t impl.T, a int32) int32

//go:linkname tptr prog/impl.(*T).ptr
func tptr(t *impl.T, a int32) int32

//go:linkname blocking prog/impl.blocking
func blocking(a int32) int32

//go:linkname bareOnly prog/bare.only
func bareOnly(a int32) int32

//go:linkname bareVal prog/bare.B.val
func bareVal(b bare.B, a int32) int32

//go:linkname barePtr prog/bare.(*B).ptr
func barePtr(b *bare.B, a int32) int32

//go:linkname viaHelper prog/impl.viaHelper
func viaHelper(a int32) int32

//go:linkname wwait prog/impl.(*W).wait
func wwait(w *impl.W, a int32) int32

func secret(a int32) int32 { lib.Tr("main.secret", 0); return a * 2 }

var keepSecret = secret

var early = hidden(5) // linknames must be resolved before any initialiser runs

var earlyBlocking = viaHelper(7) // an initialiser that suspends inside a linknamed function

func main() {
	t := impl.T{N: 10}
	println("L " + lib.Itoa(int(early)) + " " + lib.Itoa(int(hidden(1))) + " " + lib.Itoa(int(other(1))))
	println("L " + lib.Itoa(int(tval(t, 1))) + " " + lib.Itoa(int(tptr(&t, 5))) + " " + lib.Itoa(int(t.N)))
	println("L " + lib.Itoa(int(blocking(1))))
	w := &impl.W{N: 1}
	println("L " + lib.Itoa(int(earlyBlocking)) + " " + lib.Itoa(int(viaHelper(2))) + " " + lib.Itoa(int(wwait(w, 3))) + " " + lib.Itoa(int(w.N)))
	println("L " + lib.Itoa(int(impl.CallBack(2))) + " " + lib.Itoa(int(mid.Use(3))))
	println("L " + lib.Itoa(int(mid.Exported(2))) + " " + lib.Itoa(int(mid.CallMain(5))))
	bb := bare.B{N: 2}
	println("L " + lib.Itoa(int(bareOnly(1))) + " " + lib.Itoa(int(bareVal(bb, 3))) + " " + lib.Itoa(int(barePtr(&bb, 4))) + " " + lib.Itoa(int(bb.N)))
	f := hidden
	g := tptr
	println("L " + lib.Itoa(int(f(3))) + " " + lib.Itoa(int(g(&t, 1))))
	println("END")
}
`,
	}
}

// invalid directive uses: name → files; the observed compiler must reject each build.
func linknameInvalid() map[string]map[string]string {
	base := func(mainSrc string) map[string]string {
		return map[string]string{"main.go": mainSrc, "impl/impl.go": "package impl\n\nfunc hidden(a int32) int32 { return a }\n\nvar V int32\n\nvar Keep = hidden\n", "stub.s": "// x\n"}
	}
	return map[string]map[string]string{
		"on-variable":     base("package main\n\nimport (\n\t_ \"unsafe\"\n\n\t_ \"prog/impl\"\n)\n\n//go:linkname v prog/impl.V\nvar v int32\n\nfunc main() { println(v) }\n"),
		"without-unsafe":  base("package main\n\nimport _ \"prog/impl\"\n\n//go:linkname hidden prog/impl.hidden\nfunc hidden(a int32) int32\n\nfunc main() { println(hidden(1)) }\n"),
		"push-local-body": base("package main\n\nimport (\n\t_ \"unsafe\"\n\n\t_ \"prog/impl\"\n)\n\n//go:linkname local prog/impl.pushed\nfunc local(a int32) int32 { return a }\n\nfunc main() { println(local(1)) }\n"),
	}
}
