package c11

import (
	"fmt"
	"strings"
)

// bulkProgram: high-volume in-program PRNG workload. Each iteration is one value case that is
// checked three ways without harness-side literals:
//   - JS side (probe __vpBulkStr/__vpBulkNum/__vpBulkDesc): what arrived equals an independent
//     description of the value sent along with it (UTF-16 units computed by unicode/utf16, float64
//     bits split into two uint32, typed-array descriptor built from the elements);
//   - Go side: the value read back equals the value sent (bytewise / bitwise).
//
// Lines: "F bulk.<name> …" for the first failures, "B <name> n=<n> fail=<k>" summaries.
func bulkProgram(seed uint64, nStr, nNum, nTA int) map[string]string {
	src := specialHeader + `
import (
	"unicode/utf16"
	"unicode/utf8"
)

type W struct {
	*js.Object
	S   string  ` + "`js:\"s\"`" + `
	F   float64 ` + "`js:\"f\"`" + `
	I   int     ` + "`js:\"i\"`" + `
	I64 int64   ` + "`js:\"i64\"`" + `
	U64 uint64  ` + "`js:\"u64\"`" + `
}

var gotS string
var gotF float64
var gotI8 int8
var gotI16 int16
var gotI32 int32
var gotU8 uint8
var gotU16 uint16
var gotU32 uint32
var gotI64 int64
var gotU64 uint64
var curS string
var curF float64

var classes = [][2]rune{
	{0x00, 0x7f}, {0x20, 0x7e}, {0x80, 0x7ff}, {0x800, 0xd7ff}, {0xe000, 0xffff}, {0x10000, 0x10ffff}, {0x1f300, 0x1f6ff},
	{0x7f, 0x80}, {0x7ff, 0x800}, {0xfffd, 0x10000}, {0xd7ff, 0xd7ff}, {0xe000, 0xe000}, {0x10ffff, 0x10ffff}, {0, 0},
}

func randString(r *rng) string {
	n := int(r.next() % 13)
	b := make([]byte, 0, 4*n)
	for i := 0; i < n; i++ {
		c := classes[r.next()%uint64(len(classes))]
		x := c[0] + rune(r.next()%uint64(c[1]-c[0]+1))
		if x >= 0xd800 && x <= 0xdfff {
			x = 0xfffd
		}
		b = utf8.AppendRune(b, x)
	}
	return string(b)
}

type failer struct {
	name string
	n, k int
}

func (f *failer) fail(what string) {
	f.k++
	if f.k <= 5 {
		println("F bulk." + f.name + " " + what)
	}
}
func (f *failer) done() { println("B " + f.name + " n=" + itoa(f.n) + " fail=" + itoa(f.k)) }

func bulkStrings(n int, seed uint64) {
	r := &rng{seed}
	w := &W{Object: newObj()}
	js.Global.Set("c11recvS", func(s string) { gotS = s })
	js.Global.Set("c11retS", func() string { return curS })
	retS := js.Global.Get("c11retS")
	f := &failer{name: "str"}
	for i := 0; i < n; i++ {
		s := randString(r)
		u := utf16.Encode([]rune(s))
		f.n++
		var back *js.Object
		switch i % 6 {
		case 0:
			back = js.Global.Call("__vpBulkStr", "str.call", s, u)
		case 1:
			js.Global.Set("c11s", s)
			back = js.Global.Call("__vpBulkStr", "str.set", js.Global.Get("c11s"), u)
		case 2:
			w.S = s
			back = js.Global.Call("__vpBulkStr", "str.field", w.Object.Get("s"), u)
		case 3:
			curS = s
			back = js.Global.Call("__vpBulkStr", "str.ret", retS.Invoke(), u)
		case 4:
			var a any = s
			back = js.Global.Call("__vpBulkStr", "str.iface", a, u)
		default:
			back = js.Global.Call("__vpBulkStr", "str.S", js.S{s}.Index0(), u)
		}
		// JS -> Go, four ways
		var got string
		switch (i / 6) % 4 {
		case 0:
			got = back.String()
		case 1:
			x, _ := back.Interface().(string)
			got = x
		case 2:
			js.Global.Call("c11recvS", back)
			got = gotS
		default:
			w.Object.Set("s", back)
			got = w.S
		}
		if got != s {
			f.fail("roundtrip way=" + itoa(i%6) + "/" + itoa((i/6)%4) + " sent=" + shS(s) + " got=" + shS(got))
		}
		// a string built in JavaScript from the same code units
		s2 := js.Global.Call("__mkStr", u).String()
		if s2 != s {
			f.fail("fromJS sent=" + shS(s) + " got=" + shS(s2))
		}
		if back.Length() != len(u) {
			f.fail("length " + shS(s))
		}
	}
	f.done()
}

func bulkNumbers(n int, seed uint64) {
	r := &rng{seed}
	w := &W{Object: newObj()}
	js.Global.Set("c11recvF", func(x float64) { gotF = x })
	js.Global.Set("c11retF", func() float64 { return curF })
	js.Global.Set("c11recvI8", func(x int8) { gotI8 = x })
	js.Global.Set("c11recvI16", func(x int16) { gotI16 = x })
	js.Global.Set("c11recvI32", func(x int32) { gotI32 = x })
	js.Global.Set("c11recvU8", func(x uint8) { gotU8 = x })
	js.Global.Set("c11recvU16", func(x uint16) { gotU16 = x })
	js.Global.Set("c11recvU32", func(x uint32) { gotU32 = x })
	js.Global.Set("c11recvI64", func(x int64) { gotI64 = x })
	js.Global.Set("c11recvU64", func(x uint64) { gotU64 = x })
	retF := js.Global.Get("c11retF")
	ff := &failer{name: "f64"}
	fi := &failer{name: "int"}
	f64 := &failer{name: "int64"}
	for i := 0; i < n; i++ {
		bits := r.next()
		switch r.next() % 5 {
		case 0:
			bits &= 0x800fffffffffffff // subnormal
		case 1:
			bits = math.Float64bits(float64(int64(r.next()>>(r.next()%64)))) | bits&(1<<63)
		}
		x := math.Float64frombits(bits)
		if x == 0 {
			x = 0 // the sign of zero is covered by the dedicated boundary cases
		}
		hi, lo := uint32(math.Float64bits(x)>>32), uint32(math.Float64bits(x))
		ff.n++
		var back *js.Object
		switch i % 5 {
		case 0:
			back = js.Global.Call("__vpBulkNum", "f64.call", x, hi, lo)
		case 1:
			w.F = x
			back = js.Global.Call("__vpBulkNum", "f64.field", w.Object.Get("f"), hi, lo)
		case 2:
			curF = x
			back = js.Global.Call("__vpBulkNum", "f64.ret", retF.Invoke(), hi, lo)
		case 3:
			var a any = x
			back = js.Global.Call("__vpBulkNum", "f64.iface", a, hi, lo)
		default:
			jsArr.SetIndex(1, x)
			back = js.Global.Call("__vpBulkNum", "f64.index", jsArr.Index(1), hi, lo)
		}
		var got float64
		switch (i / 5) % 4 {
		case 0:
			got = back.Float()
		case 1:
			got, _ = back.Interface().(float64)
		case 2:
			js.Global.Call("c11recvF", back)
			got = gotF
		default:
			w.Object.Set("f", back)
			got = w.F
		}
		if !(math.Float64bits(got) == math.Float64bits(x) || (got != got && x != x)) {
			ff.fail("roundtrip way=" + itoa(i%5) + "/" + itoa((i/5)%4) + " sent=" + hex64(math.Float64bits(x)) + " got=" + hex64(math.Float64bits(got)))
		}

		// 32-bit and narrower integers through typed parameters and Int()
		v := int32(r.next())
		fi.n++
		b32 := js.Global.Call("__vpBulkNum", "int.i32", v, uint32(math.Float64bits(float64(v))>>32), uint32(math.Float64bits(float64(v))))
		if b32.Int() != int(v) {
			fi.fail("Int " + itoa(int(v)))
		}
		js.Global.Call("c11recvI32", b32)
		js.Global.Call("c11recvI16", int16(v))
		js.Global.Call("c11recvI8", int8(v))
		js.Global.Call("c11recvU32", uint32(v))
		js.Global.Call("c11recvU16", uint16(v))
		js.Global.Call("c11recvU8", uint8(v))
		if gotI32 != v || gotI16 != int16(v) || gotI8 != int8(v) || gotU32 != uint32(v) || gotU16 != uint16(v) || gotU8 != uint8(v) {
			fi.fail("typed param " + itoa(int(v)))
		}
		w.I = int(v)
		if w.I != int(v) || w.Object.Get("i").Int() != int(v) {
			fi.fail("field " + itoa(int(v)))
		}

		// 64-bit integers within ±2^53
		m := int64(r.next()>>11) >> (r.next() % 54)
		if r.next()%2 == 0 {
			m = -m
		}
		f64.n++
		fm := float64(m)
		b64 := js.Global.Call("__vpBulkNum", "int64.call", m, uint32(math.Float64bits(fm)>>32), uint32(math.Float64bits(fm)))
		if b64.Int64() != m {
			f64.fail("Int64 " + i64s(m))
		}
		js.Global.Call("c11recvI64", b64)
		if gotI64 != m {
			f64.fail("param int64 " + i64s(m))
		}
		w.I64 = m
		if w.I64 != m {
			f64.fail("field int64 " + i64s(m))
		}
		if m >= 0 {
			um := uint64(m)
			bu := js.Global.Call("__vpBulkNum", "uint64.call", um, uint32(math.Float64bits(fm)>>32), uint32(math.Float64bits(fm)))
			js.Global.Call("c11recvU64", bu)
			w.U64 = um
			if bu.Uint64() != um || gotU64 != um || w.U64 != um {
				f64.fail("uint64 " + u64s(um))
			}
		}
	}
	ff.done()
	fi.done()
	f64.done()
}

func taDesc(cls string, es []float64) string {
	parts := make([]string, len(es))
	for i, e := range es {
		if e != e {
			parts[i] = "nan"
		} else {
			parts[i] = hex64(math.Float64bits(e))
		}
	}
	return "ta:" + cls + ":" + itoa(len(es)) + ":[" + join(parts) + "]"
}

func bulkTyped(n int, seed uint64) {
	r := &rng{seed}
	f := &failer{name: "typedarray"}
	for i := 0; i < n; i++ {
		ln := int(r.next() % 6)
		off := int(r.next() % 4)
		es := make([]float64, ln)
		f.n++
		var back *js.Object
		var want string
		ok := true
		switch i % 8 {
		case 0:
			b := make([]int8, off+ln+1)
			for j := 0; j < ln; j++ {
				b[off+j] = int8(r.next())
				es[j] = float64(b[off+j])
			}
			want = taDesc("Int8Array", es)
			back = js.Global.Call("__vpBulkDesc", "ta.int8", b[off:off+ln], want)
			x, _ := back.Interface().([]int8)
			ok = len(x) == ln
			for j := 0; ok && j < ln; j++ {
				ok = x[j] == b[off+j]
			}
		case 1:
			b := make([]int16, off+ln+1)
			for j := 0; j < ln; j++ {
				b[off+j] = int16(r.next())
				es[j] = float64(b[off+j])
			}
			want = taDesc("Int16Array", es)
			back = js.Global.Call("__vpBulkDesc", "ta.int16", b[off:off+ln], want)
			x, _ := back.Interface().([]int16)
			ok = len(x) == ln
			for j := 0; ok && j < ln; j++ {
				ok = x[j] == b[off+j]
			}
		case 2:
			b := make([]int32, off+ln+1)
			for j := 0; j < ln; j++ {
				b[off+j] = int32(r.next())
				es[j] = float64(b[off+j])
			}
			want = taDesc("Int32Array", es)
			back = js.Global.Call("__vpBulkDesc", "ta.int32", b[off:off+ln], want)
			x, _ := back.Interface().([]int)
			ok = len(x) == ln
			for j := 0; ok && j < ln; j++ {
				ok = x[j] == int(b[off+j])
			}
		case 3:
			b := make([]uint8, off+ln+1)
			for j := 0; j < ln; j++ {
				b[off+j] = uint8(r.next())
				es[j] = float64(b[off+j])
			}
			want = taDesc("Uint8Array", es)
			back = js.Global.Call("__vpBulkDesc", "ta.uint8", b[off:off+ln], want)
			x, _ := back.Interface().([]uint8)
			ok = len(x) == ln
			for j := 0; ok && j < ln; j++ {
				ok = x[j] == b[off+j]
			}
		case 4:
			b := make([]uint16, off+ln+1)
			for j := 0; j < ln; j++ {
				b[off+j] = uint16(r.next())
				es[j] = float64(b[off+j])
			}
			want = taDesc("Uint16Array", es)
			back = js.Global.Call("__vpBulkDesc", "ta.uint16", b[off:off+ln], want)
			x, _ := back.Interface().([]uint16)
			ok = len(x) == ln
			for j := 0; ok && j < ln; j++ {
				ok = x[j] == b[off+j]
			}
		case 5:
			b := make([]uint32, off+ln+1)
			for j := 0; j < ln; j++ {
				b[off+j] = uint32(r.next())
				es[j] = float64(b[off+j])
			}
			want = taDesc("Uint32Array", es)
			back = js.Global.Call("__vpBulkDesc", "ta.uint32", b[off:off+ln], want)
			x, _ := back.Interface().([]uint)
			ok = len(x) == ln
			for j := 0; ok && j < ln; j++ {
				ok = x[j] == uint(b[off+j])
			}
		case 6:
			b := make([]float32, off+ln+1)
			for j := 0; j < ln; j++ {
				b[off+j] = math.Float32frombits(uint32(r.next()))
				es[j] = float64(b[off+j])
			}
			want = taDesc("Float32Array", es)
			back = js.Global.Call("__vpBulkDesc", "ta.float32", b[off:off+ln], want)
			x, _ := back.Interface().([]float32)
			ok = len(x) == ln
			for j := 0; ok && j < ln; j++ {
				ok = math.Float32bits(x[j]) == math.Float32bits(b[off+j]) || (x[j] != x[j] && b[off+j] != b[off+j])
			}
		default:
			b := make([]float64, off+ln+1)
			for j := 0; j < ln; j++ {
				b[off+j] = math.Float64frombits(r.next())
				es[j] = b[off+j]
			}
			want = taDesc("Float64Array", es)
			back = js.Global.Call("__vpBulkDesc", "ta.float64", b[off:off+ln], want)
			x, _ := back.Interface().([]float64)
			ok = len(x) == ln
			for j := 0; ok && j < ln; j++ {
				ok = math.Float64bits(x[j]) == math.Float64bits(b[off+j]) || (x[j] != x[j] && b[off+j] != b[off+j])
			}
		}
		if !ok {
			f.fail("Interface() of " + want)
		}
		if back.Length() != ln {
			f.fail("length of " + want)
		}
	}
	f.done()
}

func main() {
	try("bulk.str", func() { bulkStrings(NSTR, SEED) })
	try("bulk.num", func() { bulkNumbers(NNUM, SEED+1) })
	try("bulk.ta", func() { bulkTyped(NTA, SEED+2) })
	js.Global.Call("__vpBulkReport")
	println("END")
}
`
	// the header already has one import block; merge the second one into it
	src = strings.Replace(src, "import (\n\t\"unicode/utf16\"\n\t\"unicode/utf8\"\n)\n", "", 1)
	src = strings.Replace(src, "import (\n\t\"math\"\n", "import (\n\t\"math\"\n\t\"unicode/utf16\"\n\t\"unicode/utf8\"\n", 1)
	src = strings.ReplaceAll(src, "js.S{s}.Index0()", "js.Global.Call(\"__vpPeek\", js.S{s}, 0)")
	src = strings.ReplaceAll(src, "NSTR", fmt.Sprint(nStr))
	src = strings.ReplaceAll(src, "NNUM", fmt.Sprint(nNum))
	src = strings.ReplaceAll(src, "NTA", fmt.Sprint(nTA))
	if seed == 0 {
		seed = 1
	}
	src = strings.ReplaceAll(src, "SEED", fmt.Sprintf("uint64(%d)", seed))
	return map[string]string{"main.go": src, "zz_c11lib.go": progLib}
}
