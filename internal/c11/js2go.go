package c11

import (
	"fmt"
	"math"
	"math/rand"
	"strconv"
	"strings"
	"unicode/utf16"
)

// jsNum is a JavaScript expression for the number f.
func jsNum(f float64) string {
	switch {
	case f != f:
		return "NaN"
	case math.IsInf(f, 1):
		return "Infinity"
	case math.IsInf(f, -1):
		return "(-Infinity)"
	case f == 0 && math.Signbit(f):
		return "(-0)"
	}
	s := strconv.FormatFloat(f, 'g', -1, 64)
	if f < 0 {
		return "(" + s + ")"
	}
	return s
}

func jsStrUnits(u []uint16) string {
	var b strings.Builder
	b.WriteByte('"')
	for _, x := range u {
		fmt.Fprintf(&b, `\u%04x`, x)
	}
	b.WriteByte('"')
	return b.String()
}

func jsStr(s string) string { return jsStrUnits(utf16.Encode([]rune(s))) }

// jsCodeOf is a JavaScript expression that builds the documented JavaScript image of an exact Go
// value (the same thing JSDesc describes), so that typed read-backs can be driven from JS.
func jsCodeOf(v *Val) string {
	t := v.T
	switch k := t.K; {
	case k == KBool:
		return fmt.Sprint(v.B)
	case k.isNumeric():
		return jsNum(v.asFloat())
	case k == KString:
		return jsStr(v.S)
	case k == KSlice || k == KArray:
		if v.Nil {
			return "null"
		}
		es := make([]string, len(v.E))
		if cls, ok := taClass[t.Elem.K]; ok {
			for i, e := range v.E {
				es[i] = jsNum(e.asFloat())
			}
			return "new " + cls + "([" + strings.Join(es, ",") + "])"
		}
		for i, e := range v.E {
			es[i] = jsCodeOf(e)
		}
		return "[" + strings.Join(es, ",") + "]"
	case k == KMap:
		if v.Nil {
			return "null"
		}
		return jsObj(v.Keys, v.E)
	case k == KStruct:
		var ks []string
		var es []*Val
		for i, f := range t.Fields {
			if f.exported() {
				ks = append(ks, f.Name)
				es = append(es, v.E[i])
			}
		}
		return jsObj(ks, es)
	case k == KPtr:
		if v.Nil {
			return "null"
		}
		return jsCodeOf(v.E[0])
	case k == KAny:
		if v.Nil {
			return "null"
		}
		return jsCodeOf(v.Dyn)
	}
	panic("jsCodeOf")
}

func jsObj(keys []string, vals []*Val) string {
	es := make([]string, len(keys))
	for i, k := range keys {
		es[i] = "[" + jsStr(k) + "," + jsCodeOf(vals[i]) + "]"
	}
	return "Object.fromEntries([" + strings.Join(es, ",") + "])"
}

// parseIntPrefix models JavaScript parseInt(s) (radix undefined) for the strings used here.
func parseIntPrefix(s string) (int64, bool) {
	i := 0
	for i < len(s) && (s[i] == ' ' || s[i] == '\t' || s[i] == '\n') {
		i++
	}
	neg := false
	if i < len(s) && (s[i] == '+' || s[i] == '-') {
		neg = s[i] == '-'
		i++
	}
	base := int64(10)
	if i+1 < len(s) && s[i] == '0' && (s[i+1] == 'x' || s[i+1] == 'X') {
		base = 16
		i += 2
	}
	n, digits := int64(0), 0
	for ; i < len(s); i++ {
		c := s[i]
		var d int64
		switch {
		case c >= '0' && c <= '9':
			d = int64(c - '0')
		case base == 16 && c >= 'a' && c <= 'f':
			d = int64(c-'a') + 10
		case base == 16 && c >= 'A' && c <= 'F':
			d = int64(c-'A') + 10
		default:
			d = -1
		}
		if d < 0 {
			break
		}
		n = n*base + d
		digits++
	}
	if digits == 0 {
		return 0, false
	}
	if neg {
		n = -n
	}
	return n, true
}

// genJS2Go adds the cases whose values originate in JavaScript.
func genJS2Go(p *prog, r *rand.Rand, nRandom int) {
	// --- numbers through every accessor and typed parameter
	nums := []float64{0, math.Copysign(0, -1), 1, -1, 127, 128, -128, 255, 32767, -32768, 65535, 2147483647, -2147483648, 4294967295, two53, -two53, two53 - 1,
		0.5, -0.5, 3.7, -3.7, 1e-7, 1e21, 1e20, math.NaN(), math.Inf(1), math.Inf(-1), math.MaxFloat64, math.SmallestNonzeroFloat64, 0.1, 16777216, 1.5}
	for i := 0; i < nRandom/4; i++ {
		nums = append(nums, f64Boundary(r, 1)[len(f64Boundary(r, 0))].F)
		nums = append(nums, float64(int64(r.Uint64()>>uint(11+r.Intn(53))))*[]float64{1, -1}[r.Intn(2)])
	}
	for _, f := range nums {
		spec := "A=f64:" + shF64(f) + ";" + strings.Join(numAccessors(f), ";")
		var typed []typedWant
		typed = append(typed, typedWant{basics[KFloat64], r.Intn(3), shF64(f)})
		if f == f && float64(float32(f)) == f {
			typed = append(typed, typedWant{basics[KFloat32], r.Intn(3), shF32(f)})
		}
		if f == f && !math.IsInf(f, 0) && f == math.Trunc(f) && math.Abs(f) <= two53 {
			for _, k := range append(append([]Kind{}, signedKinds...), unsignedKinds...) {
				lo, hi := intRange(k)
				if f >= float64(lo) && ((f < 0 && k.isSigned()) || (f >= 0 && uint64(f) <= hi)) {
					want := fmt.Sprint(int64(f))
					typed = append(typed, typedWant{basics[k], r.Intn(3), want})
				}
			}
		}
		p.addJS2Go("number", jsNum(f), "num:"+bitsHex(f), spec, "", typed)
	}
	// --- booleans, null, undefined
	p.addJS2Go("boolean", "true", "bool:true", "B=t;A=bool:t;S="+shS("true"), "", []typedWant{{basics[KBool], 0, "t"}, {basics[KBool], 1, "t"}})
	p.addJS2Go("boolean", "false", "bool:false", "B=f;A=bool:f;S="+shS("false"), "", []typedWant{{basics[KBool], 0, "f"}, {basics[KBool], 2, "f"}})
	p.addJS2Go("null", "null", "null", "Z=t;A=nil;B=f;S="+shS("null"), "", []typedWant{{sliceOf(basics[KInt]), 0, "nil"}, {basics[KAny], 0, "nil"}, {sliceOf(basics[KUint8]), 1, "nil"}})
	p.addJS2Go("undefined", "undefined", "undef", "D=t;B=f;S="+shS("undefined"), "A", nil)
	// --- strings
	strs := append([]string{}, fixedValidStrings...)
	for i := 0; i < nRandom; i++ {
		strs = append(strs, randValidString(r, 8))
	}
	for _, s := range strs {
		u := utf16.Encode([]rune(s))
		spec := "S=" + shS(s) + ";A=str:" + shS(s) + ";N=" + fmt.Sprint(len(u)) + ";B=" + shBool(len(s) > 0)
		if n, ok := parseIntPrefix(s); ok && n > -(1<<31) && n < 1<<31 {
			spec += ";I=" + fmt.Sprint(n) + ";L=" + fmt.Sprint(n)
			if n >= 0 {
				spec += ";U=" + fmt.Sprint(n)
			}
		}
		switch s {
		case "42", "-17", "3.5", "1e3", "0", "  padded  ", "Infinity":
		}
		if f, err := strconv.ParseFloat(strings.TrimSpace(s), 64); err == nil && !strings.ContainsAny(s, "xXnN_pP") && s != "" && !strings.HasPrefix(strings.TrimSpace(s), "I") {
			spec += ";F=" + shF64(f)
		}
		if s == "Infinity" {
			spec += ";F=" + shF64(math.Inf(1))
		}
		p.addJS2Go("string", jsStr(s), "str:"+unitsHex(s), spec, "", []typedWant{{basics[KString], r.Intn(3), shS(s)}, {basics[KAny], r.Intn(3), "str:" + shS(s)}})
	}
	// --- lone surrogates and other ill-formed UTF-16: not representable in a Go string; the
	// documentation is silent, so only "no crash, deterministic" is demanded.
	lone := [][]uint16{{0xd800}, {0xdc00}, {0x61, 0xd800}, {0xd800, 0x61}, {0xdbff, 0xdbff}, {0xdc00, 0xd800}, {0xd83d}, {0xde00, 0x41}, {0x41, 0xdfff, 0x42}, {0xd800, 0xd800, 0xdc00}}
	for i := 0; i < nRandom/8; i++ {
		n := 1 + r.Intn(4)
		u := make([]uint16, n)
		for j := range u {
			if r.Intn(2) == 0 {
				u[j] = uint16(0xd800 + r.Intn(0x800))
			} else {
				u[j] = uint16(r.Intn(0x10000))
			}
		}
		if string(utf16.Decode(u)) != "" && !strings.ContainsRune(string(utf16.Decode(u)), 0xfffd) {
			u = append(u, 0xd800)
		}
		lone = append(lone, u)
	}
	for _, u := range lone {
		var hex strings.Builder
		for _, x := range u {
			fmt.Fprintf(&hex, "%04x", x)
		}
		p.addJS2Go("string(ill-formed UTF-16)", jsStrUnits(u), "str:"+hex.String(), "N="+fmt.Sprint(len(u))+";B=t", "SA", []typedWant{{basics[KString], r.Intn(3), ""}})
	}
	// --- typed arrays (incl. views with a byte offset)
	for _, k := range []Kind{KInt8, KInt16, KInt32, KUint8, KUint16, KUint32, KFloat32, KFloat64} {
		for rep := 0; rep < 2+nRandom/16; rep++ {
			n := r.Intn(5)
			v := &Val{T: sliceOf(basics[k]), E: []*Val{}}
			for i := 0; i < n; i++ {
				v.E = append(v.E, randScalar(k, r, true))
			}
			cls := taClass[k]
			es := make([]string, n)
			for i, e := range v.E {
				es[i] = jsNum(e.asFloat())
			}
			off := r.Intn(3)
			code := fmt.Sprintf("(function(){var b=new ArrayBuffer(%d);var a=new %s(b,%d,%d);var s=[%s];for(var i=0;i<s.length;i++)a[i]=s[i];return a})()",
				(off+n+1)*8, cls, off*8, n, strings.Join(es, ","))
			// Interface(): []int for Int32Array, []uint for Uint32Array per the table
			typed := []typedWant{{basics[KAny], r.Intn(3), v.ShowAny()}}
			// a typed array read back as the matching slice type
			mt := sliceOf(basics[k])
			typed = append(typed, typedWant{mt, r.Intn(3), v.ShowT()})
			p.addJS2Go(cls, code, v.JSDesc(), "A="+v.ShowAny()+";N="+fmt.Sprint(n)+";B=t", "", typed)
		}
	}
	// --- arrays and objects: documented image of random Go values, read back typed and as any
	for i := 0; i < 12+nRandom; i++ {
		var t *Ty
		switch i % 6 {
		case 0:
			t = sliceOf(basics[[]Kind{KInt, KString, KFloat64, KBool, KInt64, KUint16}[r.Intn(6)]])
		case 1:
			t = mapOf(basics[[]Kind{KInt, KString, KFloat64, KBool, KUint8}[r.Intn(5)]])
		case 2:
			t = p.newStruct(Fld{"A", basics[KInt]}, Fld{"B", basics[KString]}, Fld{"hidden", basics[KInt]}, Fld{"C", sliceOf(basics[KFloat64])})
		case 3:
			t = sliceOf(basics[KAny])
		case 4:
			t = mapOf(basics[KAny])
		default:
			t = p.randType(r, 2)
		}
		var v *Val
		for {
			v = randVal(t, r, true, 0)
			if v.exact() && !v.typedDocSilent() && !negZeroInside(v) {
				break
			}
		}
		// unexported fields do not exist on the JS side: the typed read-back leaves them zero
		typed := []typedWant{{t, r.Intn(3), v.ShowT()}}
		kind := "Array"
		if strings.HasPrefix(v.JSDesc(), "obj") {
			kind = "Object"
		} else if !strings.HasPrefix(v.JSDesc(), "arr") {
			kind = v.classOf()
		}
		spec := ""
		if !isNilVal(v) {
			spec = "A=" + v.ShowAny()
		}
		p.addJS2Go(kind, jsCodeOf(v), v.JSDesc(), spec, "", typed)
	}
	// --- objects with unusual own keys, built in JS
	p.addJS2Go("Object", `JSON.parse('{"__proto__":1,"constructor":2,"a":3}')`, "", "A=map{"+shS("__proto__")+":f64:"+shF64(1)+","+shS("a")+":f64:"+shF64(3)+","+shS("constructor")+":f64:"+shF64(2)+"}", "",
		[]typedWant{{mapOf(basics[KInt]), 0, "{" + shS("__proto__") + ":1," + shS("a") + ":3," + shS("constructor") + ":2}"}})
	p.addJS2Go("Object", `Object.create(null)`, "", "A=map{}", "", nil)
	p.addJS2Go("Object", `(function(){var o=Object.create(null);o.k="v";return o})()`, "", "A=map{"+shS("k")+":str:"+shS("v")+"}", "", nil)
	// --- functions: func(...any) *js.Object
	p.addJS2Go("Function", `function(a,b){return a+b}`, "", "A=func;B=t", "", nil)
	p.addJS2Go("Function", `(x)=>x`, "", "A=func;B=t", "", nil)
	// --- cycles on the JS side: object cycles must terminate (documentation silent on the shape)
	genObservations(p)
	p.addJS2Go("Object(cyclic)", `(function(){var o={x:1};o.self=o;return o})()`, "obj{0073"+"0065006c0066=cycle,0078=num:3ff0000000000000}", "B=t", "", nil)
}

// genObservations: undocumented corners, executed and reported, not asserted.
func genObservations(p *prog) {
	st := p.newStruct(Fld{"A", basics[KInt]})
	p.addObserve("null->map[string]int(param)", "null", mapOf(basics[KInt]), 0)
	p.addObserve("null->*struct(param)", "null", ptrTo(st), 0)
	p.addObserve("null->struct(param)", "null", st, 0)
	p.addObserve("null->string(param)", "null", basics[KString], 0)
	p.addObserve("null->int(param)", "null", basics[KInt], 0)
	p.addObserve("undefined->int(param)", "undefined", basics[KInt], 0)
	p.addObserve("undefined->[]int(param)", "undefined", sliceOf(basics[KInt]), 0)
	p.addObserve("undefined.Interface()", "undefined", nil, 0)
	p.addObserve("cyclic-array.Interface()", "(function(){var a=[1];a.push(a);return a})()", nil, 0)
	p.addObserve("200->int8(param)", "200", basics[KInt8], 0)
	p.addObserve("-1->uint8(param)", "-1", basics[KUint8], 0)
	p.addObserve("3e9->int(param)", "3e9", basics[KInt], 0)
	p.addObserve("-1->uint(param)", "-1", basics[KUint], 0)
	p.addObserve("0.1->float32(param)==float32(0.1)", "0.1", basics[KFloat32], 0)
	p.addObserve("Int8Array->[]int(param)", "new Int8Array([-1,2])", sliceOf(basics[KInt]), 0)
	p.addObserve("Uint8ClampedArray.Interface()", "new Uint8ClampedArray([1,2])", nil, 0)
	p.addObserve("BigInt.Interface()", "10n", nil, 0)
	p.addObserve("boxed-Number.Interface()", "new Number(5)", nil, 0)
	p.addObserve("Symbol.Interface()", "Symbol('x')", nil, 0)
	p.addObserve("ArrayBuffer.Interface()", "new ArrayBuffer(2)", nil, 0)
	p.body = append(p.body, "\tfunc() {\n\t\tdefer func() { recover() }()\n\t\tprintln(\"O []uintptr-class \" + js.Global.Call(\"__vpIdent\", []uintptr{1, 2}).Get(\"constructor\").Get(\"name\").String())\n\t}()\n")
	p.body = append(p.body, "\tfunc() {\n\t\tdefer func() { recover() }()\n\t\tprintln(\"O map[int]string-keys \" + js.Global.Get(\"JSON\").Call(\"stringify\", js.Global.Call(\"__vpIdent\", map[int]string{1: \"a\", -2: \"b\"})).String())\n\t}()\n")
}

func isNilVal(v *Val) bool {
	for v.T.K == KAny && !v.Nil {
		v = v.Dyn
	}
	return v.Nil
}

// negZeroInside reports whether a float -0 occurs in the value (used to keep the random
// composite cases apart from the dedicated -0 cases).
func negZeroInside(v *Val) bool {
	if v.T.K.isFloat() && v.F == 0 && math.Signbit(v.F) {
		return true
	}
	if v.Dyn != nil && negZeroInside(v.Dyn) {
		return true
	}
	for _, e := range v.E {
		if negZeroInside(e) {
			return true
		}
	}
	return false
}
