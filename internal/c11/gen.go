package c11

import (
	"fmt"
	"math"
	"sort"
	"strings"
)

// Paths by which a Go value is pushed to JavaScript (snd_<type>(p, …) in generated code).
var sendPaths = []string{
	0:  "Call-arg",
	1:  "Invoke-arg",
	2:  "New-arg",
	3:  "Global.Set/Get(const key)",
	4:  "Set/Get(dynamic key)",
	5:  "SetIndex/Index",
	6:  "js-tagged struct field",
	7:  "exposed func result",
	8:  "MakeFunc result",
	9:  "interface-typed arg",
	10: "Call(args...)",
	11: "js.M value",
	12: "js.S element",
}

// Typed read-back paths (rcv_<type>(q, …)).
var recvPaths = []string{
	0: "exposed func param",
	1: "js-tagged struct field",
	2: "js-tagged func field result",
}

// caseMeta is what the harness knows about one generated value case.
type caseMeta struct {
	Dir   string // "go2js" | "js2go"
	Kind  string // Go type kind of the top-level type
	Type  string
	Path  int
	Recv  int
	Class string // expected JS class
	Exact bool
	Lit   string // Go literal or JS code (for witnesses)
}

// prog accumulates one generated workload program.
type prog struct {
	name    string
	show    map[string]*Ty // composite types needing a show function
	showOrd []string
	trip    map[string]*Ty // types needing send/recv helpers
	tripOrd []string
	rcvOnly map[string]bool // trip types that are only ever read back (no snd_ helper is emitted)
	structs []*Ty
	body    []string
	extra   []string // extra top-level declarations

	expect  map[string]string    // probe tag -> expected descriptor ("*" = anything)
	detPair [][2]string          // probe tags whose descriptors must be equal
	meta    map[string]*caseMeta // case id -> meta
	ids     []string
	// expected Go-side check ids (every one must print exactly one P line)
	checks map[string]bool
	nst    int
}

func newProg(name string) *prog {
	return &prog{name: name, show: map[string]*Ty{}, trip: map[string]*Ty{}, rcvOnly: map[string]bool{}, expect: map[string]string{},
		meta: map[string]*caseMeta{}, checks: map[string]bool{}}
}

// newStruct declares a struct type local to the program.
func (p *prog) newStruct(fields ...Fld) *Ty {
	p.nst++
	t := &Ty{K: KStruct, Name: fmt.Sprintf("S%d", p.nst), Fields: fields}
	p.structs = append(p.structs, t)
	return t
}

func (p *prog) needShow(t *Ty) {
	t.walk(func(x *Ty) {
		if x.K.isScalar() || x.K == KAny {
			return
		}
		k := x.Key()
		if _, ok := p.show[k]; !ok {
			p.show[k] = x
			p.showOrd = append(p.showOrd, k)
		}
	})
}

func (p *prog) needTrip(t *Ty) {
	p.needShow(t)
	k := t.Key()
	if _, ok := p.trip[k]; !ok {
		p.trip[k] = t
		p.tripOrd = append(p.tripOrd, k)
	}
	delete(p.rcvOnly, k)
}

// needRecv is needTrip for a type that is only read back (rcv_K), never sent from Go.
func (p *prog) needRecv(t *Ty) {
	k := t.Key()
	_, had := p.trip[k]
	p.needTrip(t)
	if !had {
		p.rcvOnly[k] = true
	}
}

// showExpr is the Go expression rendering x (of type t).
func showExpr(t *Ty, x string) string {
	switch k := t.K; {
	case k == KBool:
		return "shB(" + x + ")"
	case k.isSigned():
		return "i64s(int64(" + x + "))"
	case k.isUnsigned():
		return "u64s(uint64(" + x + "))"
	case k == KFloat64:
		return "shF64(" + x + ")"
	case k == KFloat32:
		return "shF32(" + x + ")"
	case k == KString:
		return "shS(" + x + ")"
	case k == KAny:
		return "shAny(" + x + ")"
	}
	return "show_" + t.Key() + "(" + x + ")"
}

func showFunc(t *Ty) string {
	var b strings.Builder
	fmt.Fprintf(&b, "func show_%s(v %s) string {\n", t.Key(), t.GoType())
	switch t.K {
	case KSlice, KArray:
		if t.K == KSlice {
			b.WriteString("\tif v == nil {\n\t\treturn \"nil\"\n\t}\n")
		}
		fmt.Fprintf(&b, "\tes := make([]string, len(v))\n\tfor i, e := range v {\n\t\tes[i] = %s\n\t}\n\treturn \"[\" + join(es) + \"]\"\n", showExpr(t.Elem, "e"))
	case KMap:
		b.WriteString("\tif v == nil {\n\t\treturn \"nil\"\n\t}\n\tks := make([]string, 0, len(v))\n\tfor k := range v {\n\t\tks = append(ks, k)\n\t}\n\tsortStrings(ks)\n\tes := make([]string, len(ks))\n")
		fmt.Fprintf(&b, "\tfor i, k := range ks {\n\t\tes[i] = shS(k) + \":\" + %s\n\t}\n\treturn \"{\" + join(es) + \"}\"\n", showExpr(t.Elem, "v[k]"))
	case KStruct:
		b.WriteString("\tes := []string{")
		for i, f := range t.Fields {
			if i > 0 {
				b.WriteString(", ")
			}
			fmt.Fprintf(&b, "%q + %s", f.Name+":", showExpr(f.T, "v."+f.Name))
		}
		b.WriteString("}\n\treturn \"{\" + join(es) + \"}\"\n")
	case KPtr:
		fmt.Fprintf(&b, "\tif v == nil {\n\t\treturn \"nil\"\n\t}\n\treturn \"&\" + %s\n", showExpr(t.Elem, "(*v)"))
	}
	b.WriteString("}\n")
	return b.String()
}

func tripFuncs(t *Ty, rcvOnly bool) string {
	k, T := t.Key(), t.GoType()
	s := `
var got_K T
var cur_K T

func recv_K(x T) { got_K = x }
func ret_K() T   { return cur_K }

type W_K struct {
	*js.Object
	F  T                   ` + "`js:\"f\"`" + `
	Fn func(*js.Object) T ` + "`js:\"fn\"`" + `
}

func init() { js.Global.Set("recv_K", recv_K) }

func snd_K(p int, id string, v T) *js.Object {
	switch p {
	case 0:
		return js.Global.Call("__vp", id, v)
	case 1:
		return vpFn.Invoke(id, v)
	case 2:
		return boxCtor.New(id, v).Get("v")
	case 3:
		js.Global.Set("c11slot", v)
		js.Global.Call("__vpRead", id, "c11slot")
		return js.Global.Get("c11slot")
	case 4:
		o := newObj()
		o.Set(dynKey, v)
		js.Global.Call("__vpProp", id, o, dynKey)
		return o.Get(dynKey)
	case 5:
		jsArr.SetIndex(3, v)
		js.Global.Call("__vpProp", id, jsArr, 3)
		return jsArr.Index(3)
	case 6:
		w := &W_K{Object: newObj()}
		w.F = v
		return js.Global.Call("__vpProp", id, w.Object, "f")
	case 7:
		cur_K = v
		return js.Global.Call("__vpCall", id, ret_K)
	case 8:
		return js.Global.Call("__vpCall", id, js.MakeFunc(func(this *js.Object, a []*js.Object) any { return v }))
	case 9:
		var a any = v
		return js.Global.Call("__vp", id, a)
	case 10:
		args := []any{id, v}
		return js.Global.Call("__vp", args...)
	case 11:
		return js.Global.Call("__vpProp", id, js.M{"k": v}, "k")
	case 12:
		return js.Global.Call("__vpProp", id, js.S{nil, v}, 1)
	}
	panic("bad send path")
}

func rcv_K(q int, r *js.Object) T {
	switch q {
	case 0:
		js.Global.Call("recv_K", r)
		return got_K
	case 1:
		w := &W_K{Object: newObj()}
		w.Object.Set("f", r)
		return w.F
	case 2:
		w := &W_K{Object: newObj()}
		w.Object.Set("fn", js.Global.Get("__vpIdent"))
		return w.Fn(r)
	}
	panic("bad recv path")
}
`
	if rcvOnly {
		i, j := strings.Index(s, "func snd_K("), strings.Index(s, "func rcv_K(")
		s = s[:i] + s[j:]
	}
	s = strings.ReplaceAll(s, "_K", "_"+k)
	// replace the type placeholder (stand-alone capital T tokens)
	s = replaceTypeToken(s, T)
	return s
}

// replaceTypeToken replaces the placeholder type name T (as a whole token) by the Go type.
func replaceTypeToken(s, typ string) string {
	var b strings.Builder
	isIdent := func(c byte) bool {
		return c == '_' || c >= '0' && c <= '9' || c >= 'a' && c <= 'z' || c >= 'A' && c <= 'Z'
	}
	for i := 0; i < len(s); i++ {
		if s[i] == 'T' && (i == 0 || !isIdent(s[i-1])) && (i+1 == len(s) || !isIdent(s[i+1])) {
			b.WriteString(typ)
			continue
		}
		b.WriteByte(s[i])
	}
	return b.String()
}

func goQuote(s string) string { return goStr(s) }

// addGo2JS adds one value case: v is pushed through send path p, recorded by the probe, read back
// through typed path q and through the accessor methods.
func (p *prog) addGo2JS(v *Val, path, q int) string {
	id := fmt.Sprintf("c%d", len(p.ids))
	p.ids = append(p.ids, id)
	p.needTrip(v.T)
	v.walkTypes(func(t *Ty) { p.needShow(t) })
	k := v.T.Key()
	m := &caseMeta{Dir: "go2js", Kind: v.T.K.String(), Type: v.T.GoType(), Path: path, Recv: q, Class: v.classOf(), Exact: v.exact(), Lit: clipLit(v.GoLit())}
	p.meta[id] = m
	var b strings.Builder
	if v.exact() {
		p.expect[id] = v.JSDesc()
		fmt.Fprintf(&b, "\ttry(%q, func() {\n\t\tr := snd_%s(%d, %q, %s)\n", id, k, path, id, v.GoLit())
		if !v.typedDocSilent() {
			fmt.Fprintf(&b, "\t\tchk(%q, show_or(%s), %s)\n", id+".t", showExprTrip(v.T, fmt.Sprintf("rcv_%s(%d, r)", k, q)), goQuote(v.ShowT()))
			p.checks[id+".t"] = true
		}
		spec := accSpec(v)
		if spec != "" {
			fmt.Fprintf(&b, "\t\tacc(%q, r, %s)\n", id, goQuote(spec))
			for _, f := range strings.Split(spec, ";") {
				p.checks[id+"."+f[:1]] = true
			}
		}
		b.WriteString("\t})\n")
	} else {
		p.expect[id+"#1"] = v.JSDesc()
		p.expect[id+"#2"] = v.JSDesc()
		p.detPair = append(p.detPair, [2]string{id + "#1", id + "#2"})
		fmt.Fprintf(&b, "\ttry(%q, func() {\n\t\ta := snd_%s(%d, %q, %s)\n\t\tb := snd_%s(%d, %q, %s)\n", id, k, path, id+"#1", v.GoLit(), k, path, id+"#2", v.GoLit())
		if !v.typedDocSilent() {
			fmt.Fprintf(&b, "\t\tchk(%q, show_or(%s), show_or(%s))\n", id+".det", showExprTrip(v.T, fmt.Sprintf("rcv_%s(%d, b)", k, q)), showExprTrip(v.T, fmt.Sprintf("rcv_%s(%d, a)", k, q)))
			p.checks[id+".det"] = true
		}
		fmt.Fprintf(&b, "\t\taccDet(%q, a, b, \"A\")\n\t})\n", id)
		p.checks[id+".detA"] = true
	}
	p.body = append(p.body, b.String())
	return id
}

func showExprTrip(t *Ty, x string) string { return showExpr(t, x) }

func clipLit(s string) string {
	if len(s) > 160 {
		return s[:160] + "…"
	}
	return s
}

// addJS2Go adds one case whose value is made in JavaScript: code is a JS expression; spec the
// accessor expectations; typed read-backs (type, want) are optional.
type typedWant struct {
	T    *Ty
	Q    int
	Want string // "" = determinism only
}

func (p *prog) addJS2Go(kind, code, desc, spec, detAcc string, typed []typedWant) string {
	id := fmt.Sprintf("j%d", len(p.ids))
	p.ids = append(p.ids, id)
	p.meta[id] = &caseMeta{Dir: "js2go", Kind: kind, Type: "js:" + kind, Path: -1, Recv: -1, Class: kind, Exact: detAcc == "", Lit: clipLit(code)}
	var b strings.Builder
	fmt.Fprintf(&b, "\ttry(%q, func() {\n\t\tr := js.Global.Call(\"__vp\", %q, mk(%s))\n", id, id, goQuote(code))
	if desc != "" {
		p.expect[id] = desc
	} else {
		p.expect[id] = wild
	}
	if spec != "" {
		fmt.Fprintf(&b, "\t\tacc(%q, r, %s)\n", id, goQuote(spec))
		for _, f := range strings.Split(spec, ";") {
			p.checks[id+"."+f[:1]] = true
		}
	}
	if detAcc != "" {
		fmt.Fprintf(&b, "\t\taccDet(%q, r, mk(%s), %q)\n", id, goQuote(code), detAcc)
		for i := 0; i < len(detAcc); i++ {
			p.checks[id+".det"+detAcc[i:i+1]] = true
		}
	}
	for i, tw := range typed {
		p.needTrip(tw.T)
		cid := fmt.Sprintf("%s.t%d", id, i)
		if tw.Want != "" {
			fmt.Fprintf(&b, "\t\tchk(%q, show_or(%s), %s)\n", cid, showExpr(tw.T, fmt.Sprintf("rcv_%s(%d, r)", tw.T.Key(), tw.Q)), goQuote(tw.Want))
		} else {
			fmt.Fprintf(&b, "\t\tchk(%q, show_or(%s), show_or(%s))\n", cid, showExpr(tw.T, fmt.Sprintf("rcv_%s(%d, r)", tw.T.Key(), tw.Q)), showExpr(tw.T, fmt.Sprintf("rcv_%s(%d, mk(%s))", tw.T.Key(), tw.Q, goQuote(code))))
		}
		p.checks[cid] = true
	}
	b.WriteString("\t})\n")
	p.body = append(p.body, b.String())
	return id
}

// addObserve adds a behaviour the documentation does not settle: it is executed and its outcome is
// reported in the evidence ("O <label> <outcome>" lines), never asserted.
func (p *prog) addObserve(label, code string, t *Ty, q int) {
	var expr string
	if t == nil {
		expr = "shAny(mk(" + goQuote(code) + ").Interface())"
	} else {
		p.needTrip(t)
		expr = showExpr(t, fmt.Sprintf("rcv_%s(%d, mk(%s))", t.Key(), q, goQuote(code)))
	}
	p.body = append(p.body, fmt.Sprintf("\tfunc() {\n\t\tdefer func() {\n\t\t\tif e := recover(); e != nil {\n\t\t\t\tprintln(%q + qq(errStr(e)))\n\t\t\t}\n\t\t}()\n\t\tprintln(%q + %s)\n\t}()\n",
		"O "+label+" panic:", "O "+label+" ", expr))
}

// source renders the program files.
func (p *prog) source() map[string]string {
	var b strings.Builder
	b.WriteString("package main\n\nimport (\n\t\"math\"\n\n\t\"github.com/gopherjs/gopherjs/js\"\n)\n\nvar _ = math.Float64frombits\nvar _ = js.Global\n\nfunc show_or(s string) string { return s }\n\n")
	for _, t := range p.structs {
		fmt.Fprintf(&b, "type %s struct {\n", t.Name)
		for _, f := range t.Fields {
			fmt.Fprintf(&b, "\t%s %s\n", f.Name, f.T.GoType())
		}
		b.WriteString("}\n\n")
	}
	for _, k := range p.showOrd {
		b.WriteString(showFunc(p.show[k]))
		b.WriteString("\n")
	}
	for _, k := range p.tripOrd {
		b.WriteString(tripFuncs(p.trip[k], p.rcvOnly[k]))
	}
	for _, e := range p.extra {
		b.WriteString(e)
		b.WriteString("\n")
	}
	// chunk the body into functions of ≤ 60 cases
	const chunk = 60
	n := 0
	for i := 0; i < len(p.body); i += chunk {
		j := i + chunk
		if j > len(p.body) {
			j = len(p.body)
		}
		fmt.Fprintf(&b, "func part%d() {\n", n)
		for _, s := range p.body[i:j] {
			b.WriteString(s)
		}
		b.WriteString("}\n\n")
		n++
	}
	b.WriteString("func main() {\n")
	for i := 0; i < n; i++ {
		fmt.Fprintf(&b, "\tpart%d()\n", i)
	}
	b.WriteString("\tjs.Global.Call(\"__vpBulkReport\")\n\tprintln(\"END\")\n}\n")
	return map[string]string{"main.go": b.String(), "zz_c11lib.go": progLib}
}

// accSpec derives the accessor expectations for a value that was sent from Go (exact values only).
func accSpec(v *Val) string {
	var fs []string
	add := func(k, want string) { fs = append(fs, k+"="+want) }
	t := v.T
	isNil := func(x *Val) bool {
		for x.T.K == KAny && !x.Nil {
			x = x.Dyn
		}
		return x.Nil
	}
	if isNil(v) {
		add("Z", "t")
		add("A", "nil")
		add("B", "f")
		add("S", shS("null"))
		return strings.Join(fs, ";")
	}
	add("A", v.ShowAny())
	x := v
	for x.T.K == KAny || x.T.K == KPtr {
		if x.T.K == KAny {
			x = x.Dyn
		} else {
			x = x.E[0]
		}
	}
	t = x.T
	switch k := t.K; {
	case k == KBool:
		add("B", shBool(x.B))
		if x.B {
			add("S", shS("true"))
		} else {
			add("S", shS("false"))
		}
	case k.isNumeric():
		for _, f := range numAccessors(x.asFloat()) {
			fs = append(fs, f)
		}
	case k == KString:
		add("S", shS(x.S))
		add("B", shBool(len(x.S) > 0))
		add("N", fmt.Sprint(len(unitsHex(x.S))/4))
	case k == KSlice || k == KArray:
		add("N", fmt.Sprint(len(x.E)))
		add("B", "t")
	case k == KMap || k == KStruct:
		add("B", "t")
	}
	return strings.Join(fs, ";")
}

// numAccessors: what Bool/Float/Int/Int64/Uint64/String must give for the JS number f, as far as
// the method documentation ("according to JavaScript type conversions (parseInt/parseFloat)") and
// the property statement settle it.
func numAccessors(f float64) []string {
	var fs []string
	add := func(k, want string) { fs = append(fs, k+"="+want) }
	add("F", shF64(f))
	add("B", shBool(f == f && f != 0))
	abs := f
	if abs < 0 {
		abs = -abs
	}
	isInt := f == f && abs <= two53 && f == float64(int64(f))
	// parseInt(x) of a number is the truncation of x when String(x) is plain decimal notation
	// (1e-6 <= |x| < 1e21) and 0 for zero.
	trunc := int64(0)
	plain := f == 0 || (abs >= 1e-6 && abs < 1e21)
	if f == f && abs <= two53 {
		trunc = int64(f)
	}
	if plain && f > -2147483649 && f < 2147483648 {
		add("I", fmt.Sprint(trunc))
	}
	if plain && abs <= two53 {
		add("L", fmt.Sprint(trunc))
		if f >= 0 || trunc == 0 {
			add("U", fmt.Sprint(uint64(trunc)))
		}
	}
	switch {
	case f != f:
		add("S", shS("NaN"))
	case math.IsInf(f, 1):
		add("S", shS("Infinity"))
	case math.IsInf(f, -1):
		add("S", shS("-Infinity"))
	case isInt:
		add("S", shS(fmt.Sprint(int64(f)))) // -0 prints as "0" in JavaScript, int64(-0) is 0 too
	}
	return fs
}

func sortedKeys(m map[string]int) []string {
	ks := make([]string, 0, len(m))
	for k := range m {
		ks = append(ks, k)
	}
	sort.Strings(ks)
	return ks
}
