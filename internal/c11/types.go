// Package c11 – Go and JavaScript values convert as documented and round-trip.
//
// There is no native reference for package js. The harness owns a small model of Go types and
// values (this file); for every (type, value) it derives, FROM THE TABLE IN js/js.go's PACKAGE
// COMMENT and the property statement (never from the implementation):
//
//   - JSDesc  – the descriptor the JS-side probe (js/c11_probe.js) must record when the value
//     arrives in JavaScript,
//   - ShowAny – what Object.Interface() must give back ("Conversions back to any" column),
//   - ShowT   – what a typed read-back (exposed function parameter / js-tagged field) must give,
//
// and generates self-checking GopherJS programs that print P/F lines.
package c11

import (
	"fmt"
	"math"
	"sort"
	"strings"
	"unicode"
	"unicode/utf16"
	"unicode/utf8"
)

type Kind int

const (
	KBool Kind = iota
	KInt
	KInt8
	KInt16
	KInt32
	KInt64
	KUint
	KUint8
	KUint16
	KUint32
	KUint64
	KUintptr
	KFloat32
	KFloat64
	KString
	KSlice
	KArray
	KMap // map[string]Elem
	KStruct
	KPtr // pointer to struct
	KAny
)

var kindName = map[Kind]string{KBool: "bool", KInt: "int", KInt8: "int8", KInt16: "int16", KInt32: "int32", KInt64: "int64",
	KUint: "uint", KUint8: "uint8", KUint16: "uint16", KUint32: "uint32", KUint64: "uint64", KUintptr: "uintptr",
	KFloat32: "float32", KFloat64: "float64", KString: "string", KSlice: "slice", KArray: "array", KMap: "map", KStruct: "struct", KPtr: "ptr", KAny: "any"}

func (k Kind) String() string { return kindName[k] }

func (k Kind) isSigned() bool   { return k >= KInt && k <= KInt64 }
func (k Kind) isUnsigned() bool { return k >= KUint && k <= KUintptr }
func (k Kind) isInt() bool      { return k >= KInt && k <= KUintptr }
func (k Kind) isFloat() bool    { return k == KFloat32 || k == KFloat64 }
func (k Kind) isNumeric() bool  { return k.isInt() || k.isFloat() }
func (k Kind) isScalar() bool   { return k <= KString }

// bits of an integer kind as GopherJS defines them (int, uint, uintptr are 32 bit).
func (k Kind) bits() int {
	switch k {
	case KInt8, KUint8:
		return 8
	case KInt16, KUint16:
		return 16
	case KInt64, KUint64:
		return 64
	}
	return 32
}

// Ty is a Go type of the model.
type Ty struct {
	K      Kind
	Elem   *Ty
	N      int   // array length
	Fields []Fld // struct
	Name   string
}

type Fld struct {
	Name string
	T    *Ty
}

func (f Fld) exported() bool { r, _ := utf8.DecodeRuneInString(f.Name); return unicode.IsUpper(r) }

func basic(k Kind) *Ty { return &Ty{K: k} }

var basics = func() map[Kind]*Ty {
	m := map[Kind]*Ty{}
	for k := KBool; k <= KString; k++ {
		m[k] = basic(k)
	}
	m[KAny] = basic(KAny)
	return m
}()

func sliceOf(e *Ty) *Ty        { return &Ty{K: KSlice, Elem: e} }
func arrayOf(n int, e *Ty) *Ty { return &Ty{K: KArray, Elem: e, N: n} }
func mapOf(e *Ty) *Ty          { return &Ty{K: KMap, Elem: e} }
func ptrTo(e *Ty) *Ty          { return &Ty{K: KPtr, Elem: e} }

// GoType is the type as written in a program.
func (t *Ty) GoType() string {
	switch t.K {
	case KSlice:
		return "[]" + t.Elem.GoType()
	case KArray:
		return fmt.Sprintf("[%d]%s", t.N, t.Elem.GoType())
	case KMap:
		return "map[string]" + t.Elem.GoType()
	case KStruct:
		return t.Name
	case KPtr:
		return "*" + t.Elem.GoType()
	}
	return kindName[t.K]
}

// Key is an identifier-safe name of the type (used in generated function names).
func (t *Ty) Key() string {
	switch t.K {
	case KSlice:
		return "sl_" + t.Elem.Key()
	case KArray:
		return fmt.Sprintf("ar%d_%s", t.N, t.Elem.Key())
	case KMap:
		return "mp_" + t.Elem.Key()
	case KStruct:
		return t.Name
	case KPtr:
		return "p_" + t.Elem.Key()
	}
	return kindName[t.K]
}

// Val is a Go value of the model.
type Val struct {
	T    *Ty
	B    bool
	I    int64   // signed ints
	U    uint64  // unsigned ints
	F    float64 // floats (float32 values are stored already rounded)
	S    string  // raw bytes
	Nil  bool    // slice, map, ptr, any
	E    []*Val  // slice/array elements, struct fields, map values (parallel to Keys), ptr target (1)
	Keys []string
	Dyn  *Val // any
	Off  int  // slices: offset into a larger backing array (generator emits lit[Off:Off+len])
}

func zeroOf(t *Ty) *Val {
	v := &Val{T: t}
	switch t.K {
	case KSlice, KMap, KPtr, KAny:
		v.Nil = true
	case KArray:
		for i := 0; i < t.N; i++ {
			v.E = append(v.E, zeroOf(t.Elem))
		}
	case KStruct:
		for _, f := range t.Fields {
			v.E = append(v.E, zeroOf(f.T))
		}
	}
	return v
}

const two53 = 1 << 53

// ---------------------------------------------------------------------------------------------
// exactness: is the value representable on both sides (then the round trip must be the identity)?

func validString(s string) bool { return utf8.ValidString(s) }

func (v *Val) exact() bool {
	switch v.T.K {
	case KInt64:
		return v.I >= -two53 && v.I <= two53
	case KUint64:
		return v.U <= two53
	case KString:
		return validString(v.S)
	case KAny:
		return v.Nil || v.Dyn.exact()
	}
	for _, k := range v.Keys {
		if !validString(k) {
			return false
		}
	}
	for _, e := range v.E {
		if !e.exact() {
			return false
		}
	}
	return true
}

// typedDocSilent reports whether a typed read-back of the value is outside what the
// documentation settles (null read back as a map / pointer type).
func (v *Val) typedDocSilent() bool {
	switch v.T.K {
	case KMap, KPtr:
		if v.Nil {
			return true
		}
	case KAny:
		// an interface comes back through the "conversion back to any" column – always defined
		return false
	}
	for _, e := range v.E {
		if e.typedDocSilent() {
			return true
		}
	}
	return false
}

// ---------------------------------------------------------------------------------------------
// Go source literal

func goStr(s string) string {
	var b strings.Builder
	b.WriteByte('"')
	for i := 0; i < len(s); i++ {
		c := s[i]
		if c < 0x20 || c > 0x7e || c == '"' || c == '\\' {
			fmt.Fprintf(&b, `\x%02x`, c)
		} else {
			b.WriteByte(c)
		}
	}
	b.WriteByte('"')
	return b.String()
}

func (v *Val) scalarLit() string {
	switch k := v.T.K; {
	case k == KBool:
		return fmt.Sprint(v.B)
	case k.isSigned():
		if k == KInt64 && v.I == math.MinInt64 {
			return "-9223372036854775808"
		}
		return fmt.Sprint(v.I)
	case k.isUnsigned():
		return fmt.Sprint(v.U)
	case k == KFloat64:
		return fmt.Sprintf("math.Float64frombits(0x%016x)", math.Float64bits(v.F))
	case k == KFloat32:
		return fmt.Sprintf("math.Float32frombits(0x%08x)", math.Float32bits(float32(v.F)))
	case k == KString:
		return goStr(v.S)
	}
	panic("scalarLit " + v.T.GoType())
}

// GoLit renders the value as a Go expression of type v.T.
func (v *Val) GoLit() string {
	t := v.T
	switch t.K {
	case KSlice:
		if v.Nil {
			return t.GoType() + "(nil)"
		}
		var es []string
		for i := 0; i < v.Off; i++ {
			es = append(es, zeroOf(t.Elem).elemLit())
		}
		for _, e := range v.E {
			es = append(es, e.elemLit())
		}
		s := t.GoType() + "{" + strings.Join(es, ", ") + "}"
		if v.Off > 0 {
			s += fmt.Sprintf("[%d:]", v.Off)
		}
		return s
	case KArray:
		var es []string
		for _, e := range v.E {
			es = append(es, e.elemLit())
		}
		return t.GoType() + "{" + strings.Join(es, ", ") + "}"
	case KMap:
		if v.Nil {
			return t.GoType() + "(nil)"
		}
		var es []string
		for i, e := range v.E {
			es = append(es, goStr(v.Keys[i])+": "+e.elemLit())
		}
		return t.GoType() + "{" + strings.Join(es, ", ") + "}"
	case KStruct:
		var es []string
		for i, e := range v.E {
			es = append(es, t.Fields[i].Name+": "+e.elemLit())
		}
		return t.GoType() + "{" + strings.Join(es, ", ") + "}"
	case KPtr:
		if v.Nil {
			return "(" + t.GoType() + ")(nil)"
		}
		return "&" + v.E[0].GoLit()
	case KAny:
		if v.Nil {
			return "any(nil)"
		}
		return "any(" + v.Dyn.GoLit() + ")"
	}
	return t.GoType() + "(" + v.scalarLit() + ")"
}

// elemLit is GoLit inside a composite literal (same thing; typed conversions keep it unambiguous).
func (v *Val) elemLit() string { return v.GoLit() }

// ---------------------------------------------------------------------------------------------
// expected JavaScript descriptor (grammar of js/c11_probe.js), derived from the js.go table

func bitsHex(f float64) string {
	if f != f {
		return "nan"
	}
	return fmt.Sprintf("%016x", math.Float64bits(f))
}

func unitsHex(s string) string {
	var b strings.Builder
	for _, u := range utf16.Encode([]rune(s)) {
		fmt.Fprintf(&b, "%04x", u)
	}
	return b.String()
}

// asFloat is the JS Number a numeric Go value becomes ("integers and floats -> Number").
func (v *Val) asFloat() float64 {
	switch k := v.T.K; {
	case k.isSigned():
		return float64(v.I)
	case k.isUnsigned():
		return float64(v.U)
	}
	return v.F
}

var taClass = map[Kind]string{KInt8: "Int8Array", KInt16: "Int16Array", KInt32: "Int32Array", KInt: "Int32Array",
	KUint8: "Uint8Array", KUint16: "Uint16Array", KUint32: "Uint32Array", KUint: "Uint32Array",
	KFloat32: "Float32Array", KFloat64: "Float64Array"}

// anyWild is the descriptor wildcard for values the documentation does not pin down.
const wild = "*"

// JSDesc returns the expected descriptor; "*" where nothing specific is documented
// (non-representable values): then only "does not crash, deterministic" is required.
func (v *Val) JSDesc() string {
	t := v.T
	if !v.exact() {
		// the table still fixes the JavaScript type of scalars: integers -> Number, string -> String
		switch k := t.K; {
		case k.isNumeric():
			return "num:" + wild
		case k == KString:
			return "str:" + wild
		case k == KAny:
			return v.Dyn.JSDesc()
		}
		return wild
	}
	switch k := t.K; {
	case k == KBool:
		return fmt.Sprintf("bool:%v", v.B)
	case k.isNumeric():
		return "num:" + bitsHex(v.asFloat())
	case k == KString:
		return "str:" + unitsHex(v.S)
	case k == KSlice || k == KArray:
		if v.Nil {
			return "null"
		}
		if cls, ok := taClass[t.Elem.K]; ok {
			es := make([]string, len(v.E))
			for i, e := range v.E {
				es[i] = bitsHex(e.asFloat())
			}
			return fmt.Sprintf("ta:%s:%d:[%s]", cls, len(v.E), strings.Join(es, ","))
		}
		es := make([]string, len(v.E))
		for i, e := range v.E {
			es[i] = e.JSDesc()
		}
		return "arr[" + strings.Join(es, ",") + "]"
	case k == KMap:
		if v.Nil {
			return "null"
		}
		return objDesc(v.Keys, v.E)
	case k == KStruct:
		var ks []string
		var es []*Val
		for i, f := range t.Fields {
			if f.exported() {
				ks = append(ks, f.Name)
				es = append(es, v.E[i])
			}
		}
		return objDesc(ks, es)
	case k == KPtr:
		if v.Nil {
			return "null"
		}
		return v.E[0].JSDesc()
	case k == KAny:
		if v.Nil {
			return "null"
		}
		return v.Dyn.JSDesc()
	}
	panic("JSDesc")
}

func objDesc(keys []string, vals []*Val) string {
	type kv struct{ k, d string }
	var kvs []kv
	for i, k := range keys {
		kvs = append(kvs, kv{unitsHex(k), vals[i].JSDesc()})
	}
	sort.Slice(kvs, func(i, j int) bool { return kvs[i].k < kvs[j].k })
	es := make([]string, len(kvs))
	for i, x := range kvs {
		es[i] = x.k + "=" + x.d
	}
	return "obj{" + strings.Join(es, ",") + "}"
}

// ---------------------------------------------------------------------------------------------
// expected Go-side renderings (must mirror the show helpers in lib.go)

func qq(s string) string {
	var b strings.Builder
	for i := 0; i < len(s); i++ {
		c := s[i]
		if c < 0x21 || c > 0x7e || c == '\\' || c == '"' || c == ';' {
			fmt.Fprintf(&b, `\x%02x`, c)
		} else {
			b.WriteByte(c)
		}
	}
	return b.String()
}

func shS(s string) string { return `"` + qq(s) + `"` }

func shF64(f float64) string { return bitsHex(f) }
func shF32(f float64) string {
	if f != f {
		return "nan"
	}
	return fmt.Sprintf("%08x", math.Float32bits(float32(f)))
}

func shBool(b bool) string {
	if b {
		return "t"
	}
	return "f"
}

func (v *Val) scalarShow() string {
	switch k := v.T.K; {
	case k == KBool:
		return shBool(v.B)
	case k.isSigned():
		return fmt.Sprint(v.I)
	case k.isUnsigned():
		return fmt.Sprint(v.U)
	case k == KFloat64:
		return shF64(v.F)
	case k == KFloat32:
		return shF32(v.F)
	case k == KString:
		return shS(v.S)
	}
	panic("scalarShow")
}

// ShowT is the rendering of the value after a typed round trip Go T -> JS -> Go T:
// identity, except that unexported struct fields are invisible to JavaScript (come back zero)
// and interface-typed positions come back as the "conversion back to any".
func (v *Val) ShowT() string { return v.showT(true) }

// ShowOrig renders the value as it is on the Go side before any trip.
func (v *Val) ShowOrig() string { return v.showT(false) }

func (v *Val) showT(tripped bool) string {
	t := v.T
	switch t.K {
	case KSlice, KArray:
		if v.Nil {
			return "nil"
		}
		es := make([]string, len(v.E))
		for i, e := range v.E {
			es[i] = e.showT(tripped)
		}
		return "[" + strings.Join(es, ",") + "]"
	case KMap:
		if v.Nil {
			return "nil"
		}
		idx := make([]int, len(v.Keys))
		for i := range idx {
			idx[i] = i
		}
		sort.Slice(idx, func(a, b int) bool { return v.Keys[idx[a]] < v.Keys[idx[b]] })
		es := make([]string, len(idx))
		for i, j := range idx {
			es[i] = shS(v.Keys[j]) + ":" + v.E[j].showT(tripped)
		}
		return "{" + strings.Join(es, ",") + "}"
	case KStruct:
		es := make([]string, len(v.E))
		for i, e := range v.E {
			if tripped && !t.Fields[i].exported() {
				e = zeroOf(t.Fields[i].T)
			}
			es[i] = t.Fields[i].Name + ":" + e.showT(tripped)
		}
		return "{" + strings.Join(es, ",") + "}"
	case KPtr:
		if v.Nil {
			return "nil"
		}
		return "&" + v.E[0].showT(tripped)
	case KAny:
		if tripped {
			return v.ShowAny()
		}
		if v.Nil {
			return "nil"
		}
		return "any(" + v.Dyn.showT(false) + ")"
	}
	return v.scalarShow()
}

var anySliceName = map[Kind]string{KInt8: "[]int8", KInt16: "[]int16", KInt32: "[]int", KInt: "[]int",
	KUint8: "[]uint8", KUint16: "[]uint16", KUint32: "[]uint", KUint: "[]uint", KFloat32: "[]float32", KFloat64: "[]float64"}

// ShowAny is the rendering (lib.go shAny) of Object.Interface() applied to the JS value the
// Go value became – the "Conversions back to any" column of the table.
func (v *Val) ShowAny() string {
	t := v.T
	switch k := t.K; {
	case k == KBool:
		return "bool:" + shBool(v.B)
	case k.isNumeric():
		return "f64:" + shF64(v.asFloat())
	case k == KString:
		return "str:" + shS(v.S)
	case k == KSlice || k == KArray:
		if v.Nil {
			return "nil"
		}
		if n, ok := anySliceName[t.Elem.K]; ok {
			es := make([]string, len(v.E))
			for i, e := range v.E {
				switch t.Elem.K {
				case KFloat32:
					es[i] = shF32(e.F)
				case KFloat64:
					es[i] = shF64(e.F)
				default:
					es[i] = e.scalarShow()
				}
			}
			return n + "[" + strings.Join(es, ",") + "]"
		}
		es := make([]string, len(v.E))
		for i, e := range v.E {
			es[i] = e.ShowAny()
		}
		return "[]any[" + strings.Join(es, ",") + "]"
	case k == KMap:
		if v.Nil {
			return "nil"
		}
		return mapAny(v.Keys, v.E)
	case k == KStruct:
		var ks []string
		var es []*Val
		for i, f := range t.Fields {
			if f.exported() {
				ks = append(ks, f.Name)
				es = append(es, v.E[i])
			}
		}
		return mapAny(ks, es)
	case k == KPtr:
		if v.Nil {
			return "nil"
		}
		return v.E[0].ShowAny()
	case k == KAny:
		if v.Nil {
			return "nil"
		}
		return v.Dyn.ShowAny()
	}
	panic("ShowAny")
}

func mapAny(keys []string, vals []*Val) string {
	idx := make([]int, len(keys))
	for i := range idx {
		idx[i] = i
	}
	sort.Slice(idx, func(a, b int) bool { return keys[idx[a]] < keys[idx[b]] })
	es := make([]string, len(idx))
	for i, j := range idx {
		es[i] = shS(keys[j]) + ":" + vals[j].ShowAny()
	}
	return "map{" + strings.Join(es, ",") + "}"
}

// ---------------------------------------------------------------------------------------------
// walking

func (t *Ty) walk(f func(*Ty)) {
	switch t.K {
	case KSlice, KArray, KMap, KPtr:
		t.Elem.walk(f)
	case KStruct:
		for _, fl := range t.Fields {
			fl.T.walk(f)
		}
	}
	f(t)
}

func (v *Val) walkTypes(f func(*Ty)) {
	v.T.walk(f)
	if v.Dyn != nil {
		v.Dyn.walkTypes(f)
	}
	for _, e := range v.E {
		e.walkTypes(f)
	}
}

// classOf is the expected JavaScript class of the value (evidence: distinct (type, class) pairs).
func (v *Val) classOf() string {
	d := v.JSDesc()
	switch {
	case d == "num:"+wild:
		return "number(beyond 2^53)"
	case d == "str:"+wild:
		return "string(invalid UTF-8)"
	case d == wild:
		return "composite(non-representable leaf)"
	case strings.HasPrefix(d, "ta:"):
		return strings.SplitN(d, ":", 3)[1]
	case strings.HasPrefix(d, "num:"):
		return "number"
	case strings.HasPrefix(d, "str:"):
		return "string"
	case strings.HasPrefix(d, "bool:"):
		return "boolean"
	case strings.HasPrefix(d, "arr["):
		return "Array"
	case strings.HasPrefix(d, "obj{"):
		return "Object"
	}
	return d
}
