package c11

import (
	"fmt"
	"math"
	"math/rand"
	"unicode/utf8"
)

func mkInt(k Kind, i int64) *Val   { return &Val{T: basics[k], I: i} }
func mkUint(k Kind, u uint64) *Val { return &Val{T: basics[k], U: u} }
func mkF64(f float64) *Val         { return &Val{T: basics[KFloat64], F: f} }
func mkF32(f float32) *Val         { return &Val{T: basics[KFloat32], F: float64(f)} }
func mkStr(s string) *Val          { return &Val{T: basics[KString], S: s} }
func mkBool(b bool) *Val           { return &Val{T: basics[KBool], B: b} }
func mkAny(d *Val) *Val {
	if d == nil {
		return &Val{T: basics[KAny], Nil: true}
	}
	return &Val{T: basics[KAny], Dyn: d}
}
func mkSlice(e *Ty, off int, es ...*Val) *Val { return &Val{T: sliceOf(e), E: es, Off: off} }
func mkNilSlice(e *Ty) *Val                   { return &Val{T: sliceOf(e), Nil: true} }
func mkArray(e *Ty, es ...*Val) *Val          { return &Val{T: arrayOf(len(es), e), E: es} }
func mkMap(e *Ty, keys []string, es ...*Val) *Val {
	return &Val{T: mapOf(e), Keys: keys, E: es}
}
func mkNilMap(e *Ty) *Val { return &Val{T: mapOf(e), Nil: true} }

var signedKinds = []Kind{KInt, KInt8, KInt16, KInt32, KInt64}
var unsignedKinds = []Kind{KUint, KUint8, KUint16, KUint32, KUint64, KUintptr}
var taKinds = []Kind{KInt8, KInt16, KInt32, KInt, KUint8, KUint16, KUint32, KUint, KFloat32, KFloat64}

func intRange(k Kind) (lo int64, hi uint64) {
	b := k.bits()
	if k.isSigned() {
		if b == 64 {
			return math.MinInt64, math.MaxInt64
		}
		return -(1 << (b - 1)), 1<<(b-1) - 1
	}
	if b == 64 {
		return 0, math.MaxUint64
	}
	return 0, 1<<b - 1
}

// intBoundary: min, max, neighbours, ±2^53 and ±(2^53±1), powers of two, plus n random values.
func intBoundary(k Kind, r *rand.Rand, n int) []*Val {
	lo, hi := intRange(k)
	var out []*Val
	seen := map[string]bool{}
	if k.isSigned() {
		add := func(i int64) {
			if i < lo || i > int64(hi) {
				return
			}
			if s := fmt.Sprint(i); !seen[s] {
				seen[s] = true
				out = append(out, mkInt(k, i))
			}
		}
		for _, i := range []int64{0, 1, -1, 2, -2, 127, 128, -128, -129, 255, 256, 32767, 32768, -32768, -32769, 65535, 65536,
			1<<31 - 1, 1 << 31, -(1 << 31), -(1 << 31) - 1, 1<<32 - 1, 1 << 32, -(1 << 32), two53 - 1, two53, two53 + 1, two53 + 2,
			-(two53 - 1), -two53, -(two53 + 1), -(two53 + 2), 1 << 62, math.MaxInt64, math.MaxInt64 - 1, math.MinInt64, math.MinInt64 + 1, 1e15, -1e15, 4294967295 * 2} {
			add(i)
		}
		add(lo)
		add(lo + 1)
		add(int64(hi))
		add(int64(hi) - 1)
		for i := 0; i < n; i++ {
			x := int64(r.Uint64())
			if r.Intn(3) == 0 {
				x >>= uint(r.Intn(64))
			}
			if k.bits() < 64 {
				x = x << (64 - uint(k.bits())) >> (64 - uint(k.bits()))
			}
			add(x)
		}
		return out
	}
	add := func(u uint64) {
		if u > hi {
			return
		}
		if s := fmt.Sprint(u); !seen[s] {
			seen[s] = true
			out = append(out, mkUint(k, u))
		}
	}
	for _, u := range []uint64{0, 1, 2, 127, 128, 255, 256, 32767, 32768, 65535, 65536, 1<<31 - 1, 1 << 31, 1<<32 - 1, 1 << 32, two53 - 1, two53, two53 + 1, two53 + 2,
		1 << 63, 1<<63 - 1, 1<<63 + 1, math.MaxUint64, math.MaxUint64 - 1, 1e15} {
		add(u)
	}
	add(hi)
	add(hi - 1)
	for i := 0; i < n; i++ {
		x := r.Uint64()
		if r.Intn(3) == 0 {
			x >>= uint(r.Intn(64))
		}
		if k.bits() < 64 {
			x &= 1<<uint(k.bits()) - 1
		}
		add(x)
	}
	return out
}

func f64Boundary(r *rand.Rand, n int) []*Val {
	fs := []float64{0, math.Copysign(0, -1), math.NaN(), math.Inf(1), math.Inf(-1), math.SmallestNonzeroFloat64, -math.SmallestNonzeroFloat64,
		2.2250738585072014e-308, 2.225073858507201e-308, math.MaxFloat64, -math.MaxFloat64, two53, two53 + 2, two53 - 1, -two53, 1 << 31, 1<<31 - 1, -(1 << 31), 1 << 32, 1<<32 - 1,
		0.1, 0.5, -0.5, 1.5, -1.5, 2.5, 3.7, -3.7, math.Pi, 1e21, 1e-7, 1e-6, 1e20, 123456789012345680000, 1e300, -1e-300, 0.1 + 0.2, 1.0000000000000002,
		4294967295.5, -4294967295.5, 2147483647.5, -2147483648.5, 16777217, 9007199254740993, 1, -1, 255, 256, 65535.999, 1e15 + 0.5}
	var out []*Val
	for _, f := range fs {
		out = append(out, mkF64(f))
	}
	for i := 0; i < n; i++ {
		var f float64
		switch r.Intn(4) {
		case 0:
			f = math.Float64frombits(r.Uint64())
		case 1:
			f = float64(int64(r.Uint64()>>uint(r.Intn(64)))) * []float64{1, -1}[r.Intn(2)]
		case 2:
			f = (r.Float64() - 0.5) * math.Pow(10, float64(r.Intn(40)-20))
		default:
			f = math.Float64frombits(r.Uint64() & 0x800fffffffffffff) // subnormals
		}
		out = append(out, mkF64(f))
	}
	return out
}

func f32Boundary(r *rand.Rand, n int) []*Val {
	fs := []float32{0, float32(math.Copysign(0, -1)), float32(math.NaN()), float32(math.Inf(1)), float32(math.Inf(-1)), math.SmallestNonzeroFloat32, -math.SmallestNonzeroFloat32,
		math.MaxFloat32, -math.MaxFloat32, 0.1, 0.5, 1.5, -3.7, 16777216, 16777217, 3.4028235e38, 1.17549435e-38, 1e-45, 1, -1, 255.5, 1.0000001}
	var out []*Val
	for _, f := range fs {
		out = append(out, mkF32(f))
	}
	for i := 0; i < n; i++ {
		var f float32
		if r.Intn(2) == 0 {
			f = math.Float32frombits(r.Uint32())
		} else {
			f = float32((r.Float64() - 0.5) * math.Pow(10, float64(r.Intn(30)-15)))
		}
		out = append(out, mkF32(f))
	}
	return out
}

// rune classes: every UTF-8 length class, the edges of each, and the surrogate-pair range.
var runeClasses = [][2]rune{
	{0x00, 0x7f}, {0x20, 0x7e}, {0x80, 0x7ff}, {0x800, 0xd7ff}, {0xe000, 0xffff}, {0x10000, 0x10ffff}, {0x1f300, 0x1f6ff},
	{0x7f, 0x80}, {0x7ff, 0x800}, {0xfffd, 0x10000}, {0xd7ff, 0xd7ff}, {0xe000, 0xe000}, {0x10ffff, 0x10ffff}, {0, 0},
}

func randRune(r *rand.Rand) rune {
	c := runeClasses[r.Intn(len(runeClasses))]
	x := c[0] + rune(r.Int63n(int64(c[1]-c[0])+1))
	if x >= 0xd800 && x <= 0xdfff {
		x = 0xfffd
	}
	return x
}

func randValidString(r *rand.Rand, maxRunes int) string {
	n := r.Intn(maxRunes + 1)
	var b []byte
	for i := 0; i < n; i++ {
		b = utf8.AppendRune(b, randRune(r))
	}
	return string(b)
}

func randInvalidString(r *rand.Rand) string {
	for {
		n := 1 + r.Intn(6)
		b := make([]byte, n)
		for i := range b {
			switch r.Intn(3) {
			case 0:
				b[i] = byte(r.Intn(256))
			case 1:
				b[i] = byte(0x80 + r.Intn(0x80))
			default:
				b[i] = byte(r.Intn(0x80))
			}
		}
		if !utf8.Valid(b) {
			return string(b)
		}
	}
}

var fixedValidStrings = []string{
	"", "a", "hello, world", "\x00", "a\x00b", "\x7f", "\u0080", "\u00e9", "\u07ff", "\u0800", "\ud7ff", "\ue000", "\ufffd", "\uffff", "\ufeff",
	"\U00010000", "\U0001F600", "\U0010FFFF", "a\U0001F600b", "\U0001F600\U0001F600", "\u00e9\u0800\U00010000z", "\u65e5\u672c\u8a9e", "tab\there\nnl", "quote\"back\\slash;semi",
	"  padded  ", "0", "42", "-17", "3.5", "1e3", "0x1F", "12abc", "true", "null", "NaN", "Infinity",
}

var fixedInvalidStrings = []string{
	"\xff", "\xc3", "a\xc3", "\xc3(", "\xed\xa0\x80", "\xed\xbf\xbf", "\xf4\x90\x80\x80", "\xc0\x80", "\xe0\x80\x80", "\xf0\x80\x80\x80", "\xf8\x88\x80\x80\x80",
	"\x80", "ok\x80ok", "\xe2\x82", "\xf0\x9f\x98", "é\xffé",
}

func stringValues(r *rand.Rand, nValid, nInvalid int) []*Val {
	var out []*Val
	for _, s := range fixedValidStrings {
		out = append(out, mkStr(s))
	}
	for _, s := range fixedInvalidStrings {
		out = append(out, mkStr(s))
	}
	for i := 0; i < nValid; i++ {
		out = append(out, mkStr(randValidString(r, 10)))
	}
	for i := 0; i < nInvalid; i++ {
		out = append(out, mkStr(randInvalidString(r)))
	}
	return out
}

// randScalar returns a random value of scalar kind k; exactOnly restricts to values representable on
// both sides.
func randScalar(k Kind, r *rand.Rand, exactOnly bool) *Val {
	switch {
	case k == KBool:
		return mkBool(r.Intn(2) == 0)
	case k.isInt():
		for {
			vs := intBoundary(k, r, 2)
			v := vs[r.Intn(len(vs))]
			if !exactOnly || v.exact() {
				return v
			}
		}
	case k == KFloat64:
		if r.Intn(3) == 0 {
			vs := f64Boundary(r, 0)
			return vs[r.Intn(len(vs))]
		}
		return f64Boundary(r, 1)[len(f64Boundary(r, 0))]
	case k == KFloat32:
		if r.Intn(3) == 0 {
			vs := f32Boundary(r, 0)
			return vs[r.Intn(len(vs))]
		}
		return f32Boundary(r, 1)[len(f32Boundary(r, 0))]
	case k == KString:
		if !exactOnly && r.Intn(12) == 0 {
			return mkStr(randInvalidString(r))
		}
		if r.Intn(4) == 0 {
			return mkStr(fixedValidStrings[r.Intn(len(fixedValidStrings))])
		}
		return mkStr(randValidString(r, 6))
	}
	panic("randScalar")
}

var scalarKinds = []Kind{KBool, KInt, KInt8, KInt16, KInt32, KInt64, KUint, KUint8, KUint16, KUint32, KUint64, KUintptr, KFloat32, KFloat64, KString}

var mapKeyPool = []string{"a", "b", "k1", "", "constructor", "toString", "hasOwnProperty", "valueOf", "0", "1", "10", "1e3", "-1", "\u03c0", "\U0001F600", "has space", "__defineGetter__", "length", "prototype", "a.b", "a\x00b", "\u00e9"}

var fieldNamePool = []string{"A", "B", "Cc", "Dd", "X1", "Length", "Constructor", "ToString"}
var unexportedPool = []string{"x", "yy", "hidden", "_u"}

// noUintptr: the table lists "[]uint32, []uint -> Uint32Array" and "all other slices -> Array";
// []uintptr is ambiguous (it is a 32-bit unsigned integer slice), so it is not used as an
// element type of asserted cases.
func noUintptr(t *Ty) *Ty {
	if t.K == KUintptr {
		return basics[KUint32]
	}
	return t
}

// elemKinds are the scalar kinds used as slice / array element types.
var elemKinds = []Kind{KBool, KInt, KInt8, KInt16, KInt32, KInt64, KUint, KUint8, KUint16, KUint32, KUint64, KFloat32, KFloat64, KString}

// randType builds a random composite type of bounded depth.
func (p *prog) randType(r *rand.Rand, depth int) *Ty {
	if depth <= 0 || r.Intn(3) == 0 {
		if r.Intn(10) == 0 {
			return basics[KAny]
		}
		return basics[scalarKinds[r.Intn(len(scalarKinds))]]
	}
	switch r.Intn(6) {
	case 0:
		return sliceOf(noUintptr(p.randType(r, depth-1)))
	case 1:
		return arrayOf(1+r.Intn(3), noUintptr(p.randType(r, depth-1)))
	case 2:
		return mapOf(p.randType(r, depth-1))
	case 3, 4:
		n := 1 + r.Intn(4)
		var fs []Fld
		used := map[string]bool{}
		for i := 0; i < n; i++ {
			pool := fieldNamePool
			if r.Intn(4) == 0 {
				pool = unexportedPool
			}
			name := pool[r.Intn(len(pool))]
			if used[name] {
				continue
			}
			used[name] = true
			fs = append(fs, Fld{name, p.randType(r, depth-1)})
		}
		st := p.newStruct(fs...)
		if r.Intn(3) == 0 {
			return ptrTo(st)
		}
		return st
	default:
		return sliceOf(basics[taKinds[r.Intn(len(taKinds))]])
	}
}

// randVal builds a random value of type t.
func randVal(t *Ty, r *rand.Rand, exactOnly bool, depth int) *Val {
	switch t.K {
	case KSlice:
		if r.Intn(8) == 0 {
			return &Val{T: t, Nil: true}
		}
		n := r.Intn(4)
		v := &Val{T: t}
		if _, ok := taClass[t.Elem.K]; ok && r.Intn(2) == 0 {
			v.Off = r.Intn(3)
		}
		for i := 0; i < n; i++ {
			v.E = append(v.E, randVal(t.Elem, r, exactOnly, depth+1))
		}
		if n == 0 {
			v.E = []*Val{}
		}
		return v
	case KArray:
		v := &Val{T: t}
		for i := 0; i < t.N; i++ {
			v.E = append(v.E, randVal(t.Elem, r, exactOnly, depth+1))
		}
		return v
	case KMap:
		if r.Intn(8) == 0 {
			return &Val{T: t, Nil: true}
		}
		n := r.Intn(4)
		v := &Val{T: t, Keys: []string{}, E: []*Val{}}
		used := map[string]bool{}
		for i := 0; i < n; i++ {
			k := mapKeyPool[r.Intn(len(mapKeyPool))]
			if r.Intn(4) == 0 {
				k = randValidString(r, 3)
			}
			if used[k] || k == "__proto__" {
				continue
			}
			used[k] = true
			v.Keys = append(v.Keys, k)
			v.E = append(v.E, randVal(t.Elem, r, exactOnly, depth+1))
		}
		return v
	case KStruct:
		v := &Val{T: t}
		for _, f := range t.Fields {
			v.E = append(v.E, randVal(f.T, r, exactOnly, depth+1))
		}
		return v
	case KPtr:
		if r.Intn(8) == 0 {
			return &Val{T: t, Nil: true}
		}
		return &Val{T: t, E: []*Val{randVal(t.Elem, r, exactOnly, depth+1)}}
	case KAny:
		if r.Intn(6) == 0 || depth > 4 {
			return mkAny(nil)
		}
		// dynamic type: a scalar or a small composite of scalars
		var dt *Ty
		switch r.Intn(5) {
		case 0:
			dt = sliceOf(basics[elemKinds[r.Intn(len(elemKinds))]])
		case 1:
			dt = mapOf(basics[scalarKinds[r.Intn(len(scalarKinds))]])
		case 2:
			dt = sliceOf(basics[KAny])
		default:
			dt = basics[scalarKinds[r.Intn(len(scalarKinds))]]
		}
		return mkAny(randVal(dt, r, exactOnly, depth+1))
	}
	return randScalar(t.K, r, exactOnly)
}
