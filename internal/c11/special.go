package c11

import (
	"fmt"
	"strings"
)

// special is a hand-written workload program with its expectations.
type special struct {
	name   string
	src    string
	expect map[string]string // probe tag -> descriptor (ids masked as #?; @off:buf kept only if written)
	same   [][]string        // groups of probe tags whose function/buffer ids must all be equal
	differ [][2]string       // pairs of probe tags whose ids must differ
	checks []string          // Go-side check ids that must print P
	trace  []string          // exact trace lines (lines not starting with P/F/X) in order, if non-nil
}

func d(f float64) string { return "num:" + bitsHex(f) }
func ds(s string) string { return "str:" + unitsHex(s) }

func objOf(kv ...string) string {
	var es []string
	type e struct{ k, v string }
	var xs []e
	for i := 0; i+1 < len(kv); i += 2 {
		xs = append(xs, e{unitsHex(kv[i]), kv[i+1]})
	}
	for i := 1; i < len(xs); i++ {
		for j := i; j > 0 && xs[j].k < xs[j-1].k; j-- {
			xs[j], xs[j-1] = xs[j-1], xs[j]
		}
	}
	for _, x := range xs {
		es = append(es, x.k+"="+x.v)
	}
	return "obj{" + strings.Join(es, ",") + "}"
}

const specialHeader = `package main

import (
	"math"

	"github.com/gopherjs/gopherjs/js"
)

var _ = math.Float64bits
`

// ---------------------------------------------------------------------------------------------

func spFunctions() *special {
	src := specialHeader + `
func top(a int, b string) string { return b + itoa(a) }

func variadic(pre string, xs ...int) int {
	s := len(pre)
	for _, x := range xs {
		s += x
	}
	return s
}

func multi() (int, string, []byte) { return 7, "x", []byte{1, 2} }
func none()                        {}

type Rec struct {
	n    int
	Name string
}

func (r *Rec) Inc(d int) int        { r.n += d; return r.n }
func (r *Rec) Get() string          { return r.Name }
func (r *Rec) hidden() int          { return 1 }
func (r *Rec) Pair() (int, string)  { return r.n, r.Name }
func (r *Rec) Echo(xs ...string) []string { return xs }

type Inner struct{ *js.Object }

type FIn struct{ K int }

type FT struct {
	Name string
	N    int
	F    float64
	Bs   []byte
	In   FIn
	hid  int
}

func (t *FT) Double() int      { return t.N * 2 }
func (t *FT) SetName(s string) { t.Name = s }

type Tagged struct {
	Inner
	N     int                      ` + "`js:\"n\"`" + `
	S     string                   ` + "`js:\"s\"`" + `
	F64   float64                  ` + "`js:\"f64\"`" + `
	I64   int64                    ` + "`js:\"i64\"`" + `
	U8    uint8                    ` + "`js:\"u8\"`" + `
	B     bool                     ` + "`js:\"b\"`" + `
	Bs    []byte                   ` + "`js:\"bs\"`" + `
	Any   any                      ` + "`js:\"any\"`" + `
	Fn    func(int, string) string ` + "`js:\"fn\"`" + `
	Sub   *js.Object               ` + "`js:\"sub\"`" + `
	Weird int                      ` + "`js:\"weird-key\"`" + `
}

func main() {
	// ---- identity: the same Go function always externalises to the same JavaScript function
	js.Global.Call("__vp", "id.top1", top)
	js.Global.Call("__vp", "id.top2", top)
	js.Global.Set("c11top", top)
	js.Global.Call("__vpRead", "id.top3", "c11top")
	var a any = top
	js.Global.Call("__vp", "id.top4", a)
	js.Global.Call("__vpProp", "id.top5", js.M{"f": top}, "f")
	o := newObj()
	o.Set("f", top)
	js.Global.Call("__vpProp", "id.top6", o, "f")
	vpFn.Invoke("id.top7", top)
	chk("id.same", shB(js.Global.Call("__vpSame", "id.same12", top, top).Bool()), "t")
	cl := func(x int) int { return x + 1 }
	js.Global.Call("__vp", "id.cl1", cl)
	js.Global.Call("__vp", "id.cl2", cl)
	js.Global.Call("__vp", "id.other", variadic)
	js.Global.Call("__vp", "id.top8", top)
	var nilf func()
	js.Global.Call("__vp", "id.nil", nilf)

	// ---- exposed functions: converted arguments and results
	r := js.Global.Call("__vpCall", "fn.top", top, 5, "\u00e9\U0001F600")
	chk("fn.top", shS(r.String()), shS("\u00e9\U0001F6005"))
	r = js.Global.Call("__vpCall", "fn.var0", variadic, "ab")
	chk("fn.var0", itoa(r.Int()), "2")
	r = js.Global.Call("__vpCall", "fn.var3", variadic, "ab", 1, 2, 3)
	chk("fn.var3", itoa(r.Int()), "8")
	r = js.Global.Call("__vpCall", "fn.multi", multi)
	chk("fn.multi.len", itoa(r.Length()), "3")
	chk("fn.multi.0", itoa(r.Index(0).Int()), "7")
	chk("fn.multi.1", shS(r.Index(1).String()), shS("x"))
	r = js.Global.Call("__vpCall", "fn.none", none)
	chk("fn.none", shB(r == js.Undefined), "t")
	js.Global.Set("c11apply", func(f func(int) int, x int) int { return f(x) * 2 })
	r = js.Global.Call("__vpCallSpec", "fn.cb", js.Global.Get("c11apply"), "[function(x){return x+1}, 20]")
	chk("fn.cb", itoa(r.Int()), "42")
	r = js.Global.Call("__vpCall", "fn.cb2", js.Global.Get("c11apply"), cl, 20)
	chk("fn.cb2", itoa(r.Int()), "42")
	f := mk("function(a,b){return a+b}").Interface().(func(...any) *js.Object)
	chk("fn.iface", itoa(f(1, 2).Int()), "3")
	chk("fn.iface.s", shS(f("a", "\u00e9").String()), shS("a\u00e9"))
	js.Global.Set("c11pt", func(p struct{ X, Y int }) map[string]int { return map[string]int{"sum": p.X + p.Y} })
	r = js.Global.Call("__vpCallSpec", "fn.struct", js.Global.Get("c11pt"), "[{X:3,Y:4}]")
	chk("fn.struct", itoa(r.Get("sum").Int()), "7")
	js.Global.Set("c11obj", func(o *js.Object) *js.Object { return o })
	probe := newObj()
	chk("fn.obj", shB(js.Global.Call("__vpSame", "fn.objsame", js.Global.Call("c11obj", probe), probe).Bool()), "t")
	js.Global.Set("c11mixed", func(i8 int8, u16 uint16, f32 float32, s string, b bool, bs []byte, m map[string]string, xs ...float64) []any {
		out := []any{i8, u16, f32, s, b, bs, m}
		for _, x := range xs {
			out = append(out, x)
		}
		return out
	})
	r = js.Global.Call("__vpCallSpec", "fn.mixed", js.Global.Get("c11mixed"), "[-128, 65535, 0.5, \"\\ud83d\\ude00z\", true, new Uint8Array([9,8]), {k:\"v\"}, 1.25, -2.5]")
	chk("fn.mixed.len", itoa(r.Length()), "9")
	var kept []string
	js.Global.Set("c11keep", func(xs ...string) { kept = xs })
	js.Global.Call("__vpCallSpec", "fn.keep", js.Global.Get("c11keep"), "[\"a\",\"\\u00e9\",\"\"]")
	chk("fn.keep", show_strs(kept), "["+shS("a")+","+shS("\u00e9")+","+shS("")+"]")
	js.Global.Call("__vpCallSpec", "fn.keep0", js.Global.Get("c11keep"), "[]")
	chk("fn.keep0", itoa(len(kept)), "0")

	// ---- MakeFunc: this and arguments
	mf := js.MakeFunc(func(this *js.Object, args []*js.Object) any {
		return js.M{"this": this, "n": len(args), "first": args[0], "sum": args[0].Int() + args[1].Int()}
	})
	thisObj := newObj()
	thisObj.Set("tag", "T")
	r = js.Global.Call("__vpCallThis", "mf.1", thisObj, mf, 3, 4)
	chk("mf.this", shB(js.Global.Call("__vpSame", "mf.same", r.Get("this"), thisObj).Bool()), "t")
	chk("mf.sum", itoa(r.Get("sum").Int()), "7")
	mf2 := js.MakeFunc(func(this *js.Object, args []*js.Object) any { return int64(len(args)) })
	thisObj.Set("m", mf2)
	r = js.Global.Call("__vpMethod", "mf.2", thisObj, "m", 1, 2, "x")
	chk("mf.2", itoa(r.Int()), "3")
	mf3 := js.MakeFunc(func(this *js.Object, args []*js.Object) any { return nil })
	r = js.Global.Call("__vpCall", "mf.nil", mf3)
	chk("mf.nil", shB(r == nil), "t")
	mf4 := js.MakeFunc(func(this *js.Object, args []*js.Object) any { return this })
	r = js.Global.Call("__vpCallThis", "mf.thisret", thisObj, mf4)
	chk("mf.thisret", shB(js.Global.Call("__vpSame", "mf.thisret.same", r, thisObj).Bool()), "t")

	// ---- MakeWrapper: exported methods only, receiver is the original Go value
	rec := &Rec{n: 10, Name: "n\u00e9"}
	w := js.MakeWrapper(rec)
	r = js.Global.Call("__vpMethod", "mw.inc", w, "Inc", 5)
	chk("mw.inc", itoa(r.Int()), "15")
	chk("mw.inc.orig", itoa(rec.n), "15")
	r = js.Global.Call("__vpMethod", "mw.get", w, "Get")
	chk("mw.get", shS(r.String()), shS("n\u00e9"))
	js.Global.Call("__vpMethod", "mw.pair", w, "Pair")
	js.Global.Call("__vpMethod", "mw.echo", w, "Echo", "p", "\u00e9")
	ks := js.Keys(w)
	sortStrings(ks)
	chk("mw.keys", show_strs(ks), "["+shS("Echo")+","+shS("Get")+","+shS("Inc")+","+shS("Pair")+","+shS("__internal_object__")+"]")
	js.Global.Set("c11rec", func(r *Rec) bool { return r == rec })
	chk("mw.back", shB(js.Global.Call("c11rec", w).Bool()), "t")

	// ---- js-tagged fields of a struct that wraps a JavaScript object
	t := &Tagged{Inner: Inner{newObj()}}
	t.N = -5
	t.S = "s\U0001F600"
	t.F64 = math.Copysign(0, -1)
	t.I64 = -9007199254740992
	t.U8 = 255
	t.B = true
	t.Bs = []byte{1, 2, 3}
	t.Any = map[string]any{"k": []int{1}}
	t.Sub = t.Object
	t.Weird = 3
	js.Global.Call("__vpProp", "tg.n", t.Object, "n")
	js.Global.Call("__vpProp", "tg.s", t.Object, "s")
	js.Global.Call("__vpProp", "tg.f64", t.Object, "f64")
	js.Global.Call("__vpProp", "tg.i64", t.Object, "i64")
	js.Global.Call("__vpProp", "tg.u8", t.Object, "u8")
	js.Global.Call("__vpProp", "tg.b", t.Object, "b")
	js.Global.Call("__vpProp", "tg.bs", t.Object, "bs")
	js.Global.Call("__vpProp", "tg.any", t.Object, "any")
	js.Global.Call("__vpProp", "tg.weird", t.Object, "weird-key")
	chk("tg.n", itoa(t.N), "-5")
	chk("tg.s", shS(t.S), shS("s\U0001F600"))
	chk("tg.f64", shF64(t.F64), "8000000000000000")
	chk("tg.i64", i64s(t.I64), "-9007199254740992")
	chk("tg.u8", itoa(int(t.U8)), "255")
	chk("tg.b", shB(t.B), "t")
	chk("tg.bs", itoa(len(t.Bs))+":"+itoa(int(t.Bs[2])), "3:3")
	chk("tg.any", shAny(t.Any), "map{"+shS("k")+":[]int[1]}")
	chk("tg.sub", shB(t.Sub == t.Object), "t")
	chk("tg.weird", itoa(t.Weird), "3")
	t.Object.Set("fn", mk("function(a,b){return b+a+this.n}"))
	chk("tg.fn.call", shS(t.Fn(1, "x")), shS("x1-5"))
	g := t.Fn
	chk("tg.fn.value", shS(g(2, "y")), shS("y2-5"))
	t.Fn = func(a int, b string) string { return b + b }
	r = js.Global.Call("__vpMethod", "tg.fn.set", t.Object, "fn", 1, "q")
	chk("tg.fn.set", shS(r.String()), shS("qq"))
	// a struct that contains a *js.Object is passed as that object, and vice versa
	chk("tg.pass", shB(js.Global.Call("__vpSame", "tg.same", t, t.Object).Bool()), "t")
	js.Global.Set("c11tg", func(x *Tagged) int { return x.N * 2 })
	r = js.Global.Call("__vpCallSpec", "tg.param", js.Global.Get("c11tg"), "[{n:21}]")
	chk("tg.param", itoa(r.Int()), "42")

	// ---- MakeFullWrapper: methods plus getters/setters for the exported fields
	ft := &FT{Name: "n\u00e9", N: 3, F: 1.5, Bs: []byte{1, 2}, In: FIn{4}, hid: 9}
	fw := js.MakeFullWrapper(ft)
	js.Global.Call("__vpProp", "fw.name", fw, "Name")
	js.Global.Call("__vpProp", "fw.n", fw, "N")
	js.Global.Call("__vpProp", "fw.f", fw, "F")
	js.Global.Call("__vpProp", "fw.bs", fw, "Bs")
	js.Global.Call("__vpProp", "fw.hid", fw, "hid")
	js.Global.Call("__vpProp", "fw.in.k", js.Global.Call("__vpPeek", fw, "In"), "K")
	js.Global.Call("__vpMethod", "fw.double", fw, "Double")
	js.Global.Call("__vpPoke", fw, "N", 7)
	js.Global.Call("__vpPoke", fw, "Name", "z\u00fc")
	chk("fw.set.n", itoa(ft.N), "7")
	chk("fw.set.name", shS(ft.Name), shS("z\u00fc"))
	js.Global.Call("__vpMethod", "fw.setname", fw, "SetName", "via method \U0001F600")
	chk("fw.method", shS(ft.Name), shS("via method \U0001F600"))
	js.Global.Set("c11ft", func(x *FT) bool { return x == ft })
	chk("fw.back", shB(js.Global.Call("c11ft", fw).Bool()), "t")

	// ---- Delete, Undefined, dynamic method names, spread forms of Invoke / New
	d := newObj()
	d.Set("a", 1)
	d.Set(dynKey, 2)
	d.Set("keep", 3)
	d.Delete("a")
	d.Delete(dynKey)
	js.Global.Call("__vp", "del.obj", d)
	chk("del.undef", shB(d.Get("a") == js.Undefined), "t")
	chk("del.nokey", shB(js.Global.Get("c11NoSuchGlobal") == js.Undefined), "t")
	chk("undef.notnil", shB(js.Undefined != nil), "t")
	var nilObj *js.Object
	js.Global.Call("__vp", "nil.obj", nilObj)
	js.Global.Call("__vp", "undef.obj", js.Undefined)
	chk("nil.back", shB(js.Global.Call("__vpIdent", nilObj) == nil), "t")
	name := "__v" + "p"
	r = js.Global.Call(name, "dyn.call", int64(-7))
	chk("dyn.call", i64s(r.Int64()), "-7")
	sargs := []any{"spread.invoke", uint16(65535)}
	r = vpFn.Invoke(sargs...)
	chk("spread.invoke", itoa(r.Int()), "65535")
	nargs := []any{"spread.new", "sé"}
	r = boxCtor.New(nargs...)
	chk("spread.new", shS(r.Get("v").String()), shS("sé"))
	chk("spread.new.n", itoa(r.Get("n").Int()), "2")
	r = js.Global.Call("__vpN", "multi.args", 1, "two", 3.5, nil, true, []int8{1})
	chk("multi.args", itoa(r.Length()), "6")
	chk("index.str", shS(mk("\"ab\"").Index(1).String()), shS("b"))
	chk("index.ta", itoa(mk("new Int8Array([-3,4])").Index(0).Int()), "-3")

	// ---- JavaScript exceptions become Go panics holding a *js.Error
	func() {
		defer func() {
			e := recover()
			je, ok := e.(*js.Error)
			chk("err.type", shB(ok), "t")
			if ok {
				chk("err.msg", shS(je.Error()), shS("JavaScript error: boom \u00e9"))
				chk("err.name", shS(je.Get("name").String()), shS("TypeError"))
				chk("err.stack", shB(len(je.Stack()) > 0), "t")
				js.Global.Call("__vp", "err.obj", je.Get("message"))
			}
		}()
		mk("function(){ throw new TypeError(\"boom \\u00e9\") }").Invoke()
		chk("err.unreachable", "reached", "not reached")
	}()

	// ---- NewArrayBuffer copies the bytes of the slice
	bb := []byte{0, 1, 2, 3, 4, 5}
	ab := js.NewArrayBuffer(bb[2:5])
	js.Global.Call("__vp", "ab.u8", js.Global.Get("Uint8Array").New(ab))
	chk("ab.len", itoa(ab.Get("byteLength").Int()), "3")
	println("END")
}

func show_strs(v []string) string {
	es := make([]string, len(v))
	for i, e := range v {
		es[i] = shS(e)
	}
	return "[" + join(es) + "]"
}
`
	sp := &special{name: "functions", src: src}
	sp.expect = map[string]string{
		"id.top1": "fn#?", "id.top2": "fn#?", "id.top3": "fn#?", "id.top4": "fn#?", "id.top5": "fn#?", "id.top6": "fn#?", "id.top7": "fn#?", "id.top8": "fn#?",
		"id.same12": "bool:true", "id.cl1": "fn#?", "id.cl2": "fn#?", "id.other": "fn#?", "id.nil": "null",
		"fn.top": ds("\u00e9\U0001F6005"), "fn.var0": d(2), "fn.var3": d(8),
		"fn.multi": "arr[" + d(7) + "," + ds("x") + ",ta:Uint8Array:2:[" + bitsHex(1) + "," + bitsHex(2) + "]]",
		"fn.none":  "undef", "fn.cb": d(42), "fn.cb2": d(42), "fn.struct": objOf("sum", d(7)), "fn.objsame": "bool:true",
		"fn.mixed": "arr[" + d(-128) + "," + d(65535) + "," + d(0.5) + "," + ds("\U0001F600z") + ",bool:true,ta:Uint8Array:2:[" + bitsHex(9) + "," + bitsHex(8) + "]," + objOf("k", ds("v")) + "," + d(1.25) + "," + d(-2.5) + "]",
		"fn.keep":  "undef", "fn.keep0": "undef",
		"mf.1": objOf("this", objOf("tag", ds("T")), "n", d(2), "first", d(3), "sum", d(7)), "mf.same": "bool:true",
		"mf.2": d(3), "mf.nil": "null", "mf.thisret": objOf("tag", ds("T"), "m", "fn#?"), "mf.thisret.same": "bool:true",
		"mw.inc": d(15), "mw.get": ds("n\u00e9"), "mw.pair": "arr[" + d(15) + "," + ds("n\u00e9") + "]", "mw.echo": "arr[" + ds("p") + "," + ds("\u00e9") + "]",
		"tg.n": d(-5), "tg.s": ds("s\U0001F600"), "tg.f64": "num:8000000000000000", "tg.i64": d(-9007199254740992), "tg.u8": d(255), "tg.b": "bool:true",
		"tg.bs": "ta:Uint8Array:3:[" + bitsHex(1) + "," + bitsHex(2) + "," + bitsHex(3) + "]", "tg.any": objOf("k", "ta:Int32Array:1:["+bitsHex(1)+"]"), "tg.weird": d(3),
		"tg.fn.set": ds("qq"), "tg.same": "bool:true", "tg.param": d(42),
		"ab.u8":   "ta:Uint8Array:3:[" + bitsHex(2) + "," + bitsHex(3) + "," + bitsHex(4) + "]",
		"fw.name": ds("n\u00e9"), "fw.n": d(3), "fw.f": d(1.5), "fw.bs": "ta:Uint8Array:2:[" + bitsHex(1) + "," + bitsHex(2) + "]", "fw.hid": "undef", "fw.in.k": d(4), "fw.double": d(6), "fw.setname": "undef",
		"del.obj": objOf("keep", d(3)), "nil.obj": "null", "undef.obj": "undef", "dyn.call": d(-7), "spread.invoke": d(65535), "spread.new": ds("s\u00e9"),
		"multi.args.n": d(6), "multi.args.0": d(1), "multi.args.1": ds("two"), "multi.args.2": d(3.5), "multi.args.3": "null", "multi.args.4": "bool:true",
		"multi.args.5": "ta:Int8Array:1:[" + bitsHex(1) + "]", "err.obj": ds("boom \u00e9"),
	}
	sp.same = [][]string{{"id.top1", "id.top2", "id.top3", "id.top4", "id.top5", "id.top6", "id.top7", "id.top8"}, {"id.cl1", "id.cl2"}}
	sp.differ = [][2]string{{"id.top1", "id.other"}, {"id.top1", "id.cl1"}, {"id.cl1", "id.other"}}
	sp.checks = chkIDs(src)
	// err.unreachable must NOT print anything
	var cs []string
	for _, c := range sp.checks {
		if c != "err.unreachable" {
			cs = append(cs, c)
		}
	}
	sp.checks = cs
	return sp
}

// chkIDs extracts the ids of the chk("…") calls of a hand-written program.
func chkIDs(src string) []string {
	var out []string
	for _, part := range strings.Split(src, "chk(\"")[1:] {
		if i := strings.IndexByte(part, '"'); i > 0 {
			out = append(out, part[:i])
		}
	}
	return out
}

// ---------------------------------------------------------------------------------------------
// typed-array sharing: a numeric slice and its JavaScript typed array are the same memory.

func spSharing() *special {
	var b strings.Builder
	b.WriteString(specialHeader + "\nfunc main() {\n")
	sp := &special{name: "sharing", expect: map[string]string{}}
	size := map[Kind]int{KInt8: 1, KInt16: 2, KInt32: 4, KInt: 4, KUint8: 1, KUint16: 2, KUint32: 4, KUint: 4, KFloat32: 4, KFloat64: 8}
	for i, k := range taKinds {
		n := k.String()
		T := n
		off := 1 + i%3
		ln := 3 + i%2
		elems := func(vals []float64) string {
			es := make([]string, len(vals))
			for i, v := range vals {
				es[i] = bitsHex(v)
			}
			return strings.Join(es, ",")
		}
		base := make([]float64, 8)
		for j := range base {
			base[j] = float64(j*3 + 1)
		}
		fmt.Fprintf(&b, "\t{\n\t\tb := make([]%s, 8)\n\t\tfor i := range b {\n\t\t\tb[i] = %s(i*3 + 1)\n\t\t}\n\t\ts := b[%d:%d]\n", T, T, off, off+ln)
		fmt.Fprintf(&b, "\t\tr := js.Global.Call(\"__vp\", \"sh.%s.a\", s)\n\t\tjs.Global.Call(\"__vp\", \"sh.%s.whole\", b)\n", n, n)
		sp.expect["sh."+n+".a"] = fmt.Sprintf("ta:%s:%d:[%s]@%d:buf#?", taClass[k], ln, elems(base[off:off+ln]), off*size[k])
		sp.expect["sh."+n+".whole"] = fmt.Sprintf("ta:%s:8:[%s]@0:buf#?", taClass[k], elems(base))
		// JS writes, Go sees
		fmt.Fprintf(&b, "\t\tjs.Global.Call(\"__vpPoke\", r, 1, 99)\n\t\tchk(\"sh.%s.js2go\", itoa(int(b[%d])), \"99\")\n", n, off+1)
		// Go writes, JS sees
		fmt.Fprintf(&b, "\t\tb[%d] = 77\n\t\tchk(\"sh.%s.go2js\", itoa(js.Global.Call(\"__vpPeek\", r, 2).Int()), \"77\")\n", off+2, n)
		after := append([]float64{}, base...)
		after[off+1] = 99
		after[off+2] = 77
		fmt.Fprintf(&b, "\t\tjs.Global.Call(\"__vp\", \"sh.%s.b\", s)\n", n)
		sp.expect["sh."+n+".b"] = fmt.Sprintf("ta:%s:%d:[%s]@%d:buf#?", taClass[k], ln, elems(after[off:off+ln]), off*size[k])
		// as a field of a composite and inside an interface: still the same memory
		fmt.Fprintf(&b, "\t\tjs.Global.Call(\"__vpProp\", \"sh.%s.m\", js.M{\"k\": s}, \"k\")\n", n)
		sp.expect["sh."+n+".m"] = sp.expect["sh."+n+".b"]
		// sub-slice of the sub-slice, zero length, full cap
		fmt.Fprintf(&b, "\t\tjs.Global.Call(\"__vp\", \"sh.%s.sub\", s[1:2])\n\t\tjs.Global.Call(\"__vp\", \"sh.%s.empty\", s[2:2])\n", n, n)
		sp.expect["sh."+n+".sub"] = fmt.Sprintf("ta:%s:1:[%s]@%d:buf#?", taClass[k], elems(after[off+1:off+2]), (off+1)*size[k])
		sp.expect["sh."+n+".empty"] = fmt.Sprintf("ta:%s:0:[]@%d:buf#?", taClass[k], (off+2)*size[k])
		b.WriteString("\t}\n")
		sp.same = append(sp.same, []string{"sh." + n + ".a", "sh." + n + ".whole", "sh." + n + ".b", "sh." + n + ".m", "sh." + n + ".sub", "sh." + n + ".empty"})
		if i > 0 {
			sp.differ = append(sp.differ, [2]string{"sh." + n + ".a", "sh." + taKinds[i-1].String() + ".a"})
		}
	}
	b.WriteString("\tprintln(\"END\")\n}\n")
	sp.src = b.String()
	sp.checks = chkIDs(sp.src)
	return sp
}

// ---------------------------------------------------------------------------------------------
// callback guard

const guardErr = "cannot block in JavaScript callback"

// pingPong is appended to every guard program: after the guard fired, fresh goroutines must still
// be scheduled, block, wake and finish in the expected order.
const pingPong = `
func pingPong(tag string) {
	a, b := make(chan int), make(chan int)
	done := make(chan int)
	go func() {
		s := 0
		for i := 0; i < 50; i++ {
			v := <-a
			s += v
			b <- v + 1
		}
		done <- s
	}()
	t := 0
	for i := 0; i < 50; i++ {
		a <- i
		t += <-b
	}
	println(tag + " pingpong " + itoa(<-done) + " " + itoa(t))
}
`

func guardProg(name, decls, setup, after string) string {
	return specialHeader + pingPong + decls + `
func main() {
	step := make(chan int)
	_ = step
` + setup + `
	pingPong("during")
` + after + `
	pingPong("after")
	println("END")
}
`
}

func spGuards() []*special {
	var out []*special
	throwDesc := "throw:*" + guardErr + "*"
	// G1: blocking receive on a channel nobody else touches
	out = append(out, &special{name: "guard-recv-fresh",
		src: guardProg("g1", "", `
	dead := make(chan int)
	done := make(chan int)
	js.Global.Call("__callLater", "g.block", func() { println("cb1 enter"); <-dead; println("cb1 UNREACHABLE") }, 1)
	js.Global.Call("__callLater", "g.ok", func() int { println("cb2"); go func() { println("g2 run"); done <- 7 }(); return 5 }, 15)
	println("main wait")
	println("main got " + itoa(<-done))`, ``),
		expect: map[string]string{"g.block": throwDesc, "g.ok": "ok:" + d(5)},
		trace:  []string{"main wait", "cb1 enter", "cb2", "g2 run", "main got 7", "during pingpong 1225 1275", "after pingpong 1225 1275", "END"}})
	// G2: blocking receive on a channel that is used again afterwards: the failed callback must not
	// stay behind as a phantom receiver
	out = append(out, &special{name: "guard-recv-reused",
		src: guardProg("g2", "", `
	ch := make(chan int)
	js.Global.Call("__callLater", "g.block", func() {
		defer func() { go func() { step <- 1 }() }()
		println("cb1 enter")
		<-ch
		println("cb1 UNREACHABLE")
	}, 1)
	<-step
	println("main after failed callback")
	js.Global.Call("__callLater", "g.ok", func() { println("cb2"); go func() { println("g2 send"); ch <- 41; println("g2 sent") }() }, 5)
	println("main got " + itoa(<-ch))`, ``),
		expect: map[string]string{"g.block": throwDesc, "g.ok": "ok:undef"},
		trace:  []string{"cb1 enter", "main after failed callback", "cb2", "g2 send", "main got 41", "g2 sent", "during pingpong 1225 1275", "after pingpong 1225 1275", "END"}})
	// G3: blocking send from a callback: must not leave a phantom sender whose value is delivered later
	out = append(out, &special{name: "guard-send-reused",
		src: guardProg("g3", "", `
	ch := make(chan int)
	js.Global.Call("__callLater", "g.block", func() {
		defer func() { go func() { step <- 1 }() }()
		println("cb1 enter")
		ch <- 666
		println("cb1 UNREACHABLE")
	}, 1)
	<-step
	println("main after failed callback")
	js.Global.Call("__callLater", "g.ok", func() { println("cb2"); go func() { ch <- 41 }() }, 5)
	println("main got " + itoa(<-ch))`, ``),
		expect: map[string]string{"g.block": throwDesc, "g.ok": "ok:undef"},
		trace:  []string{"cb1 enter", "main after failed callback", "cb2", "main got 41", "during pingpong 1225 1275", "after pingpong 1225 1275", "END"}})
	// G4: blocking select from a callback
	out = append(out, &special{name: "guard-select",
		src: guardProg("g4", "", `
	c1, c2 := make(chan int), make(chan string)
	js.Global.Call("__callLater", "g.block", func() {
		defer func() { go func() { step <- 1 }() }()
		println("cb1 enter")
		select {
		case v := <-c1:
			println("cb1 UNREACHABLE " + itoa(v))
		case c2 <- "phantom":
			println("cb1 UNREACHABLE send")
		}
	}, 1)
	<-step
	println("main after failed callback")
	go func() { c1 <- 5 }()
	println("main got " + itoa(<-c1))
	go func() { println("g3 got " + <-c2); step <- 2 }()
	c2 <- "real"
	<-step`, ``),
		expect: map[string]string{"g.block": throwDesc},
		trace:  []string{"cb1 enter", "main after failed callback", "main got 5", "g3 got real", "during pingpong 1225 1275", "after pingpong 1225 1275", "END"}})
	// G5: call of a blocking function (several frames deep), guard via MakeFunc and via a wrapper method
	out = append(out, &special{name: "guard-nested",
		src: guardProg("g5", `
type Blocker struct{ ch chan int }

func (b *Blocker) Wait() int { return deep(b.ch, 3) }

func deep(ch chan int, n int) int {
	if n == 0 {
		return <-ch
	}
	return deep(ch, n-1) + 1
}
`, `
	bl := &Blocker{ch: make(chan int)}
	w := js.MakeWrapper(bl)
	js.Global.Call("__callLater", "g.block1", func() int { println("cb1 enter"); return deep(make(chan int), 4) }, 1)
	js.Global.Call("__callLater", "g.block2", js.MakeFunc(func(this *js.Object, args []*js.Object) any { println("cb2 enter"); return deep(make(chan int), 2) }), 4)
	js.Global.Call("__callLater", "g.block3", w.Get("Wait"), 8)
	js.Global.Call("__callLater", "g.nonblock", func() int {
		// a receive that does not need to block is fine inside a callback
		bc := make(chan int, 1)
		bc <- 9
		return <-bc
	}, 12)
	js.Global.Call("__callLater", "g.ok", func() { go func() { step <- 1 }() }, 16)
	<-step
	println("main resumed")`, ``),
		expect: map[string]string{"g.block1": throwDesc, "g.block2": throwDesc, "g.block3": throwDesc, "g.nonblock": "ok:" + d(9), "g.ok": "ok:undef"},
		trace:  []string{"cb1 enter", "cb2 enter", "main resumed", "during pingpong 1225 1275", "after pingpong 1225 1275", "END"}})
	// G6: many failed callbacks interleaved with running goroutines
	out = append(out, &special{name: "guard-storm",
		src: guardProg("g6", "", `
	dead := make(chan int)
	work := make(chan int)
	res := make(chan int)
	for i := 0; i < 4; i++ {
		go func(id int) {
			s := 0
			for v := range work {
				s += v
			}
			res <- s
		}(i)
	}
	for i := 0; i < 10; i++ {
		js.Global.Call("__callLater", "g.block"+itoa(i), func() { <-dead }, i)
	}
	js.Global.Call("__callLater", "g.ok", func() {
		go func() {
			for i := 1; i <= 100; i++ {
				work <- i
			}
			close(work)
		}()
	}, 12)
	total := 0
	for i := 0; i < 4; i++ {
		total += <-res
	}
	println("total " + itoa(total))`, ``),
		expect: func() map[string]string {
			m := map[string]string{"g.ok": "ok:undef"}
			for i := 0; i < 10; i++ {
				m[fmt.Sprintf("g.block%d", i)] = throwDesc
			}
			return m
		}(),
		trace: []string{"total 5050", "during pingpong 1225 1275", "after pingpong 1225 1275", "END"}})
	return out
}
