package c11

import (
	"encoding/json"
	"fmt"
	"math/rand"
	"os"
	"path/filepath"
	"regexp"
	"sort"
	"strings"
	"sync"
	"time"

	"verif/internal/core"
	"verif/internal/proglib"
)

// job is one workload program with its expectations.
type job struct {
	name  string
	files map[string]string
	gen   *prog    // generated grid program (nil for specials / bulk)
	sp    *special // hand-written program
	bulk  bool
}

type probeRec struct {
	T string `json:"t"`
	D string `json:"d"`
}

var reBuf = regexp.MustCompile(`@\d+:buf#\d+`)
var reID = regexp.MustCompile(`#\d+`)

// normDesc masks identity ids; byte offsets / buffer ids are dropped unless the expectation names them.
func normDesc(actual, expected string) string {
	if !strings.Contains(expected, "@") {
		actual = reBuf.ReplaceAllString(actual, "")
	}
	return reID.ReplaceAllString(actual, "#?")
}

// glob matches s against a pattern in which '*' stands for any sequence.
func glob(pat, s string) bool {
	if !strings.Contains(pat, "*") {
		return pat == s
	}
	parts := strings.Split(pat, "*")
	if !strings.HasPrefix(s, parts[0]) {
		return false
	}
	s = s[len(parts[0]):]
	for i := 1; i < len(parts); i++ {
		p := parts[i]
		if i == len(parts)-1 {
			return strings.HasSuffix(s, p)
		}
		j := strings.Index(s, p)
		if j < 0 {
			return false
		}
		s = s[j+len(p):]
	}
	return true
}

// firstID returns the first fn#/buf# id of a descriptor ("" if none).
func firstID(dsc string) string { return reID.FindString(dsc) }

type failure struct {
	class  string
	caseID string
	detail string
	meta   *caseMeta
}

// classify names well-understood failure signatures so that violation keys are stable across seeds.
func classify(m *caseMeta, lines []string) string {
	joined := strings.ReplaceAll(strings.Join(lines, "\n"), "\\x20", " ")
	if m != nil && strings.HasPrefix(m.Kind, "shared(") {
		return "shared-js-value"
	}
	if m != nil && strings.Contains(m.Type, "(one Go ") {
		return "shared-go-value"
	}
	if m != nil && strings.Contains(m.Lit, "__proto__") {
		return "proto-key"
	}
	if m != nil && strings.Contains(m.Lit, "\u00c4b") {
		return "nonascii-struct-field-name"
	}
	if m != nil && m.Dir == "go2js" && m.Path == 6 && (m.Kind == "array" || m.Kind == "struct") && (strings.Contains(joined, "cannot internalize undefined") || strings.Contains(joined, "Cannot read properties of undefined")) {
		return "jstag-field-assign-array-or-struct"
	}
	for _, l := range lines {
		i, j := strings.Index(l, " got="), strings.Index(l, " want=")
		if i > 0 && j > i {
			got, want := l[i+5:j], l[j+6:]
			if strings.Contains(want, "8000000000000000") && strings.ReplaceAll(want, "8000000000000000", "0000000000000000") == got {
				return "negzero-lost"
			}
			if strings.Contains(want, "80000000") && strings.ReplaceAll(want, "80000000", "00000000") == got {
				return "negzero-lost"
			}
		}
	}
	if m != nil && m.Dir == "js2go" && m.Kind == "string" && (strings.Contains(joined, ".L got=") || strings.Contains(joined, ".U got=")) && !strings.Contains(joined, ".I got=") {
		return "int64-accessor-not-parseInt"
	}
	if strings.Contains(joined, guardErr) || strings.Contains(joined, "T trace differs") {
		return "callback-guard"
	}
	if strings.Contains(joined, "\nX ") || strings.HasPrefix(joined, "X ") {
		return "crash"
	}
	return "mismatch"
}

// Run is the C11 check.
func Run(c *core.Ctx) int {
	var jobs []*job

	// ---------------- generated grid programs (Go -> JS -> Go)
	addGen := func(p *prog) {
		jobs = append(jobs, &job{name: p.name, gen: p})
	}
	reps := c.N(1, 6)
	nrand := c.N(6, 60)
	for rep := 0; rep < reps; rep++ {
		sfx := ""
		if rep > 0 {
			sfx = fmt.Sprintf("-r%d", rep)
		}
		// integers: every width, every boundary, rotating send/receive paths
		{
			r := c.Rand("ints" + sfx)
			ps := []*prog{newProg("ints-signed" + sfx), newProg("ints-unsigned" + sfx)}
			n := 0
			for i, ks := range [][]Kind{signedKinds, unsignedKinds} {
				for _, k := range ks {
					for _, v := range intBoundary(k, r, nrand) {
						for rot := 0; rot < 2; rot++ {
							ps[i].addGo2JS(v, (n+rot*5+rep)%len(sendPaths), (n+rot)%len(recvPaths))
						}
						n++
					}
				}
			}
			addGen(ps[0])
			addGen(ps[1])
		}
		// floats
		{
			r := c.Rand("floats" + sfx)
			p := newProg("floats" + sfx)
			n := 0
			for _, v := range append(f64Boundary(r, nrand*3), f32Boundary(r, nrand*2)...) {
				for rot := 0; rot < 3; rot++ {
					p.addGo2JS(v, (n+rot*4+rep)%len(sendPaths), (n+rot)%len(recvPaths))
				}
				n++
			}
			addGen(p)
		}
		// strings and booleans
		{
			r := c.Rand("strings" + sfx)
			p := newProg("strings" + sfx)
			n := 0
			for _, v := range append(stringValues(r, nrand*6, nrand), mkBool(true), mkBool(false)) {
				for rot := 0; rot < 3; rot++ {
					p.addGo2JS(v, (n+rot*4+rep)%len(sendPaths), (n+rot)%len(recvPaths))
				}
				n++
			}
			addGen(p)
		}
		// numeric slices and arrays of every element type; nil vs empty; offsets
		{
			r := c.Rand("slices" + sfx)
			p := newProg("slices" + sfx)
			n := 0
			for _, k := range append(append([]Kind{}, elemKinds...), KAny) {
				et := basics[k]
				vals := []*Val{mkNilSlice(et), mkSlice(et, 0)}
				for i := 0; i < 3+nrand/3; i++ {
					ln := 1 + r.Intn(4)
					v := &Val{T: sliceOf(et), Off: r.Intn(3)}
					a := &Val{T: arrayOf(ln, et)}
					for j := 0; j < ln; j++ {
						v.E = append(v.E, randVal(et, r, i%4 != 3, 1))
						a.E = append(a.E, randVal(et, r, true, 1))
					}
					vals = append(vals, v, a)
				}
				// boundary elements of the element type in one slice
				if k.isInt() {
					lo, hi := intRange(k)
					var b *Val
					if k.isSigned() {
						if k == KInt64 {
							lo, hi = -two53, two53
						}
						b = mkSlice(et, 1, mkInt(k, lo), mkInt(k, -1), mkInt(k, 0), mkInt(k, int64(hi)))
					} else {
						if k == KUint64 {
							hi = two53
						}
						b = mkSlice(et, 2, mkUint(k, 0), mkUint(k, hi), mkUint(k, hi-1))
					}
					vals = append(vals, b)
				}
				for _, v := range vals {
					p.addGo2JS(v, (n+rep)%len(sendPaths), n%len(recvPaths))
					n++
				}
			}
			addGen(p)
		}
		// maps, structs, pointers, interfaces, nested composites
		{
			r := c.Rand("composites" + sfx)
			p := newProg("composites" + sfx)
			genFixedComposites(p)
			n := len(p.ids)
			for i := 0; i < 40+nrand*6; i++ {
				t := p.randType(r, 3)
				if t.K.isScalar() {
					t = mapOf(t)
				}
				var v *Val
				for {
					v = randVal(t, r, i%5 != 4, 0)
					if !negZeroInside(v) {
						break
					}
				}
				p.addGo2JS(v, (n+rep)%len(sendPaths), n%len(recvPaths))
				n++
			}
			addGen(p)
		}
		// one JavaScript (or Go) value reachable several times inside one converted value and read at
		// different Go types: sharing, aliasing, cycles (alias.go)
		{
			r := c.Rand("aliasing" + sfx)
			if rep == 0 {
				// the fixed grid over pairs of reader types and the cyclic graphs do not depend on the seed
				p := newProg("aliasing-grid")
				genAliasGrid(newAliasGen(p, r), !c.Quick())
				genAliasCycles(p)
				addGen(p)
			}
			p := newProg("aliasing-drawn" + sfx)
			genAliasDrawn(newAliasGen(p, r), c.N(70, 400))
			addGen(p)
			p = newProg("aliasing-go" + sfx)
			genAliasGo2JS(p, r, c.N(50, 300))
			addGen(p)
		}
		// values that originate in JavaScript
		{
			r := c.Rand("js2go" + sfx)
			p := newProg("js2go" + sfx)
			genJS2Go(p, r, nrand*2)
			addGen(p)
		}
	}
	for _, j := range jobs {
		j.files = j.gen.source()
	}

	// ---------------- hand-written programs
	sps := []*special{spFunctions(), spSharing()}
	sps = append(sps, spGuards()...)
	for _, sp := range sps {
		jobs = append(jobs, &job{name: sp.name, sp: sp, files: map[string]string{"main.go": sp.src, "zz_c11lib.go": progLib}})
	}

	// ---------------- bulk PRNG programs
	nb := c.N(1, 8)
	for i := 0; i < nb; i++ {
		seed := uint64(c.Rand(fmt.Sprint("bulk/", i)).Int63()) | 1
		jobs = append(jobs, &job{name: fmt.Sprintf("bulk-%d", i), bulk: true,
			files: bulkProgram(seed, c.N(400, 9000), c.N(300, 6000), c.N(160, 4000))})
	}

	probe := filepath.Join(c.Verif, "js", "c11_probe.js")
	var mu sync.Mutex
	valueCases, checksPassed, recordsMatched, bulkCases := 0, 0, 0, 0
	byDirKindPath := map[string]int{}
	byAccessor := map[string]int{}
	typeClass := map[string]bool{}
	triples := map[string]bool{}
	guardObs := map[string]string{}
	observations := map[string]string{}
	classCount := map[string]int{}
	var failures []string
	programsOK := 0

	c.Parallel(len(jobs), func(i int) {
		j := jobs[i]
		pr := &core.Program{Name: "c11/" + j.name, Files: proglib.WithLib(j.files)}
		dir := c.WriteProgram(pr)
		defer os.RemoveAll(dir)
		bundle := func(extra map[string]string) map[string]string {
			m := map[string]string{}
			for k, v := range pr.Files {
				m["src/"+k] = v
			}
			if b, err := os.ReadFile(probe); err == nil {
				m["c11_probe.js"] = string(b)
			}
			m["cmd.sh"] = "# from the src directory, with the gopherjs under test:\n#   gopherjs build -o out.js . && VP_C11_OUT=records.jsonl node --require ../c11_probe.js out.js\n"
			for k, v := range extra {
				m[k] = v
			}
			return m
		}
		t0 := time.Now()
		cr := c.CompileJS(dir, core.CompileOpt{})
		tCompile := time.Since(t0)
		if cr.TimedOut {
			c.Inconclusive("compile-timeout")
			return
		}
		if !cr.OK {
			if cr.Internal {
				c.Violate("compile-internal/"+j.name, "compiler-internal failure on a js-interop program "+j.name+":\n"+clip(cr.Output, 3000), bundle(map[string]string{"compile.out": cr.Output}))
			} else {
				// the generator emitted something the compiler rejects: machinery, not a verdict
				c.Inconclusive("generator-program-rejected")
				fmt.Printf("c11: program %s rejected by the compiler (generator problem?):\n%s\n", j.name, clip(cr.Output, 1500))
			}
			return
		}
		recFile := filepath.Join(dir, "records.jsonl")
		run := c.RunNode(cr.JS, core.NodeOpt{Preload: []string{probe}, Env: []string{"VP_C11_OUT=" + recFile}, Timeout: 10 * time.Minute})
		if run.TimedOut {
			c.Inconclusive("node-timeout")
			return
		}
		if os.Getenv("VERIF_DEBUG") != "" {
			fmt.Printf("c11: program %-22s compile %6.1fs  compile+run %6.1fs\n", j.name, tCompile.Seconds(), time.Since(t0).Seconds())
		}
		recs := map[string][]string{}
		var recOrder []string
		if b, err := os.ReadFile(recFile); err == nil {
			for _, l := range strings.Split(string(b), "\n") {
				if l == "" {
					continue
				}
				var r probeRec
				if json.Unmarshal([]byte(l), &r) == nil {
					if _, ok := recs[r.T]; !ok {
						recOrder = append(recOrder, r.T)
					}
					recs[r.T] = append(recs[r.T], r.D)
				}
			}
		}
		lines := strings.Split(strings.ReplaceAll(run.Stdout, "\r\n", "\n"), "\n")
		if len(lines) > 0 && lines[len(lines)-1] == "" {
			lines = lines[:len(lines)-1]
		}
		ended := len(lines) > 0 && lines[len(lines)-1] == "END" && run.Exit == 0

		// ---- per-case evaluation
		pass := map[string]int{}
		bad := map[string][]string{} // case id -> offending lines
		var trace []string
		caseOf := func(checkID string) string {
			if k := strings.IndexByte(checkID, '.'); k > 0 && j.gen != nil {
				return checkID[:k]
			}
			return checkID
		}
		for _, l := range lines {
			switch {
			case strings.HasPrefix(l, "P "):
				pass[l[2:]]++
			case strings.HasPrefix(l, "F "), strings.HasPrefix(l, "X "):
				id := strings.Fields(l[2:] + " ")[0]
				bad[caseOf(id)] = append(bad[caseOf(id)], l)
			case strings.HasPrefix(l, "O "):
				if fs := strings.SplitN(l[2:], " ", 2); len(fs) == 2 {
					mu.Lock()
					observations[fs[0]] = clip(strings.ReplaceAll(fs[1], "\\x20", " "), 160)
					mu.Unlock()
				}
			default:
				trace = append(trace, l)
			}
		}
		var fails []failure
		expect := map[string]string{}
		var checks []string
		switch {
		case j.gen != nil:
			expect = j.gen.expect
			for id := range j.gen.checks {
				checks = append(checks, id)
			}
		case j.sp != nil:
			expect = j.sp.expect
			checks = j.sp.checks
		}
		sort.Strings(checks)
		for _, id := range checks {
			cid := caseOf(id)
			if pass[id] == 1 {
				continue
			}
			if len(bad[cid]) == 0 {
				bad[cid] = append(bad[cid], fmt.Sprintf("M %s: expected exactly one P line, saw %d (program ended normally: %v)", id, pass[id], ended))
			}
		}
		// JS-side records
		tags := make([]string, 0, len(expect))
		for t := range expect {
			tags = append(tags, t)
		}
		sort.Strings(tags)
		matched := 0
		for _, t := range tags {
			want := expect[t]
			cid := t
			if j.gen != nil {
				cid = strings.SplitN(t, "#", 2)[0]
			}
			got, ok := recs[t]
			if !ok || len(got) != 1 {
				bad[cid] = append(bad[cid], fmt.Sprintf("R %s: expected one probe record, saw %d", t, len(got)))
				continue
			}
			if g := normDesc(got[0], want); !glob(want, g) {
				bad[cid] = append(bad[cid], fmt.Sprintf("R %s got=%s want=%s", t, clip(g, 600), clip(want, 600)))
				continue
			}
			matched++
		}
		if j.gen != nil {
			for _, dp := range j.gen.detPair {
				a, b := recs[dp[0]], recs[dp[1]]
				if len(a) == 1 && len(b) == 1 && normDesc(a[0], "") != normDesc(b[0], "") {
					cid := strings.SplitN(dp[0], "#", 2)[0]
					bad[cid] = append(bad[cid], fmt.Sprintf("R %s nondeterministic: %s vs %s", cid, clip(a[0], 300), clip(b[0], 300)))
				}
			}
		}
		if j.sp != nil {
			for _, grp := range j.sp.same {
				for k := 1; k < len(grp); k++ {
					a, b := recs[grp[0]], recs[grp[k]]
					if len(a) == 1 && len(b) == 1 && (firstID(a[0]) == "" || firstID(a[0]) != firstID(b[0])) {
						bad[grp[k]] = append(bad[grp[k]], fmt.Sprintf("R identity lost: %s is %s but %s is %s", grp[0], firstID(a[0]), grp[k], firstID(b[0])))
					}
				}
			}
			for _, pr := range j.sp.differ {
				a, b := recs[pr[0]], recs[pr[1]]
				if len(a) == 1 && len(b) == 1 && firstID(a[0]) == firstID(b[0]) {
					bad[pr[1]] = append(bad[pr[1]], fmt.Sprintf("R distinct values share identity: %s and %s are both %s", pr[0], pr[1], firstID(a[0])))
				}
			}
			if j.sp.trace != nil {
				got := append([]string{}, trace...)
				want := append([]string{}, j.sp.trace...)
				sort.Strings(got)
				sort.Strings(want)
				if strings.Join(got, "\n") != strings.Join(want, "\n") || !ended {
					bad["trace"] = append(bad["trace"], fmt.Sprintf("T trace differs (as multisets) or the program did not end normally (exit=%d)\n--- got:\n%s\n--- want:\n%s\n--- stderr:\n%s",
						run.Exit, strings.Join(trace, "\n"), strings.Join(j.sp.trace, "\n"), clip(run.Stderr, 1500)))
				}
			}
		}
		// bulk summaries
		nbulk := 0
		if j.bulk {
			sawB := 0
			for _, l := range trace {
				if strings.HasPrefix(l, "B ") {
					var name string
					var n, k int
					if _, err := fmt.Sscanf(l, "B %s n=%d fail=%d", &name, &n, &k); err == nil {
						sawB++
						nbulk += n
						if k > 0 {
							bad["bulk."+name] = append(bad["bulk."+name], l)
						}
					}
				}
			}
			for t, ds := range recs {
				if strings.HasPrefix(t, "bulk.") {
					var n, k int
					if _, err := fmt.Sscanf(ds[0], "obj{n=%d,fail=%d}", &n, &k); err == nil && k > 0 {
						bad[t] = append(bad[t], fmt.Sprintf("R %s: JS-side comparison failed %d of %d times", t, k, n))
					}
				}
				if strings.HasPrefix(t, "bulkfail.") {
					bad["bulk."+strings.Split(t, ".")[1]] = append(bad["bulk."+strings.Split(t, ".")[1]], "R "+t+" "+decodeUnits(strings.TrimPrefix(ds[0], "str:")))
				}
			}
			if sawB != 5 {
				bad["bulk"] = append(bad["bulk"], fmt.Sprintf("M expected 5 bulk summaries, saw %d", sawB))
			}
		}
		if !ended && len(bad) == 0 {
			bad["end"] = append(bad["end"], fmt.Sprintf("M program did not end normally: exit=%d last line=%q stderr=%s", run.Exit, last(lines), clip(run.Stderr, 1500)))
		}
		if j.sp != nil && j.sp.trace != nil && len(bad) > 0 {
			// a scenario program is one case: report it once
			var all []string
			for _, cid := range sortedBadKeys(bad) {
				all = append(all, bad[cid]...)
			}
			bad = map[string][]string{"scenario": all}
		}
		for cid, ls := range bad {
			var m *caseMeta
			if j.gen != nil {
				m = j.gen.meta[cid]
			}
			fails = append(fails, failure{class: classify(m, ls), caseID: cid, detail: strings.Join(ls, "\n"), meta: m})
		}
		sort.Slice(fails, func(a, b int) bool { return fails[a].caseID < fails[b].caseID })

		mu.Lock()
		defer mu.Unlock()
		if ended {
			programsOK++
		}
		recordsMatched += matched
		for id, n := range pass {
			if n == 1 {
				checksPassed++
				if j.gen != nil {
					if m := j.gen.meta[caseOf(id)]; m != nil {
						byAccessor[m.Dir+"/"+m.Kind+"/"+id[strings.IndexByte(id, '.')+1:]]++
					}
				}
			}
		}
		if j.gen != nil {
			for _, id := range j.gen.ids {
				m := j.gen.meta[id]
				if _, failed := bad[id]; failed {
					continue
				}
				valueCases++
				if m.Dir == "go2js" {
					byDirKindPath[fmt.Sprintf("go2js/%s/%s -> %s", m.Kind, sendPaths[m.Path], recvPaths[m.Recv])]++
					triples[m.Type+"|"+m.Class+"|"+sendPaths[m.Path]] = true
				} else {
					byDirKindPath["js2go/"+m.Kind]++
					triples["js:"+m.Kind+"|"+m.Lit] = true
				}
				typeClass[m.Type+" -> "+m.Class] = true
				if id == j.gen.ids[(7*len(j.name))%len(j.gen.ids)] {
					c.Sample(map[string]any{"program": j.name, "case": id, "dir": m.Dir, "type": m.Type, "class": m.Class, "value": m.Lit})
				}
			}
		}
		if j.sp != nil {
			for t, ds := range recs {
				if strings.HasPrefix(t, "g.") {
					guardObs[j.name+"/"+t] = clip(ds[0], 120)
				}
			}
			if len(bad) == 0 {
				valueCases += len(j.sp.checks) + len(j.sp.expect)
				triples["special|"+j.name] = true
			}
		}
		if j.bulk {
			bulkCases += nbulk
			c.Count("bulk_iterations", nbulk)
		}
		for _, f := range fails {
			classCount[f.class]++
			key := f.class + "/" + j.name + "/" + f.caseID
			what := fmt.Sprintf("%s: program %s case %s", f.class, j.name, f.caseID)
			if f.meta != nil {
				key = fmt.Sprintf("%s/%s/%s", f.class, f.meta.Type, f.meta.Lit)
				if f.meta.Dir == "go2js" {
					what = fmt.Sprintf("%s: Go %s value %s sent via %s, read back via %s (program %s case %s)", f.class, f.meta.Type, f.meta.Lit, sendPaths[f.meta.Path], recvPaths[f.meta.Recv], j.name, f.caseID)
				} else {
					what = fmt.Sprintf("%s: JavaScript %s value %s read from Go [%s] (program %s case %s)", f.class, f.meta.Kind, f.meta.Lit, f.meta.Type, j.name, f.caseID)
				}
			}
			failures = append(failures, key)
			// a systemic defect shows up in many cases: three witnesses per class and program are enough
			if classCount[f.class] > 12 {
				c.Count("further_failing_cases_not_bundled/"+f.class, 1)
				continue
			}
			c.Violate(key, what+"\n"+f.detail, bundle(map[string]string{"stdout.txt": clip(run.Stdout, 200000), "stderr.txt": clip(run.Stderr, 20000), "failing-case.txt": what + "\n" + f.detail}))
		}
	})

	for k, v := range byDirKindPath {
		_ = k
		_ = v
	}
	c.Count("programs_completed", programsOK)
	c.Count("value_cases_held", valueCases)
	c.Count("go_side_checks_passed", checksPassed)
	c.Count("js_side_records_matched", recordsMatched)
	c.Count("failing_cases", len(failures))
	sort.Strings(failures)
	if len(failures) > 300 {
		failures = failures[:300]
	}
	byKind := map[string]int{}
	for k, n := range byDirKindPath {
		parts := strings.SplitN(k, "/", 3)
		byKind[parts[0]+"/"+parts[1]] += n
	}
	pairs := make([]string, 0, len(typeClass))
	for k := range typeClass {
		pairs = append(pairs, k)
	}
	sort.Strings(pairs)
	if len(pairs) > 120 {
		pairs = append(pairs[:120], fmt.Sprintf("… %d more", len(pairs)-120))
	}
	extra := map[string]any{
		"cases_by_direction_kind":          byKind,
		"cases_by_direction_kind_path":     byDirKindPath,
		"go_checks_by_kind_accessor":       byAccessor,
		"distinct_type_class_pairs":        len(typeClass),
		"type_class_pairs":                 pairs,
		"callback_guard_observations":      guardObs,
		"failure_classes":                  classCount,
		"failing_case_keys":                failures,
		"bulk_value_cases":                 bulkCases,
		"unobserved":                       []string{"time.Time <-> Date (package time does not build under GopherJS in this sandbox)", "DOM Node (no DOM under node)", "js.Module", "browsers / engines other than node v20"},
		"doc_silent_observed_not_asserted": observations,
		"doc_silent_determinism_only":      []string{"ill-formed UTF-16 -> Go string", "invalid UTF-8 -> JS string", "integers beyond 2^53"},
	}
	return c.Finish("exploration", valueCases+bulkCases, len(triples), c.N(250, 600),
		"self-checking GopherJS programs + JS-side probe (node --require): every value case is one (Go type, value, send path, receive path) or one JavaScript-made value; for each the probe's descriptor of what arrived in JavaScript must equal the descriptor derived from the table in js/js.go, Interface()/accessor/typed read-backs must equal the documented conversion bit-exactly, non-representable values must not crash and must convert deterministically. distinct_nontrivial = distinct (Go type, expected JS class, send path) triples + distinct JS-made values + hand-written scenario programs that held. Bulk PRNG iterations (strings, float64 bit patterns, integers, typed arrays) are compared on both sides in-program. Sharing cases (programs aliasing-*): a JavaScript graph in which one object/array/typed array occurs several times (also cyclically) and is read at a different Go type at each position must give the Go value of its tree-unfolded (cycles: less-shared bisimilar, depth-bounded) copy and, where the table settles every leaf, the harness-derived literal; a Go map/slice/pointer stored at several positions of one externalised value must arrive as the documented image of the unfolded value.",
		extra, []string{
			"the package comment table of js/js.go and the method comments are the specification; where they are silent nothing is asserted",
			"node v20 is the JavaScript engine; typed read-back of null as map/pointer/func is treated as undocumented",
			"values beyond ±2^53, invalid UTF-8 and ill-formed UTF-16 are only required not to crash and to convert deterministically",
		})
}

func sortedBadKeys(m map[string][]string) []string {
	ks := make([]string, 0, len(m))
	for k := range m {
		ks = append(ks, k)
	}
	sort.Strings(ks)
	return ks
}

func clip(s string, n int) string {
	if len(s) > n {
		return s[:n] + "…(clipped)"
	}
	return s
}

func last(ls []string) string {
	if len(ls) == 0 {
		return ""
	}
	return ls[len(ls)-1]
}

func decodeUnits(hex string) string {
	var b strings.Builder
	for i := 0; i+4 <= len(hex); i += 4 {
		var u int
		fmt.Sscanf(hex[i:i+4], "%x", &u)
		if u >= 0x20 && u < 0x7f {
			b.WriteByte(byte(u))
		} else {
			fmt.Fprintf(&b, "\\u%04x", u)
		}
	}
	return b.String()
}

// genFixedComposites adds the hand-picked composite boundary cases.
func genFixedComposites(p *prog) {
	I, S, F, A := basics[KInt], basics[KString], basics[KFloat64], basics[KAny]
	n := 0
	add := func(v *Val) {
		p.addGo2JS(v, n%len(sendPaths), n%len(recvPaths))
		n++
	}
	// maps: nil, empty, unusual keys (each separately so that a failure names the key)
	add(mkNilMap(I))
	add(mkMap(I, []string{}))
	for _, k := range []string{"a", "", "constructor", "toString", "hasOwnProperty", "valueOf", "__proto__", "__defineGetter__", "0", "-1", "1e3", "π", "\U0001F600", "a\x00b", "has space", "length"} {
		add(mkMap(I, []string{k}, mkInt(KInt, 7)))
		add(mkMap(S, []string{k, "zz"}, mkStr("v"), mkStr("w")))
	}
	add(mkMap(A, []string{"__proto__"}, mkAny(mkMap(I, []string{"inherited"}, mkInt(KInt, 1)))))
	add(mkMap(A, []string{"n", "s", "b", "nil", "sl", "m"}, mkAny(mkInt(KInt8, -3)), mkAny(mkStr("x")), mkAny(mkBool(true)), mkAny(nil), mkAny(mkSlice(I, 0, mkInt(KInt, 1))), mkAny(mkMap(S, []string{"k"}, mkStr("v")))))
	add(mkMap(sliceOf(F), []string{"xs"}, mkSlice(F, 1, mkF64(1.5), mkF64(-2))))
	// structs: exported fields only
	st := p.newStruct(Fld{"A", I}, Fld{"b", I}, Fld{"S", S}, Fld{"f", F}, Fld{"Any", A})
	add(&Val{T: st, E: []*Val{mkInt(KInt, 1), mkInt(KInt, 2), mkStr("s"), mkF64(2.5), mkAny(mkStr("dyn"))}})
	add(&Val{T: ptrTo(st), E: []*Val{{T: st, E: []*Val{mkInt(KInt, -1), mkInt(KInt, 9), mkStr(""), mkF64(1), mkAny(nil)}}}})
	add(&Val{T: ptrTo(st), Nil: true})
	inner := p.newStruct(Fld{"X", basics[KInt64]}, Fld{"hidden", S}, Fld{"Ys", sliceOf(basics[KUint8])})
	outer := p.newStruct(Fld{"In", inner}, Fld{"P", ptrTo(inner)}, Fld{"M", mapOf(inner)}, Fld{"L", sliceOf(inner)}, Fld{"Arr", arrayOf(2, inner)})
	mkInner := func(x int64, h string, ys ...uint64) *Val {
		sl := &Val{T: sliceOf(basics[KUint8]), E: []*Val{}}
		for _, y := range ys {
			sl.E = append(sl.E, mkUint(KUint8, y))
		}
		return &Val{T: inner, E: []*Val{mkInt(KInt64, x), mkStr(h), sl}}
	}
	add(&Val{T: outer, E: []*Val{mkInner(1, "h1", 1, 2), {T: ptrTo(inner), E: []*Val{mkInner(-two53, "h2")}}, {T: mapOf(inner), Keys: []string{"k"}, E: []*Val{mkInner(3, "h3", 255)}},
		{T: sliceOf(inner), E: []*Val{mkInner(4, "h4"), mkInner(5, "h5", 0)}}, {T: arrayOf(2, inner), E: []*Val{mkInner(6, "", 7), mkInner(7, "", 8)}}}})
	uni := p.newStruct(Fld{"\u00c4b", I}, Fld{"B", S})
	add(&Val{T: uni, E: []*Val{mkInt(KInt, 4), mkStr("b")}})
	onlyHidden := p.newStruct(Fld{"a", I}, Fld{"b", S})
	add(&Val{T: onlyHidden, E: []*Val{mkInt(KInt, 1), mkStr("x")}})
	// interfaces holding each kind of value
	for _, dv := range []*Val{mkInt(KInt8, -128), mkUint(KUint64, two53), mkInt(KInt64, -two53), mkF32(0.1), mkF64(-1.5), mkStr("\U0001F600"), mkBool(false),
		mkSlice(basics[KUint8], 1, mkUint(KUint8, 9)), mkSlice(S, 0, mkStr("a")), mkNilSlice(I), mkMap(I, []string{"k"}, mkInt(KInt, 1)), mkNilMap(I),
		mkArray(basics[KInt16], mkInt(KInt16, -1), mkInt(KInt16, 2)), mkArray(S, mkStr("p"), mkStr("q"))} {
		add(mkAny(dv))
		add(mkSlice(A, 0, mkAny(dv), mkAny(nil)))
	}
	add(mkAny(nil))
	// dedicated -0 / NaN inside composites
	add(mkSlice(F, 0, mkF64(negZero()), mkF64(nan())))
	add(mkMap(F, []string{"z"}, mkF64(negZero())))
	add(mkSlice(A, 0, mkAny(mkF64(negZero()))))
	add(mkSlice(basics[KFloat32], 0, mkF32(float32(negZero())), mkF32(float32(nan()))))
}

func negZero() float64 { z := 0.0; return -z }
func nan() float64     { z := 0.0; return z / z }

var _ = rand.Int
