package c11

// Aliasing / sharing / cycles: ONE JavaScript value (or one Go value) that is reachable several
// times inside one converted value and is read at DIFFERENT Go types at its different positions.
//
// The js package documents conversions as a function of (value, Go type) only; object identity is
// not part of it. Hence, for every generated case:
//
//   - JS -> Go (".u" checks, metamorphic): reading a JavaScript graph in which the object s occurs k
//     times must give exactly the Go value obtained from the tree-unfolded copy of the graph (k
//     distinct but equal objects). For cyclic graphs the comparand is a bisimilar graph that
//     shares less (one fresh copy of the cycle per position) and the comparison is depth-bounded;
//   - JS -> Go (".t" checks): where the table of js/js.go settles every leaf conversion, the reading
//     must also equal the literal derived by the harness (expectVal);
//   - Interface() of the whole shared graph must be the "conversion back to any" of its unfolding;
//   - Go -> JS: a Go map / slice / pointer stored at several positions of one externalised value
//     (at its own type, inside interfaces, inside []any, map[string]any, …) must arrive as the
//     documented image of the unfolded value and round-trip to it.
//
// The family is swept over: kind of the shared node (object of numbers / strings / booleans, mixed
// object, array, typed array, object or array of shared objects – two levels of sharing), reader
// types per position (map[string]E for many E, structs, pointers to structs, any, slices, arrays),
// container form (struct fields, nested struct, map of structs, slice, array, pointer, top-level
// map / slice, several parameters of one call, variadic), order of the positions, and entry path
// (exposed function parameter, js-tagged field, js-tagged func field result).

import (
	"fmt"
	"math"
	"math/rand"
	"sort"
	"strconv"
	"strings"
)

// jsNode describes a JavaScript value built by generated code.
type jsNode struct {
	k    byte // 'n' number, 's' string, 'b' boolean, 't' typed array, 'o' object, 'a' array, 'r' reference to a shared node
	f    float64
	s    string
	b    bool
	ta   Kind
	keys []string
	kids []*jsNode
	ref  int
}

func jnum(f float64) *jsNode { return &jsNode{k: 'n', f: f} }
func jstr(s string) *jsNode  { return &jsNode{k: 's', s: s} }
func jbool(b bool) *jsNode   { return &jsNode{k: 'b', b: b} }
func jref(i int) *jsNode     { return &jsNode{k: 'r', ref: i} }
func jarr(kids ...*jsNode) *jsNode {
	return &jsNode{k: 'a', kids: kids}
}
func jobj(kv ...any) *jsNode {
	n := &jsNode{k: 'o'}
	for i := 0; i+1 < len(kv); i += 2 {
		n.keys = append(n.keys, kv[i].(string))
		n.kids = append(n.kids, kv[i+1].(*jsNode))
	}
	return n
}

// aliasGraph: shared[i] may refer to shared[j] for j < i.
type aliasGraph struct{ shared []*jsNode }

func (g *aliasGraph) resolve(n *jsNode) *jsNode {
	for n.k == 'r' {
		n = g.shared[n.ref]
	}
	return n
}

// code is the JavaScript expression for n; with share the shared nodes are the variables s0, s1, …,
// without it every reference is expanded into a fresh copy (the tree unfolding).
func (g *aliasGraph) code(n *jsNode, share bool) string {
	switch n.k {
	case 'n':
		return jsNum(n.f)
	case 's':
		return jsText(n.s)
	case 'b':
		return fmt.Sprint(n.b)
	case 't':
		es := make([]string, len(n.kids))
		for i, e := range n.kids {
			es[i] = jsNum(e.f)
		}
		return "new " + taClass[n.ta] + "([" + strings.Join(es, ",") + "])"
	case 'o':
		es := make([]string, len(n.kids))
		for i, e := range n.kids {
			es[i] = jsText(n.keys[i]) + ":" + g.code(e, share)
		}
		return "{" + strings.Join(es, ",") + "}"
	case 'a':
		es := make([]string, len(n.kids))
		for i, e := range n.kids {
			es[i] = g.code(e, share)
		}
		return "[" + strings.Join(es, ",") + "]"
	case 'r':
		if share {
			return fmt.Sprintf("s%d", n.ref)
		}
		return g.code(g.shared[n.ref], false)
	}
	panic("jsNode.code")
}

func (g *aliasGraph) full(root *jsNode, share bool) string {
	if !share {
		return g.code(root, false)
	}
	var b strings.Builder
	b.WriteString("(function(){")
	for i, s := range g.shared {
		fmt.Fprintf(&b, "var s%d=%s;", i, g.code(s, true))
	}
	b.WriteString("return " + g.code(root, true) + "})()")
	return b.String()
}

// jsKey / jsText: a JavaScript string literal, written plainly where that is possible (witness
// readability), with \u escapes otherwise.
func jsText(s string) string {
	for i := 0; i < len(s); i++ {
		if c := s[i]; c < 0x20 || c > 0x7e || c == '"' || c == '\\' {
			return jsStr(s)
		}
	}
	return `"` + s + `"`
}

func numericString(s string) bool {
	if s == "" || strings.ContainsAny(s, "xXnN_pPiI ") {
		return false
	}
	_, err := strconv.ParseFloat(s, 64)
	return err == nil
}

// sig is the shape of a node: equal signatures can be read through the same Go type.
func (g *aliasGraph) sig(n *jsNode) string {
	n = g.resolve(n)
	switch n.k {
	case 'n', 'b':
		return string(n.k)
	case 's':
		if numericString(n.s) {
			return "sn"
		}
		return "s"
	case 't':
		return "t" + n.ta.String()
	case 'o':
		es := make([]string, len(n.kids))
		for i, e := range n.kids {
			es[i] = n.keys[i] + ":" + g.sig(e)
		}
		sort.Strings(es)
		return "o{" + strings.Join(es, ",") + "}"
	case 'a':
		es := make([]string, len(n.kids))
		for i, e := range n.kids {
			es[i] = g.sig(e)
		}
		return "a[" + strings.Join(es, ",") + "]"
	}
	panic("sig")
}

func (g *aliasGraph) homogeneous(n *jsNode) bool {
	if len(n.kids) == 0 {
		return false
	}
	s0 := g.sig(n.kids[0])
	for _, e := range n.kids[1:] {
		if g.sig(e) != s0 {
			return false
		}
	}
	return true
}

// natural is the Go value of the "conversion back to any" column for the node.
func (g *aliasGraph) natural(n *jsNode) *Val {
	n = g.resolve(n)
	switch n.k {
	case 'n':
		return mkF64(n.f)
	case 's':
		return mkStr(n.s)
	case 'b':
		return mkBool(n.b)
	case 't':
		v := &Val{T: sliceOf(basics[n.ta]), E: []*Val{}}
		for _, e := range n.kids {
			x, _ := g.expectVal(e, basics[n.ta])
			v.E = append(v.E, x)
		}
		return v
	case 'o':
		v := &Val{T: mapOf(basics[KAny]), Keys: []string{}, E: []*Val{}}
		for i, e := range n.kids {
			v.Keys = append(v.Keys, n.keys[i])
			v.E = append(v.E, mkAny(g.natural(e)))
		}
		return v
	case 'a':
		v := &Val{T: sliceOf(basics[KAny]), E: []*Val{}}
		for _, e := range n.kids {
			v.E = append(v.E, mkAny(g.natural(e)))
		}
		return v
	}
	panic("natural")
}

// expectVal is the Go value the documentation settles for reading n at type t; ok is false where
// the documentation is silent (a number read as an integer type it does not fit, as string, a
// JavaScript Array read as a numeric slice, …) – then only the metamorphic check applies.
func (g *aliasGraph) expectVal(n *jsNode, t *Ty) (*Val, bool) {
	n = g.resolve(n)
	if t.K == KAny {
		return mkAny(g.natural(n)), true
	}
	switch n.k {
	case 'n':
		f := n.f
		switch k := t.K; {
		case k == KFloat64:
			return mkF64(f), true
		case k == KFloat32:
			if f == f && float64(float32(f)) == f {
				return mkF32(float32(f)), true
			}
		case k.isInt():
			if f != f || math.IsInf(f, 0) || f != math.Trunc(f) || math.Abs(f) > two53 || (f == 0 && math.Signbit(f)) {
				return nil, false
			}
			lo, hi := intRange(k)
			if k.isSigned() && f >= float64(lo) && f <= float64(int64(hi)) {
				return mkInt(k, int64(f)), true
			}
			if k.isUnsigned() && f >= 0 && uint64(f) <= hi {
				return mkUint(k, uint64(f)), true
			}
		}
	case 's':
		if t.K == KString {
			return mkStr(n.s), true
		}
	case 'b':
		if t.K == KBool {
			return mkBool(n.b), true
		}
	case 't':
		if t.K == KSlice && t.Elem.K == n.ta {
			v := &Val{T: t, E: []*Val{}}
			for _, e := range n.kids {
				x, ok := g.expectVal(e, t.Elem)
				if !ok {
					return nil, false
				}
				v.E = append(v.E, x)
			}
			return v, true
		}
	case 'o':
		switch t.K {
		case KMap:
			v := &Val{T: t, Keys: []string{}, E: []*Val{}}
			for i, e := range n.kids {
				x, ok := g.expectVal(e, t.Elem)
				if !ok {
					return nil, false
				}
				v.Keys = append(v.Keys, n.keys[i])
				v.E = append(v.E, x)
			}
			return v, true
		case KStruct:
			v := &Val{T: t}
			for _, f := range t.Fields {
				var kid *jsNode
				for i, k := range n.keys {
					if k == f.Name {
						kid = n.kids[i]
					}
				}
				if kid == nil || !f.exported() {
					return nil, false
				}
				x, ok := g.expectVal(kid, f.T)
				if !ok {
					return nil, false
				}
				v.E = append(v.E, x)
			}
			return v, true
		case KPtr:
			x, ok := g.expectVal(n, t.Elem)
			if !ok {
				return nil, false
			}
			return &Val{T: t, E: []*Val{x}}, true
		}
	case 'a':
		if t.K == KSlice || t.K == KArray {
			if _, numeric := taClass[t.Elem.K]; numeric {
				return nil, false
			}
			if t.K == KArray && t.N != len(n.kids) {
				return nil, false
			}
			v := &Val{T: t, E: []*Val{}}
			for _, e := range n.kids {
				x, ok := g.expectVal(e, t.Elem)
				if !ok {
					return nil, false
				}
				v.E = append(v.E, x)
			}
			return v, true
		}
	}
	return nil, false
}

// describeTy writes a type with its struct types expanded (witness text, violation keys).
func describeTy(t *Ty) string {
	switch t.K {
	case KSlice:
		return "[]" + describeTy(t.Elem)
	case KArray:
		return fmt.Sprintf("[%d]%s", t.N, describeTy(t.Elem))
	case KMap:
		return "map[string]" + describeTy(t.Elem)
	case KPtr:
		return "*" + describeTy(t.Elem)
	case KStruct:
		if len(t.Fields) == 0 {
			return t.Name
		}
		fs := make([]string, len(t.Fields))
		for i, f := range t.Fields {
			fs[i] = f.Name + " " + describeTy(f.T)
		}
		return "struct{" + strings.Join(fs, "; ") + "}"
	}
	return kindName[t.K]
}

func clipN(s string, n int) string {
	if len(s) > n {
		return s[:n] + "…"
	}
	return s
}

// aliasGen generates the cases of one aliasing program.
type aliasGen struct {
	p     *prog
	r     *rand.Rand
	g     *aliasGraph
	st    map[string]*Ty
	reads map[int]map[string]bool // shared node -> keys of the types it is read at in the current case
}

func newAliasGen(p *prog, r *rand.Rand) *aliasGen {
	return &aliasGen{p: p, r: r, st: map[string]*Ty{}}
}

// structOf returns the program's struct type with exactly these fields (one declaration per shape).
func (a *aliasGen) structOf(fs ...Fld) *Ty {
	k := describeTy(&Ty{K: KStruct, Fields: fs, Name: "?"})
	if t, ok := a.st[k]; ok {
		return t
	}
	t := a.p.newStruct(fs...)
	a.st[k] = t
	return t
}

func (a *aliasGen) note(ref int, t *Ty) {
	if a.reads[ref] == nil {
		a.reads[ref] = map[string]bool{}
	}
	a.reads[ref][t.Key()] = true
}

var aliasNumReaders = []Kind{KInt, KInt, KInt, KFloat64, KFloat64, KFloat64, KString, KString, KAny, KAny, KInt64, KInt64, KBool, KInt8, KUint8, KUint16, KInt32, KFloat32, KUint, KUint64, KInt16}

func isExportedIdent(s string) bool {
	if s == "" || s[0] < 'A' || s[0] > 'Z' {
		return false
	}
	for i := 0; i < len(s); i++ {
		c := s[i]
		if !(c >= 'A' && c <= 'Z' || c >= 'a' && c <= 'z' || c >= '0' && c <= '9') {
			return false
		}
	}
	return true
}

// readerFor draws a Go type through which the node can be read.
func (a *aliasGen) readerFor(n *jsNode) *Ty {
	r := a.r
	switch n.k {
	case 'r':
		t := a.readerFor(a.g.shared[n.ref])
		a.note(n.ref, t)
		return t
	case 'n':
		return basics[aliasNumReaders[r.Intn(len(aliasNumReaders))]]
	case 's':
		if numericString(n.s) {
			return basics[[]Kind{KString, KString, KAny, KInt, KFloat64, KInt64}[r.Intn(6)]]
		}
		return basics[[]Kind{KString, KString, KAny}[r.Intn(3)]]
	case 'b':
		return basics[[]Kind{KBool, KBool, KAny}[r.Intn(3)]]
	case 't':
		if r.Intn(3) == 0 {
			return basics[KAny]
		}
		return sliceOf(basics[n.ta])
	case 'o':
		var idents []int
		for i, k := range n.keys {
			if isExportedIdent(k) {
				idents = append(idents, i)
			}
		}
		homog := a.g.homogeneous(n)
		x := r.Intn(7)
		switch {
		case x == 0 || (len(idents) == 0 && !homog):
			return basics[KAny]
		case homog && (x <= 3 || len(idents) == 0):
			et := a.readerFor(n.kids[0])
			for _, e := range n.kids[1:] {
				if e.k == 'r' {
					a.note(e.ref, et)
				}
			}
			return mapOf(et)
		}
		var pick []int
		for _, i := range idents {
			if r.Intn(4) != 0 {
				pick = append(pick, i)
			}
		}
		if len(pick) == 0 {
			pick = append(pick, idents[r.Intn(len(idents))])
		}
		r.Shuffle(len(pick), func(i, j int) { pick[i], pick[j] = pick[j], pick[i] })
		var fs []Fld
		for _, i := range pick {
			fs = append(fs, Fld{n.keys[i], a.readerFor(n.kids[i])})
		}
		st := a.structOf(fs...)
		if r.Intn(5) == 0 {
			return ptrTo(st)
		}
		return st
	case 'a':
		if !a.g.homogeneous(n) {
			if r.Intn(2) == 0 {
				return basics[KAny]
			}
			return sliceOf(basics[KAny])
		}
		switch r.Intn(7) {
		case 0:
			return basics[KAny]
		case 1:
			return sliceOf(basics[KAny])
		case 2:
			et := a.readerFor(n.kids[0])
			a.noteRest(n, et)
			return arrayOf(len(n.kids), et)
		}
		et := a.readerFor(n.kids[0])
		a.noteRest(n, et)
		return sliceOf(et)
	}
	panic("readerFor")
}

func (a *aliasGen) noteRest(n *jsNode, et *Ty) {
	for _, e := range n.kids[1:] {
		if e.k == 'r' {
			a.note(e.ref, et)
		}
	}
}

// ---------------------------------------------------------------------------------------------
// container forms: ref is referenced at 2..3 positions, position i being read at readers[i].

var aliasForms = []string{"fields", "nested-struct", "map-of-struct", "slice-elems", "ptr-to-struct", "top-map", "array-elems", "top-slice", "any-sibling", "deep-map", "params"}

func (a *aliasGen) buildForm(form int, ref int, rd []*Ty) (*Ty, *jsNode) {
	s := func() *jsNode { return jref(ref) }
	third := len(rd) > 2
	switch aliasForms[form] {
	case "fields":
		fs := []Fld{{"F0", rd[0]}, {"F1", rd[1]}}
		kv := []any{"F0", s(), "F1", s()}
		if third {
			fs = append(fs, Fld{"F2", rd[2]})
			kv = append(kv, "F2", s())
		}
		return a.structOf(fs...), jobj(kv...)
	case "nested-struct":
		in := []Fld{{"F1", rd[1]}}
		kv := []any{"F1", s()}
		if third {
			in = append(in, Fld{"F2", rd[2]})
			kv = append(kv, "F2", s())
		}
		return a.structOf(Fld{"F0", rd[0]}, Fld{"In", a.structOf(in...)}), jobj("F0", s(), "In", jobj(kv...))
	case "map-of-struct":
		in := a.structOf(Fld{"F1", rd[1]})
		return a.structOf(Fld{"M", mapOf(in)}, Fld{"F0", rd[0]}), jobj("M", jobj("a", jobj("F1", s()), "b", jobj("F1", s())), "F0", s())
	case "slice-elems":
		return a.structOf(Fld{"L", sliceOf(rd[1])}, Fld{"F0", rd[0]}), jobj("L", jarr(s(), s()), "F0", s())
	case "ptr-to-struct":
		in := a.structOf(Fld{"F1", rd[1]})
		return a.structOf(Fld{"F0", rd[0]}, Fld{"P", ptrTo(in)}), jobj("F0", s(), "P", jobj("F1", s()))
	case "top-map":
		in := a.structOf(Fld{"A", rd[0]}, Fld{"B", rd[1]})
		return mapOf(in), jobj("x", jobj("A", s(), "B", s()), "y", jobj("A", s(), "B", s()))
	case "array-elems":
		return a.structOf(Fld{"F0", rd[0]}, Fld{"Arr", arrayOf(2, rd[1])}), jobj("F0", s(), "Arr", jarr(s(), s()))
	case "top-slice":
		in := a.structOf(Fld{"A", rd[0]}, Fld{"B", rd[1]})
		return sliceOf(in), jarr(jobj("A", s(), "B", s()), jobj("B", s(), "A", s()))
	case "any-sibling":
		return a.structOf(Fld{"Dyn", basics[KAny]}, Fld{"F0", rd[0]}, Fld{"F1", rd[1]}), jobj("Dyn", s(), "F0", s(), "F1", s())
	case "deep-map":
		return a.structOf(Fld{"F0", rd[0]}, Fld{"Deep", mapOf(mapOf(rd[1]))}), jobj("F0", s(), "Deep", jobj("a", jobj("b", s(), "c", s())))
	}
	panic("buildForm")
}

// addJS adds one JavaScript -> Go case: root (which refers to the shared nodes of a.g) is read at C.
func (a *aliasGen) addJS(form string, root *jsNode, C *Ty, q int) {
	p := a.p
	id := fmt.Sprintf("a%d", len(p.ids))
	p.ids = append(p.ids, id)
	p.needRecv(C)
	sh, un := a.g.full(root, true), a.g.full(root, false)
	p.meta[id] = &caseMeta{Dir: "js2go", Kind: "shared(" + form + ")", Type: "js:shared(" + form + ") read as " + clipN(describeTy(C), 400) + " via " + recvPaths[q],
		Path: -1, Recv: q, Class: clipN(describeTy(C), 200), Exact: true, Lit: clipN(sh, 400)}
	var b strings.Builder
	fmt.Fprintf(&b, "\ttry(%q, func() {\n\t\tsh := mk(%s)\n\t\tun := mk(%s)\n", id, goQuote(sh), goQuote(un))
	fmt.Fprintf(&b, "\t\tg := %s\n", showExpr(C, fmt.Sprintf("rcv_%s(%d, sh)", C.Key(), q)))
	fmt.Fprintf(&b, "\t\tchk(%q, g, %s)\n", id+".u", showExpr(C, fmt.Sprintf("rcv_%s(%d, un)", C.Key(), q)))
	p.checks[id+".u"] = true
	if ev, ok := a.g.expectVal(root, C); ok {
		fmt.Fprintf(&b, "\t\tchk(%q, g, %s)\n", id+".t", goQuote(ev.ShowT()))
		p.checks[id+".t"] = true
	}
	fmt.Fprintf(&b, "\t\tacc(%q, sh, %s)\n\t})\n", id, goQuote("A="+mkAny(a.g.natural(root)).ShowT()))
	p.checks[id+".A"] = true
	p.body = append(p.body, b.String())
}

// addParams adds a case in which the shared node itself is passed as several arguments (the last
// ones variadic) of one call of an exposed Go function, every parameter having its own type.
func (a *aliasGen) addParams(ref int, rd []*Ty) {
	p := a.p
	id := fmt.Sprintf("a%d", len(p.ids))
	p.ids = append(p.ids, id)
	for _, t := range rd {
		p.needRecv(t)
	}
	var ts []string
	for _, t := range rd {
		ts = append(ts, describeTy(t))
	}
	code := a.g.full(jref(ref), true)
	sig := "func(" + strings.Join(ts[:len(ts)-1], ", ") + ", ..." + ts[len(ts)-1] + ")"
	p.meta[id] = &caseMeta{Dir: "js2go", Kind: "shared(params)", Type: "js:shared(params) passed as every argument of " + clipN(sig, 400), Path: -1, Recv: 0, Class: clipN(sig, 200), Exact: true, Lit: clipN(code, 400)}
	var b strings.Builder
	fmt.Fprintf(&b, "\ttry(%q, func() {\n\t\ts := mk(%s)\n\t\tgot, want := \"\", \"\"\n", id, goQuote(code))
	var params, args []string
	last := len(rd) - 1
	for i, t := range rd {
		if i == last {
			params = append(params, fmt.Sprintf("rest ...%s", t.GoType()))
		} else {
			params = append(params, fmt.Sprintf("x%d %s", i, t.GoType()))
		}
		args = append(args, "s")
	}
	args = append(args, "s") // two variadic arguments
	fmt.Fprintf(&b, "\t\tjs.Global.Call(\"__vpCall\", %q, func(%s) {\n", id+"#call", strings.Join(params, ", "))
	for i, t := range rd[:last] {
		fmt.Fprintf(&b, "\t\t\tgot += %s + \"|\"\n", showExpr(t, fmt.Sprintf("x%d", i)))
	}
	fmt.Fprintf(&b, "\t\t\tfor _, x := range rest {\n\t\t\t\tgot += %s + \"|\"\n\t\t\t}\n\t\t}, %s)\n", showExpr(rd[last], "x"), strings.Join(args, ", "))
	lit, allOK := "", true
	for _, t := range append(append([]*Ty{}, rd...), rd[last]) {
		fmt.Fprintf(&b, "\t\twant += %s + \"|\"\n", showExpr(t, fmt.Sprintf("rcv_%s(0, mk(%s))", t.Key(), goQuote(a.g.full(jref(ref), false)))))
		if ev, ok := a.g.expectVal(jref(ref), t); ok {
			lit += ev.ShowT() + "|"
		} else {
			allOK = false
		}
	}
	fmt.Fprintf(&b, "\t\tchk(%q, got, want)\n", id+".u")
	p.checks[id+".u"] = true
	if allOK {
		fmt.Fprintf(&b, "\t\tchk(%q, got, %s)\n", id+".t", goQuote(lit))
		p.checks[id+".t"] = true
	}
	b.WriteString("\t})\n")
	p.body = append(p.body, b.String())
}

// ---------------------------------------------------------------------------------------------
// shared node generators

var aliasNums = []float64{21.75, 3.5, -7, 0.5, 200, -1, 65536.25, 1e6, -2.5, 12, 0, 1, 255, -128.5, 1e-3, 4294967296, 7.000001}
var aliasKeys = []string{"T", "P", "N", "Kk", "Zed", "Qx"}
var aliasNoise = []string{"lower", "é", "0", "has space", "constructor"}

// randLeaf draws a shared leaf node. kind: 0 object of numbers, 1 object of numeric strings, 2 object
// of booleans, 3 mixed object, 4 array of numbers, 5 array of strings, 6 typed array, 7 object of strings.
func randLeaf(r *rand.Rand, kind int) *jsNode {
	nk := 1 + r.Intn(3)
	keys := append([]string{}, aliasKeys...)
	r.Shuffle(len(keys), func(i, j int) { keys[i], keys[j] = keys[j], keys[i] })
	keys = keys[:nk]
	num := func() *jsNode {
		if r.Intn(6) == 0 {
			return jnum(float64(r.Intn(2000)-1000) / []float64{1, 1, 4, 8}[r.Intn(4)])
		}
		return jnum(aliasNums[r.Intn(len(aliasNums))])
	}
	str := func(numeric bool) *jsNode {
		if numeric {
			return jstr([]string{"42", "-17", "3.5", "0", "1e3", "21.75"}[r.Intn(6)])
		}
		return jstr([]string{"", "x", "é", "\U0001F600z", "a b", "12abc"}[r.Intn(6)])
	}
	o := &jsNode{k: 'o'}
	add := func(k string, v *jsNode) { o.keys = append(o.keys, k); o.kids = append(o.kids, v) }
	switch kind {
	case 0, 1, 2, 7:
		for _, k := range keys {
			switch kind {
			case 0:
				add(k, num())
			case 1:
				add(k, str(true))
			case 2:
				add(k, jbool(r.Intn(2) == 0))
			default:
				add(k, str(false))
			}
		}
		if r.Intn(3) == 0 {
			// a key no struct reader can name; map and any readers see it
			nk := aliasNoise[r.Intn(len(aliasNoise))]
			switch kind {
			case 0:
				add(nk, num())
			case 1:
				add(nk, str(true))
			case 2:
				add(nk, jbool(true))
			default:
				add(nk, str(false))
			}
		}
		return o
	case 3:
		for i, k := range keys {
			switch (i + r.Intn(2)) % 3 {
			case 0:
				add(k, num())
			case 1:
				add(k, str(r.Intn(2) == 0))
			default:
				add(k, jbool(r.Intn(2) == 0))
			}
		}
		return o
	case 4:
		a := &jsNode{k: 'a'}
		for i := 0; i < 1+r.Intn(3); i++ {
			a.kids = append(a.kids, num())
		}
		return a
	case 5:
		a := &jsNode{k: 'a'}
		num := r.Intn(2) == 0
		for i := 0; i < 1+r.Intn(3); i++ {
			a.kids = append(a.kids, str(num))
		}
		return a
	default:
		k := []Kind{KFloat64, KInt32, KUint8, KFloat32, KInt16}[r.Intn(5)]
		t := &jsNode{k: 't', ta: k}
		for i := 0; i < 1+r.Intn(3); i++ {
			v := randScalar(k, r, true)
			f := v.asFloat()
			if f != f || (f == 0 && math.Signbit(f)) {
				f = 1
			}
			t.kids = append(t.kids, jnum(f))
		}
		return t
	}
}

// randGraph: one or two levels of sharing. It returns the index of the node the container refers to.
func randGraph(r *rand.Rand) (*aliasGraph, int) {
	g := &aliasGraph{}
	g.shared = append(g.shared, randLeaf(r, []int{0, 0, 0, 1, 2, 3, 3, 4, 4, 5, 6, 7}[r.Intn(12)]))
	switch r.Intn(5) {
	case 0: // an object whose properties are all the same shared leaf
		g.shared = append(g.shared, jobj("T", jref(0), "P", jref(0)))
	case 1: // an array of the shared leaf
		g.shared = append(g.shared, jarr(jref(0), jref(0)))
	case 2: // shared leaf next to an equal, but distinct, copy of it and a scalar
		cp := *g.shared[0]
		g.shared = append(g.shared, jobj("T", jref(0), "P", &cp, "N", jnum(aliasNums[r.Intn(len(aliasNums))])))
	}
	return g, len(g.shared) - 1
}

// genAliasGrid adds the fixed grid of JavaScript -> Go sharing cases: every pair of reader types of
// one shared object / array / nested object, the container form and the entry path rotating.
func genAliasGrid(a *aliasGen, fullGrid bool) {
	I, F, S, A := basics[KInt], basics[KFloat64], basics[KString], basics[KAny]
	n := 0
	grid := func(leaf *jsNode, readers func() []*Ty) {
		a.g = &aliasGraph{shared: []*jsNode{leaf}}
		rds := readers()
		for i := range rds {
			for j := range rds {
				if i == j || (!fullGrid && (i > j) != ((i+j)%2 == 0)) {
					continue // quick: every unordered pair once, the order alternating
				}
				a.reads = map[int]map[string]bool{}
				form := n % (len(aliasForms) - 1)
				C, root := a.buildForm(form, 0, []*Ty{rds[i], rds[j]})
				a.addJS(aliasForms[form], root, C, n%len(recvPaths))
				n++
			}
		}
	}
	objReaders := func() []*Ty {
		return []*Ty{mapOf(I), mapOf(F), mapOf(S), mapOf(A), mapOf(basics[KInt64]), mapOf(basics[KBool]), mapOf(basics[KUint8]),
			a.structOf(Fld{"T", I}, Fld{"P", F}), a.structOf(Fld{"P", S}, Fld{"T", F}), A, ptrTo(a.structOf(Fld{"T", F}, Fld{"P", I}))}
	}
	// non-integral numbers: every numeric reader type gives a different Go value
	grid(jobj("T", jnum(21.75), "P", jnum(3.5)), objReaders)
	// integral numbers: the documentation settles every reading (literal expectations apply)
	if fullGrid {
		grid(jobj("T", jnum(21), "P", jnum(-3)), objReaders)
	} else {
		grid(jobj("T", jnum(21), "P", jnum(-3)), func() []*Ty {
			return []*Ty{mapOf(I), mapOf(F), mapOf(A), mapOf(basics[KInt64]), a.structOf(Fld{"T", I}, Fld{"P", F}), A}
		})
	}
	grid(jarr(jnum(21.75), jnum(3)), func() []*Ty {
		return []*Ty{sliceOf(I), sliceOf(F), sliceOf(S), sliceOf(A), arrayOf(2, I), arrayOf(2, F), A, sliceOf(basics[KInt64])}
	})
	grid(jobj("T", jobj("X", jnum(1.5)), "P", jobj("X", jnum(-2))), func() []*Ty {
		return []*Ty{mapOf(mapOf(I)), mapOf(mapOf(F)), mapOf(A), mapOf(a.structOf(Fld{"X", F})), mapOf(a.structOf(Fld{"X", basics[KInt64]})), A,
			a.structOf(Fld{"T", mapOf(F)}, Fld{"P", mapOf(S)})}
	})
}

// genAliasDrawn adds nRandom drawn shapes: drawn shared graph (one or two levels of sharing), drawn
// reader type per position, drawn container form and entry path.
func genAliasDrawn(a *aliasGen, nRandom int) {
	r := a.r
	for i := 0; i < nRandom; i++ {
		g, ref := randGraph(r)
		a.g = g
		k := 2 + r.Intn(2)
		var rds []*Ty
		for try := 0; ; try++ {
			a.reads = map[int]map[string]bool{}
			rds = rds[:0]
			for j := 0; j < k; j++ {
				rds = append(rds, a.readerFor(jref(ref)))
			}
			diverse := false
			for _, m := range a.reads {
				if len(m) > 1 {
					diverse = true
				}
			}
			// one case in eight keeps a shape in which every shared node is read at one type only
			if diverse || try > 20 || (try == 0 && i%8 == 7) {
				break
			}
		}
		form := r.Intn(len(aliasForms))
		if aliasForms[form] == "params" {
			a.addParams(ref, rds)
			continue
		}
		C, root := a.buildForm(form, ref, rds)
		a.addJS(aliasForms[form], root, C, r.Intn(len(recvPaths)))
	}
}

// ---------------------------------------------------------------------------------------------
// Go -> JavaScript: one Go map / slice / pointer at several positions of one externalised value.

func containsShared(v *Val, names map[*Val]string) bool {
	if _, ok := names[v]; ok {
		return true
	}
	if v.Dyn != nil && containsShared(v.Dyn, names) {
		return true
	}
	for _, e := range v.E {
		if containsShared(e, names) {
			return true
		}
	}
	return false
}

// goLitShared is GoLit with the shared sub-values replaced by the variables that hold them.
func goLitShared(v *Val, names map[*Val]string) string {
	if s, ok := names[v]; ok {
		return s
	}
	if !containsShared(v, names) {
		return v.GoLit()
	}
	t := v.T
	switch t.K {
	case KSlice, KArray:
		if v.Nil {
			return v.GoLit()
		}
		var es []string
		for _, e := range v.E {
			es = append(es, goLitShared(e, names))
		}
		return t.GoType() + "{" + strings.Join(es, ", ") + "}"
	case KMap:
		if v.Nil {
			return v.GoLit()
		}
		var es []string
		for i, e := range v.E {
			es = append(es, goStr(v.Keys[i])+": "+goLitShared(e, names))
		}
		return t.GoType() + "{" + strings.Join(es, ", ") + "}"
	case KStruct:
		var es []string
		for i, e := range v.E {
			es = append(es, t.Fields[i].Name+": "+goLitShared(e, names))
		}
		return t.GoType() + "{" + strings.Join(es, ", ") + "}"
	case KPtr:
		if v.Nil {
			return v.GoLit()
		}
		return "&" + goLitShared(v.E[0], names)
	case KAny:
		if v.Nil {
			return "any(nil)"
		}
		return "any(" + goLitShared(v.Dyn, names) + ")"
	}
	return v.GoLit()
}

func genAliasGo2JS(p *prog, r *rand.Rand, n int) {
	a := newAliasGen(p, r)
	I, F, S, A := basics[KInt], basics[KFloat64], basics[KString], basics[KAny]
	pt := a.structOf(Fld{"X", I}, Fld{"Y", S}, Fld{"Zs", sliceOf(F)})
	leafTypes := []*Ty{mapOf(F), mapOf(I), mapOf(S), mapOf(A), sliceOf(S), sliceOf(F), sliceOf(A), sliceOf(basics[KInt64]), ptrTo(pt), mapOf(sliceOf(basics[KUint8])), sliceOf(mapOf(I))}
	for i := 0; i < n; i++ {
		t0 := leafTypes[(i+r.Intn(2))%len(leafTypes)]
		var s0 *Val
		for {
			s0 = randVal(t0, r, true, 0)
			if !s0.Nil && s0.exact() && !s0.typedDocSilent() && !negZeroInside(s0) && (len(s0.E) > 0 || r.Intn(4) == 0) {
				break
			}
		}
		names := map[*Val]string{s0: "s0"}
		type pos struct {
			t *Ty
			v *Val
		}
		var opts []pos
		opts = append(opts,
			pos{t0, s0},
			pos{A, mkAny(s0)},
			pos{sliceOf(t0), &Val{T: sliceOf(t0), E: []*Val{s0, s0}}},
			pos{sliceOf(A), &Val{T: sliceOf(A), E: []*Val{mkAny(s0), mkAny(mkStr("between")), mkAny(s0)}}},
			pos{mapOf(t0), &Val{T: mapOf(t0), Keys: []string{"a", "b"}, E: []*Val{s0, s0}}},
			pos{mapOf(A), &Val{T: mapOf(A), Keys: []string{"k", "l"}, E: []*Val{mkAny(s0), mkAny(s0)}}},
			pos{arrayOf(2, t0), &Val{T: arrayOf(2, t0), E: []*Val{s0, s0}}},
		)
		in := a.structOf(Fld{"X", t0}, Fld{"Y", A})
		opts = append(opts, pos{in, &Val{T: in, E: []*Val{s0, mkAny(s0)}}})
		if t0.K == KPtr {
			names[s0.E[0]] = "(*s0)"
			opts = append(opts, pos{t0.Elem, s0.E[0]}, pos{A, mkAny(s0.E[0])})
		}
		var v *Val
		if r.Intn(4) == 0 {
			v = opts[2+r.Intn(5)].v // the sharing container itself is the value sent
		} else {
			k := 2 + r.Intn(3)
			var fs []Fld
			st := &Val{}
			for j := 0; j < k; j++ {
				o := opts[r.Intn(len(opts))]
				fs = append(fs, Fld{fmt.Sprintf("F%d", j), o.t})
				st.E = append(st.E, o.v)
			}
			st.T = a.structOf(fs...)
			v = st
			if r.Intn(5) == 0 {
				v = &Val{T: ptrTo(st.T), E: []*Val{st}}
			}
		}
		path, q := r.Intn(len(sendPaths)), r.Intn(len(recvPaths))
		id := fmt.Sprintf("g%d", len(p.ids))
		p.ids = append(p.ids, id)
		p.needTrip(v.T)
		v.walkTypes(func(t *Ty) { p.needShow(t) })
		key := v.T.Key()
		pre := "s0 := " + s0.GoLit()
		lit := goLitShared(v, names)
		p.meta[id] = &caseMeta{Dir: "go2js", Kind: v.T.K.String(), Type: clipN(describeTy(v.T), 400) + " (one Go " + t0.K.String() + " value s0 at several positions)", Path: path, Recv: q,
			Class: v.classOf(), Exact: true, Lit: clipN(pre+"; "+lit, 400)}
		p.expect[id] = v.JSDesc()
		var b strings.Builder
		fmt.Fprintf(&b, "\ttry(%q, func() {\n\t\t%s\n\t\tr := snd_%s(%d, %q, %s)\n", id, pre, key, path, id, lit)
		fmt.Fprintf(&b, "\t\tchk(%q, %s, %s)\n", id+".t", showExpr(v.T, fmt.Sprintf("rcv_%s(%d, r)", key, q)), goQuote(v.ShowT()))
		p.checks[id+".t"] = true
		if spec := accSpec(v); spec != "" {
			fmt.Fprintf(&b, "\t\tacc(%q, r, %s)\n", id, goQuote(spec))
			for _, f := range strings.Split(spec, ";") {
				p.checks[id+"."+f[:1]] = true
			}
		}
		b.WriteString("\t})\n")
		p.body = append(p.body, b.String())
	}
	// undocumented corners: executed and reported, never asserted
	p.body = append(p.body, `	func() {
		defer func() {
			if e := recover(); e != nil {
				println("O shared-go-map-twice-in-js.M:same-js-object panic:" + qq(errStr(e)))
			}
		}()
		m := map[string]int{"k": 1}
		o := js.Global.Call("__vpIdent", js.M{"a": m, "b": m})
		println("O shared-go-map-twice-in-js.M:same-js-object " + shB(o.Get("a") == o.Get("b")))
	}()
	func() {
		defer func() {
			if e := recover(); e != nil {
				println("O cyclic-go-map-externalize panic:" + qq(errStr(e)))
			}
		}()
		m := map[string]any{"v": 1}
		m["self"] = m
		o := js.Global.Call("__vpIdent", m)
		println("O cyclic-go-map-externalize " + shB(o.Get("self").Get("self") == o.Get("self")))
	}()
`)
}

// ---------------------------------------------------------------------------------------------
// cyclic JavaScript graphs read at recursive Go types

// cycGraph: node i is the object {V: V[i], Kids: K<KidsOf[i]>}; kids object j maps keys to nodes.
// Several nodes may own the same kids object. Node 0 is the entry.
type cycGraph struct {
	name   string
	V      []float64
	KidsOf []int
	Kids   []map[string]int
}

// maker is a JavaScript function expression; each call builds a fresh, isomorphic copy of the graph.
func (c *cycGraph) maker() string {
	var b strings.Builder
	b.WriteString("function(){")
	for j := range c.Kids {
		fmt.Fprintf(&b, "var K%d={};", j)
	}
	for i, v := range c.V {
		fmt.Fprintf(&b, "var O%d={V:%s,Kids:K%d};", i, jsNum(v), c.KidsOf[i])
	}
	for j, m := range c.Kids {
		for _, k := range sortedKeys(m) {
			fmt.Fprintf(&b, "K%d[%s]=O%d;", j, jsText(k), m[k])
		}
	}
	b.WriteString("return O0}")
	return b.String()
}

// unrollF / unrollAny: depth-bounded renderings (shRF / shAnyD of the program) of the unfolding.
func (c *cycGraph) unrollF(i, d int) string {
	if d == 0 {
		return "~"
	}
	m := c.Kids[c.KidsOf[i]]
	var es []string
	for _, k := range sortedKeys(m) {
		es = append(es, shS(k)+":"+c.unrollF(m[k], d-1))
	}
	return "{V:" + shF64(c.V[i]) + ",Kids:{" + strings.Join(es, ",") + "}}"
}

func (c *cycGraph) unrollAny(i, d int) string {
	if d == 0 {
		return "~"
	}
	kids := "~"
	if d-1 > 0 {
		m := c.Kids[c.KidsOf[i]]
		var es []string
		for _, k := range sortedKeys(m) {
			es = append(es, shS(k)+":"+c.unrollAny(m[k], d-2))
		}
		kids = "map{" + strings.Join(es, ",") + "}"
	}
	return "map{" + shS("Kids") + ":" + kids + "," + shS("V") + ":f64:" + shF64(c.V[i]) + "}"
}

const aliasCycDecls = `
type alRN struct {
	V    int
	Kids map[string]alRN
}
type alRF struct {
	V    float64
	Kids map[string]alRF
}
type alRS struct {
	V    string
	Kids map[string]alRS
}
type alX struct {
	V    int
	Kids map[string]alY
}
type alY struct {
	V    float64
	Kids map[string]alX
}
type alRM map[string]alRM

type alCycA struct {
	A alRN
	B alRF
	C any
	D alRS
	E map[string]any
	F alX
	G *alRF
}
type alCycB struct {
	C any
	G *alRF
	F alY
	D alRS
	B alRF
	A alRN
}
type alCycM struct {
	M alRM
	N map[string]any
	O map[string]map[string]any
	P map[string]alRM
}

func alKeys[T any](m map[string]T) []string {
	ks := make([]string, 0, len(m))
	for k := range m {
		ks = append(ks, k)
	}
	sortStrings(ks)
	return ks
}
func shRN(v alRN, d int) string {
	if d == 0 {
		return "~"
	}
	var es []string
	for _, k := range alKeys(v.Kids) {
		es = append(es, shS(k)+":"+shRN(v.Kids[k], d-1))
	}
	return "{V:" + itoa(v.V) + ",Kids:{" + join(es) + "}}"
}
func shRF(v alRF, d int) string {
	if d == 0 {
		return "~"
	}
	var es []string
	for _, k := range alKeys(v.Kids) {
		es = append(es, shS(k)+":"+shRF(v.Kids[k], d-1))
	}
	return "{V:" + shF64(v.V) + ",Kids:{" + join(es) + "}}"
}
func shRS(v alRS, d int) string {
	if d == 0 {
		return "~"
	}
	var es []string
	for _, k := range alKeys(v.Kids) {
		es = append(es, shS(k)+":"+shRS(v.Kids[k], d-1))
	}
	return "{V:" + shS(v.V) + ",Kids:{" + join(es) + "}}"
}
func shX(v alX, d int) string {
	if d == 0 {
		return "~"
	}
	var es []string
	for _, k := range alKeys(v.Kids) {
		es = append(es, shS(k)+":"+shY(v.Kids[k], d-1))
	}
	return "{V:" + itoa(v.V) + ",Kids:{" + join(es) + "}}"
}
func shY(v alY, d int) string {
	if d == 0 {
		return "~"
	}
	var es []string
	for _, k := range alKeys(v.Kids) {
		es = append(es, shS(k)+":"+shX(v.Kids[k], d-1))
	}
	return "{V:" + shF64(v.V) + ",Kids:{" + join(es) + "}}"
}
func shRM(v alRM, d int) string {
	if v == nil {
		return "nil"
	}
	if d == 0 {
		return "~"
	}
	var es []string
	for _, k := range alKeys(v) {
		es = append(es, shS(k)+":"+shRM(v[k], d-1))
	}
	return "{" + join(es) + "}"
}
func shAnyD(v any, d int) string {
	m, ok := v.(map[string]any)
	if !ok {
		return shAny(v)
	}
	if d == 0 {
		return "~"
	}
	var es []string
	for _, k := range alKeys(m) {
		es = append(es, shS(k)+":"+shAnyD(m[k], d-1))
	}
	return "map{" + join(es) + "}"
}
func shPF(p *alRF, d int) string {
	if p == nil {
		return "nil"
	}
	return "&" + shRF(*p, d)
}
func shMM(m map[string]map[string]any, d int) string {
	var es []string
	for _, k := range alKeys(m) {
		es = append(es, shS(k)+":"+shAnyD(m[k], d))
	}
	return "{" + join(es) + "}"
}
func shMR(m map[string]alRM, d int) string {
	var es []string
	for _, k := range alKeys(m) {
		es = append(es, shS(k)+":"+shRM(m[k], d))
	}
	return "{" + join(es) + "}"
}
`

const aliasCycDepth = 4

func genAliasCycles(p *prog) {
	p.extra = append(p.extra, aliasCycDecls)
	for _, n := range []string{"alCycA", "alCycB", "alCycM"} {
		t := &Ty{K: KStruct, Name: n}
		p.trip[n] = t
		p.tripOrd = append(p.tripOrd, n)
		p.rcvOnly[n] = true
	}
	graphs := []*cycGraph{
		{name: "self-loop", V: []float64{3.5}, KidsOf: []int{0}, Kids: []map[string]int{{"me": 0}}},
		{name: "two-cycle", V: []float64{1.25, 7.5}, KidsOf: []int{0, 1}, Kids: []map[string]int{{"b": 1}, {"a": 0, "self": 1}}},
		{name: "shared-kids", V: []float64{-1.5, 2.5}, KidsOf: []int{0, 0}, Kids: []map[string]int{{"a": 0, "b": 1}}},
		{name: "three-ring-with-chords", V: []float64{10.5, 20, -30.25}, KidsOf: []int{0, 1, 2}, Kids: []map[string]int{{"n": 1, "self": 0}, {"n": 2, "back": 0}, {"n": 0, "mid": 1}}},
	}
	fieldsOf := map[string][]string{"alCycA": {"A", "B", "C", "D", "E", "F", "G"}, "alCycB": {"C", "G", "F", "D", "B", "A"}}
	showOf := map[string]string{"A": "shRN(%s.A, %d)", "B": "shRF(%s.B, %d)", "C": "shAnyD(%s.C, %d)", "D": "shRS(%s.D, %d)", "E": "shAnyD(%s.E, %d)", "G": "shPF(%s.G, %d)"}
	D := aliasCycDepth
	n := 0
	for _, cg := range graphs {
		for _, ct := range []string{"alCycA", "alCycB"} {
			q := n % len(recvPaths)
			n++
			id := fmt.Sprintf("y%d", len(p.ids))
			p.ids = append(p.ids, id)
			var shKV, unKV []string
			for _, f := range fieldsOf[ct] {
				shKV = append(shKV, f+":o")
				unKV = append(unKV, f+":f()")
			}
			sh := "(function(){var o=(" + cg.maker() + ")();return {" + strings.Join(shKV, ",") + "}})()"
			un := "(function(){var f=" + cg.maker() + ";return {" + strings.Join(unKV, ",") + "}})()"
			p.meta[id] = &caseMeta{Dir: "js2go", Kind: "shared(cyclic " + cg.name + ")", Type: "js:shared(cyclic " + cg.name + ") read as " + ct + " via " + recvPaths[q], Path: -1, Recv: q, Class: ct, Exact: true, Lit: clipN(sh, 400)}
			var b strings.Builder
			fmt.Fprintf(&b, "\ttry(%q, func() {\n\t\tg := rcv_%s(%d, mk(%s))\n\t\tu := rcv_%s(%d, mk(%s))\n", id, ct, q, goQuote(sh), ct, q, goQuote(un))
			for _, f := range fieldsOf[ct] {
				var gs, us string
				if f == "F" {
					fn := map[string]string{"alCycA": "shX", "alCycB": "shY"}[ct]
					gs, us = fmt.Sprintf("%s(g.F, %d)", fn, D), fmt.Sprintf("%s(u.F, %d)", fn, D)
				} else {
					gs, us = fmt.Sprintf(showOf[f], "g", D), fmt.Sprintf(showOf[f], "u", D)
				}
				fmt.Fprintf(&b, "\t\tchk(%q, %s, %s)\n", id+".u"+f, gs, us)
				p.checks[id+".u"+f] = true
			}
			fmt.Fprintf(&b, "\t\tchk(%q, shRF(g.B, %d), %s)\n", id+".tB", D, goQuote(cg.unrollF(0, D)))
			fmt.Fprintf(&b, "\t\tchk(%q, shPF(g.G, %d), %s)\n", id+".tG", D, goQuote("&"+cg.unrollF(0, D)))
			fmt.Fprintf(&b, "\t\tchk(%q, shAnyD(g.C, %d), %s)\n", id+".tC", D, goQuote(cg.unrollAny(0, D)))
			fmt.Fprintf(&b, "\t\tchk(%q, shAnyD(mk(%s).Interface(), %d), %s)\n", id+".tI", goQuote("("+cg.maker()+")()"), D, goQuote(cg.unrollAny(0, D)))
			for _, c := range []string{".tB", ".tG", ".tC", ".tI"} {
				p.checks[id+c] = true
			}
			b.WriteString("\t})\n")
			p.body = append(p.body, b.String())
		}
	}
	// a cycle made of plain objects only, read at a recursive map type, at map[string]any and at
	// map[string]map[string]any in one conversion
	for q := range recvPaths {
		id := fmt.Sprintf("y%d", len(p.ids))
		p.ids = append(p.ids, id)
		mk := "function(){var o={};o.a=o;o.b={c:o,d:{}};return o}"
		sh := "(function(){var o=(" + mk + ")();return {M:o,N:o,O:o,P:o}})()"
		un := "(function(){var f=" + mk + ";return {M:f(),N:f(),O:f(),P:f()}})()"
		p.meta[id] = &caseMeta{Dir: "js2go", Kind: "shared(cyclic plain objects)", Type: "js:shared(cyclic plain objects) read as alCycM via " + recvPaths[q], Path: -1, Recv: q, Class: "alCycM", Exact: true, Lit: sh}
		var b strings.Builder
		fmt.Fprintf(&b, "\ttry(%q, func() {\n\t\tg := rcv_alCycM(%d, mk(%s))\n\t\tu := rcv_alCycM(%d, mk(%s))\n", id, q, goQuote(sh), q, goQuote(un))
		fmt.Fprintf(&b, "\t\tchk(%q, shRM(g.M, %d), shRM(u.M, %d))\n", id+".uM", D, D)
		fmt.Fprintf(&b, "\t\tchk(%q, shAnyD(g.N, %d), shAnyD(u.N, %d))\n", id+".uN", D, D)
		fmt.Fprintf(&b, "\t\tchk(%q, shMM(g.O, %d), shMM(u.O, %d))\n", id+".uO", D, D)
		fmt.Fprintf(&b, "\t\tchk(%q, shMR(g.P, %d), shMR(u.P, %d))\n", id+".uP", D, D)
		// o = {a: o, b: {c: o, d: {}}}
		var unroll func(d int) string
		unroll = func(d int) string {
			if d == 0 {
				return "~"
			}
			bb := "~"
			if d-1 > 0 {
				dd := "~"
				if d-2 > 0 {
					dd = "map{}"
				}
				bb = "map{" + shS("c") + ":" + unroll(d-2) + "," + shS("d") + ":" + dd + "}"
			}
			return "map{" + shS("a") + ":" + unroll(d-1) + "," + shS("b") + ":" + bb + "}"
		}
		fmt.Fprintf(&b, "\t\tchk(%q, shAnyD(g.N, %d), %s)\n", id+".tN", D, goQuote(unroll(D)))
		for _, c := range []string{".uM", ".uN", ".uO", ".uP", ".tN"} {
			p.checks[id+c] = true
		}
		b.WriteString("\t})\n")
		p.body = append(p.body, b.String())
	}
	// undocumented: cycles that pass through an Array only
	p.addObserve("cyclic-object-via-array.Interface()", "(function(){var o={L:[]};o.L.push(o);return o})()", nil, 0)
}
