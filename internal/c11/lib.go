package c11

// progLib is the helper source shared by every generated C11 workload program (file zz_c11lib.go).
// The harness mirrors the show functions in types.go (shS, shF64, ShowAny, …).
const progLib = `package main

import (
	"math"

	"github.com/gopherjs/gopherjs/js"
)

var _ = math.Float64bits

// qq renders a string as printable ASCII; every byte outside 0x21..0x7e and \ " ; is escaped.
func qq(s string) string {
	out := make([]byte, 0, len(s)+2)
	for i := 0; i < len(s); i++ {
		c := s[i]
		if c < 0x21 || c > 0x7e || c == '\\' || c == '"' || c == ';' {
			out = append(out, '\\', 'x', hexdigits[c>>4], hexdigits[c&15])
		} else {
			out = append(out, c)
		}
	}
	return string(out)
}

func shS(s string) string { return "\"" + qq(s) + "\"" }

func shB(b bool) string {
	if b {
		return "t"
	}
	return "f"
}

func shF64(f float64) string {
	if f != f {
		return "nan"
	}
	return hex64(math.Float64bits(f))
}

func shF32(f float32) string {
	if f != f {
		return "nan"
	}
	return hex32(math.Float32bits(f))
}

func sortStrings(a []string) {
	for i := 1; i < len(a); i++ {
		for j := i; j > 0 && a[j] < a[j-1]; j-- {
			a[j], a[j-1] = a[j-1], a[j]
		}
	}
}

func join(es []string) string {
	n := 0
	for _, e := range es {
		n += len(e) + 1
	}
	out := make([]byte, 0, n)
	for i, e := range es {
		if i > 0 {
			out = append(out, ',')
		}
		out = append(out, e...)
	}
	return string(out)
}

// shAny renders the dynamic content of an interface value (what Object.Interface() returned).
func shAny(v any) string {
	switch x := v.(type) {
	case nil:
		return "nil"
	case bool:
		return "bool:" + shB(x)
	case float64:
		return "f64:" + shF64(x)
	case string:
		return "str:" + shS(x)
	case []any:
		es := make([]string, len(x))
		for i, e := range x {
			es[i] = shAny(e)
		}
		return "[]any[" + join(es) + "]"
	case map[string]any:
		ks := make([]string, 0, len(x))
		for k := range x {
			ks = append(ks, k)
		}
		sortStrings(ks)
		es := make([]string, len(ks))
		for i, k := range ks {
			es[i] = shS(k) + ":" + shAny(x[k])
		}
		return "map{" + join(es) + "}"
	case []int8:
		es := make([]string, len(x))
		for i, e := range x {
			es[i] = itoa(int(e))
		}
		return "[]int8[" + join(es) + "]"
	case []int16:
		es := make([]string, len(x))
		for i, e := range x {
			es[i] = itoa(int(e))
		}
		return "[]int16[" + join(es) + "]"
	case []int:
		es := make([]string, len(x))
		for i, e := range x {
			es[i] = itoa(e)
		}
		return "[]int[" + join(es) + "]"
	case []uint8:
		es := make([]string, len(x))
		for i, e := range x {
			es[i] = itoa(int(e))
		}
		return "[]uint8[" + join(es) + "]"
	case []uint16:
		es := make([]string, len(x))
		for i, e := range x {
			es[i] = itoa(int(e))
		}
		return "[]uint16[" + join(es) + "]"
	case []uint:
		es := make([]string, len(x))
		for i, e := range x {
			es[i] = u64s(uint64(e))
		}
		return "[]uint[" + join(es) + "]"
	case []float32:
		es := make([]string, len(x))
		for i, e := range x {
			es[i] = shF32(e)
		}
		return "[]float32[" + join(es) + "]"
	case []float64:
		es := make([]string, len(x))
		for i, e := range x {
			es[i] = shF64(e)
		}
		return "[]float64[" + join(es) + "]"
	case func(...any) *js.Object:
		if x == nil {
			return "func(nil)"
		}
		return "func"
	case *js.Object:
		if x == js.Undefined {
			return "jsobj(undefined)"
		}
		if x == nil {
			return "jsobj(null)"
		}
		return "jsobj"
	case int:
		return "int:" + itoa(x)
	case int64:
		return "int64:" + i64s(x)
	case float32:
		return "f32:" + shF32(x)
	}
	return "?other"
}

func errStr(e any) string {
	switch x := e.(type) {
	case error:
		return x.Error()
	case string:
		return x
	}
	return "?"
}

// chk prints the verdict of one Go-side check. P = as expected, F = differs.
func chk(id, got, want string) {
	if got == want {
		println("P " + id)
	} else {
		println("F " + id + " got=" + got + " want=" + want)
	}
}

// try runs one case; a panic (Go panic or JavaScript exception) is a crash of that case only.
func try(id string, f func()) {
	defer func() {
		if e := recover(); e != nil {
			println("X " + id + " " + qq(errStr(e)))
		}
	}()
	f()
}

func accOne(k byte, r *js.Object) (s string) {
	defer func() {
		if e := recover(); e != nil {
			s = "panic:" + qq(errStr(e))
		}
	}()
	switch k {
	case 'B':
		return shB(r.Bool())
	case 'S':
		return shS(r.String())
	case 'I':
		return itoa(r.Int())
	case 'L':
		return i64s(r.Int64())
	case 'U':
		return u64s(r.Uint64())
	case 'F':
		return shF64(r.Float())
	case 'A':
		return shAny(r.Interface())
	case 'N':
		return itoa(r.Length())
	case 'Z':
		return shB(r == nil)
	case 'D':
		return shB(r == js.Undefined)
	}
	return "?accessor"
}

// acc applies the accessor methods named in spec ("K=want;K=want…") to r and checks each.
// B Bool, S String, I Int, L Int64, U Uint64, F Float, A Interface, N Length, Z ==nil, D ==Undefined.
func acc(id string, r *js.Object, spec string) {
	i := 0
	for i+1 < len(spec) {
		k := spec[i]
		j := i + 2
		for j < len(spec) && spec[j] != ';' {
			j++
		}
		chk(id+"."+string(rune(k)), accOne(k, r), spec[i+2:j])
		i = j + 1
	}
}

// accDet applies the accessors named in ks to two values that must behave identically
// (determinism of conversions the documentation does not pin down).
func accDet(id string, a, b *js.Object, ks string) {
	for i := 0; i < len(ks); i++ {
		chk(id+".det"+string(rune(ks[i])), accOne(ks[i], b), accOne(ks[i], a))
	}
}

var vpFn = js.Global.Get("__vp")
var boxCtor = js.Global.Get("__VPBox")
var jsArr = js.Global.Get("Array").New(8)
var dynKey = "kéy" // non-constant, non-ASCII property key (Set/Get through $externalize(key, $String))

func newObj() *js.Object { return js.Global.Get("Object").New() }

func mk(code string) *js.Object { return js.Global.Call("__mk", code) }

func ident(x *js.Object) *js.Object { return x }
`
