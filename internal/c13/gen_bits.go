package c13

import (
	"fmt"
	"math/rand"
	"strings"
)

// math/bits: every function. 8- and 16-bit arguments exhaustively, boundary grid + PRNG for
// 32/64 bits. The `uint` variants are 32 bits wide under GopherJS; their reference is the
// explicit 32-bit variant on the native side (wrappers selected by build tag), which is what
// package bits specifies for UintSize == 32.

func uintGrid(bitsN int, r *rand.Rand, extra int) []uint64 {
	seen := map[uint64]bool{}
	var out []uint64
	mask := ^uint64(0)
	if bitsN < 64 {
		mask = uint64(1)<<uint(bitsN) - 1
	}
	add := func(v uint64) {
		v &= mask
		if !seen[v] {
			seen[v] = true
			out = append(out, v)
		}
	}
	for _, k := range []uint64{0, 1, 2, 3, 5, 7, 10, 255, 256, 65535, 65536, 65537} {
		add(k)
		add(-k)
	}
	for b := uint(0); b < 64; b++ {
		p := uint64(1) << b
		add(p)
		add(p - 1)
		add(p + 1)
		add(^p)
	}
	for _, p := range []uint64{0x5555555555555555, 0xaaaaaaaaaaaaaaaa, 0x00000000ffffffff, 0xffffffff00000000, 0x0000ffff0000ffff, 0x7fffffff80000000,
		0x0123456789abcdef, 0xfedcba9876543210, 0x8000000000000001, 0x00ff00ff00ff00ff, 0x0f0f0f0f0f0f0f0f, 0x3333333333333333, 0x80000000, 0x7fffffff, 0xffff0000, 0x0000ffff} {
		add(p)
		add(p >> 32)
	}
	for i := 0; i < extra; i++ {
		v := r.Uint64()
		if r.Intn(3) == 0 {
			v >>= uint(r.Intn(64))
		}
		add(v)
	}
	return out
}

func ulits(name, typ string, vs []uint64) string {
	var b strings.Builder
	fmt.Fprintf(&b, "var %s = []%s{", name, typ)
	for i, v := range vs {
		if i%8 == 0 {
			b.WriteString("\n\t")
		}
		fmt.Fprintf(&b, "%#x, ", v)
	}
	b.WriteString("\n}\n\n")
	return b.String()
}

const bitsImplJS = `//go:build gopherjs

package main

import "math/bits"

func uSize() int                      { return bits.UintSize }
func uLeadingZeros(x uint32) int      { return bits.LeadingZeros(uint(x)) }
func uTrailingZeros(x uint32) int     { return bits.TrailingZeros(uint(x)) }
func uOnesCount(x uint32) int         { return bits.OnesCount(uint(x)) }
func uLen(x uint32) int               { return bits.Len(uint(x)) }
func uReverse(x uint32) uint32        { return uint32(bits.Reverse(uint(x))) }
func uReverseBytes(x uint32) uint32   { return uint32(bits.ReverseBytes(uint(x))) }
func uRotateLeft(x uint32, k int) uint32 { return uint32(bits.RotateLeft(uint(x), k)) }
func uAdd(x, y, c uint32) (uint32, uint32) {
	s, co := bits.Add(uint(x), uint(y), uint(c))
	return uint32(s), uint32(co)
}
func uSub(x, y, c uint32) (uint32, uint32) {
	s, co := bits.Sub(uint(x), uint(y), uint(c))
	return uint32(s), uint32(co)
}
func uMul(x, y uint32) (uint32, uint32) {
	h, l := bits.Mul(uint(x), uint(y))
	return uint32(h), uint32(l)
}
func uDiv(hi, lo, y uint32) (uint32, uint32) {
	q, r := bits.Div(uint(hi), uint(lo), uint(y))
	return uint32(q), uint32(r)
}
func uRem(hi, lo, y uint32) uint32 { return uint32(bits.Rem(uint(hi), uint(lo), uint(y))) }
`

const bitsImplNative = `//go:build !gopherjs

package main

import "math/bits"

func uSize() int                      { return 32 }
func uLeadingZeros(x uint32) int      { return bits.LeadingZeros32(x) }
func uTrailingZeros(x uint32) int     { return bits.TrailingZeros32(x) }
func uOnesCount(x uint32) int         { return bits.OnesCount32(x) }
func uLen(x uint32) int               { return bits.Len32(x) }
func uReverse(x uint32) uint32        { return bits.Reverse32(x) }
func uReverseBytes(x uint32) uint32   { return bits.ReverseBytes32(x) }
func uRotateLeft(x uint32, k int) uint32 { return bits.RotateLeft32(x, k) }
func uAdd(x, y, c uint32) (uint32, uint32) { return bits.Add32(x, y, c) }
func uSub(x, y, c uint32) (uint32, uint32) { return bits.Sub32(x, y, c) }
func uMul(x, y uint32) (uint32, uint32)    { return bits.Mul32(x, y) }
func uDiv(hi, lo, y uint32) (uint32, uint32) { return bits.Div32(hi, lo, y) }
func uRem(hi, lo, y uint32) uint32         { return bits.Rem32(hi, lo, y) }
`

const bitsLib = `package main

import "math/bits"

func rnd64(r *rng) uint64 {
	v := r.next()
	c := r.next()
	switch c & 3 {
	case 0:
		v >>= (c >> 2) % 64
	case 1:
		v = ^(v >> ((c >> 2) % 64))
	}
	return v
}
func rnd32(r *rng) uint32 {
	v := uint32(r.next() >> 17)
	c := r.next()
	switch c & 3 {
	case 0:
		v >>= (c >> 2) % 32
	case 1:
		v = ^(v >> ((c >> 2) % 32))
	}
	return v
}

func div32(hi, lo, y uint32) (q, r uint32, p string) {
	defer func() {
		if e := recover(); e != nil {
			p = recovered(e)
		}
	}()
	q, r = bits.Div32(hi, lo, y)
	return
}
func rem32(hi, lo, y uint32) (r uint32, p string) {
	defer func() {
		if e := recover(); e != nil {
			p = recovered(e)
		}
	}()
	r = bits.Rem32(hi, lo, y)
	return
}
func div64(hi, lo, y uint64) (q, r uint64, p string) {
	defer func() {
		if e := recover(); e != nil {
			p = recovered(e)
		}
	}()
	q, r = bits.Div64(hi, lo, y)
	return
}
func rem64(hi, lo, y uint64) (r uint64, p string) {
	defer func() {
		if e := recover(); e != nil {
			p = recovered(e)
		}
	}()
	r = bits.Rem64(hi, lo, y)
	return
}
func divU(hi, lo, y uint32) (q, r uint32, p string) {
	defer func() {
		if e := recover(); e != nil {
			p = recovered(e)
		}
	}()
	q, r = uDiv(hi, lo, y)
	return
}
func remU(hi, lo, y uint32) (r uint32, p string) {
	defer func() {
		if e := recover(); e != nil {
			p = recovered(e)
		}
	}()
	r = uRem(hi, lo, y)
	return
}

var rotK = []int{-2147483647, -129, -65, -64, -63, -33, -32, -31, -17, -16, -15, -9, -8, -7, -1, 0, 1, 7, 8, 9, 15, 16, 17, 31, 32, 33, 63, 64, 65, 129, 2147483647}
`

func bitsPrograms(r *rand.Rand, nrnd int) []*tprog {
	var out []*tprog
	seed := func() string { return fmt.Sprintf("%d", r.Uint64()|1) }
	mk := func(name string) *tprog {
		t := newTprog(name)
		if name != "bits-uint" {
			t.imports["math/bits"] = true
		}
		t.files["zz_bitslib.go"] = bitsLib
		t.files["impl_js.go"] = bitsImplJS
		t.files["impl_native.go"] = bitsImplNative
		out = append(out, t)
		return t
	}
	// ---- 8 and 16 bit: exhaustive
	{
		t := mk("bits-8-16")
		for _, w := range []string{"8", "16"} {
			typ := "uint" + w
			max := "255"
			if w == "16" {
				max = "65535"
			}
			loop := fmt.Sprintf("for xi := 0; xi <= %s; xi++ {\n\t\tx := %s(xi)", max, typ)
			for _, fn := range []string{"LeadingZeros", "TrailingZeros", "OnesCount", "Len"} {
				t.block("bits."+fn+w+"/exhaustive", loop, "r := bits."+fn+w+"(x)", "d.wi(r)", `itoa(xi) + " -> " + itoa(r)`, 4099, 1)
			}
			rev := []string{"Reverse"}
			if w == "16" {
				rev = append(rev, "ReverseBytes")
			}
			for _, fn := range rev {
				t.block("bits."+fn+w+"/exhaustive", loop, "r := bits."+fn+w+"(x)", "d.w(uint32(r))", `itoa(xi) + " -> " + itoa(int(r))`, 4099, 1)
			}
			t.block("bits.RotateLeft"+w+"/exhaustive", loop+"\n\tfor _, k := range rotK {", "r := bits.RotateLeft"+w+"(x, k)", "d.w(uint32(r))", `itoa(xi) + " " + itoa(k) + " -> " + itoa(int(r))`, 60013, 2)
		}
	}
	// ---- 32 bit, 64 bit and uint
	type width struct {
		w, typ, rnd, pfx, hex string
		grid                  []uint64
	}
	g32 := uintGrid(32, r, 10)
	g64 := uintGrid(64, r, 10)
	// small grids for triples
	small := func(g []uint64, n int) []uint64 {
		if len(g) <= n {
			return g
		}
		out := append([]uint64{}, g[:n/2]...)
		step := (len(g) - n/2) / (n - n/2)
		for i := n / 2; i < len(g) && len(out) < n; i += step {
			out = append(out, g[i])
		}
		return out
	}
	for _, wd := range []width{
		{"32", "uint32", "rnd32(rg)", "bits.", "hex32", g32},
		{"64", "uint64", "rnd64(rg)", "bits.", "hex64", g64},
		{"", "uint32", "rnd32(rg)", "u", "hex32", g32}, // uint variants through the wrappers
	} {
		name := "bits-" + wd.w
		if wd.w == "" {
			name = "bits-uint"
		}
		t := mk(name)
		t.pre.WriteString(ulits("grid", wd.typ, wd.grid))
		t.pre.WriteString(ulits("gridS", wd.typ, small(wd.grid, 44)))
		dn := func(fn string) string { // digest name
			if wd.w == "" {
				return "bits." + fn + "(uint)"
			}
			return "bits." + fn + wd.w
		}
		call := func(fn string) string { return wd.pfx + fn + wd.w }
		dw := "d.w(r)"
		if wd.w == "64" {
			dw = "d.w64(r)"
		}
		dw2 := strings.ReplaceAll(dw, "(r)", "(r2)")
		h := wd.hex
		rndOpen := func(vars string) string {
			return fmt.Sprintf("rg := &rng{%s}\n\tfor i := 0; i < %d; i++ {\n\t\t%s", seed(), nrnd, vars)
		}
		if wd.w == "" {
			t.block("bits.UintSize/const", "for i := 0; i < 1; i++ {", "r := uSize()", "d.wi(r)", `"-> " + itoa(r)`, 1, 1)
		}
		for _, fn := range []string{"LeadingZeros", "TrailingZeros", "OnesCount", "Len"} {
			t.block(dn(fn)+"/grid", "for _, x := range grid {", "r := "+call(fn)+"(x)", "d.wi(r)", h+`(x) + " -> " + itoa(r)`, 23, 1)
			t.block(dn(fn)+"/rnd", rndOpen("x := "+wd.rnd), "r := "+call(fn)+"(x)", "d.wi(r)", h+`(x) + " -> " + itoa(r)`, nrnd/5+1, 1)
		}
		for _, fn := range []string{"Reverse", "ReverseBytes"} {
			t.block(dn(fn)+"/grid", "for _, x := range grid {", "r := "+call(fn)+"(x)", dw, h+`(x) + " -> " + `+h+`(r)`, 23, 1)
			t.block(dn(fn)+"/rnd", rndOpen("x := "+wd.rnd), "r := "+call(fn)+"(x)", dw, h+`(x) + " -> " + `+h+`(r)`, nrnd/5+1, 1)
		}
		t.block(dn("RotateLeft")+"/grid", "for _, x := range grid {\n\tfor _, k := range rotK {", "r := "+call("RotateLeft")+"(x, k)", dw, h+`(x) + " " + itoa(k) + " -> " + `+h+`(r)`, 503, 2)
		t.block(dn("RotateLeft")+"/rnd", rndOpen("x := "+wd.rnd+"\n\t\tk := int(rg.next()%400) - 200"), "r := "+call("RotateLeft")+"(x, k)", dw, h+`(x) + " " + itoa(k) + " -> " + `+h+`(r)`, nrnd/5+1, 1)
		for _, fn := range []string{"Add", "Sub"} {
			t.block(dn(fn)+"/grid", "for _, x := range grid {\n\tfor _, y := range grid {\n\tfor c := 0; c < 2; c++ {", "r, r2 := "+call(fn)+"(x, y, "+wd.typ+"(c))", dw+"\n\t\t"+dw2, h+`(x) + " " + `+h+`(y) + " " + itoa(c) + " -> " + `+h+`(r) + " " + `+h+`(r2)`, 9973, 3)
			t.block(dn(fn)+"/rnd", rndOpen("x, y := "+wd.rnd+", "+wd.rnd+"\n\t\tc := int(rg.next() & 1)"), "r, r2 := "+call(fn)+"(x, y, "+wd.typ+"(c))", dw+"\n\t\t"+dw2, h+`(x) + " " + `+h+`(y) + " " + itoa(c) + " -> " + `+h+`(r) + " " + `+h+`(r2)`, nrnd/5+1, 1)
		}
		t.block(dn("Mul")+"/grid", "for _, x := range grid {\n\tfor _, y := range grid {", "r, r2 := "+call("Mul")+"(x, y)", dw+"\n\t\t"+dw2, h+`(x) + " " + `+h+`(y) + " -> " + `+h+`(r) + " " + `+h+`(r2)`, 4999, 2)
		t.block(dn("Mul")+"/rnd", rndOpen("x, y := "+wd.rnd+", "+wd.rnd), "r, r2 := "+call("Mul")+"(x, y)", dw+"\n\t\t"+dw2, h+`(x) + " " + `+h+`(y) + " -> " + `+h+`(r) + " " + `+h+`(r2)`, nrnd/5+1, 1)
		// Div / Rem incl. panics
		dv, rm := "div"+wd.w, "rem"+wd.w
		if wd.w == "" {
			dv, rm = "divU", "remU"
		}
		showD := h + `(hi) + " " + ` + h + `(lo) + " " + ` + h + `(y) + " -> " + ` + h + `(r) + " " + ` + h + `(r2) + " " + q(p)`
		showR := h + `(hi) + " " + ` + h + `(lo) + " " + ` + h + `(y) + " -> " + ` + h + `(r) + " " + q(p)`
		grid3 := "for _, hi := range gridS {\n\tfor _, lo := range gridS {\n\tfor _, y := range gridS {"
		// shaped PRNG triples: y random; hi < y in half the cases (no overflow), raw otherwise; y == 0 sometimes
		rnd3 := rndOpen("hi, lo, y := " + wd.rnd + ", " + wd.rnd + ", " + wd.rnd + "\n\t\tc := rg.next()\n\t\tif c%16 == 0 {\n\t\t\ty = 0\n\t\t} else if c&1 == 0 && y != 0 {\n\t\t\thi %= y\n\t\t}")
		t.block(dn("Div")+"/grid", grid3, "r, r2, p := "+dv+"(hi, lo, y)", dw+"\n\t\t"+dw2+"\n\t\td.ws(p)", showD, 9973, 3)
		t.block(dn("Div")+"/rnd", rnd3, "r, r2, p := "+dv+"(hi, lo, y)", dw+"\n\t\t"+dw2+"\n\t\td.ws(p)", showD, nrnd/5+1, 1)
		t.block(dn("Rem")+"/grid", grid3, "r, p := "+rm+"(hi, lo, y)", dw+"\n\t\td.ws(p)", showR, 9973, 3)
		t.block(dn("Rem")+"/rnd", rnd3, "r, p := "+rm+"(hi, lo, y)", dw+"\n\t\td.ws(p)", showR, nrnd/5+1, 1)
	}
	return out
}
