package c13

import (
	"fmt"
	"math/rand"
	"strings"
)

// nosync versus sync. ONE program source; `impl_js.go` (gopherjs tag) aliases the primitives to
// github.com/gopherjs/gopherjs/nosync, `impl_native.go` to package sync. The program interprets
// harness-generated operation histories that are uncontended by construction (the generator
// tracks the model state and only emits enabled operations) and prints one line per step:
//
//	H <prim> <hist> <client> <step> <op> <a> <b> -> <result>   compared with the native run AND model-checked
//	M …                                                        model-checked on each side only (Pool: sync.Pool may drop items)
//	J …                                                        executed under GopherJS only (would block / be fatal under sync), model-checked
//
// J steps are terminal: contended Lock/RLock/Wait/recursive Do and unlock-of-unlocked misuse.

const nosyncImplJS = `//go:build gopherjs

package main

import sy "github.com/gopherjs/gopherjs/nosync"

type (
	Mutex     = sy.Mutex
	RWMutex   = sy.RWMutex
	WaitGroup = sy.WaitGroup
	Once      = sy.Once
	Map       = sy.Map
	Pool      = sy.Pool
)

const isJS = true
`

const nosyncImplNative = `//go:build !gopherjs

package main

import sy "sync"

type (
	Mutex     = sy.Mutex
	RWMutex   = sy.RWMutex
	WaitGroup = sy.WaitGroup
	Once      = sy.Once
	Map       = sy.Map
	Pool      = sy.Pool
)

const isJS = false
`

const nosyncMain = `package main

type step struct {
	op   int
	a, b int
	js   bool
}

type hist struct {
	prim    int
	id      int
	withNew bool
	steps   []step
}

const (
	pMutex = iota
	pRWMutex
	pWaitGroup
	pOnce
	pMap
	pPool
)

var primNames = []string{"mutex", "rwmutex", "waitgroup", "once", "map", "pool"}

func recovered(e interface{}) string {
	if e == nil {
		return "nil"
	}
	if re, ok := e.(interface {
		error
		RuntimeError()
	}); ok {
		return "RE:" + re.Error()
	}
	if er, ok := e.(error); ok {
		return "E:" + er.Error()
	}
	if s, ok := e.(string); ok {
		return "S:" + s
	}
	return "?"
}

// try runs f and renders a panic as its result.
func try(f func() string) (res string) {
	defer func() {
		if e := recover(); e != nil {
			res = "panic " + recovered(e)
		}
	}()
	return f()
}

type pt struct{ a, b int }

var keys = []interface{}{1, 2, 3, "a", "b", int64(1), pt{1, 2}, 1.5, []int{1}}
var keyNames = []string{"i1", "i2", "i3", "sa", "sb", "l1", "p12", "f1.5", "slice"}

func keyName(k interface{}) string {
	for i := 0; i < len(keys)-1; i++ {
		if keys[i] == k {
			return keyNames[i]
		}
	}
	return "?"
}

func val(v interface{}) string {
	switch x := v.(type) {
	case nil:
		return "nil"
	case int:
		return "v:" + itoa(x)
	case string:
		return x
	}
	return "?"
}

func sortStrings(s []string) {
	for i := 1; i < len(s); i++ {
		for j := i; j > 0 && s[j] < s[j-1]; j-- {
			s[j], s[j-1] = s[j-1], s[j]
		}
	}
}

var opNames = [][]string{
	{"Lock", "Unlock"},
	{"Lock", "Unlock", "RLock", "RUnlock"},
	{"Add", "Done", "Wait"},
	{"Do", "DoPanic", "DoRecursive"},
	{"Load", "Store", "LoadOrStore", "Delete", "Range", "RangeStop"},
	{"Get", "Put"},
}

func run(h hist) {
	var mu [2]Mutex
	var rw [2]RWMutex
	var wg WaitGroup
	var once Once
	var m Map
	var pool Pool
	counter := 0
	newCtr := 0
	if h.withNew {
		pool.New = func() interface{} {
			newCtr++
			return "new:" + itoa(newCtr)
		}
	}
	for i, s := range h.steps {
		if s.js && !isJS {
			break
		}
		s := s
		res := try(func() string {
			switch h.prim {
			case pMutex:
				if s.op == 0 {
					mu[s.a].Lock()
				} else {
					mu[s.a].Unlock()
				}
				return "ok"
			case pRWMutex:
				switch s.op {
				case 0:
					rw[s.a].Lock()
				case 1:
					rw[s.a].Unlock()
				case 2:
					rw[s.a].RLock()
				case 3:
					rw[s.a].RUnlock()
				}
				return "ok"
			case pWaitGroup:
				switch s.op {
				case 0:
					wg.Add(s.a)
				case 1:
					wg.Done()
				case 2:
					wg.Wait()
				}
				return "ok"
			case pOnce:
				called := false
				switch s.op {
				case 0:
					once.Do(func() { called = true; counter += s.a })
				case 1:
					once.Do(func() { called = true; counter += s.a; panic("boom") })
				case 2:
					once.Do(func() { called = true; once.Do(func() { counter += 1000 }) })
				}
				if called {
					return "called:" + itoa(counter)
				}
				return "not-called:" + itoa(counter)
			case pMap:
				k := keys[s.a]
				switch s.op {
				case 0:
					v, ok := m.Load(k)
					return val(v) + "," + btoa(ok)
				case 1:
					m.Store(k, s.b)
					return "ok"
				case 2:
					v, loaded := m.LoadOrStore(k, s.b)
					return val(v) + "," + btoa(loaded)
				case 3:
					m.Delete(k)
					return "ok"
				case 4:
					var out []string
					m.Range(func(k, v interface{}) bool {
						out = append(out, keyName(k)+"="+val(v))
						return true
					})
					sortStrings(out)
					r := "["
					for _, e := range out {
						r += e + ";"
					}
					return r + "]"
				case 5:
					n := 0
					m.Range(func(k, v interface{}) bool {
						n++
						return n < s.b
					})
					return "visited:" + itoa(n)
				}
			case pPool:
				if s.op == 0 {
					return val(pool.Get())
				}
				if s.a < 0 {
					pool.Put(nil)
				} else {
					pool.Put(s.a)
				}
				return "ok"
			}
			return "?"
		})
		tag := "H"
		if h.prim == pPool {
			tag = "M"
		}
		if s.js {
			tag = "J"
		}
		println(tag + " " + primNames[h.prim] + " " + itoa(h.id) + " 0 " + itoa(i) + " " + opNames[h.prim][s.op] + " " + itoa(s.a) + " " + itoa(s.b) + " -> " + res)
		if s.js {
			break
		}
	}
}

func main() {
	// data: per history prim, id, withNew, nsteps, then (op, a, b, js) per step
	i, n := 0, 0
	for i < len(data) {
		h := hist{prim: int(data[i]), id: int(data[i+1]), withNew: data[i+2] != 0}
		ns := int(data[i+3])
		i += 4
		h.steps = make([]step, ns)
		for k := range h.steps {
			h.steps[k] = step{int(data[i]), int(data[i+1]), int(data[i+2]), data[i+3] != 0}
			i += 4
		}
		run(h)
		n++
	}
	println("END " + itoa(n))
}
`

// ---- harness-side history generation

type nStep struct {
	Op   int
	A, B int
	JS   bool
}

type nHist struct {
	Prim    int
	ID      int
	WithNew bool
	Steps   []nStep
}

const (
	pMutex = iota
	pRWMutex
	pWaitGroup
	pOnce
	pMap
	pPool
)

var primNames = []string{"mutex", "rwmutex", "waitgroup", "once", "map", "pool"}

type nosyncJob struct {
	name  string
	hists []nHist
}

const nKeys = 8 // hashable keys of the in-program table; index 8 is the unhashable slice key

// genHist generates one uncontended history of the primitive, optionally ending in a JS-only
// terminal step (contended or misuse).
func genHist(r *rand.Rand, prim, id, maxSteps int) nHist {
	h := nHist{Prim: prim, ID: id}
	n := 1 + r.Intn(maxSteps)
	terminal := r.Intn(10) < 7
	switch prim {
	case pMutex:
		var locked [2]bool
		for i := 0; i < n; i++ {
			a := r.Intn(2)
			if locked[a] {
				h.Steps = append(h.Steps, nStep{Op: 1, A: a})
			} else {
				h.Steps = append(h.Steps, nStep{Op: 0, A: a})
			}
			locked[a] = !locked[a]
		}
		if terminal {
			a := r.Intn(2)
			// Lock while locked (contended) or Unlock while unlocked (misuse)
			op := 1
			if locked[a] {
				op = 0
			}
			h.Steps = append(h.Steps, nStep{Op: op, A: a, JS: true})
		}
	case pRWMutex:
		var w [2]bool
		var rd [2]int
		for i := 0; i < n; i++ {
			a := r.Intn(2)
			var ops []int
			if !w[a] && rd[a] == 0 {
				ops = append(ops, 0, 2, 2)
			}
			if w[a] {
				ops = append(ops, 1)
			}
			if rd[a] > 0 {
				ops = append(ops, 3, 3)
				if rd[a] < 5 {
					ops = append(ops, 2)
				}
			}
			op := ops[r.Intn(len(ops))]
			switch op {
			case 0:
				w[a] = true
			case 1:
				w[a] = false
			case 2:
				rd[a]++
			case 3:
				rd[a]--
			}
			h.Steps = append(h.Steps, nStep{Op: op, A: a})
		}
		if terminal {
			// choose the kind of terminal step first, then drive the mutex into the state it needs
			a := r.Intn(2)
			kinds := []struct {
				need string // "W" write-locked, "R" read-locked, "F" free
				op   int
			}{{"W", 0}, {"W", 2}, {"W", 3}, {"R", 0}, {"R", 1}, {"F", 1}, {"F", 3}}
			k := kinds[r.Intn(len(kinds))]
			if w[a] && k.need != "W" {
				h.Steps = append(h.Steps, nStep{Op: 1, A: a})
				w[a] = false
			}
			if rd[a] > 0 && k.need != "R" {
				for ; rd[a] > 0; rd[a]-- {
					h.Steps = append(h.Steps, nStep{Op: 3, A: a})
				}
			}
			if k.need == "W" && !w[a] {
				h.Steps = append(h.Steps, nStep{Op: 0, A: a})
			}
			if k.need == "R" && rd[a] == 0 {
				for i := 1 + r.Intn(3); i > 0; i-- {
					h.Steps = append(h.Steps, nStep{Op: 2, A: a})
				}
			}
			h.Steps = append(h.Steps, nStep{Op: k.op, A: a, JS: true})
		}
	case pWaitGroup:
		cnt := 0
		for i := 0; i < n; i++ {
			switch k := r.Intn(6); {
			case k < 2:
				d := r.Intn(5)
				if r.Intn(4) == 0 && cnt > 0 {
					d = -r.Intn(cnt + 1)
				}
				cnt += d
				h.Steps = append(h.Steps, nStep{Op: 0, A: d})
			case k < 4 && cnt > 0:
				cnt--
				h.Steps = append(h.Steps, nStep{Op: 1})
			case cnt == 0:
				h.Steps = append(h.Steps, nStep{Op: 2})
			default:
				cnt--
				h.Steps = append(h.Steps, nStep{Op: 1})
			}
		}
		if terminal {
			switch {
			case cnt > 0 && r.Intn(2) == 0:
				h.Steps = append(h.Steps, nStep{Op: 2, JS: true}) // Wait with a non-zero counter: sync blocks
			case r.Intn(2) == 0:
				// negative counter: panics in both worlds (but leaves sync's state unusable: terminal)
				h.Steps = append(h.Steps, nStep{Op: 0, A: -cnt - 1 - r.Intn(3)})
			case cnt == 0:
				h.Steps = append(h.Steps, nStep{Op: 1}) // Done at zero: negative counter panic in both
			default:
				h.Steps = append(h.Steps, nStep{Op: 2, JS: true})
			}
		}
	case pOnce:
		if n > 6 {
			n = 1 + n%6
		}
		for i := 0; i < n; i++ {
			op := 0
			if r.Intn(4) == 0 {
				op = 1
			}
			h.Steps = append(h.Steps, nStep{Op: op, A: 1 + r.Intn(9)})
		}
		if terminal && r.Intn(2) == 0 {
			// recursive Do: deadlocks under sync. As the FIRST Do it must panic under nosync; later it is a no-op.
			if r.Intn(3) != 0 {
				h.Steps = []nStep{{Op: 2, A: 1, JS: true}}
			} else {
				h.Steps = append(h.Steps, nStep{Op: 2, A: 1, JS: true})
			}
		}
	case pMap:
		for i := 0; i < n; i++ {
			k := r.Intn(nKeys)
			op := r.Intn(12)
			if op < 10 && r.Intn(25) == 0 {
				k = nKeys // the unhashable key: both worlds panic with the runtime's error
			}
			switch {
			case op < 3:
				h.Steps = append(h.Steps, nStep{Op: 0, A: k})
			case op < 6:
				h.Steps = append(h.Steps, nStep{Op: 1, A: k, B: r.Intn(100)})
			case op < 8:
				h.Steps = append(h.Steps, nStep{Op: 2, A: k, B: r.Intn(100)})
			case op < 10:
				h.Steps = append(h.Steps, nStep{Op: 3, A: k})
			case op < 11:
				h.Steps = append(h.Steps, nStep{Op: 4})
			default:
				h.Steps = append(h.Steps, nStep{Op: 5, B: 1 + r.Intn(4)})
			}
		}
		h.Steps = append(h.Steps, nStep{Op: 4})
	case pPool:
		h.WithNew = r.Intn(2) == 0
		next := 1
		for i := 0; i < n; i++ {
			if r.Intn(2) == 0 {
				h.Steps = append(h.Steps, nStep{Op: 0})
			} else if r.Intn(8) == 0 {
				h.Steps = append(h.Steps, nStep{Op: 1, A: -1})
			} else {
				h.Steps = append(h.Steps, nStep{Op: 1, A: next})
				next++
			}
		}
	}
	return h
}

func nosyncJobs(r *rand.Rand, nprog, nhist, maxSteps int) []*nosyncJob {
	var out []*nosyncJob
	id := 0
	for p := 0; p < nprog; p++ {
		j := &nosyncJob{name: fmt.Sprintf("nosync-%d", p)}
		for prim := pMutex; prim <= pPool; prim++ {
			for k := 0; k < nhist; k++ {
				id++
				ms := maxSteps
				if k%4 == 0 {
					ms = 4 // short histories: terminal steps in early states
				}
				j.hists = append(j.hists, genHist(r, prim, id, ms))
			}
		}
		out = append(out, j)
	}
	return out
}

func (j *nosyncJob) files() map[string]string {
	// a flat static array compiles fast on both sides (a nested composite literal of 10^5
	// steps does not)
	var b strings.Builder
	b.WriteString("package main\n\nvar data = [...]int32{\n")
	bi := func(v bool) int {
		if v {
			return 1
		}
		return 0
	}
	for _, h := range j.hists {
		fmt.Fprintf(&b, "\t%d, %d, %d, %d,", h.Prim, h.ID, bi(h.WithNew), len(h.Steps))
		for _, s := range h.Steps {
			fmt.Fprintf(&b, " %d, %d, %d, %d,", s.Op, s.A, s.B, bi(s.JS))
		}
		b.WriteString("\n")
	}
	b.WriteString("}\n")
	return map[string]string{"main.go": nosyncMain, "hists.go": b.String(), "impl_js.go": nosyncImplJS, "impl_native.go": nosyncImplNative}
}
