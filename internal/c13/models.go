package c13

import (
	"fmt"
	"sort"
	"strconv"
	"strings"
	"sync"
	"time"

	"github.com/anishathalye/porcupine"

	"verif/internal/core"
	"verif/internal/proglib"
)

// Sequential models of the primitives (state, input, output) -> (legal, next state). The models
// describe package sync's documented behaviour on uncontended operations; for the operations
// that would block or be fatal under sync they describe nosync's documented behaviour (panic
// with the message in nosync's source comments).

type nIn struct {
	Prim int
	Op   string
	A, B int
}

const (
	msgLocked   = "panic S:nosync: mutex is already locked"
	msgUnlocked = "panic S:nosync: unlock of unlocked mutex"
	msgWGNeg    = "panic S:sync: negative WaitGroup counter"
	msgWGWait   = "panic S:sync: WaitGroup counter not zero"
	msgOnceRec  = "panic S:nosync: Do called within f"
	msgUnhash   = "panic RE:runtime error: hash of unhashable type []int"
)

type mutexState [2]bool
type rwState struct {
	W [2]bool
	R [2]int
}
type onceState struct {
	Done bool
	C    int
}
type poolState struct {
	Items   string // sorted, comma separated ids
	WithNew bool
	NewCtr  int
	// WithNew is taken from the first output that reveals it: a "new:k" or "nil" result
	Known bool
}

var keyNames = []string{"i1", "i2", "i3", "sa", "sb", "l1", "p12", "f1.5", "slice"}

func decodeMap(s string) map[string]int {
	m := map[string]int{}
	for _, e := range strings.Split(s, ";") {
		if e == "" {
			continue
		}
		kv := strings.SplitN(e, "=", 2)
		v, _ := strconv.Atoi(kv[1])
		m[kv[0]] = v
	}
	return m
}

func encodeMap(m map[string]int) string {
	ks := make([]string, 0, len(m))
	for k := range m {
		ks = append(ks, k)
	}
	sort.Strings(ks)
	var b strings.Builder
	for _, k := range ks {
		fmt.Fprintf(&b, "%s=%d;", k, m[k])
	}
	return b.String()
}

func initState(prim int, withNew bool) interface{} {
	switch prim {
	case pMutex:
		return mutexState{}
	case pRWMutex:
		return rwState{}
	case pWaitGroup:
		return 0
	case pOnce:
		return onceState{}
	case pMap:
		return ""
	}
	return poolState{WithNew: withNew}
}

// step is the sequential specification.
func step(state, input, output interface{}) (bool, interface{}) {
	in := input.(nIn)
	out := output.(string)
	switch in.Prim {
	case pMutex:
		s := state.(mutexState)
		switch in.Op {
		case "Lock":
			if s[in.A] {
				return out == msgLocked, s
			}
			s[in.A] = true
			return out == "ok", s
		case "Unlock":
			if !s[in.A] {
				return out == msgUnlocked, s
			}
			s[in.A] = false
			return out == "ok", s
		}
	case pRWMutex:
		s := state.(rwState)
		a := in.A
		switch in.Op {
		case "Lock":
			if s.W[a] || s.R[a] > 0 {
				return out == msgLocked, s
			}
			s.W[a] = true
			return out == "ok", s
		case "Unlock":
			if !s.W[a] {
				return out == msgUnlocked, s
			}
			s.W[a] = false
			return out == "ok", s
		case "RLock":
			if s.W[a] {
				return out == msgLocked, s
			}
			s.R[a]++
			return out == "ok", s
		case "RUnlock":
			if s.R[a] == 0 {
				return out == msgUnlocked, s
			}
			s.R[a]--
			return out == "ok", s
		}
	case pWaitGroup:
		n := state.(int)
		switch in.Op {
		case "Add", "Done":
			d := in.A
			if in.Op == "Done" {
				d = -1
			}
			if n+d < 0 {
				return out == msgWGNeg, n + d
			}
			return out == "ok", n + d
		case "Wait":
			if n != 0 {
				return out == msgWGWait, n
			}
			return out == "ok", n
		}
	case pOnce:
		s := state.(onceState)
		if s.Done {
			return out == fmt.Sprintf("not-called:%d", s.C), s
		}
		s.Done = true
		switch in.Op {
		case "Do":
			s.C += in.A
			return out == fmt.Sprintf("called:%d", s.C), s
		case "DoPanic":
			s.C += in.A
			return out == "panic S:boom", s
		case "DoRecursive":
			return out == msgOnceRec, s
		}
	case pMap:
		m := decodeMap(state.(string))
		if in.A == len(keyNames)-1 && in.Op != "Range" && in.Op != "RangeStop" {
			return out == msgUnhash, state
		}
		k := keyNames[in.A]
		switch in.Op {
		case "Load":
			if v, ok := m[k]; ok {
				return out == fmt.Sprintf("v:%d,t", v), state
			}
			return out == "nil,f", state
		case "Store":
			m[k] = in.B
			return out == "ok", encodeMap(m)
		case "LoadOrStore":
			if v, ok := m[k]; ok {
				return out == fmt.Sprintf("v:%d,t", v), state
			}
			m[k] = in.B
			return out == fmt.Sprintf("v:%d,f", in.B), encodeMap(m)
		case "Delete":
			delete(m, k)
			return out == "ok", encodeMap(m)
		case "Range":
			want := "["
			ks := make([]string, 0, len(m))
			for k := range m {
				ks = append(ks, fmt.Sprintf("%s=v:%d", k, m[k]))
			}
			sort.Strings(ks)
			for _, e := range ks {
				want += e + ";"
			}
			return out == want+"]", state
		case "RangeStop":
			n := in.B
			if len(m) < n {
				n = len(m)
			}
			return out == fmt.Sprintf("visited:%d", n), state
		}
	case pPool:
		s := state.(poolState)
		items := map[string]bool{}
		for _, e := range strings.Split(s.Items, ",") {
			if e != "" {
				items[e] = true
			}
		}
		enc := func() string {
			ks := make([]string, 0, len(items))
			for k := range items {
				ks = append(ks, k)
			}
			sort.Strings(ks)
			return strings.Join(ks, ",")
		}
		switch in.Op {
		case "Put":
			if in.A >= 0 {
				items[strconv.Itoa(in.A)] = true
			}
			s.Items = enc()
			return out == "ok", s
		case "Get":
			switch {
			case strings.HasPrefix(out, "v:"):
				id := out[2:]
				if !items[id] {
					return false, s // a value that was never put, or returned twice
				}
				delete(items, id)
				s.Items = enc()
				return true, s
			case strings.HasPrefix(out, "new:"):
				k, _ := strconv.Atoi(out[4:])
				if !s.WithNew || k != s.NewCtr+1 {
					return false, s
				}
				s.NewCtr++
				return true, s
			case out == "nil":
				return !s.WithNew, s
			}
		}
	}
	return false, state
}

func describeState(prim int, s interface{}) string {
	return fmt.Sprintf("%s:%v", primNames[prim], s)
}

func modelFor(prim int, withNew bool) porcupine.Model {
	return porcupine.Model{
		Init:  func() interface{} { return initState(prim, withNew) },
		Step:  step,
		Equal: func(a, b interface{}) bool { return a == b },
		DescribeOperation: func(in, out interface{}) string {
			i := in.(nIn)
			return fmt.Sprintf("%s(%d,%d) -> %s", i.Op, i.A, i.B, out)
		},
		DescribeState: func(s interface{}) string { return fmt.Sprint(s) },
	}
}

// ---- running and judging

type nosyncStats struct {
	mu                sync.Mutex
	programs          int
	histories         int
	stepsCompared     int
	jsOnlySteps       int
	porcOK            int
	porcIllegal       int
	porcUnknown       int
	porcNativeOK      int
	porcNativeIllegal int
	states            map[string]bool
	perPrim           map[string]map[string]int
	reported          map[string]bool // violation keys already reported (one witness per key)
}

// once reports whether key is reported for the first time.
func (s *nosyncStats) once(key string) bool {
	s.mu.Lock()
	defer s.mu.Unlock()
	if s.reported == nil {
		s.reported = map[string]bool{}
	}
	if s.reported[key] {
		return false
	}
	s.reported[key] = true
	return true
}

func newNosyncStats() *nosyncStats {
	return &nosyncStats{states: map[string]bool{}, perPrim: map[string]map[string]int{}}
}

func (s *nosyncStats) distinctStates() int { return len(s.states) }

func (s *nosyncStats) bump(prim, key string, n int) {
	if s.perPrim[prim] == nil {
		s.perPrim[prim] = map[string]int{}
	}
	s.perPrim[prim][key] += n
}

type hLine struct {
	Tag  string
	Prim int
	Hist int
	Cli  int
	Step int
	In   nIn
	Out  string
	Raw  string
}

func parseH(l string) (hLine, bool) {
	// <tag> <prim> <hist> <client> <step> <op> <a> <b> -> <result…>
	i := strings.Index(l, " -> ")
	if i < 0 {
		return hLine{}, false
	}
	fs := strings.Fields(l[:i])
	if len(fs) != 8 {
		return hLine{}, false
	}
	h := hLine{Tag: fs[0], Out: l[i+4:], Raw: l}
	h.Prim = -1
	for p, n := range primNames {
		if n == fs[1] {
			h.Prim = p
		}
	}
	if h.Prim < 0 {
		return hLine{}, false
	}
	h.Hist, _ = strconv.Atoi(fs[2])
	h.Cli, _ = strconv.Atoi(fs[3])
	h.Step, _ = strconv.Atoi(fs[4])
	a, _ := strconv.Atoi(fs[6])
	b, _ := strconv.Atoi(fs[7])
	h.In = nIn{Prim: h.Prim, Op: fs[5], A: a, B: b}
	return h, true
}

// checkHistories groups the lines of one run by history, checks each with porcupine against
// the model and replays the model to localise the first illegal step.
func checkHistories(lines []string, withNew map[int]bool, visit func(prim int, st interface{})) (ok, illegal, unknown int, firstBad string, badLine *hLine) {
	byHist := map[int][]hLine{}
	var order []int
	for _, l := range lines {
		h, good := parseH(l)
		if !good {
			continue
		}
		if _, seen := byHist[h.Hist]; !seen {
			order = append(order, h.Hist)
		}
		byHist[h.Hist] = append(byHist[h.Hist], h)
	}
	for _, id := range order {
		hs := byHist[id]
		prim := hs[0].Prim
		model := modelFor(prim, withNew[id])
		ops := make([]porcupine.Operation, len(hs))
		for i, h := range hs {
			ops[i] = porcupine.Operation{ClientId: h.Cli, Input: h.In, Call: int64(i * 2), Output: h.Out, Return: int64(i*2 + 1)}
		}
		switch porcupine.CheckOperationsTimeout(model, ops, 20*time.Second) {
		case porcupine.Ok:
			ok++
		case porcupine.Unknown:
			unknown++
		default:
			illegal++
			if firstBad == "" {
				st := model.Init()
				var b strings.Builder
				for _, h := range hs {
					good, next := step(st, h.In, h.Out)
					if !good {
						fmt.Fprintf(&b, "  ILLEGAL in state %s: %s\n", describeState(prim, st), h.Raw)
						hc := h
						badLine = &hc
						break
					}
					fmt.Fprintf(&b, "  %s\n", h.Raw)
					st = next
				}
				firstBad = b.String()
			}
		}
		if visit != nil {
			st := model.Init()
			visit(prim, st)
			for _, h := range hs {
				good, next := step(st, h.In, h.Out)
				if !good {
					break
				}
				st = next
				visit(prim, st)
			}
		}
	}
	return
}

func runNosync(c *core.Ctx, ns *nosyncStats, j *nosyncJob) {
	files := proglib.WithLib(j.files())
	p := &core.Program{Name: "c13/" + j.name, Files: files}
	res := c.DiffProgram(p, core.DiffOpt{Node: nodeLong, Quiet: true})
	if res.Verdict == "inconclusive" {
		fmt.Printf("c13: program %s inconclusive: %s\n", j.name, firstLines(res.Diff, 8))
		return
	}
	bundle := func(extra map[string]string) map[string]string {
		m := map[string]string{}
		for k, v := range files {
			m["src/"+k] = v
		}
		for k, v := range extra {
			m[k] = v
		}
		return m
	}
	if len(res.JS) == 0 {
		// compile failure or invalid JS
		c.Violate(j.name, j.name+": "+res.Diff, bundle(nil))
		return
	}
	js, ref := res.JS[0], res.Ref
	withNew := map[int]bool{}
	expectJS := map[int]bool{} // histories that end in a JS-only step
	for _, h := range j.hists {
		withNew[h.ID] = h.WithNew
		if n := len(h.Steps); n > 0 && h.Steps[n-1].JS {
			expectJS[h.ID] = true
		}
	}

	// (i) step-by-step equality with package sync (H lines; outcome)
	filter := func(t core.Trace, tags string) core.Trace {
		out := core.Trace{Outcome: t.Outcome}
		for _, l := range t.Lines {
			if len(l) > 1 && l[1] == ' ' && strings.ContainsRune(tags, rune(l[0])) {
				continue
			}
			out.Lines = append(out.Lines, l)
		}
		return out
	}
	jsH, refH := filter(js, "JM"), filter(ref, "JM")
	if d := core.DiffTrace(jsH, refH, "nosync(js)", "sync(go)"); d != "" {
		key := j.name
		// identify the primitive of the first differing line for a stable key
		for i := 0; i < len(jsH.Lines) && i < len(refH.Lines); i++ {
			if jsH.Lines[i] != refH.Lines[i] {
				if h, ok := parseH(jsH.Lines[i]); ok {
					key = stepKey(h) + "/vs-sync"
				}
				break
			}
		}
		if ns.once(key) {
			c.Violate(key, fmt.Sprintf("%s: nosync under GopherJS differs from package sync on the host in an uncontended history: %s", j.name, d),
				bundle(map[string]string{"js.out": js.String(), "ref.out": ref.String(), "diff.txt": d}))
		}
	}

	// (ii) every history against the sequential model, with porcupine
	ns.mu.Lock()
	defer ns.mu.Unlock()
	okN, illN, unkN, badN, _ := checkHistories(ref.Lines, withNew, nil)
	ns.porcNativeOK += okN
	ns.porcNativeIllegal += illN
	if illN > 0 {
		// the model disagrees with package sync itself: the harness is wrong, not the subject
		c.Inconclusive("model-rejects-native-sync-history")
		fmt.Printf("c13: model rejects a history of package sync (%d, unknown %d):\n%s", illN, unkN, badN)
	}
	okJ, illJ, unkJ, badJ, badLine := checkHistories(js.Lines, withNew, func(prim int, st interface{}) {
		ns.states[describeState(prim, st)] = true
	})
	ns.porcOK += okJ
	ns.porcIllegal += illJ
	ns.porcUnknown += unkJ
	if unkJ > 0 {
		c.Inconclusive("porcupine-unknown")
	}
	if illJ > 0 && illN == 0 {
		key := "nosync/model"
		if badLine != nil {
			key = stepKey(*badLine) + "/model"
		}
		if ns.reported == nil {
			ns.reported = map[string]bool{}
		}
		if !ns.reported[key] { // ns.mu is held here
			ns.reported[key] = true
			c.Violate(key, fmt.Sprintf("%s: %d histor(ies) of nosync under GopherJS are not legal for the sequential model of the primitive (porcupine: Illegal); first:\n%s", j.name, illJ, badJ),
				bundle(map[string]string{"js.out": js.String(), "ref.out": ref.String(), "illegal.txt": badJ}))
		}
	}

	// observation accounting; every JS-only terminal step must have been executed
	ns.programs++
	seenJS := map[int]bool{}
	hists := map[int]bool{}
	for _, l := range js.Lines {
		h, ok := parseH(l)
		if !ok {
			continue
		}
		hists[h.Hist] = true
		pn := primNames[h.Prim]
		switch h.Tag {
		case "H":
			ns.stepsCompared++
			ns.bump(pn, "steps_compared_with_sync", 1)
		case "M":
			ns.bump(pn, "steps_model_checked_only", 1)
			ns.stepsCompared++
		case "J":
			ns.jsOnlySteps++
			seenJS[h.Hist] = true
			ns.bump(pn, "js_only:"+h.In.Op+":"+clipMsg(h.Out), 1)
		}
	}
	ns.histories += len(hists)
	for id := range expectJS {
		if !seenJS[id] {
			c.Inconclusive("js-only-step-not-executed")
		}
	}
	if n := len(js.Lines); n > 3 {
		c.Sample(js.Lines[n/3])
		for _, l := range js.Lines[n/2:] {
			if strings.HasPrefix(l, "J ") {
				c.Sample(l)
				break
			}
		}
	}
}

// stepKey is the stable identity of a failing step: primitive and operation (the unhashable map
// key is one case whatever the operation).
func stepKey(h hLine) string {
	if h.Prim == pMap && h.In.A == len(keyNames)-1 && h.In.Op != "Range" && h.In.Op != "RangeStop" {
		return "nosync.map.unhashable-key"
	}
	return "nosync." + primNames[h.Prim] + "." + h.In.Op
}

func clipMsg(s string) string {
	if len(s) > 60 {
		return s[:60]
	}
	return s
}

// modelSelfCheck feeds hand-made ILLEGAL histories to the models: porcupine must reject every
// one of them (otherwise the history oracle is vacuous). Returns rejected, total.
func modelSelfCheck() (int, int) {
	bad := [][]string{
		{"H mutex 1 0 0 Lock 0 0 -> ok", "J mutex 1 0 1 Lock 0 0 -> ok"},
		{"J mutex 2 0 0 Unlock 1 0 -> ok"},
		{"H rwmutex 3 0 0 Lock 0 0 -> ok", "J rwmutex 3 0 1 RLock 0 0 -> ok"},
		{"H rwmutex 4 0 0 RLock 0 0 -> ok", "J rwmutex 4 0 1 Lock 0 0 -> ok"},
		{"H rwmutex 5 0 0 RLock 1 0 -> ok", "H rwmutex 5 0 1 RUnlock 1 0 -> ok", "J rwmutex 5 0 2 RUnlock 1 0 -> ok"},
		{"H waitgroup 6 0 0 Add 2 0 -> ok", "J waitgroup 6 0 1 Wait 0 0 -> ok"},
		{"H waitgroup 7 0 0 Done 0 0 -> ok"},
		{"H once 8 0 0 Do 3 0 -> called:3", "H once 8 0 1 Do 2 0 -> called:5"},
		{"H once 9 0 0 DoPanic 3 0 -> panic S:boom", "H once 9 0 1 Do 2 0 -> called:5"},
		{"J once 10 0 0 DoRecursive 1 0 -> called:1000"},
		{"H map 11 0 0 Store 0 5 -> ok", "H map 11 0 1 Load 0 0 -> nil,f"},
		{"H map 12 0 0 LoadOrStore 3 5 -> v:5,f", "H map 12 0 1 LoadOrStore 3 6 -> v:6,f"},
		{"H map 13 0 0 Store 1 5 -> ok", "H map 13 0 1 Delete 1 0 -> ok", "H map 13 0 2 Range 0 0 -> [i2=v:5;]"},
		{"H map 14 0 0 Store 1 5 -> ok", "H map 14 0 1 Store 2 6 -> ok", "H map 14 0 2 RangeStop 0 1 -> visited:2"},
		{"M pool 15 0 0 Put 1 0 -> ok", "M pool 15 0 1 Get 0 0 -> v:1", "M pool 15 0 2 Get 0 0 -> v:1"},
		{"M pool 16 0 0 Get 0 0 -> v:7"},
		{"M pool 17 0 0 Put -1 0 -> ok", "M pool 17 0 1 Get 0 0 -> v:-1"},
	}
	rejected := 0
	for _, h := range bad {
		_, ill, _, _, _ := checkHistories(h, map[int]bool{}, nil)
		if ill == 1 {
			rejected++
		}
	}
	return rejected, len(bad)
}
