package c13

import (
	"fmt"
	"math/rand"
)

// unicode: every mapping / classification function over ALL code points (one digest per
// 4096-rune block so that a mismatch localises), plus out-of-range runes. utf8 / utf16: all
// code points for the rune-indexed functions and all 1–4 byte sequences over a boundary
// alphabet for the decoders.

const unicodeLib = `package main

var extraRunes = []rune{-1, -2, -2147483647 - 1, -65536, 0x110000, 0x110001, 0x7fffffff, 0x1fffff, 0xd7ff, 0xd800, 0xdbff, 0xdc00, 0xdfff, 0xe000, 0xfffd, 0xfffe, 0xffff, 0x10000, 0x10ffff, 0xb5, 0xff, 0x130, 0x131, 0x17f, 0x1c4, 0x1c5, 0x1c6, 0x212a, 0x3c2, 0x3c3, 0x1e9e, 0xdf}

func blkName(pfx string, b int) string { return pfx + hex32(uint32(b*4096))[2:] }

func rs(r rune) string { return "U+" + hex32(uint32(r)) }
`

type ufn struct {
	name string // digest function name
	call string // expression of r yielding rune (kind "r") or bool (kind "b")
	kind string
}

var unicodeFns = []ufn{
	{"unicode.ToUpper", "unicode.ToUpper(r)", "r"},
	{"unicode.ToLower", "unicode.ToLower(r)", "r"},
	{"unicode.ToTitle", "unicode.ToTitle(r)", "r"},
	{"unicode.SimpleFold", "unicode.SimpleFold(r)", "r"},
	{"unicode.To(UpperCase)", "unicode.To(unicode.UpperCase, r)", "r"},
	{"unicode.To(LowerCase)", "unicode.To(unicode.LowerCase, r)", "r"},
	{"unicode.To(TitleCase)", "unicode.To(unicode.TitleCase, r)", "r"},
	{"unicode.TurkishCase.ToUpper", "unicode.TurkishCase.ToUpper(r)", "r"},
	{"unicode.TurkishCase.ToLower", "unicode.TurkishCase.ToLower(r)", "r"},
	{"unicode.TurkishCase.ToTitle", "unicode.TurkishCase.ToTitle(r)", "r"},
	{"unicode.IsUpper", "unicode.IsUpper(r)", "b"},
	{"unicode.IsLower", "unicode.IsLower(r)", "b"},
	{"unicode.IsTitle", "unicode.IsTitle(r)", "b"},
	{"unicode.IsLetter", "unicode.IsLetter(r)", "b"},
	{"unicode.IsDigit", "unicode.IsDigit(r)", "b"},
	{"unicode.IsNumber", "unicode.IsNumber(r)", "b"},
	{"unicode.IsSpace", "unicode.IsSpace(r)", "b"},
	{"unicode.IsPunct", "unicode.IsPunct(r)", "b"},
	{"unicode.IsControl", "unicode.IsControl(r)", "b"},
	{"unicode.IsGraphic", "unicode.IsGraphic(r)", "b"},
	{"unicode.IsPrint", "unicode.IsPrint(r)", "b"},
	{"unicode.IsMark", "unicode.IsMark(r)", "b"},
	{"unicode.IsSymbol", "unicode.IsSymbol(r)", "b"},
	{"unicode.In(Latin,Greek,Cyrillic)", "unicode.In(r, unicode.Latin, unicode.Greek, unicode.Cyrillic)", "b"},
	{"unicode.In(Han)", "unicode.In(r, unicode.Han)", "b"},
	{"unicode.Is(Lu)", "unicode.Is(unicode.Lu, r)", "b"},
	{"unicode.Is(White_Space)", "unicode.Is(unicode.White_Space, r)", "b"},
	{"unicode.IsOneOf(Letter,Digit)", "unicode.IsOneOf(letterDigit, r)", "b"},
	{"unicode.To(badcase)", "unicode.To(unicode.MaxCase, r) ^ unicode.To(-1, r)<<1 ^ unicode.To(unicode.MaxCase+5, r)<<2", "r"},
}

func unicodePrograms(r *rand.Rand, quick bool) []*tprog {
	var out []*tprog
	per := 5
	if quick {
		per = 10
	}
	for i := 0; i < len(unicodeFns); i += per {
		j := i + per
		if j > len(unicodeFns) {
			j = len(unicodeFns)
		}
		t := newTprog(fmt.Sprintf("unicode-%d", i/per), "unicode")
		t.files["zz_unicodelib.go"] = unicodeLib
		t.pre.WriteString("var letterDigit = []*unicode.RangeTable{unicode.Letter, unicode.Digit}\n")
		for _, f := range unicodeFns[i:j] {
			dig, show := "d.w(uint32(x))", `rs(r) + " -> " + rs(x)`
			if f.kind == "b" {
				dig, show = "d.wb(x)", `rs(r) + " -> " + btoa(x)`
			}
			t.dyn(fmt.Sprintf("blkName(%q, b)", f.name+"/blk-"), "for b := 0; b < 272; b++ {", 1,
				"for r := rune(b * 4096); r < rune(b*4096+4096); r++ {", "x := "+f.call, dig, show, 4096, 1)
			t.block(f.name+"/out-of-range", "for _, r := range extraRunes {", "x := "+f.call, dig, show, 3, 1)
		}
		out = append(out, t)
	}
	out = append(out, utf8Program(), utf16Program())
	return out
}

const utfLib = `package main

var alpha = []byte{0x00, 0x41, 0x7f, 0x80, 0x8f, 0x90, 0x9f, 0xa0, 0xbf, 0xc0, 0xc1, 0xc2, 0xdf, 0xe0, 0xe1, 0xec, 0xed, 0xee, 0xef, 0xf0, 0xf1, 0xf3, 0xf4, 0xf5, 0xf7, 0xf8, 0xff}

// seqs calls f with every sequence of length n over the boundary alphabet.
func seqs(n int, f func(p []byte)) {
	idx := make([]int, n)
	p := make([]byte, n)
	for {
		for i := 0; i < n; i++ {
			p[i] = alpha[idx[i]]
		}
		f(p)
		k := n - 1
		for k >= 0 {
			idx[k]++
			if idx[k] < len(alpha) {
				break
			}
			idx[k] = 0
			k--
		}
		if k < 0 {
			return
		}
	}
}

func hexb(p []byte) string {
	s := ""
	for _, c := range p {
		s += hex32(uint32(c))[6:]
	}
	return s
}

var units = []uint16{0x41, 0xd7ff, 0xd800, 0xdbff, 0xdc00, 0xdfff, 0xe000, 0xffff}

func useqs(n int, f func(p []uint16)) {
	idx := make([]int, n)
	p := make([]uint16, n)
	for {
		for i := 0; i < n; i++ {
			p[i] = units[idx[i]]
		}
		f(p)
		k := n - 1
		for k >= 0 {
			idx[k]++
			if idx[k] < len(units) {
				break
			}
			idx[k] = 0
			k--
		}
		if k < 0 {
			return
		}
	}
}

func hexu(p []uint16) string {
	s := ""
	for _, c := range p {
		s += hex32(uint32(c))[4:] + "."
	}
	return s
}

func hexr(p []rune) string {
	s := ""
	for _, c := range p {
		s += hex32(uint32(c)) + "."
	}
	return s
}

var runeAlpha = []rune{-1, 0, 0x41, 0x7f, 0x80, 0x7ff, 0x800, 0xd7ff, 0xd800, 0xdbff, 0xdc00, 0xdfff, 0xe000, 0xfffd, 0xffff, 0x10000, 0x10ffff, 0x110000}

func rseqs(n int, f func(p []rune)) {
	idx := make([]int, n)
	p := make([]rune, n)
	for {
		for i := 0; i < n; i++ {
			p[i] = runeAlpha[idx[i]]
		}
		f(p)
		k := n - 1
		for k >= 0 {
			idx[k]++
			if idx[k] < len(runeAlpha) {
				break
			}
			idx[k] = 0
			k--
		}
		if k < 0 {
			return
		}
	}
}
`

func utf8Program() *tprog {
	t := newTprog("utf8", "unicode/utf8")
	t.files["zz_unicodelib.go"] = unicodeLib
	t.files["zz_utflib.go"] = utfLib
	// rune-indexed functions over all code points, digest per 64K plane
	plane := "for b := -1; b < 18; b++ {"
	open := "lo, hi := rune(b*65536), rune(b*65536+65536)\n\tif b < 0 {\n\t\tlo, hi = -70000, 0\n\t}\n\tfor r := lo; r < hi; r++ {"
	nm := func(fn string) string {
		return fmt.Sprintf("%q + hex32(uint32(b*65536))[2:]", fn+"/plane-")
	}
	t.dyn(nm("utf8.RuneLen"), plane, 1, open, "x := utf8.RuneLen(r)", "d.wi(x)", `rs(r) + " -> " + itoa(x)`, 32768, 1)
	t.dyn(nm("utf8.ValidRune"), plane, 1, open, "x := utf8.ValidRune(r)", "d.wb(x)", `rs(r) + " -> " + btoa(x)`, 32768, 1)
	t.dyn(nm("utf8.EncodeRune"), plane, 1, "var buf [4]byte\n\t"+open, "buf = [4]byte{}\n\t\tn := utf8.EncodeRune(buf[:], r)", "d.wi(n)\n\t\td.w(uint32(buf[0])<<24 | uint32(buf[1])<<16 | uint32(buf[2])<<8 | uint32(buf[3]))", `rs(r) + " -> " + itoa(n) + " " + hexb(buf[:])`, 32768, 1)
	t.dyn(nm("utf8.AppendRune"), plane, 1, "pre := []byte{0x2a}\n\t"+open, "o := utf8.AppendRune(pre[:1:1], r)", "d.ws(string(o))", `rs(r) + " -> " + hexb(o)`, 32768, 1)
	t.dyn(nm("utf8.roundtrip"), plane, 1, open, "o := utf8.AppendRune(nil, r)\n\t\tx, n := utf8.DecodeRune(o)\n\t\ty, m := utf8.DecodeLastRuneInString(string(o))", "d.w(uint32(x))\n\t\td.wi(n)\n\t\td.w(uint32(y))\n\t\td.wi(m)", `rs(r) + " -> " + rs(x) + " " + itoa(n) + " " + rs(y) + " " + itoa(m)`, 32768, 1)
	// decoders over all 0..4-byte sequences
	for n := 0; n <= 4; n++ {
		sfx := fmt.Sprintf("/seq-len%d", n)
		o := fmt.Sprintf("seqs(%d, func(p []byte) {", n)
		every := 50021
		t.blockC("utf8.DecodeRune"+sfx, o, "x, k := utf8.DecodeRune(p)", "d.w(uint32(x))\n\t\td.wi(k)", `hexb(p) + " -> " + rs(x) + " " + itoa(k)`, every, "})")
		t.blockC("utf8.DecodeRuneInString"+sfx, o, "x, k := utf8.DecodeRuneInString(string(p))", "d.w(uint32(x))\n\t\td.wi(k)", `hexb(p) + " -> " + rs(x) + " " + itoa(k)`, every, "})")
		t.blockC("utf8.DecodeLastRune"+sfx, o, "x, k := utf8.DecodeLastRune(p)", "d.w(uint32(x))\n\t\td.wi(k)", `hexb(p) + " -> " + rs(x) + " " + itoa(k)`, every, "})")
		t.blockC("utf8.DecodeLastRuneInString"+sfx, o, "x, k := utf8.DecodeLastRuneInString(string(p))", "d.w(uint32(x))\n\t\td.wi(k)", `hexb(p) + " -> " + rs(x) + " " + itoa(k)`, every, "})")
		t.blockC("utf8.FullRune"+sfx, o, "x := utf8.FullRune(p)\n\t\ty := utf8.FullRuneInString(string(p))", "d.wb(x)\n\t\td.wb(y)", `hexb(p) + " -> " + btoa(x) + " " + btoa(y)`, every, "})")
		t.blockC("utf8.RuneCount"+sfx, o, "x := utf8.RuneCount(p)\n\t\ty := utf8.RuneCountInString(string(p))", "d.wi(x)\n\t\td.wi(y)", `hexb(p) + " -> " + itoa(x) + " " + itoa(y)`, every, "})")
		t.blockC("utf8.Valid"+sfx, o, "x := utf8.Valid(p)\n\t\ty := utf8.ValidString(string(p))", "d.wb(x)\n\t\td.wb(y)", `hexb(p) + " -> " + btoa(x) + " " + btoa(y)`, every, "})")
	}
	t.block("utf8.RuneStart/all", "for i := 0; i < 256; i++ {", "x := utf8.RuneStart(byte(i))", "d.wb(x)", `itoa(i) + " -> " + btoa(x)`, 37, 1)
	return t
}

func utf16Program() *tprog {
	t := newTprog("utf16", "unicode/utf16")
	t.files["zz_unicodelib.go"] = unicodeLib
	t.files["zz_utflib.go"] = utfLib
	plane := "for b := -1; b < 18; b++ {"
	open := "lo, hi := rune(b*65536), rune(b*65536+65536)\n\tif b < 0 {\n\t\tlo, hi = -70000, 0\n\t}\n\tfor r := lo; r < hi; r++ {"
	nm := func(fn string) string {
		return fmt.Sprintf("%q + hex32(uint32(b*65536))[2:]", fn+"/plane-")
	}
	t.dyn(nm("utf16.IsSurrogate"), plane, 1, open, "x := utf16.IsSurrogate(r)", "d.wb(x)", `rs(r) + " -> " + btoa(x)`, 32768, 1)
	t.dyn(nm("utf16.EncodeRune"), plane, 1, open, "x, y := utf16.EncodeRune(r)", "d.w(uint32(x))\n\t\td.w(uint32(y))", `rs(r) + " -> " + rs(x) + " " + rs(y)`, 32768, 1)
	t.dyn(nm("utf16.RuneLen"), plane, 1, open, "x := utf16.RuneLen(r)", "d.wi(x)", `rs(r) + " -> " + itoa(x)`, 32768, 1)
	t.dyn(nm("utf16.AppendRune"), plane, 1, "pre := []uint16{0x2a}\n\t"+open, "o := utf16.AppendRune(pre[:1:1], r)", "for _, u := range o {\n\t\t\td.w(uint32(u))\n\t\t}\n\t\td.wi(len(o))", `rs(r) + " -> " + hexu(o)`, 32768, 1)
	t.dyn(nm("utf16.roundtrip"), plane, 1, open, "x, y := utf16.EncodeRune(r)\n\t\tz := utf16.DecodeRune(x, y)", "d.w(uint32(z))", `rs(r) + " -> " + rs(z)`, 32768, 1)
	t.block("utf16.DecodeRune/grid2", "for _, a := range runeAlpha {\n\tfor _, b := range runeAlpha {\n\tfor da := rune(-1); da <= 1; da++ {", "x := utf16.DecodeRune(a+da, b)", "d.w(uint32(x))", `rs(a+da) + " " + rs(b) + " -> " + rs(x)`, 53, 3)
	// all surrogate pairs
	t.block("utf16.DecodeRune/all-pairs", "for a := rune(0xd7f0); a < 0xe010; a += 1 {\n\tfor b := rune(0xd7f0); b < 0xe010; b += 7 {", "x := utf16.DecodeRune(a, b+a%7)", "d.w(uint32(x))", `rs(a) + " " + rs(b+a%7) + " -> " + rs(x)`, 50021, 2)
	for n := 0; n <= 5; n++ {
		sfx := fmt.Sprintf("/seq-len%d", n)
		t.blockC("utf16.Decode"+sfx, fmt.Sprintf("useqs(%d, func(p []uint16) {", n), "o := utf16.Decode(p)", "for _, u := range o {\n\t\t\td.w(uint32(u))\n\t\t}\n\t\td.wi(len(o))", `hexu(p) + " -> " + hexr(o)`, 4099, "})")
	}
	for n := 0; n <= 3; n++ {
		sfx := fmt.Sprintf("/seq-len%d", n)
		t.blockC("utf16.Encode"+sfx, fmt.Sprintf("rseqs(%d, func(p []rune) {", n), "o := utf16.Encode(p)", "for _, u := range o {\n\t\t\td.w(uint32(u))\n\t\t}\n\t\td.wi(len(o))", `hexr(p) + " -> " + hexu(o)`, 499, "})")
	}
	return t
}
