package c13

import (
	"fmt"
	"math"
	"math/rand"
	"sort"
	"strconv"
	"strings"
)

// ---------------------------------------------------------------------------------------------
// math – exact class.
//
// A function is in this list only if the upstream implementation the reference toolchain runs
// on amd64 is IEEE-exact or a deterministic pure-Go algorithm built from IEEE basic operations
// (no fused multiply-add contraction on amd64), so that "equal for all arguments" is a fair
// demand on the override. Everything that V8 computes with its own libm (and Expm1/Log1p … that
// are only approximations in both worlds but not by the same code on amd64) is in the
// special-case class below.
// ---------------------------------------------------------------------------------------------

var mathExact = []string{
	"Ceil", "Floor", "Trunc", "Round", "RoundToEven", "Abs", "Copysign", "Signbit",
	"Float32bits", "Float32frombits", "Float64bits", "Float64frombits",
	"Mod", "Remainder", "Modf", "Frexp", "Ldexp", "Dim", "Max", "Min",
	"IsNaN", "IsInf", "Inf", "NaN", "Sqrt", "FMA", "Nextafter", "Nextafter32", "Logb", "Ilogb",
}

const mathLib = `package main

import "math"

var zero = 0.0
var pz = zero
var nz = -zero
var pinf = 1 / zero
var ninf = -1 / zero
var nan = zero / zero

// k64 is the comparison key of a float64: its bit pattern, every NaN collapsed.
func k64(v float64) uint64 {
	if v != v {
		return 0x7ff8000000000001
	}
	return math.Float64bits(v)
}

// k32 is the key of a float32, observed through the exact conversion to float64 so that it does
// not depend on Float32bits.
func k32(v float32) uint64 { return k64(float64(v)) }

func sf(v float64) string { return "f:" + hex64(k64(v)) }
func sg(v float32) string { return "f:" + hex64(k32(v)) }

// nanbits collapses NaN bit patterns of a uint64 / uint32 result.
func nb64(b uint64) uint64 {
	if b&0x7ff0000000000000 == 0x7ff0000000000000 && b&0x000fffffffffffff != 0 {
		return 0x7ff8000000000001
	}
	return b
}
func nb32(b uint32) uint32 {
	if b&0x7f800000 == 0x7f800000 && b&0x007fffff != 0 {
		return 0x7fc00001
	}
	return b
}

// rndBits returns shaped random float64 bit patterns: raw patterns (uniform exponent), patterns
// with the exponent forced into the range where rounding functions are interesting, patterns
// at both ends of the exponent range, and patterns with cleared low mantissa bits (integers,
// halves).
func rndBits(r *rng) uint64 {
	u := r.next()
	c := r.next()
	const emask = uint64(0x7ff) << 52
	switch c & 3 {
	case 2:
		e := 1019 + (c>>2)%72
		u = u&^emask | e<<52
	case 3:
		if c&4 == 0 {
			e := (c >> 3) % 3
			u = u&^emask | e<<52
		} else {
			e := 2044 + (c>>3)%3
			u = u&^emask | e<<52
		}
	}
	if c&0x300 == 0 {
		u &^= (uint64(1) << ((c >> 10) % 53)) - 1
	}
	return u
}

func rndF(r *rng) float64 { return math.Float64frombits(rndBits(r)) }

func rndBits32(r *rng) uint32 {
	u := uint32(r.next() >> 11)
	c := r.next()
	const emask = uint32(0xff) << 23
	switch c & 3 {
	case 2:
		e := uint32(123 + (c>>2)%40)
		u = u&^emask | e<<23
	case 3:
		if c&4 == 0 {
			u = u &^ emask
		} else {
			u = u&^emask | 254<<23
		}
	}
	if c&0x300 == 0 {
		u &^= (uint32(1) << ((c >> 10) % 24)) - 1
	}
	return u
}

func rndG(r *rng) float32 { return math.Float32frombits(rndBits32(r)) }
`

func flit(v float64) string {
	switch {
	case v != v:
		return "nan"
	case math.IsInf(v, 1):
		return "pinf"
	case math.IsInf(v, -1):
		return "ninf"
	case v == 0 && math.Signbit(v):
		return "nz"
	case v == 0:
		return "pz"
	}
	return strconv.FormatFloat(v, 'x', -1, 64)
}

type fgrid struct {
	seen map[uint64]bool
	v    []float64
}

func (g *fgrid) add(vs ...float64) {
	if g.seen == nil {
		g.seen = map[uint64]bool{}
	}
	for _, v := range vs {
		for _, s := range []float64{v, -v} {
			b := math.Float64bits(s)
			if s != s {
				b = 0x7ff8000000000001
			}
			if !g.seen[b] {
				g.seen[b] = true
				g.v = append(g.v, s)
			}
		}
	}
}

// around adds v and its neighbours ±1, ±2 ulp.
func (g *fgrid) around(v float64) {
	up, dn := v, v
	g.add(v)
	for i := 0; i < 2; i++ {
		up = math.Nextafter(up, math.Inf(1))
		dn = math.Nextafter(dn, math.Inf(-1))
		g.add(up, dn)
	}
}

func (g *fgrid) decl(name string) string {
	// constants go into a static array (fast to compile on both sides); the values that cannot
	// be written as constants (-0, ±Inf, NaN) are appended from variables.
	var b strings.Builder
	var special []string
	fmt.Fprintf(&b, "var %sC = [...]float64{", name)
	n := 0
	for _, v := range g.v {
		l := flit(v)
		if !strings.HasPrefix(l, "0x") && !strings.HasPrefix(l, "-0x") {
			special = append(special, l)
			continue
		}
		if n%6 == 0 {
			b.WriteString("\n\t")
		}
		n++
		b.WriteString(l + ", ")
	}
	b.WriteString("\n}\n\n")
	fmt.Fprintf(&b, "var %s = append([]float64{%s}, %sC[:]...)\n\n", name, strings.Join(special, ", "), name)
	return b.String()
}

// unaryGrid is the big boundary grid for one-argument functions.
func unaryGrid(r *rand.Rand) *fgrid {
	g := &fgrid{}
	g.add(0, math.Inf(1), math.NaN())
	// subnormals and the normal boundary
	g.add(math.SmallestNonzeroFloat64, 2*math.SmallestNonzeroFloat64, 3*math.SmallestNonzeroFloat64)
	minNormal := math.Float64frombits(0x0010000000000000)
	g.around(minNormal)
	g.add(math.Float64frombits(0x000fffffffffffff), math.Float64frombits(0x0008000000000000), math.Float64frombits(0x0000000100000000), math.Float64frombits(0x00000000ffffffff))
	// 2^k and its neighbours for every k
	for k := -1074; k <= 1023; k++ {
		p := math.Ldexp(1, k)
		g.add(p, math.Nextafter(p, math.Inf(1)))
		if k > -1074 {
			g.add(math.Nextafter(p, 0))
		}
	}
	// integer-conversion neighbourhoods
	for _, k := range []int{7, 8, 15, 16, 24, 30, 31, 32, 33, 51, 52, 53, 54, 62, 63, 64, 65} {
		p := math.Ldexp(1, k)
		g.around(p)
		for _, d := range []float64{0.25, 0.5, 0.75, 1, 1.5, 2, 2.5, 3} {
			g.add(p+d, p-d)
		}
	}
	// halves n+0.5 and the values just below / above
	ns := []float64{0, 1, 2, 3, 4, 5, 6, 7, 8, 9, 10, 99, 100, 1e6, 1e9, 1e10, 1e12, 1e15, 4503599627370495, 4503599627370494, 2251799813685247, 2251799813685248}
	for k := 1; k <= 52; k++ {
		p := math.Ldexp(1, k)
		ns = append(ns, p-2, p-1, p, p+1)
	}
	for _, n := range ns {
		if n+0.5 == n || n+0.5 == n+1 { // 0.5 not representable at this magnitude
			g.add(n)
			continue
		}
		g.around(n + 0.5)
		g.add(n)
	}
	g.around(0.5)
	g.around(1)
	g.around(1.5)
	g.around(2.5)
	g.add(0.1, 0.25, 0.3, 0.49999999999999994, 0.5000000000000001, 0.75, 0.9, 1e10, 1e15, 1e16, 1e17, 1e19, 1e20, 1e100, 1e300, 1e-5, 1e-300, 5e-324,
		math.Pi, math.E, math.Sqrt2, math.MaxFloat64, math.Nextafter(math.MaxFloat64, 0), 1e10+0.5, 123456789012.75, 2147483647.5, 2147483648.5, 4294967295.5, 4294967296.5,
		9007199254740991, 9007199254740992, 9007199254740993, 9223372036854775807, 18446744073709551615, float64(math.MaxFloat32), float64(math.SmallestNonzeroFloat32))
	for i := 0; i < 64; i++ {
		g.add(math.Float64frombits(r.Uint64()))
	}
	return g
}

// binaryGrid is the smaller grid used for argument pairs.
func binaryGrid(r *rand.Rand, extra int) *fgrid {
	g := &fgrid{}
	g.add(0, math.Inf(1), math.NaN(), math.SmallestNonzeroFloat64, 3*math.SmallestNonzeroFloat64, math.Float64frombits(0x000fffffffffffff),
		math.Float64frombits(0x0010000000000000), math.Float64frombits(0x0010000000000001), math.MaxFloat64, math.Nextafter(math.MaxFloat64, 0),
		0.5, math.Nextafter(0.5, 0), math.Nextafter(0.5, 1), 1, math.Nextafter(1, 0), math.Nextafter(1, 2), 1.5, 2, 2.5, 3, 3.5, 7, 10, 0.1, 0.3, 1e-10, 1e10,
		2147483647, 2147483648, 2147483648.5, 4294967295, 4294967296, 4294967296.5, 4503599627370496, 4503599627370495.5, 9007199254740992, 9007199254740991, 9007199254740994,
		9223372036854775808, 18446744073709551616, 1e100, 1e-100, 1e300, 1e-300, math.Pi, math.E, math.Ldexp(1, -1022), math.Ldexp(1, 1023), math.Ldexp(1, -537), math.Ldexp(1, 512),
		math.Ldexp(3, -1074), math.Ldexp(1, 52)+1, math.Ldexp(1, 53)+2)
	for i := 0; i < extra; i++ {
		g.add(math.Float64frombits(r.Uint64()))
	}
	return g
}

func tripleGrid(r *rand.Rand) *fgrid {
	g := &fgrid{}
	g.add(0, math.Inf(1), math.NaN(), math.SmallestNonzeroFloat64, math.Float64frombits(0x0010000000000000), math.MaxFloat64,
		1, math.Nextafter(1, 2), math.Nextafter(1, 0), 0.5, 3, 0.1, 1e10, 134217729, 9007199254740991, math.Ldexp(1, 1023), math.Ldexp(1, -1022), math.Ldexp(1, 512), math.Ldexp(1, -537), 1e300)
	for i := 0; i < 4; i++ {
		g.add(math.Float64frombits(r.Uint64()))
	}
	return g
}

// ldexp first arguments: values whose scaled results exercise subnormal rounding (ties, odd
// mantissas) and overflow.
func ldexpGrid(r *rand.Rand) *fgrid {
	g := &fgrid{}
	g.add(0, math.Inf(1), math.NaN(), 1, 0.5, 0.75, 1.5, 3, 5, 7, math.Nextafter(1, 2), math.Nextafter(1, 0), math.Nextafter(2, 0),
		1+math.Ldexp(1, -51), 1+math.Ldexp(3, -52), 1+math.Ldexp(1, -26), math.SmallestNonzeroFloat64, 3*math.SmallestNonzeroFloat64,
		math.Float64frombits(0x000fffffffffffff), math.Float64frombits(0x0010000000000000), math.Float64frombits(0x0010000000000001),
		math.MaxFloat64, math.Nextafter(math.MaxFloat64, 0), math.Ldexp(1, 1023), math.Ldexp(1, -1022), math.Ldexp(1, 60), math.Ldexp(1, -60), math.Pi, 1e300, 1e-300, 0.1)
	for i := 0; i < 6; i++ {
		g.add(math.Float64frombits(r.Uint64()))
	}
	return g
}

func f32decl(name string, g *fgrid) string {
	seen := map[uint32]bool{}
	var b strings.Builder
	var special []string
	fmt.Fprintf(&b, "var %sC = [...]float32{", name)
	n := 0
	for _, v := range g.v {
		f := float32(v)
		bits := math.Float32bits(f)
		if f != f {
			bits = 0x7fc00001
		}
		if seen[bits] {
			continue
		}
		seen[bits] = true
		l := flit(float64(f))
		if !strings.HasPrefix(l, "0x") && !strings.HasPrefix(l, "-0x") {
			special = append(special, "float32("+l+")")
			continue
		}
		if n%6 == 0 {
			b.WriteString("\n\t")
		}
		n++
		b.WriteString(l + ", ")
	}
	b.WriteString("\n}\n\n")
	fmt.Fprintf(&b, "var %s = append([]float32{%s}, %sC[:]...)\n\n", name, strings.Join(special, ", "), name)
	return b.String()
}

func float32Grid(r *rand.Rand) *fgrid {
	g := &fgrid{}
	g.add(0, math.Inf(1), math.NaN(), float64(math.SmallestNonzeroFloat32), 2*float64(math.SmallestNonzeroFloat32), float64(math.Float32frombits(0x007fffff)),
		float64(math.Float32frombits(0x00800000)), float64(math.Float32frombits(0x00800001)), float64(math.MaxFloat32), float64(math.Float32frombits(0x7f7ffffe)),
		1, float64(math.Float32frombits(0x3f800001)), float64(math.Float32frombits(0x3f7fffff)), 0.5, 2, 3, 0.1, 16777216, 16777215, 16777218, 2147483648, 4294967296, 1e10, 1e-10, 1e38, 1e-38, 1e-45)
	for i := 0; i < 12; i++ {
		g.add(float64(math.Float32frombits(r.Uint32())))
	}
	return g
}

// mathExactPrograms builds one table program per exact-class function.
func mathExactPrograms(r *rand.Rand, nrnd, perProg int) []*tprog {
	gu := unaryGrid(r)
	gb := binaryGrid(r, 8)
	gt := tripleGrid(r)
	gl := ldexpGrid(r)
	g32 := float32Grid(r)
	gridFile := "package main\n\n" + gu.decl("gridU") + gb.decl("gridB") + gt.decl("gridT") + gl.decl("gridL") + f32decl("gridG", g32)
	seed := func() string { return fmt.Sprintf("%d", r.Uint64()|1) }
	rndOpenN := func(vars string, n int) string {
		return fmt.Sprintf("rg := &rng{%s}\n\tfor i := 0; i < %d; i++ {\n\t\t%s", seed(), n, vars)
	}
	rndOpen := func(vars string) string { return rndOpenN(vars, nrnd) }
	var out []*tprog
	var cur *tprog
	cnt := 0
	mk := func(fn string) *tprog {
		if cur == nil || cnt >= perProg {
			cur = newTprog("math-"+fn, "math")
			cur.files["zz_mathlib.go"] = mathLib
			cur.files["zz_grid.go"] = gridFile
			out = append(out, cur)
			cnt = 0
		} else {
			cur.name += "+" + fn
		}
		cnt++
		return cur
	}
	// float64 -> float64
	for _, fn := range []string{"Ceil", "Floor", "Trunc", "Round", "RoundToEven", "Abs", "Sqrt", "Logb"} {
		t := mk(fn)
		call := "r := math." + fn + "(x)"
		t.block("math."+fn+"/grid", "for _, x := range gridU {", call, "d.w64(k64(r))", `sf(x) + " -> " + sf(r)`, 211, 1)
		t.block("math."+fn+"/rnd", rndOpen("x := rndF(rg)"), call, "d.w64(k64(r))", `sf(x) + " -> " + sf(r)`, nrnd/7+1, 1)
	}
	// float64 -> bool
	for _, fn := range []string{"Signbit", "IsNaN"} {
		t := mk(fn)
		call := "r := math." + fn + "(x)"
		if fn == "Signbit" {
			// the sign of a NaN is not specified (payload-insensitive comparison)
			call = "if x != x {\n\t\t\tcontinue\n\t\t}\n\t\t" + call
		}
		t.block("math."+fn+"/grid", "for _, x := range gridU {", call, "d.wb(r)", `sf(x) + " -> " + btoa(r)`, 211, 1)
		t.block("math."+fn+"/rnd", rndOpen("x := rndF(rg)"), call, "d.wb(r)", `sf(x) + " -> " + btoa(r)`, nrnd/7+1, 1)
	}
	{
		t := mk("IsInf")
		t.pre.WriteString("var signs = []int{-2147483647, -7, -1, 0, 1, 2, 2147483647}\n")
		t.block("math.IsInf/grid", "for _, x := range gridU {\n\tfor _, s := range signs {", "r := math.IsInf(x, s)", "d.wb(r)", `sf(x) + " " + itoa(s) + " -> " + btoa(r)`, 1009, 2)
		t.block("math.IsInf/rnd", rndOpen("x := rndF(rg)\n\t\ts := int(rg.next()%5) - 2"), "r := math.IsInf(x, s)", "d.wb(r)", `sf(x) + " " + itoa(s) + " -> " + btoa(r)`, nrnd/7+1, 1)
	}
	{
		t := mk("Inf")
		t.pre.WriteString("var signsInf = []int{-2147483647, -7, -1, 0, 1, 2, 2147483647}\n")
		t.block("math.Inf/all", "for _, s := range signsInf {", "r := math.Inf(s)", "d.w64(k64(r))", `itoa(s) + " -> " + sf(r)`, 1, 1)
	}
	{
		t := mk("NaN")
		t.block("math.NaN/all", "for i := 0; i < 3; i++ {", "r := math.NaN()", "d.w64(k64(r))\n\t\td.wb(r != r)\n\t\td.wb(r == r)", `"-> " + sf(r) + " " + btoa(r != r)`, 1, 1)
	}
	{
		t := mk("Ilogb")
		t.block("math.Ilogb/grid", "for _, x := range gridU {", "r := math.Ilogb(x)", "d.wi(r)", `sf(x) + " -> " + itoa(r)`, 211, 1)
		t.block("math.Ilogb/rnd", rndOpen("x := rndF(rg)"), "r := math.Ilogb(x)", "d.wi(r)", `sf(x) + " -> " + itoa(r)`, nrnd/7+1, 1)
	}
	{
		t := mk("Modf")
		t.block("math.Modf/grid", "for _, x := range gridU {", "r, s := math.Modf(x)", "d.w64(k64(r))\n\t\td.w64(k64(s))", `sf(x) + " -> " + sf(r) + " " + sf(s)`, 211, 1)
		t.block("math.Modf/rnd", rndOpen("x := rndF(rg)"), "r, s := math.Modf(x)", "d.w64(k64(r))\n\t\td.w64(k64(s))", `sf(x) + " -> " + sf(r) + " " + sf(s)`, nrnd/7+1, 1)
	}
	{
		t := mk("Frexp")
		t.block("math.Frexp/grid", "for _, x := range gridU {", "r, e := math.Frexp(x)", "d.w64(k64(r))\n\t\td.wi(e)", `sf(x) + " -> " + sf(r) + " " + itoa(e)`, 211, 1)
		t.block("math.Frexp/rnd", rndOpen("x := rndF(rg)"), "r, e := math.Frexp(x)", "d.w64(k64(r))\n\t\td.wi(e)", `sf(x) + " -> " + sf(r) + " " + itoa(e)`, nrnd/7+1, 1)
	}
	{
		t := mk("Float64bits")
		t.block("math.Float64bits/grid", "for _, x := range gridU {", "r := nb64(math.Float64bits(x))", "d.w64(r)", `"-> " + hex64(r)`, 211, 1)
		// arithmetic-made values: the argument is not produced by Float64frombits
		t.block("math.Float64bits/arith", "p := 0x1p-1074\n\tfor k := 0; k < 2098; k++ {\n\t\tx := p\n\t\tif k%3 == 1 {\n\t\t\tx = -p * 3\n\t\t} else if k%3 == 2 {\n\t\t\tx = p * 0x1.fffffffffffffp0\n\t\t}\n\t\tp *= 2",
			"r := nb64(math.Float64bits(x))", "d.w64(r)", `itoa(k) + " -> " + hex64(r)`, 97, 1)
		t.block("math.Float64bits/rnd", rndOpen("b := rndBits(rg)\n\t\tx := math.Float64frombits(b)"), "r := nb64(math.Float64bits(x))", "d.w64(r)\n\t\td.wb(r == nb64(b))", `hex64(b) + " -> " + hex64(r)`, nrnd/7+1, 1)
	}
	{
		t := mk("Float64frombits")
		// observed without Float64bits: classification, comparisons and exact arithmetic decomposition
		t.pre.WriteString(`// obs describes a float64 without calling Float64bits: sign, class and the value scaled into
// an integer mantissa by exact multiplications.
func obs(x float64) (uint64, int) {
	if x != x {
		return 1, 9999
	}
	neg := x < 0 || (x == 0 && 1/x < 0)
	if neg {
		x = -x
	}
	tag := uint64(0)
	if neg {
		tag = 1 << 63
	}
	if x == 0 {
		return tag, 0
	}
	if x > 0x1.fffffffffffffp1023 {
		return tag | 2, 9998
	}
	e := 0
	for x >= 0x1p53 {
		x *= 0.5
		e++
	}
	for x < 0x1p52 && e > -1074 {
		x *= 2
		e--
	}
	return tag | uint64(x), e
}
`)
		t.block("math.Float64frombits/rnd", rndOpen("b := rndBits(rg)"), "x := math.Float64frombits(b)\n\t\tm, e := obs(x)", "d.w64(m)\n\t\td.wi(e)", `hex64(b) + " -> " + hex64(m) + " " + itoa(e)`, nrnd/7+1, 1)
		t.block("math.Float64frombits/walk", "for k := 0; k < 64; k++ {\n\tfor j := 0; j < 64; j++ {", "b := uint64(1)<<uint(k) | uint64(1)<<uint(j)\n\t\tx := math.Float64frombits(b)\n\t\tm, e := obs(x)\n\t\ty := math.Float64frombits(^b)\n\t\tm2, e2 := obs(y)", "d.w64(m)\n\t\td.wi(e)\n\t\td.w64(m2)\n\t\td.wi(e2)", `hex64(b) + " -> " + hex64(m) + " " + itoa(e) + " " + hex64(m2) + " " + itoa(e2)`, 97, 2)
	}
	{
		t := mk("Float32bits")
		t.block("math.Float32bits/grid", "for _, x := range gridG {", "r := nb32(math.Float32bits(x))", "d.w(r)", `sg(x) + " -> " + hex32(r)`, 5, 1)
		t.block("math.Float32bits/fromf64", "for _, y := range gridU {", "x := float32(y)\n\t\tr := nb32(math.Float32bits(x))", "d.w(r)", `sf(y) + " -> " + hex32(r)`, 211, 1)
		t.block("math.Float32bits/rnd", rndOpen("b := rndBits32(rg)\n\t\tx := math.Float32frombits(b)"), "r := nb32(math.Float32bits(x))", "d.w(r)\n\t\td.wb(r == nb32(b))", `hex32(b) + " -> " + hex32(r)`, nrnd/7+1, 1)
		// interleaved use of the shared buffer by the 32- and 64-bit views
		t.block("math.Float32bits/interleaved", rndOpen("b := rndBits32(rg)\n\t\tc := rndBits(rg)"), "x := math.Float32frombits(b)\n\t\ty := math.Float64frombits(c)\n\t\tr := nb32(math.Float32bits(x))\n\t\ts := nb64(math.Float64bits(y))\n\t\tr2 := nb32(math.Float32bits(x))", "d.w(r)\n\t\td.w64(s)\n\t\td.w(r2)", `hex32(b) + " " + hex64(c) + " -> " + hex32(r) + " " + hex64(s) + " " + hex32(r2)`, nrnd/7+1, 1)
	}
	{
		t := mk("Float32frombits")
		t.block("math.Float32frombits/rnd", rndOpen("b := rndBits32(rg)"), "x := math.Float32frombits(b)", "d.w64(k32(x))", `hex32(b) + " -> " + sg(x)`, nrnd/7+1, 1)
		t.block("math.Float32frombits/walk", "for k := 0; k < 32; k++ {\n\tfor j := 0; j < 32; j++ {", "b := uint32(1)<<uint(k) | uint32(1)<<uint(j)\n\t\tx := math.Float32frombits(b)\n\t\ty := math.Float32frombits(^b)", "d.w64(k32(x))\n\t\td.w64(k32(y))", `hex32(b) + " -> " + sg(x) + " " + sg(y)`, 37, 2)
	}
	// (float64, float64) -> float64
	for _, fn := range []string{"Copysign", "Mod", "Remainder", "Dim", "Max", "Min", "Nextafter"} {
		t := mk(fn)
		call := "r := math." + fn + "(x, y)"
		if fn == "Copysign" {
			// the sign of a NaN is not specified (payload-insensitive comparison)
			call = "if y != y {\n\t\t\tcontinue\n\t\t}\n\t\t" + call
		}
		t.block("math."+fn+"/grid2", "for _, x := range gridB {\n\tfor _, y := range gridB {", call, "d.w64(k64(r))", `sf(x) + " " + sf(y) + " -> " + sf(r)`, 1511, 2)
		ys := "gridT"
		if fn == "Mod" || fn == "Remainder" {
			ys = "gridT[:14]" // the reference's Mod loops once per quotient bit
		}
		t.block("math."+fn+"/gridU-x", "for _, x := range gridU {\n\tfor _, y := range "+ys+" {", call, "d.w64(k64(r))", `sf(x) + " " + sf(y) + " -> " + sf(r)`, 20011, 2)
		nr := nrnd
		if (fn == "Mod" || fn == "Remainder") && nrnd > 100000 {
			nr = nrnd / 4 // the reference's Mod loops once per quotient bit (up to 2100 iterations)
		}
		t.block("math."+fn+"/rnd", rndOpenN("x, y := rndF(rg), rndF(rg)", nr), call, "d.w64(k64(r))", `sf(x) + " " + sf(y) + " -> " + sf(r)`, nr/7+1, 1)
		if fn == "Mod" || fn == "Remainder" || fn == "Nextafter" || fn == "Dim" {
			// near arguments: y within a few ulp / small multiples of x (tiny ratios), and huge ratios
			t.block("math."+fn+"/rnd-near", rndOpen("x := rndF(rg)\n\t\tc := rg.next()\n\t\ty := x\n\t\tswitch c % 5 {\n\t\tcase 0:\n\t\t\ty = math.Float64frombits(math.Float64bits(x) + c>>60)\n\t\tcase 1:\n\t\t\ty = x * float64(1+(c>>8)%9)\n\t\tcase 2:\n\t\t\ty = x / float64(1+(c>>8)%9)\n\t\tcase 3:\n\t\t\ty = x * 0.5\n\t\tcase 4:\n\t\t\ty = x * 0x1p-900 * float64(1+(c>>8)%1000)\n\t\t}"),
				call, "d.w64(k64(r))", `sf(x) + " " + sf(y) + " -> " + sf(r)`, nrnd/7+1, 1)
		}
	}
	{
		t := mk("Nextafter32")
		call := "r := math.Nextafter32(x, y)"
		t.block("math.Nextafter32/grid2", "for _, x := range gridG {\n\tfor _, y := range gridG {", call, "d.w64(k32(r))", `sg(x) + " " + sg(y) + " -> " + sg(r)`, 311, 2)
		t.block("math.Nextafter32/rnd", rndOpen("x, y := rndG(rg), rndG(rg)"), call, "d.w64(k32(r))", `sg(x) + " " + sg(y) + " -> " + sg(r)`, nrnd/7+1, 1)
	}
	{
		t := mk("Ldexp")
		t.pre.WriteString("var bigExps = []int{-1073741824, -100000, -4000, 4000, 100000, 1073741824}\n")
		call := "r := math.Ldexp(x, e)"
		t.block("math.Ldexp/grid-allexp", "for _, x := range gridL {\n\tfor e := -2200; e <= 2200; e++ {", call, "d.w64(k64(r))", `sf(x) + " " + itoa(e) + " -> " + sf(r)`, 30011, 2)
		t.block("math.Ldexp/grid-bigexp", "for _, x := range gridB {\n\tfor _, e := range bigExps {", call, "d.w64(k64(r))", `sf(x) + " " + itoa(e) + " -> " + sf(r)`, 101, 2)
		t.block("math.Ldexp/gridU-exp", "for _, x := range gridU {\n\tfor _, e := range []int{-1075, -1074, -1023, -1022, -53, -1, 0, 1, 52, 53, 1023, 1024, 2098} {", call, "d.w64(k64(r))", `sf(x) + " " + itoa(e) + " -> " + sf(r)`, 20011, 2)
		t.block("math.Ldexp/rnd", rndOpen("x := rndF(rg)\n\t\te := int(rg.next()%4401) - 2200"), call, "d.w64(k64(r))", `sf(x) + " " + itoa(e) + " -> " + sf(r)`, nrnd/7+1, 1)
		// results that land in the subnormal range: exponent chosen from the argument's exponent
		t.block("math.Ldexp/rnd-subnormal", rndOpen("x := rndF(rg)\n\t\t_, xe := math.Frexp(x)\n\t\te := -1022 - xe - int(rg.next()%56)"), call, "d.w64(k64(r))", `sf(x) + " " + itoa(e) + " -> " + sf(r)`, nrnd/7+1, 1)
	}
	{
		t := mk("FMA")
		call := "r := math.FMA(x, y, z)"
		t.block("math.FMA/grid3", "for _, x := range gridT {\n\tfor _, y := range gridT {\n\tfor _, z := range gridT {", call, "d.w64(k64(r))", `sf(x) + " " + sf(y) + " " + sf(z) + " -> " + sf(r)`, 10007, 3)
		t.block("math.FMA/rnd", rndOpen("x, y, z := rndF(rg), rndF(rg), rndF(rg)"), call, "d.w64(k64(r))", `sf(x) + " " + sf(y) + " " + sf(z) + " -> " + sf(r)`, nrnd/7+1, 1)
		// cancellation: z close to -(x*y)
		t.block("math.FMA/rnd-cancel", rndOpen("x, y := rndF(rg), rndF(rg)\n\t\tz := -(x * y)\n\t\tif rg.next()&1 == 0 {\n\t\t\tz = math.Float64frombits(math.Float64bits(z) ^ (rg.next() & 3))\n\t\t}"), call, "d.w64(k64(r))", `sf(x) + " " + sf(y) + " " + sf(z) + " -> " + sf(r)`, nrnd/7+1, 1)
	}
	return out
}

// ---------------------------------------------------------------------------------------------
// math – special-case class: functions delegated to the JS engine's libm (or to a different
// algorithm than the one the reference runs on amd64) are only CALLED on the special cases that
// their Go doc comments document ("Special cases are:" in $GOROOT/src/math/*.go, extracted by
// hand below) plus a handful of exactly-representable identities.
// ---------------------------------------------------------------------------------------------

type spCase struct {
	Fn   string   // math function
	Args []string // Go expressions
	Doc  string   // the documented rule it instantiates
}

func sp1(fn, doc string, args ...string) []spCase {
	var out []spCase
	for _, a := range args {
		out = append(out, spCase{fn, []string{a}, doc})
	}
	return out
}

func sp2(fn, doc string, xs, ys []string) []spCase {
	var out []spCase
	for _, x := range xs {
		for _, y := range ys {
			out = append(out, spCase{fn, []string{x, y}, doc})
		}
	}
	return out
}

const (
	above1  = "0x1.0000000000001p+00"
	below1  = "0x1.fffffffffffffp-01"
	maxF    = "0x1.fffffffffffffp+1023"
	minSub  = "0x1p-1074"
	bigOdd  = "9007199254740991.0" // 2^53-1, the largest odd integer
	bigEven = "9007199254740992.0"
)

func mathSpecialCases() []spCase {
	var c []spCase
	add := func(cs []spCase) { c = append(c, cs...) }
	zs := []string{"pz", "nz"}
	infs := []string{"pinf", "ninf"}
	outside1 := []string{"-" + above1, above1, "-2.0", "2.0", "-" + maxF, maxF, "pinf", "ninf"}
	anyX := []string{"pz", "nz", "1.0", "-1.0", "2.0", "-2.0", "0.5", "-0.5", "3.5", "-3.5", "pinf", "ninf", "nan", maxF, "-" + maxF, minSub, "-" + minSub}
	finite := []string{"pz", "nz", "1.0", "-1.0", "2.5", "-2.5", maxF, "-" + maxF, minSub, "-" + minSub}

	add(sp1("Acos", "Acos(x) = NaN if x < -1 or x > 1", append([]string{"nan"}, outside1...)...))
	add(sp1("Acos", "exact: Acos(1) = 0", "1.0"))
	add(sp1("Acosh", "Acosh(+Inf) = +Inf; Acosh(x) = NaN if x < 1; Acosh(NaN) = NaN", "pinf", "nan", below1, "0.5", "pz", "nz", "-1.0", "-"+maxF, "ninf"))
	add(sp1("Acosh", "exact: Acosh(1) = 0", "1.0"))
	add(sp1("Asin", "Asin(±0) = ±0; Asin(x) = NaN if x < -1 or x > 1", append([]string{"pz", "nz", "nan"}, outside1...)...))
	add(sp1("Asinh", "Asinh(±0) = ±0; Asinh(±Inf) = ±Inf; Asinh(NaN) = NaN", "pz", "nz", "pinf", "ninf", "nan"))
	add(sp1("Atan", "Atan(±0) = ±0; Atan(±Inf) = ±Pi/2", "pz", "nz", "pinf", "ninf", "nan"))
	add(sp1("Atanh", "Atanh(1) = +Inf; Atanh(±0) = ±0; Atanh(-1) = -Inf; Atanh(x) = NaN if x < -1 or x > 1; Atanh(NaN) = NaN", append([]string{"1.0", "-1.0", "pz", "nz", "nan"}, outside1...)...))
	add(sp1("Cbrt", "Cbrt(±0) = ±0; Cbrt(±Inf) = ±Inf; Cbrt(NaN) = NaN", "pz", "nz", "pinf", "ninf", "nan"))
	add(sp1("Cbrt", "exact: cube roots of ±1, ±8", "1.0", "-1.0", "8.0", "-8.0"))
	add(sp1("Cos", "Cos(±Inf) = NaN; Cos(NaN) = NaN", "pinf", "ninf", "nan"))
	add(sp1("Cos", "exact: Cos(±0) = 1", "pz", "nz"))
	add(sp1("Cosh", "Cosh(±0) = 1; Cosh(±Inf) = +Inf; Cosh(NaN) = NaN", "pz", "nz", "pinf", "ninf", "nan"))
	add(sp1("Erf", "Erf(+Inf) = 1; Erf(-Inf) = -1; Erf(NaN) = NaN", "pinf", "ninf", "nan", "pz", "nz"))
	add(sp1("Erfc", "Erfc(+Inf) = 0; Erfc(-Inf) = 2; Erfc(NaN) = NaN", "pinf", "ninf", "nan"))
	add(sp1("Erfinv", "Erfinv(1) = +Inf; Erfinv(-1) = -Inf; Erfinv(x) = NaN if x < -1 or x > 1; Erfinv(NaN) = NaN", append([]string{"1.0", "-1.0", "nan"}, outside1...)...))
	add(sp1("Erfcinv", "Erfcinv(0) = +Inf; Erfcinv(2) = -Inf; Erfcinv(x) = NaN if x < 0 or x > 2; Erfcinv(NaN) = NaN", "pz", "2.0", "nan", "-"+minSub, "-1.0", "0x1.0000000000001p+01", "3.0", "pinf", "ninf"))
	add(sp1("Exp", "Exp(+Inf) = +Inf; Exp(NaN) = NaN; (exp(-Inf) is 0, exp(0) = 1 is exact; very large values overflow to 0 or +Inf)", "pinf", "nan", "ninf", "pz", "nz", "1000.0", "-1000.0", maxF, "-"+maxF))
	add(sp1("Exp2", "special cases are the same as Exp", "pinf", "nan", "ninf", "pz", "nz", "2000.0", "-2000.0", maxF, "-"+maxF))
	add(sp1("Expm1", "Expm1(+Inf) = +Inf; Expm1(-Inf) = -1; Expm1(NaN) = NaN", "pinf", "ninf", "nan", "pz", "nz", "1000.0", "-1000.0"))
	add(sp1("Gamma", "Gamma(+Inf) = +Inf; Gamma(+0) = +Inf; Gamma(-0) = -Inf; Gamma(x) = NaN for integer x < 0; Gamma(-Inf) = NaN; Gamma(NaN) = NaN", "pinf", "pz", "nz", "-1.0", "-2.0", "-3.0", "-100.0", "-"+bigEven, "-1e300", "ninf", "nan"))
	add(sp2("Hypot", "Hypot(±Inf, q) = +Inf; Hypot(p, ±Inf) = +Inf; Hypot(NaN, q) = NaN; Hypot(p, NaN) = NaN", append(append([]string{"nan"}, infs...), "pz", "nz", "1.0", "-3.0", maxF), append(append([]string{"nan"}, infs...), "pz", "nz", "1.0", "-4.0", maxF)))
	add(sp1("J0", "J0(±Inf) = 0; J0(0) = 1; J0(NaN) = NaN", "pinf", "ninf", "pz", "nz", "nan"))
	add(sp1("J1", "J1(±Inf) = 0; J1(NaN) = NaN", "pinf", "ninf", "nan", "pz", "nz"))
	add(sp1("Y0", "Y0(+Inf) = 0; Y0(0) = -Inf; Y0(x < 0) = NaN; Y0(NaN) = NaN", "pinf", "pz", "nz", "-1.0", "-"+minSub, "ninf", "nan"))
	add(sp1("Y1", "Y1(+Inf) = 0; Y1(0) = -Inf; Y1(x < 0) = NaN; Y1(NaN) = NaN", "pinf", "pz", "nz", "-1.0", "-"+minSub, "ninf", "nan"))
	for _, fn := range []string{"Log", "Log2", "Log10"} {
		add(sp1(fn, fn+"(+Inf) = +Inf; (0) = -Inf; (x < 0) = NaN; (NaN) = NaN", "pinf", "pz", "nz", "-"+minSub, "-1.0", "-"+maxF, "ninf", "nan"))
		add(sp1(fn, "exact: "+fn+"(1) = 0", "1.0"))
	}
	add(sp1("Log1p", "Log1p(+Inf) = +Inf; Log1p(±0) = ±0; Log1p(-1) = -Inf; Log1p(x < -1) = NaN; Log1p(NaN) = NaN", "pinf", "pz", "nz", "-1.0", "-"+above1, "-2.0", "-"+maxF, "ninf", "nan"))
	add(sp1("Sin", "Sin(±0) = ±0; Sin(±Inf) = NaN; Sin(NaN) = NaN", "pz", "nz", "pinf", "ninf", "nan"))
	add(sp1("Sinh", "Sinh(±0) = ±0; Sinh(±Inf) = ±Inf; Sinh(NaN) = NaN", "pz", "nz", "pinf", "ninf", "nan"))
	add(sp1("Tan", "Tan(±0) = ±0; Tan(±Inf) = NaN; Tan(NaN) = NaN", "pz", "nz", "pinf", "ninf", "nan"))
	add(sp1("Tanh", "Tanh(±0) = ±0; Tanh(±Inf) = ±1; Tanh(NaN) = NaN", "pz", "nz", "pinf", "ninf", "nan"))
	// Atan2 (in order)
	posX := []string{"pz", "1.0", minSub, maxF, "pinf"}
	negX := []string{"nz", "-1.0", "-" + minSub, "-" + maxF, "ninf"}
	posY := []string{"1.0", minSub, maxF}
	negY := []string{"-1.0", "-" + minSub, "-" + maxF}
	add(sp2("Atan2", "Atan2(y, NaN) = NaN; Atan2(NaN, x) = NaN", append([]string{"nan"}, anyX...), []string{"nan"}))
	add(sp2("Atan2", "Atan2(NaN, x) = NaN", []string{"nan"}, anyX))
	add(sp2("Atan2", "Atan2(+0, x>=0) = +0; Atan2(-0, x>=0) = -0", zs, posX))
	add(sp2("Atan2", "Atan2(+0, x<=-0) = +Pi; Atan2(-0, x<=-0) = -Pi", zs, negX))
	add(sp2("Atan2", "Atan2(y>0, 0) = +Pi/2; Atan2(y<0, 0) = -Pi/2", append(append([]string{"pinf", "ninf"}, posY...), negY...), zs))
	add(sp2("Atan2", "Atan2(±Inf, ±Inf) = ±Pi/4, ±3Pi/4", infs, infs))
	add(sp2("Atan2", "Atan2(y, +Inf) = 0; Atan2(y>0, -Inf) = +Pi; Atan2(y<0, -Inf) = -Pi", append(append([]string{}, posY...), negY...), infs))
	add(sp2("Atan2", "Atan2(+Inf, x) = +Pi/2; Atan2(-Inf, x) = -Pi/2", infs, finite))
	// Pow (in order)
	add(sp2("Pow", "Pow(x, ±0) = 1 for any x", anyX, zs))
	add(sp2("Pow", "Pow(1, y) = 1 for any y", []string{"1.0"}, anyX))
	add(sp2("Pow", "Pow(x, 1) = x for any x", append([]string{"0.1", "-0.1", "1e300", "0x1.fffffffffffffp-1023"}, anyX...), []string{"1.0"}))
	add(sp2("Pow", "Pow(NaN, y) = NaN; Pow(x, NaN) = NaN", []string{"nan"}, []string{"1.5", "-1.0", "pinf", "ninf", "2.0", "nan"}))
	add(sp2("Pow", "Pow(x, NaN) = NaN", []string{"pz", "nz", "-1.0", "2.0", "-2.0", "0.5", "pinf", "ninf"}, []string{"nan"}))
	oddNeg := []string{"-1.0", "-3.0", "-5.0", "-" + bigOdd}
	oddPos := []string{"3.0", "5.0", bigOdd}
	nonOddNeg := []string{"-2.0", "-4.0", "-0.5", "-1.5", "-" + minSub, "-" + bigEven, "-" + maxF}
	nonOddPos := []string{"2.0", "4.0", "0.5", "1.5", minSub, bigEven, maxF}
	add(sp2("Pow", "Pow(±0, y) = ±Inf for y an odd integer < 0", zs, oddNeg))
	add(sp2("Pow", "Pow(±0, -Inf) = +Inf; Pow(±0, +Inf) = +0", zs, infs))
	add(sp2("Pow", "Pow(±0, y) = +Inf for finite y < 0 and not an odd integer", zs, nonOddNeg))
	add(sp2("Pow", "Pow(±0, y) = ±0 for y an odd integer > 0", zs, oddPos))
	add(sp2("Pow", "Pow(±0, y) = +0 for finite y > 0 and not an odd integer", zs, nonOddPos))
	add(sp2("Pow", "Pow(-1, ±Inf) = 1", []string{"-1.0"}, infs))
	add(sp2("Pow", "Pow(x, ±Inf) for |x| > 1 and |x| < 1", []string{"2.0", "-2.0", above1, "-" + above1, maxF, "-" + maxF, "0.5", "-0.5", below1, "-" + below1, minSub, "-" + minSub, "pinf", "ninf"}, infs))
	add(sp2("Pow", "Pow(+Inf, y) = +Inf for y > 0; Pow(+Inf, y) = +0 for y < 0", []string{"pinf"}, append(append(append(append([]string{}, oddNeg...), oddPos...), nonOddNeg...), nonOddPos...)))
	add(sp2("Pow", "Pow(-Inf, y) = Pow(-0, -y)", []string{"ninf"}, append(append(append(append([]string{}, oddNeg...), oddPos...), nonOddNeg...), nonOddPos...)))
	add(sp2("Pow", "Pow(x, y) = NaN for finite x < 0 and finite non-integer y", []string{"-1.0", "-2.0", "-0.5", "-" + minSub, "-" + maxF}, []string{"0.5", "-0.5", "1.5", "-1.5", minSub, "0x1.fffffffffffffp+51", "0.1"}))
	// Sincos
	add(sp1("Sincos", "Sincos(±0) = ±0, 1; Sincos(±Inf) = NaN, NaN; Sincos(NaN) = NaN, NaN", "pz", "nz", "pinf", "ninf", "nan"))
	add(sp1("Lgamma", "Lgamma(+Inf) = +Inf; Lgamma(0) = +Inf; Lgamma(-integer) = +Inf; Lgamma(-Inf) = -Inf; Lgamma(NaN) = NaN", "pinf", "pz", "nz", "-1.0", "-2.0", "-100.0", "ninf", "nan"))
	return c
}

// exact identities on exactly-representable results (powers of two).
const mathPow2Blocks = `
func pow2Blocks() {
	if want("math.Pow/exact-pow2") {
		d := begin("math.Pow/exact-pow2")
		for k := -1080; k <= 1030; k++ {
			r := math.Pow(2, float64(k))
			d.w64(k64(r))
			d.n++
			if d.v || d.n%211 == 0 {
				d.show(itoa(k) + " -> " + sf(r))
			}
		}
		d.end()
	}
	if want("math.Exp2/exact-int") {
		d := begin("math.Exp2/exact-int")
		for k := -1080; k <= 1030; k++ {
			r := math.Exp2(float64(k))
			d.w64(k64(r))
			d.n++
			if d.v || d.n%211 == 0 {
				d.show(itoa(k) + " -> " + sf(r))
			}
		}
		d.end()
	}
	if want("math.Log2/exact-pow2") {
		d := begin("math.Log2/exact-pow2")
		p := 0x1p-1074
		for k := -1074; k <= 1023; k++ {
			r := math.Log2(p)
			d.w64(k64(r))
			d.n++
			if d.v || d.n%211 == 0 {
				d.show(sf(p) + " -> " + sf(r))
			}
			p *= 2
		}
		d.end()
	}
	if want("math.Pow10/all") {
		d := begin("math.Pow10/all")
		for k := -400; k <= 400; k++ {
			r := math.Pow10(k)
			d.w64(k64(r))
			d.n++
			if d.v || d.n%97 == 0 {
				d.show(itoa(k) + " -> " + sf(r))
			}
		}
		d.end()
	}
}
`

func mathSpecialFns() []string {
	m := map[string]bool{}
	for _, c := range mathSpecialCases() {
		m[c.Fn] = true
	}
	var out []string
	for k := range m {
		out = append(out, k)
	}
	sort.Strings(out)
	return out
}

func mathSpecialProgram() (*tprog, int) {
	t := newTprog("math-special", "math")
	t.files["zz_mathlib.go"] = mathLib
	cases := mathSpecialCases()
	byFn := map[string][]spCase{}
	var order []string
	for _, c := range cases {
		if _, ok := byFn[c.Fn]; !ok {
			order = append(order, c.Fn)
		}
		byFn[c.Fn] = append(byFn[c.Fn], c)
	}
	var b strings.Builder
	for _, fn := range order {
		name := "math." + fn + "/special"
		fmt.Fprintf(&b, "func sp_%s() {\n\td := begin(%q)\n", fn, name)
		for _, c := range byFn[fn] {
			args := strings.Join(c.Args, ", ")
			shown := make([]string, len(c.Args))
			for i, a := range c.Args {
				shown[i] = "sf(" + a + ")"
			}
			switch fn {
			case "Sincos":
				fmt.Fprintf(&b, "\t{\n\t\tr, s := math.Sincos(%s)\n\t\td.w64(k64(r))\n\t\td.w64(k64(s))\n\t\td.n++\n\t\td.show(%s + \" -> \" + sf(r) + \" \" + sf(s))\n\t}\n", args, strings.Join(shown, ` + " " + `))
			case "Lgamma":
				fmt.Fprintf(&b, "\t{\n\t\tr, s := math.Lgamma(%s)\n\t\td.w64(k64(r))\n\t\td.wi(s)\n\t\td.n++\n\t\td.show(%s + \" -> \" + sf(r) + \" \" + itoa(s))\n\t}\n", args, strings.Join(shown, ` + " " + `))
			default:
				fmt.Fprintf(&b, "\t{\n\t\tr := math.%s(%s)\n\t\td.w64(k64(r))\n\t\td.n++\n\t\td.show(%s + \" -> \" + sf(r))\n\t}\n", fn, args, strings.Join(shown, ` + " " + `))
			}
		}
		b.WriteString("\td.end()\n}\n\n")
		t.calls = append(t.calls, fmt.Sprintf("\tif want(%q) {\n\t\tsp_%s()\n\t}\n", name, fn))
	}
	b.WriteString(mathPow2Blocks)
	t.calls = append(t.calls, "\tpow2Blocks()\n")
	t.blocks.WriteString(b.String())
	return t, len(cases)
}
