// Package c13 – JavaScript-backed standard-library overrides equal the Go originals.
//
// Reference-implementation monitor: generated table-driven programs call every overridden
// function (math, math/bits, unicode/utf8/utf16, sync/atomic) over boundary grids, exhaustive
// small domains and in-program PRNG arguments, print one digest per (function, argument class)
// and are compiled by GopherJS and by the reference toolchain; digests and sampled raw results
// are compared line by line, mismatches are localised by a verbose re-run of the one block.
// nosync is executed against package sync on the host (same program, build-tag switch) and the
// recorded histories are checked with porcupine against sequential models of the primitives.
package c13

import (
	"fmt"
	"os"
	"sort"
	"strings"

	"verif/internal/core"
)

// Run is the C13 check.
func Run(c *core.Ctx) int {
	nrnd := c.N(10000, 1000000)
	only := os.Getenv("C13_ONLY") // development aid: substring filter on program names

	var tables []*tprog
	tables = append(tables, mathExactPrograms(c.Rand("math-exact"), nrnd, c.N(11, 1))...)
	spProg, nSpecial := mathSpecialProgram()
	tables = append(tables, spProg)
	tables = append(tables, bitsPrograms(c.Rand("bits"), nrnd)...)
	tables = append(tables, unicodePrograms(c.Rand("unicode"), c.Quick())...)
	tables = append(tables, atomicPrograms(c.Rand("atomic"), c.N(4000, 200000))...)

	nos := nosyncJobs(c.Rand("nosync"), c.N(2, 16), c.N(80, 100), c.N(40, 120))

	if only != "" {
		var ft []*tprog
		for _, t := range tables {
			if strings.Contains(t.name, only) {
				ft = append(ft, t)
			}
		}
		tables = ft
		var fn []*nosyncJob
		for _, j := range nos {
			if strings.Contains(j.name, only) {
				fn = append(fn, j)
			}
		}
		nos = fn
	}

	// heavy programs first so that the parallel schedule is tight
	sort.SliceStable(tables, func(i, j int) bool { return weight(tables[i].name) > weight(tables[j].name) })

	// the history oracle must reject hand-made illegal histories, otherwise it is vacuous
	rej, tot := modelSelfCheck()
	c.Count("model_selfcheck_illegal_histories_rejected", rej)
	if rej != tot {
		c.Inconclusive("model-selfcheck-failed")
		fmt.Printf("MACHINERY-FAILURE property=C13 sequential models accept %d of %d illegal histories\n", tot-rej, tot)
		return 2
	}

	st := newTstats()
	ns := newNosyncStats()
	total := len(tables) + len(nos)
	c.Parallel(total, func(i int) {
		if i < len(tables) {
			runTable(c, st, tables[i])
			return
		}
		runNosync(c, ns, nos[i-len(tables)])
	})

	c.Count("table_programs", st.programs)
	c.Count("digest_lines_compared", st.digests)
	c.Count("sample_lines_compared", st.samples)
	c.Count("function_evaluations_digested", st.evals)
	c.Count("math_special_case_calls", nSpecial)
	c.Count("nosync_programs", ns.programs)
	c.Count("nosync_histories", ns.histories)
	c.Count("nosync_steps_compared_with_sync", ns.stepsCompared)
	c.Count("nosync_js_only_steps", ns.jsOnlySteps)
	c.Count("porcupine_ok", ns.porcOK)
	c.Count("porcupine_illegal", ns.porcIllegal)
	c.Count("porcupine_unknown", ns.porcUnknown)
	c.Count("porcupine_native_ok", ns.porcNativeOK)
	c.Count("porcupine_native_illegal", ns.porcNativeIllegal)

	fnList := core.SortedKeys(st.perFn)
	perFn := map[string]any{}
	for _, f := range fnList {
		perFn[f] = map[string]int{"evaluations": st.perFn[f], "digests": st.perFnDig[f]}
	}
	extra := map[string]any{
		"math_exact_class":        mathExact,
		"math_special_case_class": mathSpecialFns(),
		"functions_covered":       len(fnList),
		"per_function":            perFn,
		"nosync_per_primitive":    ns.perPrim,
		"porcupine": map[string]int{"ok": ns.porcOK, "illegal": ns.porcIllegal, "unknown": ns.porcUnknown,
			"native_sync_histories_ok": ns.porcNativeOK, "native_sync_histories_illegal": ns.porcNativeIllegal},
		"not_covered": []string{
			"internal/bytealg and runtime overrides (not importable from a workload program; string comparison/copy call sites belong to C14)",
			"math functions outside the special-case tables are never called on ordinary arguments (V8 and Go legitimately differ in the last ulp)",
			"sync/atomic And*/Or* (added after the Go version the overlay targets; no override exists)",
			"nosync has no TryLock/TryRLock/LoadAndDelete/Swap/CompareAndSwap/CompareAndDelete: only methods present in both packages are compared",
		},
	}
	distinct := len(st.distinct) + ns.distinctStates()
	evals := st.evals + st.samples + ns.stepsCompared + ns.jsOnlySteps
	floor := 1500
	if only != "" {
		floor = 2
	}
	return c.Finish("exploration", evals, distinct, floor,
		"table-driven programs per overridden function: digest per (function, argument class) over boundary grids (±0, subnormals, 2^k±1ulp for all k, integer-conversion neighbourhoods, halves, ±Inf, NaN) ⊗ second-argument grids, exhaustive 8/16-bit domains, all 0x110000 code points (digest per 4096 block), in-program PRNG bit patterns; atomic op sequences (sequential and round-robin goroutine hand-off); compared line by line with the reference toolchain. nosync: random uncontended histories executed against package sync natively (step-by-step equality) and against sequential models with porcupine; contended/misuse terminal steps must panic with the documented message. distinct_nontrivial = distinct (digest name, digest value) pairs on the reference side + distinct model states visited by nosync histories",
		extra, []string{
			"reference toolchain go1.23.5 on amd64 computes what upstream Go specifies; the exact class only contains functions that are IEEE-exact or pure-Go deterministic there",
			"NaN payloads are not compared (every NaN is one key)",
			"bits.*(uint) variants are referenced against the 32-bit variants natively (UintSize is 32 under GopherJS)",
			"sync.Pool may drop items: Pool is compared with a set model on both sides, not step by step",
			"contended and misuse steps (fatal or blocking under package sync) are executed under GopherJS only and judged by the model",
		})
}

func weight(name string) int {
	switch {
	case strings.HasPrefix(name, "unicode"):
		return 9
	case strings.HasPrefix(name, "utf"):
		return 8
	case strings.Contains(name, "FMA"), strings.Contains(name, "Ldexp"), strings.Contains(name, "Mod"), strings.Contains(name, "Remainder"):
		return 7
	case strings.HasPrefix(name, "bits"):
		return 6
	}
	return 1
}

var _ = fmt.Sprint
