package c13

import (
	"fmt"
	"math/rand"
	"strings"
)

// sync/atomic: every function and typed value under PRNG-chosen sequential operation histories
// (every result and the state after every operation is digested; sampled / verbose lines show
// the operation) and under goroutine interleavings with a fixed round-robin hand-off through
// channels (deterministic by construction on both sides).

const atomicLib = `package main

var pickTab = []uint64{0, 1, 2, 3, 0x7fffffff, 0x80000000, 0xffffffff, 0x100000000, 0x7fffffffffffffff, 0x8000000000000000, 0xffffffffffffffff, 0xfffffffffffffffe, 0x123456789abcdef0, 0x5555555555555555}

func pickv(r *rng) uint64 {
	c := r.next()
	if c&3 != 0 {
		return pickTab[(c>>2)%uint64(len(pickTab))]
	}
	return r.next() >> ((c >> 2) % 64)
}

type pt struct{ a, b int }

// av renders an interface value held by atomic.Value.
func av(x interface{}) string {
	switch v := x.(type) {
	case nil:
		return "nil"
	case int:
		return "i:" + itoa(v)
	case string:
		return "s:" + v
	case pt:
		return "pt:" + itoa(v.a) + "," + itoa(v.b)
	case *pt:
		if v == nil {
			return "*pt:nil"
		}
		return "*pt:" + itoa(v.a)
	case []int:
		return "sl:" + itoa(len(v))
	case error:
		return "err:" + v.Error()
	}
	return "?"
}

var sharedPt = &pt{7, 7}

var valPool = []interface{}{1, 2, 3, 1, "a", "b", "a", pt{1, 2}, pt{1, 3}, pt{1, 2}, nil, nil, sharedPt, (*pt)(nil), []int{1}, 0, ""}
`

type atype struct {
	name  string // Int32 …
	typ   string // int32 …
	small bool   // keep values small (uintptr: width differs)
	show  string // rendering of a T value x
}

var atypes = []atype{
	{"Int32", "int32", false, "i64s(int64(%s))"},
	{"Int64", "int64", false, "i64s(int64(%s))"},
	{"Uint32", "uint32", false, "u64s(uint64(%s))"},
	{"Uint64", "uint64", false, "u64s(uint64(%s))"},
	{"Uintptr", "uintptr", true, "u64s(uint64(%s))"},
}

func atomicPrograms(r *rand.Rand, nops int) []*tprog {
	seed := func() string { return fmt.Sprintf("%d", r.Uint64()|1) }
	t := newTprog("atomic-seq", "sync/atomic", "unsafe")
	t.files["zz_atomiclib.go"] = atomicLib
	loop := func(pre string) string {
		return fmt.Sprintf("%s\n\trg := &rng{%s}\n\tfor i := 0; i < %d; i++ {", pre, seed(), nops)
	}
	for _, a := range atypes {
		sh := func(e string) string { return fmt.Sprintf(a.show, e) }
		conv := func(e string) string {
			if a.small {
				return a.typ + "(" + e + " & 0x3ff)"
			}
			return a.typ + "(" + e + ")"
		}
		mkEval := func(load, store, add, swap, cas, cur string) string {
			var b strings.Builder
			fmt.Fprintf(&b, "c := rg.next()\n\t\tx, y := %s, %s\n\t\tvar res %s\n\t\tok := false\n\t\top := \"\"\n\t\tswitch c %% 6 {\n", conv("pickv(rg)"), conv("pickv(rg)"), a.typ)
			fmt.Fprintf(&b, "\t\tcase 0:\n\t\t\tres = %s\n\t\t\top = \"Load\"\n", load)
			fmt.Fprintf(&b, "\t\tcase 1:\n\t\t\t%s\n\t\t\top = \"Store\"\n", store)
			fmt.Fprintf(&b, "\t\tcase 2:\n\t\t\tres = %s\n\t\t\top = \"Add\"\n", add)
			fmt.Fprintf(&b, "\t\tcase 3:\n\t\t\tres = %s\n\t\t\top = \"Swap\"\n", swap)
			fmt.Fprintf(&b, "\t\tcase 4:\n\t\t\ty = %s\n\t\t\tok = %s\n\t\t\top = \"CAS-cur\"\n", cur, cas)
			fmt.Fprintf(&b, "\t\tcase 5:\n\t\t\tok = %s\n\t\t\top = \"CAS-rnd\"\n", cas)
			b.WriteString("\t\t}\n\t\tstate := " + cur)
			return b.String()
		}
		digs := "d.w64(uint64(res))\n\t\td.wb(ok)\n\t\td.w64(uint64(state))"
		show := `op + " x=" + ` + sh("x") + ` + " old=" + ` + sh("y") + ` + " -> " + ` + sh("res") + ` + " " + btoa(ok) + " state=" + ` + sh("state")
		if a.small {
			// uintptr is 32 bits wide under GopherJS: no wrap-around, so keep the sum small
			// (Store/Swap reset it to < 1024, Add adds < 1024, at most nops times)
		}
		n := a.name
		t.block("atomic."+n+"-functions/seq", loop("var v "+a.typ),
			mkEval("atomic.Load"+n+"(&v)", "atomic.Store"+n+"(&v, x)", "atomic.Add"+n+"(&v, x)", "atomic.Swap"+n+"(&v, x)", "atomic.CompareAndSwap"+n+"(&v, y, x)", "v"),
			digs, show, nops/9+1, 1)
		t.block("atomic."+n+"-type/seq", loop("var v atomic."+n),
			mkEval("v.Load()", "v.Store(x)", "v.Add(x)", "v.Swap(x)", "v.CompareAndSwap(y, x)", "v.Load()"),
			digs, show, nops/9+1, 1)
	}
	// Bool
	t.block("atomic.Bool-type/seq", loop("var v atomic.Bool"),
		"c := rg.next()\n\t\tx, y := c&8 != 0, c&16 != 0\n\t\tres, ok := false, false\n\t\top := \"\"\n\t\tswitch c % 4 {\n\t\tcase 0:\n\t\t\tres = v.Load()\n\t\t\top = \"Load\"\n\t\tcase 1:\n\t\t\tv.Store(x)\n\t\t\top = \"Store\"\n\t\tcase 2:\n\t\t\tres = v.Swap(x)\n\t\t\top = \"Swap\"\n\t\tcase 3:\n\t\t\tok = v.CompareAndSwap(y, x)\n\t\t\top = \"CAS\"\n\t\t}\n\t\tstate := v.Load()",
		"d.wb(res)\n\t\td.wb(ok)\n\t\td.wb(state)", `op + " x=" + btoa(x) + " old=" + btoa(y) + " -> " + btoa(res) + " " + btoa(ok) + " state=" + btoa(state)`, nops/9+1, 1)
	// Pointer[T] and unsafe.Pointer functions
	t.pre.WriteString("var ptrs = []*int{nil, new(int), new(int), new(int), new(int)}\n\nfunc pidx(p *int) int {\n\tfor i, q := range ptrs {\n\t\tif p == q {\n\t\t\treturn i\n\t\t}\n\t}\n\treturn -1\n}\n\n// a zero unsafe.Pointer and unsafe.Pointer((*int)(nil)) are both index 0 (their representations\n// differ under GopherJS; that is a conversion matter outside this property)\nfunc uidx(p unsafe.Pointer) int {\n\tif p == nil {\n\t\treturn 0\n\t}\n\treturn pidx((*int)(p))\n}\n\n")
	ptrEval := func(load, store, swap, cas, wrap string) string {
		pick := "ptrs[(c>>8)%5], ptrs[(c>>16)%5]"
		if wrap == "uidx" {
			// nil pointers converted to unsafe.Pointer are not nil under GopherJS (a conversion
			// matter outside this property, reported separately): only non-nil pointers here;
			// nil is covered by atomic.Pointer[T]
			pick = "ptrs[1+(c>>8)%4], ptrs[1+(c>>16)%4]"
		}
		return "c := rg.next()\n\t\tx, y := " + pick + "\n\t\tres, ok := -2, false\n\t\top := \"\"\n\t\tswitch c % 4 {\n\t\tcase 0:\n\t\t\tres = " + wrap + "(" + load + ")\n\t\t\top = \"Load\"\n\t\tcase 1:\n\t\t\t" + store + "\n\t\t\top = \"Store\"\n\t\tcase 2:\n\t\t\tres = " + wrap + "(" + swap + ")\n\t\t\top = \"Swap\"\n\t\tcase 3:\n\t\t\tok = " + cas + "\n\t\t\top = \"CAS\"\n\t\t}\n\t\tstate := " + wrap + "(" + load + ")"
	}
	pshow := `op + " x=" + itoa(pidx(x)) + " old=" + itoa(pidx(y)) + " -> " + itoa(res) + " " + btoa(ok) + " state=" + itoa(state)`
	t.block("atomic.Pointer[T]-type/seq", loop("var v atomic.Pointer[int]"), ptrEval("v.Load()", "v.Store(x)", "v.Swap(x)", "v.CompareAndSwap(y, x)", "pidx"), "d.wi(res)\n\t\td.wb(ok)\n\t\td.wi(state)", pshow, nops/9+1, 1)
	t.block("atomic.Pointer-functions/seq", loop("v := unsafe.Pointer(ptrs[1])"), ptrEval("atomic.LoadPointer(&v)", "atomic.StorePointer(&v, unsafe.Pointer(x))", "atomic.SwapPointer(&v, unsafe.Pointer(x))", "atomic.CompareAndSwapPointer(&v, unsafe.Pointer(y), unsafe.Pointer(x))", "uidx"), "d.wi(res)\n\t\td.wb(ok)\n\t\td.wi(state)", pshow, nops/9+1, 1)
	// Value incl. its panics
	t.pre.WriteString(`func valOp(v *atomic.Value, op int, x, y interface{}) (res string) {
	defer func() {
		if e := recover(); e != nil {
			res = "panic " + recovered(e)
		}
	}()
	switch op {
	case 0:
		return "Load -> " + av(v.Load())
	case 1:
		v.Store(x)
		return "Store " + av(x)
	case 2:
		return "Swap " + av(x) + " -> " + av(v.Swap(x))
	}
	return "CAS " + av(y) + " " + av(x) + " -> " + btoa(v.CompareAndSwap(y, x))
}

`)
	t.block("atomic.Value/seq", loop("v := new(atomic.Value)"),
		"c := rg.next()\n\t\tif c%41 == 0 {\n\t\t\tv = new(atomic.Value)\n\t\t}\n\t\tx, y := valPool[(c>>8)%uint64(len(valPool))], valPool[(c>>20)%uint64(len(valPool))]\n\t\tif c&(1<<40) != 0 {\n\t\t\ty = v.Load()\n\t\t}\n\t\tres := valOp(v, int((c>>4)%4), x, y)\n\t\tstate := av(v.Load())",
		"d.ws(res)\n\t\td.ws(state)", `q(res) + " state=" + q(state)`, nops/19+1, 1)
	// directed misuse cases of Value (documented panics)
	t.pre.WriteString(`var valMisuse = []struct {
	first interface{}
	op    int
	x, y  interface{}
}{
	{nil, 1, nil, nil}, {1, 1, nil, nil}, {nil, 2, nil, nil}, {1, 2, nil, nil}, {nil, 3, nil, nil}, {nil, 3, nil, 1}, {1, 3, nil, 1},
	{1, 1, "a", nil}, {"a", 1, 1, nil}, {1, 2, "a", nil}, {pt{1, 2}, 1, &pt{1, 2}, nil}, {1, 1, int64Val, nil},
	{1, 3, 2, "a"}, {1, 3, "a", "b"}, {1, 3, "a", 1}, {nil, 3, 2, "a"}, {nil, 3, 1, 1}, {nil, 3, 1, nil}, {1, 3, 2, nil}, {1, 3, 2, 1}, {1, 3, 2, 3},
	{[]int{1}, 3, []int{2}, []int{1}}, {nil, 3, []int{2}, []int{1}}, {pt{1, 2}, 3, pt{3, 4}, pt{1, 2}}, {pt{1, 2}, 3, pt{3, 4}, pt{1, 3}},
	{sharedPt, 3, (*pt)(nil), sharedPt}, {sharedPt, 3, (*pt)(nil), &pt{7, 7}},
}

var int64Val interface{} = int64(1)

`)
	t.block("atomic.Value/misuse", "for _, m := range valMisuse {", "v := new(atomic.Value)\n\t\tif m.first != nil {\n\t\t\tv.Store(m.first)\n\t\t}\n\t\tres := valOp(v, m.op, m.x, m.y)\n\t\tstate := av(v.Load())", "d.ws(res)\n\t\td.ws(state)", `"first=" + av(m.first) + " " + q(res) + " state=" + q(state)`, 1, 1)

	// ---- goroutine interleavings
	u := newTprog("atomic-conc", "sync/atomic", "runtime")
	u.files["zz_atomiclib.go"] = atomicLib
	kops := nops / 4
	if kops > 20000 {
		kops = 20000 // channel hand-offs and contended CAS loops are slow on both sides
	}
	kfree := kops
	if kfree > 4000 {
		kfree = 4000
	}
	fmt.Fprintf(&u.blocks, `func roundRobin() {
	d := begin("atomic.mixed/round-robin")
	const G = 4
	const K = %d
	var chs [G]chan int
	for i := range chs {
		chs[i] = make(chan int)
	}
	done := make(chan bool)
	var a32 int32
	var u32 atomic.Uint32
	var a64 int64
	var t64 atomic.Int64
	var u64 uint64
	var tb atomic.Bool
	var val atomic.Value
	var pp atomic.Pointer[pt]
	for g := 0; g < G; g++ {
		go func(g int) {
			rg := &rng{%s + uint64(g)*2}
			for k := 0; k < K; k++ {
				<-chs[g]
				c := rg.next()
				x := pickv(rg)
				s := ""
				switch c %% 9 {
				case 0:
					r := atomic.AddInt32(&a32, int32(x))
					d.w64(uint64(r))
					s = "AddInt32 " + i64s(int64(r))
				case 1:
					old := atomic.LoadInt64(&a64)
					runtime.Gosched()
					ok := atomic.CompareAndSwapInt64(&a64, old, old+int64(x))
					d.wb(ok)
					d.w64(uint64(atomic.LoadInt64(&a64)))
					s = "CAS64 " + btoa(ok) + " " + i64s(a64)
				case 2:
					r := t64.Add(int64(x))
					runtime.Gosched()
					d.w64(uint64(r))
					d.w64(uint64(t64.Load()))
					s = "Int64.Add " + i64s(r)
				case 3:
					r := atomic.SwapUint64(&u64, x)
					d.w64(r)
					s = "SwapUint64 " + u64s(r)
				case 4:
					r := tb.Swap(c&16 != 0)
					d.wb(r)
					s = "Bool.Swap " + btoa(r)
				case 5:
					val.Store(int(uint32(x) >> 8))
					runtime.Gosched()
					s = "Value " + av(val.Load())
					d.ws(s)
				case 6:
					old := u32.Load()
					runtime.Gosched()
					ok := u32.CompareAndSwap(old, old*3+uint32(g))
					d.wb(ok)
					d.w(u32.Load())
					s = "Uint32.CAS " + btoa(ok) + " " + u64s(uint64(u32.Load()))
				case 7:
					np := &pt{g, k}
					oldp := pp.Swap(np)
					s = "Pointer.Swap " + av(oldp)
					d.ws(s)
				case 8:
					cur := pp.Load()
					runtime.Gosched()
					ok := pp.CompareAndSwap(cur, &pt{-g, k})
					ok2 := pp.CompareAndSwap(cur, cur)
					d.wb(ok)
					d.wb(ok2)
					s = "Pointer.CAS " + btoa(ok) + " " + btoa(ok2) + " " + av(pp.Load())
				}
				d.n++
				if d.v || d.n%%%d == 0 {
					d.show("g" + itoa(g) + " " + s)
				}
				if g == G-1 && k == K-1 {
					done <- true
				} else {
					chs[(g+1)%%G] <- 1
				}
			}
		}(g)
	}
	chs[0] <- 1
	<-done
	d.end()
}

// free-running goroutines: only the final values are deterministic.
func freeRunning() {
	d := begin("atomic.Add/free-running")
	const G = 8
	const K = %d
	var a32 int32
	var a64 int64
	var u32 atomic.Uint32
	var u64 atomic.Uint64
	var up uintptr
	var cas int64
	done := make(chan bool)
	for g := 0; g < G; g++ {
		go func(g int) {
			for k := 0; k < K; k++ {
				atomic.AddInt32(&a32, 3)
				atomic.AddInt64(&a64, 0x100000001)
				u32.Add(^uint32(0))
				if k%%7 == g%%7 {
					runtime.Gosched()
				}
				u64.Add(1 << 33)
				atomic.AddUintptr(&up, 1)
				for {
					old := atomic.LoadInt64(&cas)
					if k%%5 == 0 {
						runtime.Gosched()
					}
					if atomic.CompareAndSwapInt64(&cas, old, old+int64(g)+1) {
						break
					}
				}
			}
			done <- true
		}(g)
	}
	for g := 0; g < G; g++ {
		<-done
	}
	d.w64(uint64(a32))
	d.w64(uint64(a64))
	d.w(u32.Load())
	d.w64(u64.Load())
	d.w64(uint64(up))
	d.w64(uint64(cas))
	d.n = G * K * 6
	d.show(i64s(int64(a32)) + " " + i64s(a64) + " " + u64s(uint64(u32.Load())) + " " + u64s(u64.Load()) + " " + u64s(uint64(up)) + " " + i64s(cas))
	d.end()
}

`, kops, seed(), kops/5+1, kfree)
	u.calls = append(u.calls, "\tif want(\"atomic.mixed/round-robin\") {\n\t\troundRobin()\n\t}\n", "\tif want(\"atomic.Add/free-running\") {\n\t\tfreeRunning()\n\t}\n")
	return []*tprog{t, u}
}
