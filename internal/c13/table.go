package c13

import (
	"fmt"
	"math"
	"os"
	"path/filepath"
	"regexp"
	"strconv"
	"strings"
	"sync"
	"time"

	"verif/internal/core"
	"verif/internal/proglib"
)

// The table-driven workload programs of this check share one tiny in-program framework
// (tableLib below): a program is a sequence of *blocks*; every block evaluates one overridden
// function over one argument class, folds every result into a digest and prints
//
//	D <pkg.Func/class> <digest> <count>
//
// plus sampled raw evaluations `S <pkg.Func/class> <n> <args> -> <results>`. When the package
// variable `verbose` names a block, only that block runs and it prints EVERY evaluation as a
// `V …` line, so that a digest mismatch is localised to the first differing evaluation.

const tableLib = `package main

type dg struct {
	name string
	a, b uint32
	n    int
	v    bool
}

func want(name string) bool { return verbose == "" || verbose == name }

func begin(name string) *dg {
	return &dg{name: name, a: 2166136261, b: 0x9e3779b9, v: verbose == name}
}

func (d *dg) w(v uint32) {
	d.a = (d.a ^ v) * 16777619
	d.b = (d.b + v) * 2654435761
	d.b ^= d.b >> 13
}
func (d *dg) w64(v uint64) { d.w(uint32(v)); d.w(uint32(v >> 32)) }
func (d *dg) wi(v int)     { d.w64(uint64(int64(v))) }
func (d *dg) wb(v bool) {
	if v {
		d.w(1)
	} else {
		d.w(0)
	}
}
func (d *dg) ws(s string) {
	for i := 0; i < len(s); i++ {
		d.w(uint32(s[i]))
	}
	d.w(0xffffffff)
}
func (d *dg) show(s string) {
	if d.v {
		println("V " + d.name + " " + itoa(d.n) + " " + s)
	} else {
		println("S " + d.name + " " + itoa(d.n) + " " + s)
	}
}
func (d *dg) end() { println("D " + d.name + " " + hex32(d.a) + hex32(d.b) + " " + itoa(d.n)) }

// recovered renders a recovered panic value: class (runtime.Error or not) and message.
func recovered(e interface{}) string {
	if e == nil {
		return "nil"
	}
	if re, ok := e.(interface {
		error
		RuntimeError()
	}); ok {
		return "RE:" + re.Error()
	}
	if er, ok := e.(error); ok {
		return "E:" + er.Error()
	}
	if s, ok := e.(string); ok {
		return "S:" + s
	}
	return "?"
}
`

// tprog accumulates the blocks of one table-driven program.
type tprog struct {
	name    string
	imports map[string]bool
	pre     strings.Builder // package-level declarations
	blocks  strings.Builder
	calls   []string
	files   map[string]string // extra files
	nblk    int
	// declared argument counts per block name (filled from the D lines at run time)
}

func newTprog(name string, imports ...string) *tprog {
	t := &tprog{name: name, imports: map[string]bool{}, files: map[string]string{}}
	for _, i := range imports {
		t.imports[i] = true
	}
	return t
}

// block emits one digest block.
//
//	open   loop header(s), e.g. "for _, x := range gridU {"
//	eval   statements computing the results
//	digs   statements folding the results into d (e.g. "d.w64(k64(r))")
//	show   Go string expression describing arguments and results
//	every  sampling period of S lines
//	closes number of closing braces for open
func (t *tprog) block(name, open, eval, digs, show string, every, closes int) {
	t.blockC(name, open, eval, digs, show, every, strings.Repeat("}", closes))
}

// blockC is block with an explicit closing text (e.g. "})" for callback-style loops).
func (t *tprog) blockC(name, open, eval, digs, show string, every int, closeStr string) {
	fn := fmt.Sprintf("blk%d", t.nblk)
	t.nblk++
	fmt.Fprintf(&t.blocks, "func %s() {\n\td := begin(%q)\n\t%s\n\t\t%s\n\t\t%s\n\t\td.n++\n\t\tif d.v || d.n%%%d == 0 {\n\t\t\td.show(%s)\n\t\t}\n\t%s\n\td.end()\n}\n\n",
		fn, name, open, eval, digs, every, show, closeStr)
	t.calls = append(t.calls, fmt.Sprintf("\tif want(%q) {\n\t\t%s()\n\t}\n", name, fn))
}

// dyn emits a block whose digest name is computed at run time (nameExpr is a Go string
// expression valid inside the surrounding loops given by outerOpen).
func (t *tprog) dyn(nameExpr, outerOpen string, outerCloses int, open, eval, digs, show string, every, closes int) {
	fn := fmt.Sprintf("blk%d", t.nblk)
	t.nblk++
	fmt.Fprintf(&t.blocks, "func %s() {\n\t%s\n\tnm := %s\n\tif !want(nm) {\n\t\tcontinue\n\t}\n\td := begin(nm)\n\t%s\n\t\t%s\n\t\t%s\n\t\td.n++\n\t\tif d.v || d.n%%%d == 0 {\n\t\t\td.show(%s)\n\t\t}\n\t%s\n\td.end()\n\t%s\n}\n\n",
		fn, outerOpen, nameExpr, open, eval, digs, every, show, strings.Repeat("}", closes), strings.Repeat("}", outerCloses))
	t.calls = append(t.calls, fmt.Sprintf("\t%s()\n", fn))
}

func (t *tprog) source() map[string]string {
	var b strings.Builder
	b.WriteString("package main\n\n")
	if len(t.imports) > 0 {
		b.WriteString("import (\n")
		for _, i := range core.SortedKeys(t.imports) {
			fmt.Fprintf(&b, "\t%q\n", i)
		}
		b.WriteString(")\n\n")
	}
	b.WriteString(t.pre.String())
	b.WriteString("\n")
	b.WriteString(t.blocks.String())
	b.WriteString("func main() {\n")
	for _, c := range t.calls {
		b.WriteString(c)
	}
	b.WriteString("}\n")
	files := map[string]string{"main.go": b.String(), "zz_table.go": tableLib,
		"zz_verbose.go": "package main\n\nvar verbose = \"\"\n"}
	for k, v := range t.files {
		files[k] = v
	}
	return proglib.WithLib(files)
}

// tstats aggregates what the table programs observed.
type tstats struct {
	mu        sync.Mutex
	programs  int
	digests   int
	samples   int
	evals     int
	perFn     map[string]int // evaluations per function (pkg.Func)
	perFnDig  map[string]int // digests per function
	distinct  map[string]bool
	sampleCtr int
}

func newTstats() *tstats {
	return &tstats{perFn: map[string]int{}, perFnDig: map[string]int{}, distinct: map[string]bool{}}
}

var nodeLong = core.NodeOpt{Timeout: 25 * time.Minute}

// The reference runs math.FMA through upstream's pure-Go implementation (the one GopherJS
// compiles): the amd64 intrinsic uses the hardware instruction, which differs from upstream's
// own software fallback in the sign of results that underflow to zero when z == 0.
var nativeEnv = []string{"GODEBUG=cpu.fma=off"}

// runTable runs one table program on both sides and records violations (one per differing
// digest, localised to the first differing evaluation).
func runTable(c *core.Ctx, st *tstats, t *tprog) {
	p := &core.Program{Name: "c13/" + t.name, Files: t.source()}
	if d := os.Getenv("C13_DUMP"); d != "" { // development aid
		core.WriteFiles(filepath.Join(d, t.name), p.Files)
	}
	t0 := time.Now()
	res := c.DiffProgram(p, core.DiffOpt{Node: nodeLong, Quiet: true, NativeEnv: nativeEnv})
	if os.Getenv("VERIF_DEBUG") != "" {
		fmt.Printf("c13: %-60s %-12s %5.1fs\n", t.name, res.Verdict, time.Since(t0).Seconds())
	}
	if res.Verdict == "violated" {
		localise(c, p, res)
	}
	if res.Verdict == "inconclusive" {
		if res.Diff != "" && strings.Contains(res.Diff, "prog") {
			fmt.Printf("c13: program %s inconclusive: %s\n", t.name, firstLines(res.Diff, 6))
		}
		return
	}
	st.mu.Lock()
	defer st.mu.Unlock()
	st.programs++
	for _, l := range res.Ref.Lines {
		fs := strings.Fields(l)
		if len(fs) >= 4 && fs[0] == "D" {
			st.digests++
			n, _ := strconv.Atoi(fs[3])
			st.evals += n
			fn := fs[1]
			if i := strings.IndexByte(fn, '/'); i >= 0 {
				fn = fn[:i]
			}
			st.perFn[fn] += n
			st.perFnDig[fn]++
			st.distinct[fs[1]+" "+fs[2]] = true
		} else if len(fs) > 1 && fs[0] == "S" {
			st.samples++
			st.sampleCtr++
			if st.sampleCtr%997 == 1 {
				c.Sample(decorate(l))
			}
		}
	}
}

func firstLines(s string, n int) string {
	ls := strings.Split(s, "\n")
	if len(ls) > n {
		ls = ls[:n]
	}
	return strings.Join(ls, "\n")
}

// localise reports every differing digest of a program (up to 8) with the first differing
// evaluation found by re-running that block verbosely on both sides.
func localise(c *core.Ctx, p *core.Program, res core.DiffResult) {
	files := map[string]string{"diff.txt": res.Diff}
	for k, v := range p.Files {
		files["src/"+k] = v
	}
	var names []string
	if len(res.JS) > 0 {
		ref := map[string]string{}
		for _, l := range res.Ref.Lines {
			fs := strings.Fields(l)
			if len(fs) >= 4 && fs[0] == "D" {
				ref[fs[1]] = l
			}
		}
		seen := map[string]bool{}
		for _, l := range res.JS[0].Lines {
			fs := strings.Fields(l)
			if len(fs) >= 4 && fs[0] == "D" && ref[fs[1]] != l && !seen[fs[1]] {
				seen[fs[1]] = true
				names = append(names, fs[1])
			}
		}
		// digests the JS side never printed (it died early)
		if len(names) == 0 && res.JS[0].Outcome != res.Ref.Outcome {
			files["js.out"] = res.JS[0].String()
		}
	}
	if len(names) == 0 {
		c.Violate(p.Name, p.Name+": "+res.Diff, files)
		return
	}
	// group by function so that one defect is one violation with a stable key
	byFn := map[string][]string{}
	var order []string
	for _, n := range names {
		fn := n
		if i := strings.IndexByte(fn, '/'); i >= 0 {
			fn = fn[:i]
		}
		if _, ok := byFn[fn]; !ok {
			order = append(order, fn)
		}
		byFn[fn] = append(byFn[fn], n)
	}
	for _, fn := range order {
		blocks := byFn[fn]
		var what strings.Builder
		fmt.Fprintf(&what, "%s: %d digest(s) of %s differ from the reference (%s)", p.Name, len(blocks), fn, strings.Join(clipList(blocks, 6), ", "))
		f2 := map[string]string{}
		for k, v := range files {
			f2[k] = v
		}
		for bi, blk := range blocks {
			if bi >= 3 {
				break
			}
			q := &core.Program{Name: p.Name + "/verbose", Files: map[string]string{}}
			for k, v := range p.Files {
				q.Files[k] = v
			}
			q.Files["zz_verbose.go"] = fmt.Sprintf("package main\n\nvar verbose = %q\n", blk)
			r2 := c.DiffProgram(q, core.DiffOpt{Node: nodeLong, Quiet: true, NativeEnv: nativeEnv})
			if len(r2.JS) == 0 {
				continue
			}
			wit, cnt := firstDiffs(r2.JS[0].Lines, r2.Ref.Lines, 5)
			fmt.Fprintf(&what, "\n block %s: %d of %d evaluations differ; first:\n%s", blk, cnt, len(r2.Ref.Lines)-1, wit)
			f2[fmt.Sprintf("witness-%d.txt", bi)] = "block " + blk + "\n" + wit
			f2[fmt.Sprintf("src/zz_verbose.go.%d", bi)] = q.Files["zz_verbose.go"]
		}
		c.Violate(fn, what.String(), f2)
	}
}

func clipList(s []string, n int) []string {
	if len(s) > n {
		return append(append([]string{}, s[:n]...), "…")
	}
	return s
}

// firstDiffs pairs the V lines of both sides and returns the first k differing ones.
func firstDiffs(js, ref []string, k int) (string, int) {
	var b strings.Builder
	cnt := 0
	n := len(js)
	if len(ref) < n {
		n = len(ref)
	}
	for i := 0; i < n; i++ {
		if js[i] != ref[i] {
			cnt++
			if cnt <= k {
				b.WriteString("   js : " + decorate(js[i]) + "\n   ref: " + decorate(ref[i]) + "\n")
			}
		}
	}
	if len(js) != len(ref) {
		fmt.Fprintf(&b, "   (line counts differ: js=%d ref=%d)\n", len(js), len(ref))
		if len(js) > n {
			b.WriteString("   js extra: " + js[n] + "\n")
		}
		if len(ref) > n {
			b.WriteString("   ref extra: " + ref[n] + "\n")
		}
		cnt++
	}
	return b.String(), cnt
}

var hex16 = regexp.MustCompile(`\bf:([0-9a-f]{16})\b`)
var hex8f = regexp.MustCompile(`\bg:([0-9a-f]{8})\b`)

// decorate appends the decimal value to every float rendered as f:<16 hex digits> (float64
// bit pattern) or g:<8 hex digits> (float32 bit pattern).
func decorate(l string) string {
	l = hex16.ReplaceAllStringFunc(l, func(m string) string {
		v, _ := strconv.ParseUint(m[2:], 16, 64)
		return m + "(" + strconv.FormatFloat(math.Float64frombits(v), 'g', -1, 64) + ")"
	})
	return hex8f.ReplaceAllStringFunc(l, func(m string) string {
		v, _ := strconv.ParseUint(m[2:], 16, 32)
		return m + "(" + strconv.FormatFloat(float64(math.Float32frombits(uint32(v))), 'g', -1, 32) + ")"
	})
}
