package c18

import (
	"fmt"
	"go/build/constraint"
	"math/rand"
	"strings"
)

// ---- vocabulary ----

var userPool = []string{"alpha", "beta", "gamma", "delta", "prod", "debug", "v2", "x.y", "with_us", "UPPER"}

// tags that are false by default but that a user may also pass with -tags
// (user tags apply to the standard library as well: "ignore" would pull generator programs into
// package runtime, so it is not passed)
var flippable = []string{"linux", "cgo", "go1.23", "wasm", "unix", "amd64", "go1.21", "race", "darwin", "gccgo"}

type atom struct{ tag, class string }

func releaseAtom(r *rand.Rand) atom {
	switch r.Intn(6) {
	case 0:
		return atom{"go1.20", "R"}
	case 1:
		return atom{"go1.1", "R"}
	case 2:
		return atom{"go1.19", "R"}
	default:
		return atom{fmt.Sprintf("go1.%d", 1+r.Intn(20)), "R"}
	}
}

var trueAtoms = []atom{{"js", "O"}, {"ecmascript", "A"}, {"gc", "C"}, {"gopherjs", "D"}, {"netgo", "D"}, {"purego", "D"}, {"math_big_pure_go", "D"}}
var falseAtoms = []atom{
	{"go1.21", "r"}, {"go1.21", "r"}, {"go1.22", "r"}, {"go1.23", "r"}, {"go1.23", "r"}, {"go1.24", "r"}, {"go1.30", "r"}, {"go1.0", "r0"}, {"go1", "u"},
	{"cgo", "g"}, {"cgo", "g"},
	{"linux", "o"}, {"linux", "o"}, {"darwin", "o"}, {"windows", "o"}, {"wasip1", "o"}, {"android", "o"},
	{"wasm", "a"}, {"wasm", "a"}, {"amd64", "a"}, {"amd64", "a"}, {"arm64", "a"}, {"386", "a"},
	{"unix", "x"}, {"unix", "x"},
	{"gccgo", "c"}, {"race", "u"}, {"ignore", "u"}, {"unknownA", "u"}, {"zz_unknown", "u"}, {"Go1.20", "u"}, {"GOPHERJS", "u"}, {"JS", "u"}, {"tinygo", "u"},
}

func genAtom(r *rand.Rand) atom {
	switch k := r.Intn(100); {
	case k < 22:
		return trueAtoms[r.Intn(len(trueAtoms))]
	case k < 36:
		return releaseAtom(r)
	case k < 70:
		return falseAtoms[r.Intn(len(falseAtoms))]
	default:
		return atom{userPool[r.Intn(len(userPool))], "U"}
	}
}

// genExpr builds a random expression of depth ≤ d; shape receives the tag-class skeleton.
func genExpr(r *rand.Rand, d int) (*Expr, string) {
	if d <= 1 || r.Intn(100) < 22 {
		a := genAtom(r)
		return &Expr{Op: "tag", Tag: a.tag}, a.class
	}
	switch r.Intn(5) {
	case 0, 1:
		x, sx := genExpr(r, d-1)
		if x.Op == "!" { // keep shapes meaningful; double negation is still allowed sometimes
			if r.Intn(4) != 0 {
				return x, sx
			}
		}
		return &Expr{Op: "!", X: x}, "!(" + sx + ")"
	case 2, 3:
		x, sx := genExpr(r, d-1)
		y, sy := genExpr(r, d-1)
		return &Expr{Op: "&&", X: x, Y: y}, "(" + sx + "&" + sy + ")"
	default:
		x, sx := genExpr(r, d-1)
		y, sy := genExpr(r, d-1)
		return &Expr{Op: "||", X: x, Y: y}, "(" + sx + "|" + sy + ")"
	}
}

// render prints the tree in //go:build syntax with random spacing and redundant parentheses.
func render(r *rand.Rand, x *Expr, parent string) string {
	sp := " "
	if r.Intn(12) == 0 {
		sp = ""
	}
	var s string
	switch x.Op {
	case "tag":
		s = x.Tag
		if r.Intn(15) == 0 {
			s = "(" + s + ")"
		}
		return s
	case "!":
		in := render(r, x.X, "!")
		if x.X.Op == "!" { // "!!x" is not valid syntax; "!(!x)" is
			in = "(" + in + ")"
		}
		return "!" + in
	case "&&":
		s = render(r, x.X, "&&") + sp + "&&" + sp + render(r, x.Y, "&&")
		if parent == "!" || r.Intn(8) == 0 {
			s = "(" + s + ")"
		}
	default:
		s = render(r, x.X, "||") + sp + "||" + sp + render(r, x.Y, "||")
		if parent == "&&" || parent == "!" || r.Intn(8) == 0 {
			s = "(" + s + ")"
		}
	}
	return s
}

// ---- files ----

var suffixes = []string{
	"", "", "", "", "", "",
	"_js", "_js", "_wasm", "_wasm", "_js_wasm", "_js_wasm", "_linux", "_linux", "_ecmascript", "_ecmascript", "_amd64",
	"_linux_amd64", "_js_ecmascript", "_ecmascript_js", "_wasm_js", "_js_amd64", "_js_arm64", "_unix", "_darwin", "_windows_arm64",
	"_gopherjs", "_gc", "_alpha", "_Linux", "_js_js", "_linux_js", "_js_wasm_x", "_wasip1_wasm", "_purego", "_cgo", "_go1.23",
}

// GenFile describes one generated file.
type GenFile struct {
	Name   string `json:"name"`
	Kind   string `json:"kind"` // go | test | xtest | incjs | anchor
	Expr   string `json:"expr,omitempty"`
	Shape  string `json:"shape,omitempty"`
	Late   bool   `json:"late,omitempty"` // constraint placed after the package clause: not a constraint
	Plus   bool   `json:"plus,omitempty"` // equivalent legacy // +build lines added
	Cgo    bool   `json:"cgo,omitempty"`
	Hidden bool   `json:"hidden,omitempty"`
	tree   *Expr
}

// GenDir is one generated package directory.
type GenDir struct {
	Rel   string // "" (main package) or "dep"
	Pkg   string
	Files []*GenFile
	At    string `json:",omitempty"` // directory relative to the program when it is not Rel (vendored dependency of the location sweep)
}

// Where returns the directory of the package relative to the program directory.
func (d *GenDir) Where() string {
	if d.At != "" {
		return d.At
	}
	return d.Rel
}

// GenPkg is one generated program.
type GenPkg struct {
	Name    string
	Files   map[string]string
	Dirs    []*GenDir
	TagSets [][]string
	Starved bool // every file ANDed with a normally-false term
}

func header(r *rand.Rand, f *GenFile, pkg string) string {
	if f.Expr == "" {
		if r.Intn(3) == 0 {
			return "// Package comment that mentions go:build linux without being a constraint.\n\npackage " + pkg + "\n"
		}
		return "package " + pkg + "\n"
	}
	line := "//go:build " + f.Expr
	if f.Late {
		return "package " + pkg + "\n\n" + line + "\n"
	}
	var b strings.Builder
	switch r.Intn(4) {
	case 0:
		b.WriteString("// Copyright line; an ordinary comment.\n\n")
	case 1:
		b.WriteString("\n\n")
	}
	b.WriteString(line + "\n")
	if r.Intn(3) == 0 {
		if x, err := constraint.Parse(line); err == nil {
			if pl, err := constraint.PlusBuildLines(x); err == nil {
				f.Plus = true
				for _, l := range pl {
					b.WriteString(l + "\n")
				}
			}
		}
	}
	b.WriteString("\npackage " + pkg + "\n")
	return b.String()
}

func genDir(r *rand.Rand, rel, pkg string, nfiles int, starve string) (*GenDir, map[string]string) {
	d := &GenDir{Rel: rel, Pkg: pkg}
	out := map[string]string{}
	prefix := ""
	if rel != "" {
		prefix = rel + "/"
	}
	regCall := func(name string) string {
		if pkg == "main" {
			return fmt.Sprintf("func init() { reg(%q) }\n", prefix+name)
		}
		return fmt.Sprintf("func init() { Reg = append(Reg, %q) }\n", prefix+name)
	}
	used := map[string]bool{}
	for i := 0; i < nfiles; i++ {
		f := &GenFile{Kind: "go"}
		base := fmt.Sprintf("f%02d", i)
		switch r.Intn(40) {
		case 0:
			base = []string{"js", "linux", "wasm", "amd64", "ecmascript"}[r.Intn(5)] // whole name is a GOOS/GOARCH: no constraint
		case 1:
			base = "_" + base
			f.Hidden = true
		case 2:
			base = "." + base
			f.Hidden = true
		}
		k := r.Intn(100)
		switch {
		case k < 8:
			// .inc.js file
			f.Kind = "incjs"
			name := base + suffixes[r.Intn(len(suffixes))]
			if r.Intn(6) == 0 {
				name += "_test"
			}
			name += ".inc.js"
			if used[name] {
				continue
			}
			used[name] = true
			f.Name = name
			var b strings.Builder
			switch r.Intn(4) {
			case 0:
				b.WriteString("//go:build linux && !js\n\n")
				f.Expr = "linux && !js"
			case 1:
				b.WriteString("//go:build ignore\n// +build ignore\n\n")
				f.Expr = "ignore"
			case 2:
				b.WriteString("// +build cgo\n\n")
			}
			fmt.Fprintf(&b, "console.log(\"INCJS:%s\");\n", prefix+name)
			out[prefix+name] = b.String()
			d.Files = append(d.Files, f)
			continue
		case k < 16:
			f.Kind = "test"
			if r.Intn(2) == 0 {
				f.Kind = "xtest"
			}
		}
		name := base + suffixes[r.Intn(len(suffixes))]
		if f.Kind == "test" || f.Kind == "xtest" {
			name += "_test"
		}
		name += ".go"
		if used[name] {
			continue
		}
		used[name] = true
		f.Name = name
		if r.Intn(100) < 72 {
			f.tree, f.Shape = genExpr(r, 1+r.Intn(4))
			if starve != "" {
				f.tree = &Expr{Op: "&&", X: f.tree, Y: &Expr{Op: "tag", Tag: starve}}
				f.Shape = "(" + f.Shape + "&starve)"
			}
			f.Expr = render(r, f.tree, "")
			f.Late = starve == "" && r.Intn(14) == 0
		} else if starve != "" {
			f.tree = &Expr{Op: "tag", Tag: starve}
			f.Shape = "starve"
			f.Expr = starve
		}
		f.Cgo = f.Kind == "go" && r.Intn(100) < 7
		p := pkg
		if f.Kind == "xtest" {
			p = pkg + "_test"
		}
		src := header(r, f, p)
		if f.Cgo {
			src += "\nimport \"C\"\n"
		}
		if f.Kind == "xtest" {
			src += "\nvar _ = 0\n"
		} else {
			src += "\n" + regCall(name)
		}
		out[prefix+name] = src
		d.Files = append(d.Files, f)
	}
	return d, out
}

const mainAnchor = `
var names []string

func reg(s string) { names = append(names, s) }

func sorted(in []string) string {
	a := make([]string, len(in))
	copy(a, in)
	for i := 1; i < len(a); i++ {
		for j := i; j > 0 && a[j] < a[j-1]; j-- {
			a[j], a[j-1] = a[j-1], a[j]
		}
	}
	s := ""
	for _, x := range a {
		s += x + ";"
	}
	return s
}
`

// GenPackage generates program number i.
func GenPackage(r *rand.Rand, i int, nsets int) *GenPkg {
	g := &GenPkg{Name: fmt.Sprintf("p%05d", i), Files: map[string]string{}}
	withDep := r.Intn(3) == 0
	starve := ""
	starveDep := ""
	if r.Intn(10) == 0 {
		g.Starved = true
		starve = []string{"linux", "go1.21", "go1.23", "cgo", "wasm", "unix", "neverSet", "amd64"}[r.Intn(8)]
	} else if withDep && r.Intn(8) == 0 {
		starveDep = []string{"linux", "go1.23", "wasm", "neverSet"}[r.Intn(4)]
	}
	// main package
	d, files := genDir(r, "", "main", 12+r.Intn(29), starve)
	for k, v := range files {
		g.Files[k] = v
	}
	anchor := &GenFile{Name: "main.go", Kind: "anchor"}
	hdr := "package main\n"
	if starve != "" {
		anchor.Expr, anchor.Shape = starve, "starve"
		anchor.tree = &Expr{Op: "tag", Tag: starve}
		hdr = "//go:build " + starve + "\n\npackage main\n"
	}
	imp, depPrint := "", `""`
	if withDep {
		imp = "\nimport \"" + g.Name + "/dep\"\n"
		depPrint = "sorted(dep.Reg)"
	}
	g.Files["main.go"] = hdr + imp + mainAnchor + "\nfunc main() {\n\tprintln(\"REG:\" + sorted(names) + \"|DEP:\" + " + depPrint + ")\n}\n"
	d.Files = append(d.Files, anchor)
	g.Dirs = append(g.Dirs, d)
	if withDep {
		dd, files := genDir(r, "dep", "dep", 12+r.Intn(14), starveDep)
		for k, v := range files {
			g.Files[k] = v
		}
		a := &GenFile{Name: "dep.go", Kind: "anchor"}
		h := "package dep\n"
		if starveDep != "" {
			a.Expr, a.Shape = starveDep, "starve"
			a.tree = &Expr{Op: "tag", Tag: starveDep}
			h = "//go:build " + starveDep + "\n\npackage dep\n"
		}
		g.Files["dep/dep.go"] = h + "\nvar Reg []string\n"
		dd.Files = append(dd.Files, a)
		g.Dirs = append(g.Dirs, dd)
	}
	g.Files["go.mod"] = "module " + g.Name + "\n\ngo 1.20\n"
	// tag sets: the empty set first, then random subsets of the user pool, sometimes with tags
	// from the built-in vocabulary (a user may pass any tag).
	g.TagSets = append(g.TagSets, nil)
	for len(g.TagSets) < nsets {
		var ts []string
		seen := map[string]bool{}
		for n := 1 + r.Intn(4); n > 0; n-- {
			t := userPool[r.Intn(len(userPool))]
			if r.Intn(6) == 0 {
				t = flippable[r.Intn(len(flippable))]
			}
			if g.Starved && r.Intn(3) == 0 {
				t = starve // give starved packages a chance to come alive
			}
			if !seen[t] {
				seen[t] = true
				ts = append(ts, t)
			}
		}
		g.TagSets = append(g.TagSets, ts)
	}
	return g
}
