package c18

import (
	"fmt"
	"os"
	"path/filepath"
	"sort"
	"strings"
	"time"

	"verif/internal/core"
)

// ---- the location dimension ----
//
// The property distinguishes user packages (js/ecmascript) from standard-library packages
// (js/wasm). Whether a package is "standard library" must depend only on whether it lives in
// GOROOT/src, never on what its directory or import path *looks* like. This sweep puts generated
// user packages at a family of locations relative to GOROOT and GOPATH (sibling directories that
// share a string prefix with GOROOT, GOROOT reached through a symbolic link, directories named
// src / vendor, GOROOT's path as an inner part of the project path, nested modules, module paths
// with and without a dot, vendored dependencies, a project reached through a symbolic link) and
// checks the same observation as everywhere else: the set of files that registered at run time
// must be the one predicted for js/ecmascript.

// place is one location of a user package inside a world.
type place struct {
	Name   string // stable name, part of the violation key
	Dir    string // project directory relative to the world root; %s = program name
	Path   string // import path / module path of the main package; %s = program name
	Module bool   // module mode (go.mod decides) or GOPATH mode (directory below GOPATH/src decides)
	Vendor string // GOPATH mode: the dependency package is vendored under <Dir>/vendor/<Vendor> and imported as <Vendor>
	Outer  string // a directory (relative to the world root) that gets an enclosing go.mod: the project is a nested module
	Link   string // "link=target" relative to the world root, created before the build; Dir goes through it
	Note   string
}

// world is one arrangement of GOROOT and GOPATH.
type world struct {
	Name   string
	Goroot string // relative to the world root: a symbolic link to the real GOROOT, given to GopherJS through GOPHERJS_GOROOT; "" = the system GOROOT, no override
	Gopath string // relative to the world root
	Places []place
}

// worlds returns the location family. realGoroot is the path printed by `go env GOROOT`.
func worlds(realGoroot string) []world {
	inner := strings.TrimPrefix(filepath.ToSlash(realGoroot), "/")
	return []world{
		{
			// GOROOT=<w>/go; everything else lives in directories whose path merely starts with the
			// same characters (as in /usr/local/go and /usr/local/go-projects, ~/go and ~/gopath)
			Name: "prefix", Goroot: "go", Gopath: "gopath",
			Places: []place{
				{Name: "gopath-extends-goroot-string", Dir: "gopath/src/%s", Path: "%s"},
				{Name: "gopath-dir-named-src", Dir: "gopath/src/src/%s", Path: "src/%s"},
				{Name: "gopath-dotted-path", Dir: "gopath/src/example.com/u/%s", Path: "example.com/u/%s"},
				{Name: "gopath-vendored-dep", Dir: "gopath/src/host/%s", Path: "host/%s", Vendor: "vdep/dep"},
				{Name: "gopath-vendored-dotted-dep", Dir: "gopath/src/v/%s", Path: "v/%s", Vendor: "vdep.example/x/dep"},
				{Name: "module-sibling-go-proj", Dir: "go-proj/%s", Path: "%s", Module: true},
				{Name: "module-sibling-go1-src", Dir: "go1/src/%s", Path: "%s", Module: true},
				{Name: "module-sibling-dotted", Dir: "golang/%s", Path: "example.com/u/%s", Module: true},
			},
		},
		{
			// the system GOROOT (whose src is itself a symbolic link on this machine), no override
			Name: "system", Goroot: "", Gopath: "gp",
			Places: []place{
				{Name: "module-goroot-string-inside", Dir: "x/" + inner + "/src/%s", Path: "%s", Module: true},
				{Name: "module-dir-named-vendor", Dir: "vendor/%s", Path: "%s", Module: true},
				{Name: "module-nested", Dir: "outer/inner/%s", Path: "outer/inner/%s", Module: true, Outer: "outer"},
				{Name: "module-nested-dotted", Dir: "outer2/sub/%s", Path: "outer2.example/sub/%s", Module: true, Outer: "outer2"},
				{Name: "module-through-symlink", Dir: "link/%s", Path: "%s", Module: true, Link: "link=real"},
				{Name: "module-std-like-path", Dir: "m/%s", Path: "encoding/%s", Module: true},
				{Name: "gopath-std-like-path", Dir: "gp/src/go/%s", Path: "go/%s"},
				{Name: "gopath-through-symlink", Dir: "gp/src/lnk/%s", Path: "lnk/%s", Link: "gp/src/lnk=elsewhere"},
			},
		},
		{
			// GOROOT=<w>/go-1.23: the project's parent directory is a proper string prefix of GOROOT,
			// or GOROOT plus a few more characters
			Name: "extends", Goroot: "go-1.23", Gopath: "go-1.23-path",
			Places: []place{
				{Name: "module-parent-is-prefix-of-goroot", Dir: "go/%s", Path: "%s", Module: true},
				{Name: "module-goroot-plus-suffix", Dir: "go-1.23.1/src/%s", Path: "%s", Module: true},
				{Name: "gopath-goroot-plus-suffix", Dir: "go-1.23-path/src/%s", Path: "%s"},
			},
		},
	}
}

// locInfo is attached to the e2e job of a relocated program.
type locInfo struct {
	world  *world
	place  *place
	root   string // absolute world root
	goroot string // absolute GOROOT of the world ("" = system)
}

func (l *locInfo) mode() string { return "loc/" + l.world.Name + "/" + l.place.Name }

// recipe is the replay script of a relocated program.
func (l *locInfo) recipe(g *GenPkg, tags []string, goos string) string {
	var b strings.Builder
	p := l.place
	fmt.Fprintf(&b, "# location sweep: world %q, place %q\n# sources (already rewritten for this place) are in src/\nset -e\nW=$(mktemp -d)\n", l.world.Name, p.Name)
	env := ""
	if l.world.Goroot != "" {
		fmt.Fprintf(&b, "ln -s \"$(go env GOROOT)\" \"$W/%s\"   # GOROOT of this world\n", l.world.Goroot)
		env += "GOPHERJS_GOROOT=\"$W/" + l.world.Goroot + "\" "
	}
	env += "GOPATH=\"$W/" + l.world.Gopath + "\" "
	if p.Module {
		env += "GO111MODULE=on "
	} else {
		env += "GO111MODULE=off "
	}
	if goos != "" {
		env += "GOOS=" + goos + " "
	}
	dir := fmt.Sprintf(p.Dir, g.Name)
	if p.Link != "" {
		link, target, _ := strings.Cut(p.Link, "=")
		fmt.Fprintf(&b, "mkdir -p \"$W/%s\" \"$(dirname \"$W/%s\")\" && ln -s \"$W/%s\" \"$W/%s\"\n", target, link, target, link)
	}
	if p.Outer != "" {
		fmt.Fprintf(&b, "mkdir -p \"$W/%s\" && printf 'module %s\\n\\ngo 1.20\\n' > \"$W/%s/go.mod\"\n", p.Outer, outerModule(p), p.Outer)
	}
	fmt.Fprintf(&b, "mkdir -p \"$(dirname \"$W/%s\")\" && cp -r src \"$W/%s\"\ncd \"$W/%s\"\n", dir, dir, dir)
	fmt.Fprintf(&b, "%sgopherjs build --tags %q -o out.js %s && node out.js\n", env, strings.Join(tags, " "), ".")
	return b.String()
}

func outerModule(p *place) string {
	// the enclosing module is named after the first element of the project's module path
	first, _, _ := strings.Cut(p.Path, "/")
	return first
}

// relocate returns a copy of g whose sources are rewritten for the place: module path in go.mod,
// import path of the dependency package, and (vendored dependency) the directory of the
// dependency. The file set and every constraint stay untouched.
func relocate(g *GenPkg, p *place) *GenPkg {
	path := fmt.Sprintf(p.Path, g.Name)
	depImport := path + "/dep"
	depAt := "dep"
	if p.Vendor != "" {
		depImport = p.Vendor
		depAt = "vendor/" + p.Vendor
	}
	n := &GenPkg{Name: g.Name, Files: map[string]string{}, TagSets: g.TagSets, Starved: g.Starved}
	for k, v := range g.Files {
		switch {
		case k == "go.mod":
			if p.Module {
				n.Files[k] = "module " + path + "\n\ngo 1.20\n"
			}
			// GOPATH mode: no go.mod at all (the directory decides)
		case k == "main.go":
			n.Files[k] = strings.Replace(v, "import \""+g.Name+"/dep\"", "import \""+depImport+"\"", 1)
		case strings.HasPrefix(k, "dep/"):
			n.Files[depAt+"/"+strings.TrimPrefix(k, "dep/")] = v
		default:
			n.Files[k] = v
		}
	}
	for _, d := range g.Dirs {
		c := *d
		if d.Rel == "dep" {
			c.At = depAt
		}
		n.Dirs = append(n.Dirs, &c)
	}
	return n
}

// locJobs lays the worlds out on disk and returns the build chunks (one child process each: GOROOT
// and GOPATH are per-process settings of GopherJS).
type locChunk struct {
	env  []string
	jobs []e2eJob
	cli  bool // a single job that goes through the real `gopherjs build` binary instead of the batch child
}

func (s *state) locSetup(pkgs []*GenPkg) []locChunk {
	c := s.c
	r := core.Exec(c.Scratch, core.BaseEnv(), time.Minute, "", "go", "env", "GOROOT")
	real := strings.TrimSpace(r.Stdout)
	if r.Exit != 0 || real == "" {
		c.Inconclusive("goroot-unknown")
		return nil
	}
	// candidates: generated programs that are not starved; those with a dependency package first
	// for the places that need one
	var withDep, plain []int
	for i, g := range pkgs {
		if g.Starved || g.Name == "c18sentinel" {
			continue
		}
		if len(g.Dirs) > 1 {
			withDep = append(withDep, i)
		} else {
			plain = append(plain, i)
		}
	}
	if len(withDep) == 0 || len(plain) == 0 {
		c.Inconclusive("location-sweep-no-candidates")
		return nil
	}
	per := c.N(2, 10)
	base := c.Dir("loc")
	ws := worlds(real)
	var chunks []locChunk
	seq := 0
	for wi := range ws {
		w := &ws[wi]
		root := filepath.Join(base, w.Name)
		os.MkdirAll(root, 0o755)
		goroot := ""
		env := []string{"GOPATH=" + filepath.Join(root, w.Gopath), "GOMAXPROCS=2"}
		if w.Goroot != "" {
			goroot = filepath.Join(root, w.Goroot)
			if err := os.Symlink(real, goroot); err != nil {
				c.Inconclusive("location-sweep-setup-failed")
				continue
			}
			env = append(env, "GOPHERJS_GOROOT="+goroot)
		}
		os.MkdirAll(filepath.Join(root, w.Gopath, "src"), 0o755)
		var jobs []e2eJob
		for pi := range w.Places {
			p := &w.Places[pi]
			if p.Link != "" {
				link, target, _ := strings.Cut(p.Link, "=")
				os.MkdirAll(filepath.Join(root, target), 0o755)
				os.MkdirAll(filepath.Dir(filepath.Join(root, link)), 0o755)
				if err := os.Symlink(filepath.Join(root, target), filepath.Join(root, link)); err != nil {
					c.Inconclusive("location-sweep-setup-failed")
					continue
				}
			}
			if p.Outer != "" {
				od := filepath.Join(root, p.Outer)
				os.MkdirAll(od, 0o755)
				os.WriteFile(filepath.Join(od, "go.mod"), []byte("module "+outerModule(p)+"\n\ngo 1.20\n"), 0o644)
			}
			for k := 0; k < per; k++ {
				// every other program has a dependency package (always, when the place is about one)
				var gi int
				if p.Vendor != "" || k%2 == 0 {
					gi = withDep[(seq*7+k)%len(withDep)]
				} else {
					gi = plain[(seq*7+k)%len(plain)]
				}
				g := relocate(pkgs[gi], p)
				dir := filepath.Join(root, filepath.FromSlash(fmt.Sprintf(p.Dir, g.Name)))
				if _, err := os.Stat(dir); err == nil {
					continue // same program already at this directory (two places sharing a directory)
				}
				os.MkdirAll(dir, 0o755)
				core.WriteFiles(dir, g.Files)
				jobs = append(jobs, e2eJob{pi: gi, ti: (seq + k) % len(g.TagSets), mode: "loc/" + w.Name + "/" + p.Name,
					g: g, dir: dir, path: fmt.Sprintf(p.Path, g.Name), module: p.Module,
					loc: &locInfo{world: w, place: p, root: root, goroot: goroot}})
			}
			seq++
		}
		// the first module-mode program of every world also goes through the real CLI (which
		// resolves the current directory and expands "." itself), with a cache directory of its own
		for _, j := range jobs {
			if j.module {
				j.mode += "/cli"
				cenv := append(append([]string{}, env...), "XDG_CACHE_HOME="+filepath.Join(root, "cli-cache"))
				chunks = append(chunks, locChunk{env: cenv, jobs: []e2eJob{j}, cli: true})
				break
			}
		}
		// a few children per world (at most five builds each)
		half := 5
		for lo := 0; lo < len(jobs); lo += half {
			hi := lo + half
			if hi > len(jobs) {
				hi = len(jobs)
			}
			chunks = append(chunks, locChunk{env: env, jobs: jobs[lo:hi]})
		}
	}
	return chunks
}

// locCoverage summarises the sweep for the evidence file.
func (s *state) locCoverage() map[string]any {
	defer s.lock()()
	names := make([]string, 0, len(s.locByPlace))
	for k := range s.locByPlace {
		names = append(names, k)
	}
	sort.Strings(names)
	out := map[string]any{}
	for _, k := range names {
		out[k] = s.locByPlace[k]
	}
	return out
}
