package c18

import (
	"encoding/json"
	"fmt"
	"go/build/constraint"
	"os"
	"path/filepath"
	"regexp"
	"sort"
	"strings"
	"sync"
	"time"

	"verif/internal/core"
)

// ImportJob / ImportRes are the protocol of the `vp c18-import` child (cmd/vp/sub_c18_import.go).
type ImportJob struct {
	ID    string   `json:"id"`
	Dir   string   `json:"dir"` // cwd and srcDir
	Paths []string `json:"paths"`
	Tags  []string `json:"tags"`
	GOOS  string   `json:"goos,omitempty"`
}

type ImportRes struct {
	ID      string   `json:"id"`
	Path    string   `json:"path"`
	Err     string   `json:"err,omitempty"`
	Dir     string   `json:"dir,omitempty"`
	Goroot  bool     `json:"goroot,omitempty"`
	Go      []string `json:"go,omitempty"`
	Test    []string `json:"test,omitempty"`
	XTest   []string `json:"xtest,omitempty"`
	Cgo     []string `json:"cgo,omitempty"`
	Ignored []string `json:"ignored,omitempty"`
	JS      []string `json:"js,omitempty"`
}

var noGoRe = regexp.MustCompile(`build constraints exclude all Go files|no buildable Go source files`)

type state struct {
	c  *core.Ctx
	mu sync.Mutex

	classes      map[string]bool // distinct (shape, name suffix, flags, outcome)
	exprs        map[string]bool // distinct constraint expressions
	decisions    int             // (file, environment) decisions compared with an observation
	e2eRuns      int
	e2eByMode    map[string]int
	gopath       string
	e2eExpectErr int
	apiImports   int
	stdDirs      map[string]bool
	stdImports   int
	stdFiles     int
	stdConstr    int
	oracleSelf   int // generated expressions whose two oracle evaluations were cross-checked
	stdListed    int
	samples      map[string][]sample
	locByPlace   map[string]int // location sweep: judged builds per world/place
}

type sample struct {
	key string
	v   map[string]any
}

// keep records an actual case for the evidence file: at most two per kind, chosen by smallest key
// so that the choice does not depend on scheduling.
func (s *state) keep(kind, key string, v map[string]any) {
	v["kind"], v["case"] = kind, key
	defer s.lock()()
	l := append(s.samples[kind], sample{key, v})
	sort.Slice(l, func(i, j int) bool { return l[i].key < l[j].key })
	if len(l) > 2 {
		l = l[:2]
	}
	s.samples[kind] = l
}

func (s *state) flushSamples() {
	pick := func(kind string, n int) {
		for i, x := range s.samples[kind] {
			if i < n {
				s.c.Sample(x.v)
			}
		}
	}
	pick("e2e-sentinel", 1)
	pick("e2e", 2)
	pick("e2e-location", 2)
	pick("e2e-all-excluded", 1)
	pick("api-import", 1)
	pick("std-import", 1)
}

func (s *state) lock() func() { s.mu.Lock(); return s.mu.Unlock }

// Run is the C18 check.
func Run(c *core.Ctx) int {
	s := &state{c: c, classes: map[string]bool{}, exprs: map[string]bool{}, stdDirs: map[string]bool{}, e2eByMode: map[string]int{}, samples: map[string][]sample{}, locByPlace: map[string]int{}}
	npk := c.N(150, 2000)
	nsets := c.N(3, 5)

	// the real CLI is built in the background; a few packages go through it
	cliReady := make(chan string, 1)
	go func() {
		p, err := c.GopherJS()
		if err != nil {
			fmt.Println("C18: CLI not built:", firstLines(err.Error(), 3))
			p = ""
		}
		cliReady <- p
	}()

	last := time.Now()
	phase := func(name string) {
		if os.Getenv("VERIF_DEBUG") != "" {
			fmt.Printf("C18 phase %s: %.1fs\n", name, time.Since(last).Seconds())
		}
		last = time.Now()
	}
	// ---- generate: all programs live in one GOPATH workspace (src/<name>), each also a module ----
	gopath := c.Dir("gopath")
	s.gopath = gopath
	pkgs := make([]*GenPkg, npk)
	dirs := make([]string, npk)
	c.Parallel(npk, func(i int) {
		g := GenPackage(c.Rand(fmt.Sprint("pkg/", i)), i, nsets)
		pkgs[i] = g
		dirs[i] = filepath.Join(gopath, "src", g.Name)
		os.MkdirAll(dirs[i], 0o755)
		core.WriteFiles(dirs[i], g.Files)
	})
	// the fixed sentinel: the documentation's own examples, with the expected outcome written down
	// by hand (sentinels/C18/docexamples/EXPECTED.txt); it validates the oracle, then takes part
	// in every observation like a generated program.
	sent, sentDir, err := s.loadSentinel(gopath)
	if err != nil {
		fmt.Printf("MACHINERY-FAILURE property=C18 sentinel: %v\n", err)
		return 2
	}
	pkgs = append(pkgs, sent)
	dirs = append(dirs, sentDir)
	nfiles, nexpr := 0, 0
	for _, g := range pkgs {
		for _, d := range g.Dirs {
			for _, f := range d.Files {
				nfiles++
				if f.Expr != "" {
					nexpr++
					s.exprs[f.Expr] = true
				}
			}
		}
	}
	c.Count("generated_programs", npk)
	c.Count("generated_files", nfiles)
	c.Count("generated_constraint_lines", nexpr)

	// ---- oracle self-check: two independent evaluations of every generated expression ----
	for _, g := range pkgs {
		for _, ts := range g.TagSets {
			env := UserEnv(ts, "")
			for _, d := range g.Dirs {
				for _, f := range d.Files {
					if f.tree == nil {
						continue
					}
					x, err := constraint.Parse("//go:build " + f.Expr)
					if err != nil {
						fmt.Printf("MACHINERY-FAILURE property=C18 generated constraint does not parse: %q: %v\n", f.Expr, err)
						return 2
					}
					if x.Eval(env.Tag) != f.tree.Eval(env.Tag) {
						fmt.Printf("MACHINERY-FAILURE property=C18 oracle disagrees with itself on %q tags=%v\n", f.Expr, ts)
						return 2
					}
					s.oracleSelf++
				}
			}
		}
	}
	phase("generate")

	// ---- (1) end-to-end: compile + run, registered names vs prediction ----
	// (a) every (package, tag set) through a fresh build.Session in batch children, GOPATH mode
	//     (no `go list` processes), plus the deprecated GOOS override as one configuration
	var jobs []e2eJob
	for i, g := range pkgs {
		for t := range g.TagSets {
			jobs = append(jobs, e2eJob{pi: i, ti: t, mode: "gopath"})
		}
		if i%15 == 7 {
			jobs = append(jobs, e2eJob{pi: i, ti: i % len(g.TagSets), goos: "linux", mode: "gopath"})
		}
	}
	nch := c.Jobs * 4
	if m := (len(jobs) + 59) / 60; m > nch {
		nch = m
	}
	chunks := make([][]e2eJob, nch)
	for _, j := range jobs {
		chunks[j.pi%nch] = append(chunks[j.pi%nch], j) // the tag sets of one package stay together
	}
	gopathEnv := []string{"GOPATH=" + s.gopath, "GO111MODULE=off", "GOMAXPROCS=2"}
	c.Parallel(nch, func(k int) { s.e2eBatch(pkgs, dirs, chunks[k], k, gopathEnv) })
	phase("e2e-gopath-batch")

	// (b) module mode through the harness pipeline (`vp compile`: go list pattern expansion +
	//     module lookup), and (c) the real CLI
	var jobs2 []e2eJob
	nmod := c.N(30, 400)
	for k := 0; k < nmod && k < npk; k++ {
		i := (k*53 + 11) % npk
		jobs2 = append(jobs2, e2eJob{pi: i, ti: (k + 2) % len(pkgs[i].TagSets), mode: "module"})
	}
	// starved packages in module mode too: there the error text comes from the go command
	nstarved := 0
	for i, g := range pkgs {
		if g.Starved && nstarved < c.N(12, 100) {
			nstarved++
			jobs2 = append(jobs2, e2eJob{pi: i, ti: 0, mode: "module"})
		}
	}
	jobs2 = append(jobs2, e2eJob{pi: npk, ti: 0, mode: "module"}, e2eJob{pi: npk, ti: 1, mode: "module"})
	ncli := c.N(8, 60)
	cli := <-cliReady
	if cli != "" {
		jobs2 = append(jobs2, e2eJob{pi: npk, ti: 1, mode: "cli"})
		for k := 0; k < ncli && k < npk; k++ {
			i := (k*37 + 3) % npk
			jobs2 = append(jobs2, e2eJob{pi: i, ti: (k + 1) % len(pkgs[i].TagSets), mode: "cli"})
		}
	} else {
		c.Inconclusive("cli-not-built")
	}
	// (d) the location sweep (loc.go) runs alongside: relocated programs, one child per
	//     (GOROOT, GOPATH) arrangement
	locChunks := s.locSetup(pkgs[:npk])
	c.Parallel(len(jobs2)+len(locChunks), func(k int) {
		if k < len(locChunks) { // the longest tasks first
			t0 := time.Now()
			if lc := locChunks[k]; lc.cli {
				if cli == "" {
					return
				}
				j := lc.jobs[0]
				res := c.CompileJS(j.dir, core.CompileOpt{Tags: j.g.TagSets[j.ti], Out: fmt.Sprintf("out-loc-cli%d.js", k), CLI: true, TagSep: ",", Env: lc.env})
				if res.TimedOut {
					c.Inconclusive("compile-timeout")
					return
				}
				s.judge(j.g, j.dir, j, res.OK, res.Output, res.JS, 5000+k, nil)
			} else {
				s.e2eBatch(pkgs, dirs, lc.jobs, 5000+k, lc.env)
			}
			if os.Getenv("VERIF_DEBUG") != "" {
				fmt.Printf("C18 location chunk %d (%d builds): %.1fs\n", k, len(locChunks[k].jobs), time.Since(t0).Seconds())
			}
			return
		}
		k -= len(locChunks)
		j := jobs2[k]
		g := pkgs[j.pi]
		opt := core.CompileOpt{Tags: g.TagSets[j.ti], Out: fmt.Sprintf("out-m%d.js", k), CLI: j.mode == "cli", TagSep: []string{" ", ",", ", "}[k%3], Env: []string{"GOPATH=" + gopath}}
		res := c.CompileJS(dirs[j.pi], opt)
		if res.TimedOut {
			c.Inconclusive("compile-timeout")
			return
		}
		s.judge(g, dirs[j.pi], j, res.OK, res.Output, res.JS, k, nil)
	})
	phase("e2e")
	// ---- (2a) API level on the generated directories ----
	s.apiGenerated(pkgs, dirs)
	phase("api-generated")

	// ---- (2b) API level: every directory of GOROOT/src ----
	s.stdSweep()
	phase("std-sweep")

	c.Count("e2e_builds", s.e2eRuns)
	for m, n := range s.e2eByMode {
		c.Count("e2e_builds_mode_"+m, n)
	}
	c.Count("e2e_builds_expected_to_fail", s.e2eExpectErr)
	c.Count("location_places_observed", len(s.locByPlace))
	if len(s.locByPlace) == 0 {
		c.Inconclusive("location-sweep-observed-nothing")
	}
	c.Count("api_imports_generated_dirs", s.apiImports)
	s.flushSamples()
	c.Count("std_dirs_listed", s.stdListed)
	c.Count("std_dirs_swept", len(s.stdDirs))
	c.Count("std_imports_compared", s.stdImports)
	c.Count("std_go_files_decided", s.stdFiles)
	c.Count("std_go_files_with_constraint", s.stdConstr)
	c.Count("distinct_constraint_expressions", len(s.exprs))
	c.Count("oracle_self_crosschecks", s.oracleSelf)

	floor := c.N(400, 4000)
	if len(s.stdDirs) < 300 { // the sweep is part of the observation floor
		floor = 1 << 30
	}
	return c.Finish("exploration", s.decisions, len(s.classes), floor,
		"generated packages (12–40 files, optional dependency package) whose files register their names from init(); random //go:build expressions of depth ≤4 over {js, ecmascript, gc, gopherjs, netgo, purego, math_big_pure_go, go1.N, cgo, other GOOS/GOARCH, unix, unknown, user tags}, file-name suffix combinations, cgo files, .inc.js files, _test/hidden files, legacy +build lines; compiled with random -tags sets (every pair through a fresh in-process build.Session in GOPATH mode, a subset in module mode through `vp compile`, a few through the real CLI, some with the deprecated GOOS=linux override; a location sweep rebuilds some of them at a family of places relative to GOROOT and GOPATH: sibling directories sharing a string prefix with a symlinked GOROOT, GOPATH extending the GOROOT string, GOROOT's path inside the project path, directories named src/vendor, nested modules, dotted and std-like module paths, vendored dependencies, projects reached through a symbolic link) and run under node: registered set == prediction of an independent evaluator of the documented rules; all-excluded packages must fail with the 'build constraints exclude all Go files' (go command, module mode) / 'no buildable Go source files' (go/build, GOPATH mode) error. A fixed sentinel package holds the examples of doc/compatibility.md with hand-written expectations. Same directories through build.NewBuildContext(...).Import (GoFiles/TestGoFiles/XTestGoFiles/JSFiles/CgoFiles), plus every package directory of GOROOT/src predicted as js/wasm with release tags ≤ go1.20. evaluations = (file, environment) selection decisions compared with an observation; distinct_nontrivial = distinct (expression shape over tag classes, file-name suffix, kind, predicted outcome) classes among generated files",
		map[string]any{"suffix_vocabulary": suffixes[6:], "user_tag_pool": userPool, "builtin_tags_also_passed_as_user_tags": flippable,
			"location_sweep_builds_per_world_and_place": s.locCoverage()},
		[]string{
			"go/build/constraint parses and evaluates //go:build syntax correctly (cross-checked against a direct evaluation of the generator's own tree)",
			"known GOOS/GOARCH lists are those of the go1.23 reference toolchain",
			"GOROOT is go1.23 with GOPHERJS_SKIP_VERSION_CHECK=1; release tags must still stop at go1.20",
			"emitted programs of the batch phase run in fresh vm contexts of one node process (js/c18_runner.js); a program that misbehaves there is re-run stand-alone with plain node and that run is judged",
			"standard-library GoFiles of runtime, runtime/pprof, sync, syscall/js are altered by documented post-load tweaks and are not compared (counted as inconclusive)",
		})
}

// loadSentinel copies sentinels/C18/docexamples into the workspace and checks the oracle against
// the hand-written expectation.
func (s *state) loadSentinel(gopath string) (*GenPkg, string, error) {
	src := filepath.Join(s.c.Verif, "sentinels", "C18", "docexamples")
	ents, err := os.ReadDir(src)
	if err != nil {
		return nil, "", err
	}
	g := &GenPkg{Name: "c18sentinel", Files: map[string]string{}, TagSets: [][]string{nil, {"alpha"}}}
	d := &GenDir{Pkg: "main"}
	expected := map[string]string{}
	for _, e := range ents {
		b, err := os.ReadFile(filepath.Join(src, e.Name()))
		if err != nil {
			return nil, "", err
		}
		if e.Name() == "EXPECTED.txt" {
			for _, l := range strings.Split(string(b), "\n") {
				if l = strings.TrimSpace(l); l == "" || strings.HasPrefix(l, "#") {
					continue
				}
				k, v, _ := strings.Cut(l, ":")
				expected[strings.TrimSpace(k)] = strings.TrimSpace(v)
			}
			continue
		}
		g.Files[e.Name()] = string(b)
		if e.Name() == "go.mod" {
			continue
		}
		f := &GenFile{Name: e.Name(), Kind: "go", Shape: "sentinel", Hidden: strings.HasPrefix(e.Name(), "_")}
		switch {
		case e.Name() == "main.go":
			f.Kind = "anchor"
		case strings.HasSuffix(e.Name(), ".inc.js"):
			f.Kind = "incjs"
		case strings.HasSuffix(e.Name(), "_test.go"):
			f.Kind = "test"
		}
		h := ParseHeader(b)
		f.Expr = strings.TrimPrefix(h.GoBuild, "//go:build ")
		d.Files = append(d.Files, f)
	}
	g.Dirs = []*GenDir{d}
	dir := filepath.Join(gopath, "src", g.Name)
	os.MkdirAll(dir, 0o755)
	core.WriteFiles(dir, g.Files)
	for _, ts := range g.TagSets {
		k := strings.Join(ts, ",")
		if k == "" {
			k = "-"
		}
		p, err := UserEnv(ts, "").PredictDir(dir)
		if err != nil {
			return nil, "", err
		}
		var names []string
		for _, n := range append(append([]string{}, p.Go...), p.JS...) {
			if n != "main.go" {
				names = append(names, n)
			}
		}
		sort.Strings(names)
		if got := strings.Join(names, ";"); got != expected[k] {
			return nil, "", fmt.Errorf("the oracle disagrees with the hand-written expectation for tags %q:\n oracle:   %s\n expected: %s", k, got, expected[k])
		}
	}
	return g, dir, nil
}

func firstLines(s string, n int) string {
	l := strings.Split(s, "\n")
	if len(l) > n {
		l = l[:n]
	}
	return strings.Join(l, "\n")
}

// classify records the coverage classes of the generated files of a directory under one environment.
func (s *state) classify(d *GenDir, pred *Prediction) {
	sel := map[string]bool{}
	for _, l := range [][]string{pred.Go, pred.Test, pred.XTest, pred.JS} {
		for _, n := range l {
			sel[n] = true
		}
	}
	defer s.lock()()
	for _, f := range d.Files {
		suffix := ""
		base := strings.TrimSuffix(strings.TrimSuffix(f.Name, ".go"), ".inc.js")
		if i := strings.IndexByte(base, '_'); i > 0 {
			suffix = base[i:]
		}
		key := fmt.Sprintf("%s|%s|%s|late=%v cgo=%v hidden=%v|%v", f.Shape, suffix, f.Kind, f.Late, f.Cgo, f.Hidden, sel[f.Name])
		s.classes[key] = true
	}
}

func keyOf(g *GenPkg, ti int, goos string, mode string) string {
	k := fmt.Sprintf("%s/tags=%s", g.Name, strings.Join(g.TagSets[ti], ","))
	if goos != "" {
		k += "/GOOS=" + goos
	}
	if mode != "" {
		k += "/" + mode
	}
	return k
}

func setOf(l []string) map[string]bool {
	m := map[string]bool{}
	for _, x := range l {
		m[x] = true
	}
	return m
}

// diffSets describes observed vs predicted.
func diffSets(what string, observed, predicted []string) string {
	o, p := setOf(observed), setOf(predicted)
	var extra, missing []string
	for x := range o {
		if !p[x] {
			extra = append(extra, x)
		}
	}
	for x := range p {
		if !o[x] {
			missing = append(missing, x)
		}
	}
	if len(extra) == 0 && len(missing) == 0 && len(observed) == len(predicted) {
		return ""
	}
	sort.Strings(extra)
	sort.Strings(missing)
	return fmt.Sprintf("%s: selected although the documented rules exclude them: %v; not selected although the documented rules select them: %v", what, extra, missing)
}

func (s *state) replayFiles(g *GenPkg, extra map[string]string) map[string]string {
	m := map[string]string{}
	for k, v := range g.Files {
		m["src/"+k] = v
	}
	meta, _ := json.MarshalIndent(g.Dirs, "", " ")
	m["generator-meta.json"] = string(meta)
	for k, v := range extra {
		m[k] = v
	}
	return m
}

func describe(g *GenPkg, names []string) string {
	var b strings.Builder
	for _, n := range names {
		src, ok := g.Files[n]
		if !ok {
			continue
		}
		h := ParseHeader([]byte(src))
		fmt.Fprintf(&b, "  %s: %s %v\n", n, h.GoBuild, h.PlusBuild)
	}
	return b.String()
}

type e2eJob struct {
	pi, ti int
	goos   string
	mode   string // gopath | module | cli | loc/<world>/<place>

	// relocated programs of the location sweep (loc.go) carry their own copy and address
	g      *GenPkg
	dir    string
	path   string
	module bool
	loc    *locInfo
}

// resolve returns the program, its directory and its import path.
func (j e2eJob) resolve(pkgs []*GenPkg, dirs []string) (*GenPkg, string, string) {
	if j.g != nil {
		return j.g, j.dir, j.path
	}
	return pkgs[j.pi], dirs[j.pi], pkgs[j.pi].Name
}

// BuildJob / BuildRes are the protocol of the `vp c18-build` child (cmd/vp/sub_c18_build.go).
type BuildJob struct {
	ID     string   `json:"id"`
	Dir    string   `json:"dir"`
	Path   string   `json:"path"`
	Tags   []string `json:"tags"`
	GOOS   string   `json:"goos,omitempty"`
	Module bool     `json:"module,omitempty"`
	Out    string   `json:"out"`
}

type BuildRes struct {
	ID    string `json:"id"`
	OK    bool   `json:"ok"`
	Err   string `json:"err,omitempty"`
	Panic bool   `json:"panic,omitempty"`
}

// e2eBatch builds a chunk of (package, tag set) pairs in one child and judges every result.
//
// env is the environment of the child: GOROOT (GOPHERJS_GOROOT) and GOPATH are per-process settings.
func (s *state) e2eBatch(pkgs []*GenPkg, dirs []string, jobs []e2eJob, chunk int, env []string) {
	if len(jobs) == 0 {
		return
	}
	c := s.c
	d := c.Dir("e2e")
	var bj []BuildJob
	for k, j := range jobs {
		g, dir, path := j.resolve(pkgs, dirs)
		bj = append(bj, BuildJob{ID: fmt.Sprint(k), Dir: dir, Path: path, Tags: g.TagSets[j.ti], GOOS: j.goos, Module: j.module,
			Out: filepath.Join(d, fmt.Sprintf("out-%d.js", k))})
	}
	jf, rf := filepath.Join(d, "jobs.json"), filepath.Join(d, "res.json")
	b, _ := json.Marshal(bj)
	os.WriteFile(jf, b, 0o644)
	r := core.Exec(d, core.BaseEnv(env...), 30*time.Minute, "", c.Self, "c18-build", jf, rf)
	var res []BuildRes
	rb, err := os.ReadFile(rf)
	if r.TimedOut || r.Exit != 0 || err != nil || json.Unmarshal(rb, &res) != nil || len(res) != len(jobs) {
		for range jobs {
			c.Inconclusive("e2e-batch-child-failed")
		}
		fmt.Printf("C18: build child failed (exit %d timeout %v): %s\n", r.Exit, r.TimedOut, firstLines(r.Stderr, 5))
		return
	}
	// run all successfully built programs in one node process (fresh vm context each); anything
	// abnormal there falls back to a stand-alone `node out.js` inside judge
	type nodeJob struct {
		ID   string `json:"id"`
		File string `json:"file"`
	}
	type nodeRes struct {
		ID    string   `json:"id"`
		Lines []string `json:"lines"`
		Error string   `json:"error"`
		Done  bool     `json:"done"`
	}
	var nj []nodeJob
	for k := range jobs {
		if res[k].OK {
			nj = append(nj, nodeJob{ID: fmt.Sprint(k), File: bj[k].Out})
		}
	}
	pre := map[string]*nodeRes{}
	if len(nj) > 0 {
		njf, nrf := filepath.Join(d, "node-jobs.json"), filepath.Join(d, "node-res.json")
		b, _ := json.Marshal(nj)
		os.WriteFile(njf, b, 0o644)
		nr := core.Exec(d, core.BaseEnv(), 10*time.Minute, "", "node", "--stack-size=4000", filepath.Join(c.Verif, "js", "c18_runner.js"), njf, nrf)
		var nres []nodeRes
		if rb, err := os.ReadFile(nrf); err == nil && !nr.TimedOut && json.Unmarshal(rb, &nres) == nil {
			for i := range nres {
				pre[nres[i].ID] = &nres[i]
			}
		}
	}
	for k, j := range jobs {
		var out *string
		if p := pre[fmt.Sprint(k)]; p != nil && p.Done && p.Error == "" {
			o := strings.Join(p.Lines, "\n") + "\n"
			out = &o
		}
		g, dir, _ := j.resolve(pkgs, dirs)
		s.judge(g, dir, j, res[k].OK, res[k].Err, bj[k].Out, chunk*1000+k, out)
	}
}

// judge compares the outcome of one build (and run) with the prediction.
//
// stdout, when not nil, is what the program printed in the batch runner (js/c18_runner.js);
// otherwise the program is run stand-alone here.
func (s *state) judge(g *GenPkg, dir string, j e2eJob, ok bool, output string, js string, seq int, stdout *string) {
	c := s.c
	tags := g.TagSets[j.ti]
	goos := j.goos
	env := UserEnv(tags, goos)
	preds := make([]*Prediction, len(g.Dirs))
	for i, d := range g.Dirs {
		p, err := env.PredictDir(filepath.Join(dir, filepath.FromSlash(d.Where())))
		if err != nil || len(p.Unpinned) > 0 {
			c.Inconclusive("generator-mishap")
			return
		}
		preds[i] = p
		s.classify(d, p)
	}
	key := "e2e/" + keyOf(g, j.ti, goos, j.mode)
	pre := ""
	if goos != "" {
		pre = "GOOS=" + goos + " "
	}
	if j.mode == "gopath" {
		pre += "GO111MODULE=off GOPATH=$PWD/gopath "
	}
	cmd := fmt.Sprintf("# sources are in src/ (GOPATH mode: move them to gopath/src/%s)\ncd src && %sgopherjs build --tags %q -o out.js . && node out.js\n", g.Name, pre, strings.Join(tags, " "))
	where := ""
	if j.loc != nil {
		cmd = j.loc.recipe(g, tags, goos)
		where = fmt.Sprintf(" [user package at %s, import path %q, GOROOT=%s GOPATH=%s: must be selected as js/ecmascript like anywhere else]",
			dir, j.path, orSystem(j.loc.goroot), filepath.Join(j.loc.root, j.loc.world.Gopath))
	}

	// what must happen
	mustFailNoGo, mustFail := false, false
	why := ""
	for i, d := range g.Dirs {
		p := preds[i]
		anchor := map[string]string{"": "main.go", "dep": "dep.go"}[d.Rel]
		if len(p.Go)+len(p.Test)+len(p.XTest) == 0 {
			mustFailNoGo, why = true, "every Go file of ./"+d.Rel+" is excluded"
			break
		}
		if !setOf(p.Go)[anchor] {
			mustFail, why = true, anchor+" is excluded (the remaining files cannot build alone)"
			break
		}
	}
	nd := 0
	for _, p := range preds {
		nd += p.Considered + len(p.JS)
	}
	unlock := s.lock()
	s.e2eRuns++
	if j.loc != nil {
		s.e2eByMode["location"]++
		s.locByPlace[j.loc.world.Name+"/"+j.loc.place.Name]++
	} else {
		s.e2eByMode[j.mode]++
	}
	s.decisions += nd
	if mustFail || mustFailNoGo {
		s.e2eExpectErr++
	}
	unlock()
	defer func() {
		os.Remove(js)
		os.Remove(js + ".map")
	}()

	if mustFailNoGo || mustFail {
		if ok {
			c.Violate(key, fmt.Sprintf("%s: build succeeded although %s (tags %v)%s", key, why, tags, where),
				s.replayFiles(g, map[string]string{"cmd.sh": cmd}))
			return
		}
		if mustFailNoGo && !noGoRe.MatchString(output) {
			c.Violate(key, fmt.Sprintf("%s: %s, but the build failed with a different error (tags %v)%s:\n%s", key, why, tags, where, firstLines(output, 12)),
				s.replayFiles(g, map[string]string{"cmd.sh": cmd, "compiler-output.txt": output}))
			return
		}
		if mustFail && noGoRe.MatchString(output) {
			c.Violate(key, fmt.Sprintf("%s: the build claims that all Go files are excluded, but the documented rules select some (tags %v)%s:\n%s", key, tags, where, firstLines(output, 12)),
				s.replayFiles(g, map[string]string{"cmd.sh": cmd, "compiler-output.txt": output}))
		}
		if mustFailNoGo {
			c.Count("e2e_all_excluded_error_seen_mode_"+j.mode, 1)
			s.keep("e2e-all-excluded", key, map[string]any{"error": firstLines(strings.TrimSpace(output), 1)})
		}
		return
	}
	if !ok && (strings.Contains(output, s.gorootSrc()) || strings.Contains(output, s.gorootSrcReal()) ||
		(j.loc != nil && j.loc.goroot != "" && strings.Contains(output, filepath.Join(j.loc.goroot, "src")+string(filepath.Separator)))) {
		// a user tag that also switches files of the standard library (e.g. -tags linux) broke a
		// standard package: outside this property
		c.Inconclusive("user-tag-broke-a-standard-package")
		return
	}
	if !ok {
		c.Violate(key, fmt.Sprintf("%s: build failed although the documented rules select a buildable file set (tags %v)%s:\n%s", key, tags, where, firstLines(output, 12)),
			s.replayFiles(g, map[string]string{"cmd.sh": cmd, "compiler-output.txt": output}))
		return
	}
	var run core.Run
	if stdout != nil {
		run.Stdout = *stdout
		c.Count("e2e_runs_in_batch_runner", 1)
	} else {
		run = c.RunNode(js, core.NodeOpt{Timeout: 2 * time.Minute})
		c.Count("e2e_runs_standalone_node", 1)
		if run.TimedOut {
			c.Inconclusive("node-timeout")
			return
		}
	}
	var obsJS, obsGo []string
	sawReg := false
	for _, l := range strings.Split(run.Stdout, "\n") {
		l = strings.TrimSpace(l)
		switch {
		case strings.HasPrefix(l, "INCJS:"):
			obsJS = append(obsJS, l[len("INCJS:"):])
		case strings.HasPrefix(l, "REG:"):
			sawReg = true
			rest := l[len("REG:"):]
			parts := strings.SplitN(rest, "|DEP:", 2)
			for _, part := range parts {
				for _, n := range strings.Split(part, ";") {
					if n != "" {
						obsGo = append(obsGo, n)
					}
				}
			}
		}
	}
	if !sawReg || run.Exit != 0 {
		c.Violate(key, fmt.Sprintf("%s: program built from the selected files did not run to completion (exit %d)%s: %s", key, run.Exit, where, firstLines(run.Stderr+run.Stdout, 10)),
			s.replayFiles(g, map[string]string{"cmd.sh": cmd, "node-output.txt": run.Stdout + run.Stderr}))
		return
	}
	var predGo, predJS []string
	for i, d := range g.Dirs {
		prefix := ""
		if d.Rel != "" {
			prefix = d.Rel + "/"
		}
		for _, n := range preds[i].Go {
			if n == "main.go" || n == "dep.go" {
				continue
			}
			predGo = append(predGo, prefix+n)
		}
		for _, n := range preds[i].JS {
			predJS = append(predJS, prefix+n)
		}
	}
	msg := diffSets("Go files that registered at run time", obsGo, predGo)
	if m2 := diffSets(".inc.js files that ran", obsJS, predJS); m2 != "" {
		msg += "\n" + m2
	}
	if msg != "" {
		o, p := setOf(obsGo), setOf(predGo)
		var odd []string
		for x := range o {
			if !p[x] {
				odd = append(odd, x)
			}
		}
		for x := range p {
			if !o[x] {
				odd = append(odd, x)
			}
		}
		sort.Strings(odd)
		c.Violate(key, fmt.Sprintf("%s: tags=%v GOOS=%q%s\n%s\nconstraints of the files in question:\n%s", key, tags, env.GOOS, where, msg, describe(g, odd)),
			s.replayFiles(g, map[string]string{"cmd.sh": cmd, "observed.txt": run.Stdout, "predicted.txt": "go: " + strings.Join(predGo, " ") + "\nincjs: " + strings.Join(predJS, " ") + "\n"}))
		return
	}
	if len(obsGo) >= 4 && len(obsJS) >= 1 {
		kind := "e2e"
		if g.Name == "c18sentinel" {
			kind = "e2e-sentinel"
		}
		if j.loc != nil {
			kind = "e2e-location"
		}
		s.keep(kind, key, map[string]any{"files_in_dirs": nd, "registered_at_run_time": len(obsGo), "incjs_ran": obsJS,
			"some_decisions": someDecisions(g, preds[0], dir)})
	}
}

var gorootOnce sync.Once
var gorootSrcDir string

func (s *state) gorootSrc() string {
	gorootOnce.Do(func() {
		r := core.Exec(s.c.Scratch, core.BaseEnv(), time.Minute, "", "go", "env", "GOROOT")
		gorootSrcDir = filepath.Join(strings.TrimSpace(r.Stdout), "src") + string(filepath.Separator)
	})
	return gorootSrcDir
}

func (s *state) gorootSrcReal() string {
	p := strings.TrimSuffix(s.gorootSrc(), string(filepath.Separator))
	if real, err := filepath.EvalSymlinks(p); err == nil {
		return real + string(filepath.Separator)
	}
	return s.gorootSrc()
}

// someDecisions lists a few actual (file, constraint, decision) triples of the main package.
func someDecisions(g *GenPkg, p *Prediction, dir string) []string {
	sel := setOf(p.Go)
	var out []string
	nsel, nexcl := 0, 0
	for _, f := range g.Dirs[0].Files {
		if f.Kind != "go" || f.Expr == "" || f.Late || f.Hidden || f.Cgo {
			continue
		}
		if sel[f.Name] && nsel < 2 {
			nsel++
			out = append(out, fmt.Sprintf("%s [//go:build %s] selected", f.Name, f.Expr))
		} else if !sel[f.Name] && nexcl < 2 {
			nexcl++
			out = append(out, fmt.Sprintf("%s [//go:build %s] excluded", f.Name, f.Expr))
		}
	}
	return out
}

func orSystem(goroot string) string {
	if goroot == "" {
		return "(system)"
	}
	return goroot
}

func first(l []string, n int) []string {
	if len(l) > n {
		return l[:n]
	}
	return l
}

// runImport runs chunks of import jobs in parallel children and returns all results by job id.
func (s *state) runImport(name string, chunks [][]ImportJob) map[string][]ImportRes {
	c := s.c
	out := map[string][]ImportRes{}
	var mu sync.Mutex
	c.Parallel(len(chunks), func(i int) {
		if len(chunks[i]) == 0 {
			return
		}
		d := c.Dir(name)
		jf, rf := filepath.Join(d, "jobs.json"), filepath.Join(d, "res.json")
		b, _ := json.Marshal(chunks[i])
		os.WriteFile(jf, b, 0o644)
		r := core.Exec(d, core.BaseEnv("GOMAXPROCS=2"), 20*time.Minute, "", c.Self, "c18-import", jf, rf)
		if r.TimedOut {
			c.Inconclusive(name + "-child-timeout")
			return
		}
		var res []ImportRes
		rb, err := os.ReadFile(rf)
		if r.Exit != 0 || err != nil || json.Unmarshal(rb, &res) != nil {
			c.Inconclusive(name + "-child-failed")
			fmt.Printf("C18: import child failed (exit %d): %s\n", r.Exit, firstLines(r.Stderr, 5))
			return
		}
		mu.Lock()
		for _, x := range res {
			out[x.ID] = append(out[x.ID], x)
		}
		mu.Unlock()
	})
	return out
}

func (s *state) apiGenerated(pkgs []*GenPkg, dirs []string) {
	c := s.c
	nch := c.Jobs * 2
	chunks := make([][]ImportJob, nch)
	type ref struct {
		g    *GenPkg
		dir  string
		ti   int
		goos string
	}
	refs := map[string]ref{}
	for i, g := range pkgs {
		paths := []string{"."}
		if len(g.Dirs) > 1 {
			paths = append(paths, "./dep")
		}
		for t, ts := range g.TagSets {
			id := fmt.Sprintf("%d/%d", i, t)
			chunks[i%nch] = append(chunks[i%nch], ImportJob{ID: id, Dir: dirs[i], Paths: paths, Tags: ts})
			refs[id] = ref{g, dirs[i], t, ""}
		}
		if i%10 == 3 {
			id := fmt.Sprintf("%d/linux", i)
			chunks[i%nch] = append(chunks[i%nch], ImportJob{ID: id, Dir: dirs[i], Paths: paths, Tags: g.TagSets[len(g.TagSets)-1], GOOS: "linux"})
			refs[id] = ref{g, dirs[i], len(g.TagSets) - 1, "linux"}
		}
	}
	results := s.runImport("api", chunks)
	ids := make([]string, 0, len(refs))
	for id := range refs {
		ids = append(ids, id)
	}
	sort.Strings(ids)
	for _, id := range ids {
		rf := refs[id]
		rs, ok := results[id]
		if !ok {
			c.Inconclusive("api-result-missing")
			continue
		}
		env := UserEnv(rf.g.TagSets[rf.ti], rf.goos)
		for _, r := range rs {
			rel := strings.TrimPrefix(strings.TrimPrefix(r.Path, "."), "/")
			pred, err := env.PredictDir(filepath.Join(rf.dir, rel))
			if err != nil || len(pred.Unpinned) > 0 {
				c.Inconclusive("generator-mishap")
				continue
			}
			for _, d := range rf.g.Dirs {
				if d.Rel == rel {
					s.classify(d, pred)
				}
			}
			key := fmt.Sprintf("api/%s/%s", keyOf(rf.g, rf.ti, rf.goos, ""), r.Path)
			s.apiImports++
			s.decisions += pred.Considered + len(pred.JS)
			if msg := compareImport(r, pred, true); msg != "" {
				c.Violate(key, fmt.Sprintf("%s: build.NewBuildContext(\"\", %v).Import(%q, dir, 0) GOOS=%q:\n%s", key, rf.g.TagSets[rf.ti], r.Path, env.GOOS, msg),
					s.replayFiles(rf.g, map[string]string{"observed.json": toJSON(r), "predicted.json": toJSON(pred)}))
			} else if len(r.JS) > 0 && len(r.Test)+len(r.XTest) > 0 {
				s.keep("api-import", key, map[string]any{"GoFiles": len(r.Go), "TestGoFiles": len(r.Test) + len(r.XTest), "JSFiles": r.JS, "IgnoredGoFiles": len(r.Ignored), "err": r.Err})
			}
		}
	}
}

func toJSON(v any) string {
	b, _ := json.MarshalIndent(v, "", " ")
	return string(b)
}

// compareImport compares one Import result with the prediction. goFiles=false skips GoFiles
// (documented post-load tweaks of a few standard packages).
func compareImport(r ImportRes, p *Prediction, goFiles bool) string {
	if len(p.Go)+len(p.Test)+len(p.XTest) == 0 {
		if r.Err == "" {
			return fmt.Sprintf("every Go file is excluded by the documented rules, but Import succeeded with GoFiles=%v TestGoFiles=%v XTestGoFiles=%v", r.Go, r.Test, r.XTest)
		}
		if !noGoRe.MatchString(r.Err) {
			return "every Go file is excluded by the documented rules, but Import failed with a different error: " + r.Err
		}
		return ""
	}
	if r.Err != "" {
		return fmt.Sprintf("the documented rules select GoFiles=%v TestGoFiles=%v XTestGoFiles=%v, but Import failed: %s", p.Go, p.Test, p.XTest, r.Err)
	}
	var msgs []string
	if goFiles {
		if m := diffSets("GoFiles", r.Go, p.Go); m != "" {
			msgs = append(msgs, m)
		}
	}
	if m := diffSets("TestGoFiles", r.Test, p.Test); m != "" {
		msgs = append(msgs, m)
	}
	if m := diffSets("XTestGoFiles", r.XTest, p.XTest); m != "" {
		msgs = append(msgs, m)
	}
	if m := diffSets("JSFiles", r.JS, p.JS); m != "" {
		msgs = append(msgs, m)
	}
	if len(r.Cgo) > 0 {
		msgs = append(msgs, fmt.Sprintf("CgoFiles=%v: cgo files are never used", r.Cgo))
	}
	return strings.Join(msgs, "\n")
}

// packages whose GoFiles are altered after loading (build/context.go applyPostloadTweaks); the
// property does not pin their GoFiles down.
var postTweaked = map[string]bool{"runtime": true, "runtime/pprof": true, "sync": true, "syscall/js": true}

var stdTagPool = []string{"race", "msan", "asan", "boringcrypto", "osusergo", "timetzdata", "faketime", "nethttpomithttp2",
	"compiler_bootstrap", "cmd_go_bootstrap", "goexperiment.swissmap", "goexperiment.rangefunc", "goexperiment.boringcrypto",
	"linux", "cgo", "go1.23", "go1.21", "amd64", "unix", "wasip1", "ecmascript", "appengine", "static", "goexperiment.arenas", "libfuzzer"}

func (s *state) stdSweep() {
	c := s.c
	r := core.Exec(c.Scratch, core.BaseEnv(), time.Minute, "", "go", "env", "GOROOT")
	goroot := strings.TrimSpace(r.Stdout)
	if r.Exit != 0 || goroot == "" {
		c.Inconclusive("goroot-unknown")
		return
	}
	src := filepath.Join(goroot, "src")
	if real, err := filepath.EvalSymlinks(src); err == nil {
		src = real // GOROOT/src may be a symbolic link; WalkDir does not follow its root
	}
	var paths []string
	filepath.WalkDir(src, func(p string, d os.DirEntry, err error) error {
		if err != nil {
			return nil
		}
		if !d.IsDir() {
			return nil
		}
		n := d.Name()
		if p != src && (n == "testdata" || strings.HasPrefix(n, "_") || strings.HasPrefix(n, ".")) {
			return filepath.SkipDir
		}
		ents, _ := os.ReadDir(p)
		for _, e := range ents {
			if !e.IsDir() && strings.HasSuffix(e.Name(), ".go") {
				rel, _ := filepath.Rel(src, p)
				if rel != "." {
					paths = append(paths, filepath.ToSlash(rel))
				}
				break
			}
		}
		return nil
	})
	sort.Strings(paths)
	s.stdListed = len(paths)
	// configurations: no tags; random tag sets; GOOS=linux (std must stay js/wasm)
	type cfg struct {
		tags []string
		goos string
	}
	cfgs := []cfg{{nil, ""}, {nil, "linux"}}
	rng := c.Rand("std-tags")
	for k := c.N(2, 6); k > 0; k-- {
		var ts []string
		seen := map[string]bool{}
		for n := 1 + rng.Intn(5); n > 0; n-- {
			t := stdTagPool[rng.Intn(len(stdTagPool))]
			if !seen[t] {
				seen[t] = true
				ts = append(ts, t)
			}
		}
		cfgs = append(cfgs, cfg{ts, ""})
	}
	proj := c.WriteProgram(&core.Program{Name: "c18-sweep-project", Files: map[string]string{"main.go": "package main\n\nfunc main() {}\n"}})
	nch := c.Jobs
	per := (len(paths) + nch - 1) / nch
	var chunks [][]ImportJob
	for ci, cf := range cfgs {
		for k := 0; k < nch; k++ {
			lo, hi := k*per, (k+1)*per
			if lo >= len(paths) {
				break
			}
			if hi > len(paths) {
				hi = len(paths)
			}
			chunks = append(chunks, []ImportJob{{ID: fmt.Sprint(ci), Dir: proj, Paths: paths[lo:hi], Tags: cf.tags, GOOS: cf.goos}})
		}
	}
	results := s.runImport("std", chunks)
	for ci, cf := range cfgs {
		env := StdEnv(cf.tags)
		rs := results[fmt.Sprint(ci)]
		if len(rs) != len(paths) {
			c.Inconclusive("std-sweep-incomplete")
		}
		byPath := map[string]ImportRes{}
		for _, r := range rs {
			byPath[r.Path] = r
		}
		type item struct {
			path string
			pred *Prediction
		}
		preds := make([]item, len(paths))
		c.Parallel(len(paths), func(i int) {
			p, err := env.PredictDir(filepath.Join(src, filepath.FromSlash(paths[i])))
			if err != nil {
				p = &Prediction{Unpinned: []string{err.Error()}}
			}
			preds[i] = item{paths[i], p}
		})
		for _, it := range preds {
			r, ok := byPath[it.path]
			if !ok {
				continue
			}
			if len(it.pred.Unpinned) > 0 {
				c.Inconclusive("std-dir-not-pinned-down (several packages / cgo test / malformed)")
				continue
			}
			key := fmt.Sprintf("std/%s/tags=%s/GOOS=%s", it.path, strings.Join(cf.tags, ","), cf.goos)
			if r.Err == "" && !r.Goroot {
				c.Violate(key, fmt.Sprintf("%s: Import resolved a GOROOT/src directory to a non-GOROOT package (%s)", key, r.Dir), map[string]string{"observed.json": toJSON(r)})
				continue
			}
			goFiles := !postTweaked[it.path]
			if !goFiles {
				c.Inconclusive("std-GoFiles-altered-by-documented-post-load-tweak")
				if it.path == "syscall/js" {
					it.pred.Test, r.Test = nil, nil
					if len(it.pred.XTest) == 0 {
						continue
					}
				}
				if len(it.pred.Go) > 0 && len(it.pred.Test)+len(it.pred.XTest) == 0 {
					continue // nothing comparable left
				}
			}
			s.stdDirs[it.path] = true
			s.stdImports++
			s.stdFiles += it.pred.Considered
			s.stdConstr += it.pred.Constrained
			s.decisions += it.pred.Considered
			if msg := compareImport(r, it.pred, goFiles); msg != "" {
				c.Violate(key, fmt.Sprintf("%s: standard-library package must be selected as GOOS=js GOARCH=wasm, release tags ≤ go1.%d, tags %v:\n%s", key, SupportedRelease, cf.tags, msg),
					map[string]string{"observed.json": toJSON(r), "predicted.json": toJSON(it.pred),
						"cmd.txt": fmt.Sprintf("GOOS=%s build.NewBuildContext(\"\", %q).Import(%q, projectDir, 0)\n", cf.goos, cf.tags, it.path)})
			} else if it.pred.Constrained > 8 && len(cf.tags) > 0 {
				s.keep("std-import", key, map[string]any{"GoFiles": len(r.Go), "TestGoFiles": len(r.Test), "XTestGoFiles": len(r.XTest), "go_files_in_dir": it.pred.Considered, "with_constraint": it.pred.Constrained})
			}
		}
	}
}
