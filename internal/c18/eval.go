// Package c18 monitors property C18: source files are selected by the documented build
// constraints.
//
// This file is the ORACLE: an evaluator of the documented file-selection rules
// (`go help buildconstraint`, go/build package documentation, doc/compatibility.md of GopherJS)
// written without calling go/build's or GopherJS's file selection. It uses only
// go/build/constraint (expression syntax) and go/parser (package clause and import list).
package c18

import (
	"fmt"
	"go/build/constraint"
	"go/parser"
	"go/token"
	"os"
	"path/filepath"
	"sort"
	"strconv"
	"strings"
)

// Known GOOS / GOARCH values ("past, present and future"), as documented for file-name matching.
// Copied as constants from the reference toolchain's list (go1.23 go/build/syslist.go).
var knownOS = set("aix android darwin dragonfly freebsd hurd illumos ios js linux nacl netbsd openbsd plan9 solaris wasip1 windows zos")
var knownArch = set("386 amd64 amd64p32 arm armbe arm64 arm64be loong64 mips mipsle mips64 mips64le mips64p32 mips64p32le ppc ppc64 ppc64le riscv riscv64 s390 s390x sparc sparc64 wasm")

// GOOS values for which the "unix" tag is satisfied.
var unixOS = set("aix android darwin dragonfly freebsd hurd illumos ios linux netbsd openbsd solaris")

func set(s string) map[string]bool {
	m := map[string]bool{}
	for _, f := range strings.Fields(s) {
		m[f] = true
	}
	return m
}

// AlwaysOn are the tags GopherJS documents/sets for every build.
var AlwaysOn = []string{"gopherjs", "netgo", "purego", "math_big_pure_go"}

// SupportedRelease is the Go 1.x release GopherJS targets; release tags go1.1 … go1.<this> hold.
// doc/compatibility.md + the version string "1.20.1+go1.20.14" in the README/compiler: Go 1.20.
const SupportedRelease = 20

// Env is the constraint environment of the property statement.
type Env struct {
	GOOS, GOARCH string
	Compiler     string
	Release      int
	Tags         map[string]bool // always-on tags plus user-supplied tags
}

// UserEnv is the environment for user packages: GOOS=js GOARCH=ecmascript (goos may override GOOS,
// the deprecated environment override), gc, always-on tags, release tags up to go1.20, user tags.
func UserEnv(userTags []string, goos string) *Env {
	e := &Env{GOOS: "js", GOARCH: "ecmascript", Compiler: "gc", Release: SupportedRelease, Tags: map[string]bool{}}
	if goos != "" {
		e.GOOS = goos
	}
	for _, t := range AlwaysOn {
		e.Tags[t] = true
	}
	for _, t := range userTags {
		e.Tags[t] = true
	}
	return e
}

// StdEnv is the environment for standard-library packages: as for js/wasm.
func StdEnv(userTags []string) *Env {
	e := UserEnv(userTags, "")
	e.GOOS, e.GOARCH = "js", "wasm"
	return e
}

// Tag reports whether a single constraint term is satisfied.
func (e *Env) Tag(name string) bool {
	if name == e.GOOS || name == e.GOARCH || name == e.Compiler {
		return true
	}
	if name == "unix" && unixOS[e.GOOS] {
		return true
	}
	// documented implications between operating systems
	if (e.GOOS == "android" && name == "linux") || (e.GOOS == "illumos" && name == "solaris") || (e.GOOS == "ios" && name == "darwin") {
		return true
	}
	if name == "boringcrypto" {
		name = "goexperiment.boringcrypto"
	}
	if e.Tags[name] {
		return true
	}
	if strings.HasPrefix(name, "go1.") {
		n, err := strconv.Atoi(name[4:])
		if err == nil && strconv.Itoa(n) == name[4:] && n >= 1 && n <= e.Release {
			return true
		}
	}
	// "cgo" is satisfied only when cgo is supported; GopherJS never supports it.
	return false
}

// NameOK evaluates the implicit constraint of a file name: after stripping the extension and a
// possible _test suffix, *_GOOS, *_GOARCH, *_GOOS_GOARCH require those terms.
func (e *Env) NameOK(name string) bool {
	if i := strings.IndexByte(name, '.'); i >= 0 {
		name = name[:i]
	}
	// the pattern is "*_GOOS": something non-empty must precede the first underscore
	i := strings.IndexByte(name, '_')
	if i < 0 {
		return true
	}
	name = name[i:]
	parts := strings.Split(name, "_")
	if n := len(parts); n > 0 && parts[n-1] == "test" {
		parts = parts[:n-1]
	}
	n := len(parts)
	if n >= 2 && knownOS[parts[n-2]] && knownArch[parts[n-1]] {
		return e.Tag(parts[n-2]) && e.Tag(parts[n-1])
	}
	if n >= 1 && (knownOS[parts[n-1]] || knownArch[parts[n-1]]) {
		return e.Tag(parts[n-1])
	}
	return true
}

// Header is what the top of a source file says about build constraints.
type Header struct {
	GoBuild   string   // the //go:build line ("" if none)
	PlusBuild []string // legacy "// +build" lines that count (only used when GoBuild == "")
	Multiple  bool     // more than one //go:build line
}

// ParseHeader extracts the constraints of a file: a //go:build line counts when it is preceded
// only by blank lines and comments; "// +build" lines count when they are in the leading run of
// blank lines and // comments and are followed by a blank line.
func ParseHeader(src []byte) Header {
	var h Header
	lines := strings.Split(string(src), "\n")
	inBlock := false
	leading := true // still in the leading run of blank lines and // comments
	var plus []string
	var plusConfirmed []string
	for _, raw := range lines {
		line := strings.TrimSpace(raw)
		if line == "" {
			if leading {
				// legacy lines seen so far are followed by a blank line: they count
				plusConfirmed = append(plusConfirmed, plus...)
				plus = nil
			}
			continue
		}
		if !inBlock && strings.HasPrefix(line, "//") {
			if constraint.IsGoBuild(line) {
				if h.GoBuild != "" {
					h.Multiple = true
				} else {
					h.GoBuild = line
				}
			} else if leading && constraint.IsPlusBuild(line) {
				plus = append(plus, line)
			}
			continue
		}
		leading = false
		// block comments and source text
		rest := line
		stop := false
		for rest != "" {
			if inBlock {
				k := strings.Index(rest, "*/")
				if k < 0 {
					rest = ""
					break
				}
				inBlock = false
				rest = strings.TrimSpace(rest[k+2:])
				continue
			}
			if strings.HasPrefix(rest, "//") {
				rest = ""
				break
			}
			if strings.HasPrefix(rest, "/*") {
				inBlock = true
				rest = strings.TrimSpace(rest[2:])
				continue
			}
			stop = true // source text: the header is over
			break
		}
		if stop {
			break
		}
	}
	h.PlusBuild = plusConfirmed
	return h
}

// HeaderOK evaluates the explicit constraints of a file. err != nil means the constraint text is
// malformed (the file is then outside what the property pins down).
func (e *Env) HeaderOK(h Header) (bool, error) {
	if h.Multiple {
		return false, fmt.Errorf("multiple //go:build lines")
	}
	if h.GoBuild != "" {
		x, err := constraint.Parse(h.GoBuild)
		if err != nil {
			return false, err
		}
		return x.Eval(e.Tag), nil
	}
	for _, l := range h.PlusBuild {
		x, err := constraint.Parse(l)
		if err != nil {
			return false, err
		}
		if !x.Eval(e.Tag) {
			return false, nil
		}
	}
	return true, nil
}

// Prediction is the predicted classification of the files of one directory.
type Prediction struct {
	Go, Test, XTest []string // selected non-test / in-package test / external test files
	JS              []string // .inc.js files
	PkgNames        []string // distinct package names among selected non-documentation files
	Unpinned        []string // reasons why the directory is outside what the oracle can pin down
	Considered      int      // .go files looked at
	Constrained     int      // .go files carrying an explicit constraint
	CgoSkipped      int      // selected-by-constraints files dropped because they import "C"
}

// PredictDir applies the documented rules to every file of dir.
func (e *Env) PredictDir(dir string) (*Prediction, error) {
	ents, err := os.ReadDir(dir)
	if err != nil {
		return nil, err
	}
	p := &Prediction{}
	names := map[string]bool{}
	for _, ent := range ents {
		name := ent.Name()
		full := filepath.Join(dir, name)
		if ent.IsDir() {
			continue
		}
		if ent.Type()&os.ModeSymlink != 0 {
			st, err := os.Stat(full)
			if err != nil || st.IsDir() {
				continue
			}
		}
		if strings.HasPrefix(name, "_") || strings.HasPrefix(name, ".") {
			continue
		}
		if strings.HasSuffix(name, ".inc.js") {
			p.JS = append(p.JS, name)
			continue
		}
		if !strings.HasSuffix(name, ".go") {
			continue
		}
		p.Considered++
		src, err := os.ReadFile(full)
		if err != nil {
			return nil, err
		}
		h := ParseHeader(src)
		if h.GoBuild != "" || len(h.PlusBuild) > 0 {
			p.Constrained++
		}
		if !e.NameOK(name) {
			continue
		}
		ok, err := e.HeaderOK(h)
		if err != nil {
			p.Unpinned = append(p.Unpinned, name+": malformed constraint: "+err.Error())
			continue
		}
		if !ok {
			continue
		}
		f, err := parser.ParseFile(token.NewFileSet(), full, src, parser.ImportsOnly)
		if err != nil || f == nil || f.Name == nil {
			p.Unpinned = append(p.Unpinned, name+": does not parse")
			continue
		}
		pkg := f.Name.Name
		if pkg == "documentation" {
			continue
		}
		isTest := strings.HasSuffix(name, "_test.go")
		cgo := false
		for _, im := range f.Imports {
			if im.Path != nil && im.Path.Value == `"C"` {
				cgo = true
			}
		}
		if cgo {
			p.CgoSkipped++
			if isTest {
				p.Unpinned = append(p.Unpinned, name+": cgo in a selected test file")
			}
			continue
		}
		switch {
		case isTest && strings.HasSuffix(pkg, "_test"):
			p.XTest = append(p.XTest, name)
			names[strings.TrimSuffix(pkg, "_test")] = true
		case isTest:
			p.Test = append(p.Test, name)
			names[pkg] = true
		default:
			p.Go = append(p.Go, name)
			names[pkg] = true
		}
	}
	for n := range names {
		p.PkgNames = append(p.PkgNames, n)
	}
	sort.Strings(p.PkgNames)
	sort.Strings(p.Go)
	sort.Strings(p.Test)
	sort.Strings(p.XTest)
	sort.Strings(p.JS)
	if len(p.PkgNames) > 1 {
		// "x_test" external packages of a package literally named "x_test" etc.; and directories
		// holding several packages: go/build reports an error whose choice is not documented.
		p.Unpinned = append(p.Unpinned, "several package names among the selected files: "+strings.Join(p.PkgNames, ","))
	}
	return p, nil
}

// ---- a second, direct evaluator of generated expressions (cross-check of the oracle itself) ----

// Expr is the generator's own expression tree.
type Expr struct {
	Op   string // "tag", "!", "&&", "||"
	Tag  string
	X, Y *Expr
}

// Eval evaluates the tree directly (no use of go/build/constraint).
func (x *Expr) Eval(tag func(string) bool) bool {
	switch x.Op {
	case "tag":
		return tag(x.Tag)
	case "!":
		return !x.X.Eval(tag)
	case "&&":
		return x.X.Eval(tag) && x.Y.Eval(tag)
	default:
		return x.X.Eval(tag) || x.Y.Eval(tag)
	}
}
