// Package c04 – every used generic instantiation exists, is distinct and behaves correctly.
package c04

import (
	"fmt"
	"math/rand"
	"strings"
)

const libPkg = `package lib

const hexdigits = "0123456789abcdef"

func U64s(v uint64) string {
	if v == 0 {
		return "0"
	}
	var b [20]byte
	i := len(b)
	for v > 0 {
		i--
		b[i] = byte('0' + v%10)
		v /= 10
	}
	return string(b[i:])
}

func I64s(v int64) string {
	if v < 0 {
		return "-" + U64s(uint64(-(v+1))+1)
	}
	return U64s(uint64(v))
}

func Itoa(v int) string { return I64s(int64(v)) }

func Hex64(v uint64) string {
	var b [16]byte
	for i := 15; i >= 0; i-- {
		b[i] = hexdigits[v&15]
		v >>= 4
	}
	return string(b[:])
}

// Q renders a string as printable ASCII (println renders non-ASCII bytes differently on the
// two sides, which is a documented difference).
func Q(s string) string {
	out := make([]byte, 0, len(s)+2)
	for i := 0; i < len(s); i++ {
		c := s[i]
		if c < 0x21 || c > 0x7e || c == '\\' {
			out = append(out, '\\', 'x', hexdigits[c>>4], hexdigits[c&15])
		} else {
			out = append(out, c)
		}
	}
	return string(out)
}

func Btoa(b bool) string {
	if b {
		return "t"
	}
	return "f"
}
`

// genLeaf is package g (generic library): all generic declarations live here.
const genLeaf = `package g

import (
	"math"

	"prog/lib"
)

type Num interface {
	~int8 | ~int16 | ~int32 | ~int64 | ~uint8 | ~uint16 | ~uint32 | ~float32 | ~float64
}

type Int interface {
	~int8 | ~int16 | ~int32 | ~int64 | ~uint8 | ~uint16 | ~uint32
}

// ShowNum renders a numeric value of any instantiated width.
func ShowNum[T Num](v T) string {
	var h T = 1
	h /= 2
	if h != 0 {
		f := float64(v)
		if f != f {
			return "f:NaN"
		}
		return "f:" + lib.Hex64(math.Float64bits(f))
	}
	var m T
	m--
	if m > 0 { // unsigned
		return "u:" + lib.U64s(uint64(v))
	}
	return "i:" + lib.I64s(int64(v))
}

func Zero[T any]() T {
	var z T
	return z
}

// Wrap does arithmetic that overflows at the instantiated width.
func Wrap[T Int](v T) T {
	x := v*v + v
	x <<= 3
	x -= v / 3
	x ^= x >> 2
	return -x
}

func FWrap[T ~float32 | ~float64](v T) T { return v*v/3 + v }

func Conv[T, U Num](v T) U { return U(v) }

func Sum[T Num](xs ...T) T {
	var s T
	for _, x := range xs {
		s += x
	}
	return s
}

func Map[T, U any](xs []T, f func(T) U) []U {
	out := make([]U, 0, len(xs))
	for _, x := range xs {
		out = append(out, f(x))
	}
	return out
}

type Stack[T any] struct{ items []T }

func (s *Stack[T]) Push(v T) { s.items = append(s.items, v) }
func (s *Stack[T]) Pop() (T, bool) {
	if len(s.items) == 0 {
		var z T
		return z, false
	}
	v := s.items[len(s.items)-1]
	s.items = s.items[:len(s.items)-1]
	return v, true
}
func (s Stack[T]) Len() int { return len(s.items) }

type Pair[K comparable, V any] struct {
	Key K
	Val V
}

func MakePair[K comparable, V any](k K, v V) Pair[K, V] { return Pair[K, V]{k, v} }

func (p Pair[K, V]) Swap() Pair[V, K] where_unsupported

type Tree[T any] struct {
	L, R *Tree[T]
	V    T
}

func (t *Tree[T]) Insert(v T, less func(a, b T) bool) *Tree[T] {
	if t == nil {
		return &Tree[T]{V: v}
	}
	if less(v, t.V) {
		t.L = t.L.Insert(v, less)
	} else {
		t.R = t.R.Insert(v, less)
	}
	return t
}

func (t *Tree[T]) Walk(f func(T)) {
	if t == nil {
		return
	}
	t.L.Walk(f)
	f(t.V)
	t.R.Walk(f)
}

// Local returns a value of a type declared inside a generic function: one distinct type per
// instantiation.
func Local[T any](v T) interface{} {
	type local struct{ x T }
	return local{v}
}

// Local2 declares a type inside a generic function with two type parameters: (A, B) and
// (B, A), and (A, A) and (B, B), are four different types.
func Local2[A, B any](a A, b B) interface{} {
	type local2 struct {
		x A
		y B
	}
	return local2{a, b}
}

// LocalIn declares a type inside a method of a generic type.
func (p Pair[K, V]) LocalIn() interface{} {
	type in struct {
		k K
		v V
	}
	return in{p.Key, p.Val}
}

// Embedded is promoted through Tagged[T]; generic code calls it through a type parameter.
type Embedded struct{ N int32 }

func (e Embedded) Name() string { return "emb" + string(rune('0'+e.N%10)) }

type Tagged[T any] struct {
	V T
	Embedded
}

@LOCALPAIR@
// Chain instantiates generic code from generic code with growing type arguments.
func Chain[T any](v T) interface{}  { return chain2([]T{v}) }
func chain2[T any](v T) interface{} { return chain3(map[string]T{"k": v}) }
func chain3[T any](v T) interface{} { return Stack[T]{items: []T{v}} }

// Relay suspends the goroutine inside generic code (blocking per instance).
func Relay[T any](v T) T {
	c := make(chan T)
	go func() { c <- v }()
	return <-c
}

// Buffered does not block.
func Buffered[T any](v T) T {
	c := make(chan T, 1)
	c <- v
	return <-c
}

// AddrIn takes the address of a variable of a function literal inside generic code.
func AddrIn[T any](v T) T {
	f := func() *T {
		x := v
		p, q := &x, &x
		*p = v
		return q
	}
	return *f()
}

// AddrSwap reuses the pointer to one local after the pointer variable was redirected.
func AddrSwap[T any](v, w T) (T, T) {
	x := v
	y := w
	p := &x
	p = &y
	q := &x
	*q = *p
	*p = v
	return x, y
}

var pkgVar int32 = 3

func PtrGeneric[T any](v T) *int32 { return &pkgVar }
func PtrPlain() *int32             { return &pkgVar }

// Drain ranges over a channel of type-parameter type (blocking per instance).
func Drain[C ~chan E, E any](c C, f func(E)) {
	for v := range c {
		f(v)
	}
}

func Feed[E any](vs ...E) chan E {
	c := make(chan E)
	go func() {
		for _, v := range vs {
			c <- v
		}
		close(c)
	}()
	return c
}

type Namer interface{ Name() string }

func NameOf[T Namer](v T) string { return "<" + v.Name() + ">" }

func Names[T Namer](vs []T) string {
	s := ""
	for _, v := range vs {
		s += NameOf(v)
	}
	return s
}

type Set[T comparable] map[T]struct{}

func (s Set[T]) Add(v T) bool {
	if _, ok := s[v]; ok {
		return false
	}
	s[v] = struct{}{}
	return true
}

func Keys[K comparable, V any](m map[K]V, less func(a, b K) bool) []K {
	var ks []K
	for k := range m {
		ks = append(ks, k)
	}
	for i := 1; i < len(ks); i++ {
		for j := i; j > 0 && less(ks[j], ks[j-1]); j-- {
			ks[j], ks[j-1] = ks[j-1], ks[j]
		}
	}
	return ks
}
`

type typeArg struct {
	Go   string // spelling in package main
	Kind string // "int" "float" "string" "other"
	Lit  []string
	Cmp  bool // comparable
}

var argPool = []typeArg{
	{"int8", "int", []string{"127", "-128", "5"}, true},
	{"int16", "int", []string{"32767", "-300", "7"}, true},
	{"int32", "int", []string{"2147483647", "-70000", "9"}, true},
	{"int64", "int", []string{"9223372036854775807", "-5000000000", "11"}, true},
	{"uint8", "int", []string{"255", "200", "3"}, true},
	{"uint16", "int", []string{"65535", "40000", "13"}, true},
	{"uint32", "int", []string{"4294967295", "3000000000", "17"}, true},
	{"float64", "float", []string{"0.1", "1e300", "-2.5"}, true},
	{"float32", "float", []string{"0.1", "16777217", "-2.5"}, true},
	{"a.MyInt", "int", []string{"32767", "-9", "21"}, true},
	{"b.MyInt", "int", []string{"2147483647", "-9", "21"}, true},
	{"a.MyFloat", "float", []string{"0.1", "3", "-1"}, true},
	{"string", "string", []string{`"s"`, `""`, `"é"`}, true},
	{"a.Rec", "other", []string{"a.Rec{1, \"x\"}", "a.Rec{}"}, true},
	{"b.Rec", "other", []string{"b.Rec{1, \"x\"}", "b.Rec{}"}, true},
	{"[]int32", "other", []string{"[]int32{1, 2}", "nil"}, false},
	{"[2]int8", "other", []string{"[2]int8{1, 2}", "[2]int8{}"}, true},
	{"struct{ A int32 }", "other", []string{"struct{ A int32 }{5}"}, true},
	{"*a.Rec", "other", []string{"&a.Rec{2, \"p\"}", "nil"}, true},
	{"map[string]int16", "other", []string{"map[string]int16{\"k\": 1}", "nil"}, false},
	{"func(int32) int32", "other", []string{"func(x int32) int32 { return x + 1 }"}, false},
	{"g.Pair[string, int8]", "other", []string{"g.Pair[string, int8]{\"k\", 1}"}, true},
	{"g.Pair[int8, string]", "other", []string{"g.Pair[int8, string]{1, \"k\"}"}, true},
	{"bool", "other", []string{"true", "false"}, true},
	{"interface{}", "other", []string{"interface{}(int8(1))", "nil"}, true},
}

const pkgA = `package a

import "prog/g"

type MyInt int16
type MyFloat float64

type Rec struct {
	N int32
	S string
}

func (r Rec) Name() string { return "a.Rec" + r.S }

// instantiations requested from this package
func StackInt32() interface{}        { return &g.Stack[int32]{} }
func PairStrI8() interface{}         { return g.MakePair("k", int8(1)) }
func LocalI16() interface{}          { return g.Local(int16(1)) }
func LocalMy() interface{}           { return g.Local(MyInt(1)) }
func AnonStruct() interface{}        { return struct{ A int32 }{1} }
func AnonFunc() interface{}          { return func(int32) int32 { return 0 } }
func SumMy(xs ...MyInt) MyInt        { return g.Sum(xs...) }
func WrapMy(v MyInt) MyInt           { return g.Wrap(v) }
func Generic[T g.Num](v T) string    { return g.ShowNum(g.Conv[T, MyInt](v)) + g.ShowNum(g.Conv[T, MyFloat](v)) }
func RelayRec(r Rec) Rec             { return g.Relay(r) }

// methods promoted from embedded struct values, called through a type parameter
type Base struct{ N int32 }

func (b Base) Name() string { return "base" + string(rune('0'+b.N%10)) }

type Outer struct {
	Tag string
	Base
}

type Outer2 struct {
	X int8
	Outer
}

type OuterP struct {
	Tag string
	*Base
}

func Promoted() string {
	o := Outer{"t", Base{3}}
	o2 := Outer2{1, Outer{"u", Base{4}}}
	f := g.NameOf[Outer2]
	return g.NameOf(o) + g.NameOf(&o) + g.NameOf(o2) + g.Names([]Outer{o, {"v", Base{5}}}) + g.NameOf(OuterP{"p", &Base{6}}) +
		g.NameOf(g.Tagged[string]{"s", g.Embedded{7}}) + g.NameOf(&g.Tagged[Outer]{o, g.Embedded{8}}) + f(o2)
}

// types declared inside plain functions as type arguments of another package's generics
func LocStack() interface{} {
	type loc struct{ A int32 }
	return &g.Stack[loc]{}
}

func LocStack2() interface{} {
	type loc struct{ A int32 }
	return &g.Stack[loc]{}
}

func LocPair() interface{} {
	type loc struct{ A int32 }
	return g.MakePair("k", loc{1})
}

// exported identifiers with non-ASCII letters
type Ünï struct{ V int32 }

func (u Ünï) Name() string { return "a.Uni" }

func Maké(v int32) Ünï { return Ünï{v} }

var Vär = Ünï{4}

const Cö = 7
`

const pkgB = `package b

import (
	"prog/a"
	"prog/g"
)

type MyInt int32

type Rec struct {
	N int32
	S string
}

func (r *Rec) Name() string { return "b.Rec" + r.S }

func StackInt32() interface{}     { return &g.Stack[int32]{} }
func PairStrI8() interface{}      { return g.MakePair("k", int8(1)) }
func LocalI16() interface{}       { return g.Local(int16(1)) }
func LocalMy() interface{}        { return g.Local(MyInt(1)) }
func LocalAMy() interface{}       { return g.Local(a.MyInt(1)) }
func AnonStruct() interface{}     { return struct{ A int32 }{1} }
func AnonFunc() interface{}       { return func(int32) int32 { return 0 } }
func WrapMy(v MyInt) MyInt        { return g.Wrap(v) }
func ViaA[T g.Num](v T) string    { return a.Generic(v) + "/" + a.Generic(g.Conv[T, int8](v)) }
func Names() string               { return g.Names([]*Rec{{1, "x"}, {2, "y"}}) + g.Names([]a.Rec{{1, "z"}}) }
func TreeOfA() string {
	var t *g.Tree[a.Rec]
	for _, n := range []int32{5, 2, 8, 1} {
		t = t.Insert(a.Rec{N: n, S: "r"}, func(x, y a.Rec) bool { return x.N < y.N })
	}
	s := ""
	t.Walk(func(r a.Rec) { s += string(rune('0' + r.N)) })
	return s
}
`

// genMain draws the instantiation workload of package main.
func genMain(r *rand.Rand, ninst int) string {
	var b strings.Builder
	b.WriteString("package main\n\nimport (\n\t\"prog/a\"\n\t\"prog/b\"\n\t\"prog/g\"\n\t\"prog/lib\"\n)\n\n")
	b.WriteString("var _ = a.MyInt(0)\nvar _ = b.MyInt(0)\nvar _ = lib.Itoa\n\n")
	b.WriteString(`func emit(tag, s string) { println("T " + tag + " " + s) }

func describe(v interface{}) string {
	switch x := v.(type) {
	case nil:
		return "nil"
	case int8:
		return "int8:" + g.ShowNum(x)
	case int16:
		return "int16:" + g.ShowNum(x)
	case int32:
		return "int32:" + g.ShowNum(x)
	case int64:
		return "int64:" + g.ShowNum(x)
	case uint8:
		return "uint8:" + g.ShowNum(x)
	case uint16:
		return "uint16:" + g.ShowNum(x)
	case uint32:
		return "uint32:" + g.ShowNum(x)
	case float32:
		return "float32:" + g.ShowNum(x)
	case float64:
		return "float64:" + g.ShowNum(x)
	case a.MyInt:
		return "a.MyInt:" + g.ShowNum(x)
	case b.MyInt:
		return "b.MyInt:" + g.ShowNum(x)
	case a.MyFloat:
		return "a.MyFloat:" + g.ShowNum(x)
	case string:
		return "string:" + lib.Q(x)
	case bool:
		return "bool:" + lib.Btoa(x)
	case a.Rec:
		return "a.Rec:" + lib.Itoa(int(x.N)) + x.S
	case b.Rec:
		return "b.Rec:" + lib.Itoa(int(x.N)) + x.S
	case *a.Rec:
		if x == nil {
			return "*a.Rec:nil"
		}
		return "*a.Rec:" + lib.Itoa(int(x.N)) + x.S
	case []int32:
		return "[]int32:" + lib.Itoa(len(x))
	case [2]int8:
		return "[2]int8:" + lib.Itoa(int(x[0])) + lib.Itoa(int(x[1]))
	case struct{ A int32 }:
		return "anon:" + lib.Itoa(int(x.A))
	case map[string]int16:
		return "map:" + lib.Itoa(len(x))
	case func(int32) int32:
		if x == nil {
			return "func:nil"
		}
		return "func:" + lib.Itoa(int(x(1)))
	case g.Pair[string, int8]:
		return "pair-si8:" + x.Key + lib.Itoa(int(x.Val))
	case g.Pair[int8, string]:
		return "pair-i8s:" + x.Val + lib.Itoa(int(x.Key))
	}
	return "?"
}

// same reports identity of dynamic types and values without panicking on uncomparable ones.
func same(x, y interface{}) (r string) {
	defer func() {
		if recover() != nil {
			r = "P"
		}
	}()
	return lib.Btoa(x == y)
}

`)
	// per-instantiation probes
	b.WriteString("func probes() {\n")
	perm := r.Perm(len(argPool))
	if ninst > len(perm) {
		ninst = len(perm)
	}
	for k := 0; k < ninst; k++ {
		t := argPool[perm[k]]
		lit := t.Lit[r.Intn(len(t.Lit))]
		v := fmt.Sprintf("%s(%s)", t.Go, lit)
		if t.Kind == "other" {
			v = lit
			if lit == "nil" {
				v = "(" + t.Go + ")(nil)"
			}
		}
		id := fmt.Sprintf("%d", k)
		fmt.Fprintf(&b, "\t// type argument %s\n", t.Go)
		fmt.Fprintf(&b, "\temit(\"zero%s\", describe(g.Zero[%s]()))\n", id, t.Go)
		fmt.Fprintf(&b, "\t{\n\t\tvar s g.Stack[%s]\n\t\ts.Push(%s)\n\t\ts.Push(g.Zero[%s]())\n\t\tx, ok := s.Pop()\n\t\ty, _ := s.Pop()\n\t\t_, ok3 := s.Pop()\n\t\temit(\"stack%s\", describe(x)+describe(y)+lib.Btoa(ok)+lib.Btoa(ok3)+lib.Itoa(s.Len()))\n\t}\n", t.Go, v, t.Go, id)
		fmt.Fprintf(&b, "\temit(\"relay%s\", describe(g.Relay[%s](%s))+describe(g.Buffered(%s)))\n", id, t.Go, v, v)
		fmt.Fprintf(&b, "\temit(\"local%s\", same(g.Local[%s](%s), g.Local(%s))+same(g.Local[%s](%s), g.Local[interface{}](%s)))\n", id, t.Go, v, v, t.Go, v, v)
		fmt.Fprintf(&b, "\temit(\"chain%s\", lib.Itoa(g.Chain(%s).(g.Stack[map[string][]%s]).Len()))\n", id, v, t.Go)
		fmt.Fprintf(&b, "\temit(\"map%s\", describe(g.Map([]%s{%s}, func(x %s) interface{} { return x })[0]))\n", id, t.Go, v, t.Go)
		if t.Cmp {
			fmt.Fprintf(&b, "\t{\n\t\tst := g.Set[%s]{}\n\t\temit(\"set%s\", lib.Btoa(st.Add(%s))+lib.Btoa(st.Add(%s))+lib.Itoa(len(st)))\n\t\tp := g.MakePair(%s, \"v\")\n\t\tq := g.MakePair(\"v\", %s)\n\t\temit(\"pair%s\", describe(p.Key)+p.Val+describe(q.Val)+same(p, g.Pair[%s, string]{%s, \"v\"})+same(interface{}(p), interface{}(q)))\n\t}\n", t.Go, id, v, v, v, v, id, t.Go, v)
		}
		switch t.Kind {
		case "int":
			fmt.Fprintf(&b, "\temit(\"wrap%s\", g.ShowNum(g.Wrap(%s))+g.ShowNum(g.Sum(%s, %s, %s)))\n", id, v, v, v, v)
			for _, u := range []string{"int8", "uint16", "int64", "float32", "a.MyInt", "uint32"} {
				fmt.Fprintf(&b, "\temit(\"conv%s\", g.ShowNum(g.Conv[%s, %s](%s)))\n", id, t.Go, u, v)
			}
			fmt.Fprintf(&b, "\temit(\"via%s\", b.ViaA(%s))\n", id, v)
		case "float":
			fmt.Fprintf(&b, "\temit(\"fwrap%s\", g.ShowNum(g.FWrap(%s))+g.ShowNum(g.Sum(%s, %s)))\n", id, v, v, v)
			fmt.Fprintf(&b, "\temit(\"fconv%s\", g.ShowNum(g.Conv[%s, float32](%s))+g.ShowNum(g.Conv[%s, float64](%s)))\n", id, t.Go, v, t.Go, v)
		}
		fmt.Fprintf(&b, "\temit(\"addr%s\", describe(g.AddrIn(%s))+lib.Btoa(g.PtrGeneric(%s) == g.PtrPlain()))\n", id, v, v)
		fmt.Fprintf(&b, "\t{\n\t\tx, y := g.AddrSwap(%s, g.Zero[%s]())\n\t\temit(\"addrswap%s\", describe(x)+describe(y))\n\t}\n", v, t.Go, id)
		fmt.Fprintf(&b, "\t{\n\t\ts := \"\"\n\t\tg.Drain(g.Feed(%s, g.Zero[%s]()), func(x %s) { s += describe(x) })\n\t\temit(\"drain%s\", s)\n\t}\n", v, t.Go, t.Go, id)
		// function value of an instance, method value and method expression of an instance
		fmt.Fprintf(&b, "\t{\n\t\tf := g.Buffered[%s]\n\t\tst := &g.Stack[%s]{}\n\t\tpush := st.Push\n\t\tpop := (*g.Stack[%s]).Pop\n\t\tpush(f(%s))\n\t\tx, _ := pop(st)\n\t\temit(\"fv%s\", describe(x))\n\t}\n", t.Go, t.Go, t.Go, v, id)
	}
	b.WriteString("}\n\n")
	// identity matrix over values whose dynamic types come from different packages / instances
	vals := []string{
		"a.StackInt32()", "b.StackInt32()", "&g.Stack[int32]{}", "&g.Stack[int16]{}", "&g.Stack[a.MyInt]{}", "&g.Stack[b.MyInt]{}",
		"a.PairStrI8()", "b.PairStrI8()", "g.Pair[string, int8]{\"k\", 1}", "g.Pair[int8, string]{1, \"k\"}", "g.MakePair(\"k\", int8(1))",
		"a.LocalI16()", "b.LocalI16()", "g.Local(int16(1))", "g.Local(int32(1))", "a.LocalMy()", "b.LocalMy()", "b.LocalAMy()", "g.Local(a.MyInt(1))", "g.Local(b.MyInt(1))",
		"a.AnonStruct()", "b.AnonStruct()", "struct{ A int32 }{1}", "struct{ B int32 }{1}", "a.AnonFunc()", "b.AnonFunc()",
		"a.MyInt(1)", "b.MyInt(1)", "int16(1)", "int32(1)", "a.Rec{1, \"x\"}", "b.Rec{1, \"x\"}",
		"g.Chain(int8(1))", "g.Chain(int16(1))",
		"g.Local2(int32(1), int32(1))", "g.Local2(uint32(1), uint32(1))", "g.Local2(a.MyInt(1), a.MyInt(1))", "g.Local2(b.MyInt(1), b.MyInt(1))", "g.Local2(int32(1), int16(1))", "g.Local2(int16(1), int32(1))", "g.Local2(a.MyInt(1), b.MyInt(1))", "g.Local2(b.MyInt(1), a.MyInt(1))", "g.Local2(int32(1), int32(1))", "g.Local2(\"s\", \"s\")",
		"g.MakePair(int8(1), int8(1)).LocalIn()", "g.MakePair(uint8(1), uint8(1)).LocalIn()", "g.MakePair(\"k\", int8(1)).LocalIn()", "g.MakePair(int8(1), \"k\").LocalIn()", "g.MakePair(int8(1), int8(1)).LocalIn()",
		"g.Local(loc{1})", "&g.Stack[loc]{}", "otherLocStack()", "a.LocStack()", "a.LocStack2()", "g.MakePair(\"k\", loc{1})", "otherLocPair()", "a.LocPair()", "loc{1}",
		"a.Maké(1)", "a.Vär", "&g.Stack[a.Ünï]{}", "g.Local(a.Ünï{1})",
		"g.Set[int8]{}", "g.Set[a.MyInt]{}", "g.Tree[int8]{}", "g.Tree[uint8]{}", "&g.Tree[int8]{}",
	}
	r.Shuffle(len(vals), func(i, j int) { vals[i], vals[j] = vals[j], vals[i] })
	b.WriteString("func otherLocStack() interface{} {\n\ttype loc struct{ A int32 }\n\treturn &g.Stack[loc]{}\n}\n\nfunc otherLocPair() interface{} {\n\ttype loc struct{ A int32 }\n\treturn g.MakePair(\"k\", loc{1})\n}\n\n")
	// function-local types of one name but different structure as type arguments of another
	// package's generics: each instance must use its own type (zero values, copies, fields)
	b.WriteString(`func locProbeA() string {
	type loc struct{ A int32 }
	var s g.Stack[loc]
	s.Push(loc{7})
	s.Push(g.Zero[loc]())
	x, _ := s.Pop()
	y, _ := s.Pop()
	p := g.MakePair("k", loc{3})
	r := g.Relay(loc{5})
	return lib.Itoa(int(x.A)) + lib.Itoa(int(y.A)) + lib.Itoa(int(p.Val.A)) + lib.Itoa(int(r.A)) + lib.Btoa(interface{}(r) == interface{}(loc{5}))
}

func locProbeB() string {
	type loc struct {
		B string
		C [2]int8
	}
	var s g.Stack[loc]
	s.Push(loc{"b", [2]int8{1, 2}})
	s.Push(g.Zero[loc]())
	x, _ := s.Pop()
	y, _ := s.Pop()
	p := g.MakePair("k", loc{"p", [2]int8{3, 4}})
	r := g.Relay(loc{"r", [2]int8{5, 6}})
	r2 := r
	r2.C[0] = 9
	return x.B + lib.Itoa(int(x.C[1])) + "|" + y.B + lib.Itoa(int(y.C[1])) + p.Val.B + lib.Itoa(int(p.Val.C[0])) + r.B + lib.Itoa(int(r.C[0])) + lib.Btoa(interface{}(r) == interface{}(loc{"r", [2]int8{5, 6}}))
}

func locProbeC() string {
	type loc float64
	var s g.Stack[loc]
	s.Push(loc(1.5))
	s.Push(g.Zero[loc]())
	x, _ := s.Pop()
	y, _ := s.Pop()
	return g.ShowNum(float64(x)) + g.ShowNum(float64(y)) + g.ShowNum(float64(g.Relay(loc(2.5))))
}

`)
	b.WriteString("func identity() {\n\ttype loc struct{ A int32 }\n\tvals := []interface{}{\n")
	for _, v := range vals {
		b.WriteString("\t\t" + v + ",\n")
	}
	b.WriteString("\t}\n")
	b.WriteString(`	for i, x := range vals {
		row := ""
		for _, y := range vals {
			row += same(x, y)
		}
		emit("id"+lib.Itoa(i), row)
	}
	// map[any] keys: comparable values only
	m := map[interface{}]int{}
	for i, x := range vals {
		func() {
			defer func() { recover() }()
			m[x] += i + 1
		}()
	}
	emit("mapkeys", lib.Itoa(len(m)))
	for i, x := range vals {
		func() {
			defer func() {
				if recover() != nil {
					emit("mk"+lib.Itoa(i), "unhashable")
				}
			}()
			emit("mk"+lib.Itoa(i), lib.Itoa(m[x]))
		}()
	}
	// type switch arms
	for i, x := range vals {
		arm := "other"
		switch x.(type) {
		case *g.Stack[int32]:
			arm = "stack-i32"
		case *g.Stack[int16]:
			arm = "stack-i16"
		case *g.Stack[a.MyInt]:
			arm = "stack-aMy"
		case g.Pair[string, int8]:
			arm = "pair-si8"
		case g.Pair[int8, string]:
			arm = "pair-i8s"
		case struct{ A int32 }:
			arm = "anonA"
		case func(int32) int32:
			arm = "func"
		case g.Set[int8]:
			arm = "set-i8"
		case g.Tree[int8]:
			arm = "tree-i8"
		case *g.Tree[int8]:
			arm = "ptree-i8"
		case g.Stack[map[string][]int8]:
			arm = "chain-i8"
		case a.MyInt, b.MyInt:
			arm = "myint"
		case g.Namer:
			arm = "namer"
		}
		emit("arm"+lib.Itoa(i), arm)
		_, ok1 := x.(interface{ Len() int })
		_, ok2 := x.(interface{ Push(int32) })
		_, ok3 := x.(g.Namer)
		emit("asrt"+lib.Itoa(i), lib.Btoa(ok1)+lib.Btoa(ok2)+lib.Btoa(ok3))
	}
}

func main() {
	probes()
	identity()
	emit("names", b.Names()+g.NameOf(a.Rec{S: "q"})+g.NameOf(&b.Rec{S: "w"}))
	emit("tree", b.TreeOfA())
	emit("sumMy", g.ShowNum(a.SumMy(30000, 30000))+g.ShowNum(a.WrapMy(181))+g.ShowNum(b.WrapMy(46341)))
	emit("relayRec", describe(a.RelayRec(a.Rec{3, "r"})))
	emit("locprobes", locProbeA()+" "+locProbeB()+" "+locProbeC()+" "+locProbeA())
	emit("promoted", a.Promoted()+g.NameOf(a.Outer{"m", a.Base{9}})+g.Names([]*a.Outer2{{2, a.Outer{"n", a.Base{1}}}}))
	emit("nonascii", g.NameOf(a.Vär)+g.NameOf(a.Maké(2))+lib.Itoa(a.Cö)+lib.Itoa(int(g.Relay(a.Maké(5)).V)))
	ks := g.Keys(map[a.MyInt]string{3: "c", 1: "a", 2: "b"}, func(x, y a.MyInt) bool { return x < y })
	emit("keys", g.ShowNum(ks[0])+g.ShowNum(ks[1])+g.ShowNum(ks[2]))
	println("END")
}
`)
	return b.String()
}

const localPairSrc = `// LocalPair nests two levels of type arguments.
func LocalPair[A any, B comparable](a A, b B) interface{} {
	type inner struct {
		a A
		b B
	}
	return Pair[B, inner]{b, inner{a, b}}
}

`

// Generate returns the files of one generic multi-package program.
func Generate(r *rand.Rand, ninst int) map[string]string {
	leaf := strings.Replace(genLeaf, "func (p Pair[K, V]) Swap() Pair[V, K] where_unsupported\n\n", "", 1)
	leaf = strings.Replace(leaf, "@LOCALPAIR@\n", "", 1)
	return map[string]string{
		"main.go":    genMain(r, ninst),
		"lib/lib.go": libPkg,
		"g/g.go":     leaf,
		"a/a.go":     pkgA,
		"b/b.go":     pkgB,
	}
}

// SentinelNestedTypeArg is the minimal program of the recorded finding: a generic type
// instantiated with a type argument that is declared inside a generic function.
func SentinelNestedTypeArg() map[string]string {
	leaf := strings.Replace(genLeaf, "func (p Pair[K, V]) Swap() Pair[V, K] where_unsupported\n\n", "", 1)
	leaf = strings.Replace(leaf, "@LOCALPAIR@\n", localPairSrc, 1)
	main := `package main

import "prog/g"

func main() {
	x := g.LocalPair(1, "k")
	y := g.LocalPair(int8(1), "k")
	z := g.LocalPair(1, "k")
	println(x == z)
	println(x == y)
	println("END")
}
`
	return map[string]string{"main.go": main, "lib/lib.go": libPkg, "g/g.go": leaf}
}

// SentinelCompositeOfNested is the minimal program of a recorded finding: a composite type
// ([]L) over a type declared inside a generic function.
func SentinelCompositeOfNested() map[string]string {
	return map[string]string{"main.go": `package main

func f[T any](v T) int {
	type L struct{ a T }
	s := []L{{v}, {v}}
	return len(s)
}

func main() {
	println(f(int32(1)), f("x"))
	println("END")
}
`}
}

// SentinelNestedFuncTypeArg is the minimal program of a recorded finding: a type declared
// inside a generic function used as the type argument of a generic function.
func SentinelNestedFuncTypeArg() map[string]string {
	return map[string]string{"main.go": `package main

func G[X any](x X) interface{} { return x }

func f[T any](v T) bool {
	type L struct{ a T }
	return G(L{v}) == G(L{v})
}

func main() {
	println(f(int32(1)), f("x"))
	println("END")
}
`}
}
