package c04

import (
	"fmt"
	"strings"
	"sync"

	"verif/internal/core"
)

// Run is the C04 check: reference-implementation monitor over generic multi-package programs.
func Run(c *core.Ctx) int {
	n := c.N(16, 300)
	var mu sync.Mutex
	programs, lines := 0, 0
	distinct := map[string]bool{}
	c.Parallel(n, func(i int) {
		r := c.Rand(fmt.Sprint("prog", i))
		files := Generate(r, 6+r.Intn(12))
		prog := &core.Program{Name: fmt.Sprintf("c04/prog-%d-%d", c.Seed, i), Files: files}
		res := c.DiffProgram(prog, core.DiffOpt{Variants: []core.CompileOpt{{}, {Minify: true}}, Names: []string{"plain", "minified"}})
		mu.Lock()
		defer mu.Unlock()
		if res.Verdict == "inconclusive" {
			return
		}
		programs++
		lines += res.Lines
		for _, l := range res.Ref.Lines {
			fs := strings.SplitN(l, " ", 3)
			if len(fs) == 3 {
				distinct[strings.TrimRight(fs[1], "0123456789")+" "+fs[2]] = true
			}
		}
		if programs <= 2 && len(res.Ref.Lines) > 5 {
			c.Sample(map[string]any{"program": prog.Name, "trace_head": res.Ref.Lines[:5]})
		}
	})
	// sentinel of the recorded finding (known_findings.json): must keep failing in exactly the
	// recorded way or pass; any other behaviour is reported under its own key
	{
		prog := &core.Program{Name: "c04/sentinel/nested-type-as-type-arg", Files: SentinelNestedTypeArg()}
		res := c.DiffProgram(prog, core.DiffOpt{})
		if res.Verdict != "inconclusive" {
			programs++
		}
		for _, s := range []struct {
			name  string
			files map[string]string
		}{{"c04/sentinel/composite-of-nested-type", SentinelCompositeOfNested()}, {"c04/sentinel/nested-type-as-func-type-arg", SentinelNestedFuncTypeArg()}} {
			res := c.DiffProgram(&core.Program{Name: s.name, Files: s.files}, core.DiffOpt{})
			if res.Verdict != "inconclusive" {
				programs++
			}
		}
	}
	c.Count("programs", programs)
	c.Count("trace_lines_compared", lines)
	return c.Finish("exploration", programs, len(distinct), 30,
		"generic programs over 5 packages (generic library g; packages a and b that instantiate it with their own named types, b importing a; main): per type argument (25-type pool incl. named types of two packages with equal names, anonymous structs, funcs, nested instances) probes of zero values, Stack[T] methods, blocking Relay[T] and non-blocking Buffered[T], types local to generic functions (two nesting levels), Chain (generic→generic with growing arguments), Map/Set/Pair/Tree, arithmetic wrap-around and conversions at the instantiated width, function/method values and method expressions of instances; then identity matrices over ~42 values whose dynamic types are instances requested from different packages: pairwise ==, map[any] keys, type-switch arms, interface assertions. Plain and minified builds vs the reference toolchain. distinct_nontrivial = distinct (probe kind, observed result) pairs",
		nil, []string{"reference toolchain go1.23.5 (go.mod go 1.20)"})
}
