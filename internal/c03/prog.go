package c03

// progSrc is the concurrent workload: deterministic-by-construction scenarios (all trace
// lines are printed by the main goroutine after it joined the workers; results that depend on
// scheduling are folded commutatively), with client-boundary history logging of every channel
// operation (H lines, excluded from the trace comparison and checked offline).
// Placeholders: @N@ workers, @M@ items, @C1@ @C2@ @C3@ capacities, @SEED@.
const progSrc = `package main

import (
	"runtime"
	"sync/atomic"
)

var gidCounter I

func emit(tag, s string) { println("T " + tag + " " + s) }

// ---- history logging at the client boundary
type ch struct {
	id I
	c  chan I
}

var nch I

func mk(capacity int) *ch {
	nch++
	println("H 0 make " + itoa(int(nch)) + " " + itoa(capacity))
	return &ch{nch, make(chan I, capacity)}
}

func (c *ch) send(g I, v I) {
	println("H " + itoa(int(g)) + " send-call " + itoa(int(c.id)) + " " + itoa(int(v)))
	c.c <- v
	println("H " + itoa(int(g)) + " send-ret " + itoa(int(c.id)) + " " + itoa(int(v)))
}

func (c *ch) recv(g I) (I, bool) {
	println("H " + itoa(int(g)) + " recv-call " + itoa(int(c.id)))
	v, ok := <-c.c
	println("H " + itoa(int(g)) + " recv-ret " + itoa(int(c.id)) + " " + itoa(int(v)) + " " + btoa(ok))
	return v, ok
}

func (c *ch) close(g I) {
	println("H " + itoa(int(g)) + " close " + itoa(int(c.id)))
	close(c.c)
}

const N = @N@
const M = @M@

// pipeline: stages connected by channels of different capacities; order must be preserved
func pipeline() {
	caps := []int{@C1@, @C2@, @C3@, 0, 1}
	stages := 3 + N%3
	in := mk(caps[0])
	first := in
	for s := 0; s < stages; s++ {
		out := mk(caps[(s+1)%len(caps)])
		go func(g I, in, out *ch) {
			for {
				v, ok := in.recv(g)
				if !ok {
					out.close(g)
					return
				}
				out.send(g, v*2+g)
			}
		}(I(10+s), in, out)
		in = out
	}
	go func() {
		for i := I(0); i < M; i++ {
			first.send(1, i+1)
		}
		first.close(1)
	}()
	res := ""
	for {
		v, ok := in.recv(2)
		if !ok {
			break
		}
		res += itoa(int(v)) + ","
	}
	emit("pipeline", res)
}

// fanout: per-worker input and output channels, ordered merge
func fanout() {
	ins := make([]*ch, N)
	outs := make([]*ch, N)
	for w := 0; w < N; w++ {
		ins[w], outs[w] = mk(w%3), mk((w+1)%2)
		go func(g I, in, out *ch) {
			for {
				v, ok := in.recv(g)
				if !ok {
					out.close(g)
					return
				}
				out.send(g, v*v+g)
			}
		}(I(20+w), ins[w], outs[w])
	}
	go func() {
		for i := I(0); i < M; i++ {
			ins[int(i)%N].send(3, i+1)
		}
		for w := 0; w < N; w++ {
			ins[w].close(3)
		}
	}()
	res := ""
	for i := I(0); i < M; i++ {
		v, _ := outs[int(i)%N].recv(4)
		res += itoa(int(v)) + ","
	}
	for w := 0; w < N; w++ {
		_, ok := outs[w].recv(4)
		res += btoa(ok)
	}
	emit("fanout", res)
}

// pool: shared job and result channels, commutative fold
func pool() {
	jobs, results := mk(@C1@), mk(@C2@)
	done := mk(0)
	for w := 0; w < N; w++ {
		go func(g I) {
			cnt := I(0)
			for {
				v, ok := jobs.recv(g)
				if !ok {
					break
				}
				results.send(g, v*3+1)
				cnt++
			}
			done.send(g, cnt)
		}(I(30 + w))
	}
	go func() {
		for i := I(0); i < M*2; i++ {
			jobs.send(5, i+1)
		}
		jobs.close(5)
	}()
	sum, xor := I(0), I(0)
	for i := I(0); i < M*2; i++ {
		v, _ := results.recv(6)
		sum += v
		xor ^= v
	}
	total := I(0)
	for w := 0; w < N; w++ {
		c, _ := done.recv(6)
		total += c
	}
	emit("pool", itoa(int(sum))+" "+itoa(int(xor))+" "+itoa(int(total)))
}

// semaphore: a buffered channel bounds the number of goroutines inside the critical section
func semaphore() {
	sem := make(chan struct{}, 1+N%3)
	var inside, maxInside int32
	done := make(chan bool)
	for w := 0; w < N+2; w++ {
		go func() {
			for k := 0; k < 3; k++ {
				sem <- struct{}{}
				now := atomic.AddInt32(&inside, 1)
				for {
					m := atomic.LoadInt32(&maxInside)
					if now <= m || atomic.CompareAndSwapInt32(&maxInside, m, now) {
						break
					}
				}
				runtime.Gosched()
				atomic.AddInt32(&inside, -1)
				<-sem
			}
			done <- true
		}()
	}
	for w := 0; w < N+2; w++ {
		<-done
	}
	emit("semaphore", btoa(int(maxInside) <= cap(sem))+" "+itoa(int(inside))+" "+itoa(len(sem)))
}

// closeWakesAll: every blocked receiver is woken by close with the zero value
func closeWakesAll() {
	c := mk(0)
	ready := make(chan bool)
	got := mk(N)
	for w := 0; w < N; w++ {
		go func(g I) {
			ready <- true
			v, ok := c.recv(g)
			if ok {
				got.send(g, 1000+v)
			} else {
				got.send(g, v)
			}
		}(I(40 + w))
	}
	for w := 0; w < N; w++ {
		<-ready
	}
	for k := 0; k < 3; k++ {
		runtime.Gosched() // let them block
	}
	c.close(7)
	sum := I(0)
	for w := 0; w < N; w++ {
		v, _ := got.recv(7)
		sum += v
	}
	v, ok := c.recv(7)
	emit("closewakes", itoa(int(sum))+" "+itoa(int(v))+btoa(ok))
}

// sendOnClosed: a sender blocked on a full channel panics when the channel is closed, in the
// sender; the closer is unaffected
func sendOnClosed() {
	c := mk(1)
	res := make(chan string)
	c.send(8, 1)
	go func() {
		defer func() {
			e := recover()
			if e == nil {
				res <- "no-panic"
			} else {
				res <- "sender-panicked"
			}
		}()
		c.c <- 2 // blocks: buffer full (not logged: it never returns)
	}()
	for k := 0; k < 3; k++ {
		runtime.Gosched()
	}
	closer := func() (r string) {
		defer func() {
			if recover() != nil {
				r = "closer-panicked"
			}
		}()
		c.close(8)
		return "closer-ok"
	}()
	emit("sendonclosed", closer+" "+<-res)
	// a sender blocked in a select on that channel
	d := make(chan I)
	res2 := make(chan string)
	go func() {
		defer func() {
			if recover() != nil {
				res2 <- "select-sender-panicked"
			} else {
				res2 <- "no-panic"
			}
		}()
		select {
		case d <- 1:
		}
	}()
	for k := 0; k < 3; k++ {
		runtime.Gosched()
	}
	closer2 := func() (r string) {
		defer func() {
			if recover() != nil {
				r = "closer-panicked"
			}
		}()
		close(d)
		return "closer-ok"
	}()
	emit("selectsendonclosed", closer2+" "+<-res2)
}

// selects: several ready cases (commutative fold), default, nil channels, stale entries
func selects() {
	a, b, c := make(chan I, M), make(chan I, M), make(chan I)
	var nilc chan I
	for i := I(0); i < M; i++ {
		a <- i + 1
		b <- (i + 1) * 100
	}
	sum := I(0)
	na, nb, nd := 0, 0, 0
	for k := 0; k < int(M)*2+3; k++ {
		select {
		case v := <-a:
			sum += v
			na++
		case v := <-b:
			sum += v
			nb++
		case v := <-nilc:
			sum += v * 100000
		case nilc <- 1:
			sum += 1000000
		default:
			nd++
		}
	}
	emit("select-ready", itoa(int(sum))+" "+itoa(na)+" "+itoa(nb)+" "+itoa(nd))
	// stale entries: a goroutine waits on c and d in one select; after c fires, a later send on d
	// must reach the *next* receiver on d, not the finished select
	d := make(chan I)
	first := make(chan I)
	go func() {
		select {
		case v := <-c:
			first <- v
		case v := <-d:
			first <- v + 50
		}
	}()
	for k := 0; k < 3; k++ {
		runtime.Gosched()
	}
	c <- 7
	r1 := <-first
	second := make(chan I)
	go func() { second <- <-d }()
	for k := 0; k < 3; k++ {
		runtime.Gosched()
	}
	d <- 9
	emit("select-stale", itoa(int(r1))+" "+itoa(int(<-second)))
	// select with send and receive cases on unbuffered channels, partner arrives later
	e, f := make(chan I), make(chan I)
	out := make(chan string)
	go func() {
		s := ""
		for k := 0; k < 2; k++ {
			select {
			case e <- 5:
				s += "sent;"
			case v := <-f:
				s += "recv" + itoa(int(v)) + ";"
			}
		}
		out <- s
	}()
	runtime.Gosched()
	v := <-e
	f <- 6
	emit("select-both", itoa(int(v))+" "+<-out)
	// a select with only nil channels and a default; and select{} in a goroutine that is never needed
	select {
	case <-nilc:
		emit("select-nil", "wrong")
	default:
		emit("select-nil", "default")
	}
	// timeout pattern with a polling counter
	slow := make(chan I)
	go func() {
		for k := 0; k < 5; k++ {
			runtime.Gosched()
		}
		slow <- 1
	}()
	// bounded progress: a goroutine that waits by polling with Gosched must let the one it
	// waits for run; a million polls without progress is reported instead of spinning on
	polls, res := 0, "done"
	for got := false; !got; {
		select {
		case <-slow:
			got = true
		default:
			polls++
			if polls > 1000000 {
				got, res = true, "gave-up-after-a-million-polls"
			}
			runtime.Gosched()
		}
	}
	emit("select-poll", res)
}

// pingpong and rendezvous
func pingpong() {
	ping, pong := mk(0), mk(0)
	go func() {
		for {
			v, ok := ping.recv(50)
			if !ok {
				pong.close(50)
				return
			}
			pong.send(50, v+1)
		}
	}()
	v := I(0)
	for k := 0; k < int(M); k++ {
		ping.send(51, v)
		v, _ = pong.recv(51)
	}
	ping.close(51)
	_, ok := pong.recv(51)
	emit("pingpong", itoa(int(v))+btoa(ok))
}

// misc: len/cap, range over channel, nil channel forever-blocked goroutine does not count as
// deadlock while others run, NumGoroutine after joins
func misc() {
	c := make(chan I, 3)
	c <- 1
	c <- 2
	s := itoa(len(c)) + itoa(cap(c))
	close(c)
	for v := range c {
		s += itoa(int(v))
	}
	s += itoa(len(c))
	var nc chan I
	s += itoa(len(nc)) + itoa(cap(nc))
	emit("misc", s)
	for k := 0; k < 100000 && runtime.NumGoroutine() > 1; k++ {
		runtime.Gosched() // goroutines of the earlier scenarios are finishing
	}
	before := runtime.NumGoroutine()
	done := make(chan bool)
	for k := 0; k < 3; k++ {
		go func() { done <- true }()
	}
	for k := 0; k < 3; k++ {
		<-done
	}
	mid := runtime.NumGoroutine() >= before
	for k := 0; k < 100000 && runtime.NumGoroutine() > before; k++ {
		runtime.Gosched()
	}
	emit("numgoroutine", itoa(before)+" "+btoa(mid)+" "+itoa(runtime.NumGoroutine()-before))
}

// pollers: goroutines that wait by polling (select with default, or a flag read after
// Gosched) must let the goroutines they wait for make progress, whatever mixture of
// yielding, blocked and finished goroutines surrounds them. Progress is bounded: a million
// polls without a change are reported.
func pollers() {
	workers := 1 + int(N)%3
	stage := make([]int32, workers)
	done := make(chan I, workers)
	for w := 0; w < workers; w++ {
		w := w
		go func() {
			for k := 0; k <= w+int(M)%4; k++ {
				atomic.AddInt32(&stage[w], 1)
				runtime.Gosched()
			}
			done <- I(w)
		}()
	}
	// one goroutine blocked for good on a channel nobody uses, one that exits at once
	idle := make(chan I)
	go func() { <-idle }()
	go func() {}()
	seen, polls := 0, 0
	for seen < workers {
		select {
		case <-done:
			seen++
		default:
			polls++
			if polls > 1000000 {
				seen = workers
			}
			runtime.Gosched()
		}
	}
	// order of completion is not fixed: report the sum
	sum := 0
	for w := 0; w < workers; w++ {
		sum += int(atomic.LoadInt32(&stage[w]))
	}
	gave := "ok"
	if polls > 1000000 {
		gave = "gave-up"
	}
	emit("pollers", itoa(workers)+" "+itoa(sum)+" "+gave)
	close(idle) // nothing is left behind for the later scenarios
	// polling a flag written by a goroutine that itself yields
	var flag int32
	go func() {
		runtime.Gosched()
		runtime.Gosched()
		atomic.StoreInt32(&flag, 1)
	}()
	spins := 0
	for atomic.LoadInt32(&flag) == 0 && spins <= 1000000 {
		spins++
		runtime.Gosched()
	}
	emit("poll-flag", itoa(int(atomic.LoadInt32(&flag))))
}

func main() {
	pollers()
	pipeline()
	fanout()
	pool()
	semaphore()
	closeWakesAll()
	sendOnClosed()
	selects()
	pingpong()
	misc()
	@ENDING@
}
`

// endings: the way the whole program ends.
var endings = map[string]string{
	"ok":                     `println("END")`,
	"deadlock-recv":          "c := make(chan I)\n\temit(\"before\", \"deadlock\")\n\t<-c",
	"deadlock-all-blocked":   "c, d := make(chan I), make(chan I)\n\tgo func() { c <- <-d }()\n\temit(\"before\", \"deadlock\")\n\td <- <-c",
	"deadlock-select":        "var n chan I\n\temit(\"before\", \"deadlock\")\n\tselect {\n\tcase <-n:\n\tcase n <- 1:\n\t}",
	"deadlock-empty-select":  "emit(\"before\", \"deadlock\")\n\tselect {}",
	"goroutines-left-behind": "c := make(chan I)\n\tfor k := 0; k < 3; k++ {\n\t\tgo func() { <-c }()\n\t}\n\truntime.Gosched()\n\tprintln(\"END\")",
	"deadlock-range":         "c := make(chan I, 1)\n\tc <- 1\n\temit(\"before\", \"deadlock\")\n\tfor v := range c {\n\t\t_ = v\n\t}",
}
