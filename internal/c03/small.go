package c03

// Layer 1 of C03: small configurations of goroutines × channel operations. Every execution
// (under many choice tapes) yields one observation tuple – what each goroutine saw, in its own
// order, plus how the program ended. The oracle is a reference interpreter of Go's channel
// semantics that enumerates ALL schedules of the configuration and so the set of allowed
// tuples. The interpreter is itself validated against the reference toolchain: every tuple
// native Go produces must be in the set, otherwise the model is wrong (inconclusive).

import (
	"fmt"
	"math/rand"
	"sort"
	"strings"
)

type opKind int

const (
	opSend opKind = iota
	opRecv
	opClose
	opSelect
)

type selCase struct {
	Send bool
	Ch   int
	Val  int
}

type op struct {
	Kind    opKind
	Ch      int
	Val     int
	Cases   []selCase
	Default bool
}

type config struct {
	Caps []int // capacity per channel; -1 = nil channel
	Gs   [][]op
}

func genConfig(r *rand.Rand) config {
	var c config
	nch := 1 + r.Intn(2)
	for i := 0; i < nch; i++ {
		c.Caps = append(c.Caps, []int{0, 0, 1, 1, 2, -1}[r.Intn(6)])
	}
	ng := 2 + r.Intn(2)
	val := 0
	for g := 0; g < ng; g++ {
		var ops []op
		n := 1 + r.Intn(3)
		for i := 0; i < n; i++ {
			val++
			ch := r.Intn(nch)
			switch k := r.Intn(10); {
			case k < 3:
				ops = append(ops, op{Kind: opSend, Ch: ch, Val: val})
			case k < 6:
				ops = append(ops, op{Kind: opRecv, Ch: ch})
			case k < 7:
				ops = append(ops, op{Kind: opClose, Ch: ch})
			default:
				o := op{Kind: opSelect, Default: r.Intn(3) == 0}
				nc := 1 + r.Intn(2)
				for j := 0; j < nc; j++ {
					val++
					o.Cases = append(o.Cases, selCase{Send: r.Intn(2) == 0, Ch: r.Intn(nch), Val: val})
				}
				ops = append(ops, o)
			}
		}
		c.Gs = append(c.Gs, ops)
	}
	return c
}

func (c config) String() string {
	var b strings.Builder
	fmt.Fprintf(&b, "caps=%v", c.Caps)
	for g, ops := range c.Gs {
		fmt.Fprintf(&b, " | g%d:", g)
		for _, o := range ops {
			switch o.Kind {
			case opSend:
				fmt.Fprintf(&b, " c%d<-%d", o.Ch, o.Val)
			case opRecv:
				fmt.Fprintf(&b, " <-c%d", o.Ch)
			case opClose:
				fmt.Fprintf(&b, " close(c%d)", o.Ch)
			case opSelect:
				b.WriteString(" select{")
				for _, sc := range o.Cases {
					if sc.Send {
						fmt.Fprintf(&b, "c%d<-%d;", sc.Ch, sc.Val)
					} else {
						fmt.Fprintf(&b, "<-c%d;", sc.Ch)
					}
				}
				if o.Default {
					b.WriteString("default")
				}
				b.WriteString("}")
			}
		}
	}
	return b.String()
}

// render produces the Go program of a configuration. Goroutine 0 is main; it joins the
// others through a buffered channel so that the program ends either normally or by deadlock.
func (c config) render() string {
	var b strings.Builder
	b.WriteString("package main\n\nimport \"runtime\"\n\nvar _ = runtime.Gosched\n\n")
	b.WriteString("func obs(g, i int, s string) { println(\"O \" + itoa(g) + \" \" + itoa(i) + \" \" + s) }\n\n")
	b.WriteString("func class(e interface{}) string {\n\tif re, ok := e.(runtime.Error); ok {\n\t\tm := re.Error()\n\t\tfor _, c := range []string{\"close of nil channel\", \"close of closed channel\", \"send on closed channel\"} {\n\t\t\tfor i := 0; i+len(c) <= len(m); i++ {\n\t\t\t\tif m[i:i+len(c)] == c {\n\t\t\t\t\treturn c\n\t\t\t\t}\n\t\t\t}\n\t\t}\n\t\treturn m\n\t}\n\treturn \"?\"\n}\n\n")
	b.WriteString("func main() {\n")
	for i, cp := range c.Caps {
		if cp < 0 {
			fmt.Fprintf(&b, "\tvar c%d chan I\n", i)
		} else {
			fmt.Fprintf(&b, "\tc%d := make(chan I, %d)\n", i, cp)
		}
		fmt.Fprintf(&b, "\t_ = c%d\n", i)
	}
	fmt.Fprintf(&b, "\tdone := make(chan bool, %d)\n", len(c.Gs))
	body := func(g int, ops []op) string {
		var s strings.Builder
		s.WriteString("\t\tdefer func() {\n\t\t\tif e := recover(); e != nil {\n")
		fmt.Fprintf(&s, "\t\t\t\tobs(%d, 99, \"P:\"+class(e))\n\t\t\t}\n", g)
		if g != 0 {
			s.WriteString("\t\t\tdone <- true\n")
		}
		s.WriteString("\t\t}()\n")
		for i, o := range ops {
			switch o.Kind {
			case opSend:
				fmt.Fprintf(&s, "\t\tc%d <- %d\n\t\tobs(%d, %d, \"sent\")\n", o.Ch, o.Val, g, i)
			case opRecv:
				fmt.Fprintf(&s, "\t\t{\n\t\t\tv, ok := <-c%d\n\t\t\tobs(%d, %d, \"recv \"+itoa(int(v))+\" \"+btoa(ok))\n\t\t}\n", o.Ch, g, i)
			case opClose:
				fmt.Fprintf(&s, "\t\tclose(c%d)\n\t\tobs(%d, %d, \"closed\")\n", o.Ch, g, i)
			case opSelect:
				s.WriteString("\t\tselect {\n")
				for j, sc := range o.Cases {
					if sc.Send {
						fmt.Fprintf(&s, "\t\tcase c%d <- %d:\n\t\t\tobs(%d, %d, \"case%d sent\")\n", sc.Ch, sc.Val, g, i, j)
					} else {
						fmt.Fprintf(&s, "\t\tcase v, ok := <-c%d:\n\t\t\tobs(%d, %d, \"case%d recv \"+itoa(int(v))+\" \"+btoa(ok))\n", sc.Ch, g, i, j)
					}
				}
				if o.Default {
					fmt.Fprintf(&s, "\t\tdefault:\n\t\t\tobs(%d, %d, \"default\")\n", g, i)
				}
				s.WriteString("\t\t}\n")
			}
		}
		return s.String()
	}
	for g := 1; g < len(c.Gs); g++ {
		fmt.Fprintf(&b, "\tgo func() {\n%s\t}()\n", body(g, c.Gs[g]))
	}
	fmt.Fprintf(&b, "\tfunc() {\n%s\t}()\n", body(0, c.Gs[0]))
	fmt.Fprintf(&b, "\tfor k := 1; k < %d; k++ {\n\t\t<-done\n\t}\n\tprintln(\"O 0 100 joined\")\n}\n", len(c.Gs))
	return b.String()
}

// ---- reference interpreter

type mstate struct {
	pc      []int   // next op per goroutine; len(ops) = finished; -1 = panicked (finished)
	waiting []bool  // goroutine is parked on its current op
	buf     [][]int // channel buffers
	closed  []bool
	obs     []string // per goroutine observation vector
	done    int      // finished non-main goroutines
	joined  int      // joins completed by main
}

func (s *mstate) clone() *mstate {
	n := &mstate{pc: append([]int{}, s.pc...), waiting: append([]bool{}, s.waiting...), closed: append([]bool{}, s.closed...), obs: append([]string{}, s.obs...), done: s.done, joined: s.joined}
	for _, b := range s.buf {
		n.buf = append(n.buf, append([]int{}, b...))
	}
	return n
}

func (s *mstate) key() string {
	return fmt.Sprint(s.pc, s.waiting, s.buf, s.closed, s.obs, s.done, s.joined)
}

type model struct {
	c       config
	seen    map[string]bool
	results map[string]bool
	states  int
}

// allowed enumerates every schedule and returns the set of allowed observation tuples.
func allowed(c config) (map[string]bool, int) {
	m := &model{c: c, seen: map[string]bool{}, results: map[string]bool{}}
	s := &mstate{pc: make([]int, len(c.Gs)), waiting: make([]bool, len(c.Gs)), obs: make([]string, len(c.Gs)), closed: make([]bool, len(c.Caps))}
	for range c.Caps {
		s.buf = append(s.buf, nil)
	}
	m.explore(s)
	return m.results, m.states
}

func tupleKey(obs []string, outcome string) string {
	return strings.Join(obs, " || ") + " => " + outcome
}

func (m *model) finished(s *mstate, g int) bool { return s.pc[g] < 0 || s.pc[g] >= len(m.c.Gs[g]) }

// partners: goroutines currently parked on an operation that can pair with (send?) on ch.
// Returns (goroutine, case index or -1 for a plain op).
func (m *model) parked(s *mstate, ch int, wantRecv bool, except int) [][2]int {
	var out [][2]int
	for g := range m.c.Gs {
		if g == except || !s.waiting[g] || m.finished(s, g) {
			continue
		}
		o := m.c.Gs[g][s.pc[g]]
		switch o.Kind {
		case opRecv:
			if wantRecv && o.Ch == ch {
				out = append(out, [2]int{g, -1})
			}
		case opSend:
			if !wantRecv && o.Ch == ch {
				out = append(out, [2]int{g, -1})
			}
		case opSelect:
			for j, sc := range o.Cases {
				if sc.Ch == ch && sc.Send == !wantRecv {
					out = append(out, [2]int{g, j})
				}
			}
		}
	}
	return out
}

func (m *model) finish(s *mstate, g int, panicked bool) {
	if panicked {
		s.pc[g] = -1
	}
	if m.finished(s, g) && g != 0 {
		s.done++
	}
}

func (m *model) advance(s *mstate, g int, what string) {
	s.obs[g] += fmt.Sprintf("%d:%s;", s.pc[g], what)
	s.pc[g]++
	s.waiting[g] = false
	m.finish(s, g, false)
}

func (m *model) panicG(s *mstate, g int, class string) {
	s.obs[g] += "P:" + class + ";"
	s.waiting[g] = false
	m.finish(s, g, true)
}

// completeParked completes the parked partner p (goroutine, case) of a hand-off.
func (m *model) completeParked(s *mstate, p [2]int, recvVal int, isRecv bool) {
	g := p[0]
	pre := ""
	if p[1] >= 0 {
		pre = fmt.Sprintf("case%d ", p[1])
	}
	if isRecv {
		m.advance(s, g, fmt.Sprintf("%srecv %d t", pre, recvVal))
	} else {
		m.advance(s, g, pre+"sent")
	}
}

func (m *model) explore(s *mstate) {
	k := s.key()
	if m.seen[k] {
		return
	}
	m.seen[k] = true
	m.states++
	moved := false
	c := m.c
	for g := range c.Gs {
		if m.finished(s, g) {
			// main joins after its own operations
			continue
		}
		o := c.Gs[g][s.pc[g]]
		// sendOn / recvOn return the successor states of performing the communication now
		sendOn := func(base *mstate, ch, val int, label string) []*mstate {
			var out []*mstate
			if c.Caps[ch] < 0 {
				return nil // nil channel: never proceeds
			}
			if base.closed[ch] {
				n := base.clone()
				m.panicG(n, g, "send on closed channel")
				return []*mstate{n}
			}
			if ps := m.parked(base, ch, true, g); len(ps) > 0 && len(base.buf[ch]) == 0 {
				// hand the value to the receiver that parked first; the model does not track
				// arrival order, so any parked receiver is allowed
				for _, p := range ps {
					n := base.clone()
					m.completeParked(n, p, val, true)
					m.advance(n, g, label)
					out = append(out, n)
				}
				return out
			}
			if len(base.buf[ch]) < c.Caps[ch] {
				n := base.clone()
				n.buf[ch] = append(n.buf[ch], val)
				m.advance(n, g, label)
				return []*mstate{n}
			}
			return nil
		}
		recvOn := func(base *mstate, ch int, label string) []*mstate {
			var out []*mstate
			if c.Caps[ch] < 0 {
				return nil
			}
			if len(base.buf[ch]) > 0 {
				n := base.clone()
				v := n.buf[ch][0]
				n.buf[ch] = n.buf[ch][1:]
				// a parked sender refills the buffer
				if ps := m.parked(n, ch, false, g); len(ps) > 0 {
					for _, p := range ps {
						n2 := n.clone()
						n2.buf[ch] = append(n2.buf[ch], m.sendVal(n2, p))
						m.completeParked(n2, p, 0, false)
						m.advance(n2, g, fmt.Sprintf("%srecv %d t", label, v))
						out = append(out, n2)
					}
					return out
				}
				m.advance(n, g, fmt.Sprintf("%srecv %d t", label, v))
				return []*mstate{n}
			}
			if ps := m.parked(base, ch, false, g); len(ps) > 0 {
				for _, p := range ps {
					n := base.clone()
					v := m.sendVal(n, p)
					m.completeParked(n, p, 0, false)
					m.advance(n, g, fmt.Sprintf("%srecv %d t", label, v))
					out = append(out, n)
				}
				return out
			}
			if base.closed[ch] {
				n := base.clone()
				m.advance(n, g, label+"recv 0 f")
				return []*mstate{n}
			}
			return nil
		}
		var succ []*mstate
		switch o.Kind {
		case opSend:
			succ = sendOn(s, o.Ch, o.Val, "sent")
		case opRecv:
			succ = recvOn(s, o.Ch, "")
		case opClose:
			n := s.clone()
			switch {
			case c.Caps[o.Ch] < 0:
				m.panicG(n, g, "close of nil channel")
			case s.closed[o.Ch]:
				m.panicG(n, g, "close of closed channel")
			default:
				n.closed[o.Ch] = true
				// parked receivers get the zero value, parked senders panic (in the sender)
				for _, p := range m.parked(n, o.Ch, true, g) {
					pre := ""
					if p[1] >= 0 {
						pre = fmt.Sprintf("case%d ", p[1])
					}
					m.advance(n, p[0], pre+"recv 0 f")
				}
				for _, p := range m.parked(n, o.Ch, false, g) {
					m.panicG(n, p[0], "send on closed channel")
				}
				m.advance(n, g, "closed")
			}
			succ = []*mstate{n}
		case opSelect:
			for j, sc := range o.Cases {
				pre := fmt.Sprintf("case%d ", j)
				if sc.Send {
					succ = append(succ, sendOn(s, sc.Ch, sc.Val, pre+"sent")...)
				} else {
					succ = append(succ, recvOn(s, sc.Ch, pre)...)
				}
			}
			if len(succ) == 0 && o.Default {
				n := s.clone()
				m.advance(n, g, "default")
				succ = []*mstate{n}
			}
		}
		if len(succ) == 0 && !s.waiting[g] {
			// the operation cannot proceed now: the goroutine parks on it
			n := s.clone()
			n.waiting[g] = true
			succ = []*mstate{n}
		}
		for _, n := range succ {
			moved = true
			m.explore(n)
		}
	}
	// main's joins: when main finished its operations it receives from done
	if m.finished(s, 0) && s.joined < len(c.Gs)-1 && s.done > s.joined {
		n := s.clone()
		n.joined++
		moved = true
		m.explore(n)
	}
	if !moved {
		all := m.finished(s, 0) && s.joined == len(c.Gs)-1
		outcome := "deadlock"
		if all {
			outcome = "ok"
		}
		m.results[tupleKey(s.obs, outcome)] = true
	}
}

// sendVal returns the value a parked sender offers.
func (m *model) sendVal(s *mstate, p [2]int) int {
	o := m.c.Gs[p[0]][s.pc[p[0]]]
	if p[1] >= 0 {
		return o.Cases[p[1]].Val
	}
	return o.Val
}

// observe turns the O lines and the outcome of one execution into a tuple key.
func observe(lines []string, outcome string, ng int) string {
	obs := make([]string, ng)
	for _, l := range lines {
		f := strings.SplitN(l, " ", 4)
		if len(f) < 4 || f[0] != "O" {
			continue
		}
		var g, i int
		fmt.Sscan(f[1], &g)
		fmt.Sscan(f[2], &i)
		if g < 0 || g >= ng {
			continue
		}
		switch {
		case i == 100:
			// joined marker
		case i == 99:
			obs[g] += f[3] + ";"
		default:
			obs[g] += fmt.Sprintf("%d:%s;", i, f[3])
		}
	}
	return tupleKey(obs, outcome)
}

func sortedKeys(m map[string]bool) []string {
	var ks []string
	for k := range m {
		ks = append(ks, k)
	}
	sort.Strings(ks)
	return ks
}
