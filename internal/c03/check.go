// Package c03 – channels, select and the goroutine scheduler follow Go semantics.
//
// Three monitors over every execution: (1) the trace of a deterministic-by-construction
// concurrent program must equal the reference toolchain's under every choice tape (the
// runtime's nondeterminism – Math.random for select, the Date.now time slice – is driven by a
// preload script); (2) an offline checker over the recorded channel-operation history
// (conservation / exactly-once, per-sender FIFO, close semantics, capacity bound); (3) the
// in-runtime invariant monitor (verif hook in the prelude) checks scheduler and channel state
// at every quiescent point.
package c03

import (
	"fmt"
	"os"
	"path/filepath"
	"sort"
	"strconv"
	"strings"
	"sync"

	"verif/internal/core"
	"verif/internal/proglib"
)

type hist struct {
	caps     map[int]int
	sendCall map[int][]hev // per channel, in log order
	sendRet  map[int][]hev
	recvRet  map[int][]hev
	recvCall map[int]int
	closedAt map[int]int // log index of close
	all      []hev
}

type hev struct {
	idx, g, ch, v int
	ok            bool
	kind          string
}

// parseHistory splits a run's lines into trace lines and history events.
func parseHistory(lines []string) (trace []string, h *hist) {
	h = &hist{caps: map[int]int{}, sendCall: map[int][]hev{}, sendRet: map[int][]hev{}, recvRet: map[int][]hev{}, recvCall: map[int]int{}, closedAt: map[int]int{}}
	for _, l := range lines {
		if !strings.HasPrefix(l, "H ") {
			trace = append(trace, l)
			continue
		}
		f := strings.Fields(l)
		if len(f) < 4 {
			continue
		}
		g, _ := strconv.Atoi(f[1])
		c, _ := strconv.Atoi(f[3])
		e := hev{idx: len(h.all), g: g, ch: c, kind: f[2]}
		if len(f) > 4 {
			e.v, _ = strconv.Atoi(f[4])
		}
		switch f[2] {
		case "make":
			h.caps[c] = e.v
		case "send-call":
			h.sendCall[c] = append(h.sendCall[c], e)
		case "send-ret":
			h.sendRet[c] = append(h.sendRet[c], e)
		case "recv-call":
			h.recvCall[c]++
		case "recv-ret":
			e.ok = len(f) > 5 && f[5] == "t"
			h.recvRet[c] = append(h.recvRet[c], e)
		case "close":
			h.closedAt[c] = e.idx
		}
		h.all = append(h.all, e)
	}
	return
}

// checkHistory applies the channel model. ordered=false restricts it to the order-free checks
// (used for histories recorded under real parallelism, where log order is not operation order).
func checkHistory(h *hist, ordered bool) string {
	var chans []int
	for c := range h.caps {
		chans = append(chans, c)
	}
	sort.Ints(chans)
	for _, c := range chans {
		sent := map[int]int{}
		for _, e := range h.sendCall[c] {
			sent[e.v]++
		}
		seen := map[int]bool{}
		got := map[int]int{}
		for _, e := range h.recvRet[c] {
			if !e.ok {
				if e.v != 0 {
					return fmt.Sprintf("chan %d: receive with ok=false delivered the non-zero value %d", c, e.v)
				}
				if _, closed := h.closedAt[c]; !closed {
					return fmt.Sprintf("chan %d: receive with ok=false although the channel was never closed", c)
				}
				if ordered && e.idx < h.closedAt[c] {
					return fmt.Sprintf("chan %d: receive with ok=false returned before close", c)
				}
				continue
			}
			if sent[e.v] == 0 {
				return fmt.Sprintf("chan %d: received value %d that was never sent (invented)", c, e.v)
			}
			got[e.v]++
			if got[e.v] > sent[e.v] {
				return fmt.Sprintf("chan %d: value %d received %d times but sent %d times (duplicated)", c, e.v, got[e.v], sent[e.v])
			}
			seen[e.v] = true
		}
		lost := 0
		retd := map[int]int{}
		for _, e := range h.sendRet[c] {
			retd[e.v]++
		}
		unique := true
		for v, n := range retd {
			if n > got[v] {
				lost += n - got[v]
			}
			if sent[v] > 1 {
				unique = false
			}
		}
		if lost > h.caps[c] {
			return fmt.Sprintf("chan %d: %d completed sends were never received, capacity is %d (values lost)", c, lost, h.caps[c])
		}
		if !ordered {
			continue
		}
		// per-sender FIFO (only decidable when the values identify their send)
		receivers := map[int]bool{}
		for _, e := range h.recvRet[c] {
			receivers[e.g] = true
		}
		// Only decidable when values identify their send and one goroutine receives: a woken
		// receiver logs when it resumes, which may be after a later receive by another goroutine.
		if unique && len(receivers) == 1 { // values of one sender are received in the order they were sent
			order := map[int]int{}
			for i, e := range h.sendCall[c] {
				order[e.v] = i
			}
			sender := map[int]int{}
			for _, e := range h.sendCall[c] {
				sender[e.v] = e.g
			}
			last := map[int]int{}
			for _, e := range h.recvRet[c] {
				if !e.ok {
					continue
				}
				s := sender[e.v]
				if p, ok := last[s]; ok && order[e.v] < p {
					return fmt.Sprintf("chan %d: values of sender %d were received out of order (value %d overtaken)", c, s, e.v)
				}
				last[s] = order[e.v]
			}
		}
		// capacity: completed sends never exceed completed receives + capacity + receivers in progress
		sr, rr, rc := 0, 0, 0
		for _, e := range h.all {
			if e.ch != c {
				continue
			}
			switch e.kind {
			case "send-ret":
				sr++
			case "recv-ret":
				if e.ok {
					rr++
				}
			case "recv-call":
				rc++
			}
			if sr > rr+h.caps[c]+(rc-rr) {
				return fmt.Sprintf("chan %d: %d sends completed with only %d receives and capacity %d (event %d)", c, sr, rr, h.caps[c], e.idx)
			}
			if e.kind == "send-ret" {
				if ci, closed := h.closedAt[c]; closed && e.idx > ci {
					// a send that was already buffered/handed over may log after close only if it
					// completed before; with atomic logging a send-ret after close is a violation
					return fmt.Sprintf("chan %d: a send completed after close (event %d)", c, e.idx)
				}
			}
		}
	}
	return ""
}

func genProgram(c *core.Ctx, i int, ending string) map[string]string {
	r := c.Rand(fmt.Sprint("prog", i))
	src := progSrc
	rep := map[string]string{"@N@": fmt.Sprint(2 + r.Intn(5)), "@M@": fmt.Sprint(3 + r.Intn(8)), "@C1@": fmt.Sprint(r.Intn(4)), "@C2@": fmt.Sprint(r.Intn(3)), "@C3@": fmt.Sprint(r.Intn(2)), "@SEED@": fmt.Sprint(r.Int31()), "@ENDING@": endings[ending]}
	for k, v := range rep {
		src = strings.ReplaceAll(src, k, v)
	}
	return proglib.WithLib(map[string]string{"main.go": src})
}

// Run is the C03 check.
func Run(c *core.Ctx) int {
	nprog := c.N(14, 100)
	ntapes := c.N(6, 16)
	var endNames []string
	for k := range endings {
		endNames = append(endNames, k)
	}
	sort.Strings(endNames)
	var mu sync.Mutex
	execs, events, monChecks, programs, randomCalls := 0, 0, 0, 0, 0
	distinct := map[string]bool{}
	preload := filepath.Join(c.Verif, "js", "c03_preload.js")
	c.Parallel(nprog, func(i int) {
		ending := "ok"
		if i%2 == 1 {
			ending = endNames[(i/2)%len(endNames)]
		}
		name := fmt.Sprintf("c03/prog-%d-%d-%s", c.Seed, i, ending)
		files := genProgram(c, i, ending)
		prog := &core.Program{Name: name, Files: files}
		dir := c.WriteProgram(prog)
		defer os.RemoveAll(dir)
		bundle := func(extra map[string]string) map[string]string {
			m := map[string]string{}
			for k, v := range files {
				m["src/"+k] = v
			}
			for k, v := range extra {
				m[k] = v
			}
			return m
		}
		bin, br := c.BuildNative(dir, core.NativeOpt{Race: !c.Quick() && i%5 == 0})
		if br.Exit != 0 {
			c.Inconclusive("reference-rejects-program")
			if os.Getenv("VERIF_DEBUG") != "" {
				fmt.Fprintln(os.Stderr, name, br.Stderr)
			}
			return
		}
		// the reference must itself be deterministic: run it several times (real parallelism)
		var ref core.Trace
		for k := 0; k < 3; k++ {
			nr := core.NormNative(c.RunNative(bin, []string{fmt.Sprint("GOMAXPROCS=", []int{0, 1, 16}[k])}[0:0], 0))
			if k == 1 {
				nr = core.NormNative(c.RunNative(bin, []string{"GOMAXPROCS=1"}, 0))
			}
			if strings.Contains(strings.Join(nr.Lines, "\n"), "WARNING: DATA RACE") {
				c.Inconclusive("workload-has-a-data-race")
				return
			}
			tl, h := parseHistory(nr.Lines)
			t := core.Trace{Lines: tl, Outcome: nr.Outcome}
			if k == 0 {
				ref = t
			} else if d := core.DiffTrace(ref, t, "ref-run0", fmt.Sprint("ref-run", k)); d != "" {
				c.Inconclusive("reference-not-deterministic")
				if os.Getenv("VERIF_DEBUG") != "" {
					fmt.Fprintln(os.Stderr, name, d)
				}
				return
			}
			// validate the checker on native histories (order-free part): a complaint about the
			// reference is a checker bug, reported as machinery failure, never as a violation
			if why := checkHistory(h, false); why != "" {
				c.Inconclusive("history-checker-rejects-reference:" + why)
				return
			}
		}
		if ref.Outcome == "timeout" {
			c.Inconclusive("reference-timeout")
			return
		}
		cr := c.CompileJS(dir, core.CompileOpt{Env: []string{"GOPHERJS_VERIF_MON_EMBED=1"}})
		if !cr.OK {
			c.Violate(name, "compiler rejected a program the reference accepts:\n"+cr.Output, bundle(nil))
			return
		}
		lexecs, levents, lchecks, lrand := 0, 0, 0, 0
		for t := 0; t < ntapes; t++ {
			tape := fmt.Sprintf("%d:%d", 1+t*7919+i, t%2)
			run := c.RunNode(cr.JS, core.NodeOpt{Preload: []string{preload}, Env: []string{"VP_TAPE=" + tape, "GOPHERJS_VERIF_MON=1"}})
			jt := core.NormJS(run)
			if jt.Outcome == "timeout" {
				c.Inconclusive("node-timeout")
				continue
			}
			tl, h := parseHistory(jt.Lines)
			obs := core.Trace{Lines: tl, Outcome: jt.Outcome}
			key := fmt.Sprintf("%s/tape-%s", name, tape)
			files := func(extra map[string]string) map[string]string {
				m := bundle(map[string]string{"js.out": jt.String(), "ref.out": ref.String(), "js.stderr": run.Stderr, "cmd.sh": "VP_TAPE=" + tape + " GOPHERJS_VERIF_MON=1 node --require /verif/js/c03_preload.js out.js\n"})
				for k, v := range extra {
					m[k] = v
				}
				return m
			}
			if d := core.DiffTrace(obs, ref, "js", "go"); d != "" {
				c.Violate(key, fmt.Sprintf("%s under tape %s: %s", name, tape, d), files(map[string]string{"diff.txt": d}))
				break
			}
			if why := checkHistory(h, true); why != "" {
				c.Violate(key+"/history", fmt.Sprintf("%s under tape %s: channel history violates the model: %s", name, tape, why), files(nil))
				break
			}
			mon := false
			for _, l := range strings.Split(run.Stderr, "\n") {
				if strings.HasPrefix(l, "VERIF-INVARIANT ") {
					c.Violate(key+"/invariant", fmt.Sprintf("%s under tape %s: runtime invariant monitor: %s", name, tape, l), files(nil))
					mon = true
					break
				}
				if strings.HasPrefix(l, "VERIF-MON ") {
					for _, f := range strings.Fields(l) {
						if strings.HasPrefix(f, "checks=") {
							n, _ := strconv.Atoi(f[7:])
							lchecks += n
						}
					}
				}
				if strings.HasPrefix(l, "VERIF-TAPE random_calls=") {
					n, _ := strconv.Atoi(strings.TrimPrefix(l, "VERIF-TAPE random_calls="))
					lrand += n
				}
			}
			if mon {
				break
			}
			lexecs++
			levents += len(h.all)
		}
		mu.Lock()
		defer mu.Unlock()
		programs++
		execs += lexecs
		events += levents
		monChecks += lchecks
		randomCalls += lrand
		distinct[fmt.Sprint(ending, len(ref.Lines), ref.Outcome, strings.Join(ref.Lines, "|"))] = true
		if programs <= 2 {
			c.Sample(map[string]any{"program": name, "tapes": ntapes, "reference_trace": ref.Lines, "outcome": ref.Outcome})
		}
	})
	// ---- layer 1: small configurations against the reference interpreter of channel semantics
	nconf := c.N(24, 400)
	ctapes := c.N(6, 12)
	confExecs, tuplesSeen, tuplesAllowed, modelStates, confs := 0, 0, 0, 0, 0
	c.Parallel(nconf, func(i int) {
		r := c.Rand(fmt.Sprint("conf", i))
		cf := genConfig(r)
		name := fmt.Sprintf("c03/conf-%d-%d", c.Seed, i)
		files := proglib.WithLib(map[string]string{"main.go": cf.render()})
		set, states := allowed(cf)
		prog := &core.Program{Name: name, Files: files}
		dir := c.WriteProgram(prog)
		defer os.RemoveAll(dir)
		bundle := func(extra map[string]string) map[string]string {
			m := map[string]string{"config.txt": cf.String() + "\n", "allowed.txt": strings.Join(sortedKeys(set), "\n") + "\n"}
			for k, v := range files {
				m["src/"+k] = v
			}
			for k, v := range extra {
				m[k] = v
			}
			return m
		}
		bin, br := c.BuildNative(dir, core.NativeOpt{})
		if br.Exit != 0 {
			c.Inconclusive("conf-reference-rejects-program")
			if os.Getenv("VERIF_DEBUG") != "" {
				fmt.Fprintln(os.Stderr, name, br.Stderr)
			}
			return
		}
		// validate the model against the reference toolchain
		for k := 0; k < c.N(3, 9); k++ {
			nr := core.NormNative(c.RunNative(bin, []string{"GOMAXPROCS=" + []string{"1", "2", "16"}[k%3]}, 0))
			if nr.Outcome == "timeout" {
				c.Inconclusive("conf-reference-timeout")
				return
			}
			t := observe(nr.Lines, nr.Outcome, len(cf.Gs))
			if !set[t] {
				c.Inconclusive("model-rejects-reference")
				if os.Getenv("VERIF_DEBUG") != "" {
					fmt.Fprintln(os.Stderr, name, cf.String(), "\n  native tuple:", t, "\n  allowed:", strings.Join(sortedKeys(set), "\n           "))
				}
				return
			}
		}
		cr := c.CompileJS(dir, core.CompileOpt{Env: []string{"GOPHERJS_VERIF_MON_EMBED=1"}})
		if !cr.OK {
			c.Violate(name, "compiler rejected a program the reference accepts:\n"+cr.Output, bundle(nil))
			return
		}
		seenT := map[string]bool{}
		le := 0
		for t := 0; t < ctapes; t++ {
			tape := fmt.Sprintf("%d:%d", 1+t*104729+i, t%2)
			run := c.RunNode(cr.JS, core.NodeOpt{Preload: []string{preload}, Env: []string{"VP_TAPE=" + tape, "GOPHERJS_VERIF_MON=1"}})
			jt := core.NormJS(run)
			if jt.Outcome == "timeout" {
				c.Inconclusive("node-timeout")
				continue
			}
			tup := observe(jt.Lines, jt.Outcome, len(cf.Gs))
			if !set[tup] {
				c.Violate(name+"/tape-"+tape, fmt.Sprintf("%s [%s] under tape %s: the observation is not allowed by Go's channel semantics:\n  observed: %s\n  allowed:  %s", name, cf.String(), tape, tup, strings.Join(sortedKeys(set), "\n            ")),
					bundle(map[string]string{"js.out": jt.String(), "js.stderr": run.Stderr, "observed.txt": tup + "\n"}))
				break
			}
			inv := false
			for _, l := range strings.Split(run.Stderr, "\n") {
				if strings.HasPrefix(l, "VERIF-INVARIANT ") {
					c.Violate(name+"/tape-"+tape+"/invariant", fmt.Sprintf("%s [%s] under tape %s: runtime invariant monitor: %s", name, cf.String(), tape, l), bundle(map[string]string{"js.stderr": run.Stderr}))
					inv = true
					break
				}
			}
			if inv {
				break
			}
			seenT[tup] = true
			le++
		}
		mu.Lock()
		defer mu.Unlock()
		confs++
		confExecs += le
		tuplesSeen += len(seenT)
		tuplesAllowed += len(set)
		modelStates += states
		distinct["conf "+cf.String()] = true
		if confs <= 2 {
			c.Sample(map[string]any{"configuration": cf.String(), "allowed_tuples": sortedKeys(set), "observed_tuples": sortedKeys(seenT)})
		}
	})
	c.Count("small_configurations", confs)
	c.Count("small_configuration_executions", confExecs)
	c.Count("distinct_observation_tuples_seen", tuplesSeen)
	c.Count("observation_tuples_allowed_by_model", tuplesAllowed)
	c.Count("model_states_explored", modelStates)
	execs += confExecs
	c.Count("programs", programs)
	c.Count("executions_under_choice_tapes", execs)
	c.Count("channel_history_events_checked", events)
	c.Count("runtime_monitor_quiescent_checks", monChecks)
	c.Count("select_random_choices_driven", randomCalls)
	floor := nprog / 2
	if monChecks == 0 || events == 0 {
		floor = 1 << 30 // the hook is not compiled in or the histories are empty: nothing was monitored
	}
	return c.Finish("exploration", execs, len(distinct), floor,
		"deterministic-by-construction concurrent programs (pipelines over channels of capacities 0-3 with close propagation, fan-out with ordered merge, worker pool with commutative fold, semaphore, close waking N blocked receivers, senders blocked in send and in select when the channel is closed, selects with several ready cases / default / nil channels / stale entries / send+receive cases / polling, ping-pong, len/cap/range, NumGoroutine) with random sizes, ending normally, with goroutines left behind, or in five kinds of deadlock; each is run under several choice tapes (Math.random and the scheduler's time slice driven by a preload) with the in-runtime invariant monitor on: trace and outcome must equal the reference's (itself run three times incl. GOMAXPROCS=1), the channel history must satisfy conservation, exactly-once, per-sender FIFO, close and capacity rules, and the monitor must stay silent. distinct_nontrivial = distinct (ending, reference trace) classes",
		map[string]any{"invariants_checked_by_runtime_hook": "I1 goroutine accounting, I2 channel shape, I4 run-queue consistency, I6 deadlock report iff nothing can run"},
		[]string{"history order checks rely on cooperative scheduling (operation and its log line are atomic); native histories are only checked with the order-free rules", "reference toolchain go1.23.5"})
}
