package c07

import (
	"fmt"
	"sync"

	"verif/internal/core"
)

// Run is the C07 check: reference-implementation monitor over alias-probe programs.
func Run(c *core.Ctx) int {
	n := c.N(40, 300)
	var mu sync.Mutex
	programs, lines, probes := 0, 0, 0
	distinct := map[string]bool{}
	c.Parallel(n, func(i int) {
		r := c.Rand(fmt.Sprint("prog", i))
		files, np := Generate(r, 5)
		prog := &core.Program{Name: fmt.Sprintf("c07/prog-%d-%d", c.Seed, i), Files: files}
		res := c.DiffProgram(prog, core.DiffOpt{})
		mu.Lock()
		defer mu.Unlock()
		if res.Verdict == "inconclusive" {
			return
		}
		programs++
		probes += np
		lines += res.Lines
		for _, l := range res.Ref.Lines {
			// T <n> <ctx> <values>: distinct (context, value) observations
			if len(l) > 2 && l[0] == 'T' {
				k := 2
				for k < len(l) && l[k] != ' ' {
					k++
				}
				if k+1 < len(l) {
					distinct[l[k+1:]] = true
				}
			}
		}
		if programs <= 2 && len(res.Ref.Lines) > 4 {
			c.Sample(map[string]any{"program": prog.Name, "trace_head": res.Ref.Lines[:4]})
		}
	})
	c.Count("programs", programs)
	c.Count("type_probes", probes)
	c.Count("trace_lines_compared", lines)
	return c.Finish("exploration", lines, len(distinct), 200,
		"per program a random type universe (structs with embedding, arrays, named arrays/slices, slices, maps, pointers; nesting ≤3); for up to 7 types every copying context (assign, define, swap, multi-assign, pass, return incl. named result modified by defer, range value variables, range over array copy / array pointer, buffered and unbuffered channel, map store/load, element/field stores, composite-literal elements of 5 shapes, append, copy, interface boxing/assertion/type switch/interface copy, conversion between identical-layout named types, method values, value and pointer receivers through value/pointer/embedding/interface, method expressions, array→slice→array) and aliasing context (&local, &global, pointer identity, pointers stored in struct/map/slice, deref copy, closures sharing a variable, element pointers of slices and subslices, append within/beyond capacity, 3-index slices, slices of arrays, overlapping copy, self-append, pointers to fields and to array elements) is followed by deep mutation of either side and a full print of both; traces compared with the reference toolchain. evaluations = trace lines compared; distinct_nontrivial = distinct (context, printed values) observations",
		nil, []string{"reference toolchain go1.23.5"})
}
