// Package c07 – arrays and structs are values; pointers, slices and maps alias.
package c07

import (
	"fmt"
	"math/rand"
	"strings"

	"verif/internal/progen"
	"verif/internal/proglib"
)

type gen struct {
	u *progen.Universe
	b strings.Builder
	r *rand.Rand
}

func (g *gen) mkName(t *progen.Type) string  { return "mk_" + t.ID }
func (g *gen) mutName(t *progen.Type) string { return "mut_" + t.ID }
func (g *gen) show(t *progen.Type, e string) string {
	return "show_" + t.ID + "(" + e + ")"
}

// emitMkMut writes mk_<ID>(k I) T (a fresh, non-trivial value with its own slices, maps and
// pointers) and mut_<ID>(p *T, k I) (changes every leaf reachable from *p, through value
// parts and through references alike).
func (g *gen) emitMkMut() {
	b := &g.b
	for _, t := range g.u.Types {
		fmt.Fprintf(b, "func %s(k I) %s {\n", g.mkName(t), t.Name)
		switch t.Kind {
		case progen.KBool:
			fmt.Fprintf(b, "\treturn %s(k%%2 == 0)\n", t.Name)
		case progen.KInt:
			fmt.Fprintf(b, "\treturn %s(k*7 + 3)\n", t.Name)
		case progen.KFloat:
			fmt.Fprintf(b, "\treturn %s(k) + 0.5\n", t.Name)
		case progen.KString:
			fmt.Fprintf(b, "\treturn %s(\"s\" + itoa(int(k)))\n", t.Name)
		case progen.KStruct:
			b.WriteString("\tvar v " + t.Name + "\n")
			for i, f := range t.Fields {
				fmt.Fprintf(b, "\tv.%s = %s(k + %d)\n", f.Name, g.mkName(f.T), i+1)
			}
			b.WriteString("\treturn v\n")
		case progen.KArray:
			b.WriteString("\tvar v " + t.Name + "\n")
			fmt.Fprintf(b, "\tfor i := range v {\n\t\tv[i] = %s(k + I(i))\n\t}\n\treturn v\n", g.mkName(t.Elem))
		case progen.KSlice:
			fmt.Fprintf(b, "\tv := make(%s, 3, 5)\n\tfor i := range v {\n\t\tv[i] = %s(k + I(i))\n\t}\n\treturn v\n", t.Name, g.mkName(t.Elem))
		case progen.KMap:
			ks := progen.KeyLits(t.Key)
			fmt.Fprintf(b, "\tv := %s{}\n", t.Name)
			for i := 0; i < 3 && i < len(ks); i++ {
				fmt.Fprintf(b, "\tv[%s] = %s(k + %d)\n", ks[i], g.mkName(t.Elem), i)
			}
			b.WriteString("\treturn v\n")
		case progen.KPtr:
			fmt.Fprintf(b, "\tv := new(%s)\n\t*v = %s(k)\n\treturn v\n", t.Elem.Name, g.mkName(t.Elem))
		}
		b.WriteString("}\n\n")
		fmt.Fprintf(b, "func %s(p *%s, k I) {\n", g.mutName(t), t.Name)
		switch t.Kind {
		case progen.KBool:
			b.WriteString("\t*p = !*p\n")
		case progen.KInt:
			fmt.Fprintf(b, "\t*p += %s(100 + k)\n", t.Name)
		case progen.KFloat:
			fmt.Fprintf(b, "\t*p += %s(100 + k)\n", t.Name)
		case progen.KString:
			fmt.Fprintf(b, "\t*p += %s(\"m\" + itoa(int(k)))\n", t.Name)
		case progen.KStruct:
			for i, f := range t.Fields {
				fmt.Fprintf(b, "\t%s(&p.%s, k+%d)\n", g.mutName(f.T), f.Name, i)
			}
		case progen.KArray:
			fmt.Fprintf(b, "\tfor i := range p {\n\t\t%s(&p[i], k+I(i))\n\t}\n", g.mutName(t.Elem))
		case progen.KSlice:
			fmt.Fprintf(b, "\tfor i := range *p {\n\t\t%s(&(*p)[i], k+I(i))\n\t}\n", g.mutName(t.Elem))
		case progen.KMap:
			fmt.Fprintf(b, "\tfor _, key := range []%s{%s} {\n\t\tif e, ok := (*p)[key]; ok {\n\t\t\t%s(&e, k)\n\t\t\t(*p)[key] = e\n\t\t}\n\t}\n", t.Key.Name, strings.Join(progen.KeyLits(t.Key), ", "), g.mutName(t.Elem))
		case progen.KPtr:
			fmt.Fprintf(b, "\tif *p != nil {\n\t\t%s(*p, k)\n\t}\n", g.mutName(t.Elem))
		}
		b.WriteString("}\n\n")
	}
}

// probes writes func probe_<ID>() exercising every copying and aliasing context for type t.
func (g *gen) probes(t *progen.Type, n int) string {
	T, ID := t.Name, t.ID
	MK, MUT := g.mkName(t), g.mutName(t)
	S := func(e string) string { return g.show(t, e) }
	b := &g.b
	name := fmt.Sprintf("probe_%s_%d", ID, n)
	// helper declarations (package level)
	fmt.Fprintf(b, "var glob_%s_%d %s\n\n", ID, n, T)
	fmt.Fprintf(b, "func pass_%s_%d(x %s) %s {\n\t%s(&x, 3)\n\treturn x\n}\n\n", ID, n, T, T, MUT)
	fmt.Fprintf(b, "func ret_%s_%d(x %s) (r %s) {\n\tdefer func() {\n\t\t%s(&r, 4)\n\t}()\n\tr = x\n\treturn r\n}\n\n", ID, n, T, T, MUT)
	fmt.Fprintf(b, "func retp_%s_%d(x *%s) %s {\n\tdefer %s(x, 5)\n\treturn *x\n}\n\n", ID, n, T, T, MUT)
	fmt.Fprintf(b, "type alt_%s_%d %s\n\n", ID, n, T)
	fmt.Fprintf(b, "func retg_%s_%d() %s { return glob_%s_%d }\n\nfunc retd_%s_%d(p *%s) %s { return *p }\n\n", ID, n, T, ID, n, ID, n, T, T)
	fmt.Fprintf(b, "type narr_%s_%d [2]%s\n\ntype narrh_%s_%d struct {\n\tpre I\n\tarr narr_%s_%d\n}\n\n", ID, n, T, ID, n, ID, n)
	hasMethods := t.Kind == progen.KStruct || (t.Named && t.Kind != progen.KPtr && t.Kind != progen.KIface)
	if hasMethods {
		fmt.Fprintf(b, "func (r %s) c07get%d() %s { return r }\n", T, n, T)
		fmt.Fprintf(b, "func (r %s) c07mutv%d() string {\n\t%s(&r, 7)\n\treturn %s\n}\n", T, n, MUT, S("r"))
		fmt.Fprintf(b, "func (r *%s) c07mutp%d() string {\n\t%s(r, 9)\n\treturn %s\n}\n", T, n, MUT, S("*r"))
		fmt.Fprintf(b, "type embv_%s_%d struct {\n\t%s\n\textra I\n}\n", ID, n, T)
		fmt.Fprintf(b, "type embp_%s_%d struct {\n\t*%s\n\textra I\n}\n", ID, n, T)
		fmt.Fprintf(b, "type c07iface%d_%s interface {\n\tc07get%d() %s\n\tc07mutv%d() string\n}\n\n", n, ID, n, T, n)
	}
	fmt.Fprintf(b, "func %s() {\n", name)
	w := func(format string, a ...any) { fmt.Fprintf(b, "\t"+format+"\n", a...) }
	pair := func(ctx string) {
		w("\temit(%q, %s+\" | \"+%s)", ctx, S("a"), S("b"))
	}
	// ---- copying contexts
	w("{ // assign / define")
	w("\ta := %s(1)", MK)
	w("\tvar b %s", T)
	w("\tb = a")
	w("\tc := a")
	w("\t%s(&b, 1)", MUT)
	pair("assign1")
	w("\t%s(&a, 2)", MUT)
	pair("assign2")
	w("\temit(\"define\", %s)", S("c"))
	w("}")
	w("{ // := that redeclares a variable assigns to it (tuple on the right: lookup, assertion, receive, call)")
	w("\ta := %s(1)", MK)
	w("\tp := &a")
	w("\ta, ok1 := map[string]%s{\"k\": %s(2)}[\"k\"]", T, MK)
	w("\t%s(p, 3)", MUT)
	w("\temit(\"redecl-map\", %s+btoa(ok1)+btoa(p == &a))", S("a"))
	w("\tb := %s(1)", MK)
	w("\tq := &b")
	w("\tb, ok2 := interface{}(%s(4)).(%s)", MK, T)
	w("\t%s(q, 5)", MUT)
	w("\temit(\"redecl-assert\", %s+btoa(ok2)+btoa(q == &b))", S("b"))
	w("\tc := %s(1)", MK)
	w("\tr := &c")
	w("\tch := make(chan %s, 1)", T)
	w("\tch <- %s(6)", MK)
	w("\tc, ok3 := <-ch")
	w("\t%s(r, 7)", MUT)
	w("\temit(\"redecl-recv\", %s+btoa(ok3)+btoa(r == &c))", S("c"))
	w("\td := %s(1)", MK)
	w("\ts := &d")
	w("\td, n4 := func() (%s, int) { return %s(8), 4 }()", T, MK)
	w("\t%s(s, 9)", MUT)
	w("\temit(\"redecl-call\", %s+itoa(n4)+btoa(s == &d))", S("d"))
	w("}")
	w("{ // swap and multi-assign")
	w("\ta, b := %s(1), %s(2)", MK, MK)
	w("\ta, b = b, a")
	w("\t%s(&a, 1)", MUT)
	pair("swap")
	w("\tb, a = a, %s(3)", MK)
	w("\t%s(&b, 2)", MUT)
	pair("multi")
	w("}")
	w("{ // pass and return")
	w("\ta := %s(1)", MK)
	w("\tfunc(x %s) {", T)
	w("\t\t%s(&x, 1)", MUT)
	w("\t\temit(\"passlit\", %s)", S("x"))
	w("\t}(a)")
	w("\tb := pass_%s_%d(a)", ID, n)
	pair("pass")
	w("\tb = ret_%s_%d(a)", ID, n)
	pair("ret-named-defer")
	w("\tb = retp_%s_%d(&a)", ID, n)
	pair("ret-deref-then-defer-mut")
	w("}")
	w("{ // range value variables and range over an array copy")
	w("\tarr := [2]%s{%s(1), %s(2)}", T, MK, MK)
	w("\tfor _, v := range arr {")
	w("\t\t%s(&v, 5)", MUT)
	w("\t}")
	w("\temit(\"range-arr\", %s)", S("arr[0]"))
	w("\tfor i, v := range arr {")
	w("\t\tarr[1] = %s(9)", MK)
	w("\t\temit(\"range-arr-copy\", itoa(i)+%s)", S("v"))
	w("\t}")
	w("\tfor i, v := range &arr {")
	w("\t\tarr[1] = %s(11)", MK)
	w("\t\temit(\"range-arrptr\", itoa(i)+%s)", S("v"))
	w("\t}")
	w("\tna := narr_%s_%d{%s(1), %s(2)}", ID, n, MK, MK)
	w("\tfor i, v := range na {")
	w("\t\tna[1] = %s(13)", MK)
	w("\t\temit(\"range-named-arr\", itoa(i)+%s)", S("v"))
	w("\t}")
	w("\tnh := narrh_%s_%d{arr: narr_%s_%d{%s(1), %s(2)}}", ID, n, ID, n, MK, MK)
	w("\tnp := &nh")
	w("\tfor i, v := range nh.arr {")
	w("\t\t%s(&np.arr[1], 15)", MUT)
	w("\t\temit(\"range-named-arr-field\", itoa(i)+%s)", S("v"))
	w("\t}")
	w("\tfor i, v := range np.arr {")
	w("\t\tnh.arr[1] = %s(17)", MK)
	w("\t\temit(\"range-named-arr-ptrfield\", itoa(i)+%s)", S("v"))
	w("\t}")
	w("\tfor i, v := range [2]%s(na) {", T)
	w("\t\tna[1] = %s(19)", MK)
	w("\t\temit(\"range-arr-conv\", itoa(i)+%s)", S("v"))
	w("\t}")
	w("\tfor i, v := range narr_%s_%d(arr) {", ID, n)
	w("\t\tarr[1] = %s(21)", MK)
	w("\t\temit(\"range-named-arr-conv\", itoa(i)+%s)", S("v"))
	w("\t}")
	w("\tsl := []%s{%s(1), %s(2)}", T, MK, MK)
	w("\tfor _, v := range sl {")
	w("\t\t%s(&v, 5)", MUT)
	w("\t}")
	w("\temit(\"range-sl\", %s)", S("sl[1]"))
	w("\tm := map[string]%s{\"k\": %s(3)}", T, MK)
	w("\tfor _, v := range m {")
	w("\t\t%s(&v, 5)", MUT)
	w("\t}")
	w("\temit(\"range-map\", %s)", S(`m["k"]`))
	w("}")
	w("{ // channel send / receive")
	w("\ta := %s(1)", MK)
	w("\tch := make(chan %s, 2)", T)
	w("\tch <- a")
	w("\t%s(&a, 1)", MUT)
	w("\tch <- a")
	w("\tb := <-ch")
	w("\tc, ok := <-ch")
	w("\t%s(&c, 2)", MUT)
	pair("chan")
	w("\temit(\"chan2\", %s+btoa(ok))", S("c"))
	w("\tun := make(chan %s)", T)
	w("\tgo func() { un <- a }()")
	w("\td := <-un")
	w("\t%s(&d, 3)", MUT)
	w("\temit(\"chan-unbuffered\", %s+\" | \"+%s)", S("a"), S("d"))
	w("}")
	w("{ // map store / load, comma-ok")
	w("\ta := %s(1)", MK)
	w("\tm := map[string]%s{}", T)
	w("\tm[\"k\"] = a")
	w("\t%s(&a, 1)", MUT)
	w("\tb := m[\"k\"]")
	w("\t%s(&b, 2)", MUT)
	w("\tc, ok := m[\"k\"]")
	pair("map")
	w("\temit(\"map2\", %s+btoa(ok)+%s)", S("c"), S(`m["none"]`))
	w("}")
	w("{ // element, field and composite-literal stores")
	w("\ta := %s(1)", MK)
	w("\tsl := make([]%s, 1)", T)
	w("\tsl[0] = a")
	w("\tvar ar [1]%s", T)
	w("\tar[0] = a")
	w("\tvar h struct{ f %s }", T)
	w("\th.f = a")
	w("\tlit1 := []%s{a}", T)
	w("\tlit2 := [1]%s{a}", T)
	w("\tlit3 := struct{ f %s }{a}", T)
	w("\tlit4 := map[string]%s{\"k\": a}", T)
	w("\tlit5 := &struct{ f %s }{f: a}", T)
	w("\t%s(&a, 1)", MUT)
	w("\temit(\"stores\", %s+\"|\"+%s+\"|\"+%s)", S("sl[0]"), S("ar[0]"), S("h.f"))
	w("\temit(\"lits\", %s+\"|\"+%s+\"|\"+%s+\"|\"+%s+\"|\"+%s)", S("lit1[0]"), S("lit2[0]"), S("lit3.f"), S(`lit4["k"]`), S("lit5.f"))
	w("\tsl = append(sl, a)")
	w("\t%s(&a, 2)", MUT)
	w("\tdst := make([]%s, 1)", T)
	w("\tcopy(dst, []%s{a})", T)
	w("\t%s(&a, 3)", MUT)
	w("\temit(\"append-copy\", %s+\"|\"+%s)", S("sl[1]"), S("dst[0]"))
	w("}")
	w("{ // interface boxing, assertion, type switch")
	w("\ta := %s(1)", MK)
	w("\tvar i interface{} = a")
	w("\t%s(&a, 1)", MUT)
	w("\tb := i.(%s)", T)
	pair("box")
	w("\t%s(&b, 2)", MUT)
	w("\temit(\"box2\", %s)", S("i.("+T+")"))
	w("\tswitch v := i.(type) {")
	w("\tcase %s:", T)
	w("\t\t%s(&v, 3)", MUT)
	w("\t\temit(\"box-switch\", %s+\"|\"+%s)", S("v"), S("i.("+T+")"))
	w("\t}")
	w("\tj := i")
	w("\tc, _ := j.(%s)", T)
	w("\t%s(&c, 4)", MUT)
	w("\temit(\"box-copy\", %s+\"|\"+%s)", S("i.("+T+")"), S("j.("+T+")"))
	w("\tvar k interface{} = %s(a)", func() string {
		if strings.HasPrefix(T, "*") || strings.HasPrefix(T, "[") || strings.HasPrefix(T, "map[") {
			return "(" + T + ")"
		}
		return T
	}())
	w("\tis := []interface{}{a, a}")
	w("\t%s(&a, 5)", MUT)
	w("\temit(\"box-slice\", %s+\"|\"+%s)", S("is[1].("+T+")"), S("k.("+T+")"))
	w("}")
	w("{ // results of calls that return a variable itself are copied where they are stored")
	w("\tglob_%s_%d = %s(1)", ID, n, MK)
	w("\tvar i interface{} = retg_%s_%d()", ID, n)
	w("\tx := retg_%s_%d()", ID, n)
	w("\tis := []interface{}{retg_%s_%d(), retd_%s_%d(&glob_%s_%d)}", ID, n, ID, n, ID, n)
	w("\tim := map[string]interface{}{\"k\": retg_%s_%d()}", ID, n)
	w("\tch := make(chan interface{}, 1)")
	w("\tch <- retg_%s_%d()", ID, n)
	w("\tst := struct{ f interface{} }{retg_%s_%d()}", ID, n)
	w("\tfn := func(v interface{}) interface{} { return v }")
	w("\tpassed := fn(retg_%s_%d())", ID, n)
	w("\t%s(&glob_%s_%d, 6)", MUT, ID, n)
	w("\temit(\"box-call\", %s+\"|\"+%s+\"|\"+%s+\"|\"+%s+\"|\"+%s)", S("i.("+T+")"), S("x"), S("is[0].("+T+")"), S("is[1].("+T+")"), S("im[\"k\"].("+T+")"))
	w("\temit(\"box-call2\", %s+\"|\"+%s+\"|\"+%s+\"|\"+%s)", S("(<-ch).("+T+")"), S("st.f.("+T+")"), S("passed.("+T+")"), S(fmt.Sprintf("glob_%s_%d", ID, n)))
	w("}")
	w("{ // conversion between identical-layout named types")
	w("\ta := %s(1)", MK)
	w("\tb := alt_%s_%d(a)", ID, n)
	TP := T
	if strings.HasPrefix(T, "*") {
		TP = "(" + T + ")"
	}
	w("\t%s((*%s)(&b), 1)", MUT, TP)
	w("\tc := %s(b)", TP)
	w("\t%s(&c, 2)", MUT)
	w("\temit(\"conv\", %s+\"|\"+%s+\"|\"+%s)", S("a"), S(TP+"(b)"), S("c"))
	w("}")
	if hasMethods {
		w("{ // method values, value and pointer receivers through value, pointer, embedding, interface")
		w("\ta := %s(1)", MK)
		w("\tf := a.c07get%d", n)
		w("\tgm := a.c07mutv%d", n)
		w("\t%s(&a, 1)", MUT)
		w("\temit(\"mval\", %s+\"|\"+gm()+\"|\"+%s)", S("f()"), S("a"))
		w("\tpa := &a")
		w("\tfp := pa.c07get%d", n)
		w("\tvar ipa c07iface%d_%s = pa", n, ID)
		w("\tfi := ipa.c07get%d", n)
		w("\t%s(&a, 3)", MUT)
		w("\temit(\"mval-ptr\", %s+\"|\"+%s+\"|\"+%s)", S("fp()"), S("fi()"), S("a"))
		w("\tr1 := a.c07mutv%d()", n)
		w("\tr2 := (&a).c07mutv%d()", n)
		w("\temit(\"vrecv\", r1+\"|\"+r2+\"|\"+%s)", S("a"))
		w("\tev := embv_%s_%d{a, 1}", ID, n)
		w("\tep := embp_%s_%d{&a, 2}", ID, n)
		w("\tr3 := ev.c07mutv%d()", n)
		w("\tr4 := ev.c07mutp%d()", n)
		w("\temit(\"emb-v\", r3+\"|\"+r4+\"|\"+%s+\"|\"+%s)", S("ev."+T), S("a"))
		w("\tr5 := ep.c07mutv%d()", n)
		w("\tr6 := ep.c07mutp%d()", n)
		w("\temit(\"emb-p\", r5+\"|\"+r6+\"|\"+%s)", S("a"))
		w("\tvar iv c07iface%d_%s = a", n, ID)
		w("\tvar ip c07iface%d_%s = &a", n, ID)
		w("\t%s(&a, 2)", MUT)
		w("\tr7 := iv.c07mutv%d()", n)
		w("\temit(\"iface-v\", r7+\"|\"+%s)", S(fmt.Sprintf("iv.c07get%d()", n)))
		w("\tr8 := ip.c07mutv%d()", n)
		w("\temit(\"iface-p\", r8+\"|\"+%s+\"|\"+%s)", S(fmt.Sprintf("ip.c07get%d()", n)), S("a"))
		w("\tpm := a.c07mutp%d", n)
		w("\tpm()")
		w("\tme := (*%s).c07mutp%d", T, n)
		w("\tme(&a)")
		w("\tve := %s.c07mutv%d", T, n)
		w("\tr9 := ve(a)")
		w("\temit(\"mexpr\", r9+\"|\"+%s)", S("a"))
		w("}")
	}
	if t.Kind == progen.KArray {
		w("{ // array → slice → array")
		w("\ta := %s(1)", MK)
		w("\ts := a[:]")
		w("\t%s(&s[0], 1)", g.mutName(t.Elem))
		w("\tb := %s(s)", T)
		w("\tp := (*%s)(s)", T)
		w("\t%s(&s[0], 2)", g.mutName(t.Elem))
		w("\temit(\"arr-slice\", %s+\"|\"+%s+\"|\"+%s+btoa(p == &a))", S("a"), S("b"), S("*p"))
		w("}")
	}
	// ---- aliasing contexts
	w("{ // &local, &global, pointer identity, pointers stored and reloaded")
	w("\ta := %s(1)", MK)
	w("\tp, q := &a, &a")
	w("\t%s(p, 1)", MUT)
	w("\temit(\"ptr-local\", %s+btoa(p == q))", S("a"))
	w("\tglob_%s_%d = %s(2)", ID, n, MK)
	w("\tgp := &glob_%s_%d", ID, n)
	w("\t%s(gp, 1)", MUT)
	w("\temit(\"ptr-global\", %s+btoa(gp == &glob_%s_%d))", S(fmt.Sprintf("glob_%s_%d", ID, n)), ID, n)
	w("\tholder := struct{ p *%s }{p}", T)
	w("\tpm := map[string]*%s{\"k\": p}", T)
	w("\tps := []*%s{p, q}", T)
	w("\t%s(holder.p, 2)", MUT)
	w("\t%s(pm[\"k\"], 3)", MUT)
	w("\t%s(ps[1], 4)", MUT)
	w("\temit(\"ptr-stored\", %s+btoa(holder.p == ps[0] && pm[\"k\"] == q))", S("a"))
	w("\tb := *p")
	w("\t%s(&b, 5)", MUT)
	pair("deref-copy")
	w("\t*p = %s(6)", MK)
	w("\temit(\"store-through-ptr\", %s)", S("a"))
	w("\tinc := func() { %s(&a, 7) }", MUT)
	w("\tget := func() %s { return a }", T)
	w("\tinc()")
	w("\tc := get()")
	w("\tinc()")
	w("\temit(\"closure\", %s+\"|\"+%s)", S("c"), S("get()"))
	w("}")
	w("{ // element pointers, subslices, append within and beyond capacity, 3-index slices")
	w("\tsl := make([]%s, 3, 6)", T)
	w("\tfor i := range sl {")
	w("\t\tsl[i] = %s(I(i))", MK)
	w("\t}")
	w("\tp := &sl[1]")
	w("\t%s(p, 1)", MUT)
	w("\tsub := sl[1:]")
	w("\tq, r := &sl[1], &sub[0]")
	w("\temit(\"elem-ptr\", %s+btoa(p == q)+btoa(p == r)+btoa(&sl[0] == &sl[1]))", S("sl[1]"))
	w("\tt := sl[:1]")
	w("\tt = append(t, %s(20))", MK)
	w("\temit(\"append-within\", %s+itoa(len(t))+itoa(cap(t)))", S("sl[1]"))
	w("\tu := append(sl, %s(21), %s(22), %s(23), %s(24))", MK, MK, MK, MK)
	w("\t%s(&u[0], 2)", MUT)
	w("\temit(\"append-beyond\", %s+\"|\"+%s+itoa(len(u))+btoa(cap(u) >= 7))", S("sl[0]"), S("u[0]"))
	w("\tv := sl[0:1:1]")
	w("\tv = append(v, %s(25))", MK)
	w("\temit(\"three-index\", %s+\"|\"+%s+itoa(cap(sl[1:2:3])))", S("sl[1]"), S("v[1]"))
	w("\tarr := [3]%s{}", T)
	w("\tas := arr[:]")
	w("\tas[0] = %s(30)", MK)
	w("\tap := &arr")
	w("\tap[1] = %s(31)", MK)
	w("\tas2 := ap[1:]")
	w("\t%s(&as2[0], 3)", MUT)
	w("\temit(\"slice-of-array\", %s+\"|\"+%s+btoa(&as[1] == &as2[0])+btoa(&arr[1] == &as2[0]))", S("arr[0]"), S("arr[1]"))
	w("\tcp := copy(sl, sl[1:])")
	w("\temit(\"copy-overlap\", itoa(cp)+%s+\"|\"+%s)", S("sl[0]"), S("sl[1]"))
	w("\tcopy(sl[1:], sl)")
	w("\temit(\"copy-overlap2\", %s+\"|\"+%s)", S("sl[1]"), S("sl[2]"))
	w("\tfor l := 0; l <= 3; l++ { // append below, at and above the capacity: sharing of the backing array")
	w("\t\tfor c := l; c <= 4; c++ {")
	w("\t\t\tfor k := 0; k <= c-l+1; k++ {")
	w("\t\t\t\tbase := make([]%s, 5)", T)
	w("\t\t\t\tfor i := range base {")
	w("\t\t\t\t\tbase[i] = %s(I(i))", MK)
	w("\t\t\t\t}")
	w("\t\t\t\ts := base[:l:c]")
	w("\t\t\t\tvar t []%s", T)
	w("\t\t\t\tswitch k {")
	w("\t\t\t\tcase 0:")
	w("\t\t\t\t\tt = append(s)")
	w("\t\t\t\tcase 1:")
	w("\t\t\t\t\tt = append(s, %s(50))", MK)
	w("\t\t\t\tcase 2:")
	w("\t\t\t\t\tt = append(s, %s(50), %s(51))", MK, MK)
	w("\t\t\t\tdefault:")
	w("\t\t\t\t\tvar add []%s", T)
	w("\t\t\t\t\tfor j := 0; j < k; j++ {")
	w("\t\t\t\t\t\tadd = append(add, %s(I(50+j)))", MK)
	w("\t\t\t\t\t}")
	w("\t\t\t\t\tt = append(s, add...)")
	w("\t\t\t\t}")
	w("\t\t\t\tr := itoa(l) + itoa(c) + itoa(k) + itoa(len(t))")
	w("\t\t\t\tif l+k <= c {")
	w("\t\t\t\t\tr += \"c\" + itoa(cap(t))")
	w("\t\t\t\t}")
	w("\t\t\t\tif len(t) > 0 {")
	w("\t\t\t\t\tr += btoa(&t[0] == &base[0])")
	w("\t\t\t\t\t%s(&t[len(t)-1], 7)", MUT)
	w("\t\t\t\t\t%s(&base[0], 8)", MUT)
	w("\t\t\t\t\tr += %s + \"|\" + %s + \"|\" + %s", S("t[0]"), S("base[len(t)-1]"), S("base[4]"))
	w("\t\t\t\t}")
	w("\t\t\t\temit(\"append-cap\", r)")
	w("\t\t\t}")
	w("\t\t}")
	w("\t}")
	w("\tsl = append(sl[:1], sl[2:]...)")
	w("\tsl = append(sl, sl...)")
	w("\temit(\"self-append\", itoa(len(sl))+%s)", S("sl[len(sl)-1]"))
	w("}")
	if t.Kind == progen.KStruct && len(t.Fields) > 0 {
		f := t.Fields[g.r.Intn(len(t.Fields))]
		w("{ // pointers to fields")
		w("\ta := %s(1)", MK)
		w("\tfp, fq := &a.%s, &a.%s", f.Name, f.Name)
		w("\t%s(fp, 1)", g.mutName(f.T))
		w("\tb := a")
		w("\t%s(fp, 2)", g.mutName(f.T))
		w("\temit(\"field-ptr\", %s+\" | \"+%s+btoa(fp == fq)+btoa(fp == &b.%s))", S("a"), S("b"), f.Name)
		w("\tpa := &a")
		w("\tfr := &pa.%s", f.Name)
		w("\temit(\"field-ptr2\", btoa(fr == fp))")
		w("\tstructs := []%s{a, a}", T)
		w("\tsp := &structs[1].%s", f.Name)
		w("\t%s(sp, 3)", g.mutName(f.T))
		w("\temit(\"field-of-elem-ptr\", %s+\"|\"+%s+btoa(sp == &structs[1].%s))", S("structs[0]"), S("structs[1]"), f.Name)
		w("}")
	}
	if t.Kind == progen.KArray && t.Len > 0 {
		w("{ // pointers to array elements")
		w("\ta := %s(1)", MK)
		w("\tep, eq := &a[%d], &a[%d]", t.Len-1, t.Len-1)
		w("\t%s(ep, 1)", g.mutName(t.Elem))
		w("\tb := a")
		w("\t%s(eq, 2)", g.mutName(t.Elem))
		w("\temit(\"arr-elem-ptr\", %s+\" | \"+%s+btoa(ep == eq)+btoa(ep == &b[%d]))", S("a"), S("b"), t.Len-1)
		w("}")
	}
	b.WriteString("}\n\n")
	return name
}

// Generate returns the files of one alias-probe program.
func Generate(r *rand.Rand, ntypes int) (map[string]string, int) {
	u := progen.NewUniverse(r)
	g := &gen{u: u, r: r}
	g.b.WriteString("package main\n\n")
	g.b.WriteString(u.Decls())
	u.EmitShow(&g.b)
	g.emitMkMut()
	var chosen []*progen.Type
	for _, t := range u.Types {
		if t.Kind == progen.KStruct || t.Kind == progen.KArray {
			chosen = append(chosen, t)
		}
	}
	r.Shuffle(len(chosen), func(i, j int) { chosen[i], chosen[j] = chosen[j], chosen[i] })
	if len(chosen) > ntypes {
		chosen = chosen[:ntypes]
	}
	extra := 0
	for _, t := range u.Types {
		if extra >= 2 {
			break
		}
		if t.Kind == progen.KSlice || t.Kind == progen.KMap || t.Kind == progen.KPtr || t.Kind == progen.KString {
			chosen = append(chosen, t)
			extra++
		}
	}
	var names []string
	for i, t := range chosen {
		names = append(names, g.probes(t, i))
	}
	g.b.WriteString("func main() {\n")
	for _, n := range names {
		fmt.Fprintf(&g.b, "\trun(%q, %s)\n", n, n)
	}
	g.b.WriteString("\tprintln(\"END \" + itoa(traceN))\n}\n")
	files := map[string]string{"main.go": g.b.String(), "helpers.go": progen.Helpers}
	return proglib.WithLib(files), len(names)
}
