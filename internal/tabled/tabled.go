// Package tabled runs table-driven workload programs (digest lines `D <name…> <fnv> <n>`, sample
// lines `S …`) through the reference-implementation monitor and localises digest mismatches.
package tabled

import (
	"fmt"
	"regexp"
	"strings"
	"time"

	"verif/internal/core"
	"verif/internal/proglib"
)

// Stats is what one table program contributed to the observation.
type Stats struct {
	Digests, Samples int
	Evals            int // sum of the evaluation counters printed on the digest lines
	Distinct         map[string]bool
	Ok               bool
}

// Run executes one table-driven program on both sides and records violations (localised to the
// first differing evaluation of every differing digest).
func Run(c *core.Ctx, name string, files map[string]string, sampleEvery int) Stats {
	st := Stats{Distinct: map[string]bool{}}
	files["main.go"] = AddVerbose(files["main.go"])
	files["zz_verbose.go"] = "package main\n\nvar verbose, verboseFn = \"\", \"\"\n"
	p := &core.Program{Name: name, Files: proglib.WithLib(files)}
	res := c.DiffProgram(p, core.DiffOpt{Node: core.NodeOpt{Timeout: 15 * time.Minute}, Quiet: true})
	if res.Verdict == "violated" {
		Localise(c, p, res)
	}
	if res.Verdict == "inconclusive" {
		return st
	}
	st.Ok = true
	for _, l := range res.Ref.Lines {
		if strings.HasPrefix(l, "D ") {
			st.Digests++
			fs := strings.Fields(l)
			if len(fs) >= 3 {
				st.Distinct[strings.Join(fs[1:len(fs)-1], " ")] = true
				var n int
				fmt.Sscan(fs[len(fs)-1], &n)
				st.Evals += n
			}
		} else if strings.HasPrefix(l, "S ") {
			st.Samples++
			if sampleEvery > 0 && st.Samples%sampleEvery == 1 {
				c.Sample(l)
			}
		}
	}
	return st
}

var sampleCond = regexp.MustCompile(`if n%(\d+) == 0 \{`)

// AddVerbose instruments every digest block: when the package variable `verbose` equals the
// block's D-line prefix, the running digest is printed after every evaluation, so that a
// digest mismatch can be localised to the first differing evaluation.
func AddVerbose(src string) string {
	const open = "\t{\n\t\tf := newFnv()"
	parts := strings.Split(src, open)
	for i := 1; i < len(parts); i++ {
		blk := parts[i]
		k := strings.Index(blk, "println(\"D ")
		if k < 0 {
			continue
		}
		e := strings.Index(blk[k:], " + f.sum()")
		if e < 0 {
			continue
		}
		nameExpr := blk[k+len("println(") : k+e]
		head := blk[:k]
		head = sampleCond.ReplaceAllString(head, "if n%$1 == 0 || verbose == "+strings.ReplaceAll(nameExpr, "$", "$$")+" {")
		head = strings.ReplaceAll(head, "n++\n", "n++\nif verbose == "+nameExpr+" { println(\"V \" + itoa(n) + \" \" + f.sum()) }\n")
		parts[i] = head + blk[k:]
	}
	return strings.Join(parts, open)
}

// Localise re-runs a program whose digest differed with the verbose switch set to the
// differing digest and reports the first differing evaluation as the witness.
func Localise(c *core.Ctx, p *core.Program, res core.DiffResult) {
	key := p.Name
	what := p.Name + ": " + res.Diff
	files := map[string]string{}
	for k, v := range p.Files {
		files["src/"+k] = v
	}
	// every differing digest line of the program is localised (up to 6), not only the first
	var dlines []string
	if len(res.JS) > 0 && len(res.JS[0].Lines) == len(res.Ref.Lines) {
		for i, l := range res.JS[0].Lines {
			if l != res.Ref.Lines[i] && strings.HasPrefix(l, "D ") && len(dlines) < 6 {
				dlines = append(dlines, l)
			}
		}
	}
	if len(dlines) == 0 {
		for _, l := range strings.Split(res.Diff, "\n") {
			l = strings.TrimSpace(l)
			if i := strings.Index(l, ": D "); i >= 0 {
				dlines = append(dlines, l[i+2:])
				break
			}
		}
	}
	reported := false
	for _, dline := range dlines {
		fs := strings.Fields(dline)
		if len(fs) < 4 {
			continue
		}
		prefix := strings.Join(fs[:len(fs)-2], " ") + " "
		q := &core.Program{Name: p.Name + "/verbose", Files: map[string]string{}}
		for k, v := range p.Files {
			q.Files[k] = v
		}
		q.Files["zz_verbose.go"] = fmt.Sprintf("package main\n\nvar verbose, verboseFn = %q, %q\n", prefix, fs[len(fs)-3])
		r2 := c.DiffProgram(q, core.DiffOpt{Node: core.NodeOpt{Timeout: 10 * time.Minute}, Quiet: true})
		f2 := map[string]string{}
		for k, v := range files {
			f2[k] = v
		}
		f2["verbose-diff.txt"] = r2.Diff
		f2["src/zz_verbose.go"] = q.Files["zz_verbose.go"]
		wit := ""
		if len(r2.JS) > 0 {
			wit = tailAround(r2.JS[0].Lines, r2.Ref.Lines)
			f2["js.verbose.out"] = wit
		}
		f2["diff.txt"] = res.Diff
		c.Violate(p.Name+" "+strings.TrimSpace(prefix), fmt.Sprintf("%s: digest %q differs from the reference; around the first differing evaluation:\n%s", p.Name, strings.TrimSpace(prefix), wit), f2)
		reported = true
	}
	if reported {
		return
	}
	files["diff.txt"] = res.Diff
	c.Violate(key, what, files)
}

func tailAround(js, ref []string) string {
	n := len(js)
	if len(ref) < n {
		n = len(ref)
	}
	i := 0
	for i < n && js[i] == ref[i] {
		i++
	}
	lo := i - 3
	if lo < 0 {
		lo = 0
	}
	var b strings.Builder
	for k := lo; k < i+4; k++ {
		if k < len(js) {
			b.WriteString("js : " + js[k] + "\n")
		}
		if k < len(ref) {
			b.WriteString("ref: " + ref[k] + "\n")
		}
	}
	return b.String()
}
