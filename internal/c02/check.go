// Package c02 – suspending and resuming a goroutine is invisible to the program.
//
// Every generated program contains yield carriers y(k) / yv(k, e) at statement and
// sub-expression positions in every function (plus a static file with one carrier per call
// kind). A run-time mask decides which carriers really suspend the goroutine. Executions
// compared: direct form (carriers cannot block → non-resumable code), resumable form with the
// empty mask, every-carrier mask, single-carrier masks and random subsets, and the reference
// toolchain. All traces must be identical.
package c02

import (
	"fmt"
	"math/rand"
	"os"
	"strings"
	"sync"

	"verif/internal/core"
	"verif/internal/progen"
)

const maskLen = 1000

func maskString(bits map[int]bool) string {
	b := make([]byte, maskLen)
	for i := range b {
		b[i] = '0'
		if bits[i] {
			b[i] = '1'
		}
	}
	return string(b)
}

// Run is the C02 check.
func Run(c *core.Ctx) int {
	n := c.N(24, 150)
	nmasks := c.N(12, 24)
	var mu sync.Mutex
	programs, execs, lines, carriers, suspensionsSeen := 0, 0, 0, 0, 0
	distinct := map[string]bool{}
	c.Parallel(n, func(i int) {
		r := c.Rand(fmt.Sprint("prog", i))
		var p *progen.Program
		for try := 0; ; try++ {
			p = progen.Generate(r, progen.Options{Cases: 6 + r.Intn(6), StmtsPer: 5 + r.Intn(8), Yield: true, BoxStruct: true, ExtraMain: []string{"kinds"}})
			if p.Yields < 890 {
				break
			}
		}
		files := p.Files
		files["yield_blocking.go"] = yieldBlocking
		files["yield_direct.go"] = yieldDirect
		files["mask_js.go"] = maskJS
		files["mask_native.go"] = maskNative
		files["kinds.go"] = kinds
		files["stub.s"] = "// allows the body-less go:linkname declaration in the reference build\n"
		files["sub/sub.go"] = subPkg
		// main must print how many suspensions really happened (observability of the workload)
		files["main.go"] = strings.Replace(files["main.go"], "\tprintln(\"END \" + itoa(traceN))", "\tprintln(\"SUSP \" + itoa(suspensions))\n\tprintln(\"END \" + itoa(traceN))", 1)
		name := fmt.Sprintf("c02/prog-%d-%d", c.Seed, i)
		prog := &core.Program{Name: name, Files: files}
		dir := c.WriteProgram(prog)
		defer os.RemoveAll(dir)
		bundle := func(extra map[string]string) map[string]string {
			m := map[string]string{}
			for k, v := range files {
				m["src/"+k] = v
			}
			for k, v := range extra {
				m[k] = v
			}
			return m
		}
		// reference (mask-independent by construction; run with empty and full mask)
		bin, br := c.BuildNative(dir, core.NativeOpt{})
		if br.Exit != 0 {
			c.Inconclusive("reference-rejects-program")
			if os.Getenv("VERIF_DEBUG") != "" {
				fmt.Fprintln(os.Stderr, "reference rejects", name, br.Stderr)
			}
			return
		}
		full := map[int]bool{}
		for k := 0; k < maskLen; k++ {
			full[k] = true
		}
		ref := core.NormNative(c.RunNative(bin, []string{"VP_MASK=" + maskString(nil)}, 0))
		refFull := core.NormNative(c.RunNative(bin, []string{"VP_MASK=" + maskString(full)}, 0))
		if ref.Outcome == "timeout" || refFull.Outcome == "timeout" {
			c.Inconclusive("reference-timeout")
			return
		}
		strip := func(t core.Trace) core.Trace { // the SUSP line is mask dependent by design
			var out []string
			for _, l := range t.Lines {
				if !strings.HasPrefix(l, "SUSP ") {
					out = append(out, l)
				}
			}
			return core.Trace{Lines: out, Outcome: t.Outcome}
		}
		if d := core.DiffTrace(strip(ref), strip(refFull), "ref-empty", "ref-full"); d != "" {
			// the program itself is mask dependent: generator problem, not a finding
			c.Inconclusive("reference-mask-dependent")
			if os.Getenv("VERIF_DEBUG") != "" {
				fmt.Fprintln(os.Stderr, "mask dependent reference", name, d)
			}
			return
		}
		refS := strip(ref)
		// observed: direct form and resumable form
		direct := c.CompileJS(dir, core.CompileOpt{Out: "direct.js", Tags: []string{"direct"}})
		resum := c.CompileJS(dir, core.CompileOpt{Out: "resumable.js"})
		for _, cr := range []core.CompileRes{direct, resum} {
			if !cr.OK {
				c.Violate(name, "compiler rejected a program the reference accepts:\n"+cr.Output, bundle(map[string]string{"compile.out": cr.Output}))
				return
			}
		}
		mr := rand.New(rand.NewSource(r.Int63()))
		type mk struct {
			name string
			bits map[int]bool
		}
		masks := []mk{{"empty", nil}, {"full", full}}
		// single carriers: all kinds-file carriers rotate through; generated ones sampled
		for k := 0; k < nmasks/3; k++ {
			b := 901 + mr.Intn(80)
			masks = append(masks, mk{fmt.Sprintf("single-%d", b), map[int]bool{b: true}})
		}
		for k := 0; k < nmasks/3 && p.Yields > 0; k++ {
			b := 1 + mr.Intn(p.Yields)
			masks = append(masks, mk{fmt.Sprintf("single-%d", b), map[int]bool{b: true}})
		}
		for k := 0; k < nmasks/3; k++ {
			bits := map[int]bool{}
			dens := 1 + mr.Intn(9)
			for b := 0; b < maskLen; b++ {
				if mr.Intn(10) < dens {
					bits[b] = true
				}
			}
			masks = append(masks, mk{fmt.Sprintf("random-%d", k), bits})
		}
		ok := true
		localExecs, localSusp := 0, 0
		check := func(js, form string, m mk) bool {
			run := c.RunNode(js, core.NodeOpt{Env: []string{"VP_MASK=" + maskString(m.bits)}})
			t := core.NormJS(run)
			if t.Outcome == "timeout" {
				c.Inconclusive("node-timeout")
				return true
			}
			localExecs++
			for _, l := range t.Lines {
				if strings.HasPrefix(l, "SUSP ") {
					var s int
					fmt.Sscan(l[5:], &s)
					localSusp += s
				}
			}
			if d := core.DiffTrace(strip(t), refS, form+"/"+m.name, "go"); d != "" {
				c.Violate(name+"/"+form+"/"+m.name, fmt.Sprintf("%s %s form, mask %s: %s", name, form, m.name, d),
					bundle(map[string]string{"js.out": t.String(), "ref.out": refS.String(), "mask.txt": maskString(m.bits), "diff.txt": d, "js.stderr": run.Stderr,
						"cmd.sh": "VP_MASK=$(cat mask.txt) node " + form + ".js   # built from src/ with gopherjs build" + map[string]string{"direct": " --tags direct", "resumable": ""}[form] + "\n"}))
				return false
			}
			return true
		}
		ok = check(direct.JS, "direct", masks[0]) && ok
		ok = check(direct.JS, "direct", masks[1]) && ok
		for _, m := range masks {
			if !check(resum.JS, "resumable", m) {
				ok = false
				break // one witness per program is enough
			}
		}
		mu.Lock()
		defer mu.Unlock()
		programs++
		execs += localExecs
		lines += len(refS.Lines) * localExecs
		carriers += p.Yields + 63
		suspensionsSeen += localSusp
		distinct[fmt.Sprint(len(refS.Lines), p.Yields, refS.Outcome)] = true
		if programs <= 2 {
			c.Sample(map[string]any{"program": name, "carriers": p.Yields + 63, "masks": len(masks), "trace_lines": len(refS.Lines), "constructs": p.Stats})
		}
		_ = ok
	})
	c.Count("programs", programs)
	c.Count("executions_compared", execs)
	c.Count("trace_lines_compared", lines)
	c.Count("yield_carriers_generated", carriers)
	c.Count("suspensions_executed", suspensionsSeen)
	floor := n / 3
	if suspensionsSeen == 0 {
		floor = 1 << 30 // nothing was ever suspended: the monitor observed nothing
	}
	return c.Finish("exploration", execs, len(distinct), floor,
		"per generated program (progen with yield carriers at statement and sub-expression positions of every function, plus a static file with one carrier per call kind: interface/value/pointer methods, method values and expressions, function values in fields/slices/maps, generic methods and functions, another package in both directions, go:linkname, deferred calls during return/panic/re-panic, package initialisers, argument lists, && ||, index and composite-literal operands, loop headers, switch tags/cases, select, range over channel): executions of the direct form and of the resumable form under the empty, full, single-carrier and random masks, each compared line by line with the reference toolchain (which is run with the empty and the full mask and must be mask independent). distinct_nontrivial = distinct (trace length, carriers, outcome) program classes",
		nil, []string{"the hand-off goroutine used to force a suspension touches no program state", "reference toolchain go1.23.5 defines expected behaviour"})
}
