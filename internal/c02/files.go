package c02

// Source files added to every C02 program.

// yieldBlocking: the carriers are potentially blocking; whether a carrier really suspends the
// goroutine is decided at run time by the mask. The hand-off goroutine touches nothing, so no
// other goroutine does observable work while the caller is suspended.
const yieldBlocking = `//go:build !direct

package main

var suspensions int

func y(k int) {
	if k < len(mask) && mask[k] == '1' {
		suspensions++
		c := make(chan struct{})
		go func() { c <- struct{}{} }()
		<-c
	}
}

func yv[T any](k int, v T) T {
	y(k)
	return v
}
`

// yieldDirect: the same programs with carriers that cannot block: the compiler emits the
// direct (non-resumable) form of every function.
const yieldDirect = `//go:build direct

package main

var suspensions int

func y(k int) {
	if k < len(mask) && mask[k] == '1' {
		suspensions++
	}
}

func yv[T any](k int, v T) T {
	y(k)
	return v
}
`

const maskJS = `//go:build gopherjs

package main

import "github.com/gopherjs/gopherjs/js"

var mask = func() string {
	v := js.Global.Get("process").Get("env").Get("VP_MASK")
	if v == js.Undefined {
		return ""
	}
	return v.String()
}()
`

const maskNative = `//go:build !gopherjs

package main

import "os"

var mask = os.Getenv("VP_MASK")
`

// kinds exercises every kind of call that can lead to a suspension: each carrier site has its
// own mask bit (900+). The file is static; its traces must not depend on the mask.
const kinds = `package main

import (
	_ "unsafe"

	ksub "prog/sub"
)

type kIface interface {
	Do(a I) I
	do2(s string) string
}

type kVal struct{ n I }

func (v kVal) Do(a I) I {
	y(901)
	emit("kval", itoa(int(v.n+a)))
	return yv(902, v.n+a)
}

func (v kVal) do2(s string) string { return yv(903, s+"v") }

type kPtr struct{ n I }

func (p *kPtr) Do(a I) I {
	p.n += yv(904, a)
	y(905)
	emit("kptr", itoa(int(p.n)))
	return p.n
}

func (p *kPtr) do2(s string) string { y(906); return s + "p" }

type kGen[T any] struct{ v T }

func (g *kGen[T]) Set(v T) T {
	old := g.v
	y(907)
	g.v = yv(908, v)
	return old
}

func kGenFn[T any, U any](a T, f func(T) U) U {
	y(909)
	return f(yv(910, a))
}

type kHolder struct {
	f  func(I) I
	fs []func(I) I
	m  map[string]func(I) I
}

//go:linkname kLinked prog/sub.hidden
func kLinked(a int) int

var kInitVar = yv(911, I(41)) + 1

var kInitOrder = []string{}

func init() {
	ksub.Yield = y
	y(912)
	kInitOrder = append(kInitOrder, "init1")
	emit("kinit", itoa(int(kInitVar)))
}

func kDeferred(tag string, a I) {
	y(913)
	emit("kdef", tag+itoa(int(a)))
}

func kNamed() (res I, s string) {
	defer func() {
		y(914)
		res = yv(915, res*2)
		s += "d"
	}()
	defer kDeferred("n", yv(916, I(7)))
	res = yv(917, I(21))
	return res, yv(918, "r")
}

func kPanicky() (res string) {
	defer func() {
		y(919)
		if e := recover(); e != nil {
			y(920)
			res = "recovered:" + classOf(e) + yv(921, "!")
		}
	}()
	defer func() {
		y(922)
		emit("kpan", "second-defer")
	}()
	var arr []I
	y(923)
	_ = arr[yv(924, 3)]
	return "not-reached"
}

func kRepanic() (res string) {
	defer func() {
		e := recover()
		y(925)
		res = "outer:" + classOf(e)
	}()
	defer func() {
		if e := recover(); e != nil {
			y(926)
			panic("re-" + classOf(e))
		}
	}()
	y(927)
	panic("first")
}

func kinds() {
	var ifs []kIface
	ifs = append(ifs, kVal{3}, &kPtr{4}, kVal{yv(930, I(5))})
	for i, v := range ifs {
		emit("kif", itoa(i)+":"+itoa(int(v.Do(yv(931, I(i)))))+v.do2("s"))
	}
	// method values and method expressions
	pv := &kPtr{10}
	mv := pv.Do
	emit("kmv", itoa(int(mv(1)))+itoa(int(mv(yv(932, I(2))))))
	me := (*kPtr).Do
	emit("kme", itoa(int(me(pv, 3))))
	ve := kVal.Do
	emit("kve", itoa(int(ve(kVal{1}, yv(933, I(2))))))
	iv := kIface.Do
	emit("kie", itoa(int(iv(pv, 1))))
	// function values in fields, slices and maps
	h := kHolder{f: func(a I) I { y(934); return a + 1 }}
	h.fs = append(h.fs, h.f, func(a I) I { return yv(935, a*2) })
	h.m = map[string]func(I) I{"k": h.fs[1]}
	emit("kfv", itoa(int(h.f(1)))+itoa(int(h.fs[1](2)))+itoa(int(h.m["k"](yv(936, I(3))))))
	// generic instances
	g := &kGen[string]{"a"}
	g1 := g.Set("b")
	g2 := g.Set(yv(937, "c"))
	emit("kg", g1+g2+g.v)
	gi := &kGen[[2]I]{}
	gi.Set([2]I{1, 2})
	emit("kg2", itoa(int(gi.v[1])))
	emit("kg3", kGenFn(I(4), func(a I) string { y(938); return itoa(int(a)) }))
	// another package, in both directions, and a linknamed function
	emit("ksub", itoa(ksub.Twice(func(a int) int { y(939); return a + 1 }, yv(940, 5))))
	emit("klink", itoa(kLinked(yv(941, 6))))
	// deferred calls during return and during panic
	r, s := kNamed()
	emit("knamed", itoa(int(r))+s)
	emit("kpanicky", kPanicky())
	emit("krepanic", kRepanic())
	// argument lists, && ||, index expressions, composite literals, loop header positions
	a := []I{yv(942, I(1)), yv(943, I(2)), yv(944, I(3))}
	if yv(945, a[0]) == 1 && yv(946, a[1]) == 2 || yv(947, a[2]) == 0 {
		emit("kcond", "t")
	}
	for i := yv(948, 0); i < yv(949, len(a)); i += yv(950, 1) {
		a[yv(951, i)] += yv(952, a[i]) * 10
	}
	emit("kloop", itoa(int(a[0]))+itoa(int(a[1]))+itoa(int(a[2])))
	st := struct {
		x I
		y [2]I
		z map[string]I
	}{yv(953, I(1)), [2]I{yv(954, I(2)), 3}, map[string]I{yv(955, "k"): yv(956, I(4))}}
	emit("klit", itoa(int(st.x+st.y[0]+st.z["k"])))
	switch yv(957, a[0]) {
	case yv(958, I(11)):
		emit("ksw", "11")
		fallthrough
	case 99:
		y(959)
		emit("ksw", "ft")
	default:
		emit("ksw", "def")
	}
	ch := make(chan I, 2)
	ch <- yv(960, I(5))
	ch <- 6
	select {
	case v := <-ch:
		emit("ksel", itoa(int(yv(961, v))))
	}
	close(ch)
	for v := range ch {
		y(962)
		emit("krange", itoa(int(v)))
	}
	emit("kinitorder", itoa(len(kInitOrder)))
	// operands of one call: several suspending operands with order-sensitive operands between
	// and around them, in plain, method, deferred and go calls
	emit("kargs", kArgs(kTr("a"), yv(964, kTr("b")), kTr("c"), yv(965, kTr("d")), kTr("e")))
	emit("kargs2", kVal{1}.args(kTr("a"), kTr("b")+yv(966, "1"), kTr("c"), kTr("d"), yv(967, kTr("e")), kTr("f")))
	func() {
		defer kArgsEmit(kTr("da"), yv(968, kTr("db")), kTr("dc"), yv(969, kTr("dd")), kTr("de"))
		emit("kargs3", "body")
	}()
	done := make(chan bool)
	go func(a, b, c, d string) {
		emit("kargs4", a+b+c+d)
		done <- true
	}(kTr("ga"), yv(970, kTr("gb")), kTr("gc"), yv(971, kTr("gd")))
	<-done
	emit("kargs5", kArgs(yv(972, kTr("a")), kTr("b"), kTr("c"), yv(973, kTr("d")), yv(974, kTr("e"))))
	ds, dn, dv := kDeferMut2()
	emit("kdefermut", itoa(int(kDeferMut()))+ds+itoa(int(dn))+itoa(int(dv.n)))
	kfs := []func(...string) string{kArgs}
	emit("kargs6", kfs[yv(975, 0)](kTr("a"), yv(976, kTr("b")), kTr("c"), yv(977, kTr("d"))))
}

// results are evaluated once, before the deferred functions run (and possibly suspend)
func kDeferMut() I {
	x := I(1)
	defer func() {
		y(978)
		x = 100
		y(979)
	}()
	return x + 1
}

func kDeferMut2() (string, I, kVal) {
	s, n, v := "a", I(5), kVal{3}
	defer func() {
		s = "zz"
		n = yv(980, I(9))
		v.n = 50
	}()
	if n > 0 {
		return s + "b", n, v
	}
	return s, n + 1, v
}

func kTr(s string) string {
	emit("ktr", s)
	return s
}

func kArgs(xs ...string) string {
	r := ""
	for _, x := range xs {
		r += x
	}
	return r
}

func kArgsEmit(xs ...string) { emit("kargsd", kArgs(xs...)) }

func (v kVal) args(xs ...string) string { return kArgs(xs...) + itoa(int(v.n)) }
`

const subPkg = `package sub

import _ "unsafe"

// Twice calls back into the importing package (which may suspend there).
func Twice(f func(int) int, a int) int {
	return f(f(a)) + helper(a)
}

func helper(a int) int { return a * 2 }

// Yield is set by the importing package: a call through it may suspend the goroutine.
var Yield = func(int) {}

func hidden(a int) int {
	Yield(963)
	return a*a + 1
}
`
