// Package c01 – compiled programs behave like the reference Go toolchain.
package c01

import (
	"fmt"
	"sync"

	"verif/internal/core"
	"verif/internal/progen"
)

// Run is the C01 check: reference-implementation monitor over generated programs.
func Run(c *core.Ctx) int {
	n := c.N(48, 600)
	var mu sync.Mutex
	stats := map[string]int{}
	programs, lines, cases := 0, 0, 0
	distinct := map[string]bool{}
	c.Parallel(n, func(i int) {
		r := c.Rand(fmt.Sprint("prog", i))
		p := progen.Generate(r, progen.Options{Cases: 10 + r.Intn(10), StmtsPer: 6 + r.Intn(10), BoxStruct: true})
		prog := &core.Program{Name: fmt.Sprintf("c01/prog-%d-%d", c.Seed, i), Files: p.Files}
		res := c.DiffProgram(prog, core.DiffOpt{SecondRef: !c.Quick() && i%10 == 0})
		mu.Lock()
		defer mu.Unlock()
		if res.Verdict == "inconclusive" {
			return
		}
		programs++
		lines += res.Lines
		for k, v := range p.Stats {
			stats[k] += v
		}
		for _, l := range res.Ref.Lines {
			if len(l) > 2 && l[0] == 'C' {
				cases++
			}
		}
		if programs <= 2 && len(res.Ref.Lines) > 3 {
			c.Sample(map[string]any{"program": prog.Name, "first_trace_lines": res.Ref.Lines[:4], "outcome": res.Ref.Outcome})
		}
		distinct[fmt.Sprint(len(res.Ref.Lines), res.Ref.Outcome, p.Stats["if"], p.Stats["for"], p.Stats["assign"])] = true
	})
	c.Count("programs", programs)
	c.Count("trace_lines_compared", lines)
	c.Count("cases_executed", cases)
	return c.Finish("exploration", programs, len(distinct), n/3,
		"seeded typed program generator (progen): per-program type universe (scalars, named types with methods, structs with embedding, arrays, slices, maps, pointers), statements of every translator form (define/assign/op-assign/inc-dec/swap, if/else-if with init, tag/tagless switch with fallthrough, type switch, for ×4 with labelled break/continue, range ×4, goto, closures incl. per-iteration capture, defer, pointers, append/copy/delete, method values/expressions, tuple forwarding, variadics), JS-reserved and unicode identifiers, shadowing chains; each program is compiled by the observed compiler, `node --check`ed, run, and its trace compared line by line with the reference toolchain. distinct_nontrivial = distinct (trace length, outcome, statement mix) classes among programs that ran on both sides",
		map[string]any{"generated_construct_counts": stats},
		[]string{"reference toolchain go1.23.5 (go.mod go 1.20) defines expected behaviour; second reference go1.26.8 in thorough mode", "programs avoid by construction: int wider than 32 bits, map iteration order, unspecified evaluation order, out-of-range float→int conversions"})
}
