package c08

import (
	"embed"
	"fmt"
	"sort"
	"strings"
	"sync"

	"verif/internal/core"
	"verif/internal/proglib"
)

//go:embed static/*.go.txt
var staticFS embed.FS

// Run is the C08 check.
func Run(c *core.Ctx) int {
	n := c.N(24, 400)
	var mu sync.Mutex
	programs, lines := 0, 0
	distinct := map[string]bool{}
	type job struct {
		name  string
		files map[string]string
	}
	var jobs []job
	for i := 0; i < n; i++ {
		r := c.Rand(fmt.Sprint("prog", i))
		jobs = append(jobs, job{fmt.Sprintf("c08/prog-%d-%d", c.Seed, i), Generate(r, 6+r.Intn(8))})
	}
	un := Uncaught()
	var names []string
	for k := range un {
		names = append(names, k)
	}
	sort.Strings(names)
	for _, k := range names {
		jobs = append(jobs, job{"c08/" + k, un[k]})
	}
	// fixed programs: a sweep over (which deferred call of a 4-deep call chain panics, which one
	// recovers, which of them suspend before/after), the forms in which recover() is or is not
	// "called directly by a deferred function", and Goexit through nested deferred calls
	for _, st := range []string{"defer_yield_sweep", "recover_forms", "goexit_nested", "deep_and_partial", "operand_order"} {
		src, err := staticFS.ReadFile("static/" + st + ".go.txt")
		if err != nil {
			panic(err)
		}
		jobs = append(jobs, job{"c08/static-" + st, proglib.WithLib(map[string]string{"main.go": string(src)})})
	}
	c.Parallel(len(jobs), func(i int) {
		prog := &core.Program{Name: jobs[i].name, Files: jobs[i].files}
		res := c.DiffProgram(prog, core.DiffOpt{})
		mu.Lock()
		defer mu.Unlock()
		if res.Verdict == "inconclusive" {
			return
		}
		programs++
		lines += res.Lines
		for _, l := range res.Ref.Lines {
			fs := strings.SplitN(l, " ", 4)
			if len(fs) == 4 && fs[0] == "T" {
				distinct[fs[2]+" "+fs[3]] = true
			}
		}
		distinct["outcome "+res.Ref.Outcome] = true
		if programs <= 2 && len(res.Ref.Lines) > 6 {
			c.Sample(map[string]any{"program": prog.Name, "trace_sample": res.Ref.Lines[len(res.Ref.Lines)/2 : len(res.Ref.Lines)/2+5]})
		}
	})
	c.Count("programs", programs)
	c.Count("trace_lines_compared", lines)
	return c.Finish("exploration", lines, len(distinct), 300,
		"each program runs (a) the operation table: every run-time-error operation of the statement (index/slice bounds on slices, arrays, array pointers, strings incl. 3-index; nil map write/read/delete; nil pointer field/method/deref/array; nil func; ÷0 and %0 for every integer type; failed assertions vs comma-ok vs type switch; == on interfaces holding uncomparable values also nested; make with negative, len>cap and ≥2^62 sizes; short slice→array conversions; close nil/closed, send on closed also in select) with operands on both sides of the trigger, inside expressions with traced side effects before and after, recording the recovered value's class and whether it implements runtime.Error/error; (b) fixed Goexit / goroutine-panic / nested-panic / defer-loop / named-result cases; (c) 6-14 random defer/recover call trees (depth ≤6, 0-3 defers per frame: argument evaluation time, recover, recover via helper, re-panic, replacing panic, named result modification, method values, builtins delete/close as deferred calls, guarded calls); plus programs that end by uncaught panic (string, error, runtime, re-panic chain, in a goroutine), deadlock and nil function call. Traces and outcomes compared with the reference toolchain. distinct_nontrivial = distinct (tag, observation) trace entries",
		nil, []string{"reference toolchain go1.23.5; panic messages compared by class (operands such as index values and type spellings stripped)"})
}
