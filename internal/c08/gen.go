// Package c08 – panics, deferred calls, recover and run-time errors follow the spec.
package c08

import (
	"fmt"
	"math/rand"
	"strings"

	"verif/internal/progen"
	"verif/internal/proglib"
)

// opsSrc: every operation the spec says must panic, as a function whose operands are
// parameters, positioned inside a larger expression with traced side effects before (pre) and
// after (post) it, so that the point in the evaluation order at which the panic is raised is
// observable. try() reports the recovered value's class and whether it implements
// runtime.Error / error.
const opsSrc = `package main

import "runtime"

func pre(s string) I  { emit("pre", s); return 0 }
func post(s string) I { emit("post", s); return 0 }

func try(name string, f func() string) {
	res := func() (res string) {
		defer func() {
			if e := recover(); e != nil {
				_, isRE := e.(runtime.Error)
				_, isErr := e.(error)
				res = "PANIC " + classOf(e) + " runtime.Error=" + btoa(isRE) + " error=" + btoa(isErr)
			}
		}()
		return "ok " + f()
	}()
	emit("op", name+" -> "+res)
}

type pt struct {
	a I
	b [2]I
}

func (p pt) val() I   { return p.a }
func (p *pt) ptr() I  { return 7 }
func (p *pt) ptrf() I { return p.a }

type iface interface{ val() I }
type other interface{ nope() }
type named I

func opsTable() {
	sl := []I{10, 20, 30}
	arr := [3]I{1, 2, 3}
	str := "héllo"
	var nilsl []I
	for _, i := range []int{-1, 0, 2, 3, 100} {
		i := i
		try("index-slice "+itoa(i), func() string { pre("a"); v := sl[i]; post("b"); return itoa(int(v)) })
		try("index-array "+itoa(i), func() string { pre("a"); v := arr[i]; post("b"); return itoa(int(v)) })
		try("index-arrayptr "+itoa(i), func() string { p := &arr; pre("a"); v := p[i]; post("b"); return itoa(int(v)) })
		try("index-string "+itoa(i), func() string { pre("a"); v := str[i]; post("b"); return itoa(int(v)) })
		try("index-nilslice "+itoa(i), func() string { return itoa(int(nilsl[i])) })
		try("assign-slice "+itoa(i), func() string { s2 := []I{1, 2, 3}; s2[i] = pre("rhs") + 5; return itoa(int(s2[0] + s2[2])) })
		try("assign-array "+itoa(i), func() string { var a2 [3]I; a2[i] = 5; return itoa(int(a2[0] + a2[2])) })
		for _, j := range []int{-1, 0, 2, 3, 4, 100} {
			j := j
			try("slice "+itoa(i)+":"+itoa(j), func() string { return itoa(len(sl[i:j])) })
			try("slice-str "+itoa(i)+":"+itoa(j), func() string { return q(str[i:j]) })
			try("slice-arr "+itoa(i)+":"+itoa(j), func() string { return itoa(len(arr[i:j])) })
			try("slice3 "+itoa(i)+":"+itoa(j), func() string { s3 := sl[0:2:3]; return itoa(cap(s3[i:j:3])) + itoa(cap(sl[i:2:j])) })
			try("slice-cap "+itoa(i)+":"+itoa(j), func() string { s4 := sl[:1]; return itoa(len(s4[i:j])) })
		}
		try("slice-lo "+itoa(i), func() string { return itoa(len(sl[i:])) + q(str[i:]) })
		try("slice-hi "+itoa(i), func() string { return itoa(len(sl[:i])) + q(str[:i]) })
		try("slice-nil "+itoa(i), func() string { return itoa(len(nilsl[:i])) })
	}
	var nm map[string]I
	try("nilmap-read", func() string { return itoa(int(nm["k"])) + itoa(len(nm)) })
	try("nilmap-write", func() string { nm["k"] = pre("rhs"); return "written" })
	try("nilmap-delete", func() string { delete(nm, "k"); return "deleted" })
	try("nilmap-inc", func() string { nm["k"]++; return "inc" })
	var np *pt
	try("nilptr-field", func() string { pre("a"); v := np.a; post("b"); return itoa(int(v)) })
	try("nilptr-fieldwrite", func() string { np.a = pre("rhs"); return "w" })
	try("nilptr-arrayfield", func() string { return itoa(int(np.b[1])) })
	try("nilptr-deref", func() string { v := *np; return itoa(int(v.a)) })
	try("nilptr-valmethod", func() string { return itoa(int(np.val())) })
	try("nilptr-ptrmethod", func() string { return itoa(int(np.ptr())) })
	try("nilptr-ptrmethod-field", func() string { return itoa(int(np.ptrf())) })
	try("nilptr-methodvalue", func() string { f := np.val; return itoa(int(f())) })
	try("nilptr-ptrmethodvalue", func() string { f := np.ptr; return itoa(int(f())) })
	var nintp *I
	try("nilintptr-deref", func() string { return itoa(int(*nintp)) })
	try("nilintptr-store", func() string { *nintp = 1; return "s" })
	var narr *[3]I
	try("nilarrptr-index", func() string { return itoa(int(narr[1])) })
	try("nilarrptr-len", func() string { return itoa(len(narr)) })
	try("nilarrptr-range", func() string { n := 0; for i := range narr { n += i }; return itoa(n) })
	try("nilarrptr-rangeval", func() string { n := I(0); for _, v := range narr { n += v }; return itoa(int(n)) })
	try("nilarrptr-slice", func() string { return itoa(len(narr[:])) })
	var nf func(I) I
	try("nilfunc-call", func() string { return itoa(int(nf(pre("arg")))) })
	var nif iface
	try("niliface-method", func() string { return itoa(int(nif.val())) })
	try("niliface-assert", func() string { return itoa(int(nif.(pt).a)) })
	try("niliface-commaok", func() string { _, ok := nif.(pt); return btoa(ok) })
	var e interface{} = "str"
	try("assert-fail-concrete", func() string { pre("a"); v := e.(I); post("b"); return itoa(int(v)) })
	try("assert-ok", func() string { return e.(string) })
	try("assert-commaok", func() string { v, ok := e.(I); return itoa(int(v)) + btoa(ok) })
	try("assert-fail-iface", func() string { return itoa(int(e.(iface).val())) })
	try("assert-iface-to-iface", func() string { var x iface = pt{a: 3}; _ = x.(other); return "no" })
	try("assert-named-vs-underlying", func() string { var x interface{} = named(1); return itoa(int(x.(I))) })
	try("assert-switch", func() string {
		switch v := e.(type) {
		case I:
			return "I" + itoa(int(v))
		case string:
			return "s" + v
		}
		return "none"
	})
	// comparing uncomparable dynamic types
	cmp := func(a, b interface{}) string { return btoa(pre("l") == 0 && a == b) }
	try("cmp-slices", func() string { return cmp([]I{1}, []I{1}) })
	try("cmp-maps", func() string { return cmp(map[I]I{}, map[I]I{}) })
	try("cmp-funcs", func() string { return cmp(func() {}, func() {}) })
	try("cmp-slice-vs-int", func() string { return cmp([]I{1}, I(1)) })
	try("cmp-struct-with-slice", func() string { return cmp(struct{ s []I }{}, struct{ s []I }{}) })
	try("cmp-array-of-funcs", func() string { return cmp([1]func(){}, [1]func(){}) })
	try("cmp-struct-iface-field", func() string {
		type T struct{ x interface{} }
		return btoa(T{[]I{1}} == T{[]I{1}})
	})
	try("cmp-struct-iface-field-ok", func() string {
		type T struct{ x interface{} }
		return btoa(T{I(1)} == T{I(1)}) + btoa(T{I(1)} == T{"1"})
	})
	// the same reference on both sides must panic too (no identity fast path)
	try("cmp-same-slice", func() string { var a interface{} = []I{1}; c := a; return btoa(a == c) })
	try("cmp-same-map", func() string { var a interface{} = map[I]I{}; c := a; return btoa(a != c) })
	try("cmp-same-func", func() string { f := func() {}; var a, c interface{} = f, f; return btoa(a == c) })
	try("cmp-self", func() string { var a interface{} = []I{1}; return btoa(a == a) })
	try("cmp-struct-same-slice", func() string {
		type T struct{ x interface{} }
		s := []I{1}
		t := T{s}
		u := t
		return btoa(t == u)
	})
	try("cmp-array-any-same", func() string { s := []I{1}; a := [2]interface{}{s, 1}; b := a; return btoa(a == b) })
	try("cmp-nan-iface", func() string { z := 0.0; var a interface{} = z / z; c := a; return btoa(a == c) + btoa(a != c) })
	try("cmp-iface-nil", func() string { var a interface{} = []I{1}; return btoa(a == nil) + btoa(a != nil) })
	try("cmp-ptrs-to-slices", func() string { a, b := &[]I{1}, &[]I{1}; return cmp(a, b) + cmp(a, a) })
	// make with bad sizes
	for _, n := range []int64{-1, 0, 5, 1 << 62, -1 << 62} {
		n := n
		try("make-slice-len "+i64s(n), func() string { return itoa(len(make([]I, n))) })
		try("make-slice-cap "+i64s(n), func() string { return itoa(cap(make([]byte, 0, n))) })
		try("make-chan "+i64s(n), func() string { return itoa(cap(make(chan I, n))) })
	}
	for _, n := range []uint64{0, 3, 1 << 63, 1<<64 - 1} {
		n := n
		try("make-slice-ulen "+u64s(n), func() string { return itoa(len(make([]byte, n))) })
	}
	try("make-len-gt-cap", func() string { l, c := 5, 3; return itoa(len(make([]I, l, c))) })
	try("make-negative-int8", func() string { var l int8 = -3; return itoa(len(make([]I, l))) })
	// slice to array conversions
	for _, l := range []int{0, 1, 2, 3} {
		l := l
		try("slice2array "+itoa(l), func() string { a := [2]I(sl[:l]); return itoa(int(a[0] + a[1])) })
		try("slice2arrayptr "+itoa(l), func() string { p := (*[2]I)(sl[:l]); return itoa(int(p[1])) })
		try("slice2array0 "+itoa(l), func() string { a := [0]I(sl[:l]); return itoa(len(a)) })
		try("nilslice2arrayptr "+itoa(l), func() string { p := (*[0]I)(nilsl); return btoa(p == nil) })
	}
	// channels
	try("close-nil", func() string { var c chan I; close(c); return "closed" })
	try("close-closed", func() string { c := make(chan I); close(c); close(c); return "closed" })
	try("send-closed", func() string { c := make(chan I, 1); close(c); c <- pre("v"); return "sent" })
	try("recv-closed", func() string { c := make(chan I, 1); c <- 4; close(c); a, ok1 := <-c; b, ok2 := <-c; return itoa(int(a+b)) + btoa(ok1) + btoa(ok2) })
	try("select-send-closed", func() string {
		c := make(chan I, 1)
		close(c)
		select {
		case c <- 1:
			return "sent"
		default:
			return "default"
		}
	})
	// explicit panic values are carried unchanged
	try("panic-string", func() string { panic("boom") })
	try("panic-error", func() string { panic(myErr{"e1"}) })
	try("panic-int", func() string { panic(I(42)) })
	try("panic-struct", func() string { panic(pt{a: 1}) })
	try("panic-ptr", func() string { panic(&pt{a: 1}) })
	func() {
		defer func() {
			e := recover()
			p, ok := e.(*pt)
			emit("panic-value-identity", btoa(ok && p == keep))
			defer func() { emit("recover-outside-panic", btoa(recover() == nil)) }()
		}()
		panic(keep)
	}()
	emit("recover-no-panic", btoa(recover() == nil))
}

var keep = &pt{a: 9}

type myErr struct{ s string }

func (m myErr) Error() string { return "myErr:" + m.s }
`

// divSrc is generated per integer type.
func divSrc() string {
	var b strings.Builder
	b.WriteString("package main\n\nfunc divTable() {\n")
	for _, t := range []string{"int8", "int16", "int32", "int64", "uint8", "uint16", "uint32", "uint64", "I", "U"} {
		fmt.Fprintf(&b, "\tfor _, d := range []%s{0, 1, 3} {\n\t\td := d\n", t)
		fmt.Fprintf(&b, "\t\ttry(\"div-%s \"+u64s(uint64(d)), func() string { var n %s = 100; pre(\"a\"); v := n / d; post(\"b\"); return u64s(uint64(v)) })\n", t, t)
		fmt.Fprintf(&b, "\t\ttry(\"rem-%s \"+u64s(uint64(d)), func() string { var n %s = 100; return u64s(uint64(n %% d)) })\n", t, t)
		fmt.Fprintf(&b, "\t\ttry(\"diveq-%s \"+u64s(uint64(d)), func() string { var n %s = 100; n /= d; n %%= 7; return u64s(uint64(n)) })\n", t, t)
		b.WriteString("\t}\n")
	}
	b.WriteString("}\n")
	return b.String()
}

// ---- defer / recover trees

type frameGen struct {
	r  *rand.Rand
	b  strings.Builder
	n  int
	fn []string
}

// genFrame emits func fr<N>(d I) (res I) with random defers, recovers and panics and returns
// its name. Frames call later-generated frames only when depth allows, so the call graph is a
// tree of bounded depth.
func (g *frameGen) genFrame(depth int) string {
	g.n++
	id := g.n
	name := fmt.Sprintf("fr%d", id)
	var body strings.Builder
	w := func(f string, a ...any) { fmt.Fprintf(&body, "\t"+f+"\n", a...) }
	named := g.r.Intn(3) != 0
	if named {
		fmt.Fprintf(&body, "func %s(d I) (res I) {\n", name)
	} else {
		fmt.Fprintf(&body, "func %s(d I) I {\n", name)
	}
	w("emit(\"enter\", \"%s\")", name)
	ndefer := g.r.Intn(4)
	for k := 0; k < ndefer; k++ {
		tag := fmt.Sprintf("%s.d%d", name, k)
		switch g.r.Intn(10) {
		case 0:
			w("defer emit(\"defer-args\", %q+itoa(int(next())))", tag) // argument evaluated now
		case 1:
			w("defer func() {")
			w("\temit(\"defer\", %q)", tag)
			w("\tif e := recover(); e != nil {")
			w("\t\temit(\"recovered\", %q+\" \"+classOf(e))", tag)
			if named {
				w("\t\tres = %d", 100+id)
			}
			w("\t}")
			w("}()")
		case 2:
			w("defer func() {")
			w("\temit(\"defer-helper\", %q+\" \"+btoa(helperRecover() == nil))", tag) // recover in a helper returns nil
			w("}()")
		case 3:
			w("defer func() {")
			w("\tif e := recover(); e != nil {")
			w("\t\temit(\"re-panic\", %q)", tag)
			w("\t\tpanic(\"re:\" + classOf(e))")
			w("\t}")
			w("}()")
		case 4:
			w("defer func() {")
			w("\temit(\"defer-panics\", %q)", tag)
			w("\tpanic(%q)", "replaced-by-"+tag)
			w("}()")
		case 5:
			if named {
				w("defer func() {")
				w("\tres += 1000")
				w("\temit(\"defer-result\", %q+itoa(int(res)))", tag)
				w("}()")
			} else {
				w("defer emit(\"defer\", %q)", tag)
			}
		case 6:
			w("mv%d := tracer{%q}", k, tag)
			w("defer mv%d.note(next())", k) // method value with evaluated receiver and argument
		case 7:
			w("dm%d := map[string]I{\"k\": 1}", k)
			w("defer func() { emit(\"defer-map\", itoa(len(dm%d))) }()", k)
			w("defer delete(dm%d, \"k\")", k) // builtin as deferred call
		case 8:
			w("dc%d := make(chan I, 1)", k)
			w("defer func() { _, ok := <-dc%d; emit(\"defer-chan\", btoa(ok)) }()", k)
			w("defer close(dc%d)", k)
		default:
			w("defer func(a I) {")
			w("\temit(\"defer-param\", %q+itoa(int(a)))", tag)
			w("\trecover()") // recover called directly by a deferred function stops the panic
			w("}(next())")
		}
	}
	// body: maybe call children, maybe panic
	nchild := 0
	if depth > 0 {
		nchild = g.r.Intn(3)
	}
	for k := 0; k < nchild; k++ {
		child := g.genFrame(depth - 1)
		if g.r.Intn(4) == 0 {
			w("func() {")
			w("\tdefer func() { recover() }()")
			w("\temit(\"guarded\", itoa(int(%s(d+1))))", child)
			w("}()")
		} else {
			w("emit(\"ret\", %q+itoa(int(%s(d+1))))", child, child)
		}
	}
	switch g.r.Intn(7) {
	case 0:
		w("panic(%q)", "p-"+name)
	case 1:
		w("var arr []I")
		w("emit(\"never\", itoa(int(arr[d])))")
	case 2:
		w("var m map[I]I")
		w("m[d] = 1")
	case 3:
		w("if d%%2 == 0 {")
		w("\tpanic(myErr{%q})", name)
		w("}")
	}
	if named && g.r.Intn(2) == 0 {
		w("res = %d", id)
		w("return")
	} else {
		w("return %d", id)
	}
	body.WriteString("}\n\n")
	g.b.WriteString(body.String())
	return name
}

const treeLib = `package main

import "runtime"

var _ = runtime.Goexit

type tracer struct{ tag string }

func (t tracer) note(n I) { emit("defer-method", t.tag+itoa(int(n))) }

func helperRecover() interface{} { return recover() }

// goexitCase: Goexit runs the deferred calls of every frame of the goroutine and nothing else.
func goexitInner(tag string) {
	defer emit("goexit-inner-defer", tag)
	func() {
		defer emit("goexit-closure-defer", tag)
		runtime.Goexit()
	}()
	emit("goexit-unreachable-1", tag)
}

func goexitOuter(tag string) I {
	defer func() {
		emit("goexit-outer-defer", tag+" recover="+btoa(recover() == nil))
	}()
	goexitInner(tag)
	emit("goexit-unreachable-2", tag)
	return 1
}

func goexitCase() {
	done := make(chan string)
	go func() {
		defer func() { done <- "finished" }()
		emit("goexit-ret", itoa(int(goexitOuter("g1"))))
		emit("goexit-unreachable-3", "g1")
	}()
	emit("goexit-join", <-done)
	// Goexit in a goroutine whose function has no defers at all
	done2 := make(chan string, 1)
	go func() {
		go func() { done2 <- "sibling" }()
		runtime.Goexit()
	}()
	emit("goexit-join2", <-done2)
}

// panics in other goroutines, recovered there
func goroutinePanics() {
	res := make(chan string)
	for i := 0; i < 3; i++ {
		i := i
		go func() {
			defer func() {
				e := recover()
				res <- itoa(i) + ":" + classOf(e)
			}()
			if i == 1 {
				var m map[string]I
				m["x"] = 1
			}
			panic("g" + itoa(i))
		}()
		emit("goroutine-panic", <-res)
	}
}

// nested panics: a panic during a deferred call replaces the current one; recover returns the latest
func nested() {
	defer func() {
		emit("nested-outer", classOf(recover()))
		emit("nested-outer-again", btoa(recover() == nil))
	}()
	defer func() {
		defer func() {
			emit("nested-inner", classOf(recover()))
			panic("third")
		}()
		panic("second")
	}()
	panic("first")
}

func deferLoop() (res I) {
	for i := I(0); i < 4; i++ {
		defer func(k I) {
			res = res*10 + k
			emit("defer-loop", itoa(int(k))+itoa(int(i)))
		}(i)
	}
	return 5
}

func deferModifiesAfterPanic() (res string) {
	defer func() {
		if e := recover(); e != nil {
			res += "|recovered:" + classOf(e)
		}
	}()
	res = "set-before-panic"
	var p *struct{ x I }
	res = itoa(int(p.x))
	return "not-reached"
}

func recoverReturnsZero() (a I, s string) {
	defer func() { recover() }()
	a, s = 4, "four"
	panic("x")
}

func fixedCases() {
	goexitCase()
	goroutinePanics()
	nested()
	emit("defer-loop-res", itoa(int(deferLoop())))
	emit("defer-after-panic", deferModifiesAfterPanic())
	a, s := recoverReturnsZero()
	emit("recover-named", itoa(int(a))+s)
}
`

// Generate returns one C08 program.
func Generate(r *rand.Rand, trees int) map[string]string {
	g := &frameGen{r: r}
	var roots []string
	for i := 0; i < trees; i++ {
		roots = append(roots, g.genFrame(2+r.Intn(4)))
	}
	var mb strings.Builder
	mb.WriteString("package main\n\n")
	mb.WriteString(g.b.String())
	mb.WriteString("func main() {\n\trun(\"ops\", opsTable)\n\trun(\"div\", divTable)\n\trun(\"fixed\", fixedCases)\n")
	for _, rt := range roots {
		fmt.Fprintf(&mb, "\trun(%q, func() { emit(\"root\", itoa(int(%s(0)))) })\n", rt, rt)
	}
	mb.WriteString("\tprintln(\"END \" + itoa(traceN))\n}\n")
	files := map[string]string{"main.go": mb.String(), "ops.go": opsSrc, "div.go": divSrc(), "treelib.go": treeLib, "helpers.go": progen.Helpers}
	return proglib.WithLib(files)
}

// Uncaught returns small programs that end by an uncaught panic / deadlock / Goexit of main –
// the way the whole program ends is compared.
func Uncaught() map[string]map[string]string {
	mk := func(body string) map[string]string {
		return proglib.WithLib(map[string]string{"main.go": "package main\n\nimport \"runtime\"\n\nvar _ = runtime.Goexit\n\nfunc emit(a, b string) { println(\"T \" + a + \" \" + b) }\n\ntype E struct{ s string }\n\nfunc (e E) Error() string { return \"E:\" + e.s }\n\nfunc main() {\n" + body + "\n}\n"})
	}
	return map[string]map[string]string{
		"uncaught-string":    mk("\tdefer emit(\"deferred\", \"runs\")\n\tpanic(\"top\")"),
		"uncaught-error":     mk("\tpanic(E{\"x\"})"),
		"uncaught-runtime":   mk("\tvar a []int\n\tdefer func() { emit(\"d\", \"1\") }()\n\t_ = a[len(a)+1]"),
		"uncaught-repanic":   mk("\tdefer func() { e := recover(); emit(\"rec\", e.(string)); panic(\"second\") }()\n\tpanic(\"first\")"),
		"uncaught-goroutine": mk("\tdone := make(chan bool)\n\tgo func() { defer emit(\"gd\", \"x\"); panic(\"in-goroutine\") }()\n\t<-done"),
		"deadlock":           mk("\temit(\"before\", \"x\")\n\tc := make(chan int)\n\tdefer emit(\"not\", \"run\")\n\t<-c"),
		"nil-func-go":        mk("\tvar f func()\n\tdefer emit(\"d\", \"1\")\n\tf()"),
	}
}
