package c09

import (
	"fmt"
	"strings"
	"sync"

	"verif/internal/core"
)

// Run is the C09 check.
func Run(c *core.Ctx) int {
	n := c.N(40, 500)
	var mu sync.Mutex
	programs, lines := 0, 0
	distinct := map[string]bool{}
	c.Parallel(n, func(i int) {
		r := c.Rand(fmt.Sprint("fam", i))
		prog := &core.Program{Name: fmt.Sprintf("c09/family-%d-%d", c.Seed, i), Files: Generate(r)}
		res := c.DiffProgram(prog, core.DiffOpt{})
		mu.Lock()
		defer mu.Unlock()
		if res.Verdict == "inconclusive" {
			return
		}
		programs++
		lines += res.Lines
		for _, l := range res.Ref.Lines {
			fs := strings.SplitN(l, " ", 3)
			if len(fs) == 3 {
				distinct[fs[1]+" "+fs[2]] = true
			}
		}
		if programs <= 2 && len(res.Ref.Lines) > 5 {
			c.Sample(map[string]any{"program": prog.Name, "trace_head": res.Ref.Lines[:5]})
		}
	})
	c.Count("families", programs)
	c.Count("trace_lines_compared", lines)
	return c.Finish("exploration", lines, len(distinct), 300,
		"per program a random type family over three packages: 8-13 named types (structs with value/pointer embedding to depth 3, named int/slice/func/map types, equally named types T in two packages) with 0-3 methods each (value or pointer receivers, three signature variants, exported and unexported names, String/Error) and 5-8 interfaces (embedded interfaces, unexported methods, inline anonymous interfaces); every value and pointer-to-value plus equally named local types (one gaining methods through embedding), identical unnamed composite types written in different packages (struct, slice, func, map, pointer to interface, tagged struct, unexported-field struct) is asserted to every interface in shuffled, column-major and row-major order (answers must not depend on cache fill order), every method of every satisfied interface is called and the receiver state observed afterwards (copied vs shared), pairwise ==, map[any] keys and type-switch arms recorded; compared with the reference toolchain. distinct_nontrivial = distinct (probe, observation) pairs",
		nil, []string{"reference toolchain go1.23.5"})
}
