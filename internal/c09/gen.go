// Package c09 – dynamic types: identity, assertions, method sets and dispatch.
package c09

import (
	"fmt"
	"math/rand"
	"sort"
	"strings"

	"verif/internal/c04"
)

// A method signature variant.
var sigs = []struct{ Params, Result, Call, Ret string }{
	{"()", "string", "()", `%s`},
	{"(a int32)", "string", "(7)", `%s + lib.Itoa(int(a))`},
	{"(a, b string)", "string", `("x", "y")`, `%s + a + b`},
}

type method struct {
	Name string
	Sig  int
	Ptr  bool // pointer receiver
}

type ctype struct {
	Pkg     string // "main", "pa", "pb"
	Name    string
	Kind    string // struct, int, slice, func, map
	Embeds  []embed
	Methods []method
}

type embed struct {
	T   *ctype
	Ptr bool
}

type iface struct {
	Pkg     string
	Name    string
	Methods []method // Ptr unused
	Embeds  []*iface
}

func (t *ctype) qual(from string) string {
	if t.Pkg == from {
		return t.Name
	}
	return t.Pkg + "." + t.Name
}

func (i *iface) qual(from string) string {
	if i.Pkg == from {
		return i.Name
	}
	return i.Pkg + "." + i.Name
}

type family struct {
	Types  []*ctype
	Ifaces []*iface
}

var methodNames = []string{"M0", "M1", "M2", "M3", "m0", "m1", "String", "Error"}

func genFamily(r *rand.Rand) *family {
	f := &family{}
	pkgs := []string{"main", "pa", "pb"}
	nt := 8 + r.Intn(6)
	for i := 0; i < nt; i++ {
		t := &ctype{Pkg: pkgs[r.Intn(3)], Kind: []string{"struct", "struct", "struct", "int", "slice", "func", "map"}[r.Intn(7)]}
		t.Name = fmt.Sprintf("T%d", i)
		if r.Intn(5) == 0 {
			t.Name = "T" // equally named types in different packages
			t.Pkg = []string{"pa", "pb"}[r.Intn(2)]
			for _, o := range f.Types {
				if o.Name == "T" && o.Pkg == t.Pkg {
					t.Name = fmt.Sprintf("T%d", i)
				}
			}
		}
		// methods
		used := map[string]bool{}
		for k := 0; k < r.Intn(4); k++ {
			m := method{Name: methodNames[r.Intn(len(methodNames))], Sig: r.Intn(len(sigs)), Ptr: r.Intn(3) == 0}
			if m.Name == "String" || m.Name == "Error" {
				m.Sig = 0
			}
			if !used[m.Name] {
				used[m.Name] = true
				t.Methods = append(t.Methods, m)
			}
		}
		// embedding of earlier types (only those importable: main may embed pa/pb types; pb may
		// embed pa types; pa embeds only pa types)
		if t.Kind == "struct" {
			usedField := map[string]bool{}
			for k := 0; k < r.Intn(3); k++ {
				if len(f.Types) == 0 {
					break
				}
				e := f.Types[r.Intn(len(f.Types))]
				ok := e.Pkg == t.Pkg || t.Pkg == "main" || (t.Pkg == "pb" && e.Pkg == "pa")
				if !ok || usedField[e.Name] || depth(e) >= 3 {
					continue
				}
				usedField[e.Name] = true
				t.Embeds = append(t.Embeds, embed{e, r.Intn(2) == 0})
			}
		}
		f.Types = append(f.Types, t)
	}
	// embedding chains: leaf with a value and a pointer receiver method, wrapped three times by
	// value or by pointer in every chain (the pattern is drawn per family), spread over packages
	// in import order. These make sure that method sets through mixed pointer/value embedding
	// paths are probed in every family, not only when the random draw happens to build one.
	for ch := 0; ch < 2; ch++ {
		leaf := &ctype{Pkg: "pa", Kind: "struct", Name: fmt.Sprintf("Leaf%d", ch)}
		leaf.Methods = []method{{Name: "M0", Sig: 0, Ptr: true}, {Name: "M1", Sig: 1, Ptr: false}, {Name: "m0", Sig: 0, Ptr: r.Intn(2) == 0}}
		f.Types = append(f.Types, leaf)
		prev := leaf
		for lvl, pk := range []string{"pa", "pb", "main"} {
			w := &ctype{Pkg: pk, Kind: "struct", Name: fmt.Sprintf("Chain%d_%d", ch, lvl)}
			w.Embeds = []embed{{prev, r.Intn(2) == 0}}
			if r.Intn(4) == 0 {
				w.Methods = []method{{Name: []string{"M0", "M1"}[r.Intn(2)], Sig: r.Intn(2), Ptr: r.Intn(2) == 0}}
			}
			f.Types = append(f.Types, w)
			prev = w
		}
	}
	// shadowing by depth: a method declared at depth 1 hides the method of the same name that
	// another embedded field promotes from depth 2, whatever the order of the fields
	for sh := 0; sh < 2; sh++ {
		deep := &ctype{Pkg: "pa", Kind: "struct", Name: fmt.Sprintf("ShDeep%d", sh)}
		deep.Methods = []method{{Name: "M0", Sig: 0, Ptr: r.Intn(2) == 0}, {Name: "M1", Sig: 1, Ptr: r.Intn(2) == 0}}
		mid := &ctype{Pkg: "pa", Kind: "struct", Name: fmt.Sprintf("ShMid%d", sh)}
		mid.Embeds = []embed{{deep, r.Intn(2) == 0}}
		near := &ctype{Pkg: "pa", Kind: "struct", Name: fmt.Sprintf("ShNear%d", sh)}
		near.Methods = []method{{Name: "M0", Sig: 0, Ptr: r.Intn(2) == 0}, {Name: "M1", Sig: 1, Ptr: r.Intn(2) == 0}}
		ab := &ctype{Pkg: []string{"pa", "pb", "main"}[r.Intn(3)], Kind: "struct", Name: fmt.Sprintf("ShadowAB%d", sh)}
		ab.Embeds = []embed{{mid, r.Intn(2) == 0}, {near, r.Intn(2) == 0}}
		ba := &ctype{Pkg: ab.Pkg, Kind: "struct", Name: fmt.Sprintf("ShadowBA%d", sh)}
		ba.Embeds = []embed{{near, r.Intn(2) == 0}, {mid, r.Intn(2) == 0}}
		f.Types = append(f.Types, deep, mid, near, ab, ba)
	}
	ni := 5 + r.Intn(4)
	for i := 0; i < ni; i++ {
		it := &iface{Pkg: []string{"main", "pa"}[r.Intn(2)], Name: fmt.Sprintf("I%d", i)}
		used := map[string]bool{}
		for k := 0; k < 1+r.Intn(3); k++ {
			m := method{Name: methodNames[r.Intn(len(methodNames))], Sig: r.Intn(len(sigs))}
			if m.Name == "String" || m.Name == "Error" {
				m.Sig = 0
			}
			if !used[m.Name] {
				used[m.Name] = true
				it.Methods = append(it.Methods, m)
			}
		}
		if i > 0 && r.Intn(3) == 0 {
			e := f.Ifaces[r.Intn(len(f.Ifaces))]
			if e.Pkg == it.Pkg || it.Pkg == "main" {
				// embedded interface; conflicting signatures for one name would be a compile error
				conflict := false
				for _, m := range it.Methods {
					for _, em := range allIfaceMethods(e) {
						if m.Name == em.Name && m.Sig != em.Sig {
							conflict = true
						}
					}
				}
				if !conflict {
					it.Embeds = append(it.Embeds, e)
				}
			}
		}
		f.Ifaces = append(f.Ifaces, it)
	}
	f.Ifaces = append(f.Ifaces,
		&iface{Pkg: "main", Name: "IPM", Methods: []method{{Name: "M0", Sig: 0}}},
		&iface{Pkg: "main", Name: "IBoth", Methods: []method{{Name: "M0", Sig: 0}, {Name: "M1", Sig: 1}}},
		&iface{Pkg: "pa", Name: "IUnexp", Methods: []method{{Name: "m0", Sig: 0}, {Name: "M1", Sig: 1}}})
	return f
}

func depth(t *ctype) int {
	d := 0
	for _, e := range t.Embeds {
		if x := depth(e.T) + 1; x > d {
			d = x
		}
	}
	return d
}

func allIfaceMethods(i *iface) []method {
	ms := append([]method{}, i.Methods...)
	for _, e := range i.Embeds {
		for _, m := range allIfaceMethods(e) {
			dup := false
			for _, x := range ms {
				if x.Name == m.Name {
					dup = true
				}
			}
			if !dup {
				ms = append(ms, m)
			}
		}
	}
	return ms
}

func emitType(b *strings.Builder, t *ctype) {
	switch t.Kind {
	case "struct":
		fmt.Fprintf(b, "type %s struct {\n", t.Name)
		for _, e := range t.Embeds {
			if e.Ptr {
				fmt.Fprintf(b, "\t*%s\n", e.T.qual(t.Pkg))
			} else {
				fmt.Fprintf(b, "\t%s\n", e.T.qual(t.Pkg))
			}
		}
		b.WriteString("\tN int32\n}\n\n")
	case "int":
		fmt.Fprintf(b, "type %s int32\n\n", t.Name)
	case "slice":
		fmt.Fprintf(b, "type %s []int32\n\n", t.Name)
	case "func":
		fmt.Fprintf(b, "type %s func() int32\n\n", t.Name)
	case "map":
		fmt.Fprintf(b, "type %s map[string]int32\n\n", t.Name)
	}
	for _, m := range t.Methods {
		s := sigs[m.Sig]
		recv := "r " + t.Name
		if m.Ptr {
			recv = "r *" + t.Name
		}
		tag := fmt.Sprintf("\"%s.%s.%s#%d(\" + r.state() + \")\"", t.Pkg, t.Name, m.Name, m.Sig)
		body := fmt.Sprintf(s.Ret, tag)
		fmt.Fprintf(b, "func (%s) %s%s %s {\n\tdefer r.touch()\n\treturn %s\n}\n\n", recv, m.Name, s.Params, s.Result, body)
	}
	// state() and touch(): observe and mutate the receiver (copied or shared)
	switch t.Kind {
	case "struct":
		fmt.Fprintf(b, "func (r %s) state() string { return lib.Itoa(int(r.N)) }\nfunc (r *%s) touch()       { r.N++ }\n\n", t.Name, t.Name)
	case "int":
		fmt.Fprintf(b, "func (r %s) state() string { return lib.Itoa(int(r)) }\nfunc (r *%s) touch()       { *r++ }\n\n", t.Name, t.Name)
	case "slice":
		fmt.Fprintf(b, "func (r %s) state() string { return lib.Itoa(len(r)) + \":\" + lib.Itoa(int(r[0])) }\nfunc (r *%s) touch()       { (*r)[0]++ }\n\n", t.Name, t.Name)
	case "func":
		fmt.Fprintf(b, "func (r %s) state() string { return lib.Itoa(int(r())) }\nfunc (r *%s) touch()       {}\n\n", t.Name, t.Name)
	case "map":
		fmt.Fprintf(b, "func (r %s) state() string { return lib.Itoa(int(r[\"k\"])) }\nfunc (r *%s) touch()       { (*r)[\"k\"]++ }\n\n", t.Name, t.Name)
	}
}

func emitIface(b *strings.Builder, it *iface) {
	fmt.Fprintf(b, "type %s interface {\n", it.Name)
	for _, e := range it.Embeds {
		fmt.Fprintf(b, "\t%s\n", e.qual(it.Pkg))
	}
	for _, m := range it.Methods {
		fmt.Fprintf(b, "\t%s%s %s\n", m.Name, sigs[m.Sig].Params, sigs[m.Sig].Result)
	}
	b.WriteString("}\n\n")
}

// mkValue returns an expression constructing a fresh value of t (as seen from package from).
func mkValue(t *ctype, from string, seed int) string {
	q := t.qual(from)
	switch t.Kind {
	case "struct":
		var parts []string
		for i, e := range t.Embeds {
			v := mkValue(e.T, from, seed+10*(i+1))
			fname := e.T.Name
			if e.Ptr {
				if e.T.Kind == "struct" {
					v = "&" + v
				} else {
					v = fmt.Sprintf("func() *%s { v := %s; return &v }()", e.T.qual(from), v)
				}
			}
			parts = append(parts, fname+": "+v)
		}
		parts = append(parts, fmt.Sprintf("N: %d", seed))
		return q + "{" + strings.Join(parts, ", ") + "}"
	case "int":
		return fmt.Sprintf("%s(%d)", q, seed)
	case "slice":
		return fmt.Sprintf("%s{%d, 2}", q, seed)
	case "func":
		return fmt.Sprintf("%s(func() int32 { return %d })", q, seed)
	case "map":
		return fmt.Sprintf("%s{\"k\": %d}", q, seed)
	}
	return "nil"
}

// Generate returns one C09 program.
func Generate(r *rand.Rand) map[string]string {
	f := genFamily(r)
	files := map[string]string{}
	libFiles := c04.Generate(rand.New(rand.NewSource(1)), 1)
	files["lib/lib.go"] = libFiles["lib/lib.go"]
	for _, pkg := range []string{"pa", "pb"} {
		var b strings.Builder
		fmt.Fprintf(&b, "package %s\n\nimport (\n\t\"prog/lib\"\n", pkg)
		if pkg == "pb" {
			b.WriteString("\t\"prog/pa\"\n")
		}
		b.WriteString(")\n\nvar _ = lib.Itoa\n")
		if pkg == "pb" {
			b.WriteString("var _ pa.Anchor\n")
		} else {
			b.WriteString("type Anchor struct{}\n")
		}
		b.WriteString("\n")
		for _, t := range f.Types {
			if t.Pkg == pkg {
				emitType(&b, t)
			}
		}
		for _, it := range f.Ifaces {
			if it.Pkg == pkg {
				emitIface(&b, it)
			}
		}
		// identical unnamed composite types written in different packages
		fmt.Fprintf(&b, "func AnonStruct() interface{} { return struct{ A int32; B string }{1, %q} }\n", "x")
		b.WriteString("func AnonSlice() interface{}  { return []struct{ A int32 }{{1}} }\n")
		b.WriteString("func AnonFunc() interface{}   { return func(int32) (string, error) { return \"\", nil } }\n")
		b.WriteString("func AnonMap() interface{}    { return map[[2]int8]*struct{ X float64 }{} }\n")
		b.WriteString("func AnonIface() interface{}  { var x interface{ M0() string }; return &x }\n")
		b.WriteString("func AnonTagged() interface{} { return struct{ A int32 `json:\"" + pkg + "\"` }{1} }\n")
		b.WriteString("func AnonUnexp() interface{}  { return struct{ a int32 }{1} }\n")
		b.WriteString("var UV = struct{ a int32 }{1}\nvar UV2 = struct {\n\tx, y int32\n\tE   string\n}{1, 2, \"e\"}\n")
		b.WriteString("func IsUV(i interface{}) bool  { _, ok := i.(struct{ a int32 }); return ok }\nfunc BoxUV2() interface{}      { return UV2 }\n")
		// equally named local types
		b.WriteString("func Local1() interface{} {\n\ttype T int32\n\treturn T(1)\n}\n\nfunc Local2() interface{} {\n\ttype T int32\n\treturn T(1)\n}\n\n")
		files[pkg+"/"+pkg+".go"] = b.String()
	}
	var b strings.Builder
	b.WriteString("package main\n\nimport (\n\t\"prog/lib\"\n\t\"prog/pa\"\n\t\"prog/pb\"\n)\n\nvar _ pa.Anchor\nvar _ = pb.Local1\n\n")
	b.WriteString("func emit(tag, s string) { println(\"T \" + tag + \" \" + s) }\n\n")
	for _, t := range f.Types {
		if t.Pkg == "main" {
			emitType(&b, t)
		}
	}
	for _, it := range f.Ifaces {
		if it.Pkg == "main" {
			emitIface(&b, it)
		}
	}
	// local types with the same name, one gaining methods through embedding
	var withMethods *ctype
	for _, t := range f.Types {
		if len(t.Methods) > 0 && t.Kind == "struct" {
			withMethods = t
		}
	}
	b.WriteString("func localA() interface{} {\n\ttype T struct{ N int32 }\n\treturn T{1}\n}\n\n")
	if withMethods != nil {
		fmt.Fprintf(&b, "func localB() interface{} {\n\ttype T struct{ %s }\n\treturn T{%s}\n}\n\n", withMethods.qual("main"), mkValue(withMethods, "main", 5))
	} else {
		b.WriteString("func localB() interface{} {\n\ttype T struct{ N int32 }\n\treturn T{1}\n}\n\n")
	}
	b.WriteString("func localC() interface{} {\n\ttype T struct{ N int32 }\n\t{\n\t\ttype T string\n\t\t_ = T(\"inner\")\n\t}\n\treturn T{1}\n}\n\n")

	// values
	b.WriteString("func values() ([]interface{}, []string) {\n\tvar vs []interface{}\n\tvar names []string\n")
	for i, t := range f.Types {
		fmt.Fprintf(&b, "\tv%d := %s\n", i, mkValue(t, "main", 100+i))
		fmt.Fprintf(&b, "\tvs = append(vs, v%d, &v%d)\n\tnames = append(names, %q, %q)\n", i, i, t.Pkg+"."+t.Name, "*"+t.Pkg+"."+t.Name)
	}
	b.WriteString("\tuvA, uvB, uv2A, uv2B := pa.UV, pb.UV, pa.UV2, pb.UV2 // unnamed struct values of other packages, boxed here\n")
	b.WriteString("\tvs = append(vs, uvA, uvB, uv2A, uv2B, pa.BoxUV2(), pb.BoxUV2(), struct {\n\t\tx, y int32\n\t\tE    string\n\t}{1, 2, \"e\"})\n")
	b.WriteString("\tnames = append(names, \"pa.UV@main\", \"pb.UV@main\", \"pa.UV2@main\", \"pb.UV2@main\", \"pa.BoxUV2\", \"pb.BoxUV2\", \"main.xyE\")\n")
	b.WriteString("\temit(\"isuv\", lib.Btoa(pa.IsUV(uvA))+lib.Btoa(pa.IsUV(uvB))+lib.Btoa(pb.IsUV(uvA))+lib.Btoa(pb.IsUV(uvB))+lib.Btoa(pa.IsUV(pa.AnonUnexp()))+lib.Btoa(pa.IsUV(struct{ a int32 }{1})))\n")
	b.WriteString("\tvs = append(vs, localA(), localB(), localC(), localA(), pa.Local1(), pa.Local2(), pb.Local1(), pa.AnonStruct(), pb.AnonStruct(), pa.AnonSlice(), pb.AnonSlice(), pa.AnonFunc(), pb.AnonFunc(), pa.AnonMap(), pb.AnonMap(), pa.AnonIface(), pb.AnonIface(), pa.AnonTagged(), pb.AnonTagged(), pa.AnonUnexp(), pb.AnonUnexp(), struct{ a int32 }{1}, struct {\n\t\tA int32\n\t\tB string\n\t}{1, \"x\"}, nil, int32(1), \"s\")\n")
	b.WriteString("\tnames = append(names, \"localA\", \"localB\", \"localC\", \"localA2\", \"pa.Local1\", \"pa.Local2\", \"pb.Local1\", \"pa.AnonStruct\", \"pb.AnonStruct\", \"pa.AnonSlice\", \"pb.AnonSlice\", \"pa.AnonFunc\", \"pb.AnonFunc\", \"pa.AnonMap\", \"pb.AnonMap\", \"pa.AnonIface\", \"pb.AnonIface\", \"pa.AnonTagged\", \"pb.AnonTagged\", \"pa.AnonUnexp\", \"pb.AnonUnexp\", \"main.AnonUnexp\", \"main.AnonStruct\", \"nil\", \"int32\", \"string\")\n")
	b.WriteString("\treturn vs, names\n}\n\n")

	// assertion function per interface, plus dispatch
	ifs := append([]*iface{}, f.Ifaces...)
	for k, it := range ifs {
		q := it.qual("main")
		if it.Pkg == "pa" && hasUnexported(it) {
			// an interface with unexported methods of another package can still be asserted to
		}
		fmt.Fprintf(&b, "func assert%d(x interface{}) (string, bool) {\n\tv, ok := x.(%s)\n\tif !ok {\n\t\treturn \"\", false\n\t}\n\ts := \"\"\n", k, q)
		b.WriteString("\t_ = v\n")
		for _, m := range callableFromMain(it) {
			fmt.Fprintf(&b, "\ts += v.%s%s + \";\"\n", m.Name, sigs[m.Sig].Call)
		}
		b.WriteString("\treturn s, true\n}\n\n")
	}
	// anonymous interfaces (method sets given inline)
	b.WriteString("func assertAnon(x interface{}) string {\n\ts := \"\"\n")
	for _, mn := range []string{"M0", "M1", "String", "Error", "m0"} {
		for si, sg := range sigs {
			if (mn == "String" || mn == "Error") && si != 0 {
				continue
			}
			fmt.Fprintf(&b, "\tif _, ok := x.(interface{ %s%s %s }); ok {\n\t\ts += \"1\"\n\t} else {\n\t\ts += \"0\"\n\t}\n", mn, sg.Params, sg.Result)
		}
	}
	b.WriteString("\treturn s\n}\n\n")

	// assertions whose operand already has an interface type: also a statically satisfied
	// single-value assertion fails on a nil operand
	b.WriteString("func tryP(f func()) (r string) {\n\tdefer func() {\n\t\tif recover() != nil {\n\t\t\tr = \"P\"\n\t\t}\n\t}()\n\tf()\n\treturn \"-\"\n}\n\n")
	for k, it := range ifs {
		q := it.qual("main")
		fmt.Fprintf(&b, "func iface2iface%d(x %s) string {\n\ts := \"\"\n", k, q)
		fmt.Fprintf(&b, "\ts += tryP(func() { _ = x.(%s) })\n", q)
		b.WriteString("\ts += tryP(func() { _ = x.(interface{}) })\n")
		fmt.Fprintf(&b, "\ts += tryP(func() { _ = interface{}(x).(%s) })\n", q)
		for _, e := range it.Embeds {
			fmt.Fprintf(&b, "\ts += tryP(func() { _ = x.(%s) })\n", e.qual("main"))
		}
		fmt.Fprintf(&b, "\t_, ok := x.(%s)\n\ts += lib.Btoa(ok)\n", q)
		fmt.Fprintf(&b, "\tswitch x.(type) {\n\tcase nil:\n\t\ts += \"nil\"\n\tcase %s:\n\t\ts += \"self\"\n\t}\n", q)
		b.WriteString("\treturn s\n}\n\n")
	}
	b.WriteString("func ifaceToIface(vs []interface{}, names []string) {\n")
	for k, it := range ifs {
		q := it.qual("main")
		fmt.Fprintf(&b, "\t{\n\t\tvar z %s\n\t\temit(\"nil-iface I%d\", iface2iface%d(z))\n\t\tfor i, x := range vs {\n\t\t\tif v, ok := x.(%s); ok {\n\t\t\t\temit(\"iface2iface \"+names[i]+\" I%d\", iface2iface%d(v))\n\t\t\t}\n\t\t}\n\t}\n", q, k, k, q, k, k)
	}
	b.WriteString("}\n\n")
	fmt.Fprintf(&b, "var asserts = []func(interface{}) (string, bool){")
	for k := range ifs {
		fmt.Fprintf(&b, "assert%d, ", k)
	}
	b.WriteString("}\n\n")
	b.WriteString(`func same(x, y interface{}) (r string) {
	defer func() {
		if recover() != nil {
			r = "P"
		}
	}()
	return lib.Btoa(x == y)
}

func main() {
	vs, names := values()
	ni := len(asserts)
	// the same (value, interface) matrix walked in three orders: the answers must not depend on
	// the order in which the run-time caches were filled
	res := make([][]string, len(vs))
	for i := range res {
		res[i] = make([]string, ni)
	}
	order := []int{@ORDER@}
	for _, k := range order { // shuffled first
		i, j := k/ni, k%ni
		_, ok := asserts[j](vs[i])
		res[i][j] = lib.Btoa(ok)
	}
	for i := range vs {
		row := ""
		for j := 0; j < ni; j++ {
			row += res[i][j]
		}
		emit("shuffled "+names[i], row)
	}
	for j := 0; j < ni; j++ { // column major
		col := ""
		for i := range vs {
			_, ok := asserts[j](vs[i])
			col += lib.Btoa(ok)
		}
		emit("column "+lib.Itoa(j), col)
	}
	for i, x := range vs { // row major with dispatch
		for j := 0; j < ni; j++ {
			if s, ok := asserts[j](x); ok {
				emit("dispatch "+names[i]+" I"+lib.Itoa(j), s)
			}
		}
		emit("anon "+names[i], assertAnon(x))
	}
	ifaceToIface(vs, names)
	// the fresh values again after the calls: which receivers were shared, which copied
	vs2, _ := values()
	for i := range vs {
		if st, ok := vs[i].(interface{ state() string }); ok {
			emit("state "+names[i], st.state())
		}
		_ = vs2
	}
	for i, x := range vs {
		row := ""
		for _, y := range vs {
			row += same(x, y)
		}
		emit("identity "+names[i], row)
	}
	m := map[interface{}]int{}
	for i, x := range vs {
		func() {
			defer func() { recover() }()
			m[x] += i + 1
		}()
	}
	emit("mapkeys", lib.Itoa(len(m)))
	for i, x := range vs {
		arm := "default"
		switch x.(type) {
@ARMS@		}
		emit("switch "+names[i], arm)
	}
	println("END")
}
`)
	src := b.String()
	// shuffled order of the (value, interface) matrix
	nvals := 2*len(f.Types) + 26 + 7
	n := nvals * len(ifs)
	perm := r.Perm(n)
	strs := make([]string, n)
	for i, p := range perm {
		strs[i] = fmt.Sprint(p)
	}
	src = strings.Replace(src, "@ORDER@", strings.Join(strs, ", "), 1)
	var arms strings.Builder
	seenArm := map[string]bool{}
	tl := append([]*ctype{}, f.Types...)
	sort.Slice(tl, func(i, j int) bool { return tl[i].Name+tl[i].Pkg < tl[j].Name+tl[j].Pkg })
	for _, t := range tl {
		q := t.qual("main")
		if seenArm[q] {
			continue
		}
		seenArm[q] = true
		fmt.Fprintf(&arms, "\t\tcase %s:\n\t\t\tarm = %q\n\t\tcase *%s:\n\t\t\tarm = %q\n", q, q, q, "*"+q)
	}
	arms.WriteString("\t\tcase struct {\n\t\t\tA int32\n\t\t\tB string\n\t\t}:\n\t\t\tarm = \"anon-struct\"\n\t\tcase []struct{ A int32 }:\n\t\t\tarm = \"anon-slice\"\n\t\tcase func(int32) (string, error):\n\t\t\tarm = \"anon-func\"\n\t\tcase map[[2]int8]*struct{ X float64 }:\n\t\t\tarm = \"anon-map\"\n\t\tcase *interface{ M0() string }:\n\t\t\tarm = \"anon-iface-ptr\"\n\t\tcase struct{ a int32 }:\n\t\t\tarm = \"main-unexported-field\"\n\t\tcase nil:\n\t\t\tarm = \"nil\"\n\t\tcase error:\n\t\t\tarm = \"error\"\n\t\tcase interface{ String() string }:\n\t\t\tarm = \"stringer\"\n")
	src = strings.Replace(src, "@ARMS@", arms.String(), 1)
	files["main.go"] = src
	return files
}

func hasUnexported(it *iface) bool {
	for _, m := range allIfaceMethods(it) {
		if m.Name[0] >= 'a' && m.Name[0] <= 'z' {
			return true
		}
	}
	return false
}

// callableFromMain lists the methods of the interface that package main may call: exported
// ones and unexported ones declared by an interface of package main itself.
func callableFromMain(it *iface) []method {
	var out []method
	seen := map[string]bool{}
	var walk func(i *iface)
	walk = func(i *iface) {
		for _, m := range i.Methods {
			unexported := m.Name[0] >= 'a' && m.Name[0] <= 'z'
			if unexported && i.Pkg != "main" {
				continue
			}
			if !seen[m.Name] {
				seen[m.Name] = true
				out = append(out, m)
			}
		}
		for _, e := range i.Embeds {
			walk(e)
		}
	}
	walk(it)
	return out
}
