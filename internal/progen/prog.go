package progen

import (
	"fmt"
	"math/rand"
	"strings"

	"verif/internal/proglib"
)

const helpers = `package main

import (
	"math"
	"runtime"
)

var traceN int

// emit prints one trace line. Lines carry a running number so that a missing or duplicated
// line is localised.
func emit(tag string, s string) {
	traceN++
	if len(s) > 4000 {
		// very long values (strings doubled in loops) are folded: the reference run time does
		// not retry a short write of a huge line to a pipe, so the line would arrive cut
		h := uint64(14695981039346656037)
		for i := 0; i < len(s); i++ {
			h = (h ^ uint64(s[i])) * 1099511628211
		}
		s = s[:2000] + "...#" + itoa(len(s)) + "#" + hex64(h)
	}
	println("T " + itoa(traceN) + " " + tag + " " + s)
}

func fbits(v float64) string {
	if v != v {
		return "NaN"
	}
	return hex64(math.Float64bits(v))
}

// ix maps any value to a valid index of a sequence of length n (0 when n == 0).
func ix(i I, n int) int {
	if n <= 0 {
		return 0
	}
	m := int(i) % n
	if m < 0 {
		m += n
	}
	return m
}

func clamp(i I, n int) int {
	if n <= 0 || i < 0 {
		return 0
	}
	if int(i) > n {
		return n
	}
	return int(i)
}

func sub(s string, i, j I) string {
	a, b := clamp(i, len(s)), clamp(j, len(s))
	if a > b {
		a, b = b, a
	}
	return s[a:b]
}

func id[T any](v T) T { return v }

func sel[T any](c bool, a, b T) T {
	if c {
		return a
	}
	return b
}

// f2i converts a float to an integer only when the result is in range (the rest is
// implementation-defined in Go).
func f2i(f float64) int64 {
	if f != f || f > 1e15 || f < -1e15 {
		return 0
	}
	return int64(f)
}

var callCounter I

// next is the only function with a visible side effect that expressions may call.
func next() I {
	callCounter++
	return callCounter
}

// cut returns s[:k:k] for k clamped to the length: an append to it never writes into s.
func cut[T any](s []T, i I) []T {
	k := clamp(i, len(s))
	return s[:k:k]
}

// sat and at read an element; an empty operand yields zero instead of a panic.
func sat(s string, i I) byte {
	if len(s) == 0 {
		return 0
	}
	return s[ix(i, len(s))]
}

func at[T any](s []T, i I) T {
	if len(s) == 0 {
		var z T
		return z
	}
	return s[ix(i, len(s))]
}

// named results shadowed by inner declarations: "return res, ok" names the inner variables,
// which must be stored into the results.
func nr0(a I) (res I, ok bool) {
	res = a + 1
	if a > 3 {
		res, ok := a*2, true
		return res, ok
	}
	for i := I(0); i < 2; i++ {
		ok := i == 1
		if ok {
			res := a - i
			return res, ok
		}
	}
	return res, ok
}

func nr1(a I) (res I, ok bool) {
	defer func() { res += 100 }()
	if res, ok := a+7, a%2 == 0; ok {
		return res, ok
	}
	{
		ok, res := true, a
		_ = res
		return res - 1, ok
	}
}

func nr2(a I) (x, y I) {
	x, y = 1, 2
	if a > 0 {
		y, x := a, a+1
		return y, x
	}
	func() {
		x, y := I(9), I(8)
		_, _ = x, y
	}()
	return y, x
}

// seq traces the moment it is evaluated: operands of calls are evaluated in source order.
func seq(k I) I {
	callCounter++
	emit("sq", itoa(int(k))+":"+itoa(int(callCounter)))
	return k
}

func ao(xs ...I) string {
	s := ""
	for _, x := range xs {
		s += itoa(int(x)) + ","
	}
	return s
}

func aoEmit(xs ...I) { emit("aod", ao(xs...)) }

type aoT struct{ n I }

func (a aoT) m(xs ...I) string { return ao(append(xs, a.n)...) }

func classOf(e interface{}) string {
	if re, ok := e.(runtime.Error); ok {
		m := re.Error()
		const pre = "runtime error: "
		if len(m) > len(pre) && m[:len(pre)] == pre {
			m = m[len(pre):]
		}
		for _, c := range []string{"index out of range", "slice bounds out of range", "integer divide by zero", "invalid memory address or nil pointer dereference", "assignment to entry in nil map", "interface conversion", "makeslice: len out of range", "makeslice: cap out of range", "makechan: size out of range", "comparing uncomparable type", "hash of unhashable type", "cannot convert slice with length", "close of nil channel", "close of closed channel", "send on closed channel"} {
			if len(m) >= len(c) && m[:len(c)] == c {
				return "RE:" + c
			}
		}
		return "RE:" + m
	}
	if s, ok := e.(string); ok {
		return "S:" + s
	}
	if er, ok := e.(error); ok {
		return "E:" + er.Error()
	}
	return "other"
}

// run executes one case under recover so that one panicking case does not hide the others.
func run(name string, f func()) {
	defer func() {
		if e := recover(); e != nil {
			println("P " + name + " " + classOf(e))
		}
	}()
	println("C " + name)
	f()
}
`

// Program is the generated output.
type Program struct {
	Files  map[string]string
	Stats  map[string]int
	Yields int
}

// Generate builds one program.
func Generate(r *rand.Rand, opt Options) *Program {
	if opt.Cases == 0 {
		opt.Cases = 12
	}
	if opt.StmtsPer == 0 {
		opt.StmtsPer = 10
	}
	u := NewUniverse(r)
	g := &Gen{U: u, Opt: opt, Stats: map[string]int{}}
	var fb strings.Builder // functions
	g.genFunctions(&fb)
	var cb strings.Builder
	for i := 0; i < opt.Cases; i++ {
		g.genCase(&cb, i)
	}
	var sb strings.Builder
	u.emitShow(&sb)

	var mb strings.Builder
	mb.WriteString("package main\n\n")
	mb.WriteString(u.decls.String())
	mb.WriteString(sb.String())
	mb.WriteString(fb.String())
	mb.WriteString(cb.String())
	mb.WriteString("func main() {\n")
	for i := 0; i < opt.Cases; i++ {
		fmt.Fprintf(&mb, "\trun(\"case%d\", case%d)\n", i, i)
	}
	for _, f := range opt.ExtraMain {
		fmt.Fprintf(&mb, "\trun(%q, %s)\n", f, f)
	}
	mb.WriteString("\tprintln(\"END \" + itoa(traceN))\n}\n")
	files := map[string]string{"main.go": mb.String(), "helpers.go": helpers}
	proglib.WithLib(files)
	return &Program{Files: files, Stats: g.Stats, Yields: g.yk}
}

func (g *Gen) genFunctions(b *strings.Builder) {
	u := g.U
	// methods on struct and named scalar types
	for _, t := range u.Types {
		if !t.Named || (t.Kind != KStruct && t.Under == nil) {
			continue
		}
		if g.n(3) == 0 {
			continue
		}
		rt := g.scalarOf(KInt)
		mname := fmt.Sprintf("M%d", u.id())
		if g.n(4) == 0 {
			mname = strings.Title(jsWords[g.n(30)])
			if mname[0] < 'A' || mname[0] > 'Z' {
				mname = fmt.Sprintf("M%d", u.id())
			}
			mname += fmt.Sprint(u.id())
		}
		// value receiver: returns a digest of the receiver, mutates its copy
		o := &out{}
		rn := []string{"r", "this", "self", "recv"}[g.n(4)]
		o.line("func (%s %s) %s(a %s) %s {", rn, t.Name, mname, rt.Name, rt.Name)
		o.ind++
		sc := &Scope{Fn: &FuncCtx{Result: rt}}
		sc.Vars = append(sc.Vars, Var{Name: rn, T: t}, Var{Name: "a", T: rt})
		g.block(o, sc, 1+g.n(2), 1)
		g.closeScope(o, sc)
		o.line("emit(\"mv\", %s)", g.showOf(t, rn))
		o.line("return %s", g.expr(rt, sc, 2))
		o.ind--
		o.line("}\n")
		b.WriteString(o.b.String())
		g.Fns = append(g.Fns, &Fn{Name: mname, Params: []*Type{rt}, Result: rt, Recv: t})
		// pointer receiver: mutates the receiver
		pname := fmt.Sprintf("P%d", u.id())
		o = &out{}
		o.line("func (%s *%s) %s(a %s) {", rn, t.Name, pname, rt.Name)
		o.ind++
		sc = &Scope{Fn: &FuncCtx{}}
		if t.Kind == KStruct {
			// pointer receivers reach fields directly
			sc.Vars = append(sc.Vars, Var{Name: "(*" + rn + ")", T: t}, Var{Name: "a", T: rt})
			g.block(o, sc, 1+g.n(2), 1)
			g.closeScope(o, sc)
		} else {
			o.line("*%s = %s", rn, g.expr(t, &Scope{Vars: []Var{{Name: "a", T: rt}}}, 2))
		}
		o.line("emit(\"mp\", %s)", g.showOf(t, "*"+rn))
		o.ind--
		o.line("}\n")
		b.WriteString(o.b.String())
		g.Fns = append(g.Fns, &Fn{Name: pname, Params: []*Type{rt}, Recv: t, Ptr: true})
	}
	// plain functions; later ones may call earlier ones
	nf := 4 + g.n(5)
	for i := 0; i < nf; i++ {
		rt := g.anyType()
		np := g.n(4)
		name := fmt.Sprintf("fn%d", u.id())
		o := &out{}
		sc := &Scope{Fn: &FuncCtx{Result: rt}}
		var ps []string
		var pts []*Type
		for j := 0; j < np; j++ {
			pt := g.anyType()
			pn := fmt.Sprintf("p%d", j)
			if g.n(5) == 0 {
				pn = jsWords[g.n(40)]
				if sc.lookup(pn) || reservedGo[pn] {
					pn = fmt.Sprintf("p%d", j)
				}
			}
			ps = append(ps, pn+" "+pt.Name)
			pts = append(pts, pt)
			sc.Vars = append(sc.Vars, Var{Name: pn, T: pt})
		}
		named := g.n(3) == 0
		if named {
			o.line("func %s(%s) (res %s) {", name, strings.Join(ps, ", "), rt.Name)
			sc.Vars = append(sc.Vars, Var{Name: "res", T: rt})
			sc.Fn.Named = "res"
		} else {
			o.line("func %s(%s) %s {", name, strings.Join(ps, ", "), rt.Name)
		}
		o.ind++
		o.line("emit(\"f\", %q)", name)
		g.block(o, sc, 1+g.n(4), 2)
		g.closeScope(o, sc)
		if named && g.n(2) == 0 {
			o.line("res = %s", g.expr(rt, sc, 2))
			o.line("return")
		} else {
			o.line("return %s", g.expr(rt, sc, 2))
		}
		o.ind--
		o.line("}\n")
		b.WriteString(o.b.String())
		g.Fns = append(g.Fns, &Fn{Name: name, Params: pts, Result: rt})
	}
	// multi-value functions and their consumers (tuple forwarding)
	seen := map[string]bool{}
	for i := 0; i < 2; i++ {
		rt := g.anyType()
		pt := g.scalarOf(KInt)
		name := fmt.Sprintf("tup%d", u.id())
		o := &out{}
		sc := &Scope{Fn: &FuncCtx{Result: rt}}
		sc.Vars = append(sc.Vars, Var{Name: "a", T: pt})
		o.line("func %s(a %s) (%s, bool) {", name, pt.Name, rt.Name)
		o.ind++
		o.line("return %s, %s", g.expr(rt, sc, 2), g.expr(g.U.TBool, sc, 2))
		o.ind--
		o.line("}\n")
		if !seen[rt.ID] {
			seen[rt.ID] = true
			o.line("func tupUse_%s(a %s, b bool) string {", rt.ID, rt.Name)
			o.line("\treturn %s + btoa(b)", g.showOf(rt, "a"))
			o.line("}\n")
		}
		b.WriteString(o.b.String())
		g.Fns = append(g.Fns, &Fn{Name: name, Params: []*Type{pt}, Result: rt, Multi: true})
	}
	// variadic function
	{
		et := g.scalarOf(KInt)
		g.VariT = et
		o := &out{}
		o.line("func vari(pre string, xs ...%s) string {", et.Name)
		o.line("\ts := pre + itoa(len(xs))")
		o.line("\tfor _, x := range xs {")
		o.line("\t\ts += \",\" + %s", g.showOf(et, "x"))
		o.line("\t}")
		o.line("\tif len(xs) > 0 {")
		o.line("\t\txs[0] = 0 // visible to the caller only when a slice was passed with ...")
		o.line("\t}")
		o.line("\treturn s")
		o.line("}\n")
		b.WriteString(o.b.String())
	}
	// bounded recursion
	{
		o := &out{}
		o.line("func rec(d I, acc I) I {")
		o.line("\tif d <= 0 {")
		o.line("\t\treturn acc")
		o.line("\t}")
		o.line("\tdefer func() { acc++ }()")
		o.line("\treturn rec(d-1, acc*3+d) + rec(d-2, acc^d)")
		o.line("}\n")
		b.WriteString(o.b.String())
	}
}

func (g *Gen) genCase(b *strings.Builder, i int) {
	o := &out{}
	o.line("func case%d() {", i)
	o.ind++
	sc := &Scope{Fn: &FuncCtx{}}
	// a few initial variables of diverse types
	for k := 0; k < 3+g.n(3); k++ {
		t := g.anyType()
		name := fmt.Sprintf("v%d", func() int { g.nvar++; return g.nvar }())
		o.line("var %s %s = %s", name, t.Name, g.expr(t, sc, 2))
		g.declare(sc, name, t)
	}
	g.block(o, sc, g.Opt.StmtsPer, 3)
	if g.n(3) == 0 {
		et := g.scalarOf(KInt)
		_ = et
		o.line("emit(\"rec\", itoa(int(rec(%d, %d))))", 1+g.n(6), g.n(5))
	}
	g.emitVars(o, sc, "end")
	g.closeScope(o, sc)
	o.ind--
	o.line("}\n")
	b.WriteString(o.b.String())
}
