package progen

import (
	"fmt"
	"regexp"
	"strings"
)

type out struct {
	b   strings.Builder
	ind int
}

func (o *out) line(format string, a ...any) {
	o.b.WriteString(strings.Repeat("\t", o.ind))
	fmt.Fprintf(&o.b, format, a...)
	o.b.WriteByte('\n')
}

func (g *Gen) anyType() *Type {
	return g.U.Types[g.n(len(g.U.Types))]
}

func (g *Gen) declare(sc *Scope, name string, t *Type) {
	sc.Vars = append(sc.Vars, Var{Name: name, T: t})
	sc.Decl = append(sc.Decl, name)
}

// closeScope emits uses of everything declared in the scope (Go rejects unused variables).
func (g *Gen) closeScope(o *out, sc *Scope) {
	for _, n := range sc.Decl {
		o.line("_ = %s", n)
	}
}

func (g *Gen) showOf(t *Type, e string) string {
	return "show_" + t.ID + "(" + e + ")"
}

// emitVars prints a few variables of the scope – the observable state.
func (g *Gen) emitVars(o *out, sc *Scope, tag string) {
	vs := sc.all()
	if len(vs) == 0 {
		o.line("emit(%q, \"\")", tag)
		return
	}
	n := 1 + g.n(3)
	var parts []string
	for i := 0; i < n; i++ {
		v := vs[g.n(len(vs))]
		if v.T.Kind == KFunc || v.T.Kind == KIface {
			continue
		}
		parts = append(parts, g.showOf(v.T, v.Name))
	}
	if len(parts) == 0 {
		parts = []string{`""`}
	}
	o.line("emit(%q, %s)", tag, strings.Join(parts, " + \"|\" + "))
}

// block generates n statements into o under scope sc.
func (g *Gen) block(o *out, sc *Scope, n, depth int) {
	for i := 0; i < n; i++ {
		g.stmt(o, sc, depth)
	}
}

func (g *Gen) stmt(o *out, sc *Scope, depth int) {
	if g.Opt.Yield && g.n(6) == 0 {
		g.yk++
		g.stat("y")
		o.line("y(%d)", g.yk)
	}
	k := g.n(36)
	if depth <= 0 && k >= 8 && k <= 17 {
		k = g.n(8)
	}
	switch k {
	case 0, 1:
		t := g.anyType()
		name := g.shadowName(sc)
		e := g.expr(t, sc, 2)
		if g.n(3) == 0 {
			o.line("var %s %s = %s", name, t.Name, e)
		} else if isUntypedNil(e) || needsType(t, e) {
			o.line("var %s %s = %s", name, t.Name, e)
		} else {
			o.line("%s := %s", name, e)
		}
		g.declare(sc, name, t)
		g.stat("define")
	case 2:
		t := g.anyType()
		name := g.shadowName(sc)
		o.line("var %s %s", name, t.Name)
		g.declare(sc, name, t)
		g.stat("vardecl")
	case 3, 4:
		g.assign(o, sc)
	case 5:
		g.emitVars(o, sc, fmt.Sprintf("s%d", g.n(1000)))
	case 6:
		g.opAssign(o, sc)
	case 7:
		g.callStmt(o, sc)
	case 8, 9:
		g.ifStmt(o, sc, depth)
	case 10:
		g.switchStmt(o, sc, depth)
	case 11, 12:
		g.forStmt(o, sc, depth)
	case 13:
		g.rangeStmt(o, sc, depth)
	case 14:
		g.closureStmt(o, sc, depth)
	case 15:
		g.typeSwitchStmt(o, sc, depth)
	case 16:
		// nested block with its own scope (shadowing)
		o.line("{")
		o.ind++
		c := sc.child()
		g.block(o, c, 1+g.n(3), depth-1)
		g.closeScope(o, c)
		o.ind--
		o.line("}")
		g.stat("block")
	case 17:
		g.gotoStmt(o, sc, depth)
	case 18:
		g.swapStmt(o, sc)
	case 19:
		g.pointerStmt(o, sc)
	case 20:
		g.sliceMapStmt(o, sc)
	case 21:
		g.deferStmt(o, sc)
	case 22:
		g.branchStmt(o, sc)
	case 23:
		g.methodStmt(o, sc)
	case 24:
		g.tupleStmt(o, sc)
	case 25:
		g.tupleIndexStmt(o, sc)
	case 26:
		g.redeclareStmt(o, sc)
	case 27:
		g.argOrderStmt(o, sc)
	case 28:
		g.divStmt(o, sc)
	case 30:
		g.flatSwitchStmt(o, sc)
	case 29:
		// functions whose named results are shadowed at their return statements
		a := g.expr(g.U.TI, sc, 1)
		switch g.n(3) {
		case 0:
			o.line("if r, ok := nr0(%s); ok || r != 0 {", a)
			o.line("\temit(\"nr\", itoa(int(r))+btoa(ok))")
			o.line("}")
		case 1:
			o.line("{")
			o.line("\tr, ok := nr1(%s)", a)
			o.line("\temit(\"nr\", itoa(int(r))+btoa(ok))")
			o.line("}")
		default:
			o.line("{")
			o.line("\tx, y := nr2(%s)", a)
			o.line("\temit(\"nr\", itoa(int(x))+\",\"+itoa(int(y)))")
			o.line("}")
		}
		g.stat("named-result-shadow")
	default:
		g.assign(o, sc)
	}
}

func isUntypedNil(e string) bool { return e == "nil" }

// needsType: := would infer a different type than t (untyped constants default to int/float64/…).
func needsType(t *Type, e string) bool {
	if t.Kind == KBool && !t.Named && (e == "true" || e == "false") {
		return false
	}
	if t.Kind == KString && !t.Named && strings.HasPrefix(e, "\"") {
		return false
	}
	// all other literals carry an explicit conversion T(…); expressions are typed
	return false
}

func (g *Gen) assign(o *out, sc *Scope) {
	t := g.anyType()
	ps := g.paths(t, sc, true)
	if len(ps) == 0 {
		g.emitVars(o, sc, "a")
		return
	}
	p := ps[g.n(len(ps))]
	o.line("%s = %s", p, g.expr(t, sc, 2))
	g.stat("assign")
}

func (g *Gen) opAssign(o *out, sc *Scope) {
	t := g.scalarOf([]Kind{KInt, KInt, KFloat, KString}[g.n(4)])
	ps := g.paths(t, sc, true)
	// also elements of slices / maps with side-effecting index expressions
	for _, v := range sc.all() {
		if v.T.Kind == KSlice && v.T.Elem == t {
			ps = append(ps, fmt.Sprintf("%s[ix(next(), len(%s))]", v.Name, v.Name))
			// the index operand is evaluated once, also when it is wrapped in a conversion
			ps = append(ps, fmt.Sprintf("%s[%s(ix(next(), len(%s)))]", v.Name, []string{"int8", "uint16", "int64", "uint"}[g.n(4)], v.Name))
		}
		if v.T.Kind == KMap && v.T.Elem == t {
			ks := keyLits(v.T.Key)
			ps = append(ps, fmt.Sprintf("%s[%s]", v.Name, ks[g.n(len(ks))]))
		}
	}
	if len(ps) == 0 {
		return
	}
	p := ps[g.n(len(ps))]
	if i := strings.Index(p, "[ix(next(), len("); i >= 0 || strings.Contains(p, "(ix(next(), len(") {
		// an empty slice makes the element operation panic; whether that happens before or
		// after the calls on the right-hand side is not specified, so it is kept out
		name := p[:strings.Index(p, "[")]
		o.line("if len(%s) > 0 {", name)
		o.ind++
		defer func() {
			o.ind--
			o.line("}")
		}()
	}
	switch t.Kind {
	case KInt:
		switch g.n(4) {
		case 0:
			o.line("%s++", p)
		case 1:
			o.line("%s--", p)
		case 2:
			o.line("%s %s= %s", p, []string{"+", "-", "*", "&", "|", "^", "&^"}[g.n(7)], g.expr(t, sc, 1))
		default:
			o.line("%s %s= %d", p, []string{"<<", ">>"}[g.n(2)], g.n(t.Bits+2))
		}
	case KFloat:
		o.line("%s %s= %s", p, []string{"+", "-", "*"}[g.n(3)], g.expr(t, sc, 1))
	case KString:
		o.line("%s += %s", p, g.expr(t, sc, 1))
	}
	g.stat("opassign")
}

func (g *Gen) callStmt(o *out, sc *Scope) {
	if len(g.Fns) == 0 {
		return
	}
	f := g.Fns[g.n(len(g.Fns))]
	if f.Recv != nil || f.Multi {
		return
	}
	c := g.call(f, sc, 1)
	if f.Result != nil && g.n(2) == 0 {
		o.line("_ = %s", c)
	} else if f.Result != nil {
		o.line("emit(\"c\", %s)", g.showOf(f.Result, c))
	} else {
		o.line("%s", c)
	}
}

func (g *Gen) ifStmt(o *out, sc *Scope, depth int) {
	c := sc.child()
	if g.n(3) == 0 {
		// init statement (hoisted by the simplifier)
		t := g.scalarOf(KInt)
		name := g.newName(c)
		o.line("if %s := %s; %s > %s {", name, g.expr(t, sc, 1), name, g.lit(t))
		g.declare(c, name, t)
		c.Decl = c.Decl[:len(c.Decl)-1] // used in the condition
	} else {
		o.line("if %s {", g.expr(g.U.TBool, sc, 2))
	}
	o.ind++
	in := c.child()
	g.block(o, in, 1+g.n(3), depth-1)
	g.closeScope(o, in)
	o.ind--
	for g.n(3) == 0 {
		o.line("} else if %s {", g.expr(g.U.TBool, c, 2))
		o.ind++
		in := c.child()
		g.block(o, in, 1+g.n(2), depth-1)
		g.closeScope(o, in)
		o.ind--
	}
	if g.n(2) == 0 {
		o.line("} else {")
		o.ind++
		in := c.child()
		g.block(o, in, 1+g.n(2), depth-1)
		g.closeScope(o, in)
		o.ind--
	}
	o.line("}")
	g.stat("if")
}

func (g *Gen) switchStmt(o *out, sc *Scope, depth int) {
	c := sc.child()
	if g.n(3) == 0 {
		// tagless
		o.line("switch {")
		n := 1 + g.n(3)
		for i := 0; i < n; i++ {
			o.line("case %s:", g.expr(g.U.TBool, sc, 2))
			g.caseBody(o, c, depth, i < n-1)
		}
		if g.n(2) == 0 {
			o.line("default:")
			g.caseBody(o, c, depth, false)
		}
		o.line("}")
		g.stat("switch-tagless")
		return
	}
	var t *Type
	if g.n(3) == 0 {
		t = g.U.TStr
	} else {
		t = g.scalarOf(KInt)
		for t.Named {
			t = g.scalarOf(KInt)
		}
	}
	tag := g.expr(t, sc, 2)
	if g.n(3) == 0 {
		name := g.newName(c)
		o.line("switch %s := %s; %s {", name, tag, name)
		g.declare(c, name, t)
		c.Decl = c.Decl[:len(c.Decl)-1]
	} else {
		o.line("switch %s {", tag)
	}
	n := 1 + g.n(4)
	defAt := -1
	if g.n(2) == 0 {
		defAt = g.n(n + 1)
	}
	used := map[string]bool{}
	for i := 0; i <= n; i++ {
		if i == defAt {
			o.line("default:")
			g.caseBody(o, c, depth, i < n)
		}
		if i == n {
			break
		}
		var vals []string
		for j := 0; j <= g.n(3); j++ {
			var v string
			if t.Kind == KString {
				v = []string{`""`, `"a"`, `"hello"`, `"é"`, `"b"`, `"$"`}[g.n(6)]
			} else {
				v = fmt.Sprint(g.n(12))
			}
			if !used[v] {
				used[v] = true
				vals = append(vals, v)
			}
		}
		if len(vals) == 0 {
			// a non-constant case expression
			// (always through id(): a constant expression would be checked for duplicates)
			vals = []string{"id(" + g.expr(t, sc, 1) + ")"}
		}
		o.line("case %s:", strings.Join(vals, ", "))
		g.caseBody(o, c, depth, i < n-1 || (defAt == n))
	}
	o.line("}")
	g.stat("switch")
}

func (g *Gen) caseBody(o *out, sc *Scope, depth int, mayFallthrough bool) {
	o.ind++
	in := sc.child()
	g.block(o, in, 1+g.n(2), depth-1)
	if in.Loop > 0 && g.n(8) == 0 {
		// break inside switch leaves the switch, not the loop
		o.line("if %s {", g.expr(g.U.TBool, in, 1))
		o.line("\tbreak")
		o.line("}")
	}
	g.closeScope(o, in)
	if mayFallthrough && g.n(4) == 0 {
		o.line("fallthrough")
		g.stat("fallthrough")
	}
	o.ind--
}

func (g *Gen) forStmt(o *out, sc *Scope, depth int) {
	c := sc.child()
	c.Loop++
	label := ""
	if g.n(3) == 0 {
		g.nlab++
		label = fmt.Sprintf("L%d", g.nlab)
		if g.n(3) == 0 {
			label = []string{"function", "typeof", "yield", "await", "let", "class", "delete"}[g.n(7)] + fmt.Sprint(g.nlab)
		}
		if g.n(6) == 0 && !g.usedLabelS[sc.Fn] {
			// the very label the resumable form of a function uses itself
			if g.usedLabelS == nil {
				g.usedLabelS = map[*FuncCtx]bool{}
			}
			g.usedLabelS[sc.Fn] = true
			label = "s"
		}
	}
	form := g.n(4)
	iv := g.newName(c)
	if form >= 2 {
		iv = g.newName(sc)
	}
	bound := 1 + g.n(5)
	lab := func() {
		if label != "" {
			o.ind--
			o.line("%s:", label)
			o.ind++
			c.Labels = append(append([]string{}, sc.Labels...), label)
		}
	}
	switch form {
	case 0, 1:
		lab()
		if g.n(4) == 0 {
			o.line("for %s := I(%d); %s > 0; %s -= 1 {", iv, bound, iv, iv)
		} else {
			o.line("for %s := I(0); %s < %d; %s++ {", iv, iv, bound, iv)
		}
		c.Vars = append(c.Vars, Var{Name: iv, T: g.U.TI, NoAssign: true})
	case 2:
		o.line("%s := I(0)", iv)
		sc.Vars = append(sc.Vars, Var{Name: iv, T: g.U.TI, NoAssign: true})
		sc.Decl = append(sc.Decl, iv)
		lab()
		o.line("for %s < %d {", iv, bound)
		o.ind++
		o.line("%s++", iv)
		o.ind--
	default:
		o.line("%s := I(0)", iv)
		sc.Vars = append(sc.Vars, Var{Name: iv, T: g.U.TI, NoAssign: true})
		sc.Decl = append(sc.Decl, iv)
		lab()
		o.line("for {")
		o.ind++
		o.line("%s++", iv)
		o.line("if %s > %d {", iv, bound)
		o.line("\tbreak")
		o.line("}")
		o.ind--
	}
	o.ind++
	in := c.child()
	g.block(o, in, 1+g.n(3), depth-1)
	g.closeScope(o, in)
	o.ind--
	o.line("}")
	if label != "" && !strings.Contains(o.b.String(), " "+label+"\n") {
		// Go rejects unused labels: make sure it is used at least once
		// (the loop body may not have produced a labelled branch)
		g.patchLabelUse(o, label)
	}
	g.stat("for")
}

// patchLabelUse appends, after the loop, a tiny labelled loop use – implemented by rewriting the
// label line into a no-op if it was never referenced.
func (g *Gen) patchLabelUse(o *out, label string) {
	s := o.b.String()
	idx := strings.LastIndex(s, label+":\n")
	if idx < 0 {
		return
	}
	// remove the label line
	start := strings.LastIndex(s[:idx], "\n") + 1
	ns := s[:start] + s[idx+len(label)+2:]
	o.b.Reset()
	o.b.WriteString(ns)
}

func (g *Gen) branchStmt(o *out, sc *Scope) {
	if sc.Loop == 0 {
		g.assign(o, sc)
		return
	}
	kw := []string{"break", "continue"}[g.n(2)]
	target := ""
	if len(sc.Labels) > 0 && g.n(2) == 0 {
		target = " " + sc.Labels[g.n(len(sc.Labels))]
	}
	o.line("if %s {", g.expr(g.U.TBool, sc, 1))
	o.line("\t%s%s", kw, target)
	o.line("}")
	g.stat(kw)
}

func (g *Gen) rangeStmt(o *out, sc *Scope, depth int) {
	c := sc.child()
	c.Loop++
	var cands []Var
	for _, v := range sc.all() {
		switch v.T.Kind {
		case KSlice, KArray, KString, KMap:
			cands = append(cands, v)
		}
	}
	if len(cands) == 0 {
		g.forStmt(o, sc, depth)
		return
	}
	v := cands[g.n(len(cands))]
	kn, vn := g.newName(c), ""
	switch v.T.Kind {
	case KMap:
		// order-insensitive body only: commutative accumulation
		acc := g.newName(sc)
		kn = g.newName(c) // drawn after acc so that the two cannot coincide
		o.line("%s := 0", acc)
		sc.Decl = append(sc.Decl, acc) // plain int, not a variable of the universe
		o.line("for %s, e := range %s {", kn, v.Name)
		o.line("\t%s += len(show_%s(%s)) + len(show_%s(e))", acc, v.T.Key.ID, kn, v.T.Elem.ID)
		o.line("}")
		o.line("emit(\"rm\", itoa(%s))", acc)
		g.stat("range-map")
		return
	case KString:
		vn = g.newName(c)
		for vn == kn {
			vn = g.newName(c)
		}
		src := v.Name
		if v.T.Named {
			src = "string(" + v.Name + ")"
		}
		o.line("for %s, %s := range %s {", kn, vn, src)
		o.ind++
		o.line("emit(\"rs\", itoa(%s)+\":\"+itoa(int(%s)))", kn, vn)
		g.stat("range-string")
	default:
		vn = g.newName(c)
		for vn == kn {
			vn = g.newName(c)
		}
		form := g.n(4)
		src := v.Name
		if v.T.Kind == KArray && g.n(3) == 0 {
			src = "&" + v.Name // range over pointer to array
		}
		switch form {
		case 0:
			o.line("for %s := range %s {", kn, src)
			o.ind++
			o.line("emit(\"rk\", itoa(%s))", kn)
		case 1:
			o.line("for _, %s := range %s {", vn, src)
			o.ind++
			c.Vars = append(c.Vars, Var{Name: vn, T: v.T.Elem})
			o.line("emit(\"rv\", %s)", g.showOf(v.T.Elem, vn))
		default:
			o.line("for %s, %s := range %s {", kn, vn, src)
			o.ind++
			c.Vars = append(c.Vars, Var{Name: vn, T: v.T.Elem})
			o.line("emit(\"rkv\", itoa(%s)+\"=\"+%s)", kn, g.showOf(v.T.Elem, vn))
		}
		g.stat("range-seq")
	}
	in := c.child()
	g.block(o, in, 1+g.n(2), depth-1)
	g.closeScope(o, in)
	o.ind--
	o.line("}")
}

func (g *Gen) closureStmt(o *out, sc *Scope, depth int) {
	t := g.scalarOf([]Kind{KInt, KString, KInt}[g.n(3)])
	name := g.newName(sc)
	switch g.n(4) {
	case 3:
		// function literal called on the spot (also deferred / with arguments) that writes
		// captured variables, possibly after it was suspended: the enclosing function sees the
		// writes
		ps := g.paths(t, sc, true)
		if len(ps) == 0 {
			o.line("%s := %s", name, g.expr(t, sc, 1))
			g.declare(sc, name, t)
			return
		}
		p := ps[g.n(len(ps))]
		o.line("%s := %s", name, g.expr(t, sc, 1))
		g.declare(sc, name, t)
		form := g.n(3)
		if form == 1 && (g.Opt.NoDefer || sc.Loop > 0) {
			form = 0
		}
		head := []string{"func() {", "defer func() {", "func(arg " + t.Name + ") {"}[form]
		o.line("%s", head)
		o.ind++
		if g.Opt.Yield {
			g.yk++
			o.line("y(%d)", g.yk)
		}
		if form == 2 {
			o.line("%s = arg", p)
		} else {
			o.line("%s = %s", p, g.expr(t, sc, 1))
		}
		if g.Opt.Yield {
			g.yk++
			o.line("y(%d)", g.yk)
		}
		o.line("%s = %s", name, p)
		o.ind--
		o.line("%s", []string{"}()", "}()", "}(" + g.expr(t, sc, 1) + ")"}[form])
		o.line("emit(\"iife\", %s+\"|\"+%s)", g.showOf(t, p), g.showOf(t, name))
		g.stat("closure-immediate")
		return
	case 0:
		// closure with a parameter, called twice
		c := sc.child()
		pn := g.newName(c)
		o.line("%s := func(%s %s) %s {", name, pn, t.Name, t.Name)
		o.ind++
		c.Fn = &FuncCtx{Result: t}
		c.Loop = 0
		c.Labels = nil
		c.Vars = append(c.Vars, Var{Name: pn, T: t})
		g.block(o, c, 1+g.n(2), depth-1)
		g.closeScope(o, c)
		o.line("return %s", g.expr(t, c, 2))
		o.ind--
		o.line("}")
		o.line("emit(\"cl\", %s)", g.showOf(t, name+"("+g.expr(t, sc, 1)+")")+" + "+g.showOf(t, name+"("+g.expr(t, sc, 1)+")"))
	case 1:
		// closures created in a loop capturing the per-iteration variable, called afterwards
		iv := g.newName(sc)
		o.line("var %s []func() %s", name, t.Name)
		o.line("for %s := I(0); %s < %d; %s++ {", iv, iv, 2+g.n(3), iv)
		o.ind++
		c := sc.child()
		c.Vars = append(c.Vars, Var{Name: iv, T: g.U.TI, NoAssign: true})
		loc := g.newName(c)
		o.line("%s := %s", loc, g.expr(t, c, 1))
		c.Vars = append(c.Vars, Var{Name: loc, T: t})
		o.line("%s = append(%s, func() %s {", name, name, t.Name)
		o.line("\temit(\"cap\", itoa(int(%s))+%s)", iv, g.showOf(t, loc))
		if t.Kind == KInt {
			o.line("\t%s++", loc)
		}
		o.line("\treturn %s", loc)
		o.line("})")
		o.ind--
		o.line("}")
		o.line("for _, f := range %s {", name)
		o.line("\temit(\"clr\", %s)", g.showOf(t, "f()"))
		o.line("\temit(\"clr\", %s)", g.showOf(t, "f()"))
		o.line("}")
	default:
		// closure mutating a captured variable
		ps := g.paths(t, sc, true)
		if len(ps) == 0 {
			o.line("%s := %s", name, g.expr(t, sc, 1))
			g.declare(sc, name, t)
			return
		}
		p := ps[g.n(len(ps))]
		o.line("%s := func() {", name)
		o.line("\t%s = %s", p, g.expr(t, sc, 2))
		o.line("}")
		o.line("%s()", name)
		o.line("emit(\"clm\", %s)", g.showOf(t, p))
	}
	o.line("_ = %s", name)
	g.stat("closure")
}

func (g *Gen) typeSwitchStmt(o *out, sc *Scope, depth int) {
	// box a value of a random type and dispatch on it. I/U/P are aliases of int32/uint32 on the
	// reference side only, so types that coincide there are represented by one of them.
	var ts []*Type
	seenCanon := map[string]bool{}
	for i := 0; i < 4; i++ {
		t := g.anyType()
		if !seenCanon[canonName(t.Name)] {
			seenCanon[canonName(t.Name)] = true
			ts = append(ts, t)
		}
	}
	boxed := ts[g.n(len(ts))]
	if !g.Opt.BoxStruct && (boxed.Kind == KStruct || boxed.Kind == KArray) {
		boxed = ts[0]
		if boxed.Kind == KStruct || boxed.Kind == KArray {
			boxed = g.U.TBool
		}
	}
	iv := g.newName(sc)
	o.line("var %s interface{} = %s", iv, g.expr(boxed, sc, 2))
	sc.Decl = append(sc.Decl, iv)
	bind := g.newName(sc)
	o.line("switch %s := %s.(type) {", bind, iv)
	for _, t := range ts {
		o.line("case %s:", t.Name)
		o.line("\temit(\"ts\", %q+%s)", t.Name+"=", g.showOf(t, bind))
	}
	if g.n(2) == 0 {
		o.line("case nil:")
		o.line("\temit(\"ts\", \"nil\")")
		o.line("\t_ = %s", bind)
	}
	o.line("default:")
	o.line("\temit(\"ts\", \"other\")")
	o.line("\t_ = %s", bind)
	o.line("}")
	// comma-ok assertion
	at := ts[g.n(len(ts))]
	o.line("if a, ok := %s.(%s); ok {", iv, at.Name)
	o.line("\temit(\"as\", %s)", g.showOf(at, "a"))
	o.line("}")
	g.stat("typeswitch")
}

func (g *Gen) gotoStmt(o *out, sc *Scope, depth int) {
	if g.Opt.NoGoto {
		g.assign(o, sc)
		return
	}
	g.nlab++
	l := fmt.Sprintf("G%d", g.nlab)
	cnt := g.newName(sc)
	// backward goto forming a bounded loop; no declarations between label and goto
	o.line("%s := I(0)", cnt)
	sc.Vars = append(sc.Vars, Var{Name: cnt, T: g.U.TI, NoAssign: true})
	sc.Decl = append(sc.Decl, cnt)
	o.ind--
	o.line("%s:", l)
	o.ind++
	o.line("%s++", cnt)
	g.assign(o, sc)
	g.emitVars(o, sc, "g")
	o.line("if %s < %d {", cnt, 1+g.n(3))
	o.line("\tgoto %s", l)
	o.line("}")
	g.stat("goto")
}

func (g *Gen) swapStmt(o *out, sc *Scope) {
	t := g.anyType()
	ps := g.paths(t, sc, true)
	if len(ps) < 2 {
		g.assign(o, sc)
		return
	}
	a, b := ps[g.n(len(ps))], ps[g.n(len(ps))]
	if a == b || strings.HasPrefix(a, b) || strings.HasPrefix(b, a) {
		g.assign(o, sc)
		return
	}
	switch g.n(3) {
	case 0:
		o.line("%s, %s = %s, %s", a, b, b, a)
	case 1:
		o.line("%s, %s = %s, %s", a, b, g.expr(t, sc, 1), a)
	default:
		o.line("%s, %s = %s, %s", a, b, b, g.expr(t, sc, 1))
	}
	g.stat("swap")
}

func (g *Gen) pointerStmt(o *out, sc *Scope) {
	t := g.anyType()
	if t.Kind == KMap || t.Kind == KFunc {
		t = g.U.TI
	}
	ps := g.paths(t, sc, true)
	if len(ps) == 0 {
		return
	}
	p := ps[g.n(len(ps))]
	pn := g.newName(sc)
	o.line("%s := &%s", pn, p)
	o.line("*%s = %s", pn, g.expr(t, sc, 2))
	o.line("emit(\"p\", %s+\"|\"+%s+\"|\"+btoa(%s == &%s))", g.showOf(t, "*"+pn), g.showOf(t, p), pn, p)
	if t.Kind == KInt && g.n(2) == 0 {
		o.line("*%s++", pn)
		o.line("emit(\"p2\", %s)", g.showOf(t, p))
	}
	g.stat("pointer")
}

func (g *Gen) sliceMapStmt(o *out, sc *Scope) {
	for _, v := range sc.all() {
		if v.NoAssign {
			continue
		}
		switch v.T.Kind {
		case KSlice:
			if g.n(2) == 0 {
				continue
			}
			switch g.n(4) {
			case 0:
				o.line("%s = append(%s, %s)", v.Name, v.Name, g.expr(v.T.Elem, sc, 1))
			case 1:
				o.line("if len(%s) > 0 {", v.Name)
				o.line("\t%s[ix(%s, len(%s))] = %s", v.Name, g.expr(g.U.TI, sc, 1), v.Name, g.expr(v.T.Elem, sc, 1))
				o.line("}")
			case 2:
				o.line("emit(\"cp\", itoa(copy(%s, %s)))", v.Name, g.expr(v.T, sc, 1))
			default:
				o.line("%s = %s[clamp(%s, len(%s)):]", v.Name, v.Name, g.expr(g.U.TI, sc, 1), v.Name)
			}
			o.line("emit(\"sl\", %s)", g.showOf(v.T, v.Name))
			g.stat("slice-op")
			return
		case KMap:
			if g.n(2) == 0 {
				continue
			}
			ks := keyLits(v.T.Key)
			k := ks[g.n(len(ks))]
			switch g.n(3) {
			case 0:
				o.line("if %s != nil {", v.Name)
				o.line("\t%s[%s] = %s", v.Name, k, g.expr(v.T.Elem, sc, 1))
				o.line("}")
			case 1:
				o.line("delete(%s, %s)", v.Name, k)
			default:
				o.line("if e, ok := %s[%s]; ok {", v.Name, k)
				o.line("\temit(\"mg\", %s)", g.showOf(v.T.Elem, "e"))
				o.line("}")
			}
			o.line("emit(\"mp\", %s)", g.showOf(v.T, v.Name))
			g.stat("map-op")
			return
		}
	}
	g.assign(o, sc)
}

func (g *Gen) deferStmt(o *out, sc *Scope) {
	if g.Opt.NoDefer || sc.Loop > 0 {
		g.assign(o, sc)
		return
	}
	t := g.scalarOf(KInt)
	switch g.n(4) {
	case 3:
		// the deferred function changes variables after the results of a later return
		// statement have been evaluated (and may suspend while it does so)
		o.line("defer func() {")
		o.ind++
		if g.Opt.Yield {
			g.yk++
			o.line("y(%d)", g.yk)
		}
		c := sc.child()
		g.assign(o, c)
		g.opAssign(o, c)
		if g.Opt.Yield {
			g.yk++
			o.line("y(%d)", g.yk)
		}
		g.emitVars(o, sc, "dm")
		o.ind--
		o.line("}()")
		g.stat("defer-mutate")
		return
	case 0:
		// argument evaluated at the defer statement
		o.line("defer emit(\"d\", %s)", g.showOf(t, g.expr(t, sc, 1)))
	case 1:
		o.line("defer func() {")
		o.ind++
		g.emitVars(o, sc, "dc")
		o.ind--
		o.line("}()")
	default:
		o.line("defer func(a %s) {", t.Name)
		o.line("\temit(\"da\", %s)", g.showOf(t, "a"))
		o.line("}(%s)", g.expr(t, sc, 1))
	}
	g.stat("defer")
}

func (g *Gen) methodStmt(o *out, sc *Scope) {
	var c []*Fn
	for _, f := range g.Fns {
		if f.Recv != nil {
			c = append(c, f)
		}
	}
	if len(c) == 0 {
		g.assign(o, sc)
		return
	}
	f := c[g.n(len(c))]
	ps := g.paths(f.Recv, sc, true)
	if len(ps) == 0 {
		return
	}
	recv := ps[g.n(len(ps))]
	args := make([]string, len(f.Params))
	for i, p := range f.Params {
		args[i] = g.expr(p, sc, 1)
	}
	call := recv + "." + f.Name + "(" + strings.Join(args, ", ") + ")"
	switch g.n(6) {
	case 0:
		// method value
		mv := g.newName(sc)
		o.line("%s := %s.%s", mv, recv, f.Name)
		call = mv + "(" + strings.Join(args, ", ") + ")"
	case 4:
		// method value bound before the receiver variable changes: a value receiver was copied
		// at binding time, a pointer receiver sees the change
		mv := g.newName(sc)
		o.line("%s := %s.%s", mv, recv, f.Name)
		o.line("%s = %s", recv, g.expr(f.Recv, sc, 1))
		call = mv + "(" + strings.Join(args, ", ") + ")"
	case 5:
		// deferred method call: receiver and arguments are evaluated at the defer statement
		if !g.Opt.NoDefer && sc.Loop == 0 {
			o.line("defer %s", call)
			o.line("%s = %s", recv, g.expr(f.Recv, sc, 1))
			o.line("emit(\"mr\", %s)", g.showOf(f.Recv, recv))
			g.stat("method-defer")
			return
		}
	case 1:
		// method expression
		rt := f.Recv.Name
		r := recv
		if f.Ptr {
			rt = "(*" + rt + ")"
			r = "&" + recv
		}
		call = rt + "." + f.Name + "(" + strings.Join(append([]string{r}, args...), ", ") + ")"
	}
	if f.Result != nil {
		o.line("emit(\"m\", %s)", g.showOf(f.Result, call))
	} else {
		o.line("%s", call)
	}
	o.line("emit(\"mr\", %s)", g.showOf(f.Recv, recv))
	g.stat("method")
}

func (g *Gen) tupleStmt(o *out, sc *Scope) {
	// multi-value call and comma-ok forms
	var c []*Fn
	for _, f := range g.Fns {
		if f.Multi {
			c = append(c, f)
		}
	}
	if len(c) == 0 {
		g.assign(o, sc)
		return
	}
	f := c[g.n(len(c))]
	a, b := g.newName(sc), g.newName(sc)
	for a == b {
		b = g.newName(sc)
	}
	args := make([]string, len(f.Params))
	for i, p := range f.Params {
		args[i] = g.expr(p, sc, 1)
	}
	o.line("%s, %s := %s(%s)", a, b, f.Name, strings.Join(args, ", "))
	o.line("emit(\"t\", %s+\",\"+%s)", g.showOf(f.Result, a), g.showOf(g.U.TBool, b))
	// tuple forwarding f(g())
	o.line("emit(\"tf\", tupUse_%s(%s(%s)))", f.Result.ID, f.Name, strings.Join(args, ", "))
	g.stat("tuple")
}

var aliasRe = regexp.MustCompile(`\b[IUP]\b`)

// canonName maps a type spelling to the spelling the reference side sees (I→int32, U/P→uint32).
func canonName(n string) string {
	return aliasRe.ReplaceAllStringFunc(n, func(m string) string {
		if m == "I" {
			return "int32"
		}
		return "uint32"
	})
}

// tupleIndexStmt: the index operand on the left of a tuple assignment is evaluated before any
// of the assignments happens (i, a[i] = 1, x assigns to a[old i]).
func (g *Gen) tupleIndexStmt(o *out, sc *Scope) {
	t := g.scalarOf(KInt)
	iv, sv := g.newName(sc), g.newName(sc)
	o.line("%s := []%s{%s, %s, %s}", sv, t.Name, g.expr(t, sc, 1), g.expr(t, sc, 1), g.expr(t, sc, 1))
	o.line("%s := I(0)", iv)
	switch g.n(3) {
	case 0:
		o.line("%s, %s[%s] = 2, %s", iv, sv, iv, g.expr(t, sc, 1))
	case 1:
		o.line("%s[%s], %s = %s, 1", sv, iv, iv, g.expr(t, sc, 1))
	default:
		o.line("%s, %s[%s], %s[%s+1] = 1, %s[%s+1], %s[%s]", iv, sv, iv, sv, iv, sv, iv, sv, iv)
	}
	o.line("emit(\"ti\", itoa(int(%s))+%s+%s+%s)", iv, g.showOf(t, sv+"[0]"), g.showOf(t, sv+"[1]"), g.showOf(t, sv+"[2]"))
	g.stat("tuple-index")
}

// redeclareStmt: a := statement that redeclares an existing array/struct variable assigns to
// it (pointers taken before still see the variable).
func (g *Gen) redeclareStmt(o *out, sc *Scope) {
	t := g.U.pick(func(x *Type) bool { return x.Kind == KStruct || x.Kind == KArray })
	if t.Kind != KStruct && t.Kind != KArray {
		g.assign(o, sc)
		return
	}
	a, p, nb := g.newName(sc), g.newName(sc), g.newName(sc)
	o.line("%s := %s", a, g.composite(t, sc, 1))
	o.line("%s := &%s", p, a)
	switch g.n(5) {
	case 0:
		o.line("%s, %s := %s, %s", a, nb, g.composite(t, sc, 1), g.expr(g.U.TI, sc, 1))
		o.line("emit(\"rd\", %s+\"|\"+%s+\"|\"+itoa(int(%s))+btoa(%s == &%s))", g.showOf(t, "*"+p), g.showOf(t, a), nb, p, a)
	case 1:
		// the right-hand side is one tuple: map lookup
		o.line("%s, %s := map[string]%s{\"k\": %s}[\"k\"]", a, nb, t.Name, g.composite(t, sc, 1))
		o.line("emit(\"rd\", %s+\"|\"+%s+\"|\"+btoa(%s)+btoa(%s == &%s))", g.showOf(t, "*"+p), g.showOf(t, a), nb, p, a)
	case 2:
		// type assertion
		o.line("%s, %s := interface{}(%s).(%s)", a, nb, g.composite(t, sc, 1), t.Name)
		o.line("emit(\"rd\", %s+\"|\"+%s+\"|\"+btoa(%s)+btoa(%s == &%s))", g.showOf(t, "*"+p), g.showOf(t, a), nb, p, a)
	case 3:
		// function call
		o.line("%s, %s := func() (%s, bool) { return %s, true }()", a, nb, t.Name, g.composite(t, sc, 1))
		o.line("emit(\"rd\", %s+\"|\"+%s+\"|\"+btoa(%s)+btoa(%s == &%s))", g.showOf(t, "*"+p), g.showOf(t, a), nb, p, a)
	default:
		// channel receive
		ch := g.newName(sc)
		o.line("%s := make(chan %s, 1)", ch, t.Name)
		o.line("%s <- %s", ch, g.composite(t, sc, 1))
		o.line("%s, %s := <-%s", a, nb, ch)
		o.line("emit(\"rd\", %s+\"|\"+%s+\"|\"+btoa(%s)+btoa(%s == &%s))", g.showOf(t, "*"+p), g.showOf(t, a), nb, p, a)
	}
	g.stat("redeclare")
}

// argOrderStmt: the operands of a call are evaluated in source order, whatever mixture of
// suspending and plain calls they are (each seq traces the moment it runs).
func (g *Gen) argOrderStmt(o *out, sc *Scope) {
	n := 2 + g.n(5)
	args := make([]string, n)
	for i := range args {
		k := g.n(90) + 10
		switch c := g.n(5); {
		case c == 0 && g.Opt.Yield:
			g.yk++
			args[i] = fmt.Sprintf("yv(%d, seq(%d))", g.yk, k)
		case c == 1 && g.Opt.Yield:
			g.yk++
			args[i] = fmt.Sprintf("seq(%d)+yv(%d, I(1))", k, g.yk)
		case c == 2:
			args[i] = fmt.Sprint(k)
		case c == 3:
			args[i] = fmt.Sprintf("seq(%d)*next()", k)
		default:
			args[i] = fmt.Sprintf("seq(%d)", k)
		}
	}
	a := strings.Join(args, ", ")
	switch g.n(4) {
	case 0:
		o.line("emit(\"ao\", aoT{%s}.m(%s))", args[0], strings.Join(args[1:], ", "))
	case 1:
		if !g.Opt.NoDefer && sc.Loop == 0 {
			o.line("defer aoEmit(%s)", a)
			break
		}
		fallthrough
	default:
		o.line("emit(\"ao\", ao(%s))", a)
	}
	g.stat("arg-order")
}

// divStmt: an integer division or remainder whose divisor may be zero (a deterministic
// run-time panic), alone in its statement.
func (g *Gen) divStmt(o *out, sc *Scope) {
	t := g.scalarOf(KInt)
	b := g.lit(t)
	if g.n(3) == 0 {
		b = t.Name + "(0)"
	}
	name := g.newName(sc)
	o.line("%s := id(%s) %s id(%s)", name, g.lit(t), []string{"/", "%"}[g.n(2)], b)
	g.declare(sc, name, t)
	g.stat("div-may-panic")
}

// flatSwitchStmt: a switch (or nested loop) that is translated in its plain form sits in a
// loop that is translated as a state machine (because of a goto, or a suspension point): break
// and continue inside it leave exactly the statement they name.
func (g *Gen) flatSwitchStmt(o *out, sc *Scope) {
	if g.Opt.NoGoto && !g.Opt.Yield {
		g.assign(o, sc)
		return
	}
	cnt, iv := g.newName(sc), g.newName(sc)
	for iv == cnt {
		iv = g.newName(sc)
	}
	o.line("%s := I(0)", cnt)
	o.line("for %s := I(0); %s < 4; %s++ {", iv, iv, iv)
	switch g.n(3) {
	case 0:
		o.line("\tswitch {")
		o.line("\tcase %s == 1:", iv)
		o.line("\t\t%s += 10", cnt)
		o.line("\t\tbreak")
		o.line("\tcase %s == 2:", iv)
		o.line("\t\tif %s > 0 {", cnt)
		o.line("\t\t\tbreak")
		o.line("\t\t}")
		o.line("\t\t%s += 1000", cnt)
		o.line("\tdefault:")
		o.line("\t\t%s++", cnt)
		o.line("\t}")
	case 1:
		o.line("\tswitch %s {", iv)
		o.line("\tcase 0, 3:")
		o.line("\t\t%s += 7", cnt)
		o.line("\tcase 1:")
		o.line("\t\tcontinue")
		o.line("\tdefault:")
		o.line("\t\tbreak")
		o.line("\t}")
	default:
		o.line("\tfor j := I(0); j < 3; j++ {")
		o.line("\t\tif j == %s {", iv)
		o.line("\t\t\tbreak")
		o.line("\t\t}")
		o.line("\t\tif j == 1 {")
		o.line("\t\t\tcontinue")
		o.line("\t\t}")
		o.line("\t\t%s += j + 1", cnt)
		o.line("\t}")
	}
	o.line("\t%s += 100", cnt)
	if g.Opt.Yield && g.n(2) == 0 {
		g.yk++
		o.line("\ty(%d)", g.yk)
	} else if !g.Opt.NoGoto {
		g.nlab++
		o.line("\tif %s < 0 {", cnt)
		o.line("\t\tgoto G%d", g.nlab)
		o.line("\t}")
		o.line("G%d:", g.nlab)
		o.line("\t%s += 0", cnt)
	} else {
		g.yk++
		o.line("\ty(%d)", g.yk)
	}
	o.line("}")
	o.line("emit(\"fsw\", itoa(int(%s)))", cnt)
	g.stat("flat-switch")
}
