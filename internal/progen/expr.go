package progen

import (
	"fmt"
	"strings"
)

// Var is a variable in scope.
type Var struct {
	Name string
	T    *Type
	// NoAssign marks variables that must not be assigned (range keys being iterated, etc.)
	NoAssign bool
}

// Scope is a lexical scope during generation.
type Scope struct {
	Parent *Scope
	Vars   []Var
	Decl   []string // names declared in this scope (all get used at the end)
	Names  []string // every name introduced in this scope (shadows outer variables)
	Loop   int      // nesting depth of loops
	Labels []string // enclosing loop labels (for labelled break/continue)
	Fn     *FuncCtx
}

// FuncCtx is per generated function.
type FuncCtx struct {
	Result   *Type
	Named    string // name of the named result, if any
	Depth    int
	Blocking bool
}

func (s *Scope) child() *Scope {
	return &Scope{Parent: s, Loop: s.Loop, Labels: s.Labels, Fn: s.Fn}
}

func (s *Scope) all() []Var {
	var out []Var
	seen := map[string]bool{}
	for sc := s; sc != nil; sc = sc.Parent {
		for i := len(sc.Vars) - 1; i >= 0; i-- {
			v := sc.Vars[i]
			if !seen[v.Name] {
				seen[v.Name] = true
				out = append(out, v)
			}
		}
		for _, n := range sc.Names {
			seen[n] = true // untyped helper names shadow outer variables of the same name
		}
	}
	return out
}

func (s *Scope) lookup(name string) bool {
	for sc := s; sc != nil; sc = sc.Parent {
		for _, v := range sc.Vars {
			if v.Name == name {
				return true
			}
		}
	}
	return false
}

// Fn is a generated package-level function callable from expressions.
type Fn struct {
	Name   string
	Params []*Type
	Result *Type
	Recv   *Type // method receiver type (nil for functions)
	Ptr    bool
	Multi  bool // returns (T, bool)
}

// Gen generates one program.
type Gen struct {
	U          *Universe
	Opt        Options
	Fns        []*Fn
	nvar       int
	nlab       int
	yk         int // yield point counter
	depth      int
	Stats      map[string]int
	VariT      *Type // element type of the variadic helper
	usedLabelS map[*FuncCtx]bool
}

// Options selects generator features.
type Options struct {
	Yield     bool // insert yield carriers y(k)/yv(k, e) (C02)
	Cases     int
	StmtsPer  int
	NoDefer   bool
	NoGoto    bool
	BoxStruct bool     // allow struct/array values boxed in interfaces and mutated afterwards
	ExtraMain []string // additional case functions (defined in extra files) run from main
}

func (g *Gen) r() int { return g.U.r.Int() }
func (g *Gen) n(k int) int {
	if k <= 0 {
		return 0
	}
	return g.U.r.Intn(k)
}
func (g *Gen) stat(k string) { g.Stats[k]++ }

// newName returns a name that is not visible in any enclosing scope.
func (g *Gen) newName(sc *Scope) string { return g.name(sc, false) }

// shadowName may return a name that is already declared in an enclosing scope (never in the
// current one): shadowing chains x, x$1, x$2 … in the emitted JavaScript.
func (g *Gen) shadowName(sc *Scope) string { return g.name(sc, true) }

func (g *Gen) name(sc *Scope, shadow bool) string {
	for {
		g.nvar++
		var n string
		switch g.n(6) {
		case 0:
			n = jsWords[g.n(len(jsWords))]
		case 1:
			n = "x"
		default:
			n = fmt.Sprintf("v%d", g.nvar)
		}
		if reservedGo[n] || sc.declaredHere(n) {
			continue
		}
		if !shadow {
			vis := false
			for p := sc.Parent; p != nil; p = p.Parent {
				if p.declaredHere(n) {
					vis = true
				}
			}
			if vis {
				continue
			}
		}
		sc.Names = append(sc.Names, n)
		return n
	}
}

// declaredHere reports whether the name is already declared in this very scope (shadowing a
// name of an enclosing scope is legal and wanted; redeclaring in the same scope is not).
func (s *Scope) declaredHere(name string) bool {
	for _, v := range s.Vars {
		if v.Name == name {
			return true
		}
	}
	for _, d := range s.Decl {
		if d == name {
			return true
		}
	}
	for _, d := range s.Names {
		if d == name {
			return true
		}
	}
	return false
}

var reservedGo = map[string]bool{"int_": false, "string": true, "len": true, "cap": true, "new": true, "make": true, "nil": true, "true": true, "false": true, "iota": true, "append": true, "copy": true, "delete": true, "panic": true, "recover": true, "print": true, "println": true, "complex": true, "real": true, "imag": true, "close": true,
	// helper names of the generated program that must not be shadowed
	"emit": true, "itoa": true, "i64s": true, "u64s": true, "btoa": true, "q": true, "fbits": true, "ix": true, "id": true, "y": true, "yv": true, "f2i": true, "sh": true, "next": true, "I": true, "U": true, "P": true, "math": true, "runtime": true, "hex64": true, "clamp": true}

// lit returns a literal (constant expression) of a scalar type.
func (g *Gen) lit(t *Type) string {
	switch t.Kind {
	case KBool:
		if g.n(2) == 0 {
			return conv(t, "true")
		}
		return conv(t, "false")
	case KInt:
		var v int64
		switch g.n(6) {
		case 0:
			v = 0
		case 1:
			v = 1
		case 2:
			v = int64(g.n(10))
		case 3:
			v = int64(g.n(200)) - 100
		case 4:
			// near the type's limits
			if t.Signed {
				v = (int64(1)<<uint(t.Bits-1) - 1) - int64(g.n(3))
				if t.Bits == 64 {
					v = 9223372036854775807 - int64(g.n(3))
				}
				if g.n(2) == 0 {
					v = -v
				}
			} else {
				if t.Bits >= 63 {
					return t.Name + fmt.Sprintf("(%d)", uint64(18446744073709551615)-uint64(g.n(3)))
				}
				v = int64(1)<<uint(t.Bits) - 1 - int64(g.n(3))
			}
		default:
			v = int64(g.U.r.Int63()) >> uint(63-g.n(t.Bits))
			if t.Bits < 64 {
				v &= int64(1)<<uint(t.Bits-1) - 1
			}
			if t.Signed && g.n(2) == 0 {
				v = -v
			}
		}
		if !t.Signed && v < 0 {
			v = -v
		}
		return fmt.Sprintf("%s(%d)", t.Name, v)
	case KFloat:
		vals := []string{"0", "1", "-1", "0.5", "2.25", "1e10", "-3.75", "1e-3", "16777216", "0.1", "123456.789", "1e300", "7"}
		if t.Bits == 32 {
			vals = []string{"0", "1", "-1", "0.5", "2.25", "1e10", "-3.75", "1e-3", "16777216", "0.1", "123456.789", "7"}
		}
		return fmt.Sprintf("%s(%s)", t.Name, vals[g.n(len(vals))])
	case KString:
		vals := []string{`""`, `"a"`, `"hello"`, `"\x00"`, `"é"`, `"日本"`, `"\xff\xfe"`, `"a\"b\\c"`, `"/* x */"`, `"// y"`, `"\b\n"`, `"😀"`, `"__proto__"`, `"$"`}
		return conv(t, vals[g.n(len(vals))])
	}
	return "nil"
}

func conv(t *Type, e string) string {
	if t.Named {
		return t.Name + "(" + e + ")"
	}
	return e
}

// zero value / composite literal of any type, built from sub-expressions.
func (g *Gen) composite(t *Type, sc *Scope, depth int) string {
	switch t.Kind {
	case KStruct:
		if g.n(5) == 0 {
			return t.Name + "{}"
		}
		keyed := g.n(2) == 0
		var parts []string
		for _, f := range t.Fields {
			if keyed && g.n(4) == 0 {
				continue // partial keyed literal
			}
			e := g.expr(f.T, sc, depth-1)
			if keyed {
				parts = append(parts, f.Name+": "+e)
			} else {
				parts = append(parts, e)
			}
		}
		return t.Name + "{" + strings.Join(parts, ", ") + "}"
	case KArray:
		if g.n(4) == 0 && t.Len > 1 {
			// indexed with a gap
			i := g.n(t.Len)
			return fmt.Sprintf("%s{%d: %s}", t.Name, i, g.expr(t.Elem, sc, depth-1))
		}
		parts := make([]string, t.Len)
		for i := range parts {
			parts[i] = g.elemLit(t.Elem, sc, depth-1)
		}
		return t.Name + "{" + strings.Join(parts, ", ") + "}"
	case KSlice:
		switch g.n(5) {
		case 0:
			return t.Name + "(nil)"
		case 1:
			return fmt.Sprintf("make(%s, %d, %d)", t.Name, g.n(4), 4+g.n(4))
		}
		n := g.n(5)
		parts := make([]string, n)
		for i := range parts {
			parts[i] = g.elemLit(t.Elem, sc, depth-1)
		}
		return t.Name + "{" + strings.Join(parts, ", ") + "}"
	case KMap:
		switch g.n(4) {
		case 0:
			return "make(" + t.Name + ")"
		}
		ks := keyLits(t.Key)
		n := g.n(4)
		perm := g.U.r.Perm(len(ks))
		var parts []string
		for i := 0; i < n && i < len(perm); i++ {
			parts = append(parts, ks[perm[i]]+": "+g.elemLit(t.Elem, sc, depth-1))
		}
		return t.Name + "{" + strings.Join(parts, ", ") + "}"
	case KPtr:
		switch g.n(4) {
		case 0:
			return "(" + t.Name + ")(nil)"
		case 1:
			return "new(" + t.Elem.Name + ")"
		}
		return "&" + g.composite(t.Elem, sc, depth-1)
	}
	return g.lit(t)
}

// elemLit is an element of a composite literal; for struct/array elements the inner type name
// is sometimes elided ([]S{{…}}).
func (g *Gen) elemLit(t *Type, sc *Scope, depth int) string {
	e := g.expr(t, sc, depth)
	if (t.Kind == KStruct || (t.Kind == KArray && !t.Named)) && strings.HasPrefix(e, t.Name+"{") && g.n(2) == 0 {
		return e[len(t.Name):]
	}
	return e
}

// paths returns access paths of type t reachable from variables in scope (fields, elements).
func (g *Gen) paths(t *Type, sc *Scope, assignable bool) []string {
	var out []string
	var walk func(e string, vt *Type, depth int, addressable bool)
	walk = func(e string, vt *Type, depth int, addressable bool) {
		if vt == t && (!assignable || addressable) {
			out = append(out, e)
		}
		if depth == 0 {
			return
		}
		switch vt.Kind {
		case KStruct:
			for _, f := range vt.Fields {
				walk(e+"."+f.Name, f.T, depth-1, addressable)
				if f.Embedded { // promoted fields
					for _, ff := range f.T.Fields {
						if !ff.Embedded {
							walk(e+"."+ff.Name, ff.T, depth-2, addressable)
						}
					}
				}
			}
		case KArray:
			walk(fmt.Sprintf("%s[%d]", e, g.n(vt.Len)), vt.Elem, depth-1, addressable)
		case KPtr:
			// dereference only through the nil-safe helper in expressions; direct field access
			// through pointers that may be nil panics deterministically, which is fine but noisy
		}
	}
	for _, v := range sc.all() {
		if assignable && v.NoAssign {
			continue
		}
		walk(v.Name, v.T, 2, true)
	}
	return out
}

// expr generates an expression of type t.
func (g *Gen) expr(t *Type, sc *Scope, depth int) string {
	e, _ := g.expr2(t, sc, depth)
	return e
}

// expr2 also reports whether the expression is a constant expression.
func (g *Gen) expr2(t *Type, sc *Scope, depth int) (string, bool) {
	if g.Opt.Yield && depth > 0 && g.n(7) == 0 {
		g.yk++
		g.stat("yv")
		return fmt.Sprintf("yv(%d, %s)", g.yk, g.expr(t, sc, depth-1)), false
	}
	// existing paths first
	if depth <= 0 || g.n(3) == 0 {
		if ps := g.paths(t, sc, false); len(ps) > 0 && g.n(5) != 0 {
			return ps[g.n(len(ps))], false
		}
		if depth <= 0 {
			switch t.Kind {
			case KBool, KInt, KFloat, KString:
				return g.lit(t), true
			default:
				return g.composite(t, sc, 0), false
			}
		}
	}
	switch t.Kind {
	case KBool:
		return g.boolExpr(t, sc, depth), false
	case KInt:
		return g.intExpr(t, sc, depth)
	case KFloat:
		return g.floatExpr(t, sc, depth)
	case KString:
		return g.strExpr(t, sc, depth), false
	case KSlice:
		return g.sliceExpr(t, sc, depth), false
	default:
		// calls returning t
		if f := g.fnReturning(t); f != nil && g.n(3) == 0 {
			return g.call(f, sc, depth-1), false
		}
		if t.Kind == KStruct || t.Kind == KArray {
			if ps := g.paths(t, sc, false); len(ps) > 0 && g.n(2) == 0 {
				return ps[g.n(len(ps))], false
			}
		}
		return g.composite(t, sc, depth), false
	}
}

func (g *Gen) fnReturning(t *Type) *Fn {
	var c []*Fn
	for _, f := range g.Fns {
		if f.Result == t && f.Recv == nil && !f.Multi {
			c = append(c, f)
		}
	}
	if len(c) == 0 {
		return nil
	}
	return c[g.n(len(c))]
}

func (g *Gen) call(f *Fn, sc *Scope, depth int) string {
	args := make([]string, len(f.Params))
	for i, p := range f.Params {
		args[i] = g.expr(p, sc, depth)
	}
	g.stat("call")
	return f.Name + "(" + strings.Join(args, ", ") + ")"
}

func (g *Gen) scalarOf(k Kind) *Type {
	var c []*Type
	for _, t := range g.U.Types {
		if t.Kind == k {
			c = append(c, t)
		}
	}
	return c[g.n(len(c))]
}

func (g *Gen) boolExpr(t *Type, sc *Scope, depth int) string {
	var e string
	switch g.n(9) {
	case 0:
		e = "(" + g.expr(t, sc, depth-1) + " && " + g.expr(t, sc, depth-1) + ")"
	case 1:
		e = "(" + g.expr(t, sc, depth-1) + " || " + g.expr(t, sc, depth-1) + ")"
	case 2:
		e = "!(" + g.expr(t, sc, depth-1) + ")"
	case 3, 4:
		// comparison of ordered scalars
		ot := g.scalarOf([]Kind{KInt, KInt, KFloat, KString}[g.n(4)])
		op := []string{"==", "!=", "<", "<=", ">", ">="}[g.n(6)]
		a, ac := g.expr2(ot, sc, depth-1)
		b, bc := g.expr2(ot, sc, depth-1)
		if ac && bc {
			a = "id(" + a + ")"
		}
		e = conv(t, "("+a+" "+op+" "+b+")")
		return e
	case 5:
		// equality of comparable composite values
		ct := g.U.pick(func(x *Type) bool {
			return x.Comparable() && (x.Kind == KStruct || x.Kind == KArray || x.Kind == KPtr) && !containsFloat(x)
		})
		if ct == g.U.TI {
			return g.lit(t)
		}
		op := []string{"==", "!="}[g.n(2)]
		return conv(t, "("+g.expr(ct, sc, depth-1)+" "+op+" "+g.expr(ct, sc, depth-1)+")")
	case 6:
		// map membership
		if mt := g.U.pick(func(x *Type) bool { return x.Kind == KMap }); mt.Kind == KMap {
			if ps := g.paths(mt, sc, false); len(ps) > 0 {
				ks := keyLits(mt.Key)
				g.stat("mapok")
				return conv(t, fmt.Sprintf("func() bool { _, ok := %s[%s]; return ok }()", ps[g.n(len(ps))], ks[g.n(len(ks))]))
			}
		}
		return g.lit(t)
	case 7:
		if f := g.fnReturning(t); f != nil {
			return g.call(f, sc, depth-1)
		}
		return g.lit(t)
	default:
		return g.lit(t)
	}
	if t.Named {
		return t.Name + "(" + e + ")"
	}
	return e
}

func containsFloat(t *Type) bool {
	switch t.Kind {
	case KFloat:
		return true
	case KStruct:
		for _, f := range t.Fields {
			if containsFloat(f.T) {
				return true
			}
		}
	case KArray, KPtr:
		return containsFloat(t.Elem)
	}
	return false
}

func (g *Gen) paren(e string) string {
	if strings.HasPrefix(e, "(") || !strings.ContainsAny(e, " ") {
		return e
	}
	return "(" + e + ")"
}

func (g *Gen) intExpr(t *Type, sc *Scope, depth int) (string, bool) {
	switch g.n(16) {
	case 0, 1, 2, 3:
		op := []string{"+", "-", "*", "&", "|", "^", "&^"}[g.n(7)]
		a, ac := g.expr2(t, sc, depth-1)
		b, bc := g.expr2(t, sc, depth-1)
		if ac && bc {
			a = "id(" + a + ")"
		}
		g.stat("int" + op)
		return "(" + a + " " + op + " " + b + ")", false
	case 4:
		op := []string{"/", "%"}[g.n(2)]
		a, _ := g.expr2(t, sc, depth-1)
		b, _ := g.expr2(t, sc, depth-1)
		// a division that may panic is a statement of its own (divStmt): inside an expression
		// the moment of the panic relative to the calls of sibling operands is not specified
		return "(id(" + a + ") " + op + " (" + b + " | 1))", false
	case 5:
		op := []string{"<<", ">>"}[g.n(2)]
		a, ac := g.expr2(t, sc, depth-1)
		if ac {
			a = "id(" + a + ")"
		}
		if g.n(2) == 0 {
			return fmt.Sprintf("(%s %s %d)", a, op, g.n(t.Bits+4)), false
		}
		ct := []string{"uint8", "U", "uint32", "uint64", "uint16"}[g.n(5)]
		cnt := g.expr(g.typeByName(ct), sc, depth-1)
		return fmt.Sprintf("(%s %s (%s & %d))", a, op, cnt, 2*t.Bits-1), false
	case 6:
		a, ac := g.expr2(t, sc, depth-1)
		if ac {
			a = "id(" + a + ")"
		}
		return []string{"-", "^", "+"}[g.n(3)] + "(" + a + ")", false
	case 7:
		// conversion from another integer type
		st := g.scalarOf(KInt)
		a, ac := g.expr2(st, sc, depth-1)
		if ac {
			a = "id(" + a + ")"
		}
		g.stat("convint")
		return t.Name + "(" + a + ")", false
	case 8:
		// conversion from float through the clamping helper (out-of-range is implementation-defined)
		a := g.expr(g.typeByName("float64"), sc, depth-1)
		return t.Name + "(f2i(" + a + "))", false
	case 9:
		// len / cap of something in scope
		for _, v := range sc.all() {
			if (v.T.Kind == KSlice || v.T.Kind == KString || v.T.Kind == KMap) && g.n(2) == 0 {
				// (cap of a slice that may have grown through append is implementation-defined;
				// capacities are compared where they are specified, in the C07 workload)
				fn := "len"
				return t.Name + "(" + fn + "(" + v.Name + "))", false
			}
		}
		return g.lit(t), true
	case 10:
		// element of a string, slice or map in scope
		for _, v := range sc.all() {
			if v.T.Kind == KString && g.n(2) == 0 {
				// (through helpers that yield zero for an empty operand: an index panic
				// inside an expression is not ordered relative to the calls around it)
				return fmt.Sprintf("%s(sat(string(%s), %s))", t.Name, g.strOperand(v), g.expr(g.U.TI, sc, depth-1)), false
			}
			if v.T.Kind == KSlice && v.T.Elem == t && g.n(2) == 0 {
				return fmt.Sprintf("at(%s, %s)", v.Name, g.expr(g.U.TI, sc, depth-1)), false
			}
			if v.T.Kind == KMap && v.T.Elem == t && g.n(2) == 0 {
				ks := keyLits(v.T.Key)
				return fmt.Sprintf("%s[%s]", v.Name, ks[g.n(len(ks))]), false
			}
		}
		return g.lit(t), true
	case 11:
		if g.n(2) == 0 {
			// value-receiver method call on something in scope
			for _, f := range g.Fns {
				if f.Recv != nil && !f.Ptr && f.Result == t {
					if ps := g.paths(f.Recv, sc, false); len(ps) > 0 {
						g.stat("methodexpr")
						return ps[g.n(len(ps))] + "." + f.Name + "(" + g.expr(f.Params[0], sc, depth-1) + ")", false
					}
				}
			}
		}
		if f := g.fnReturning(t); f != nil {
			return g.call(f, sc, depth-1), false
		}
		return g.lit(t), true
	case 12:
		// immediately invoked closure
		g.stat("iife")
		return fmt.Sprintf("func() %s { return %s }()", t.Name, g.expr(t, sc, depth-1)), false
	case 13:
		// conditional via helper (both operands evaluated – keeps order observable)
		return fmt.Sprintf("sel(%s, %s, %s)", g.expr(g.U.TBool, sc, depth-1), g.expr(t, sc, depth-1), g.expr(t, sc, depth-1)), false
	default:
		return g.lit(t), true
	}
}

func (g *Gen) strOperand(v Var) string {
	if v.T.Named {
		return "string(" + v.Name + ")"
	}
	return v.Name
}

func (g *Gen) typeByName(n string) *Type {
	for _, t := range g.U.Types {
		if t.Name == n {
			return t
		}
	}
	return g.U.TI
}

func (g *Gen) floatExpr(t *Type, sc *Scope, depth int) (string, bool) {
	switch g.n(8) {
	case 0, 1, 2:
		op := []string{"+", "-", "*", "/"}[g.n(4)]
		a, ac := g.expr2(t, sc, depth-1)
		b, bc := g.expr2(t, sc, depth-1)
		if ac {
			a = "id(" + a + ")" // constant float division by zero is a compile error; keep one side dynamic
		}
		_ = bc
		// explicit conversion forbids FMA fusion on any reference architecture
		return t.Name + "(" + a + " " + op + " " + b + ")", false
	case 3:
		a, ac := g.expr2(t, sc, depth-1)
		if ac {
			a = "id(" + a + ")"
		}
		return "-(" + a + ")", false
	case 4:
		st := g.scalarOf(KInt)
		a, ac := g.expr2(st, sc, depth-1)
		if ac {
			a = "id(" + a + ")"
		}
		return t.Name + "(" + a + ")", false
	case 5:
		if f := g.fnReturning(t); f != nil {
			return g.call(f, sc, depth-1), false
		}
		return g.lit(t), true
	default:
		return g.lit(t), true
	}
}

func (g *Gen) strExpr(t *Type, sc *Scope, depth int) string {
	switch g.n(8) {
	case 0, 1:
		return "(" + g.expr(t, sc, depth-1) + " + " + g.expr(t, sc, depth-1) + ")"
	case 2:
		// slicing with clamped bounds
		a := g.expr(t, sc, depth-1)
		g.stat("strslice")
		return conv(t, fmt.Sprintf("sub(string(%s), %s, %s)", a, g.expr(g.U.TI, sc, depth-1), g.expr(g.U.TI, sc, depth-1)))
	case 3:
		return conv(t, "string(rune("+g.expr(g.typeByName("int32"), sc, depth-1)+" & 0x1ffff))")
	case 4:
		return conv(t, "itoa(int("+g.expr(g.typeByName("int16"), sc, depth-1)+"))")
	case 5:
		if g.VariT != nil && g.n(2) == 0 {
			g.stat("variadic")
			switch g.n(3) {
			case 0:
				return conv(t, "vari(\"v\")")
			case 1:
				return conv(t, "vari(\"v\", "+g.expr(g.VariT, sc, depth-1)+", "+g.expr(g.VariT, sc, depth-1)+")")
			default:
				st := g.U.pick(func(x *Type) bool { return x.Kind == KSlice && x.Elem == g.VariT && !x.Named })
				if st.Kind == KSlice {
					return conv(t, "vari(\"s\", "+g.expr(st, sc, depth-1)+"...)")
				}
				return conv(t, "vari(\"n\", []"+g.VariT.Name+"(nil)...)")
			}
		}
		if f := g.fnReturning(t); f != nil {
			return g.call(f, sc, depth-1)
		}
		return g.lit(t)
	case 6:
		// []byte / []rune round trips
		a := g.expr(t, sc, depth-1)
		if g.n(2) == 0 {
			return conv(t, "string([]byte(string("+a+")))")
		}
		return conv(t, "string([]rune(string("+a+")))")
	default:
		return g.lit(t)
	}
}

func (g *Gen) sliceExpr(t *Type, sc *Scope, depth int) string {
	ps := g.paths(t, sc, false)
	switch g.n(6) {
	case 0:
		if len(ps) > 0 {
			p := ps[g.n(len(ps))]
			g.stat("subslice")
			return fmt.Sprintf("%s[clamp(%s, len(%s)):]", p, g.expr(g.U.TI, sc, depth-1), p)
		}
	case 1:
		if len(ps) > 0 {
			p := ps[g.n(len(ps))]
			g.stat("append")
			return fmt.Sprintf("append(%s, %s)", p, g.expr(t.Elem, sc, depth-1))
		}
	case 2:
		if len(ps) > 0 {
			p := ps[g.n(len(ps))]
			// (the capacity is cut with a full slice expression: whether an append into spare
			// capacity that the implementation chose overwrites the shared array is not specified)
			return fmt.Sprintf("append(cut(%s, %s), %s...)", p, g.expr(g.U.TI, sc, depth-1), g.composite(t, sc, depth-1))
		}
	case 3:
		if f := g.fnReturning(t); f != nil {
			return g.call(f, sc, depth-1)
		}
	}
	return g.composite(t, sc, depth)
}
