// Package progen is a seeded generator of type-correct, terminating, deterministic Go 1.20
// programs used as workloads of the differential monitors (C01 C02 C05 C16 C17 …).
//
// Determinism rules (each removes one of the differences the properties themselves permit):
// int/uint values flow through the I/U aliases (32-bit on both sides) or stay small; shift
// counts are unsigned; floats are shown as bit patterns; maps are shown over a fixed key
// universe (never by iteration order); functions called inside expressions never mutate
// variables that the same expression reads (only the trace and a call counter); loops and
// recursion are bounded by construction.
package progen

import (
	"fmt"
	"math/rand"
	"strings"
)

type Kind int

const (
	KBool Kind = iota
	KInt
	KFloat
	KString
	KStruct
	KArray
	KSlice
	KMap
	KPtr
	KIface
	KFunc
)

// Type is a type of the per-program universe.
type Type struct {
	Kind    Kind
	Name    string // Go spelling usable in source
	ID      string // identifier-safe id (for show_<ID>)
	Bits    int
	Signed  bool
	Named   bool // declared with `type Name …` (may have methods)
	Elem    *Type
	Key     *Type
	Len     int
	Fields  []Field
	Methods []*Method // for named types: methods with value or pointer receivers
	Impl    []*Type   // for interfaces: concrete types (or pointer-to) implementing it
	Params  []*Type   // func
	Result  *Type     // func (nil = none)
	Under   *Type     // for named non-struct types: the underlying type
}

type Field struct {
	Name     string
	T        *Type
	Embedded bool
}

type Method struct {
	Name   string
	Ptr    bool // pointer receiver
	Recv   *Type
	Params []*Type
	Result *Type
	Iface  bool // part of an interface
}

var jsWords = []string{"function", "arguments", "eval", "typeof", "delete", "yield", "await", "let", "this", "class", "void", "with", "in", "instanceof", "throw", "try", "catch", "finally", "enum", "export", "extends", "super", "static", "implements", "private", "protected", "public", "undefined", "NaN", "Infinity", "null", "name", "length", "prototype", "constructor", "toString", "valueOf", "hasOwnProperty", "Object", "Array", "Math", "Number", "String", "Symbol", "window", "global", "self", "module", "require", "exports", "process", "console", "debugger", "native", "abstract", "boolean", "byte_", "char", "double", "final", "float", "long", "short", "synchronized", "throws", "transient", "volatile", "async", "of", "get", "set", "do", "int_", "é", "名前", "µ", "x_1", "_q", "_r", "_key", "_entry", "_i", "_ref", "_tuple", "_arg", "_v"}

// Universe is the set of types and helper functions of one program.
type Universe struct {
	r                     *rand.Rand
	Scalars               []*Type
	Types                 []*Type // everything usable for variables
	Structs               []*Type
	Ifaces                []*Type
	decls                 strings.Builder
	nid                   int
	TI, TBool, TStr, TF64 *Type
}

func (u *Universe) id() int { u.nid++; return u.nid }

func scalar(name string, k Kind, bits int, signed bool) *Type {
	return &Type{Kind: k, Name: name, ID: name, Bits: bits, Signed: signed}
}

// NewUniverse draws the type universe and emits its declarations.
func NewUniverse(r *rand.Rand) *Universe {
	u := &Universe{r: r}
	u.TI = scalar("I", KInt, 32, true)
	u.TBool = scalar("bool", KBool, 1, false)
	u.TStr = scalar("string", KString, 0, false)
	u.TF64 = scalar("float64", KFloat, 64, true)
	u.Scalars = []*Type{u.TI, u.TBool, u.TStr, u.TF64,
		scalar("int8", KInt, 8, true), scalar("int16", KInt, 16, true), scalar("int32", KInt, 32, true), scalar("int64", KInt, 64, true),
		scalar("uint8", KInt, 8, false), scalar("uint16", KInt, 16, false), scalar("uint32", KInt, 32, false), scalar("uint64", KInt, 64, false),
		scalar("U", KInt, 32, false), scalar("float32", KFloat, 32, true)}
	u.Types = append(u.Types, u.Scalars...)
	// named scalar types with methods
	for i := 0; i < 2+r.Intn(3); i++ {
		base := u.Scalars[r.Intn(len(u.Scalars))]
		name := fmt.Sprintf("N%d", u.id())
		t := &Type{Kind: base.Kind, Name: name, ID: name, Bits: base.Bits, Signed: base.Signed, Named: true, Under: base}
		fmt.Fprintf(&u.decls, "type %s %s\n\n", name, base.Name)
		u.Types = append(u.Types, t)
	}
	// composite types, built bottom-up so that fields refer to earlier types
	n := 6 + r.Intn(8)
	for i := 0; i < n; i++ {
		switch r.Intn(9) {
		case 0, 1, 2:
			u.newStruct()
		case 3, 4:
			el := u.pick(func(t *Type) bool { return t.Kind != KFunc && t.Kind != KIface && u.size(t) < 24 })
			ln := 1 + r.Intn(4)
			u.add(&Type{Kind: KArray, Elem: el, Len: ln, Name: fmt.Sprintf("[%d]%s", ln, el.Name)})
		case 5, 6:
			el := u.pick(func(t *Type) bool { return t.Kind != KFunc && u.size(t) < 24 })
			u.add(&Type{Kind: KSlice, Elem: el, Name: "[]" + el.Name})
		case 7:
			key := u.pick(func(t *Type) bool {
				return (t.Kind == KInt && t.Bits <= 32 && !t.Named) || t.Kind == KString && !t.Named
			})
			el := u.pick(func(t *Type) bool { return t.Kind != KFunc && t.Kind != KIface && u.size(t) < 12 })
			u.add(&Type{Kind: KMap, Key: key, Elem: el, Name: "map[" + key.Name + "]" + el.Name})
		case 8:
			if len(u.Structs) > 0 {
				s := u.Structs[r.Intn(len(u.Structs))]
				u.add(&Type{Kind: KPtr, Elem: s, Name: "*" + s.Name})
			}
		}
	}
	if len(u.Structs) == 0 {
		u.newStruct()
	}
	// a named array and a named slice type (wrapped types in the translator)
	{
		el := u.Scalars[r.Intn(len(u.Scalars))]
		name := fmt.Sprintf("NA%d", u.id())
		fmt.Fprintf(&u.decls, "type %s [3]%s\n\n", name, el.Name)
		u.add(&Type{Kind: KArray, Elem: el, Len: 3, Name: name, Named: true})
		name2 := fmt.Sprintf("NS%d", u.id())
		fmt.Fprintf(&u.decls, "type %s []%s\n\n", name2, el.Name)
		u.add(&Type{Kind: KSlice, Elem: el, Name: name2, Named: true})
	}
	for _, t := range u.Types {
		if t.ID == "" {
			t.ID = fmt.Sprintf("T%d", u.id())
		}
	}
	return u
}

func (u *Universe) add(t *Type) *Type {
	for _, x := range u.Types {
		if x.Name == t.Name {
			return x
		}
	}
	u.Types = append(u.Types, t)
	return t
}

// size estimates the number of scalar leaves of a value (keeps show output bounded).
func (u *Universe) size(t *Type) int {
	switch t.Kind {
	case KStruct:
		n := 0
		for _, f := range t.Fields {
			n += u.size(f.T)
		}
		return n
	case KArray:
		return t.Len * u.size(t.Elem)
	case KSlice:
		return 3 * u.size(t.Elem)
	case KMap:
		return 4 * u.size(t.Elem)
	case KPtr:
		return u.size(t.Elem)
	}
	return 1
}

func (u *Universe) pick(ok func(*Type) bool) *Type {
	var c []*Type
	for _, t := range u.Types {
		if ok(t) {
			c = append(c, t)
		}
	}
	if len(c) == 0 {
		return u.TI
	}
	return c[u.r.Intn(len(c))]
}

func (u *Universe) fieldName(i int, used map[string]bool) string {
	for {
		var n string
		if u.r.Intn(3) == 0 {
			n = jsWords[u.r.Intn(len(jsWords))]
		} else {
			n = fmt.Sprintf("f%d", i)
		}
		if u.r.Intn(4) == 0 {
			if n[0] >= 'a' && n[0] <= 'z' {
				n = strings.ToUpper(n[:1]) + n[1:]
			} else {
				n = "F" + n
			}
		}
		if !used[n] {
			used[n] = true
			return n
		}
		i += 100
	}
}

func (u *Universe) newStruct() *Type {
	r := u.r
	name := fmt.Sprintf("S%d", u.id())
	t := &Type{Kind: KStruct, Name: name, ID: name, Named: true}
	nf := 1 + r.Intn(4)
	used := map[string]bool{}
	var b strings.Builder
	fmt.Fprintf(&b, "type %s struct {\n", name)
	// optional embedding of an earlier struct (by value)
	if len(u.Structs) > 0 && r.Intn(3) == 0 {
		e := u.Structs[r.Intn(len(u.Structs))]
		if u.size(e) < 16 {
			t.Fields = append(t.Fields, Field{Name: e.Name, T: e, Embedded: true})
			used[e.Name] = true
			for _, f := range e.Fields {
				used[f.Name] = true // avoid ambiguous / shadowing selectors
			}
			fmt.Fprintf(&b, "\t%s\n", e.Name)
		}
	}
	for i := 0; i < nf; i++ {
		ft := u.pick(func(x *Type) bool {
			return x.Kind != KFunc && x.Kind != KIface && u.size(x) < 12
		})
		fn := u.fieldName(i, used)
		t.Fields = append(t.Fields, Field{Name: fn, T: ft})
		fmt.Fprintf(&b, "\t%s %s\n", fn, ft.Name)
	}
	b.WriteString("}\n\n")
	u.decls.WriteString(b.String())
	u.Types = append(u.Types, t)
	u.Structs = append(u.Structs, t)
	return t
}

// Comparable reports whether == is defined on the type.
func (t *Type) Comparable() bool {
	switch t.Kind {
	case KSlice, KMap, KFunc:
		return false
	case KArray:
		return t.Elem.Comparable()
	case KStruct:
		for _, f := range t.Fields {
			if !f.T.Comparable() {
				return false
			}
		}
	}
	return true
}

// emitShow writes func show_<ID>(v T) string for every type.
func (u *Universe) emitShow(b *strings.Builder) {
	for _, t := range u.Types {
		fmt.Fprintf(b, "func show_%s(v %s) string {\n", t.ID, t.Name)
		switch t.Kind {
		case KBool:
			b.WriteString("\treturn btoa(bool(v))\n")
		case KInt:
			if t.Signed {
				b.WriteString("\treturn i64s(int64(v))\n")
			} else {
				b.WriteString("\treturn u64s(uint64(v))\n")
			}
		case KFloat:
			b.WriteString("\treturn fbits(float64(v))\n")
		case KString:
			b.WriteString("\treturn q(string(v))\n")
		case KStruct:
			b.WriteString("\ts := \"{\"\n")
			for _, f := range t.Fields {
				fmt.Fprintf(b, "\ts += show_%s(v.%s) + \",\"\n", f.T.ID, f.Name)
			}
			b.WriteString("\treturn s + \"}\"\n")
		case KArray:
			fmt.Fprintf(b, "\ts := \"[\"\n\tfor i := 0; i < len(v); i++ {\n\t\ts += show_%s(v[i]) + \",\"\n\t}\n\treturn s + \"]\"\n", t.Elem.ID)
		case KSlice:
			fmt.Fprintf(b, "\tif v == nil {\n\t\treturn \"nil[]\"\n\t}\n\ts := \"[\" + itoa(len(v)) + \":\"\n\tfor i := 0; i < len(v) && i < 6; i++ {\n\t\ts += show_%s(v[i]) + \",\"\n\t}\n\treturn s + \"]\"\n", t.Elem.ID)
		case KMap:
			fmt.Fprintf(b, "\tif v == nil {\n\t\treturn \"nilmap\"\n\t}\n\ts := \"map\" + itoa(len(v)) + \"[\"\n\tfor _, k := range %s {\n\t\tif e, ok := v[k]; ok {\n\t\t\ts += show_%s(k) + \":\" + show_%s(e) + \",\"\n\t\t}\n\t}\n\treturn s + \"]\"\n", keyUniverse(t.Key), t.Key.ID, t.Elem.ID)
		case KPtr:
			fmt.Fprintf(b, "\tif v == nil {\n\t\treturn \"nilptr\"\n\t}\n\treturn \"&\" + show_%s(*v)\n", t.Elem.ID)
		}
		b.WriteString("}\n\n")
	}
}

func keyUniverse(k *Type) string {
	if k.Kind == KString {
		return `[]string{"", "a", "b", "c", "ab", "$", "__proto__", "é"}`
	}
	if k.Signed {
		return fmt.Sprintf("[]%s{-2, -1, 0, 1, 2, 3, 100}", k.Name)
	}
	return fmt.Sprintf("[]%s{0, 1, 2, 3, 100, 255}", k.Name)
}

func keyLits(k *Type) []string {
	if k.Kind == KString {
		return []string{`""`, `"a"`, `"b"`, `"c"`, `"ab"`, `"$"`, `"__proto__"`, `"é"`}
	}
	if k.Signed {
		return []string{"-2", "-1", "0", "1", "2", "3", "100"}
	}
	return []string{"0", "1", "2", "3", "100", "255"}
}

// Decls returns the type declarations of the universe.
func (u *Universe) Decls() string { return u.decls.String() }

// EmitShow writes the show_<ID> functions.
func (u *Universe) EmitShow(b *strings.Builder) { u.emitShow(b) }

// KeyLits returns literal keys of the fixed key universe of a map key type.
func KeyLits(k *Type) []string { return keyLits(k) }

// Helpers is the source of helpers.go (emit, ix, clamp, classOf, run …).
const Helpers = helpers
