// Package c06 – fixed-width integer, float and complex arithmetic is exact.
//
// Level 1: table-driven programs (one per numeric type and operator family) compiled by the
// observed compiler and by the reference toolchain; every (type, operator, operand shape)
// produces a digest over a boundary grid² plus PRNG pairs and sampled raw results.
// Level 2: the prelude's 64-bit helpers called directly under node against BigInt.
package c06

import (
	"fmt"
	"math"
	"math/big"
	"math/rand"
	"strings"
)

type numType struct {
	Name   string // Go type name as written in programs
	Bits   int
	Signed bool
	Kind   string // "int" "float" "complex"
}

var intTypes = []numType{
	{"int8", 8, true, "int"}, {"int16", 16, true, "int"}, {"int32", 32, true, "int"}, {"int64", 64, true, "int"},
	{"uint8", 8, false, "int"}, {"uint16", 16, false, "int"}, {"uint32", 32, false, "int"}, {"uint64", 64, false, "int"},
	{"I", 32, true, "int"}, {"U", 32, false, "int"}, {"P", 32, false, "int"},
}
var floatTypes = []numType{{"float32", 32, true, "float"}, {"float64", 64, true, "float"}}
var complexTypes = []numType{{"complex64", 64, true, "complex"}, {"complex128", 128, true, "complex"}}

func allNumeric() []numType {
	out := append([]numType{}, intTypes...)
	return append(out, floatTypes...)
}

// intGrid returns the boundary grid of an integer type as big.Ints.
func intGrid(t numType, r *rand.Rand, extra int) []*big.Int {
	seen := map[string]bool{}
	var out []*big.Int
	lo, hi := rangeOf(t)
	add := func(v *big.Int) {
		if v.Cmp(lo) < 0 || v.Cmp(hi) > 0 {
			return
		}
		if !seen[v.String()] {
			seen[v.String()] = true
			out = append(out, new(big.Int).Set(v))
		}
	}
	for _, k := range []int64{0, 1, 2, 3, 5, 7, 10, 100, -1, -2, -3, -7, -100} {
		add(big.NewInt(k))
	}
	for _, b := range []uint{7, 8, 15, 16, 24, 31, 32, 33, 47, 48, 52, 53, 62, 63, 64} {
		p := new(big.Int).Lsh(big.NewInt(1), b)
		for _, d := range []int64{-1, 0, 1} {
			v := new(big.Int).Add(p, big.NewInt(d))
			add(v)
			add(new(big.Int).Neg(v))
		}
	}
	add(lo)
	add(hi)
	add(new(big.Int).Add(lo, big.NewInt(1)))
	add(new(big.Int).Sub(hi, big.NewInt(1)))
	// sign / carry patterns
	for _, pat := range []string{"5555555555555555", "aaaaaaaaaaaaaaaa", "00000000ffffffff", "ffffffff00000000", "0000ffff0000ffff", "7fffffff80000000", "80000000", "7fffffff", "ffff", "8000", "0123456789abcdef", "fedcba9876543210"} {
		v, _ := new(big.Int).SetString(pat, 16)
		add(wrap(v, t))
	}
	for i := 0; i < extra; i++ {
		v := new(big.Int).SetUint64(r.Uint64())
		if r.Intn(3) == 0 {
			v.Rsh(v, uint(r.Intn(64)))
		}
		add(wrap(v, t))
	}
	return out
}

func rangeOf(t numType) (lo, hi *big.Int) {
	if t.Signed {
		hi = new(big.Int).Sub(new(big.Int).Lsh(big.NewInt(1), uint(t.Bits-1)), big.NewInt(1))
		lo = new(big.Int).Neg(new(big.Int).Lsh(big.NewInt(1), uint(t.Bits-1)))
	} else {
		lo = big.NewInt(0)
		hi = new(big.Int).Sub(new(big.Int).Lsh(big.NewInt(1), uint(t.Bits)), big.NewInt(1))
	}
	return
}

// wrap reduces v into the range of t (two's complement).
func wrap(v *big.Int, t numType) *big.Int {
	m := new(big.Int).Lsh(big.NewInt(1), uint(t.Bits))
	x := new(big.Int).Mod(v, m)
	if t.Signed {
		half := new(big.Int).Lsh(big.NewInt(1), uint(t.Bits-1))
		if x.Cmp(half) >= 0 {
			x.Sub(x, m)
		}
	}
	return x
}

// lit renders an integer constant of type t as Go source that is valid for both widths.
func lit(v *big.Int, t numType) string {
	if t.Signed && v.Sign() < 0 {
		lo, _ := rangeOf(t)
		if v.Cmp(lo) == 0 {
			// the minimum cannot be written as -(max+1) literal of the type; use subtraction
			return fmt.Sprintf("%s(-%s - 1)", t.Name, new(big.Int).Sub(new(big.Int).Neg(v), big.NewInt(1)).String())
		}
		return fmt.Sprintf("%s(%s)", t.Name, v.String())
	}
	return fmt.Sprintf("%s(%s)", t.Name, v.String())
}

func digestExpr(t numType, e string) string {
	switch t.Kind {
	case "int":
		// the conversion to float64 exposes a JavaScript -0 in an integer result (and any
		// other non-integral representation), which the integer conversions hide
		if t.Signed {
			return "(s64(int64(" + e + "))^f64key(float64(" + e + "))*0x9E3779B97F4A7C15)"
		}
		return "(uint64(" + e + ")^f64key(float64(" + e + "))*0x9E3779B97F4A7C15)"
	case "float":
		if t.Bits == 32 {
			// the widened value exposes results that were never rounded to single precision
			// (Float32bits alone would round them on the way)
			return "f32key(" + e + ")^f64key(float64(" + e + "))"
		}
		return "f64key(" + e + ")"
	}
	return "0"
}

func showExpr(t numType, e string) string {
	switch t.Kind {
	case "int":
		if t.Signed {
			return "i64s(int64(" + e + "))"
		}
		return "u64s(uint64(" + e + "))"
	case "float":
		if t.Bits == 32 {
			return "hex64(f32key(" + e + "))"
		}
		return "hex64(f64key(" + e + "))"
	case "complex":
		if t.Bits == 64 {
			return "(hex64(f32key(real(" + e + "))) + \"/\" + hex64(f32key(imag(" + e + "))))"
		}
		return "(hex64(f64key(real(" + e + "))) + \"/\" + hex64(f64key(imag(" + e + "))))"
	}
	return `""`
}

const c06lib = `package main

import (
	"math"
	"runtime"
)

// f64key maps a float64 to its bit pattern with every NaN collapsed.
func f64key(v float64) uint64 {
	if v != v {
		return 0x7ff8000000000001
	}
	return math.Float64bits(v)
}

func f32key(v float32) uint64 {
	if v != v {
		return 0x7fc00001
	}
	return uint64(math.Float32bits(v))
}

func s64(v int64) uint64 { return uint64(v) }

func errs(e interface{}) string {
	if re, ok := e.(runtime.Error); ok {
		return "RE:" + re.Error()
	}
	if s, ok := e.(string); ok {
		return "S:" + s
	}
	return "?"
}
`

type opSpec struct {
	Name string
	Sym  string
}

var intBin = []opSpec{{"add", "+"}, {"sub", "-"}, {"mul", "*"}, {"and", "&"}, {"or", "|"}, {"xor", "^"}, {"andnot", "&^"}}
var intDiv = []opSpec{{"quo", "/"}, {"rem", "%"}}
var cmpOps = []opSpec{{"eq", "=="}, {"ne", "!="}, {"lt", "<"}, {"le", "<="}, {"gt", ">"}, {"ge", ">="}}
var shiftOps = []opSpec{{"shl", "<<"}, {"shr", ">>"}}
var floatBin = []opSpec{{"add", "+"}, {"sub", "-"}, {"mul", "*"}, {"quo", "/"}}

var shiftCounts = []int{0, 1, 2, 3, 7, 8, 9, 15, 16, 17, 23, 24, 31, 32, 33, 47, 48, 62, 63, 64, 65, 70, 127, 128, 255}

// genIntProgram builds the table-driven program for one integer type.
// rot selects which operators get the exhaustive 8-bit treatment in quick mode.
func genIntProgram(t numType, r *rand.Rand, thorough bool, rot int) (map[string]string, int) {
	var b strings.Builder
	grid := intGrid(t, r, 12)
	b.WriteString("package main\n\n")
	fmt.Fprintf(&b, "var grid = []%s{", t.Name)
	for i, v := range grid {
		if i%8 == 0 {
			b.WriteString("\n\t")
		}
		b.WriteString(lit(v, t) + ", ")
	}
	b.WriteString("\n}\n\n")
	fmt.Fprintf(&b, "var sink %s\n\n", t.Name)
	fmt.Fprintf(&b, "func side(v %s) %s { sink ^= v; return v }\n\n", t.Name, t.Name)
	// operands with ordered side effects: every operand is evaluated, once, left to right,
	// whatever the value of the other operand is (shift counts >= the width included)
	fmt.Fprintf(&b, "var sideOrd uint64\n\nfunc sideo(v %s, tag uint64) %s { sideOrd = sideOrd*31 + tag; return v }\n\nfunc sideu(v uint, tag uint64) uint { sideOrd = sideOrd*31 + tag; return v }\n\n", t.Name, t.Name)
	cases := 0

	// variable ∘ variable
	for _, op := range intBin {
		fmt.Fprintf(&b, "func vv_%s(a, b %s) %s { return a %s b }\n", op.Name, t.Name, t.Name, op.Sym)
		fmt.Fprintf(&b, "func as_%s(a, b %s) %s { a %s= b; return a }\n", op.Name, t.Name, t.Name, op.Sym)
		// nested: operands are sub-expressions with a discarded side computation
		fmt.Fprintf(&b, "func ne_%s(a, b %s) %s { return (side(a) ^ 0) %s (b + side(0)) }\n", op.Name, t.Name, t.Name, op.Sym)
	}
	for _, op := range intDiv {
		fmt.Fprintf(&b, "func vv_%s(a, b %s) (r %s, p string) {\n\tdefer func() {\n\t\tif e := recover(); e != nil {\n\t\t\tp = errs(e)\n\t\t}\n\t}()\n\treturn a %s b, \"\"\n}\n", op.Name, t.Name, t.Name, op.Sym)
		fmt.Fprintf(&b, "func as_%s(a, b %s) (r %s, p string) {\n\tdefer func() {\n\t\tif e := recover(); e != nil {\n\t\t\tp = errs(e)\n\t\t}\n\t}()\n\ta %s= b\n\treturn a, \"\"\n}\n", op.Name, t.Name, t.Name, op.Sym)
	}
	for _, op := range cmpOps {
		fmt.Fprintf(&b, "func vv_%s(a, b %s) bool { return a %s b }\n", op.Name, t.Name, op.Sym)
	}
	fmt.Fprintf(&b, "func un_neg(a %s) %s { return -a }\n", t.Name, t.Name)
	fmt.Fprintf(&b, "func un_not(a %s) %s { return ^a }\n", t.Name, t.Name)
	fmt.Fprintf(&b, "func un_pos(a %s) %s { return +a }\n", t.Name, t.Name)
	fmt.Fprintf(&b, "func un_inc(a %s) %s { a++; return a }\n", t.Name, t.Name)
	fmt.Fprintf(&b, "func un_dec(a %s) %s { a--; return a }\n", t.Name, t.Name)
	fmt.Fprintf(&b, "func un_incp(a %s) %s { p := &a; *p++; return a }\n", t.Name, t.Name)
	fmt.Fprintf(&b, "func un_decidx(a %s) %s { s := []%s{a}; s[0]--; return s[0] }\n", t.Name, t.Name, t.Name)
	fmt.Fprintf(&b, "func un_negneg(a %s) %s { return - -a }\n", t.Name, t.Name)
	fmt.Fprintf(&b, "func un_negsub(a, b %s) %s { return a - -b }\n", t.Name, t.Name)
	unary := []string{"neg", "not", "pos", "inc", "dec", "incp", "decidx", "negneg"}

	// shifts with variable counts of several unsigned and signed types
	cntTypes := []string{"uint8", "U", "uint32", "uint64", "I", "int64", "uint16"}
	for _, op := range shiftOps {
		for _, ct := range cntTypes {
			fmt.Fprintf(&b, "func sh_%s_%s(a %s, n %s) %s { return a %s n }\n", op.Name, ct, t.Name, ct, t.Name, op.Sym)
		}
		fmt.Fprintf(&b, "func sha_%s(a %s, n uint) %s { a %s= n; return a }\n", op.Name, t.Name, t.Name, op.Sym)
		fmt.Fprintf(&b, "func shs_%s(a %s, n uint) %s { return sideo(a, 1) %s sideu(n, 2) }\n", op.Name, t.Name, t.Name, op.Sym)
		// nested shifts with two different variable counts (bit-field extraction shapes)
		for _, op2 := range shiftOps {
			fmt.Fprintf(&b, "func nsh_%s_%s(a %s, n, m uint) %s { return (a %s n) %s m }\n", op.Name, op2.Name, t.Name, t.Name, op.Sym, op2.Sym)
			fmt.Fprintf(&b, "func nshc_%s_%s(a %s, n, m uint) %s { return a %s (n %s (m & 3)) }\n", op.Name, op2.Name, t.Name, t.Name, op.Sym, op2.Sym)
		}
		for _, n := range []int{1, 31, 32, 40, 64} {
			fmt.Fprintf(&b, "func shcs_%s_%d(a %s) %s { return sideo(a, 1) %s %d }\n", op.Name, n, t.Name, t.Name, op.Sym, n)
		}
		// constant counts
		for _, n := range shiftCounts {
			if n > 70 {
				continue
			}
			fmt.Fprintf(&b, "func shc_%s_%d(a %s) %s { return a %s %d }\n", op.Name, n, t.Name, t.Name, op.Sym, n)
		}
	}

	// constant operands: a subset of the grid as literal on either side
	type cfn struct {
		name string
		kind string // "val" or "divl" "divr" "cmp"
	}
	var constFns []cfn
	nconst := 6
	if thorough {
		nconst = 14
	}
	perm := r.Perm(len(grid))
	for ci := 0; ci < nconst && ci < len(perm); ci++ {
		k := grid[perm[ci]]
		kl := lit(k, t)
		for _, op := range intBin {
			n1 := fmt.Sprintf("vc_%s_%d", op.Name, ci)
			fmt.Fprintf(&b, "func %s(a %s) %s { return a %s %s }\n", n1, t.Name, t.Name, op.Sym, kl)
			n2 := fmt.Sprintf("cv_%s_%d", op.Name, ci)
			fmt.Fprintf(&b, "func %s(a %s) %s { return %s %s a }\n", n2, t.Name, t.Name, kl, op.Sym)
			constFns = append(constFns, cfn{n1, "val"}, cfn{n2, "val"})
		}
		for _, op := range intDiv {
			if k.Sign() != 0 {
				n1 := fmt.Sprintf("vc_%s_%d", op.Name, ci)
				fmt.Fprintf(&b, "func %s(a %s) %s { return a %s %s }\n", n1, t.Name, t.Name, op.Sym, kl)
				constFns = append(constFns, cfn{n1, "val"})
			}
			n2 := fmt.Sprintf("cv_%s_%d", op.Name, ci)
			fmt.Fprintf(&b, "func %s(a %s) (r %s, p string) {\n\tdefer func() {\n\t\tif e := recover(); e != nil {\n\t\t\tp = errs(e)\n\t\t}\n\t}()\n\treturn %s %s a, \"\"\n}\n", n2, t.Name, t.Name, kl, op.Sym)
			constFns = append(constFns, cfn{n2, "div"})
		}
		for _, op := range cmpOps {
			n1 := fmt.Sprintf("vc_%s_%d", op.Name, ci)
			fmt.Fprintf(&b, "func %s(a %s) bool { return a %s %s }\n", n1, t.Name, op.Sym, kl)
			constFns = append(constFns, cfn{n1, "cmp"})
		}
		// shift of a constant by a variable count
		for _, op := range shiftOps {
			n1 := fmt.Sprintf("cs_%s_%d", op.Name, ci)
			fmt.Fprintf(&b, "func %s(n uint) %s { return %s %s n }\n", n1, t.Name, kl, op.Sym)
			constFns = append(constFns, cfn{n1, "shift"})
		}
	}

	// magnitude sweep: multiplication, division and remainder by constants of every bit length
	// (a translation that depends on the size of a constant operand is exercised at each size)
	for bl := 2; bl <= t.Bits; bl++ {
		if !thorough && bl%2 == 1 && bl < t.Bits-2 && bl > 8 && r.Intn(2) == 0 {
			continue
		}
		k := new(big.Int).Lsh(big.NewInt(1), uint(bl-1))
		k.Or(k, new(big.Int).Rsh(new(big.Int).SetUint64(r.Uint64()), uint(64-bl+1)))
		k.SetBit(k, 0, 1)
		if r.Intn(3) == 0 {
			k.Sub(new(big.Int).Lsh(big.NewInt(1), uint(bl)), big.NewInt(1))
		}
		if t.Signed && r.Intn(2) == 0 {
			k.Neg(k)
		}
		k = wrap(k, t)
		if k.Sign() == 0 {
			continue
		}
		kl := lit(k, t)
		for _, op := range [][2]string{{"mul", "*"}, {"quo", "/"}, {"rem", "%"}} {
			n1 := fmt.Sprintf("mg_%s_%d", op[0], bl)
			fmt.Fprintf(&b, "func %s(a %s) %s { return a %s %s }\n", n1, t.Name, t.Name, op[1], kl)
			constFns = append(constFns, cfn{n1, "val"})
			if op[0] == "mul" {
				n2 := fmt.Sprintf("gm_%s_%d", op[0], bl)
				fmt.Fprintf(&b, "func %s(a %s) %s { return %s %s a }\n", n2, t.Name, t.Name, kl, op[1])
				n3 := fmt.Sprintf("ga_%s_%d", op[0], bl)
				fmt.Fprintf(&b, "func %s(a %s) %s { a %s= %s; return a }\n", n3, t.Name, t.Name, op[1], kl)
				constFns = append(constFns, cfn{n2, "val"}, cfn{n3, "val"})
			}
		}
	}

	// fully constant expressions (folded by go/types) – only those valid in Go (no overflow)
	var foldLines []string
	for i := 0; i < len(grid) && len(foldLines) < 400; i++ {
		for j := 0; j < len(grid); j++ {
			a, c := grid[i], grid[j]
			for _, op := range append(append([]opSpec{}, intBin...), intDiv...) {
				if r.Intn(7) != 0 {
					continue
				}
				res, ok := foldInt(op.Name, a, c, t)
				if !ok {
					continue
				}
				_ = res
				foldLines = append(foldLines, fmt.Sprintf("\tf.add64(%s)", digestExpr(t, fmt.Sprintf("(%s %s %s)", lit(a, t), op.Sym, lit(c, t)))))
			}
		}
	}

	// random expression trees over four variables
	ntree := 24
	if thorough {
		ntree = 120
	}
	for i := 0; i < ntree; i++ {
		fmt.Fprintf(&b, "func tree_%d(a, b, c, d %s) %s { return %s }\n", i, t.Name, t.Name, randIntTree(r, t, 3))
	}

	// ---- main
	b.WriteString("\nfunc main() {\n")
	fmt.Fprintf(&b, "\tconst T = %q\n", t.Name)
	emitDigest := func(name, body string) {
		fmt.Fprintf(&b, "\t{\n\t\tf := newFnv()\n\t\tn := 0\n%s\t\tprintln(\"D \" + T + \" %s \" + f.sum() + \" \" + itoa(n))\n\t}\n", body, name)
		cases++
	}
	sample := func(cond string, parts ...string) string {
		return fmt.Sprintf("\t\t\tif %s || verboseFn == %s {\n\t\t\t\tprintln(\"S \" + T + \" \" + %s)\n\t\t\t}\n", cond, parts[0], strings.Join(parts, " + \" \" + "))
	}
	for _, op := range intBin {
		for _, shape := range []string{"vv", "as", "ne"} {
			fn := shape + "_" + op.Name
			body := "\t\tfor _, a := range grid {\n\t\t\tfor _, b := range grid {\n\t\t\tr := " + fn + "(a, b)\n\t\t\tf.add64(" + digestExpr(t, "r") + ")\n\t\t\tn++\n" +
				sample("n%97 == 0", `"`+fn+`"`, showExpr(t, "a"), showExpr(t, "b"), showExpr(t, "r")) + "\t\t\t}\n\t\t}\n"
			emitDigest(fn, body)
		}
	}
	for _, op := range intDiv {
		for _, shape := range []string{"vv", "as"} {
			fn := shape + "_" + op.Name
			body := "\t\tfor _, a := range grid {\n\t\t\tfor _, b := range grid {\n\t\t\tr, p := " + fn + "(a, b)\n\t\t\tf.add64(" + digestExpr(t, "r") + ")\n\t\t\tf.addStr(p)\n\t\t\tn++\n" +
				sample("n%97 == 0 || (p != \"\" && n%13 == 0)", `"`+fn+`"`, showExpr(t, "a"), showExpr(t, "b"), showExpr(t, "r"), "p") + "\t\t\t}\n\t\t}\n"
			emitDigest(fn, body)
		}
	}
	for _, op := range cmpOps {
		fn := "vv_" + op.Name
		body := "\t\tfor _, a := range grid {\n\t\t\tfor _, b := range grid {\n\t\t\tr := " + fn + "(a, b)\n\t\t\tf.addStr(btoa(r))\n\t\t\tn++\n" +
			sample("n%197 == 0", `"`+fn+`"`, showExpr(t, "a"), showExpr(t, "b"), "btoa(r)") + "\t\t\t}\n\t\t}\n"
		emitDigest(fn, body)
	}
	for _, u := range unary {
		fn := "un_" + u
		body := "\t\tfor _, a := range grid {\n\t\t\tr := " + fn + "(a)\n\t\t\tf.add64(" + digestExpr(t, "r") + ")\n\t\t\tn++\n" +
			sample("n%11 == 0", `"`+fn+`"`, showExpr(t, "a"), showExpr(t, "r")) + "\t\t}\n"
		emitDigest(fn, body)
	}
	{
		body := "\t\tfor _, a := range grid {\n\t\t\tfor _, b := range grid {\n\t\t\tr := un_negsub(a, b)\n\t\t\tf.add64(" + digestExpr(t, "r") + ")\n\t\t\tn++\n\t\t\t}\n\t\t}\n"
		emitDigest("un_negsub", body)
	}
	cnts := make([]string, len(shiftCounts))
	for i, n := range shiftCounts {
		cnts[i] = fmt.Sprint(n)
	}
	fmt.Fprintf(&b, "\tcounts := []uint64{%s}\n", strings.Join(cnts, ", "))
	for _, op := range shiftOps {
		for _, ct := range cntTypes {
			fn := fmt.Sprintf("sh_%s_%s", op.Name, ct)
			guard := ""
			switch ct {
			case "uint8":
				guard = "if c > 255 { continue }\n"
			case "I":
				guard = ""
			}
			body := "\t\tfor _, a := range grid {\n\t\t\tfor _, c := range counts {\n\t\t\t" + guard + "\t\t\tr := " + fn + "(a, " + ct + "(c))\n\t\t\tf.add64(" + digestExpr(t, "r") + ")\n\t\t\tn++\n" +
				sample("n%53 == 0", `"`+fn+`"`, showExpr(t, "a"), "u64s(c)", showExpr(t, "r")) + "\t\t\t}\n\t\t}\n"
			emitDigest(fn, body)
		}
		fn := "sha_" + op.Name
		body := "\t\tfor _, a := range grid {\n\t\t\tfor _, c := range counts {\n\t\t\tr := " + fn + "(a, uint(c))\n\t\t\tf.add64(" + digestExpr(t, "r") + ")\n\t\t\tn++\n\t\t\t}\n\t\t}\n"
		emitDigest(fn, body)
		for _, op2 := range shiftOps {
			for _, pre := range []string{"nsh_", "nshc_"} {
				fn := pre + op.Name + "_" + op2.Name
				body := "\t\tfor _, a := range grid {\n\t\t\tfor ci, c := range counts {\n\t\t\tif c > 40 {\n\t\t\t\tcontinue\n\t\t\t}\n\t\t\td := counts[(ci*7+3)%len(counts)] % 37\n\t\t\tr := " + fn + "(a, uint(c), uint(d))\n\t\t\tf.add64(" + digestExpr(t, "r") + ")\n\t\t\tn++\n" +
					sample("n%101 == 0", `"`+fn+`"`, showExpr(t, "a"), "u64s(c)", "u64s(d)", showExpr(t, "r")) + "\t\t\t}\n\t\t}\n"
				emitDigest(fn, body)
			}
		}
		fn = "shs_" + op.Name
		body = "\t\tfor _, a := range grid {\n\t\t\tfor _, c := range counts {\n\t\t\tsideOrd = 0\n\t\t\tr := " + fn + "(a, uint(c))\n\t\t\tf.add64(" + digestExpr(t, "r") + ")\n\t\t\tf.add64(sideOrd)\n\t\t\tn++\n" +
			sample("n%97 == 0", `"`+fn+`"`, showExpr(t, "a"), "u64s(c)", showExpr(t, "r"), "u64s(sideOrd)") + "\t\t\t}\n\t\t}\n"
		emitDigest(fn, body)
		for _, n := range []int{1, 31, 32, 40, 64} {
			fn := fmt.Sprintf("shcs_%s_%d", op.Name, n)
			body := "\t\tfor _, a := range grid {\n\t\t\tsideOrd = 0\n\t\t\tr := " + fn + "(a)\n\t\t\tf.add64(" + digestExpr(t, "r") + ")\n\t\t\tf.add64(sideOrd)\n\t\t\tn++\n" +
				sample("n%41 == 0", `"`+fn+`"`, showExpr(t, "a"), showExpr(t, "r"), "u64s(sideOrd)") + "\t\t}\n"
			emitDigest(fn, body)
		}
		for _, n := range shiftCounts {
			if n > 70 {
				continue
			}
			fn := fmt.Sprintf("shc_%s_%d", op.Name, n)
			body := "\t\tfor _, a := range grid {\n\t\t\tr := " + fn + "(a)\n\t\t\tf.add64(" + digestExpr(t, "r") + ")\n\t\t\tn++\n" +
				sample("n%29 == 0", `"`+fn+`"`, showExpr(t, "a"), showExpr(t, "r")) + "\t\t}\n"
			emitDigest(fn, body)
		}
	}
	for _, cf := range constFns {
		var body string
		switch cf.kind {
		case "val":
			body = "\t\tfor _, a := range grid {\n\t\t\tr := " + cf.name + "(a)\n\t\t\tf.add64(" + digestExpr(t, "r") + ")\n\t\t\tn++\n" +
				sample("n%37 == 0", `"`+cf.name+`"`, showExpr(t, "a"), showExpr(t, "r")) + "\t\t}\n"
		case "div":
			body = "\t\tfor _, a := range grid {\n\t\t\tr, p := " + cf.name + "(a)\n\t\t\tf.add64(" + digestExpr(t, "r") + ")\n\t\t\tf.addStr(p)\n\t\t\tn++\n" +
				sample("n%37 == 0", `"`+cf.name+`"`, showExpr(t, "a"), showExpr(t, "r"), "p") + "\t\t}\n"
		case "cmp":
			body = "\t\tfor _, a := range grid {\n\t\t\tr := " + cf.name + "(a)\n\t\t\tf.addStr(btoa(r))\n\t\t\tn++\n\t\t}\n"
		case "shift":
			body = "\t\tfor _, c := range counts {\n\t\t\tr := " + cf.name + "(uint(c))\n\t\t\tf.add64(" + digestExpr(t, "r") + ")\n\t\t\tn++\n" +
				sample("n%7 == 0", `"`+cf.name+`"`, "u64s(c)", showExpr(t, "r")) + "\t\t}\n"
		}
		emitDigest(cf.name, body)
	}
	if len(foldLines) > 0 {
		body := "\t\t_ = n\n" + strings.Join(foldLines, "\n") + "\n\t\tn = " + fmt.Sprint(len(foldLines)) + "\n"
		emitDigest("constfold", strings.ReplaceAll(body, "\tf.add64", "\t\tf.add64"))
	}
	npairs := 300
	if thorough {
		npairs = 20000
	}
	for i := 0; i < ntree; i++ {
		fn := fmt.Sprintf("tree_%d", i)
		body := fmt.Sprintf("\t\trg := &rng{%d}\n\t\tfor i := 0; i < %d; i++ {\n\t\t\ta, b, c, d := pick(rg), pick(rg), pick(rg), pick(rg)\n\t\t\tr := %s(a, b, c, d)\n\t\t\tf.add64(%s)\n\t\t\tn++\n%s\t\t}\n",
			r.Int63()|1, npairs, fn, digestExpr(t, "r"),
			sample("n%(1+"+fmt.Sprint(npairs/3)+") == 0", `"`+fn+`"`, showExpr(t, "a"), showExpr(t, "b"), showExpr(t, "c"), showExpr(t, "d"), showExpr(t, "r")))
		emitDigest(fn, body)
	}
	// PRNG pairs per binary operator
	for _, op := range append(append([]opSpec{}, intBin...), intDiv...) {
		fn := "vv_" + op.Name
		call := "r := " + fn + "(a, b)"
		post := ""
		if op.Name == "quo" || op.Name == "rem" {
			call = "r, p := " + fn + "(a, b)"
			post = "\t\t\tf.addStr(p)\n"
		}
		body := fmt.Sprintf("\t\trg := &rng{%d}\n\t\tfor i := 0; i < %d; i++ {\n\t\t\ta, b := pick(rg), pick(rg)\n\t\t\t%s\n\t\t\tf.add64(%s)\n%s\t\t\tn++\n\t\t}\n",
			r.Int63()|1, npairs*3, call, digestExpr(t, "r"), post)
		emitDigest("rnd_"+fn, body)
	}
	// exhaustive 8-bit
	if t.Bits == 8 {
		ops := append(append([]opSpec{}, intBin...), intDiv...)
		for oi, op := range ops {
			if !thorough && (oi+rot)%3 != 0 {
				continue
			}
			fn := "vv_" + op.Name
			call := "r := " + fn + "(a, b)"
			post := ""
			if op.Name == "quo" || op.Name == "rem" {
				call = "r, p := " + fn + "(a, b)"
				post = "\t\t\t\tf.addStr(p)\n"
			}
			body := fmt.Sprintf("\t\tfor x := 0; x < 256; x++ {\n\t\t\tfor y := 0; y < 256; y++ {\n\t\t\t\ta, b := %s(x), %s(y)\n\t\t\t\t%s\n\t\t\t\tf.add64(%s)\n%s\t\t\t\tn++\n\t\t\t}\n\t\t}\n",
				t.Name, t.Name, call, digestExpr(t, "r"), post)
			emitDigest("exh_"+fn, body)
		}
		for _, op := range shiftOps {
			fn := "sh_" + op.Name + "_uint8"
			body := fmt.Sprintf("\t\tfor x := 0; x < 256; x++ {\n\t\t\tfor y := 0; y < 72; y++ {\n\t\t\t\tr := %s(%s(x), uint8(y))\n\t\t\t\tf.add64(%s)\n\t\t\t\tn++\n\t\t\t}\n\t\t}\n", fn, t.Name, digestExpr(t, "r"))
			emitDigest("exh_"+fn, body)
		}
	}
	b.WriteString("\tprintln(\"END\")\n}\n\n")
	// pick: grid value or random bits
	fmt.Fprintf(&b, "func pick(rg *rng) %s {\n\tx := rg.next()\n\tif x&3 == 0 {\n\t\treturn grid[int((x>>8)%%uint64(len(grid)))]\n\t}\n\tif x&12 == 4 {\n\t\treturn %s(x >> 40)\n\t}\n\treturn %s(x >> 8)\n}\n", t.Name, t.Name, t.Name)

	files := map[string]string{"main.go": b.String(), "c06lib.go": c06lib}
	return files, cases
}

// foldInt evaluates a constant expression the way go/types does and reports whether it is a
// valid (non-overflowing, no division by zero) typed constant expression.
func foldInt(op string, a, c *big.Int, t numType) (*big.Int, bool) {
	r := new(big.Int)
	switch op {
	case "add":
		r.Add(a, c)
	case "sub":
		r.Sub(a, c)
	case "mul":
		r.Mul(a, c)
	case "and":
		r.And(a, c)
	case "or":
		r.Or(a, c)
	case "xor":
		r.Xor(a, c)
	case "andnot":
		r.AndNot(a, c)
	case "quo":
		if c.Sign() == 0 {
			return nil, false
		}
		r.Quo(a, c)
	case "rem":
		if c.Sign() == 0 {
			return nil, false
		}
		r.Rem(a, c)
	}
	lo, hi := rangeOf(t)
	if r.Cmp(lo) < 0 || r.Cmp(hi) > 0 {
		return nil, false
	}
	return r, true
}

func randIntTree(r *rand.Rand, t numType, depth int) string {
	e, _ := randIntTree2(r, t, depth)
	return e
}

// randIntTree2 returns an expression and whether it is a constant expression. Constant
// sub-expressions are never combined with each other (Go rejects overflowing constant
// arithmetic at compile time), so every operator node has at least one run-time operand.
func randIntTree2(r *rand.Rand, t numType, depth int) (string, bool) {
	if depth == 0 || r.Intn(5) == 0 {
		switch r.Intn(6) {
		case 0:
			lo, hi := rangeOf(t)
			span := new(big.Int).Sub(hi, lo)
			v := new(big.Int).Rand(r, span)
			v.Add(v, lo)
			if r.Intn(2) == 0 {
				v = big.NewInt(int64(r.Intn(200) - 100))
				if !t.Signed && v.Sign() < 0 {
					v.Neg(v)
				}
			}
			if v.Cmp(lo) < 0 || v.Cmp(hi) > 0 {
				v = big.NewInt(1)
			}
			return lit(v, t), true
		default:
			return string("abcd"[r.Intn(4)]), false
		}
	}
	x, xc := randIntTree2(r, t, depth-1)
	y, yc := randIntTree2(r, t, depth-1)
	if xc && yc {
		y, yc = string("abcd"[r.Intn(4)]), false
	}
	if xc {
		// unary operators and shifts need a run-time left operand
		x, y = y, x
		xc, yc = yc, xc
	}
	switch r.Intn(14) {
	case 0:
		return "(" + x + " + " + y + ")", false
	case 1:
		return "(" + y + " - " + x + ")", false
	case 2:
		return "(" + x + " * " + y + ")", false
	case 3:
		return "(" + x + " & " + y + ")", false
	case 4:
		return "(" + y + " | " + x + ")", false
	case 5:
		return "(" + x + " ^ " + y + ")", false
	case 6:
		return "(" + y + " &^ " + x + ")", false
	case 7:
		return fmt.Sprintf("(%s << (uint(%d)))", x, r.Intn(t.Bits+3)), false
	case 8:
		return fmt.Sprintf("(%s >> (uint(%d)))", x, r.Intn(t.Bits+3)), false
	case 9:
		return "(-" + x + ")", false
	case 10:
		return "(^" + x + ")", false
	case 11:
		if yc {
			return fmt.Sprintf("(%s / (%s | 1))", y, x), false // divisor never zero
		}
		return fmt.Sprintf("(%s / (%s | 1))", x, y), false
	case 12:
		if yc {
			return fmt.Sprintf("(%s %% (%s | 1))", y, x), false
		}
		return fmt.Sprintf("(%s %% (%s | 1))", x, y), false
	default:
		if yc {
			return fmt.Sprintf("(%s << (uint8(%s) & %d))", y, x, 2*t.Bits-1), false
		}
		return fmt.Sprintf("(%s << (uint8(%s) & %d))", x, y, 2*t.Bits-1), false
	}
}

// ---------------------------------------------------------------- floats

func floatGrid(bits int, r *rand.Rand, extra int) []float64 {
	vals := []float64{0, math.Copysign(0, -1), 1, -1, 2, -2, 0.5, -0.5, 1.5, 2.5, 3.5, -2.5, 0.1, 0.2, 0.3, 1e-300, 1e300, -1e300,
		math.Inf(1), math.Inf(-1), math.NaN(), math.MaxFloat64, -math.MaxFloat64, math.SmallestNonzeroFloat64, -math.SmallestNonzeroFloat64,
		math.MaxFloat32, math.SmallestNonzeroFloat32, float64(math.MaxFloat32) * 2, 2.2250738585072014e-308, 1.1754943508222875e-38,
		16777216, 16777217, 16777215, 9007199254740992, 9007199254740993, 9007199254740991, 2147483647, 2147483648, -2147483648, -2147483649,
		4294967295, 4294967296, 9223372036854775807, 18446744073709551615, 1e15 + 0.5, 4503599627370497.5, 0.49999999999999994,
		1 + 1.0/(1<<23), 1 + 1.0/(1<<24), 1 + 1.0/(1<<24) + 1.0/(1<<52), 3.0000001, 1e-45, 7e-46, 1.401298464324817e-45,
		123456789.125, -987654321.75, 1e10, 1e20, math.Pi, math.E}
	for i := 0; i < extra; i++ {
		vals = append(vals, math.Float64frombits(r.Uint64()))
		vals = append(vals, float64(math.Float32frombits(r.Uint32())))
		vals = append(vals, float64(r.Int63n(1<<54)-1<<53)/float64(int64(1)<<uint(r.Intn(60))))
	}
	if bits == 32 {
		out := vals[:0:0]
		for _, v := range vals {
			out = append(out, float64(float32(v)))
		}
		return out
	}
	return vals
}

func floatLit(v float64, t numType) string {
	switch {
	case v != v:
		return t.Name + "(nan())"
	case math.IsInf(v, 1):
		return t.Name + "(inf(1))"
	case math.IsInf(v, -1):
		return t.Name + "(inf(-1))"
	case v == 0 && math.Signbit(v):
		return t.Name + "(negzero())"
	}
	if t.Bits == 32 {
		return fmt.Sprintf("math.Float32frombits(0x%08x)", math.Float32bits(float32(v)))
	}
	return fmt.Sprintf("math.Float64frombits(0x%016x)", math.Float64bits(v))
}

// floatConst renders v as a Go constant expression of type t (exact hex float), or "" when
// it has no constant form (NaN, Inf, -0).
func floatConst(v float64, t numType) string {
	if v != v || math.IsInf(v, 0) || (v == 0 && math.Signbit(v)) {
		return ""
	}
	return fmt.Sprintf("%s(%s)", t.Name, fmtHexFloat(v))
}

func fmtHexFloat(v float64) string {
	return fmt.Sprintf("%x", v) // 0x1.8p+01 – valid Go hex float literal
}

func genFloatProgram(t numType, r *rand.Rand, thorough bool) (map[string]string, int) {
	var b strings.Builder
	grid := floatGrid(t.Bits, r, 10)
	b.WriteString("package main\n\nimport \"math\"\n\n")
	b.WriteString("func nan() float64 { z := 0.0; return z / z }\nfunc inf(s int) float64 { z := 0.0; if s > 0 { return 1 / z }; return -1 / z }\nfunc negzero() float64 { z := 0.0; return -1 * z }\n\n")
	fmt.Fprintf(&b, "var grid = []%s{", t.Name)
	for i, v := range grid {
		if i%4 == 0 {
			b.WriteString("\n\t")
		}
		b.WriteString(floatLit(v, t) + ", ")
	}
	b.WriteString("\n}\n\n")
	fmt.Fprintf(&b, "var sink %s\n\nfunc side(v %s) %s { sink = v; return v }\n\n", t.Name, t.Name, t.Name)
	cases := 0
	for _, op := range floatBin {
		fmt.Fprintf(&b, "func vv_%s(a, b %s) %s { return a %s b }\n", op.Name, t.Name, t.Name, op.Sym)
		fmt.Fprintf(&b, "func as_%s(a, b %s) %s { a %s= b; return a }\n", op.Name, t.Name, t.Name, op.Sym)
		fmt.Fprintf(&b, "func ne_%s(a, b %s) %s { return side(a) %s (b * side(1)) }\n", op.Name, t.Name, t.Name, op.Sym)
	}
	for _, op := range cmpOps {
		fmt.Fprintf(&b, "func vv_%s(a, b %s) bool { return a %s b }\n", op.Name, t.Name, op.Sym)
	}
	fmt.Fprintf(&b, "func un_neg(a %s) %s { return -a }\nfunc un_pos(a %s) %s { return +a }\nfunc un_inc(a %s) %s { a++; return a }\nfunc un_dec(a %s) %s { a--; return a }\n", t.Name, t.Name, t.Name, t.Name, t.Name, t.Name, t.Name, t.Name)
	fmt.Fprintf(&b, "func un_sq(a %s) %s { return a * a }\nfunc un_triple(a %s) %s { return a + a + a }\nfunc un_muladd(a %s) %s { return %s(a*a) + a }\n", t.Name, t.Name, t.Name, t.Name, t.Name, t.Name, t.Name)
	unary := []string{"neg", "pos", "inc", "dec", "sq", "triple", "muladd"}
	type cfn struct{ name, kind string }
	var constFns []cfn
	nconst := 8
	if thorough {
		nconst = 24
	}
	perm := r.Perm(len(grid))
	ci := 0
	for _, pi := range perm {
		if ci >= nconst {
			break
		}
		kl := floatConst(grid[pi], t)
		if kl == "" {
			continue
		}
		for _, op := range floatBin {
			n1 := fmt.Sprintf("vc_%s_%d", op.Name, ci)
			if !(op.Name == "quo" && grid[pi] == 0) {
				fmt.Fprintf(&b, "func %s(a %s) %s { return a %s %s }\n", n1, t.Name, t.Name, op.Sym, kl)
				constFns = append(constFns, cfn{n1, "val"})
			}
			n2 := fmt.Sprintf("cv_%s_%d", op.Name, ci)
			fmt.Fprintf(&b, "func %s(a %s) %s { return %s %s a }\n", n2, t.Name, t.Name, kl, op.Sym)
			constFns = append(constFns, cfn{n2, "val"})
		}
		for _, op := range cmpOps {
			n1 := fmt.Sprintf("vc_%s_%d", op.Name, ci)
			fmt.Fprintf(&b, "func %s(a %s) bool { return a %s %s }\n", n1, t.Name, op.Sym, kl)
			constFns = append(constFns, cfn{n1, "cmp"})
		}
		ci++
	}
	ntree := 20
	if thorough {
		ntree = 100
	}
	for i := 0; i < ntree; i++ {
		fmt.Fprintf(&b, "func tree_%d(a, b, c, d %s) %s { return %s }\n", i, t.Name, t.Name, randFloatTree(r, t, 3))
	}
	b.WriteString("\nfunc main() {\n")
	fmt.Fprintf(&b, "\tconst T = %q\n", t.Name)
	emitDigest := func(name, body string) {
		fmt.Fprintf(&b, "\t{\n\t\tf := newFnv()\n\t\tn := 0\n%s\t\tprintln(\"D \" + T + \" %s \" + f.sum() + \" \" + itoa(n))\n\t}\n", body, name)
		cases++
	}
	sample := func(cond string, parts ...string) string {
		return fmt.Sprintf("\t\t\tif %s || verboseFn == %s {\n\t\t\t\tprintln(\"S \" + T + \" \" + %s)\n\t\t\t}\n", cond, parts[0], strings.Join(parts, " + \" \" + "))
	}
	for _, op := range floatBin {
		for _, shape := range []string{"vv", "as", "ne"} {
			fn := shape + "_" + op.Name
			body := "\t\tfor _, a := range grid {\n\t\t\tfor _, b := range grid {\n\t\t\tr := " + fn + "(a, b)\n\t\t\tf.add64(" + digestExpr(t, "r") + ")\n\t\t\tn++\n" +
				sample("n%211 == 0", `"`+fn+`"`, showExpr(t, "a"), showExpr(t, "b"), showExpr(t, "r")) + "\t\t\t}\n\t\t}\n"
			emitDigest(fn, body)
		}
	}
	for _, op := range cmpOps {
		fn := "vv_" + op.Name
		body := "\t\tfor _, a := range grid {\n\t\t\tfor _, b := range grid {\n\t\t\tr := " + fn + "(a, b)\n\t\t\tf.addStr(btoa(r))\n\t\t\tn++\n\t\t\t}\n\t\t}\n"
		emitDigest(fn, body)
	}
	for _, u := range unary {
		fn := "un_" + u
		body := "\t\tfor _, a := range grid {\n\t\t\tr := " + fn + "(a)\n\t\t\tf.add64(" + digestExpr(t, "r") + ")\n\t\t\tn++\n" +
			sample("n%17 == 0", `"`+fn+`"`, showExpr(t, "a"), showExpr(t, "r")) + "\t\t}\n"
		emitDigest(fn, body)
	}
	for _, cf := range constFns {
		var body string
		if cf.kind == "val" {
			body = "\t\tfor _, a := range grid {\n\t\t\tr := " + cf.name + "(a)\n\t\t\tf.add64(" + digestExpr(t, "r") + ")\n\t\t\tn++\n" +
				sample("n%41 == 0", `"`+cf.name+`"`, showExpr(t, "a"), showExpr(t, "r")) + "\t\t}\n"
		} else {
			body = "\t\tfor _, a := range grid {\n\t\t\tr := " + cf.name + "(a)\n\t\t\tf.addStr(btoa(r))\n\t\t\tn++\n\t\t}\n"
		}
		emitDigest(cf.name, body)
	}
	npairs := 300
	if thorough {
		npairs = 20000
	}
	for i := 0; i < ntree; i++ {
		fn := fmt.Sprintf("tree_%d", i)
		body := fmt.Sprintf("\t\trg := &rng{%d}\n\t\tfor i := 0; i < %d; i++ {\n\t\t\ta, b, c, d := pick(rg), pick(rg), pick(rg), pick(rg)\n\t\t\tr := %s(a, b, c, d)\n\t\t\tf.add64(%s)\n\t\t\tn++\n%s\t\t}\n",
			r.Int63()|1, npairs, fn, digestExpr(t, "r"),
			sample("n%(1+"+fmt.Sprint(npairs/3)+") == 0", `"`+fn+`"`, showExpr(t, "a"), showExpr(t, "b"), showExpr(t, "c"), showExpr(t, "d"), showExpr(t, "r")))
		emitDigest(fn, body)
	}
	for _, op := range floatBin {
		fn := "vv_" + op.Name
		body := fmt.Sprintf("\t\trg := &rng{%d}\n\t\tfor i := 0; i < %d; i++ {\n\t\t\ta, b := pick(rg), pick(rg)\n\t\t\tr := %s(a, b)\n\t\t\tf.add64(%s)\n\t\t\tn++\n\t\t}\n",
			r.Int63()|1, npairs*3, fn, digestExpr(t, "r"))
		emitDigest("rnd_"+fn, body)
	}
	b.WriteString("\tprintln(\"END\")\n}\n\n")
	if t.Bits == 32 {
		b.WriteString("func pick(rg *rng) float32 {\n\tx := rg.next()\n\tif x&3 == 0 {\n\t\treturn grid[int((x>>8)%uint64(len(grid)))]\n\t}\n\tif x&12 == 4 {\n\t\treturn float32(int32(x>>20)) / 8\n\t}\n\treturn math.Float32frombits(uint32(x >> 16))\n}\n")
	} else {
		b.WriteString("func pick(rg *rng) float64 {\n\tx := rg.next()\n\tif x&3 == 0 {\n\t\treturn grid[int((x>>8)%uint64(len(grid)))]\n\t}\n\tif x&12 == 4 {\n\t\treturn float64(int64(x>>20)) / 1024\n\t}\n\treturn math.Float64frombits(rg.next())\n}\n")
	}
	return map[string]string{"main.go": b.String(), "c06lib.go": c06lib}, cases
}

func randFloatTree(r *rand.Rand, t numType, depth int) string {
	if depth == 0 || r.Intn(5) == 0 {
		if r.Intn(5) == 0 {
			vals := []string{"0.1", "3", "0.5", "1e10", "7.25", "1e-3", "16777216", "0.3"}
			return t.Name + "(" + vals[r.Intn(len(vals))] + ")"
		}
		return string("abcd"[r.Intn(4)])
	}
	x := randFloatTree(r, t, depth-1)
	y := randFloatTree(r, t, depth-1)
	switch r.Intn(6) {
	case 0:
		return "(" + x + " + " + y + ")"
	case 1:
		return "(" + x + " - " + y + ")"
	case 2:
		// explicit conversion forbids fusing x*y+z into an FMA on any reference architecture
		return t.Name + "(" + x + " * " + y + ")"
	case 3:
		return "(" + x + " / " + y + ")"
	case 4:
		return "(-" + x + ")"
	default:
		return t.Name + "(" + x + " * " + y + ")"
	}
}
