package c06

import (
	"encoding/json"
	"fmt"
	"path/filepath"
	"regexp"
	"strings"
	"sync"
	"time"

	"verif/internal/core"
	"verif/internal/proglib"
)

// Run is the C06 check.
func Run(c *core.Ctx) int {
	thorough := !c.Quick()
	type job struct {
		name  string
		files map[string]string
		cases int
	}
	var jobs []job
	rot := int(c.Seed % 3)
	if rot < 0 {
		rot = -rot
	}
	for _, t := range intTypes {
		f, n := genIntProgram(t, c.Rand("int/"+t.Name), thorough, rot)
		jobs = append(jobs, job{"int-" + t.Name, f, n})
	}
	for _, t := range floatTypes {
		f, n := genFloatProgram(t, c.Rand("float/"+t.Name), thorough)
		jobs = append(jobs, job{"float-" + t.Name, f, n})
	}
	for _, t := range complexTypes {
		f, n := genComplexProgram(t, c.Rand("cplx/"+t.Name), thorough)
		jobs = append(jobs, job{"complex-" + t.Name, f, n})
	}
	// conversions: sources split over several programs to keep them small
	all := allNumeric()
	for i := 0; i < len(all); i += 3 {
		j := i + 3
		if j > len(all) {
			j = len(all)
		}
		f, n := genConvProgram(all[i:j], c.Rand(fmt.Sprint("conv/", i)), thorough)
		jobs = append(jobs, job{fmt.Sprintf("conv-%s", all[i].Name), f, n})
	}
	// thorough: extra seeds of every program
	if thorough {
		for rep := 1; rep <= 3; rep++ {
			for _, t := range intTypes {
				f, n := genIntProgram(t, c.Rand(fmt.Sprint("int/", t.Name, "/", rep)), true, rep)
				jobs = append(jobs, job{fmt.Sprintf("int-%s-r%d", t.Name, rep), f, n})
			}
			for _, t := range floatTypes {
				f, n := genFloatProgram(t, c.Rand(fmt.Sprint("float/", t.Name, "/", rep)), true)
				jobs = append(jobs, job{fmt.Sprintf("float-%s-r%d", t.Name, rep), f, n})
			}
		}
	}

	var mu sync.Mutex
	digests, samples, programs := 0, 0, 0
	distinct := map[string]bool{}
	c.Parallel(len(jobs), func(i int) {
		j := jobs[i]
		j.files["main.go"] = addVerbose(j.files["main.go"])
		j.files["zz_verbose.go"] = "package main\n\nvar verbose, verboseFn = \"\", \"\"\n"
		p := &core.Program{Name: "c06/" + j.name, Files: proglib.WithLib(j.files)}
		res := c.DiffProgram(p, core.DiffOpt{Node: core.NodeOpt{Timeout: 10 * time.Minute}, Quiet: true})
		if res.Verdict == "violated" {
			localise(c, p, res)
		}
		mu.Lock()
		defer mu.Unlock()
		if res.Verdict == "inconclusive" {
			return
		}
		programs++
		for _, l := range res.Ref.Lines {
			if strings.HasPrefix(l, "D ") {
				digests++
				fs := strings.Fields(l)
				if len(fs) >= 4 {
					distinct[fs[1]+" "+fs[2]+" "+fs[3]] = true
				}
			} else if strings.HasPrefix(l, "S ") {
				samples++
				if samples%400 == 1 {
					c.Sample(l)
				}
			}
		}
	})
	c.Count("programs", programs)
	c.Count("digest_lines_compared", digests)
	c.Count("sample_lines_compared", samples)

	// level 2: prelude helpers against BigInt
	nr := c.N(20000, 400000)
	r := core.Exec(c.Verif, core.BaseEnv(), 20*time.Minute, "", "node", filepath.Join(c.Verif, "js", "prelude_bigint.js"), c.Repo, fmt.Sprint(c.Seed), fmt.Sprint(nr))
	var l2 struct {
		Tested     int            `json:"tested"`
		ByOp       map[string]int `json:"byOp"`
		Mismatches int            `json:"mismatches"`
		Witnesses  []any          `json:"witnesses"`
	}
	if r.TimedOut {
		c.Inconclusive("prelude-bigint-timeout")
	} else if err := json.Unmarshal([]byte(strings.TrimSpace(r.Stdout)), &l2); err != nil {
		// the prelude could not be loaded stand-alone: machinery problem, not a violation
		c.Inconclusive("prelude-bigint-unloadable")
		fmt.Println("prelude_bigint.js failed:", core.DiffTrace(core.Trace{}, core.Trace{Lines: []string{r.Stderr}}, "", ""))
	} else {
		c.Count("prelude_helper_calls_checked", l2.Tested)
		if l2.Mismatches > 0 {
			w, _ := json.MarshalIndent(l2.Witnesses, "", " ")
			c.Violate("prelude-bigint", fmt.Sprintf("prelude 64-bit helper disagrees with BigInt on %d inputs; first: %s", l2.Mismatches, string(w)),
				map[string]string{"witnesses.json": string(w), "cmd.sh": fmt.Sprintf("node /verif/js/prelude_bigint.js /repo %d %d\n", c.Seed, nr)})
		}
	}
	extra := map[string]any{"prelude_helper_ops": l2.ByOp}
	return c.Finish("exploration", digests+samples+l2.Tested, len(distinct), 300,
		"table-driven programs per numeric type: each (type, operator, operand shape) digest over boundary grid², PRNG operands, shift counts 0..255, 8-bit exhaustive, conversions among all numeric types, random expression trees; compared line by line with the reference toolchain. distinct_nontrivial = distinct (type, function, digest) triples observed on the reference side (each digest folds ≥1 evaluated operation); plus direct calls of the prelude's 64-bit helpers compared with BigInt",
		extra, []string{
			"reference toolchain go1.23.5 on amd64 computes the values the Go spec defines",
			"int/uint/uintptr are referenced through type aliases to int32/uint32 on the native side",
			"out-of-range float→int and overflowing float64→float32 conversions and complex division/multiplication with non-finite operands are excluded (implementation-defined in Go)",
		})
}

var sampleCond = regexp.MustCompile(`if n%(\d+) == 0 \{`)

// addVerbose instruments every digest block: when the package variable `verbose` equals the
// block's D-line prefix, the running digest is printed after every evaluation, so that a
// digest mismatch can be localised to the first differing evaluation.
func addVerbose(src string) string {
	const open = "\t{\n\t\tf := newFnv()"
	parts := strings.Split(src, open)
	for i := 1; i < len(parts); i++ {
		blk := parts[i]
		k := strings.Index(blk, "println(\"D ")
		if k < 0 {
			continue
		}
		e := strings.Index(blk[k:], " + f.sum()")
		if e < 0 {
			continue
		}
		nameExpr := blk[k+len("println(") : k+e]
		head := blk[:k]
		head = sampleCond.ReplaceAllString(head, "if n%$1 == 0 || verbose == "+strings.ReplaceAll(nameExpr, "$", "$$")+" {")
		head = strings.ReplaceAll(head, "n++\n", "n++\nif verbose == "+nameExpr+" { println(\"V \" + itoa(n) + \" \" + f.sum()) }\n")
		parts[i] = head + blk[k:]
	}
	return strings.Join(parts, open)
}

// localise re-runs a program whose digest differed with the verbose switch set to the
// differing digest and reports the first differing evaluation as the witness.
func localise(c *core.Ctx, p *core.Program, res core.DiffResult) {
	key := p.Name
	what := p.Name + ": " + res.Diff
	files := map[string]string{}
	for k, v := range p.Files {
		files["src/"+k] = v
	}
	// every differing digest line of the program is localised (up to 6), not only the first
	var dlines []string
	if len(res.JS) > 0 && len(res.JS[0].Lines) == len(res.Ref.Lines) {
		for i, l := range res.JS[0].Lines {
			if l != res.Ref.Lines[i] && strings.HasPrefix(l, "D ") && len(dlines) < 6 {
				dlines = append(dlines, l)
			}
		}
	}
	if len(dlines) == 0 {
		for _, l := range strings.Split(res.Diff, "\n") {
			l = strings.TrimSpace(l)
			if i := strings.Index(l, ": D "); i >= 0 {
				dlines = append(dlines, l[i+2:])
				break
			}
		}
	}
	reported := false
	for _, dline := range dlines {
		fs := strings.Fields(dline)
		if len(fs) < 4 {
			continue
		}
		prefix := strings.Join(fs[:len(fs)-2], " ") + " "
		q := &core.Program{Name: p.Name + "/verbose", Files: map[string]string{}}
		for k, v := range p.Files {
			q.Files[k] = v
		}
		q.Files["zz_verbose.go"] = fmt.Sprintf("package main\n\nvar verbose, verboseFn = %q, %q\n", prefix, fs[len(fs)-3])
		r2 := c.DiffProgram(q, core.DiffOpt{Node: core.NodeOpt{Timeout: 10 * time.Minute}, Quiet: true})
		f2 := map[string]string{}
		for k, v := range files {
			f2[k] = v
		}
		f2["verbose-diff.txt"] = r2.Diff
		f2["src/zz_verbose.go"] = q.Files["zz_verbose.go"]
		wit := ""
		if len(r2.JS) > 0 {
			wit = tailAround(r2.JS[0].Lines, r2.Ref.Lines)
			f2["js.verbose.out"] = wit
		}
		f2["diff.txt"] = res.Diff
		c.Violate(p.Name+" "+strings.TrimSpace(prefix), fmt.Sprintf("%s: digest %q differs from the reference; around the first differing evaluation:\n%s", p.Name, strings.TrimSpace(prefix), wit), f2)
		reported = true
	}
	if reported {
		return
	}
	files["diff.txt"] = res.Diff
	c.Violate(key, what, files)
}

func tailAround(js, ref []string) string {
	n := len(js)
	if len(ref) < n {
		n = len(ref)
	}
	i := 0
	for i < n && js[i] == ref[i] {
		i++
	}
	lo := i - 3
	if lo < 0 {
		lo = 0
	}
	var b strings.Builder
	for k := lo; k < i+4; k++ {
		if k < len(js) {
			b.WriteString("js : " + js[k] + "\n")
		}
		if k < len(ref) {
			b.WriteString("ref: " + ref[k] + "\n")
		}
	}
	return b.String()
}
