package c06

import (
	"encoding/json"
	"fmt"
	"path/filepath"
	"strings"
	"sync"
	"time"

	"verif/internal/core"
	"verif/internal/tabled"
)

// Run is the C06 check.
func Run(c *core.Ctx) int {
	thorough := !c.Quick()
	type job struct {
		name  string
		files map[string]string
		cases int
	}
	var jobs []job
	rot := int(c.Seed % 3)
	if rot < 0 {
		rot = -rot
	}
	for _, t := range intTypes {
		f, n := genIntProgram(t, c.Rand("int/"+t.Name), thorough, rot)
		jobs = append(jobs, job{"int-" + t.Name, f, n})
	}
	for _, t := range floatTypes {
		f, n := genFloatProgram(t, c.Rand("float/"+t.Name), thorough)
		jobs = append(jobs, job{"float-" + t.Name, f, n})
	}
	for _, t := range complexTypes {
		f, n := genComplexProgram(t, c.Rand("cplx/"+t.Name), thorough)
		jobs = append(jobs, job{"complex-" + t.Name, f, n})
	}
	// conversions: sources split over several programs to keep them small
	all := allNumeric()
	for i := 0; i < len(all); i += 3 {
		j := i + 3
		if j > len(all) {
			j = len(all)
		}
		f, n := genConvProgram(all[i:j], c.Rand(fmt.Sprint("conv/", i)), thorough)
		jobs = append(jobs, job{fmt.Sprintf("conv-%s", all[i].Name), f, n})
	}
	// thorough: extra seeds of every program
	if thorough {
		for rep := 1; rep <= 3; rep++ {
			for _, t := range intTypes {
				f, n := genIntProgram(t, c.Rand(fmt.Sprint("int/", t.Name, "/", rep)), true, rep)
				jobs = append(jobs, job{fmt.Sprintf("int-%s-r%d", t.Name, rep), f, n})
			}
			for _, t := range floatTypes {
				f, n := genFloatProgram(t, c.Rand(fmt.Sprint("float/", t.Name, "/", rep)), true)
				jobs = append(jobs, job{fmt.Sprintf("float-%s-r%d", t.Name, rep), f, n})
			}
		}
	}

	var mu sync.Mutex
	digests, samples, programs, evals := 0, 0, 0, 0
	distinct := map[string]bool{}
	c.Parallel(len(jobs), func(i int) {
		j := jobs[i]
		st := tabled.Run(c, "c06/"+j.name, j.files, 400)
		mu.Lock()
		defer mu.Unlock()
		if !st.Ok {
			return
		}
		programs++
		digests += st.Digests
		evals += st.Evals
		samples += st.Samples
		for k := range st.Distinct {
			distinct[k] = true
		}
	})
	c.Count("programs", programs)
	c.Count("digest_lines_compared", digests)
	c.Count("sample_lines_compared", samples)

	// level 2: prelude helpers against BigInt
	nr := c.N(20000, 200000)
	r := core.Exec(c.Verif, core.BaseEnv(), 20*time.Minute, "", "node", filepath.Join(c.Verif, "js", "prelude_bigint.js"), c.Repo, fmt.Sprint(c.Seed), fmt.Sprint(nr))
	var l2 struct {
		Tested     int            `json:"tested"`
		ByOp       map[string]int `json:"byOp"`
		Mismatches int            `json:"mismatches"`
		Witnesses  []any          `json:"witnesses"`
	}
	if r.TimedOut {
		c.Inconclusive("prelude-bigint-timeout")
	} else if err := json.Unmarshal([]byte(strings.TrimSpace(r.Stdout)), &l2); err != nil {
		// the prelude could not be loaded stand-alone: machinery problem, not a violation
		c.Inconclusive("prelude-bigint-unloadable")
		fmt.Println("prelude_bigint.js failed:", core.DiffTrace(core.Trace{}, core.Trace{Lines: []string{r.Stderr}}, "", ""))
	} else {
		c.Count("prelude_helper_calls_checked", l2.Tested)
		if l2.Mismatches > 0 {
			w, _ := json.MarshalIndent(l2.Witnesses, "", " ")
			c.Violate("prelude-bigint", fmt.Sprintf("prelude 64-bit helper disagrees with BigInt on %d inputs; first: %s", l2.Mismatches, string(w)),
				map[string]string{"witnesses.json": string(w), "cmd.sh": fmt.Sprintf("node /verif/js/prelude_bigint.js /repo %d %d\n", c.Seed, nr)})
		}
	}
	extra := map[string]any{"prelude_helper_ops": l2.ByOp}
	c.Count("operations_evaluated_in_programs", evals)
	return c.Finish("exploration", evals+l2.Tested, len(distinct), 300,
		"table-driven programs per numeric type: each (type, operator, operand shape) digest over boundary grid², PRNG operands, shift counts 0..255, 8-bit exhaustive, conversions among all numeric types, random expression trees; compared line by line with the reference toolchain. distinct_nontrivial = distinct (type, function, digest) triples observed on the reference side (each digest folds ≥1 evaluated operation); plus direct calls of the prelude's 64-bit helpers compared with BigInt",
		extra, []string{
			"reference toolchain go1.23.5 on amd64 computes the values the Go spec defines",
			"int/uint/uintptr are referenced through type aliases to int32/uint32 on the native side",
			"out-of-range float→int and overflowing float64→float32 conversions and complex division/multiplication with non-finite operands are excluded (implementation-defined in Go)",
		})
}
