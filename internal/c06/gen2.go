package c06

import (
	"fmt"
	"math"
	"math/big"
	"math/rand"
	"strings"
)

// genConvProgram: every conversion among the numeric types, run-time values and constants.
// Float→int conversions are only performed for in-range values (the rest is
// implementation-defined in Go and not part of the property).
func genConvProgram(srcs []numType, r *rand.Rand, thorough bool) (map[string]string, int) {
	var b strings.Builder
	b.WriteString("package main\n\nimport \"math\"\n\nvar _ = math.Pi\n\n")
	b.WriteString("func nan() float64 { z := 0.0; return z / z }\nfunc inf(s int) float64 { z := 0.0; if s > 0 { return 1 / z }; return -1 / z }\nfunc negzero() float64 { z := 0.0; return -1 * z }\n\n")
	all := allNumeric()
	cases := 0
	for _, s := range srcs {
		fmt.Fprintf(&b, "var grid_%s = []%s{", s.Name, s.Name)
		if s.Kind == "int" {
			for i, v := range intGrid(s, r, 16) {
				if i%8 == 0 {
					b.WriteString("\n\t")
				}
				b.WriteString(lit(v, s) + ", ")
			}
		} else {
			for i, v := range floatGrid(s.Bits, r, 16) {
				if i%4 == 0 {
					b.WriteString("\n\t")
				}
				b.WriteString(floatLit(v, s) + ", ")
			}
		}
		b.WriteString("\n}\n\n")
		for _, t := range all {
			fmt.Fprintf(&b, "func cv_%s_%s(v %s) %s { return %s(v) }\n", s.Name, t.Name, s.Name, t.Name, t.Name)
			// conversion as a sub-expression of arithmetic in the target type
			if t.Kind == "int" {
				fmt.Fprintf(&b, "func cx_%s_%s(v %s) %s { return %s(v)*3 + %s(v>>1) }\n", s.Name, t.Name, s.Name, t.Name, t.Name, t.Name)
				if s.Kind == "float" {
					// no shifts on floats
					b.WriteString("")
				}
			}
		}
	}
	// fix: cx_ for float sources must not shift; regenerate those bodies
	src := b.String()
	for _, s := range srcs {
		if s.Kind == "float" {
			for _, t := range all {
				if t.Kind == "int" {
					old := fmt.Sprintf("func cx_%s_%s(v %s) %s { return %s(v)*3 + %s(v>>1) }\n", s.Name, t.Name, s.Name, t.Name, t.Name, t.Name)
					nw := fmt.Sprintf("func cx_%s_%s(v %s) %s { return %s(v)*3 + %s(v/2) }\n", s.Name, t.Name, s.Name, t.Name, t.Name, t.Name)
					src = strings.Replace(src, old, nw, 1)
				}
			}
		}
	}
	b.Reset()
	b.WriteString(src)

	b.WriteString("\nfunc main() {\n")
	for _, s := range srcs {
		for _, t := range all {
			guard := ""
			if s.Kind == "float" && t.Kind == "int" {
				lo, hi := rangeOf(t)
				loF, _ := new(big.Float).SetInt(lo).Float64()
				hiP := new(big.Int).Add(hi, big.NewInt(1))
				hiF, _ := new(big.Float).SetInt(hiP).Float64()
				if !t.Signed {
					loF = 0
				}
				// float32 sources compare in float64 (exact widening)
				guard = fmt.Sprintf("\t\t\tif !(float64(v) >= %s && float64(v) < %s) {\n\t\t\t\tcontinue\n\t\t\t}\n", fmtHexFloat(loF), fmtHexFloat(hiF))
			}
			if s.Kind == "float" && t.Kind == "float" && t.Bits == 32 && s.Bits == 64 {
				guard = fmt.Sprintf("\t\t\tif v == v && (v > %s || v < -%s) && v-v == 0 {\n\t\t\t\tcontinue // overflowing float64→float32 is implementation-dependent\n\t\t\t}\n", fmtHexFloat(math.MaxFloat32), fmtHexFloat(math.MaxFloat32))
			}
			fn := fmt.Sprintf("cv_%s_%s", s.Name, t.Name)
			fmt.Fprintf(&b, "\t{\n\t\tf := newFnv()\n\t\tn := 0\n\t\tfor _, v := range grid_%s {\n%s\t\t\tr := %s(v)\n\t\t\tf.add64(%s)\n\t\t\tn++\n\t\t\tif n%%13 == 0 {\n\t\t\t\tprintln(\"S %s \" + %s + \" \" + %s)\n\t\t\t}\n\t\t}\n\t\tprintln(\"D %s \" + f.sum() + \" \" + itoa(n))\n\t}\n",
				s.Name, guard, fn, digestExpr(t, "r"), fn, showExpr(s, "v"), showExpr(t, "r"), fn)
			cases++
			if t.Kind == "int" {
				fn := fmt.Sprintf("cx_%s_%s", s.Name, t.Name)
				g2 := guard
				fmt.Fprintf(&b, "\t{\n\t\tf := newFnv()\n\t\tn := 0\n\t\tfor _, v := range grid_%s {\n%s\t\t\tr := %s(v)\n\t\t\tf.add64(%s)\n\t\t\tn++\n\t\t}\n\t\tprintln(\"D %s \" + f.sum() + \" \" + itoa(n))\n\t}\n",
					s.Name, g2, fn, digestExpr(t, "r"), fn)
				cases++
			}
		}
	}
	// constant conversions (folded at compile time): in-range integer constants to every type
	b.WriteString("\t{\n\t\tf := newFnv()\n")
	nc := 0
	for _, t := range all {
		if t.Kind != "int" {
			for _, k := range []string{"1", "0.5", "16777217", "9007199254740993", "1e38", "-0.1", "3.4028234663852886e38", "1e-46", "4.9e-324"} {
				fmt.Fprintf(&b, "\t\tf.add64(%s)\n", digestExpr(t, t.Name+"("+k+")"))
				nc++
			}
			continue
		}
		lo, hi := rangeOf(t)
		for _, v := range []*big.Int{lo, hi, big.NewInt(0), big.NewInt(1), new(big.Int).Rsh(hi, 1), new(big.Int).Add(lo, big.NewInt(1))} {
			fmt.Fprintf(&b, "\t\tf.add64(%s)\n", digestExpr(t, lit(v, t)))
			fmt.Fprintf(&b, "\t\tf.add64(f64key(float64(%s)))\n\t\tf.add64(f32key(float32(%s)))\n", lit(v, t), lit(v, t))
			nc += 3
		}
	}
	fmt.Fprintf(&b, "\t\tprintln(\"D constconv \" + f.sum() + \" %d\")\n\t}\n", nc)
	cases++
	b.WriteString("\tprintln(\"END\")\n}\n")
	return map[string]string{"main.go": b.String(), "c06lib.go": c06lib}, cases
}

// genComplexProgram: complex64 / complex128 arithmetic.
func genComplexProgram(t numType, r *rand.Rand, thorough bool) (map[string]string, int) {
	var b strings.Builder
	ft := "float64"
	fb := 64
	if t.Bits == 64 {
		ft = "float32"
		fb = 32
	}
	parts := []float64{0, math.Copysign(0, -1), 1, -1, 2, 0.5, -0.5, 3, 1e10, -1e-10, 0.1, 7.25, 1e30, 1e-30, math.Inf(1), math.Inf(-1), math.NaN(), 123456.789, -3.5}
	for i := 0; i < 6; i++ {
		parts = append(parts, float64(r.Int63n(2000000)-1000000)/float64(int64(1)<<uint(r.Intn(20))))
	}
	b.WriteString("package main\n\nimport \"math\"\n\nvar _ = math.Pi\n\n")
	b.WriteString("func nan() float64 { z := 0.0; return z / z }\nfunc inf(s int) float64 { z := 0.0; if s > 0 { return 1 / z }; return -1 / z }\nfunc negzero() float64 { z := 0.0; return -1 * z }\n\n")
	fmt.Fprintf(&b, "var parts = []%s{", ft)
	ftype := numType{ft, fb, true, "float"}
	for i, v := range parts {
		if fb == 32 {
			v = float64(float32(v))
		}
		if i%4 == 0 {
			b.WriteString("\n\t")
		}
		b.WriteString(floatLit(v, ftype) + ", ")
	}
	b.WriteString("\n}\n\n")
	fmt.Fprintf(&b, "func finite(c %s) bool { return real(c)-real(c) == 0 && imag(c)-imag(c) == 0 }\n", t.Name)
	// Smith's algorithm branches on |re| vs |im| of the divisor; which branch a tie takes is an
	// implementation detail the spec does not fix (it only changes the sign of zero results and
	// the last rounding), so ties are not compared.
	fmt.Fprintf(&b, "func tie(c %s) bool { r, i := real(c), imag(c); if r < 0 { r = -r }; if i < 0 { i = -i }; return r == i }\n", t.Name)
	for _, op := range floatBin {
		fmt.Fprintf(&b, "func vv_%s(a, b %s) %s { return a %s b }\n", op.Name, t.Name, t.Name, op.Sym)
		fmt.Fprintf(&b, "func as_%s(a, b %s) %s { a %s= b; return a }\n", op.Name, t.Name, t.Name, op.Sym)
	}
	fmt.Fprintf(&b, "func vv_eq(a, b %s) bool { return a == b }\nfunc vv_ne(a, b %s) bool { return a != b }\nfunc un_neg(a %s) %s { return -a }\n", t.Name, t.Name, t.Name, t.Name)
	fmt.Fprintf(&b, "func mk(re, im %s) %s { return complex(re, im) }\n", ft, t.Name)
	fmt.Fprintf(&b, "func vc_add(a %s) %s { return a + (1.5 - 2i) }\nfunc vc_mul(a %s) %s { return a * (0.5 + 3i) }\nfunc cv_quo(a %s) %s { return (2 - 1i) / a }\nfunc vc_quo(a %s) %s { return a / (3 + 4i) }\n", t.Name, t.Name, t.Name, t.Name, t.Name, t.Name, t.Name, t.Name)
	other := "complex64"
	if t.Bits == 64 {
		other = "complex128"
	}
	fmt.Fprintf(&b, "func conv(a %s) %s { return %s(a) }\n", t.Name, other, other)
	cases := 0
	b.WriteString("\nfunc main() {\n")
	fmt.Fprintf(&b, "\tconst T = %q\n\tvar grid []%s\n\tfor _, re := range parts {\n\t\tfor _, im := range parts {\n\t\t\tgrid = append(grid, mk(re, im))\n\t\t}\n\t}\n", t.Name, t.Name)
	dig := func(e string) string {
		if fb == 32 {
			return "f.add64(f32key(real(" + e + ")))\n\t\t\t\tf.add64(f32key(imag(" + e + ")))"
		}
		return "f.add64(f64key(real(" + e + ")))\n\t\t\t\tf.add64(f64key(imag(" + e + ")))"
	}
	for _, op := range floatBin {
		for _, shape := range []string{"vv", "as"} {
			fn := shape + "_" + op.Name
			guard := ""
			if op.Name == "quo" {
				// Division is compared where the spec pins the result: finite operands and a
				// non-zero divisor. Inf/NaN operands follow C99 Annex G conventions the Go spec
				// does not promise.
				guard = "\t\t\t\tif !finite(a) || !finite(b) || b == 0 || tie(b) {\n\t\t\t\t\tcontinue\n\t\t\t\t}\n"
			}
			if op.Name == "mul" {
				guard = "\t\t\t\tif !finite(a) || !finite(b) {\n\t\t\t\t\tcontinue\n\t\t\t\t}\n"
			}
			fmt.Fprintf(&b, "\t{\n\t\tf := newFnv()\n\t\tn := 0\n\t\tfor i, a := range grid {\n\t\t\tfor j, b := range grid {\n\t\t\t\tif (i*7+j)%%5 != 0 {\n\t\t\t\t\tcontinue\n\t\t\t\t}\n%s\t\t\t\tr := %s(a, b)\n\t\t\t\t%s\n\t\t\t\tn++\n\t\t\t\tif n%%499 == 0 {\n\t\t\t\t\tprintln(\"S \" + T + \" %s \" + %s + \" \" + %s + \" \" + %s)\n\t\t\t\t}\n\t\t\t}\n\t\t}\n\t\tprintln(\"D \" + T + \" %s \" + f.sum() + \" \" + itoa(n))\n\t}\n",
				guard, fn, dig("r"), fn, showExpr(t, "a"), showExpr(t, "b"), showExpr(t, "r"), fn)
			cases++
		}
	}
	for _, fn := range []string{"vv_eq", "vv_ne"} {
		fmt.Fprintf(&b, "\t{\n\t\tf := newFnv()\n\t\tn := 0\n\t\tfor i, a := range grid {\n\t\t\tfor j, b := range grid {\n\t\t\t\tif (i*3+j)%%4 != 0 && i != j {\n\t\t\t\t\tcontinue\n\t\t\t\t}\n\t\t\t\tf.addStr(btoa(%s(a, b)))\n\t\t\t\tn++\n\t\t\t}\n\t\t}\n\t\tprintln(\"D \" + T + \" %s \" + f.sum() + \" \" + itoa(n))\n\t}\n", fn, fn)
		cases++
	}
	for _, fn := range []string{"un_neg", "vc_add", "vc_mul", "cv_quo", "vc_quo"} {
		guard := ""
		if fn == "cv_quo" {
			guard = "\t\t\tif !finite(a) || a == 0 || tie(a) {\n\t\t\t\tcontinue\n\t\t\t}\n"
		}
		if fn == "vc_quo" || fn == "vc_mul" {
			guard = "\t\t\tif !finite(a) {\n\t\t\t\tcontinue\n\t\t\t}\n"
		}
		fmt.Fprintf(&b, "\t{\n\t\tf := newFnv()\n\t\tn := 0\n\t\tfor _, a := range grid {\n%s\t\t\tr := %s(a)\n\t\t\t%s\n\t\t\tn++\n\t\t\tif n%%97 == 0 {\n\t\t\t\tprintln(\"S \" + T + \" %s \" + %s + \" \" + %s)\n\t\t\t}\n\t\t}\n\t\tprintln(\"D \" + T + \" %s \" + f.sum() + \" \" + itoa(n))\n\t}\n",
			guard, fn, strings.ReplaceAll(dig("r"), "\t\t\t\t", "\t\t\t"), fn, showExpr(t, "a"), showExpr(t, "r"), fn)
		cases++
	}
	{
		ot := complexTypes[1]
		if t.Bits == 128 {
			ot = complexTypes[0]
		}
		guard := ""
		if t.Bits == 128 {
			guard = fmt.Sprintf("\t\t\tif finite(a) && (real(a) > %s || real(a) < -%s || imag(a) > %s || imag(a) < -%s) {\n\t\t\t\tcontinue\n\t\t\t}\n", fmtHexFloat(math.MaxFloat32), fmtHexFloat(math.MaxFloat32), fmtHexFloat(math.MaxFloat32), fmtHexFloat(math.MaxFloat32))
		}
		fmt.Fprintf(&b, "\t{\n\t\tf := newFnv()\n\t\tn := 0\n\t\tfor _, a := range grid {\n%s\t\t\tr := conv(a)\n\t\t\tf.addStr(%s)\n\t\t\tn++\n\t\t}\n\t\tprintln(\"D \" + T + \" conv \" + f.sum() + \" \" + itoa(n))\n\t}\n", guard, showExpr(ot, "r"))
		cases++
	}
	b.WriteString("\tprintln(\"END\")\n}\n")
	return map[string]string{"main.go": b.String(), "c06lib.go": c06lib}, cases
}
