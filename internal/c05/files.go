package c05

// dceMain is a hand-written program whose code is reachable only dynamically (interfaces,
// embedding promotion, method values/expressions, function values in containers, type switches,
// generic code instantiated only from other generic code, types declared inside functions,
// package variables with side-effecting initialisers, go:linkname). Placeholders @N@ are
// replaced by seed-derived constants so that values differ between runs.
const dceMain = `package main

import (
	_ "unsafe"

	"prog/dep"
)

type shower interface{ Show() string }
type hidden interface{ hide(a I) string }
type both interface {
	shower
	hidden
}

type A struct{ n I }

func (a A) Show() string    { return "A" + itoa(int(a.n)) }
func (a A) hide(x I) string { return "a-hide" + itoa(int(a.n+x)) }
func (a A) unused() string  { return "never" }

type B struct {
	A
	s string
}

func (b *B) Show() string { return "B" + b.s + b.A.Show() }

type C struct{ *B }

type named I

func (n named) Show() string { return "named" + itoa(int(n)) }
func (n *named) Inc()        { *n++ }

type fnT func(I) I

func (f fnT) Show() string { return "fn" + itoa(int(f(@N1@))) }

type variadicer interface{ V(pre string, xs ...I) string }
type vimpl struct{}

func (vimpl) V(pre string, xs ...I) string { return pre + itoa(len(xs)) }

type funcParam interface{ FP(f func(I) string, g func(...I)) string }
type fpimpl struct{}

func (fpimpl) FP(f func(I) string, g func(...I)) string { g(1, 2); return f(@N2@) }

type sameName1 struct{}
type sameName2 struct{}

func (sameName1) helper() string { return "h1" }
func (sameName2) helper() string { return "h2" }

type helperer interface{ helper() string }

// generic code only instantiated from other generic code
type box[T any] struct{ v T }

func (b box[T]) Get() T { return b.v }

type getter[T any] interface{ Get() T }

func viaIface[T any](g getter[T]) T { return g.Get() }
func outer[T any](v T) T            { return viaIface[T](box[T]{v}) }
func deep[T any](v T, d int) string  { return deep2([]T{v}) }
func deep2[T any](v T) string        { return deep3([]T{v}) }
func deep3[T any](v T) string        { return describe([]T{v}) }

func describe(v interface{}) string {
	switch x := v.(type) {
	case I:
		return "I"
	case []I:
		return "[]I" + itoa(len(x))
	case [][]I:
		return "[][]I"
	case [][][]I:
		return "[][][]I"
	case string:
		return "string"
	case onlyInSwitch:
		return "onlyInSwitch"
	}
	return "?"
}

type onlyInSwitch struct{ k I }
type onlyDynamic struct{ k I }

func (o onlyDynamic) Show() string { return "onlyDynamic" + itoa(int(o.k)) }

func mk() interface{} { return onlyDynamic{@N3@} }

// package variables with side effects in their initialisers
var trace []string

func note(s string) I { trace = append(trace, s); return I(len(trace)) }

var v1 = note("v1")
var v2, v3 = pair()
var _ = note("blank")
var unusedButEffect = note("unusedButEffect")
var table = map[string]func() string{"a": func() string { return "fa" }, "b": secret}
var chanInit = func() I { c := make(chan I, 1); c <- @N4@; return <-c }()
var dependsOnDep = I(dep.Exported) + 1

func pair() (I, I) { note("pair"); return 1, 2 }

// a call through a value of a defined function type is a side effect too
type handler func() I

var hvar handler = func() I { return note("named-func-type-call") }
var unusedNamedCall = hvar()
var unusedNamedCall2 = (handler)(hvar)()

// comma-ok initialisers: only the second variable is used
var lookup = map[string]I{"k": @N4@}
var unusedVal, usedOk = lookup["k"]
var _, usedOk2 = lookup["z"]
var usedVal3, unusedOk3 = lookup["k"]

// byte/rune are aliases of uint8/int32 in method signatures
type aliasW interface {
	w(b byte, r rune, bs []byte, m map[rune]uint8) I
}
type aliasImpl struct{ n I }

func (a aliasImpl) w(b uint8, r int32, bs []uint8, m map[int32]byte) I {
	return a.n + I(b) + I(r) + I(len(bs)+len(m))
}

// a method expression of an interface type is the only use of the unexported method
type shape interface{ area() I }
type sq struct{ s I }

func (q sq) area() I { return q.s * q.s }

type circ struct{ r I }

func (c *circ) area() I { return 3 * c.r * c.r }

// unexported methods of generic types whose signatures mention generic named types
// instantiated with the receiver's type parameters
type gnode[T any] struct {
	v    T
	next *gnode[T]
}
type glist[T any] struct {
	head *gnode[T]
	n    I
}

func (l *glist[T]) push(n *gnode[T]) { n.next = l.head; l.head = n; l.n++ }
func (l *glist[T]) first() *gnode[T] { return l.head }

type gentry[K comparable, V any] struct {
	k K
	v V
}
type gtable[K comparable, V any] struct{ es []gentry[K, V] }

func (t *gtable[K, V]) put(e gentry[K, V]) { t.es = append(t.es, e) }
func (t *gtable[K, V]) find(k K) *gentry[K, V] {
	for i := range t.es {
		if t.es[i].k == k {
			return &t.es[i]
		}
	}
	return nil
}

type gpair[A, B any] struct {
	a A
	b B
}

func (b box[T]) wrap() gpair[T, string] { return gpair[T, string]{b.v, "w"} }
func (b box[T]) same(o box[T]) gpair[box[T], []gnode[T]] {
	return gpair[box[T], []gnode[T]]{o, []gnode[T]{{v: b.v}}}
}

func genericSigs() string {
	var l glist[I]
	l.push(&gnode[I]{v: 4})
	l.push(&gnode[I]{v: 5})
	var ls glist[string]
	ls.push(&gnode[string]{v: "n"})
	var t gtable[string, I]
	t.put(gentry[string, I]{"a", 1})
	t.put(gentry[string, I]{"b", 2})
	w := box[I]{7}.wrap()
	sm := box[string]{"x"}.same(box[string]{"y"})
	return itoa(int(l.first().v+l.n)) + ls.first().v + itoa(int(t.find("b").v)) + btoa(t.find("z") == nil) + itoa(int(w.a)) + w.b + sm.a.v + sm.b[0].v
}

// a type declared inside a function literal of a generic function
func litLocal[T any](v T) string {
	f := func() interface{} {
		type L struct{ x T }
		return L{v}
	}
	g := func() interface{} {
		type L struct{ y T }
		var l L
		return &l
	}
	return describeLocal(f()) + describeLocal(g())
}
func secret() string { return "secret" }

//go:linkname linked prog/dep.linkTarget
func linked(a int) int

func localTypes() string {
	type T struct{ a I }
	type S interface{ M() string }
	s := ""
	{
		type T struct{ b string }
		s += describeLocal(T{"inner"})
	}
	return s + describeLocal(T{5})
}

type localM struct{ x I }

func (l localM) M() string { return "localM" + itoa(int(l.x)) }

func describeLocal(v interface{}) string {
	if m, ok := v.(interface{ M() string }); ok {
		return m.M()
	}
	return "noM"
}

func main() {
	for _, s := range trace {
		println("I " + s)
	}
	println("I vars " + itoa(int(v1+v2+v3+chanInit+dependsOnDep)))
	var xs []shower
	b := &B{A{@N5@}, "b"}
	var nm named = 7
	xs = append(xs, A{1}, b, C{b}, nm, &nm, fnT(func(a I) I { return a * 2 }))
	if o, ok := mk().(shower); ok {
		xs = append(xs, o)
	}
	for i, x := range xs {
		println("S " + itoa(i) + " " + x.Show())
		if h, ok := x.(hidden); ok {
			println("H " + itoa(i) + " " + h.hide(@N6@))
		}
		if bt, ok := x.(both); ok {
			println("B " + itoa(i) + " " + bt.Show() + bt.hide(1))
		}
	}
	// method values and expressions as the only references
	mv := b.A.hide
	me := (*named).Inc
	me(&nm)
	ex := A.Show
	println("M " + mv(2) + itoa(int(nm)) + ex(A{9}))
	var vi interface{} = vimpl{}
	if v, ok := vi.(variadicer); ok {
		println("V " + v.V("p", 1, 2, 3) + v.V("q"))
	}
	var fi interface{} = fpimpl{}
	if f, ok := fi.(funcParam); ok {
		println("F " + f.FP(func(a I) string { return itoa(int(a)) }, func(...I) {}))
	}
	for _, h := range []interface{}{sameName1{}, sameName2{}} {
		println("N " + h.(helperer).helper())
	}
	println("G " + itoa(int(outer(I(@N7@)))) + outer("s") + deep(I(1), 3) + describe(onlyInSwitch{1}))
	println("T " + table["a"]() + table["b"]())
	println("L " + itoa(linked(@N8@)) + " " + dep.CallBack(func() string { return "cb" }))
	println("LT " + localTypes() + describeLocal(localM{3}))
	println("D " + dep.ViaIface(dep.NewImpl(@N9@)) + dep.Describe(dep.Opaque()))
	var aw interface{} = aliasImpl{@N2@}
	if w, ok := aw.(aliasW); ok {
		println("AW " + itoa(int(w.w(1, 2, []byte{3}, map[rune]uint8{4: 5}))))
	}
	areaOf := shape.area
	println("ME " + itoa(int(areaOf(sq{3})+areaOf(&circ{2}))))
	println("GS " + genericSigs())
	println("OK " + btoa(usedOk) + btoa(usedOk2) + itoa(int(usedVal3)))
	println("LL " + litLocal(I(@N3@)) + litLocal("s") + litLocal(aliasImpl{1}))
	println("END")
}
`

const dceDep = `package dep

import _ "unsafe"

var Exported = sideEffect()

var log []string

func sideEffect() int32 { log = append(log, "dep-init"); return 10 }

func linkTarget(a int) int { return a*3 + len(log) }

func CallBack(f func() string) string { return "dep:" + f() }

type Iface interface{ Name() string }
type impl struct{ n int32 }

func (i impl) Name() string  { return "impl" + string(rune('0'+i.n%10)) }
func (i impl) other() string { return "other" }

func NewImpl(n int32) Iface      { return impl{n} }
func ViaIface(i Iface) string    { return i.Name() }
func Opaque() interface{}        { return opaque{1} }

type opaque struct{ a int32 }

func (o opaque) String() string { return "opaque" }

func Describe(v interface{}) string {
	if s, ok := v.(interface{ String() string }); ok {
		return s.String()
	}
	return "?"
}
`

// panicInits: unused package variables whose initialisers can panic without any call: Go
// evaluates them at init time. One variant per operation; @K@ selects which one is live.
var panicInits = []struct{ Name, Decls string }{
	{"index-slice", "var tbl = []I{1, 2, 3}\nvar idx = 7\nvar u = tbl[idx]\n"},
	{"nil-deref", "type PT struct{ f I }\nvar np *PT\nvar u = np.f\n"},
	{"nil-deref-star", "var np *I\nvar u = *np\n"},
	{"div-zero", "var zero I\nvar u = 10 / zero\n"},
	{"assertion", "var iface interface{} = \"s\"\nvar u = iface.(I)\n"},
	{"slice-to-array", "var sl = []I{1}\nvar u = [2]I(sl)\n"},
	{"slice-bounds", "var sl = []I{1}\nvar hi = 5\nvar u = sl[:hi]\n"},
	{"nil-map-ok", "var nm map[string]I\nvar u = nm[\"k\"]\n"}, // does NOT panic
}

const panicMain = `package main

@DECLS@

func main() {
	println("reached main")
}
`
