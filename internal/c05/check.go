// Package c05 – dead-code elimination never changes behaviour.
//
// Executions compared per program: N = archives linked normally (DCE on), A = the same
// compilation with every declaration forced alive (Decl.Dce().SetAsAlive()) and the reference
// toolchain. N must equal A; N must never end in a JS-level error that A does not have.
package c05

import (
	"fmt"
	"strings"
	"sync"

	"verif/internal/core"
	"verif/internal/progen"
	"verif/internal/proglib"
)

// Run is the C05 check.
func Run(c *core.Ctx) int {
	var mu sync.Mutex
	programs, lines := 0, 0
	distinct := map[string]bool{}
	type job struct {
		prog *core.Program
		kind string
	}
	var jobs []job
	// (1) hand-written dynamic-reachability template with seed-derived constants
	nt := c.N(4, 20)
	for i := 0; i < nt; i++ {
		r := c.Rand(fmt.Sprint("tmpl", i))
		src := dceMain
		for k := 1; k <= 9; k++ {
			src = strings.ReplaceAll(src, fmt.Sprintf("@N%d@", k), fmt.Sprint(r.Intn(50)))
		}
		files := proglib.WithLib(map[string]string{"main.go": src, "dep/dep.go": dceDep, "stub.s": "// body-less linkname declaration\n"})
		jobs = append(jobs, job{&core.Program{Name: fmt.Sprintf("c05/template-%d", i), Files: files}, "template"})
	}
	// (2) unused package variables whose initialisers panic without a call
	for _, pi := range panicInits {
		files := proglib.WithLib(map[string]string{"main.go": strings.ReplaceAll(panicMain, "@DECLS@", pi.Decls)})
		jobs = append(jobs, job{&core.Program{Name: "c05/panic-init/" + pi.Name, Files: files}, "panic-init"})
	}
	// (3) generated programs
	ng := c.N(24, 300)
	for i := 0; i < ng; i++ {
		r := c.Rand(fmt.Sprint("gen", i))
		p := progen.Generate(r, progen.Options{Cases: 8 + r.Intn(8), StmtsPer: 6 + r.Intn(8), BoxStruct: true})
		jobs = append(jobs, job{&core.Program{Name: fmt.Sprintf("c05/gen-%d-%d", c.Seed, i), Files: p.Files}, "generated"})
	}
	c.Parallel(len(jobs), func(i int) {
		j := jobs[i]
		res := c.DiffProgram(j.prog, core.DiffOpt{Variants: []core.CompileOpt{{}, {Alive: true}}, Names: []string{"dce", "all-alive"}, Quiet: true})
		mu.Lock()
		defer mu.Unlock()
		if res.Verdict == "inconclusive" {
			return
		}
		if res.Verdict == "violated" {
			// classify: only a difference between N and A (or a JS-level failure of N) is a C05
			// violation; "A also differs from the reference" is a C01-type problem and is
			// reported under this program's key with that note.
			what := res.Diff
			if len(res.JS) == 2 {
				if d := core.DiffTrace(res.JS[0], res.JS[1], "dce", "all-alive"); d != "" {
					what = "DCE changes behaviour: " + d
				} else {
					what = "both variants differ from the reference (not DCE specific): " + res.Diff
				}
			} else if len(res.JS) == 1 {
				what = "the normally linked program differs from the reference: " + res.Diff
			}
			files := map[string]string{"diff.txt": what}
			for k, v := range j.prog.Files {
				files["src/"+k] = v
			}
			for vi, t := range res.JS {
				files[[]string{"dce.out", "alive.out"}[vi]] = t.String()
			}
			files["ref.out"] = res.Ref.String()
			c.Violate(j.prog.Name, j.prog.Name+": "+what, files)
		}
		programs++
		lines += res.Lines
		distinct[fmt.Sprint(j.kind, res.Lines, res.Ref.Outcome)] = true
		if programs <= 3 {
			c.Sample(map[string]any{"program": j.prog.Name, "kind": j.kind, "trace_lines": res.Lines, "outcome": res.Ref.Outcome})
		}
	})
	c.Count("programs", programs)
	c.Count("trace_lines_compared_x3", lines)
	return c.Finish("exploration", programs, len(distinct), len(jobs)/3,
		"three workloads: a hand-written program whose code is reachable only dynamically (interface dispatch incl. unexported and variadic/func-typed signatures, embedding promotion, method values/expressions, function values in containers, type-switch-only and dynamic-only types, generic code instantiated from generic code to depth 3, types local to functions, side-effecting package initialisers, go:linkname, a second package) with seed-derived constants; unused package variables whose initialisers panic without a call; progen programs. Each is linked normally and with every declaration forced alive; both traces must be equal and equal to the reference toolchain's. distinct_nontrivial = distinct (workload kind, trace length, outcome) classes",
		nil, []string{"the all-alive variant is produced by Decl.Dce().SetAsAlive() on every declaration of every archive before WriteProgramCode", "reference toolchain go1.23.5"})
}
