package c19

import (
	"bytes"
	"fmt"
	"go/token"
	"math/rand"
	"path/filepath"
	"sort"
	"strings"
	"unicode/utf8"

	"github.com/gopherjs/gopherjs/compiler"
)

// ---------------------------------------------------------------------------------------------
// Stream level: the real Filter (compiler.DefaultFilter) fed with code chunks and hints made by
// the real encoder (hook H2) versus an independent position-tracking model.
// ---------------------------------------------------------------------------------------------

const hintMagic = 0x08

// fileModel is what the generator knows about one file of the constructed token.FileSet.
type fileModel struct {
	name  string
	class string // goroot | gopath1 | gopath2 | outside | sibling
	base  int
	size  int
	lines []int // offsets of line starts
}

type fsModel struct {
	fset   *token.FileSet
	files  []fileModel
	goroot string
	gopath string
}

const (
	modelGoroot = "/c19/goroot"
	modelGP1    = "/c19/gp1"
	modelGP2    = "/c19/work/gp2"
)

// newFSModel builds a FileSet with files of known line tables. withSibling adds files whose path
// has the GOPATH/GOROOT as a *string* prefix without lying inside it.
func newFSModel(r *rand.Rand, withSibling bool) *fsModel {
	m := &fsModel{fset: token.NewFileSet(), goroot: modelGoroot, gopath: modelGP1 + string(filepath.ListSeparator) + modelGP2}
	type spec struct{ name, class string }
	specs := []spec{
		{modelGoroot + "/src/runtime/a.go", "goroot"},
		{modelGoroot + "/src/internal/x/deep/b.go", "goroot"},
		{modelGP1 + "/src/example.com/p/c.go", "gopath1"},
		{modelGP2 + "/src/q/d.go", "gopath2"},
		{"/elsewhere/mod/prog/e.go", "outside"},
		{"/elsewhere/mod/prog/sub/f_é.go", "outside"},
	}
	if withSibling {
		specs = append(specs,
			spec{modelGP1 + "-projects/app/g.go", "sibling"},
			spec{modelGoroot + "-old/src/h/h.go", "sibling"})
	}
	for i, s := range specs {
		size := 3 + r.Intn(4000)
		if i == 0 {
			size = 40 // the first file has base 1: small Pos values (e.g. 4, whose gob encoding is the byte 0x08)
		}
		f := m.fset.AddFile(s.name, -1, size)
		lines := []int{0}
		for o := 1 + r.Intn(30); o < size; o += 1 + r.Intn(60) {
			lines = append(lines, o)
		}
		if !f.SetLines(lines) {
			panic("c19: SetLines rejected a generated line table")
		}
		m.files = append(m.files, fileModel{name: s.name, class: s.class, base: f.Base(), size: size, lines: lines})
	}
	return m
}

// position is the model's own token.Pos -> (file, line, column) resolution.
func (m *fsModel) position(p token.Pos) (fm *fileModel, line, col int, ok bool) {
	if p == token.NoPos {
		return nil, 0, 0, false
	}
	for i := range m.files {
		f := &m.files[i]
		if int(p) >= f.base && int(p) <= f.base+f.size {
			off := int(p) - f.base
			k := sort.SearchInts(f.lines, off+1) - 1
			return f, k + 1, off - f.lines[k] + 1, true
		}
	}
	return nil, 0, 0, false
}

// sourceName is the documented normalisation of original file names: files inside $GOROOT/src or
// $GOPATH/src are named relative to it (leading slash kept), everything else by base name; with
// localMap the name is kept.
func (m *fsModel) sourceName(f *fileModel, localMap bool) string {
	if localMap {
		return f.name
	}
	for _, ws := range filepath.SplitList(m.gopath) {
		if strings.HasPrefix(f.name, ws+"/src/") {
			return f.name[len(ws)+len("/src"):]
		}
	}
	if strings.HasPrefix(f.name, m.goroot+"/src/") {
		return f.name[len(m.goroot)+len("/src"):]
	}
	return filepath.Base(f.name)
}

// hintSpec is one pre-encoded hint plus what the generator knows about it.
type hintSpec struct {
	enc   []byte
	ident bool
	pos   token.Pos
	orig  string // original name (identifier hints)
}

type hintPool struct {
	pos, ident []hintSpec
}

var identNames = []string{"main.f", "prog.T.meth", "p.é", "eightchr", "a", "github.com/x/y.Type.Method", "prog.main.func1", "x\x07y"}

func newHintPool(r *rand.Rand, m *fsModel, nPos, nIdent int) *hintPool {
	hp := &hintPool{}
	pick := func() token.Pos {
		switch r.Intn(12) {
		case 0:
			return token.NoPos
		case 1:
			return token.Pos(m.files[len(m.files)-1].base + m.files[len(m.files)-1].size + 5 + r.Intn(1000)) // beyond every file
		case 2:
			return token.Pos(1 + r.Intn(40)) // includes 4 (gob byte 0x08)
		case 3:
			f := m.files[r.Intn(len(m.files))]
			return token.Pos(f.base + f.size) // EOF position
		case 4:
			// a value whose big-endian bytes contain 0x08 once doubled by gob's zig-zag
			f := m.files[1+r.Intn(len(m.files)-1)]
			p := (f.base + r.Intn(f.size+1)) &^ 0xff00
			p |= 0x0400
			if p >= f.base && p <= f.base+f.size {
				return token.Pos(p)
			}
			return token.Pos(f.base)
		}
		f := m.files[r.Intn(len(m.files))]
		return token.Pos(f.base + r.Intn(f.size+1))
	}
	for i := 0; i < nPos; i++ {
		p := pick()
		hp.pos = append(hp.pos, hintSpec{enc: compiler.VerifPosHint(p), pos: p})
	}
	for i := 0; i < nIdent; i++ {
		p := pick()
		orig := identNames[r.Intn(len(identNames))]
		name := "n" + fmt.Sprint(i)
		switch r.Intn(10) {
		case 0:
			orig = "" // no original name
		case 1:
			// payload of 2048..2303 bytes: the high byte of the hint's size field is 0x08
			orig = "long." + strings.Repeat("L", 1990+r.Intn(150))
		case 2:
			name = strings.Repeat("n", 8) // gob string length byte 0x08
		}
		hp.ident = append(hp.ident, hintSpec{enc: compiler.VerifIdentHint(name, orig, p), ident: true, pos: p, orig: orig})
	}
	return hp
}

// item is one element of a generated stream.
type item struct {
	code []byte    // when hint == nil
	hint *hintSpec // when != nil
}

// mapTuple is one mapping in comparable form.
type mapTuple struct {
	GenLine int // 1-based
	GenCol  int
	Src     string // "" = no source
	OLine   int
	OCol    int
	Name    string
}

func (t mapTuple) String() string {
	if t.Src == "" {
		return fmt.Sprintf("%d:%d->(none)", t.GenLine, t.GenCol)
	}
	n := ""
	if t.Name != "" {
		n = " name=" + clipS(t.Name, 24)
	}
	return fmt.Sprintf("%d:%d->%s:%d:%d%s", t.GenLine, t.GenCol, t.Src, t.OLine, t.OCol, n)
}

func clipS(s string, n int) string {
	if len(s) > n {
		return s[:n] + "…"
	}
	return s
}

func sortTuples(ts []mapTuple) {
	sort.Slice(ts, func(i, j int) bool {
		a, b := ts[i], ts[j]
		if a.GenLine != b.GenLine {
			return a.GenLine < b.GenLine
		}
		if a.GenCol != b.GenCol {
			return a.GenCol < b.GenCol
		}
		if a.Src != b.Src {
			return a.Src < b.Src
		}
		if a.OLine != b.OLine {
			return a.OLine < b.OLine
		}
		if a.OCol != b.OCol {
			return a.OCol < b.OCol
		}
		return a.Name < b.Name
	})
}

// modelResult is what the independent model expects for a stream.
type modelResult struct {
	out      []byte
	byteCols []mapTuple // mappings with generated columns counted in bytes
	u16Cols  []mapTuple // … counted in UTF-16 code units
	// per hint (stream order): index of the stream byte following it, or -1
	follow []int
}

func u16len(b []byte) int {
	n := 0
	for len(b) > 0 {
		r, sz := utf8.DecodeRune(b)
		if r >= 0x10000 {
			n += 2
		} else {
			n++
		}
		b = b[sz:]
	}
	return n
}

// runModel strips the hints and tracks (line, column) itself.
func runModel(m *fsModel, items []item, localMap bool) modelResult {
	var res modelResult
	line := 1
	lineStart := 0 // offset in res.out of the current line's first byte
	for i, it := range items {
		if it.hint == nil {
			for _, c := range it.code {
				res.out = append(res.out, c)
				if c == '\n' {
					line++
					lineStart = len(res.out)
				}
			}
			continue
		}
		h := it.hint
		cur := res.out[lineStart:]
		bt := mapTuple{GenLine: line, GenCol: len(cur)}
		if f, l, c, ok := m.position(h.pos); ok {
			bt.Src, bt.OLine, bt.OCol = m.sourceName(f, localMap), l, c
			if h.ident {
				bt.Name = h.orig
			}
		}
		ut := bt
		ut.GenCol = u16len(cur)
		res.byteCols = append(res.byteCols, bt)
		res.u16Cols = append(res.u16Cols, ut)
		fol := -1
		if i+1 < len(items) && items[i+1].hint == nil && len(items[i+1].code) > 0 && items[i+1].code[0] != '\n' {
			fol = 1
		}
		res.follow = append(res.follow, fol)
	}
	return res
}

// obsResult is what the real filter produced.
type obsResult struct {
	out    []byte
	tuples []mapTuple
	smap   *SMap
	err    string // panic / short write / undecodable map
}

type countingWriter struct {
	buf bytes.Buffer
}

func (w *countingWriter) Write(p []byte) (int, error) { return w.buf.Write(p) }

// runFilter writes the stream through the real filter in the given chunks.
func runFilter(m *fsModel, stream []byte, cuts []int, localMap bool) (res obsResult) {
	defer func() {
		if e := recover(); e != nil {
			res.err = fmt.Sprintf("filter panicked: %v", e)
		}
	}()
	w := &countingWriter{}
	f := compiler.DefaultFilter(w)
	f.FileSet = m.fset
	f.EnableMapping("out.js", m.goroot, m.gopath, localMap)
	prev := 0
	write := func(p []byte) bool {
		n, err := f.Write(p)
		if err != nil {
			res.err = "Write returned error: " + err.Error()
			return false
		}
		if n != len(p) {
			res.err = fmt.Sprintf("Write(len %d) returned n=%d with nil error (io.Writer contract: short write must carry an error)", len(p), n)
			return false
		}
		return true
	}
	for _, c := range cuts {
		if !write(stream[prev:c]) {
			return
		}
		prev = c
	}
	if !write(stream[prev:]) {
		return
	}
	res.out = w.buf.Bytes()
	var mb bytes.Buffer
	if err := f.WriteMappingTo(&mb); err != nil {
		res.err = "WriteMappingTo: " + err.Error()
		return
	}
	sm, err := DecodeMap(mb.Bytes())
	if err != nil {
		res.err = "map not decodable: " + err.Error()
		return
	}
	res.smap = sm
	for i, s := range sm.Segs {
		if i > 0 {
			p := sm.Segs[i-1]
			if s.GenLine < p.GenLine || (s.GenLine == p.GenLine && s.GenCol < p.GenCol) {
				res.err = "segments not in generated order"
				return
			}
		}
		t := mapTuple{GenLine: s.GenLine + 1, GenCol: s.GenCol}
		if s.HasSrc {
			t.Src, t.OLine, t.OCol = sm.Sources[s.Src], s.OrigLine, s.OrigCol
			if t.Src == "" {
				res.err = "empty source name"
				return
			}
		}
		if s.HasName {
			t.Name = sm.Names[s.Name]
		}
		res.tuples = append(res.tuples, t)
	}
	return
}

func tuplesEqual(a, b []mapTuple) bool {
	if len(a) != len(b) {
		return false
	}
	for i := range a {
		if a[i] != b[i] {
			return false
		}
	}
	return true
}

func firstTupleDiff(exp, got []mapTuple) string {
	n := len(exp)
	if len(got) < n {
		n = len(got)
	}
	for i := 0; i < n; i++ {
		if exp[i] != got[i] {
			return fmt.Sprintf("mapping #%d: expected %s, observed %s", i, exp[i], got[i])
		}
	}
	if len(exp) != len(got) {
		return fmt.Sprintf("expected %d mappings, observed %d", len(exp), len(got))
	}
	return ""
}

// --- generators ----------------------------------------------------------------------------

var asciiPieces = []string{"a", "b", "x1", "_", "$", " ", " ", "\t", "(", ")", "{", "}", ";", "=", "+", "-", "*", "/", ".", ",",
	"\"", "'", "\\", "\\b", ":", "<", "[", "]", "!", "function", "var ", "return", "\x07", "\x09", "\x0b", "\x00", "\r"}
var multiPieces = []string{"é", "·", "Ω", "世", "€", "😀", " ", "𝒳", "ñ"}

func genCode(r *rand.Rand) []byte {
	var b []byte
	switch r.Intn(10) {
	case 0:
		return nil // empty chunk
	case 1:
		return []byte(strings.Repeat("\n", 1+r.Intn(4)))
	}
	n := 1 + r.Intn(10)
	nl := r.Intn(3) == 0
	multi := r.Intn(3) == 0
	for i := 0; i < n; i++ {
		switch {
		case nl && r.Intn(3) == 0:
			b = append(b, '\n')
		case multi && r.Intn(2) == 0:
			b = append(b, multiPieces[r.Intn(len(multiPieces))]...)
		default:
			b = append(b, asciiPieces[r.Intn(len(asciiPieces))]...)
		}
	}
	return b
}

func genStream(r *rand.Rand, hp *hintPool) []item {
	n := r.Intn(14)
	if r.Intn(8) == 0 {
		n = 14 + r.Intn(30)
	}
	items := make([]item, 0, n)
	for i := 0; i < n; i++ {
		switch k := r.Intn(20); {
		case k < 12:
			items = append(items, item{code: genCode(r)})
		case k < 17:
			items = append(items, item{hint: &hp.pos[r.Intn(len(hp.pos))]})
		default:
			items = append(items, item{hint: &hp.ident[r.Intn(len(hp.ident))]})
		}
	}
	return items
}

// flatten returns the stream bytes and the legal cut points (offsets that are not strictly inside
// a hint), excluding 0 and len.
func flatten(items []item) (stream []byte, cutPoints []int) {
	for _, it := range items {
		if it.hint != nil {
			if len(stream) > 0 {
				cutPoints = append(cutPoints, len(stream))
			}
			stream = append(stream, it.hint.enc...)
			continue
		}
		for j := range it.code {
			if len(stream) > 0 {
				cutPoints = append(cutPoints, len(stream))
			}
			stream = append(stream, it.code[j])
		}
	}
	// dedupe (a hint following code yields the same offset once)
	out := cutPoints[:0]
	last := -1
	for _, c := range cutPoints {
		if c != last && c < len(stream) {
			out = append(out, c)
			last = c
		}
	}
	return stream, out
}

// chunkings returns the list of cut sets to try for a stream.
func chunkings(r *rand.Rand, cutPoints []int) [][]int {
	cs := [][]int{nil} // one Write
	if len(cutPoints) == 0 {
		return cs
	}
	if len(cutPoints) <= 24 {
		for _, c := range cutPoints { // all 2-partitions
			cs = append(cs, []int{c})
		}
	} else {
		for i := 0; i < 8; i++ {
			cs = append(cs, []int{cutPoints[r.Intn(len(cutPoints))]})
		}
	}
	for i := 0; i < 3; i++ { // random k-partitions
		k := 2 + r.Intn(6)
		if i == 2 {
			k = len(cutPoints) // near byte-wise writes
		}
		set := map[int]bool{}
		for j := 0; j < k; j++ {
			set[cutPoints[r.Intn(len(cutPoints))]] = true
		}
		var cut []int
		for c := range set {
			cut = append(cut, c)
		}
		sort.Ints(cut)
		cs = append(cs, cut)
	}
	return cs
}

// parseHints is the harness's own hint scanner (magic, 16-bit big-endian size, payload). It
// returns the hint-free bytes and the raw hints with the offset (in the hint-free bytes) at which
// each occurred.
func parseHints(b []byte) (clean []byte, hints [][]byte, at []int, err error) {
	for i := 0; i < len(b); {
		if b[i] != hintMagic {
			clean = append(clean, b[i])
			i++
			continue
		}
		if i+3 > len(b) {
			return nil, nil, nil, fmt.Errorf("truncated hint header at %d", i)
		}
		sz := int(b[i+1])<<8 | int(b[i+2])
		if i+3+sz > len(b) {
			return nil, nil, nil, fmt.Errorf("truncated hint payload at %d", i)
		}
		hints = append(hints, b[i:i+3+sz])
		at = append(at, len(clean))
		i += 3 + sz
	}
	return
}

// --- whitespace remover workload ----------------------------------------------------------

// jsTok is a token of the JS-like streams fed to the real removeWhitespace.
type jsTok struct {
	text  string
	kind  byte // 'i' identifier/number, 'p' punctuation, 's' string literal, 'c' comment, 'h' hint, 'w' whitespace
	hint  *hintSpec
	ident bool
}

var wsIdents = []string{"a", "b", "$x", "foo", "x1", "_r", "return", "var", "function", "new", "typeof", "if", "else", "case", "$s", "42", "0", "this", "in"}
var wsPuncts = []string{"=", "(", ")", "{", "}", ";", ",", ".", "[", "]", "<", "!", "===", "+", "-", "*", "/", ":", "?", "&&", "||", ">>"}
var wsStrings = []string{`""`, `"a b"`, `"x\"y z"`, `"\\"`, `"/* no comment */"`, `"tab\there  two"`, `"é ·"`, `"a\\\" b"`, `" "`}
var wsComments = []string{"/* */", "/* int */", "/* a \" b */", "/* multi\n line */", "/**/", "/* é */"}

// genWSStream builds a JS-like token stream with hints placed where the code generator places
// them: before the indentation of a line, directly before an identifier-like token, and at the
// end of a chunk after a terminator.
func genWSStream(r *rand.Rand, hp *hintPool) []jsTok {
	var toks []jsTok
	ws := func(min int) {
		n := min + r.Intn(3)
		if n == 0 {
			return
		}
		s := ""
		for i := 0; i < n; i++ {
			s += []string{" ", " ", "\t", "\n"}[r.Intn(4)]
		}
		toks = append(toks, jsTok{text: s, kind: 'w'})
	}
	hint := func() {
		var h *hintSpec
		if r.Intn(4) == 0 {
			h = &hp.ident[r.Intn(len(hp.ident))]
		} else {
			h = &hp.pos[r.Intn(len(hp.pos))]
		}
		toks = append(toks, jsTok{text: string(h.enc), kind: 'h', hint: h})
	}
	lines := 1 + r.Intn(6)
	var prevSig string
	for l := 0; l < lines; l++ {
		if r.Intn(2) == 0 {
			hint() // before the indentation, as Printf does
		}
		if n := r.Intn(4); n > 0 {
			toks = append(toks, jsTok{text: strings.Repeat("\t", n), kind: 'w'})
		}
		nt := 1 + r.Intn(9)
		for t := 0; t < nt; t++ {
			switch k := r.Intn(20); {
			case k < 8:
				id := wsIdents[r.Intn(len(wsIdents))]
				if len(prevSig) > 0 && isIdentByte(prevSig[len(prevSig)-1]) {
					ws(1) // identifiers must stay separated
				} else {
					ws(0)
				}
				if r.Intn(4) == 0 {
					hint() // directly before an identifier-like token
					if r.Intn(6) == 0 {
						hint() // two adjacent hints
					}
				}
				toks = append(toks, jsTok{text: id, kind: 'i'})
				prevSig = id
			case k < 15:
				p := wsPuncts[r.Intn(len(wsPuncts))]
				if prevSig != "" && (prevSig[len(prevSig)-1] == '+' || prevSig[len(prevSig)-1] == '/' || prevSig[len(prevSig)-1] == '*') &&
					(p[0] == '+' || p[0] == '*' || p[0] == '/') {
					p = ";" // never build ++, /*, */ or // out of operators
				}
				if prevSig != "" && prevSig[len(prevSig)-1] == '-' && p[0] == '-' {
					ws(1) // "- -" must stay separated
				} else {
					ws(0)
				}
				toks = append(toks, jsTok{text: p, kind: 'p'})
				prevSig = p
			case k < 18:
				s := wsStrings[r.Intn(len(wsStrings))]
				ws(0)
				toks = append(toks, jsTok{text: s, kind: 's'})
				prevSig = s
			default:
				if prevSig != "" && (prevSig[len(prevSig)-1] == '/' || prevSig[len(prevSig)-1] == '*') {
					continue
				}
				ws(1) // comments are emitted surrounded by blanks ("/* */ if (…")
				toks = append(toks, jsTok{text: wsComments[r.Intn(len(wsComments))], kind: 'c'})
				ws(1)
			}
		}
		term := []string{";", "}", "};", ");"}[r.Intn(4)]
		toks = append(toks, jsTok{text: term, kind: 'p'})
		prevSig = term
		if r.Intn(5) == 0 {
			hint() // trailing hint (CatchOutput flushes a pending position at the end)
		}
		toks = append(toks, jsTok{text: "\n", kind: 'w'})
	}
	return toks
}

func isIdentByte(c byte) bool {
	return c >= 'a' && c <= 'z' || c >= 'A' && c <= 'Z' || c >= '0' && c <= '9' || c == '_' || c == '$'
}

// canon tokenises a JS-like byte stream (hint-, string- and comment-aware) and returns the
// sequence of significant atoms: every byte outside strings/comments/whitespace, whole string
// literals, whole hints; plus, for each pair of adjacent significant atoms, whether whitespace or
// a comment separated them.
func canon(b []byte) (atoms []string, sep []bool, err error) {
	pendingSep := false
	push := func(a string) {
		atoms = append(atoms, a)
		sep = append(sep, pendingSep)
		pendingSep = false
	}
	for i := 0; i < len(b); {
		c := b[i]
		switch {
		case c == hintMagic:
			if i+3 > len(b) {
				return nil, nil, fmt.Errorf("truncated hint header at %d", i)
			}
			sz := int(b[i+1])<<8 | int(b[i+2])
			if i+3+sz > len(b) {
				return nil, nil, fmt.Errorf("truncated hint at %d", i)
			}
			// hints are transparent for the separation bookkeeping
			atoms = append(atoms, string(b[i:i+3+sz]))
			sep = append(sep, false)
			i += 3 + sz
		case c == ' ' || c == '\t' || c == '\n':
			pendingSep = true
			i++
		case c == '"':
			j := i + 1
			for j < len(b) && b[j] != '"' {
				if b[j] == '\\' {
					j++
				}
				j++
			}
			if j >= len(b) {
				return nil, nil, fmt.Errorf("unterminated string at %d", i)
			}
			push(string(b[i : j+1]))
			i = j + 1
		case c == '/' && i+1 < len(b) && b[i+1] == '*':
			k := bytes.Index(b[i+2:], []byte("*/"))
			if k < 0 {
				return nil, nil, fmt.Errorf("unterminated comment at %d", i)
			}
			pendingSep = true
			i += 2 + k + 2
		default:
			push(string(c))
			i++
		}
	}
	return
}

func tokenPos(f *fileModel, off int) token.Pos { return token.Pos(f.base + off) }

// token1 is some valid position (third file, second line).
func token1(m *fsModel) token.Pos {
	f := &m.files[2]
	off := 0
	if len(f.lines) > 1 {
		off = f.lines[1]
	}
	return tokenPos(f, off)
}
