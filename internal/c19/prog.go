package c19

import (
	"fmt"
	"math/rand"
	"strings"
)

// ---------------------------------------------------------------------------------------------
// Program level: generator of "throwline" programs. Every site is an expression that throws when
// the run-time selector equals the site's id; the generator knows file and first line of the
// statement that contains the site.
// ---------------------------------------------------------------------------------------------

// Site is one place that can be made to throw.
type Site struct {
	ID       int    `json:"id"`
	File     string `json:"file"` // base name of the Go (or .inc.js) file
	Line     int    `json:"line"` // first line of the innermost statement containing the site
	Alt      []int  `json:"alt,omitempty"`
	Kind     string `json:"kind"`
	Form     string `json:"form"`
	Blocking bool   `json:"blocking"`
	Pkg      string `json:"pkg"`
	JSThrow  bool   `json:"js_throw,omitempty"`  // the throw is a JS `throw` inside the .inc.js file
	ViaInc   int    `json:"via_inc,omitempty"`   // the stack must also contain this line of the .inc.js file
	InitOnly bool   `json:"init_only,omitempty"` // only reachable in uncaught mode (package initialisation)
}

// Probe is one execution that makes one site throw through one call path.
type Probe struct {
	N    int    // probe number printed by the program
	Site *Site  // what throws
	Call string // Go expression statement performing the call (k already substituted)
}

// GenProgram is a generated workload.
type GenProgram struct {
	Name          string
	Template      string
	Files         map[string]string
	Sites         []*Site
	Probes        []*Probe
	NonASCII      bool
	IncFile       string // base name of the .inc.js file, if any
	GopathSibling bool
}

type srcB struct {
	b    strings.Builder
	line int // number of the next line
}

func newSrc() *srcB { return &srcB{line: 1} }

// L writes text (possibly several lines) followed by a newline; returns the number of its first line.
func (s *srcB) L(text string) int {
	first := s.line
	s.b.WriteString(text)
	s.b.WriteByte('\n')
	s.line += strings.Count(text, "\n") + 1
	return first
}

func (s *srcB) String() string { return s.b.String() }

type fnSpec struct {
	name     string
	form     string // func | method-val | method-ptr | closure | generic | defer-closure
	blocking bool
	realBlk  bool
	pkg      string // main | lib
	nonascii bool
	nKinds   int
}

type gen struct {
	r      *rand.Rand
	p      *GenProgram
	nextID int
	file   string // file being generated (base name)
	pkg    string
	fn     *fnSpec
	vn     int
}

func (g *gen) site(kind string, line int, alt ...int) *Site {
	g.nextID++
	s := &Site{ID: g.nextID, File: g.file, Line: line, Alt: alt, Kind: kind, Form: g.fn.form, Blocking: g.fn.blocking, Pkg: g.pkg}
	g.p.Sites = append(g.p.Sites, s)
	return s
}

// peekID returns the id the next site will get (the expression is written before the line is known).
func (g *gen) peekID() int { return g.nextID + 1 }

func (g *gen) expr() string { return fmt.Sprintf("tbl[at(k, %d)]", g.peekID()) }

func (g *gen) v(prefix string) string {
	g.vn++
	return fmt.Sprintf("%s%d", prefix, g.vn)
}

var allKinds = []string{
	"assign", "define", "var-decl", "call", "call-multiline", "assign-multiline", "complit-multiline",
	"panic", "panic-multiline", "if-cond", "elseif-cond", "for-init", "for-cond", "for-post", "range-expr",
	"switch-tag", "switch-case", "typeswitch", "after-rawstring", "rawstring-inside", "after-comment", "comment-inside",
	"incdec", "defer-arg", "go-arg", "labeled-loop", "nested-block", "closure-call", "in-defer-closure", "assign-struct-field",
	"after-funclit", "after-funclit-inline", "elseif3-funclit", "switch-case3-funclit", "after-empty-funclit",
}
var blockingKinds = []string{"send", "recv-expr", "select-send", "if-cond-flat", "for-cond-flat", "switch-case-flat", "elseif-cond-flat", "after-block", "elseif3-cond-blk", "switch-case3-blk", "after-funclit-blk"}
var nonASCIIKinds = []string{"nonascii-field", "nonascii-field2", "nonascii-method-call"}

// chanOps returns statements with channel operations (they make the enclosing statement flattened).
func chanOps(ind string) string { return ind + "ch <- 1\n" + ind + "s += <-ch" }

// emitKind writes one statement group containing exactly one site.
func (g *gen) emitKind(s *srcB, kind, ind string) {
	e := g.expr()
	id := g.peekID()
	switch kind {
	case "assign":
		g.site(kind, s.L(ind+"s += "+e))
	case "define":
		v := g.v("v")
		g.site(kind, s.L(ind+v+" := "+e))
		s.L(ind + "s += " + v)
	case "var-decl":
		v := g.v("w")
		g.site(kind, s.L(ind+"var "+v+" int = "+e))
		s.L(ind + "s += " + v)
	case "call":
		g.site(kind, s.L(ind+"use(s, "+e+")"))
	case "call-multiline":
		g.site(kind, s.L(ind+"use(\n"+ind+"\ts,\n"+ind+"\t1,\n"+ind+"\t"+e+",\n"+ind+")"))
	case "assign-multiline":
		g.site(kind, s.L(ind+"s = s +\n"+ind+"\t2*s +\n"+ind+"\t"+e+" +\n"+ind+"\t3"))
	case "complit-multiline":
		v := g.v("a")
		g.site(kind, s.L(ind+v+" := []int{\n"+ind+"\t1,\n"+ind+"\t2,\n"+ind+"\t"+e+",\n"+ind+"}"))
		s.L(ind + "s += len(" + v + ")")
	case "panic":
		s.L(fmt.Sprintf("%sif k == %d {", ind, id))
		g.site(kind, s.L(fmt.Sprintf("%s\tpanic(\"P%d\")", ind, id)))
		s.L(ind + "}")
	case "panic-multiline":
		s.L(fmt.Sprintf("%sif k == %d {", ind, id))
		g.site(kind, s.L(fmt.Sprintf("%s\tpanic(\n%s\t\t\"P%d\" +\n%s\t\t\t\"x\")", ind, ind, id, ind)))
		s.L(ind + "}")
	case "if-cond":
		g.site(kind, s.L(ind+"if "+e+" == -5 {"))
		s.L(ind + "\ts++")
		s.L(ind + "}")
	case "if-cond-flat":
		g.site(kind, s.L(ind+"if "+e+" == 0 {"))
		s.L(chanOps(ind + "\t"))
		s.L(ind + "}")
	case "elseif-cond", "elseif-cond-flat":
		head := s.L(ind + "if s == -77 {")
		s.L(ind + "\ts++")
		g.site(kind, s.L(ind+"} else if "+e+" == 0 {"), head)
		if kind == "elseif-cond-flat" {
			s.L(chanOps(ind + "\t"))
		} else {
			s.L(ind + "\ts += 2")
		}
		s.L(ind + "}")
	case "for-init":
		i := g.v("i")
		g.site(kind, s.L(ind+"for "+i+" := "+e+"; "+i+" < 2; "+i+"++ {"))
		s.L(ind + "\ts++")
		s.L(ind + "}")
	case "for-cond", "for-cond-flat":
		i := g.v("i")
		g.site(kind, s.L(ind+"for "+i+" := 0; "+i+" < 2+"+e+"; "+i+"++ {"))
		if kind == "for-cond-flat" {
			s.L(chanOps(ind + "\t"))
		} else {
			s.L(ind + "\ts++")
		}
		s.L(ind + "}")
	case "for-post":
		i := g.v("i")
		g.site(kind, s.L(ind+"for "+i+" := 0; "+i+" < 2; "+i+" += 1 + "+e+" {"))
		s.L(ind + "\ts++")
		s.L(ind + "}")
	case "range-expr":
		g.site(kind, s.L(ind+"for _, rv := range tbl["+e+":] {"))
		s.L(ind + "\ts += rv")
		s.L(ind + "}")
	case "switch-tag":
		g.site(kind, s.L(ind+"switch "+e+" {"))
		s.L(ind + "case -7:")
		s.L(ind + "\ts++")
		s.L(ind + "case 0:")
		s.L(ind + "\ts += 2")
		s.L(ind + "}")
	case "switch-case", "switch-case-flat":
		head := s.L(ind + "switch {")
		s.L(ind + "case s == -99:")
		s.L(ind + "\ts++")
		g.site(kind, s.L(ind+"case "+e+" == 0:"), head)
		if kind == "switch-case-flat" {
			s.L(chanOps(ind + "\t"))
		} else {
			s.L(ind + "\ts += 3")
		}
		s.L(ind + "}")
	case "after-funclit":
		// the rest of a statement after a function literal belongs to the statement
		g.site(kind, s.L(ind+"s += apply(func() int {\n"+ind+"\treturn 1\n"+ind+"}, "+e+")"))
	case "after-funclit-inline":
		g.site(kind, s.L(ind+"s += apply(func() int { return 2 }, 1) + "+e))
	case "after-funclit-blk":
		s.L(ind + "ch <- 3")
		g.site(kind, s.L(ind+"s += apply(func() int {\n"+ind+"\treturn 1\n"+ind+"}, <-ch) + "+e))
	case "after-empty-funclit":
		g.site(kind, s.L(ind+"s += apply(func() int { return 0 }, 0) + len([]func(){func() {}}) + "+e))
	case "elseif3-funclit":
		// code after a function literal inside the condition of a later clause
		head := s.L(ind + "if s == -77 {")
		s.L(ind + "\ts++")
		s.L(ind + "} else if s == -78 {")
		s.L(ind + "\ts += 2")
		g.site(kind, s.L(ind+"} else if apply(func() int {\n"+ind+"\treturn 1\n"+ind+"}, "+e+") == -5 {"), head)
		s.L(ind + "\ts += 3")
		s.L(ind + "}")
	case "switch-case3-funclit":
		head := s.L(ind + "switch {")
		s.L(ind + "case s == -99:")
		s.L(ind + "\ts++")
		s.L(ind + "case s == -98:")
		s.L(ind + "\ts += 2")
		g.site(kind, s.L(ind+"case apply(func() int { return 1 }, "+e+") == -5:"), head)
		s.L(ind + "\ts += 3")
		s.L(ind + "}")
	case "elseif3-cond-blk":
		// the condition of a later else-if suspends: its code belongs to that clause
		s.L(ind + "ch <- 7")
		head := s.L(ind + "if s == -77 {")
		s.L(ind + "\ts++")
		s.L(ind + "} else if s == -78 {")
		s.L(ind + "\ts += 2")
		g.site(kind, s.L(ind+"} else if <-ch+"+e+" == -5 {"), head)
		s.L(ind + "\ts += 3")
		s.L(ind + "}")
	case "switch-case3-blk":
		s.L(ind + "ch <- 7")
		head := s.L(ind + "switch {")
		s.L(ind + "case s == -99:")
		s.L(ind + "\ts++")
		s.L(ind + "case s == -98:")
		s.L(ind + "\ts += 2")
		g.site(kind, s.L(ind+"case <-ch+"+e+" == -5:"), head)
		s.L(ind + "\ts += 3")
		s.L(ind + "}")
	case "typeswitch":
		g.site(kind, s.L(ind+"switch tv := any("+e+").(type) {"))
		s.L(ind + "case int:")
		s.L(ind + "\ts += tv")
		s.L(ind + "case string:")
		s.L(ind + "\ts += len(tv)")
		s.L(ind + "}")
	case "after-rawstring":
		v := g.v("str")
		n := 2 + g.r.Intn(6)
		s.L(ind + v + " := `first" + strings.Repeat("\n    raw line", n) + "\nlast`")
		g.site(kind, s.L(ind+"s += len("+v+") + "+e))
	case "rawstring-inside":
		g.site(kind, s.L(ind+"s += len(`raw\nstring\n\tliteral`) +\n"+ind+"\t"+e))
	case "after-comment":
		n := 1 + g.r.Intn(5)
		s.L(ind + "/* a comment" + strings.Repeat("\n"+ind+"   spanning lines", n) + " */")
		if g.r.Intn(2) == 0 {
			s.L("")
			s.L(ind + "// and a line comment")
		}
		g.site(kind, s.L(ind+"s += "+e))
	case "comment-inside":
		g.site(kind, s.L(ind+"s += 1 + /* inner\n"+ind+"\tcomment */ 2 +\n"+ind+"\t"+e))
	case "incdec":
		g.site(kind, s.L(ind+"tbl2["+e+"]++"))
	case "defer-arg":
		g.site(kind, s.L(ind+"defer use("+e+")"))
	case "go-arg":
		g.site(kind, s.L(ind+"go use("+e+")"))
	case "labeled-loop":
		lbl := g.v("L")
		i := g.v("i")
		s.L(ind + lbl + ":")
		s.L(ind + "for " + i + " := 0; " + i + " < 3; " + i + "++ {")
		g.site(kind, s.L(ind+"\ts += "+e))
		s.L(ind + "\tif " + i + " == 1 {")
		s.L(ind + "\t\tbreak " + lbl)
		s.L(ind + "\t}")
		s.L(ind + "}")
	case "nested-block":
		s.L(ind + "{")
		s.L(ind + "\tnb := s")
		g.site(kind, s.L(ind+"\ts += nb + "+e))
		s.L(ind + "}")
	case "closure-call":
		s.L(ind + "func() {")
		s.L(ind + "\ts++")
		g.site(kind, s.L(ind+"\ts += "+e))
		s.L(ind + "}()")
	case "in-defer-closure":
		s.L(ind + "defer func() {")
		g.site(kind, s.L(ind+"\ts += "+e))
		s.L(ind + "}()")
	case "assign-struct-field":
		g.site(kind, s.L(ind+"st.a, st.b = st.b,\n"+ind+"\t"+e))
	case "send":
		g.site(kind, s.L(ind+"ch <- "+e))
		s.L(ind + "s += <-ch")
	case "recv-expr":
		s.L(ind + "ch <- 2")
		g.site(kind, s.L(ind+"s += <-ch + "+e))
	case "select-send":
		head := s.L(ind + "select {")
		g.site(kind, s.L(ind+"case ch <- "+e+":"), head)
		s.L(ind + "\ts += <-ch")
		s.L(ind + "default:")
		s.L(ind + "}")
	case "after-block":
		s.L(ind + "hand <- 1")
		s.L(ind + "s += <-back")
		g.site(kind, s.L(ind+"s += "+e))
	case "nonascii-field":
		g.site(kind, s.L(ind+"u.Ωmega += u.été + "+e))
	case "nonascii-field2":
		s.L(ind + "u.été = u.Ωmega + u.Ωmega + u.été")
		g.site(kind, s.L(ind+"u.Ωmega, u.été = u.été, "+e))
	case "nonascii-method-call":
		g.site(kind, s.L(ind+"s += u.Méthode(u.été) + u.Ωmega + "+e))
	default:
		panic("c19: unknown kind " + kind)
	}
}

// emitFunc writes one function (form) with a random selection of kinds.
func (g *gen) emitFunc(s *srcB, fs *fnSpec) {
	g.fn = fs
	exp := fs.pkg == "lib"
	recvT := "T1"
	if exp {
		recvT = "LT"
	}
	ind := "\t"
	switch fs.form {
	case "func", "defer-closure":
		s.L(fmt.Sprintf("func %s(k int) int {", fs.name))
	case "method-val":
		s.L(fmt.Sprintf("func (t %s) %s(k int) int {", recvT, fs.name))
	case "method-ptr":
		s.L(fmt.Sprintf("func (t *%s) %s(k int) int {", recvT, fs.name))
	case "generic":
		s.L(fmt.Sprintf("func %s[X any](x X, k int) int {", fs.name))
		s.L("\tuseAny(x)")
	case "closure":
		s.L(fmt.Sprintf("func %s(k int) int {", fs.name))
		s.L("\ttotal := 0")
		s.L("\tinner := func(d int) int {")
		ind = "\t\t"
	}
	s.L(ind + "s := 0")
	s.L(ind + "tbl2 := []int{0, 0}")
	s.L(ind + "st := struct{ a, b int }{1, 2}")
	s.L(ind + "use(tbl2[0], st.a)")
	if fs.nonascii {
		s.L(ind + "var u Ωt")
		s.L(ind + "u.Ωmega = 1")
	}
	if fs.blocking {
		s.L(ind + "ch := make(chan int, 1)")
		s.L(ind + "ch <- 0")
		s.L(ind + "s += <-ch")
		if fs.realBlk {
			s.L(ind + "hand := make(chan int)")
			s.L(ind + "back := make(chan int)")
			s.L(ind + "go func() {")
			s.L(ind + "\tfor range hand {")
			s.L(ind + "\t\tback <- 1")
			s.L(ind + "\t}")
			s.L(ind + "}()")
			s.L(ind + "defer close(hand)")
		}
	}
	pool := append([]string(nil), allKinds...)
	if fs.blocking {
		pool = append(pool, blockingKinds...)
		pool = append(pool, "send", "recv-expr", "if-cond-flat") // more weight
		if !fs.realBlk {
			pool = removeStr(pool, "after-block")
		}
	}
	if fs.nonascii {
		pool = append(pool, nonASCIIKinds...)
		pool = append(pool, nonASCIIKinds...)
	}
	g.r.Shuffle(len(pool), func(i, j int) { pool[i], pool[j] = pool[j], pool[i] })
	n := fs.nKinds
	if n > len(pool) {
		n = len(pool)
	}
	for _, kind := range pool[:n] {
		if fs.blocking && g.r.Intn(4) == 0 {
			s.L(chanOps(ind))
		}
		g.emitKind(s, kind, ind)
	}
	// the return statement is a site too
	e := g.expr()
	g.site("return", s.L(ind+"return s + "+e))
	if fs.form == "closure" {
		s.L("\t}")
		s.L("\ttotal += inner(1)")
		s.L("\treturn total")
	}
	s.L("}")
	s.L("")
}

func removeStr(l []string, x string) []string {
	out := l[:0]
	for _, v := range l {
		if v != x {
			out = append(out, v)
		}
	}
	return out
}

// calls returns the call statements (from package main) that reach a function, with %d for k.
func (fs *fnSpec) calls() []string {
	q := ""
	recvT := "T1"
	if fs.pkg == "lib" {
		q = "lib."
		recvT = "lib.LT"
	}
	switch fs.form {
	case "method-val":
		return []string{recvT + "{}." + fs.name + "(%d)"}
	case "method-ptr":
		return []string{"(&" + recvT + "{})." + fs.name + "(%d)"}
	case "generic":
		return []string{q + fs.name + "[int](1, %d)", q + fs.name + "[string](\"s\", %d)", q + fs.name + "[T1](T1{}, %d)"}
	}
	return []string{q + fs.name + "(%d)"}
}

const helperFile = "zz_probe.go"

const helperSrc = `package main

import "github.com/gopherjs/gopherjs/js"

var tbl = []int{0, 1, 2}

func at(k, id int) int {
	if k == id {
		return 100
	}
	return 0
}

func use(v ...int) {}

func useAny(v any) {}

func apply(f func() int, v int) int { return f() + v }

func itoa(n int) string {
	if n == 0 {
		return "0"
	}
	neg := n < 0
	if neg {
		n = -n
	}
	b := ""
	for n > 0 {
		b = string(rune('0'+n%10)) + b
		n /= 10
	}
	if neg {
		b = "-" + b
	}
	return b
}

func envInt(name string) int {
	v := js.Global.Get("process").Get("env").Get(name)
	if v == js.Undefined {
		return -1
	}
	return v.Int()
}

func sel() int { return envInt("SEL") }

func isel() int { return envInt("ISEL") }

func probe(n int, f func()) {
	defer func() {
		r := recover()
		st := ""
		if r == nil {
			st = "NO-PANIC"
		} else if e, ok := r.(*js.Error); ok {
			st = "JS " + e.Get("stack").String()
		} else {
			st = "GO " + js.Global.Get("Error").New("probe").Get("stack").String()
		}
		println("STACK " + itoa(n) + "\n" + st + "\nEND " + itoa(n))
	}()
	f()
}
`

const libHelperSrc = `
var tbl = []int{0, 1, 2}

func at(k, id int) int {
	if k == id {
		return 100
	}
	return 0
}

func use(v ...int) {}

func useAny(v any) {}

func apply(f func() int, v int) int { return f() + v }

type LT struct{ N int }
`

// the .inc.js file; incThrowLine / incCallLine are the lines of the throw and of the callback call.
const incSrc = `// helper included verbatim into the package (c19)
$global.c19inc = function(f, n) {
  var r = 0;
  if (n === 1) {
    throw new Error("INC-THROW");
  }
  /* a comment
     spanning lines */
  r = f(n);
  return r + 1;
};
$global.c19incB = function(n) {
  var q = { a: n,
            b: n + 1 };
  if (q.b === 3) { throw new Error("INC-THROW-B"); }
  return q.a;
};
`
const (
	incThrowLine  = 5
	incCallLine   = 9
	incThrowLineB = 15
)

// Templates.
var templates = []string{"single", "methods-generics", "blocking", "multi-pkg-incjs", "nonascii", "mixed-big"}

// genProgram builds one program of the given template.
func genProgram(r *rand.Rand, name, template string) *GenProgram {
	p := &GenProgram{Name: name, Template: template, Files: map[string]string{}}
	g := &gen{r: r, p: p}
	forms := []string{"func", "closure"}
	nFn := 2 + r.Intn(2)
	blockingP := 0 // percentage
	withLib := false
	switch template {
	case "single":
	case "methods-generics":
		forms = []string{"method-val", "method-ptr", "generic", "generic", "func"}
		nFn = 3 + r.Intn(2)
		blockingP = 20
	case "blocking":
		forms = []string{"func", "closure", "method-ptr", "generic"}
		blockingP = 100
		nFn = 3 + r.Intn(2)
	case "multi-pkg-incjs":
		forms = []string{"func", "method-val", "generic", "closure"}
		withLib = true
		blockingP = 30
	case "nonascii":
		forms = []string{"func", "method-ptr", "closure", "generic"}
		p.NonASCII = true
		blockingP = 30
		nFn = 3 + r.Intn(2)
	case "mixed-big":
		forms = []string{"func", "closure", "method-val", "method-ptr", "generic"}
		withLib = true
		blockingP = 50
		nFn = 4 + r.Intn(3)
		p.NonASCII = r.Intn(3) == 0
	}
	var fns []*fnSpec
	mk := func(pkg string, i int) *fnSpec {
		fs := &fnSpec{form: forms[r.Intn(len(forms))], pkg: pkg, nonascii: p.NonASCII && r.Intn(4) != 0}
		fs.blocking = r.Intn(100) < blockingP
		fs.realBlk = fs.blocking && r.Intn(2) == 0
		fs.nKinds = 4 + r.Intn(8)
		if template == "mixed-big" {
			fs.nKinds = 6 + r.Intn(10)
		}
		if pkg == "lib" {
			fs.name = fmt.Sprintf("F%d", i)
			fs.nonascii = false
		} else {
			fs.name = fmt.Sprintf("f%d", i)
			if p.NonASCII && r.Intn(2) == 0 {
				fs.name = fmt.Sprintf("fé%d", i)
			}
		}
		return fs
	}

	// main.go
	g.file, g.pkg = "main.go", "main"
	s := newSrc()
	s.L("package main")
	s.L("")
	if withLib {
		s.L("import (")
		s.L("\t\"github.com/gopherjs/gopherjs/js\"")
		s.L("")
		s.L("\t\"prog/lib\"")
		s.L(")")
		s.L("")
	}
	s.L("type T1 struct{ n int }")
	s.L("")
	if p.NonASCII {
		s.L("// Ωt has fields whose names survive minification and are not ASCII.")
		s.L("type Ωt struct{ Ωmega, été int }")
		s.L("")
		s.L("func (u *Ωt) Méthode(v int) int { return v - u.été }")
		s.L("")
	}
	// package-level initialiser sites (only reachable during initialisation)
	nInit := 1 + r.Intn(2)
	g.fn = &fnSpec{form: "pkg-init", pkg: "main"}
	for i := 0; i < nInit; i++ {
		id := g.peekID()
		var st *Site
		if r.Intn(2) == 0 {
			st = g.site("pkgvar-init", s.L(fmt.Sprintf("var g%d = tbl[at(isel(), %d)]", i, id)))
		} else {
			st = g.site("pkgvar-init-multiline", s.L(fmt.Sprintf("var g%d = 1 +\n\t2 +\n\ttbl[at(isel(), %d)]", i, id)))
		}
		st.InitOnly = true
		s.L("")
	}
	for i := 0; i < nFn; i++ {
		fs := mk("main", i)
		fns = append(fns, fs)
		first := len(p.Sites)
		g.emitFunc(s, fs)
		g.addProbes(fs, p.Sites[first:])
	}
	mainSrc := s // main() is appended at the end, after the lib is known

	if withLib {
		g.file, g.pkg = "lib.go", "lib"
		ls := newSrc()
		ls.L("// Package lib carries a .inc.js file.")
		ls.L("package lib")
		ls.L(libHelperSrc)
		nl := 1 + r.Intn(2)
		for i := 0; i < nl; i++ {
			fs := mk("lib", i)
			fns = append(fns, fs)
			first := len(p.Sites)
			g.emitFunc(ls, fs)
			g.addProbes(fs, p.Sites[first:])
		}
		p.Files["lib/lib.go"] = ls.String()
		p.Files["lib/lib.inc.js"] = incSrc
		p.IncFile = "lib.inc.js"

		// JS-level sites in the .inc.js file and a Go callback invoked from it
		g.file, g.pkg = "main.go", "main"
		g.fn = &fnSpec{form: "incjs", pkg: "main"}
		s.L("func incThrow(k int) int {")
		s.L("\treturn js.Global.Call(\"c19inc\", nil, 1).Int()")
		s.L("}")
		s.L("")
		s.L("func incThrowB(k int) int {")
		s.L("\treturn js.Global.Call(\"c19incB\", 2).Int()")
		s.L("}")
		s.L("")
		s.L("func incCallback(k int) int {")
		s.L("\tcb := func(n int) int {")
		id := g.peekID()
		cbLine := s.L(fmt.Sprintf("\t\treturn 1 + tbl[at(n, %d)]", id))
		s.L("\t}")
		s.L("\treturn js.Global.Call(\"c19inc\", cb, k).Int()")
		s.L("}")
		s.L("")
		cb := g.site("incjs-callback", cbLine)
		cb.ViaInc = incCallLine
		g.probe(cb, fmt.Sprintf("incCallback(%d)", cb.ID))
		g.nextID++
		t1 := &Site{ID: g.nextID, File: "lib.inc.js", Line: incThrowLine, Kind: "incjs-throw", Form: "incjs", Pkg: "lib", JSThrow: true}
		g.nextID++
		t2 := &Site{ID: g.nextID, File: "lib.inc.js", Line: incThrowLineB, Kind: "incjs-throw-after-multiline", Form: "incjs", Pkg: "lib", JSThrow: true}
		p.Sites = append(p.Sites, t1, t2)
		g.probe(t1, fmt.Sprintf("incThrow(%d)", t1.ID))
		g.probe(t2, fmt.Sprintf("incThrowB(%d)", t2.ID))
	}

	// main()
	s = mainSrc
	s.L("func main() {")
	for i := 0; i < nInit; i++ {
		s.L(fmt.Sprintf("\tuse(g%d)", i))
	}
	s.L("\tk := sel()")
	s.L("\tif k >= 0 {")
	s.L("\t\tswitch k {")
	for _, pr := range p.Probes {
		s.L(fmt.Sprintf("\t\tcase %d:", pr.N))
		s.L("\t\t\t" + pr.Call)
	}
	s.L("\t\t}")
	s.L("\t\tprintln(\"UNCAUGHT-MODE-RETURNED\")")
	s.L("\t\treturn")
	s.L("\t}")
	for _, pr := range p.Probes {
		s.L(fmt.Sprintf("\tprobe(%d, func() { %s })", pr.N, pr.Call))
	}
	s.L(fmt.Sprintf("\tprintln(\"SWEEP-DONE %d\")", len(p.Probes)))
	s.L("}")
	p.Files["main.go"] = s.String()
	p.Files[helperFile] = helperSrc
	return p
}

func (g *gen) probe(st *Site, call string) {
	g.p.Probes = append(g.p.Probes, &Probe{N: len(g.p.Probes) + 1, Site: st, Call: call})
}

func (g *gen) addProbes(fs *fnSpec, sites []*Site) {
	calls := fs.calls()
	for _, st := range sites {
		for ci, c := range calls {
			// generic functions: every site through the first instance, a third of them through the others
			if ci > 0 && g.r.Intn(3) != 0 {
				continue
			}
			g.probe(st, fmt.Sprintf(c, st.ID))
		}
	}
}
