package c19

import (
	"bytes"
	"fmt"
	"os"
	"path/filepath"
	"regexp"
	"sort"
	"strconv"
	"strings"
	"sync"
	"time"
	"unicode/utf8"

	"verif/internal/core"
)

// ---------------------------------------------------------------------------------------------
// Program level: static checks of the emitted file and its map, and the "right line" probes.
// ---------------------------------------------------------------------------------------------

// failure is one refuting observation; failures are sorted and de-duplicated by key after the
// parallel phase so that the reported witness is a function of the seed only.
type failure struct {
	order string // sort key (program / variant / probe)
	key   string
	what  string
	files map[string]string
	lazy  func() map[string]string // evaluated only for the reported witness
}

type failSink struct {
	mu    sync.Mutex
	best  map[string]failure
	count map[string]int
}

func (s *failSink) add(f failure) {
	s.mu.Lock()
	defer s.mu.Unlock()
	if s.best == nil {
		s.best, s.count = map[string]failure{}, map[string]int{}
	}
	s.count[f.key]++
	if b, ok := s.best[f.key]; !ok || f.order < b.order {
		s.best[f.key] = f
	}
}

// report records the first witness (in generation order, independent of scheduling) of every key
// as a violation and returns the number of keys.
func (s *failSink) report(c *core.Ctx) int {
	var first []failure
	for _, f := range s.best {
		first = append(first, f)
	}
	sort.Slice(first, func(i, j int) bool { return first[i].order < first[j].order })
	for _, f := range first {
		what := f.what
		if n := s.count[f.key]; n > 1 {
			what += fmt.Sprintf("\n(%d refuting observations share the key %q in this run; this is the first)", n, f.key)
		}
		files := f.files
		if f.lazy != nil {
			files = f.lazy()
		}
		c.Violate(f.key, what, files)
	}
	for k, n := range s.count {
		c.Count("refuting_observations["+k+"]", n)
	}
	return len(first)
}

func mkFail(order, key, what string, files map[string]string) failure {
	return failure{order: order, key: key, what: what, files: files}
}

type frame struct {
	fn   string
	file string
	line int
	col  int
	text string
}

var frameLoc = regexp.MustCompile(`^(.*):(\d+):(\d+)$`)

// parseFrames extracts the "    at …" lines of a V8 stack trace.
func parseFrames(text string) []frame {
	var out []frame
	for _, l := range strings.Split(text, "\n") {
		t := strings.TrimSpace(l)
		if !strings.HasPrefix(t, "at ") {
			continue
		}
		t = strings.TrimPrefix(t, "at ")
		f := frame{text: strings.TrimSpace(l)}
		loc := t
		if strings.HasSuffix(t, ")") {
			if i := strings.LastIndex(t, " ("); i >= 0 {
				f.fn = t[:i]
				loc = t[i+2 : len(t)-1]
			}
		}
		if m := frameLoc.FindStringSubmatch(loc); m != nil {
			f.file = m[1]
			f.line, _ = strconv.Atoi(m[2])
			f.col, _ = strconv.Atoi(m[3])
		} else {
			f.file = loc
		}
		f.file = strings.TrimPrefix(f.file, "file://")
		out = append(out, f)
	}
	return out
}

var preludeNames = map[string]bool{"prelude.js": true, "numeric.js": true, "numberic.js": true, "types.js": true, "goroutines.js": true, "jsmapping.js": true}

// resolved is a frame after source-map resolution by one of the two consumers.
type resolved struct {
	last   bool   // own decoder: the lookup hit the final segment of the map
	ok     bool   // resolved to an original source
	source string // source name as in the map ("main.go", "/runtime/x.go", …); "" when !ok
	line   int
	inOut  bool // the frame lies in the emitted file (as opposed to node internals)
}

func (r resolved) String() string {
	if !r.inOut {
		return "(outside the emitted file)"
	}
	if !r.ok {
		return "(unmapped)"
	}
	return fmt.Sprintf("%s:%d", r.source, r.line)
}

func (r resolved) class() string {
	switch {
	case !r.inOut:
		return "foreign"
	case !r.ok:
		return "unresolved"
	case filepath.Base(r.source) == helperFile:
		return "helper"
	case strings.HasPrefix(r.source, "/"):
		return "goroot"
	case preludeNames[r.source]:
		return "prelude"
	}
	return "program"
}

// nodeResolved interprets a frame printed by `node --enable-source-maps`.
func nodeResolved(f frame, dir, outJS string) resolved {
	switch {
	case f.file == outJS:
		return resolved{inOut: true}
	case strings.HasPrefix(f.file, dir+"/"):
		return resolved{ok: true, inOut: true, source: f.file[len(dir)+1:], line: f.line}
	case strings.HasPrefix(f.file, "/"):
		return resolved{ok: true, inOut: true, source: f.file, line: f.line}
	}
	return resolved{}
}

// ownResolved resolves a raw frame of the emitted file through the harness's own decoder.
// byteCols selects the conversion of V8's UTF-16 column into a byte column first.
func ownResolved(f frame, outJS string, lines [][]byte, sm *SMap, byteCols bool) resolved {
	if f.file != outJS {
		return resolved{}
	}
	col := f.col - 1
	if byteCols && f.line-1 < len(lines) {
		col = u16ToByte(lines[f.line-1], col)
	}
	s, ok := sm.Lookup(f.line-1, col)
	last := len(sm.sorted) > 0 && s == sm.sorted[len(sm.sorted)-1]
	if !ok {
		return resolved{inOut: true, last: last}
	}
	return resolved{ok: true, inOut: true, source: sm.Sources[s.Src], line: s.OrigLine, last: last}
}

// u16ToByte converts an offset in UTF-16 code units into a byte offset within line.
func u16ToByte(line []byte, u int) int {
	b, n := 0, 0
	for b < len(line) && n < u {
		r, sz := utf8.DecodeRune(line[b:])
		if r >= 0x10000 {
			n += 2
		} else {
			n++
		}
		b += sz
	}
	return b + (u - n)
}

// siteFrame returns the index of the throwing frame: after the leading frames of the probe helper
// (its deferred closure) and the runtime frames that raise the panic (prelude, GOROOT packages).
func siteFrame(rs []resolved) int {
	i := 0
	for i < len(rs) && rs[i].class() == "helper" {
		i++
	}
	for i < len(rs) {
		switch rs[i].class() {
		case "prelude", "goroot", "foreign":
			i++
			continue
		}
		return i
	}
	return -1
}

func (s *Site) accepts(r resolved) (ok, alt bool) {
	if !r.ok || filepath.Base(r.source) != s.File {
		return false, false
	}
	if r.line == s.Line {
		return true, false
	}
	for _, a := range s.Alt {
		if r.line == a {
			return true, true
		}
	}
	return false, false
}

// sweepStacks splits the output of a sweep run into the stack text of every probe.
func sweepStacks(stdout string) (map[int]string, bool) {
	out := map[int]string{}
	done := false
	cur, curN := []string(nil), -1
	for _, l := range strings.Split(stdout, "\n") {
		switch {
		case strings.HasPrefix(l, "STACK "):
			curN, _ = strconv.Atoi(strings.TrimPrefix(l, "STACK "))
			cur = nil
		case strings.HasPrefix(l, "END ") && curN >= 0:
			out[curN] = strings.Join(cur, "\n")
			curN = -1
		case strings.HasPrefix(l, "SWEEP-DONE"):
			done = true
		default:
			if curN >= 0 {
				cur = append(cur, l)
			}
		}
	}
	return out, done
}

type variantSpec struct {
	name   string
	minify bool
}

var variants = []variantSpec{{"plain", false}, {"minified", true}}

// progStats is what one program contributed to the evidence.
type progStats struct {
	compiled         bool
	mappings         int
	goMappings       int
	jsMappings       int
	sources          int
	bytesCompared    int
	probesNode       int
	probesOwn        int
	probesUncaught   int
	altAccepted      int
	framesCross      int
	distinct         map[string]bool
	kinds            map[string]bool
	ambiguousPos     int
	sample           any
	origColBeyond    int
	viaIncChecked    int
	colBeyondU16     int
	noPanic          int
	nodeLastSegQuirk int
}

type sourceInfo struct {
	path  string
	lines int
	ok    bool
}

type env struct {
	goroot, gopath string
}

var goEnvCache sync.Map

func goEnv(extra []string) env {
	ck := strings.Join(extra, "\x00")
	if v, ok := goEnvCache.Load(ck); ok {
		return v.(env)
	}
	e := goEnvUncached(extra)
	goEnvCache.Store(ck, e)
	return e
}

func goEnvUncached(extra []string) env {
	r := core.Exec("/", core.BaseEnv(extra...), time.Minute, "", "go", "env", "GOROOT", "GOPATH")
	ls := strings.Split(strings.TrimSpace(r.Stdout), "\n")
	e := env{}
	if len(ls) >= 2 {
		e.goroot, e.gopath = strings.TrimSpace(ls[0]), strings.TrimSpace(ls[1])
	}
	return e
}

// resolveSource finds the file a source name of the map stands for, following the documented
// naming: base name for files outside GOROOT/GOPATH (program and prelude files), "/<path>" for
// files under $GOROOT/src or $GOPATH/src, where gopherjs' own virtual file systems
// (github.com/gopherjs/gopherjs/{js,nosync} and the "gopherjs__"-prefixed overlay files) are mapped
// back to the repository.
func resolveSource(name, progDir, repo string, e env) []string {
	var cands []string
	add := func(p string) {
		if st, err := os.Stat(p); err == nil && !st.IsDir() {
			for _, c := range cands {
				if c == p {
					return
				}
			}
			cands = append(cands, p)
		}
	}
	if strings.HasPrefix(name, "/") {
		base := filepath.Base(name)
		if strings.HasPrefix(base, "gopherjs__") {
			add(filepath.Join(repo, "compiler/natives/src", filepath.Dir(name), strings.TrimPrefix(base, "gopherjs__")))
			return cands
		}
		if strings.HasPrefix(name, "/github.com/gopherjs/gopherjs/") {
			add(filepath.Join(repo, strings.TrimPrefix(name, "/github.com/gopherjs/gopherjs/")))
		}
		add(filepath.Join(e.goroot, "src", name))
		for _, ws := range filepath.SplitList(e.gopath) {
			add(filepath.Join(ws, "src", name))
		}
		return cands
	}
	if !strings.Contains(name, "/") {
		if strings.HasSuffix(name, ".js") {
			add(filepath.Join(repo, "compiler/prelude", name))
		}
		filepath.Walk(progDir, func(p string, info os.FileInfo, err error) error {
			if err == nil && !info.IsDir() && filepath.Base(p) == name {
				add(p)
			}
			return nil
		})
		return cands
	}
	add(filepath.Join(progDir, name))
	return cands
}

func countLines(b []byte) int {
	n := bytes.Count(b, []byte("\n"))
	if len(b) > 0 && b[len(b)-1] != '\n' {
		n++
	}
	return n
}

// goRegion returns the lines of a non-minified output that were produced by the Go code
// generator: everything from the first package on, without the verbatim .inc.js blocks (those and
// the prelude pass through esbuild only when a map is requested, which reformats them).
func goRegion(out []byte) []string {
	ls := strings.Split(string(out), "\n")
	start := -1
	for i, l := range ls {
		if strings.HasPrefix(l, "$packages[\"") || l == "\t(function() {" {
			start = i
			break
		}
	}
	if start < 0 {
		return nil
	}
	var res []string
	in := false
	for _, l := range ls[start:] {
		switch {
		case !in && l == "\t(function() {":
			in = true
			res = append(res, l)
		case in && l == "\t}).call($global);":
			in = false
			res = append(res, l)
		case !in:
			res = append(res, l)
		}
	}
	return res
}

func progBundle(p *GenProgram, extra map[string]string) map[string]string {
	m := map[string]string{}
	for k, v := range p.Files {
		m["src/"+k] = v
	}
	m["src/go.mod"] = "module prog\n\ngo 1.20\n"
	for k, v := range extra {
		m[k] = v
	}
	return m
}

// checkProgram runs every program-level oracle on one generated program.
func checkProgram(c *core.Ctx, idx int, p *GenProgram, sink *failSink, nUncaught int) progStats {
	st := progStats{distinct: map[string]bool{}, kinds: map[string]bool{}}
	dir := c.WriteProgram(&core.Program{Name: p.Name, Files: p.Files})
	if os.Getenv("VERIF_C19_KEEP") == "" {
		defer os.RemoveAll(dir)
	}
	var cenv []string
	if p.GopathSibling {
		// a GOPATH that is a string prefix of the project directory without containing it
		gp := strings.TrimRight(dir, "0123456789")
		gp = strings.TrimSuffix(gp, "-")
		os.MkdirAll(gp, 0o755)
		cenv = []string{"GOPATH=" + gp}
	}
	e := goEnv(cenv)
	r := c.Rand("probe-select/" + p.Name)
	for vi, v := range variants {
		ord := fmt.Sprintf("P%04d/%d", idx, vi)
		outJS := filepath.Join(dir, "out-"+v.name+".js")
		noJS := filepath.Join(dir, "nomap-"+v.name+".js")
		var cr, cn core.CompileRes
		if idx%4 == 0 {
			// two independent builds through the shared compile child
			cr = c.CompileJS(dir, core.CompileOpt{Minify: v.minify, MapFile: true, Out: outJS, Env: cenv})
			cn = c.CompileJS(dir, core.CompileOpt{Minify: v.minify, MapFile: false, Out: noJS, Env: cenv})
		} else {
			// one compilation, linked with and without a map (WriteCommandPackage's code path)
			args := []string{"c19build", "-o", outJS, "-nomap", noJS}
			if v.minify {
				args = append(args, "-minify")
			}
			x := core.Exec(dir, core.BaseEnv(cenv...), 5*time.Minute, "", c.Self, args...)
			cr = core.CompileRes{JS: outJS, OK: x.Exit == 0 && !x.TimedOut, Output: x.Stdout + x.Stderr, TimedOut: x.TimedOut}
			cn = cr
		}
		if cr.TimedOut || cn.TimedOut {
			c.Inconclusive("compile-timeout")
			return st
		}
		if !cr.OK || !cn.OK {
			c.Inconclusive("generated-program-rejected")
			if os.Getenv("VERIF_DEBUG") != "" {
				fmt.Fprintf(os.Stderr, "c19: %s rejected:\n%s\n%s\n", p.Name, cr.Output, cn.Output)
				for k, src := range p.Files {
					os.WriteFile(filepath.Join(os.TempDir(), "c19-rejected-"+strings.ReplaceAll(k, "/", "_")), []byte(src), 0o644)
				}
			}
			return st
		}
		st.compiled = true
		out, _ := os.ReadFile(outJS)
		nomap, _ := os.ReadFile(noJS)
		mapBytes, _ := os.ReadFile(outJS + ".map")
		bundle := func(extra map[string]string) map[string]string {
			m := progBundle(p, extra)
			m["variant.txt"] = v.name + "\n"
			m["out.js.map"] = string(mapBytes)
			return m
		}

		// (i) no hint byte in any emitted file
		for _, f := range []struct {
			n string
			b []byte
		}{{"with map", out}, {"without map", nomap}} {
			if i := bytes.IndexByte(f.b, hintMagic); i >= 0 {
				lo := i - 60
				if lo < 0 {
					lo = 0
				}
				sink.add(mkFail(ord+"/i", "hint-byte-in-output/"+v.name,
					fmt.Sprintf("%s (%s, %s): emitted JavaScript contains the hint magic byte 0x08 at offset %d: …%q…", p.Name, v.name, f.n, i, f.b[lo:min(i+40, len(f.b))]),
					bundle(map[string]string{"out.js": string(f.b)})))
			}
		}

		// (ii) requesting a map changes nothing but the trailer
		trailer := "//# sourceMappingURL=" + filepath.Base(outJS) + ".map\n"
		body := out
		if !bytes.HasSuffix(out, []byte(trailer)) {
			sink.add(mkFail(ord+"/ii", "map-trailer-missing/"+v.name, fmt.Sprintf("%s (%s): output built with a map does not end with %q", p.Name, v.name, trailer), bundle(nil)))
		} else {
			body = out[:len(out)-len(trailer)]
		}
		if v.minify {
			st.bytesCompared += len(body)
			if !bytes.Equal(body, nomap) {
				sink.add(mkFail(ord+"/ii", "map-changes-code/"+v.name,
					fmt.Sprintf("%s (%s): building with a source map changes the emitted code beyond the sourceMappingURL trailer: %s", p.Name, v.name, firstByteDiff(body, nomap)),
					bundle(map[string]string{"out.js": string(out), "nomap.js": string(nomap)})))
			}
		} else {
			a, b := goRegion(body), goRegion(nomap)
			for _, l := range a {
				st.bytesCompared += len(l) + 1
			}
			if len(a) == 0 || strings.Join(a, "\n") != strings.Join(b, "\n") {
				sink.add(mkFail(ord+"/ii", "map-changes-code/"+v.name,
					fmt.Sprintf("%s (%s): building with a source map changes the code emitted for Go packages: %s", p.Name, v.name, firstByteDiff([]byte(strings.Join(a, "\n")), []byte(strings.Join(b, "\n")))),
					bundle(map[string]string{"out.js": string(out), "nomap.js": string(nomap)})))
			}
		}

		// (iii) the map decodes; every mapping is in range on both sides
		sm, err := DecodeMap(mapBytes)
		if err != nil {
			sink.add(mkFail(ord+"/iii", "map-undecodable/"+v.name, fmt.Sprintf("%s (%s): %v", p.Name, v.name, err), bundle(nil)))
			continue
		}
		if sm.File != filepath.Base(outJS) {
			sink.add(mkFail(ord+"/iii", "map-file-field/"+v.name, fmt.Sprintf("%s (%s): map names file %q, output is %q", p.Name, v.name, sm.File, filepath.Base(outJS)), bundle(nil)))
		}
		lines := bytes.Split(out, []byte("\n"))
		st.mappings += len(sm.Segs)
		st.sources += len(sm.Sources)
		srcInfo := make([]sourceInfo, len(sm.Sources))
		for i, name := range sm.Sources {
			cands := resolveSource(name, dir, c.Repo, e)
			switch len(cands) {
			case 1:
				b, _ := os.ReadFile(cands[0])
				srcInfo[i] = sourceInfo{path: cands[0], lines: countLines(b), ok: true}
			case 0:
				key := "source-missing/" + name
				if p.GopathSibling && !strings.HasPrefix(name, "/") && strings.Contains(name, "/") {
					key = "source-missing/project-dir-has-gopath-as-string-prefix"
				}
				sink.add(mkFail(ord+"/iii/"+name, key,
					fmt.Sprintf("%s (%s): the map's source %q names no existing file (program dir %s, GOROOT %s, GOPATH %s, repository %s)", p.Name, v.name, name, dir, e.goroot, e.gopath, c.Repo),
					bundle(nil)))
			default:
				c.Count("ambiguous_source_names", 1)
			}
		}
		var prev Seg
		beyondU16 := 0
		for i, s := range sm.Segs {
			if i > 0 && (s.GenLine < prev.GenLine || s.GenLine == prev.GenLine && s.GenCol < prev.GenCol) {
				sink.add(mkFail(ord+"/iii", "map-unsorted/"+v.name, fmt.Sprintf("%s (%s): segment %d precedes its predecessor", p.Name, v.name, i), bundle(nil)))
				break
			}
			if i > 0 && s.GenLine == prev.GenLine && s.GenCol == prev.GenCol && (s.HasSrc != prev.HasSrc || s.Src != prev.Src || s.OrigLine != prev.OrigLine) {
				st.ambiguousPos++
			}
			prev = s
			if s.GenLine >= len(lines) || s.GenCol > len(lines[s.GenLine]) {
				ll := -1
				if s.GenLine < len(lines) {
					ll = len(lines[s.GenLine])
				}
				sink.add(mkFail(ord+"/iii", "generated-position-out-of-range/"+v.name,
					fmt.Sprintf("%s (%s): mapping %d points at generated %d:%d, the file has %d lines and that line has %d bytes", p.Name, v.name, i, s.GenLine+1, s.GenCol, len(lines), ll),
					bundle(map[string]string{"out.js": string(out)})))
				break
			}
			if s.GenCol > u16len(lines[s.GenLine]) {
				beyondU16++
			}
			if !s.HasSrc {
				continue
			}
			if strings.HasSuffix(sm.Sources[s.Src], ".js") {
				st.jsMappings++
			} else {
				st.goMappings++
			}
			si := srcInfo[s.Src]
			if si.ok && (s.OrigLine < 1 || s.OrigLine > si.lines) {
				sink.add(mkFail(ord+"/iii", "original-line-out-of-range/"+sm.Sources[s.Src],
					fmt.Sprintf("%s (%s): mapping %d (generated %d:%d) points at line %d of %s, which has %d lines", p.Name, v.name, i, s.GenLine+1, s.GenCol, s.OrigLine, si.path, si.lines),
					bundle(nil)))
				break
			}
		}
		if beyondU16 > 0 {
			st.colBeyondU16 += beyondU16
			c.Count("mappings_beyond_utf16_line_length["+v.name+"]", beyondU16)
		}

		// (iv) right line
		mapped := c.RunNode(outJS, core.NodeOpt{Args: []string{"--enable-source-maps"}, Timeout: 5 * time.Minute})
		raw := c.RunNode(outJS, core.NodeOpt{Timeout: 5 * time.Minute})
		if mapped.TimedOut || raw.TimedOut {
			c.Inconclusive("node-timeout")
			continue
		}
		ms, mdone := sweepStacks(mapped.Stdout)
		rs, rdone := sweepStacks(raw.Stdout)
		if !mdone || !rdone {
			c.Inconclusive("sweep-incomplete")
			if os.Getenv("VERIF_DEBUG") != "" {
				fmt.Fprintf(os.Stderr, "c19: %s (%s) sweep incomplete:\n%s\n%s\n", p.Name, v.name, tailS(mapped.Stderr, 1500), tailS(raw.Stderr, 1500))
			}
			continue
		}
		ev := &evalCtx{c: c, p: p, v: v, dir: dir, outJS: outJS, lines: lines, sm: sm, sink: sink, st: &st, bundle: bundle}
		for _, pr := range p.Probes {
			mt, ok1 := ms[pr.N]
			rt, ok2 := rs[pr.N]
			if !ok1 || !ok2 || strings.HasPrefix(mt, "NO-PANIC") || strings.HasPrefix(rt, "NO-PANIC") {
				st.noPanic++
				c.Inconclusive("probe-did-not-throw")
				continue
			}
			ev.eval(fmt.Sprintf("%s/p%04d", ord, pr.N), pr, mt, rt, "sweep")
		}
		// uncaught mode: the thrown error's own stack, printed by node
		for i := 0; i < nUncaught && len(p.Probes) > 0; i++ {
			pr := p.Probes[r.Intn(len(p.Probes))]
			ev.uncaught(fmt.Sprintf("%s/u%04d", ord, pr.N), pr, "SEL="+strconv.Itoa(pr.N))
		}
		var inits []*Site
		for _, s := range p.Sites {
			if s.InitOnly {
				inits = append(inits, s)
			}
		}
		if len(inits) > 0 && nUncaught > 0 {
			s := inits[r.Intn(len(inits))]
			ev.uncaught(fmt.Sprintf("%s/i%04d", ord, s.ID), &Probe{N: -s.ID, Site: s, Call: "(package initialisation)"}, "ISEL="+strconv.Itoa(s.ID))
		}
		if st.sample == nil && len(p.Probes) > 0 {
			pr := p.Probes[len(p.Probes)/2]
			fr := parseFrames(ms[pr.N])
			top := []string{}
			for i := 0; i < len(fr) && i < 6; i++ {
				top = append(top, fr[i].text)
			}
			st.sample = map[string]any{"program": p.Name, "template": p.Template, "variant": v.name, "probe": pr.Call, "site_kind": pr.Site.Kind,
				"expected": fmt.Sprintf("%s:%d", pr.Site.File, pr.Site.Line), "node_frames": top, "mappings": len(sm.Segs), "sources": sm.Sources}
		}
	}
	return st
}

type evalCtx struct {
	c      *core.Ctx
	p      *GenProgram
	v      variantSpec
	dir    string
	outJS  string
	lines  [][]byte
	sm     *SMap
	sink   *failSink
	st     *progStats
	bundle func(map[string]string) map[string]string
}

func (ev *evalCtx) uncaught(ord string, pr *Probe, envKV string) {
	mapped := ev.c.RunNode(ev.outJS, core.NodeOpt{Args: []string{"--enable-source-maps"}, Env: []string{envKV}, Timeout: 3 * time.Minute})
	raw := ev.c.RunNode(ev.outJS, core.NodeOpt{Env: []string{envKV}, Timeout: 3 * time.Minute})
	if mapped.TimedOut || raw.TimedOut {
		ev.c.Inconclusive("node-timeout")
		return
	}
	if mapped.Exit == 0 || raw.Exit == 0 || !strings.Contains(mapped.Stderr, "\n    at ") {
		ev.c.Inconclusive("uncaught-probe-did-not-throw")
		return
	}
	ev.st.probesUncaught++
	ev.eval(ord, pr, mapped.Stderr, raw.Stderr, "uncaught "+envKV)
}

// eval judges one probe from the stack printed by node with source maps (independent consumer)
// and the raw stack resolved through the harness's decoder.
func (ev *evalCtx) eval(ord string, pr *Probe, mappedText, rawText, mode string) {
	s := pr.Site
	mf, rf := parseFrames(mappedText), parseFrames(rawText)
	var nodeR, ownR, ownB []resolved
	for _, f := range mf {
		nodeR = append(nodeR, nodeResolved(f, ev.dir, ev.outJS))
	}
	for _, f := range rf {
		ownR = append(ownR, ownResolved(f, ev.outJS, ev.lines, ev.sm, false))
		ownB = append(ownB, ownResolved(f, ev.outJS, ev.lines, ev.sm, true))
	}
	flat := "nonblocking"
	if s.Blocking {
		flat = "blocking"
	}
	describe := func() string {
		var b strings.Builder
		fmt.Fprintf(&b, "program %s (template %s), %s build, %s; call %s; site #%d kind=%s form=%s %s, statement starts at %s:%d", ev.p.Name, ev.p.Template, ev.v.name, mode, pr.Call, s.ID, s.Kind, s.Form, flat, s.File, s.Line)
		if len(s.Alt) > 0 {
			fmt.Fprintf(&b, " (also accepted: line %v of the enclosing construct)", s.Alt)
		}
		b.WriteString("\nframes (node --enable-source-maps | raw frame -> own decoder):\n")
		for i := 0; i < len(mf) && i < 12; i++ {
			own := ""
			if i < len(rf) {
				own = fmt.Sprintf("%s -> %s", rf[i].text, ownR[i])
			}
			fmt.Fprintf(&b, "  %s | %s\n", mf[i].text, own)
		}
		return b.String()
	}
	files := func() map[string]string {
		return ev.bundle(map[string]string{"stack.mapped.txt": mappedText, "stack.raw.txt": rawText,
			"cmd.sh": fmt.Sprintf("# build src/ with gopherjs (%s, with source map), then:\n%s node --enable-source-maps out.js\n", ev.v.name, strings.TrimPrefix(mode, "uncaught "))})
	}

	// the two consumers must agree frame by frame
	if len(mf) == len(rf) {
		for i := range mf {
			if !nodeR[i].inOut && !ownR[i].inOut {
				continue
			}
			if ownR[i].last && !ownR[i].ok {
				// node v20 mis-parses a source-less segment at the very end of "mappings" (its
				// parser does not see a separator there) and resolves frames in the trailing
				// glue code to the previous source position; that is node's business
				ev.st.nodeLastSegQuirk++
				continue
			}
			ev.st.framesCross++
			if nodeR[i].ok != ownR[i].ok || nodeR[i].ok && (filepath.Base(nodeR[i].source) != filepath.Base(ownR[i].source) || nodeR[i].line != ownR[i].line) {
				ev.sink.add(mkFail(ord+"/x", "consumers-disagree/"+ev.v.name,
					fmt.Sprintf("frame %d resolves to %s in node and to %s through the harness decoder\n%s", i, nodeR[i], ownR[i], describe()), files()))
				break
			}
		}
	} else {
		ev.c.Count("frame_lists_of_different_length", 1)
	}

	judge := func(who string, rs []resolved) (string, resolved) {
		i := siteFrame(rs)
		if i < 0 {
			return "no-frame", resolved{}
		}
		r := rs[i]
		ok, alt := s.accepts(r)
		switch {
		case ok && alt:
			ev.st.altAccepted++
			return "ok", r
		case ok:
			return "ok", r
		case !r.ok:
			return "unmapped", r
		case filepath.Base(r.source) != s.File:
			return "wrongfile", r
		}
		return "wrongline", r
	}
	nv, nr := judge("node", nodeR)
	ov, or := judge("own", ownR)
	ev.st.probesNode++
	ev.st.probesOwn++
	tuple := fmt.Sprintf("%s|%s|%s|%s", s.Kind, s.Form, flat, ev.v.name)
	ev.st.distinct[tuple] = true
	ev.st.kinds[s.Kind] = true
	if nv == "ok" && ov == "ok" {
		if s.ViaInc > 0 {
			ev.st.viaIncChecked++
			found := false
			for _, r := range nodeR {
				if r.ok && filepath.Base(r.source) == ev.p.IncFile && r.line == s.ViaInc {
					found = true
				}
			}
			if !found {
				ev.sink.add(mkFail(ord, "incjs-frame/"+ev.v.name,
					fmt.Sprintf("no frame resolves to %s:%d (the call into the Go callback inside the .inc.js file)\n%s", ev.p.IncFile, s.ViaInc, describe()), files()))
			}
		}
		return
	}
	verdict, got := nv, nr
	who := "node --enable-source-maps"
	if nv == "ok" {
		verdict, got, who = ov, or, "the harness decoder on the raw frame"
	}
	// is the miss explained by the generated columns being byte offsets instead of UTF-16 units?
	if bv, _ := judge("own-bytes", ownB); bv == "ok" {
		ev.sink.add(mkFail(ord, "utf16-columns/"+ev.v.name,
			fmt.Sprintf("%s resolves the throwing frame to %s instead of %s:%d; resolving the same frame with its column converted from UTF-16 units to a byte offset gives the right line: generated columns in the map are byte offsets, consumers count UTF-16 code units\n%s", who, got, s.File, s.Line, describe()),
			files()))
		return
	}
	ev.sink.add(mkFail(ord, fmt.Sprintf("throwline/%s/%s/%s", s.Kind, flat, verdict),
		fmt.Sprintf("%s resolves the throwing frame to %s, expected %s:%d (%s)\n%s", who, got, s.File, s.Line, verdict, describe()), files()))
}

func firstByteDiff(a, b []byte) string {
	n := len(a)
	if len(b) < n {
		n = len(b)
	}
	i := 0
	for i < n && a[i] == b[i] {
		i++
	}
	lo := i - 40
	if lo < 0 {
		lo = 0
	}
	return fmt.Sprintf("first difference at offset %d (lengths %d / %d): with map …%q… | without …%q…", i, len(a), len(b), a[lo:min(i+40, len(a))], b[lo:min(i+40, len(b))])
}

func min(a, b int) int {
	if a < b {
		return a
	}
	return b
}

func tailS(s string, n int) string {
	if len(s) > n {
		return "…" + s[len(s)-n:]
	}
	return s
}
