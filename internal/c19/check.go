// Package c19 monitors property C19: source maps are complete, in range and point at the right
// Go lines.
package c19

import (
	"bytes"
	"fmt"
	"os"
	"path/filepath"
	"sort"
	"strings"
	"sync"
	"time"

	"github.com/gopherjs/gopherjs/compiler"

	"verif/internal/core"
)

// Run is the C19 check.
func Run(c *core.Ctx) int {
	sink := &failSink{}
	t0 := time.Now()
	only := os.Getenv("VERIF_C19_ONLY") // development aid: "streams" or "programs"
	ss := &streamStats{classes: map[string]int{}}
	if only != "programs" && only != "sentinels" {
		ss = runStreams(c, sink)
	}
	t1 := time.Now()
	ps := &progTotals{templates: map[string]int{}}
	ps.distinct, ps.kinds = map[string]bool{}, map[string]bool{}
	if only != "streams" {
		ps = runPrograms(c, sink)
	}
	if os.Getenv("VERIF_DEBUG") != "" {
		fmt.Fprintf(os.Stderr, "c19: streams %.1fs programs %.1fs\n", t1.Sub(t0).Seconds(), time.Since(t1).Seconds())
	}
	sink.report(c)

	evaluations := ss.filterRuns + ss.wsStreams + ps.probesNode + ps.probesOwn + ps.mappings
	distinct := len(ps.distinct)
	extra := map[string]any{
		"stream_level": map[string]any{
			"streams":            ss.streams,
			"streams_with_hints": ss.streamsWithHints,
			"hints_written":      ss.hints,
			"position_hints":     ss.posHints,
			"identifier_hints":   ss.identHints,
			"hints_whose_payload_or_size_contains_0x08": ss.hintsWithMagicInside,
			"chunkings_written":                         ss.filterRuns,
			"all_2_partitions_streams":                  ss.all2part,
			"mappings_compared":                         ss.mappingsCompared,
			"output_bytes_compared":                     ss.bytesCompared,
			"streams_with_multibyte_code":               ss.multibyte,
			"generated_column_unit_observed":            ss.convention,
			"consumer_lookups_utf16":                    ss.lookups,
			"whitespace_streams":                        ss.wsStreams,
			"whitespace_hints_tracked":                  ss.wsHints,
			"whitespace_bytes_removed":                  ss.wsRemoved,
			"source_name_classes":                       ss.classes,
		},
		"program_level": map[string]any{
			"programs_compiled":                           ps.programs,
			"of_which_fixed_sentinel_programs":            ps.sentinels,
			"program_templates":                           ps.templates,
			"builds":                                      ps.programs * 4,
			"mappings_decoded":                            ps.mappings,
			"go_mappings":                                 ps.goMappings,
			"js_mappings":                                 ps.jsMappings,
			"code_bytes_compared_map_vs_nomap":            ps.bytesCompared,
			"probes_resolved_by_node":                     ps.probesNode,
			"probes_resolved_by_own_decoder":              ps.probesOwn,
			"uncaught_mode_probes":                        ps.probesUncaught,
			"frames_cross_checked_node_vs_own":            ps.framesCross,
			"probes_accepted_on_enclosing_construct_line": ps.altAccepted,
			"incjs_callback_frames_checked":               ps.viaIncChecked,
			"distinct_statement_kinds":                    sortedKeys(ps.kinds),
			"positions_with_conflicting_mappings":         ps.ambiguousPos,
			"mappings_beyond_utf16_line_length":           ps.colBeyondU16,
			"frames_skipped_node_final_segment_quirk":     ps.nodeLastSegQuirk,
			"probes_that_did_not_throw":                   ps.noPanic,
		},
	}
	for _, s := range ps.samples {
		c.Sample(s)
	}
	for _, s := range ss.samples {
		c.Sample(s)
	}
	floor := 60
	return c.Finish("exploration", evaluations, distinct, floor,
		"stream level: random streams of code chunks (ASCII, multi-byte UTF-8, newline runs, empty chunks) interleaved with position/identifier hints from the real encoder, written through the real Filter under all 2-partitions (short streams) and random k-partitions that never split a hint; output bytes and decoded mappings (own VLQ decoder) compared with an independent line/column model; the same for JS-like token streams after the real removeWhitespace. program level: generated throwline programs built plain and minified with and without map; no 0x08 byte, map/no-map identity, every mapping in range on both sides, and for every site the throwing frame resolved by node --enable-source-maps and by the own decoder must be the first line of the site's statement. distinct_nontrivial = distinct (statement kind, function form, blocking, variant) tuples probed at run time",
		extra, []string{
			"node v20's --enable-source-maps is an independent, correct source-map consumer (it is cross-checked frame by frame against the harness's own decoder)",
			"the line of a frame is what the property speaks about; generated columns are compared with the unit the filter is observed to use and only their consequences (wrong line, position outside the line) are judged",
			"for `else if`, `case` and select-case conditions the line of the enclosing if/switch/select is accepted as well as the clause's own line",
			"in non-minified builds the prelude and .inc.js blocks pass through esbuild only when a map is requested (documented in WriteJS); the map/no-map identity is therefore judged on the Go-generated region there and on the whole file in minified builds",
			"original file names: base name outside GOROOT/GOPATH, path below $GOROOT/src or $GOPATH/src otherwise; gopherjs' virtual files (gopherjs__*.go overlays, github.com/gopherjs/gopherjs/js) are looked up in the repository",
		})
}

func sortedKeys(m map[string]bool) []string {
	out := make([]string, 0, len(m))
	for k := range m {
		out = append(out, k)
	}
	sort.Strings(out)
	return out
}

// ---------------------------------------------------------------------------------------------

type streamStats struct {
	streams, streamsWithHints, hints, posHints, identHints int
	hintsWithMagicInside                                   int
	filterRuns, all2part, mappingsCompared, bytesCompared  int
	multibyte, lookups                                     int
	wsStreams, wsHints, wsRemoved                          int
	convention                                             string
	classes                                                map[string]int
	samples                                                []any
}

func (a *streamStats) add(b *streamStats) {
	a.streams += b.streams
	a.streamsWithHints += b.streamsWithHints
	a.hints += b.hints
	a.posHints += b.posHints
	a.identHints += b.identHints
	a.hintsWithMagicInside += b.hintsWithMagicInside
	a.filterRuns += b.filterRuns
	a.all2part += b.all2part
	a.mappingsCompared += b.mappingsCompared
	a.bytesCompared += b.bytesCompared
	a.multibyte += b.multibyte
	a.lookups += b.lookups
	a.wsStreams += b.wsStreams
	a.wsHints += b.wsHints
	a.wsRemoved += b.wsRemoved
	for k, v := range b.classes {
		a.classes[k] += v
	}
}

func describeItems(items []item) string {
	var b strings.Builder
	for _, it := range items {
		if it.hint == nil {
			fmt.Fprintf(&b, "code %q\n", it.code)
		} else if it.hint.ident {
			fmt.Fprintf(&b, "ident-hint pos=%d orig=%q (%d bytes)\n", it.hint.pos, clipS(it.hint.orig, 40), len(it.hint.enc))
		} else {
			fmt.Fprintf(&b, "pos-hint pos=%d (% x)\n", it.hint.pos, it.hint.enc)
		}
	}
	return b.String()
}

func describeFS(m *fsModel) string {
	var b strings.Builder
	fmt.Fprintf(&b, "goroot=%s gopath=%s\n", m.goroot, m.gopath)
	for _, f := range m.files {
		fmt.Fprintf(&b, "file %s base=%d size=%d lines=%v\n", f.name, f.base, f.size, f.lines)
	}
	return b.String()
}

// calibrate observes which unit the filter uses for generated columns.
func calibrate(c *core.Ctx, sink *failSink) string {
	r := c.Rand("calibrate")
	m := newFSModel(r, false)
	h := hintSpec{enc: compiler.VerifPosHint(token1(m)), pos: token1(m)}
	items := []item{{code: []byte("é😀")}, {hint: &h}, {code: []byte("x")}}
	stream, _ := flatten(items)
	obs := runFilter(m, stream, nil, false)
	if obs.err != "" || len(obs.tuples) != 1 {
		sink.add(mkFail("0000/calibrate", "stream/calibration", "calibration stream (\"é😀\" + position hint + \"x\") did not produce exactly one mapping: "+obs.err, nil))
		return "unknown"
	}
	switch obs.tuples[0].GenCol {
	case 6:
		return "bytes"
	case 3:
		return "utf16"
	case 2:
		return "codepoints"
	}
	sink.add(mkFail("0000/calibrate", "stream/calibration", fmt.Sprintf("calibration stream: generated column %d is neither the byte offset 6 nor the UTF-16 offset 3", obs.tuples[0].GenCol), nil))
	return "unknown"
}

func runStreams(c *core.Ctx, sink *failSink) *streamStats {
	total := &streamStats{classes: map[string]int{}}
	total.convention = calibrate(c, sink)
	nStreams := c.N(20000, 2000000)
	nWS := c.N(6000, 400000)
	const batch = 500
	nb := (nStreams + batch - 1) / batch
	nwb := (nWS + batch - 1) / batch
	var mu sync.Mutex
	c.Parallel(nb+nwb, func(bi int) {
		st := &streamStats{classes: map[string]int{}}
		if bi < nb {
			streamBatch(c, sink, st, bi, batch, total.convention)
		} else {
			wsBatch(c, sink, st, bi-nb, batch, total.convention)
		}
		mu.Lock()
		total.add(st)
		if (bi == 0 || bi == nb) && len(st.samples) > 0 {
			total.samples = append(total.samples, st.samples[0])
		}
		mu.Unlock()
	})
	sort.Slice(total.samples, func(i, j int) bool { return fmt.Sprint(total.samples[i]) < fmt.Sprint(total.samples[j]) })
	sourceNameExperiment(c, sink, total)
	return total
}

func expectedFor(res modelResult, convention string) []mapTuple {
	if convention == "utf16" {
		return append([]mapTuple(nil), res.u16Cols...)
	}
	return append([]mapTuple(nil), res.byteCols...)
}

func streamBatch(c *core.Ctx, sink *failSink, st *streamStats, bi, n int, convention string) {
	r := c.Rand(fmt.Sprint("stream/", bi))
	m := newFSModel(r, false)
	hp := newHintPool(r, m, 160, 60)
	for si := 0; si < n; si++ {
		items := genStream(r, hp)
		localMap := r.Intn(6) == 0
		stream, cutPoints := flatten(items)
		res := runModel(m, items, localMap)
		exp := expectedFor(res, convention)
		sortTuples(exp)
		st.streams++
		nh := 0
		for _, it := range items {
			if it.hint != nil {
				nh++
				if it.hint.ident {
					st.identHints++
				} else {
					st.posHints++
				}
				if bytes.IndexByte(it.hint.enc[1:], hintMagic) >= 0 {
					st.hintsWithMagicInside++
				}
				if f, _, _, ok := m.position(it.hint.pos); ok {
					st.classes[f.class]++
				} else {
					st.classes["invalid-position"]++
				}
			}
		}
		st.hints += nh
		if nh > 0 {
			st.streamsWithHints++
		}
		if len(res.out) != u16len(res.out) {
			st.multibyte++
		}
		cs := chunkings(r, cutPoints)
		if len(cutPoints) > 0 && len(cutPoints) <= 24 {
			st.all2part++
		}
		ord := fmt.Sprintf("0001/%06d/%04d", bi, si)
		bundle := func(cut []int, obs obsResult) map[string]string {
			got := append([]mapTuple(nil), obs.tuples...)
			return map[string]string{
				"stream.items.txt": describeItems(items), "stream.bin": string(stream), "fileset.txt": describeFS(m),
				"chunking.txt": fmt.Sprintf("cuts at byte offsets %v of %d stream bytes; localMap=%v\n", cut, len(stream), localMap),
				"expected.txt": fmt.Sprintf("output %q\nmappings %v\n", res.out, exp),
				"observed.txt": fmt.Sprintf("output %q\nmappings %v\nerror %q\n", obs.out, got, obs.err),
			}
		}
		var whole obsResult
		for ci, cut := range cs {
			obs := runFilter(m, stream, cut, localMap)
			st.filterRuns++
			if ci == 0 {
				whole = obs
			}
			if obs.err != "" {
				key := "stream/filter-error"
				if strings.Contains(obs.err, "io.Writer contract") {
					key = "stream/write-count"
				}
				sink.add(mkFail(ord, key, fmt.Sprintf("stream %d/%d written with cuts %v: %s", bi, si, cut, obs.err), bundle(cut, obs)))
				break
			}
			st.bytesCompared += len(obs.out)
			if !bytes.Equal(obs.out, res.out) {
				sink.add(mkFail(ord, "stream/output-bytes", fmt.Sprintf("stream %d/%d written with cuts %v: output differs from the hint-free bytes: %s", bi, si, cut, firstByteDiff(obs.out, res.out)), bundle(cut, obs)))
				break
			}
			got := append([]mapTuple(nil), obs.tuples...)
			sortTuples(got)
			st.mappingsCompared += len(got)
			if !tuplesEqual(exp, got) {
				key := "stream/mappings"
				if ci > 0 && tuplesEqualSorted(whole.tuples, exp) {
					key = "stream/mappings-depend-on-chunking"
				}
				sink.add(mkFail(ord, key, fmt.Sprintf("stream %d/%d written with cuts %v (columns in %s): %s", bi, si, cut, convention, firstTupleDiff(exp, got)), bundle(cut, obs)))
				break
			}
		}
		// consumer's view (UTF-16 columns, as V8 and browsers count): the character right after a
		// hint must resolve to that hint's original position
		if whole.err == "" && whole.smap != nil && tuplesEqualSorted(whole.tuples, exp) {
			posCount := map[[2]int]int{}
			for _, t := range res.byteCols {
				posCount[[2]int{t.GenLine, t.GenCol}]++
			}
			for i, bt := range res.byteCols {
				if res.follow[i] < 0 || posCount[[2]int{bt.GenLine, bt.GenCol}] != 1 {
					continue
				}
				ut := res.u16Cols[i]
				st.lookups++
				seg, ok := whole.smap.Lookup(ut.GenLine-1, ut.GenCol)
				good := ok == (bt.Src != "")
				if ok && good {
					good = whole.smap.Sources[seg.Src] == bt.Src && seg.OrigLine == bt.OLine
				}
				if !good {
					gotS := "(unmapped)"
					if ok {
						gotS = fmt.Sprintf("%s:%d", whole.smap.Sources[seg.Src], seg.OrigLine)
					}
					sink.add(mkFail(fmt.Sprintf("%s/%06d", ord, len(stream)), "stream/utf16-columns",
						fmt.Sprintf("stream %d/%d: the character following hint #%d is at generated %d:%d in UTF-16 units (byte offset %d); looking that position up in the map gives %s, the hint says %s:%d — generated columns are byte offsets, consumers count UTF-16 code units", bi, si, i, ut.GenLine, ut.GenCol, bt.GenCol, gotS, bt.Src, bt.OLine),
						bundle(nil, whole)))
					break
				}
			}
		}
		if len(st.samples) == 0 && nh >= 3 && len(res.out) > 8 {
			st.samples = append(st.samples, map[string]any{"stream_items": strings.Split(strings.TrimSpace(clipS(describeItems(items), 900)), "\n"),
				"chunkings_tried": len(cs), "expected_mappings": fmt.Sprint(exp)})
		}
	}
}

func tuplesEqualSorted(a, b []mapTuple) bool {
	x := append([]mapTuple(nil), a...)
	y := append([]mapTuple(nil), b...)
	sortTuples(x)
	sortTuples(y)
	return tuplesEqual(x, y)
}

// wsBatch drives the real removeWhitespace.
func wsBatch(c *core.Ctx, sink *failSink, st *streamStats, bi, n int, convention string) {
	r := c.Rand(fmt.Sprint("ws/", bi))
	m := newFSModel(r, false)
	hp := newHintPool(r, m, 120, 40)
	byEnc := map[string]*hintSpec{}
	for i := range hp.pos {
		byEnc[string(hp.pos[i].enc)] = &hp.pos[i]
	}
	for i := range hp.ident {
		byEnc[string(hp.ident[i].enc)] = &hp.ident[i]
	}
	for si := 0; si < n; si++ {
		toks := genWSStream(r, hp)
		var in []byte
		for _, t := range toks {
			in = append(in, t.text...)
		}
		st.wsStreams++
		ord := fmt.Sprintf("0002/%06d/%04d", bi, si)
		var out []byte
		perr := ""
		func() {
			defer func() {
				if e := recover(); e != nil {
					perr = fmt.Sprint(e)
				}
			}()
			out = compiler.VerifRemoveWhitespace(append([]byte(nil), in...), true)
			if same := compiler.VerifRemoveWhitespace(append([]byte(nil), in...), false); !bytes.Equal(same, in) {
				perr = "removeWhitespace(…, false) is not the identity"
			}
		}()
		bundle := map[string]string{"input.bin": string(in), "input.quoted.txt": fmt.Sprintf("%q\n", in), "output.quoted.txt": fmt.Sprintf("%q\n", out), "fileset.txt": describeFS(m)}
		if perr != "" {
			sink.add(mkFail(ord, "ws/panic", fmt.Sprintf("whitespace stream %d/%d: removeWhitespace failed: %s", bi, si, perr), bundle))
			continue
		}
		st.wsRemoved += len(in) - len(out)
		_, hin, _, err1 := parseHints(in)
		_, hout, _, err2 := parseHints(out)
		if err1 != nil || err2 != nil {
			sink.add(mkFail(ord, "ws/hints-damaged", fmt.Sprintf("whitespace stream %d/%d: hints cannot be re-parsed after removal: %v %v", bi, si, err1, err2), bundle))
			continue
		}
		st.wsHints += len(hin)
		same := len(hin) == len(hout)
		for i := 0; same && i < len(hin); i++ {
			same = bytes.Equal(hin[i], hout[i])
		}
		if !same {
			sink.add(mkFail(ord, "ws/hints-lost", fmt.Sprintf("whitespace stream %d/%d: %d hints before removeWhitespace, %d after (or their bytes changed)", bi, si, len(hin), len(hout)), bundle))
			continue
		}
		ain, sin, e1 := canon(in)
		aout, sout, e2 := canon(out)
		if e1 != nil || e2 != nil {
			sink.add(mkFail(ord, "ws/tokens-changed", fmt.Sprintf("whitespace stream %d/%d: cannot tokenise: %v %v", bi, si, e1, e2), bundle))
			continue
		}
		if strings.Join(ain, "\x00") != strings.Join(aout, "\x00") {
			k := 0
			for k < len(ain) && k < len(aout) && ain[k] == aout[k] {
				k++
			}
			sink.add(mkFail(ord, "ws/tokens-changed", fmt.Sprintf("whitespace stream %d/%d: the sequence of tokens and hints changed at atom %d (hints must stay in place relative to the surviving tokens)", bi, si, k), bundle))
			continue
		}
		// tokens that needed a separator still have one
		prevSig := -1
		bad := false
		for i, a := range ain {
			if a[0] == hintMagic {
				continue
			}
			if prevSig >= 0 && sin[i] && !sout[i] {
				x, y := ain[prevSig], a
				lx, fy := x[len(x)-1], y[0]
				if isIdentByte(lx) && isIdentByte(fy) || lx == '-' && fy == '-' {
					sink.add(mkFail(ord, "ws/separator-lost", fmt.Sprintf("whitespace stream %d/%d: tokens %q and %q were separated and are glued together after removeWhitespace", bi, si, x, y), bundle))
					bad = true
					break
				}
			}
			prevSig = i
		}
		if bad {
			continue
		}
		// the minified stream through the filter: every mapping sits where the model says, i.e.
		// directly before the same following token
		var items []item
		for i := 0; i < len(out); {
			if out[i] == hintMagic {
				sz := 3 + (int(out[i+1])<<8 | int(out[i+2]))
				items = append(items, item{hint: byEnc[string(out[i:i+sz])]})
				i += sz
				continue
			}
			j := i
			for j < len(out) && out[j] != hintMagic {
				j++
			}
			items = append(items, item{code: out[i:j]})
			i = j
		}
		stream, cutPoints := flatten(items)
		res := runModel(m, items, false)
		exp := expectedFor(res, convention)
		sortTuples(exp)
		for ci, cut := range chunkings(r, cutPoints) {
			if ci > 4 {
				break
			}
			obs := runFilter(m, stream, cut, false)
			st.filterRuns++
			got := append([]mapTuple(nil), obs.tuples...)
			sortTuples(got)
			st.mappingsCompared += len(got)
			if obs.err != "" || !bytes.Equal(obs.out, res.out) || !tuplesEqual(exp, got) {
				sink.add(mkFail(ord, "ws/mappings", fmt.Sprintf("whitespace stream %d/%d after removeWhitespace, cuts %v: %s %s", bi, si, cut, obs.err, firstTupleDiff(exp, got)), bundle))
				break
			}
		}
		if len(st.samples) == 0 && len(hin) >= 2 {
			st.samples = append(st.samples, map[string]any{"whitespace_stream_in": fmt.Sprintf("%q", clipS(string(in), 300)), "after_removeWhitespace": fmt.Sprintf("%q", clipS(string(out), 300)), "hints": len(hin)})
		}
	}
}

// sourceNameExperiment: original file names of files whose path merely has GOPATH/GOROOT as a
// string prefix.
func sourceNameExperiment(c *core.Ctx, sink *failSink, st *streamStats) {
	r := c.Rand("source-names")
	m := newFSModel(r, true)
	for fi := range m.files {
		f := &m.files[fi]
		if f.class != "sibling" {
			continue
		}
		p := tokenPos(f, 0)
		h := hintSpec{enc: compiler.VerifPosHint(p), pos: p}
		items := []item{{code: []byte("a;\n")}, {hint: &h}, {code: []byte("b;\n")}}
		stream, _ := flatten(items)
		res := runModel(m, items, false)
		obs := runFilter(m, stream, nil, false)
		st.filterRuns++
		st.classes["sibling"]++
		if obs.err != "" || !tuplesEqualSorted(obs.tuples, res.byteCols) && !tuplesEqualSorted(obs.tuples, res.u16Cols) {
			sink.add(mkFail("0003/"+f.name, "source-name/string-prefix-of-"+map[bool]string{true: "gopath", false: "goroot"}[strings.HasPrefix(f.name, modelGP1)],
				fmt.Sprintf("file %s lies outside GOROOT (%s) and GOPATH (%s) and must be named %q in the map; observed mappings %v %s", f.name, m.goroot, m.gopath, m.sourceName(f, false), obs.tuples, obs.err),
				map[string]string{"fileset.txt": describeFS(m), "stream.items.txt": describeItems(items)}))
		}
	}
}

// ---------------------------------------------------------------------------------------------

type progTotals struct {
	progStats
	sentinels int
	programs  int
	templates map[string]int
	samples   []any
}

func runPrograms(c *core.Ctx, sink *failSink) *progTotals {
	n := c.N(21, 600)
	if os.Getenv("VERIF_C19_ONLY") == "sentinels" {
		n = 0
	}
	t := &progTotals{templates: map[string]int{}}
	t.distinct = map[string]bool{}
	t.kinds = map[string]bool{}
	// fixed regression programs first, then the generated corpus
	progs, err := loadSentinels(filepath.Join(c.Verif, "sentinels", "C19"))
	if err != nil {
		fmt.Println("C19: sentinel programs unreadable:", err)
		c.Inconclusive("sentinels-unreadable")
	}
	nSent := len(progs)
	t.sentinels = nSent
	for i := 0; i < n; i++ {
		tpl := templates[i%len(templates)]
		name := fmt.Sprintf("c19-%s-%03d", tpl, i)
		p := genProgram(c.Rand("prog/"+name), name, tpl)
		if i%len(templates) == 0 && (i/len(templates))%4 == 1 {
			p.GopathSibling = true
			p.Name += "-gopath-sibling"
		}
		progs = append(progs, p)
	}
	n = len(progs)
	var mu sync.Mutex
	bySample := map[int]any{}
	c.Parallel(n, func(i int) {
		p := progs[i]
		nu := 0
		if i%2 == 0 || i < nSent {
			nu = 1 // uncaught-mode probes (one process per probe) on every other program
		}
		st := checkProgram(c, i, p, sink, nu)
		mu.Lock()
		defer mu.Unlock()
		if !st.compiled {
			return
		}
		t.programs++
		t.templates[p.Template]++
		t.mappings += st.mappings
		t.goMappings += st.goMappings
		t.jsMappings += st.jsMappings
		t.sources += st.sources
		t.bytesCompared += st.bytesCompared
		t.probesNode += st.probesNode
		t.probesOwn += st.probesOwn
		t.probesUncaught += st.probesUncaught
		t.altAccepted += st.altAccepted
		t.framesCross += st.framesCross
		t.ambiguousPos += st.ambiguousPos
		t.viaIncChecked += st.viaIncChecked
		t.colBeyondU16 += st.colBeyondU16
		t.nodeLastSegQuirk += st.nodeLastSegQuirk
		t.noPanic += st.noPanic
		for k := range st.distinct {
			t.distinct[k] = true
		}
		for k := range st.kinds {
			t.kinds[k] = true
		}
		if st.sample != nil {
			bySample[i] = st.sample
		}
	})
	// samples: the first programs in generation order (independent of scheduling)
	for i := 0; i < n && len(t.samples) < 3; i++ {
		if s, ok := bySample[i]; ok && (i == 0 || i >= nSent) {
			t.samples = append(t.samples, s)
		}
	}
	return t
}
