package c19

import (
	"encoding/json"
	"fmt"
	"sort"
)

// Own source-map (v3) decoder. It deliberately shares no code with
// github.com/neelance/sourcemap, which produces the observed maps.

// Seg is one decoded mapping segment.
type Seg struct {
	GenLine  int // 0-based generated line
	GenCol   int // 0-based generated column (unit as written by the producer)
	HasSrc   bool
	Src      int // index into Sources
	OrigLine int // 1-based original line
	OrigCol  int // original column as written (0-based field of the format)
	HasName  bool
	Name     int
}

// SMap is a decoded source map.
type SMap struct {
	Version int
	File    string
	Sources []string
	Names   []string
	Segs    []Seg // in the order of the "mappings" string
	sorted  []Seg // stable-sorted by generated position
}

type rawMap struct {
	Version    int      `json:"version"`
	File       string   `json:"file"`
	SourceRoot string   `json:"sourceRoot"`
	Sources    []string `json:"sources"`
	Names      []string `json:"names"`
	Mappings   *string  `json:"mappings"`
}

var b64 = func() [256]int8 {
	var t [256]int8
	for i := range t {
		t[i] = -1
	}
	const alpha = "ABCDEFGHIJKLMNOPQRSTUVWXYZabcdefghijklmnopqrstuvwxyz0123456789+/"
	for i := 0; i < len(alpha); i++ {
		t[alpha[i]] = int8(i)
	}
	return t
}()

// DecodeMap parses and strictly validates a source map.
func DecodeMap(data []byte) (*SMap, error) {
	var rm rawMap
	if err := json.Unmarshal(data, &rm); err != nil {
		return nil, fmt.Errorf("source map is not valid JSON: %w", err)
	}
	if rm.Version != 3 {
		return nil, fmt.Errorf("source map version %d, want 3", rm.Version)
	}
	if rm.Mappings == nil {
		return nil, fmt.Errorf("source map has no \"mappings\" field")
	}
	m := &SMap{Version: rm.Version, File: rm.File, Sources: rm.Sources, Names: rm.Names}
	s := *rm.Mappings
	line, col, src, oline, ocol, name := 0, 0, 0, 0, 0, 0
	i := 0
	for i < len(s) {
		switch s[i] {
		case ';':
			line++
			col = 0
			i++
			continue
		case ',':
			i++
			continue
		}
		// one segment: 1, 4 or 5 VLQ fields
		var fields [5]int
		nf := 0
		for i < len(s) && s[i] != ',' && s[i] != ';' {
			if nf == 5 {
				return nil, fmt.Errorf("segment with more than 5 fields at offset %d", i)
			}
			v, shift := 0, uint(0)
			for {
				if i >= len(s) {
					return nil, fmt.Errorf("truncated VLQ at end of mappings")
				}
				d := b64[s[i]]
				if d < 0 {
					return nil, fmt.Errorf("invalid base64 digit %q at offset %d", s[i], i)
				}
				i++
				v |= int(d&31) << shift
				if d&32 == 0 {
					break
				}
				shift += 5
				if shift > 60 {
					return nil, fmt.Errorf("VLQ too long at offset %d", i)
				}
			}
			if v&1 != 0 {
				v = -(v >> 1)
			} else {
				v >>= 1
			}
			fields[nf] = v
			nf++
		}
		if nf != 1 && nf != 4 && nf != 5 {
			return nil, fmt.Errorf("segment with %d fields before offset %d", nf, i)
		}
		col += fields[0]
		if col < 0 {
			return nil, fmt.Errorf("negative generated column %d on generated line %d", col, line+1)
		}
		sg := Seg{GenLine: line, GenCol: col}
		if nf >= 4 {
			src += fields[1]
			oline += fields[2]
			ocol += fields[3]
			if src < 0 || src >= len(m.Sources) {
				return nil, fmt.Errorf("source index %d out of range (%d sources)", src, len(m.Sources))
			}
			if oline < 0 || ocol < 0 {
				return nil, fmt.Errorf("negative original position %d:%d", oline+1, ocol)
			}
			sg.HasSrc, sg.Src, sg.OrigLine, sg.OrigCol = true, src, oline+1, ocol
		}
		if nf == 5 {
			name += fields[4]
			if name < 0 || name >= len(m.Names) {
				return nil, fmt.Errorf("name index %d out of range (%d names)", name, len(m.Names))
			}
			sg.HasName, sg.Name = true, name
		}
		m.Segs = append(m.Segs, sg)
	}
	m.sorted = append([]Seg(nil), m.Segs...)
	sort.SliceStable(m.sorted, func(a, b int) bool {
		x, y := m.sorted[a], m.sorted[b]
		if x.GenLine != y.GenLine {
			return x.GenLine < y.GenLine
		}
		return x.GenCol < y.GenCol
	})
	return m, nil
}

// Lookup resolves a generated position (both 0-based) the way source-map consumers do: the
// last segment at or before the position. ok=false when there is none or when that segment
// carries no source (an explicitly unmapped region).
func (m *SMap) Lookup(line, col int) (Seg, bool) {
	n := sort.Search(len(m.sorted), func(i int) bool {
		s := m.sorted[i]
		return s.GenLine > line || (s.GenLine == line && s.GenCol > col)
	})
	if n == 0 {
		return Seg{}, false
	}
	s := m.sorted[n-1]
	return s, s.HasSrc
}
