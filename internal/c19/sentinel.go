package c19

import (
	"fmt"
	"os"
	"path/filepath"
	"regexp"
	"sort"
	"strconv"
	"strings"
)

// Fixed regression programs live in /verif/sentinels/C19/<name>/ (see the README there). They run
// through exactly the same oracles as the generated programs, in both tiers and at every seed.

var siteMark = regexp.MustCompile(`//@site (\d+) (\S+)((?: \S+)*)\s*$`)

// loadSentinels reads every sentinel program directory.
func loadSentinels(root string) ([]*GenProgram, error) {
	ents, err := os.ReadDir(root)
	if err != nil {
		return nil, err
	}
	var out []*GenProgram
	for _, e := range ents {
		if !e.IsDir() {
			continue
		}
		p, err := loadSentinel(filepath.Join(root, e.Name()), e.Name())
		if err != nil {
			return nil, fmt.Errorf("sentinel %s: %w", e.Name(), err)
		}
		out = append(out, p)
	}
	sort.Slice(out, func(i, j int) bool { return out[i].Name < out[j].Name })
	return out, nil
}

func loadSentinel(dir, name string) (*GenProgram, error) {
	p := &GenProgram{Name: "sentinel-" + name, Template: "sentinel:" + name, Files: map[string]string{}}
	byID := map[int]*Site{}
	var probesTxt string
	err := filepath.Walk(dir, func(path string, info os.FileInfo, err error) error {
		if err != nil || info.IsDir() {
			return err
		}
		rel, _ := filepath.Rel(dir, path)
		b, err := os.ReadFile(path)
		if err != nil {
			return err
		}
		if rel == "PROBES" {
			probesTxt = string(b)
			return nil
		}
		p.Files[filepath.ToSlash(rel)] = string(b)
		if strings.HasSuffix(rel, ".inc.js") {
			p.IncFile = filepath.Base(rel)
		}
		pkg := "main"
		if d := filepath.Dir(rel); d != "." {
			pkg = filepath.Base(d)
		}
		for i, l := range strings.Split(string(b), "\n") {
			m := siteMark.FindStringSubmatch(l)
			if m == nil {
				continue
			}
			id, _ := strconv.Atoi(m[1])
			s := &Site{ID: id, File: filepath.Base(rel), Line: i + 1, Kind: m[2], Form: "sentinel:" + name, Pkg: pkg,
				Blocking: blockingFuncAt(string(b), i)}
			for _, opt := range strings.Fields(m[3]) {
				switch {
				case strings.HasPrefix(opt, "alt="):
					d, _ := strconv.Atoi(strings.TrimPrefix(opt, "alt="))
					s.Alt = append(s.Alt, i+1+d)
				case strings.HasPrefix(opt, "via="):
					s.ViaInc, _ = strconv.Atoi(strings.TrimPrefix(opt, "via="))
				case opt == "js":
					s.JSThrow = true
					s.Form = "incjs"
				}
			}
			if byID[id] != nil {
				return fmt.Errorf("site id %d marked twice", id)
			}
			byID[id] = s
			p.Sites = append(p.Sites, s)
			if !isASCII(l) {
				p.NonASCII = true
			}
		}
		return nil
	})
	if err != nil {
		return nil, err
	}
	for _, l := range strings.Split(probesTxt, "\n") {
		l = strings.TrimSpace(l)
		if l == "" || strings.HasPrefix(l, "#") {
			continue
		}
		f := strings.SplitN(l, " ", 2)
		id, err := strconv.Atoi(f[0])
		if err != nil || len(f) != 2 || byID[id] == nil {
			return nil, fmt.Errorf("bad PROBES line %q", l)
		}
		p.Probes = append(p.Probes, &Probe{N: len(p.Probes) + 1, Site: byID[id], Call: f[1]})
	}
	if len(p.Probes) == 0 {
		return nil, fmt.Errorf("no probes")
	}
	// generated main()
	s := newSrc()
	s.L("package main")
	s.L("")
	s.L("func main() {")
	s.L("\tk := sel()")
	s.L("\tif k >= 0 {")
	s.L("\t\tswitch k {")
	for _, pr := range p.Probes {
		s.L(fmt.Sprintf("\t\tcase %d:", pr.N))
		s.L("\t\t\t" + pr.Call)
	}
	s.L("\t\t}")
	s.L("\t\tprintln(\"UNCAUGHT-MODE-RETURNED\")")
	s.L("\t\treturn")
	s.L("\t}")
	for _, pr := range p.Probes {
		s.L(fmt.Sprintf("\tprobe(%d, func() { %s })", pr.N, pr.Call))
	}
	s.L(fmt.Sprintf("\tprintln(\"SWEEP-DONE %d\")", len(p.Probes)))
	s.L("}")
	p.Files["zz_main.go"] = s.String()
	p.Files[helperFile] = helperSrc
	return p, nil
}

// blockingFuncAt reports whether line i lies in a function whose name starts with "blocking".
func blockingFuncAt(src string, i int) bool {
	ls := strings.Split(src, "\n")
	for j := i; j >= 0; j-- {
		if strings.HasPrefix(ls[j], "func ") {
			return strings.HasPrefix(ls[j], "func blocking")
		}
	}
	return false
}

func isASCII(s string) bool {
	for i := 0; i < len(s); i++ {
		if s[i] >= 0x80 {
			return false
		}
	}
	return true
}
