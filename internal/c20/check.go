// Package c20 monitors property C20: the build cache is transparent, never stale and
// tolerates damage.
//
// The parent process (Run) only orchestrates: every operation on the real cache
// (github.com/gopherjs/gopherjs/build/cache) happens in child processes whose XDG_CACHE_HOME
// points into the scratch area, so the user's real cache is never touched (children refuse to
// run otherwise, see cw.Guard).
package c20

import (
	"encoding/json"
	"fmt"
	"os"
	"path/filepath"
	"sort"
	"strings"
	"sync"
	"time"

	"verif/internal/core"
)

type check struct {
	c       *core.Ctx
	gocache string

	mu       sync.Mutex
	evals    int             // oracle evaluations
	distinct map[string]bool // distinct non-trivial observation classes
	short    []string        // parts that stayed below their observation floor
	extra    map[string]any

	// class violations are reported once, with the number of instances and the first witnesses
	classes map[string]*classViolation
}

type classViolation struct {
	key       string
	what      string
	instances int
	witnesses []string
	files     map[string]string
}

func (k *check) eval(n int) {
	k.mu.Lock()
	k.evals += n
	k.mu.Unlock()
}

func (k *check) seen(class string) {
	k.mu.Lock()
	k.distinct[class] = true
	k.mu.Unlock()
}

// classViolate collects instances of a defect class that was verified, instance by instance,
// to have one root cause; it becomes ONE violation with a stable key.
func (k *check) classViolate(key, what, witness string, files map[string]string) {
	k.mu.Lock()
	defer k.mu.Unlock()
	cv := k.classes[key]
	if cv == nil {
		cv = &classViolation{key: key, what: what, files: map[string]string{}}
		k.classes[key] = cv
	}
	cv.instances++
	if len(cv.witnesses) < 8 {
		cv.witnesses = append(cv.witnesses, witness)
		for n, f := range files {
			if len(cv.files) < 24 {
				cv.files[fmt.Sprintf("w%d/%s", len(cv.witnesses), n)] = f
			}
		}
	}
}

// violate records a violation; bundles that contain Go files get a go.mod at their root so that
// they form their own module and stay out of `go build ./...` of the harness.
func (k *check) violate(key, what string, files map[string]string) {
	out := map[string]string{}
	hasGo := false
	for n, f := range files {
		out[n] = f
		if strings.HasSuffix(n, ".go") {
			hasGo = true
		}
	}
	if _, ok := out["go.mod"]; hasGo && !ok {
		out["go.mod"] = "module replay\n\ngo 1.20\n"
	}
	k.c.Violate(key, what, out)
}

func (k *check) flushClasses() {
	var keys []string
	for key := range k.classes {
		keys = append(keys, key)
	}
	sort.Strings(keys)
	for _, key := range keys {
		cv := k.classes[key]
		what := fmt.Sprintf("%s [%d instances this run; first witnesses below]\n%s", cv.what, cv.instances, strings.Join(cv.witnesses, "\n"))
		k.c.Count("class_instances/"+key, cv.instances)
		k.violate(key, what, cv.files)
	}
}

// env of a child whose cache root is <dir>/gopherjs/build_cache.
func (k *check) env(cacheHome string, extra ...string) []string {
	e := []string{"XDG_CACHE_HOME=" + cacheHome, "GOCACHE=" + k.gocache, "GOMAXPROCS=4"}
	return core.BaseEnv(append(e, extra...)...)
}

// child runs `vp <sub> <job.json>` and decodes the JSON the child wrote to job.Out.
func (k *check) child(sub string, cacheHome string, job any, outFile string, into any, timeout time.Duration, extraEnv ...string) (core.Run, bool) {
	jf := outFile + ".job.json"
	b, _ := json.Marshal(job)
	os.WriteFile(jf, b, 0o644)
	if sub != "c20-stdrt" {
		// the cache workers allocate a decompressor per operation and keep a tiny heap: with the
		// default GOGC the collector runs every few operations and dominates the cost
		extraEnv = append([]string{"GOGC=1000", "GOMAXPROCS=2"}, extraEnv...)
	}
	r := core.Exec(filepath.Dir(jf), k.env(cacheHome, extraEnv...), timeout, "", k.c.Self, sub, jf)
	if r.TimedOut {
		k.c.Inconclusive(sub + "-timeout")
		return r, false
	}
	ob, err := os.ReadFile(outFile)
	if err != nil || json.Unmarshal(ob, into) != nil {
		return r, false
	}
	return r, true
}

func tail(s string, n int) string {
	if len(s) > n {
		return "…" + s[len(s)-n:]
	}
	return s
}

// Run is the C20 check.
func Run(c *core.Ctx) int {
	k := &check{c: c, distinct: map[string]bool{}, extra: map[string]any{}, classes: map[string]*classViolation{}}
	r := core.Exec(c.Verif, core.BaseEnv(), time.Minute, "", "go", "env", "GOCACHE")
	k.gocache = strings.TrimSpace(r.Stdout)
	if k.gocache == "" {
		k.gocache = filepath.Join(c.Scratch, "gocache")
	}

	// the -race binary is built in the background while the other parts run
	raceBin := make(chan string, 1)
	go func() {
		if o := os.Getenv("C20_ONLY"); o != "" && !strings.Contains(o, "race") {
			raceBin <- ""
			return
		}
		raceBin <- k.buildRaceBinary()
	}()

	var jobs []func()
	var post []func() // second phase, needs results of the first
	add := func(js, ps []func()) {
		for _, j := range js {
			jobs = append(jobs, k.timed(len(jobs), j))
		}
		for _, j := range ps {
			post = append(post, k.timed(1000+len(post), j))
		}
	}
	// C20_ONLY=<part> restricts a run to one part (development aid: such a run ends in exit 2
	// because the other parts stay below their observation floors)
	only := os.Getenv("C20_ONLY")
	want := func(p string) bool { return only == "" || strings.Contains(only, p) }
	if want("seq") {
		// long sequential chains first
		add(k.seqJobs(), nil)
	}
	if want("transparency") {
		add(k.transparencyJobs())
	}
	if want("conc") {
		add(k.concurrencyJobs())
	}
	if want("crash") {
		add(k.crashJobs())
	}
	if want("iso") {
		add(k.isolationJobs())
	}
	if want("damage") {
		add(k.damageJobs())
	}
	// long sequential chains first (end-to-end sessions, process swarm, crash baselines)
	// the last job of the first phase waits for the -race binary and runs the goroutine variants
	jobs = append(jobs, k.timed(len(jobs), func() {
		rj := k.raceJobs(<-raceBin)
		var wg sync.WaitGroup
		for _, j := range rj {
			wg.Add(1)
			go func(j func()) { defer wg.Done(); j() }(j)
		}
		wg.Wait()
	}))
	c.Parallel(len(jobs), func(i int) { jobs[i]() })
	c.Parallel(len(post), func(i int) { post[i]() })

	k.finishSeq()
	k.finishTransparency()
	k.finishDamage()
	k.finishCrash()
	k.finishConc()
	k.flushClasses()

	if len(k.short) > 0 {
		fmt.Println("C20: parts below their observation floor:", k.short)
	}
	floor := c.N(400, 2000)
	distinct := len(k.distinct)
	if len(k.short) > 0 {
		floor = distinct + 1 // machinery failure (exit 2) unless a violation was found
		k.extra["parts_below_floor"] = k.short
	}
	return c.Finish("fault_enumeration", k.evals, distinct, floor,
		"distinct = end-to-end sequences (build-order pairs, edit kind → build shape pairs, (target, output, hit set) states) + node kinds round-tripped + packages + judged configuration pairs + timestamp cases + (file,offset) truncation points + (file,class) corruption outcomes + effective crash points/fault sequences + concurrent payloads observed",
		k.extra,
		[]string{
			"every cache operation runs in a child process with XDG_CACHE_HOME inside the scratch area",
			"end-to-end sequences: edits are applied at least 30 ms after the preceding build (file systems stamp files with a clock that may lag time.Now() by a timer tick), so 'edited after the entry was stored' is also what the timestamps say; restoring a file with an OLD modification time is outside the sweep",
			"the end-to-end builds install the real *cache.BuildCache through the verif hook Session.VerifSetBuildCache (the default session cache is compiled out by disableDefaultCache)",
			"'exactly the stored content' is judged by a structural fingerprint of everything the serializer stores (AST incl. positions and comments, file set, JS files), not by pointer identity",
			"strace 'when=N' counts per thread; children run with GOMAXPROCS=1 and the N values that actually injected a fault are recorded",
			"two spellings of one clean path and reorderings/duplicates of one tag set count as the same configuration (observed, not judged)",
		})
}

// timed reports slow jobs when C20_DEBUG is set (development aid; no effect on verdicts).
func (k *check) timed(i int, f func()) func() {
	if os.Getenv("C20_DEBUG") == "" {
		return f
	}
	return func() {
		t := time.Now()
		f()
		if d := time.Since(t); d > 2*time.Second {
			fmt.Printf("C20_DEBUG job %d took %.1fs (at +%.1fs)\n", i, d.Seconds(), time.Since(k.c.Start).Seconds())
		}
	}
}

func (k *check) belowFloor(part string, got, want int) {
	if got < want {
		k.mu.Lock()
		k.short = append(k.short, fmt.Sprintf("%s: %d < %d", part, got, want))
		k.mu.Unlock()
	}
}

func jsonUnmarshal(b []byte, v any) error { return json.Unmarshal(b, v) }
