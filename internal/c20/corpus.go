package c20

import (
	"fmt"
	"math/rand"
	"sort"
	"strings"
)

// The transparency corpus: generated packages that together contain every ast node kind and
// every way a comment can be attached (or not attached) to the tree. Every package is valid
// Go that GopherJS compiles with the few std packages available in this sandbox, exports
// `func Sum() int`, and is imported by the generated main package of the end-to-end builds.
//
// In a feature text `§` is replaced by a per-use identifier suffix, `«k»` by the k-th random
// small integer of the use, `¶` by a back quote.

type feature struct {
	name    string
	imports []string // import lines (without the keyword), e.g. `"math"` or `_ "unsafe"`
	src     string
	expr    string // int expression evaluated by Sum
	// floatingDirective marks the feature that needs the serializer to keep a comment group that
	// is not attached to a node (open defect): such packages are kept out of the clean program.
	floatingDirective bool
	needsImpl         bool // uses prog/impl through go:linkname
}

var features = []feature{
	{name: "generics", src: `
// Pair§ is a generic pair (doc comment on a type declaration).
type Pair§[K comparable, V any] struct {
	Key K // line comment on a field
	Val V
}

// Swap§ has a generic receiver.
func (p *Pair§[K, V]) Set§(k K, v V) { p.Key, p.Val = k, v }

type List§[T any] []T

func (l List§[T]) Len§() int { return len(l) }

func Map2§[K comparable, V any, R any](p Pair§[K, V], f func(K, V) R) R { return f(p.Key, p.Val) }

func Fold§[T any, A any](xs List§[T], a A, f func(A, T) A) A {
	for _, x := range xs {
		a = f(a, x)
	}
	return a
}

func gen§() int {
	p := Pair§[string, int]{Key: "k«1»", Val: «2»}
	p.Set§("kk", «3»)
	r := Map2§[string, int, int](p, func(k string, v int) int { return len(k) + v })
	xs := List§[int]{«1», «2», «3»}
	var f func(List§[int], int, func(int, int) int) int = Fold§[int, int]
	return r + f(xs, 0, func(a, x int) int { return a + x }) + xs.Len§()
}
`, expr: "gen§()"},
	{name: "constraints", src: `
// Num§ is a constraint with a type set.
type Num§ interface {
	~int | ~int64 | ~string
}

type Named§ interface {
	Name§() string
}

// Both§ embeds an interface and adds a type set and a method.
type Both§ interface {
	Named§
	~int | ~string
	Twice§() int
}

type MyInt§ int

func (m MyInt§) Name§() string { return "myint" }
func (m MyInt§) Twice§() int   { return int(m) * 2 }

func size§[T Num§](v T) int {
	switch x := any(v).(type) {
	case string:
		return len(x)
	default:
		_ = x
		return «1»
	}
}

func both§[T Both§](v T) int { return v.Twice§() + len(v.Name§()) }

func cons§() int { return size§("abc") + size§(MyInt§(3)) + size§(int64(9)) + both§(MyInt§(«2»)) }
`, expr: "cons§()"},
	{name: "structtags", src: `
type inner§ struct {
	A int ¶json:"a,omitempty" xml:"a"¶
	B string ¶json:"b"¶ // trailing comment after a tag
}

type Outer§ struct {
	inner§                   // embedded
	*Ptr§  ¶tag:"embedded pointer"¶
	C, D   float64 ¶multi:"names"¶
	E      struct {
		X, Y int
	}
	F func(int) (int, error)
	_ [0]func()
}

type Ptr§ struct{ N int }

func tags§() int {
	o := Outer§{inner§: inner§{A: «1», B: "b"}, Ptr§: &Ptr§{N: «2»}, C: 1.5, D: 2.5}
	o.E.X = «3»
	o.F = func(i int) (int, error) { return i + 1, nil }
	v, _ := o.F(o.A)
	return v + o.N + o.E.X + int(o.C+o.D) + len(o.B)
}
`, expr: "tags§()"},
	{name: "labels", src: `
func labels§(n int) int {
	total := 0
outer§:
	for i := 0; i < n; i++ {
		for j := 0; j < n; j++ {
			if j == «1»%4+1 {
				continue outer§
			}
			if i == «2»%5+3 {
				break outer§
			}
			total += i*j + 1
		}
	}
	k := 0
loop§:
	if k < 3 {
		k++
		total += k
		goto loop§
	}
	switch {
	case total > 0:
		total++
		fallthrough
	case total < -1000:
		total += 2
	default:
		total = -1
	}
done§:
	;
	{
		goto end§
	}
end§:
	return total
	goto done§
}
`, expr: "labels§(6)"},
	{name: "select", src: `
func produce§(out chan<- int, n int) {
	for i := 0; i < n; i++ {
		out <- i + «1»
	}
	close(out)
}

func drain§(in <-chan int) (s int) {
	for v := range in {
		s += v
	}
	return
}

func sel§() int {
	a := make(chan int, 4)
	b := make(chan string, 1)
	var dir <-chan int = a
	var snd chan<- string = b
	var cc chan (<-chan int) = make(chan (<-chan int), 1)
	cc <- dir
	total := 0
	for i := 0; i < 6; i++ {
		select {
		case a <- i:
			total++
		case v, ok := <-dir:
			if ok {
				total += v
			}
		case snd <- "x":
			total += 10
		case s := <-b:
			total += len(s)
		default:
			total += 100
		}
	}
	ch := make(chan int)
	go produce§(ch, «2»%5+2)
	total += drain§(ch)
	done := make(chan struct{})
	go func() {
		defer close(done)
		total += len(<-cc)
	}()
	<-done
	select {}
}
`, expr: "0"},
	{name: "select2", src: `
func worker§(in <-chan int, out chan<- int) {
	for v := range in {
		out <- v * 2
	}
	close(out)
}

func sel2§() int {
	a := make(chan int, 4)
	b := make(chan string, 1)
	var dir <-chan int = a
	var snd chan<- string = b
	cc := make(chan (<-chan int), 1)
	cc <- dir
	total := 0
	for i := 0; i < 6; i++ {
		select {
		case a <- i:
			total++
		case v, ok := <-dir:
			if ok {
				total += v
			}
		case snd <- "x":
			total += 10
		case s := <-b:
			total += len(s)
		default:
			total += 100
		}
	}
	in, out := make(chan int), make(chan int)
	go worker§(in, out)
	go func() {
		for i := 0; i < «1»%4+2; i++ {
			in <- i
		}
		close(in)
	}()
	for v := range out {
		total += v
	}
	total += cap(<-cc)
	return total
}
`, expr: "sel2§()"},
	{name: "typeswitch", src: `
type shape§ interface{ area§() int }
type sq§ struct{ s int }
type rc§ struct{ w, h int }

func (s sq§) area§() int  { return s.s * s.s }
func (r *rc§) area§() int { return r.w * r.h }

func classify§(v interface{}) int {
	switch x := v.(type) {
	case nil:
		return -1
	case int, int64:
		_ = x
		return 1
	case string:
		return len(x)
	case shape§:
		return x.area§()
	case []int:
		return len(x)
	case func() int:
		return x()
	case error:
		return len(x.Error())
	}
	switch v.(type) {
	case bool:
		return 7
	}
	if s, ok := v.(fmtStringer§); ok {
		return len(s.String())
	}
	return v.(map[string]int)["k"]
}

type fmtStringer§ interface{ String() string }

func tsw§() int {
	return classify§(nil) + classify§(«1») + classify§("four") + classify§(sq§{3}) + classify§(&rc§{2, «2»}) +
		classify§([]int{1, 2}) + classify§(func() int { return «3» }) + classify§(true) + classify§(map[string]int{"k": 5})
}
`, expr: "tsw§()"},
	{name: "funclit", src: `
func variadic§(base int, xs ...int) (sum int) {
	sum = base
	for _, x := range xs {
		sum += x
	}
	return
}

func apply§(f func(...int) int, xs ...int) int { return f(xs...) }

func lits§() (res int) {
	defer func() {
		if r := recover(); r != nil {
			res += «1»
		}
	}()
	add := func(a, b int) int { return a + b }
	counter := func() func() int {
		c := 0
		return func() int { c++; return c }
	}()
	counter()
	arr := [...]int{1, 2, 3, «2»}
	res = add(1, 2) + counter() + variadic§(1) + variadic§(1, arr[:]...) + apply§(func(v ...int) int { return len(v) }, 1, 2, 3)
	res += func(x int) int { return x * x }(4)
	defer func(n int) { res += n }(3)
	var m map[string]int
	m["boom"] = 1 // panics: assignment to entry in nil map
	return
}
`, expr: "lits§()"},
	{name: "complit", src: `
type pt§ struct{ X, Y int }

func clit§() int {
	m := map[string]pt§{"a": {1, 2}, "b": {X: «1»}}
	arr := [5]int{1: 10, 3: 30}
	sl := []pt§{{1, 2}, {Y: 3}, 4: {X: 9}}
	pp := []*pt§{{1, 1}, nil}
	nested := map[string][]map[int]string{"k": {{1: "one"}, {2: "two", «2» + 100: "r"}}}
	anon := struct {
		A int
		B []string
	}{A: 1, B: []string{"x", "y"}}
	mat := [2][2]int{{1, 2}, {3, 4}}
	fn := []func() int{func() int { return 1 }}
	return m["a"].X + m["b"].X + arr[3] + sl[4].X + len(sl) + pp[0].X + len(nested["k"][1]) + anon.A + len(anon.B) + mat[1][0] + fn[0]()
}
`, expr: "clit§()"},
	{name: "slices3", src: `
func sl3§() int {
	base := []int{0, 1, 2, 3, 4, 5, 6, 7}
	a := base[1:3:4]
	b := base[:2]
	c := base[6:]
	d := base[:]
	e := base[:«1»%3+1:5]
	s := "héllo, wörld"
	t := s[1:4]
	arr := [4]int{1, 2, 3, 4}
	pa := &arr
	f := pa[1:3]
	a = append(a, 99)
	return len(a) + cap(a) + len(b) + len(c) + len(d) + cap(e) + len(t) + f[0] + base[3]
}
`, expr: "sl3§()"},
	{name: "literals", src: `
const raw§ = ¶raw string with "quotes" and \n no escapes
second line¶

var cplx§ = 3i + 2

func lit§() int {
	r := 'x' + '\n' + '\x41' + 'é' + '\''
	f := 0x1p-2 + 1e3 + 1_000.5 + .5
	c := complex(1, 2) * 2.5i
	n := 0b1010 + 0o17 + 0xFF + 1_000 + 017
	s := "esc\t\"q\"é\x00" + raw§
	im := imag(cplx§ * c)
	return int(r) + int(f) + n + len(s) + int(real(c)) + int(im) + «1»
}
`, expr: "lit§()"},
	{name: "comments", src: `
// free-floating comment group number one (separated from everything by blank lines)

/* a free-floating block comment
   spanning lines */

// Doc comment of a grouped declaration.
var (
	// doc comment of a spec
	v§ = «1» // line comment of a spec

	// another spec doc
	w§, x§ int = 2, 3 /* inline block line comment */
)

//go:noinline
func directive§() int { return v§ }

//go:generate echo this is a directive-like comment attached to nothing

// Doc§ documents the function.
//
// Second paragraph of the doc comment.
func Doc§(a int /* inline comment in parameters */, b int) int { // comment after the brace
	// comment at the start of a body (floating inside a block)
	c := a + b // trailing comment of a statement

	// comment between statements

	if c > 0 /* inside condition */ {
		// only a comment in this block
	}
	_ = []int{
		1, // element comment
		// comment between elements
		2,
	}
	return c + w§ + x§
	// comment at the end of a body
}

type (
	// T§ doc
	T§ struct {
		// field doc
		F int // field line comment
		// dangling comment at the end of a struct
	}
	// I§ doc
	I§ interface {
		// method doc
		M() // method line comment
	}
)
`, expr: "Doc§(1, 2) + directive§()"},
	{name: "linkattached", imports: []string{`_ "unsafe"`, `_ "prog/impl"`}, needsImpl: true, src: `
// linkA§ is implemented in prog/impl; the directive is part of the doc comment.
//
//go:linkname linkA§ prog/impl.Target
func linkA§(x int) int

func la§() int { return linkA§(«1») }
`, expr: "la§()"},
	{name: "linkseparated", imports: []string{`_ "unsafe"`, `_ "prog/impl"`}, needsImpl: true, floatingDirective: true, src: `
//go:linkname linkS§ prog/impl.Target2

// linkS§ is implemented in prog/impl; the directive above is separated from the
// declaration by a blank line, so it is a free-floating comment group.
func linkS§(x int) int

func ls§() int { return linkS§(«1») }
`, expr: "ls§()"},
	{name: "embedlike", src: `
// The next line looks like an embed directive, but this file does not import "embed", so the
// go tool treats it as a plain comment.

//go:embed testdata/*.txt
var embedLike§ string = "not embedded"

//go:build ignore_this_line_is_too_late_to_be_a_constraint

//line :1000
func afterLine§() int { return len(embedLike§) }
`, expr: "afterLine§()"},
	{name: "methods", src: `
type acc§ struct{ n int }

func (a *acc§) Add(x int) *acc§ { a.n += x; return a }
func (a acc§) Get() int         { return a.n }
func (acc§) Zero() int          { return 0 }

type base§ struct{ acc§ }

func meth§() int {
	a := &acc§{}
	f := a.Add
	g := (*acc§).Add
	h := acc§.Get
	f(1)
	g(a, «1»)
	var b base§
	b.Add(5).Add(6)
	return h(*a) + b.Get() + acc§{}.Zero() + (*a).Get() + (&b).acc§.n
}
`, expr: "meth§()"},
	{name: "consts", src: `
type weekday§ uint8

const (
	mon§ weekday§ = iota + 1
	tue§
	_
	thu§
	big§   = 1 << (10 * iota)
	str§   = "s" + "t"
	typed§ int64 = «1»
)

const single§, double§ = 1, 2.0

var (
	a§, b§ = pairFn§()
	c§     [3]int
	_      = str§
	d§     *int
	e§     = map[string]int{}
)

func pairFn§() (int, string) { return «2», "p" }

func con§() int {
	const local = 5
	var q, r = 1, "r"
	type lt struct{ v int }
	var z lt
	return int(mon§+tue§+thu§) + big§>>40 + len(str§) + int(typed§) + single§ + int(double§) + a§ + len(b§) + c§[0] + local + q + len(r) + z.v + len(e§)
}
`, expr: "con§()"},
	{name: "ranges", imports: []string{`"unicode/utf8"`}, src: `
func rng§() int {
	t := 0
	for i, v := range []int{«1», 2, 3} {
		t += i * v
	}
	for i := range [3]int{} {
		t += i
	}
	keys := 0
	for k, v := range map[string]int{"a": 1, "bb": 2} {
		keys += len(k) + v
	}
	for range "ab" {
		t++
	}
	for i, r := range "hé" {
		t += i + utf8.RuneLen(r)
	}
	ch := make(chan int, 2)
	ch <- 1
	ch <- «2»
	close(ch)
	for v := range ch {
		t += v
	}
	var i int
	for i = range []int{1, 2} {
	}
	for ; i < 10; i += 3 {
	}
	for i > 5 {
		i--
	}
	for {
		break
	}
	return t + keys + i
}
`, expr: "rng§()"},
	{name: "stmts", imports: []string{`"math"`, `"math/bits"`}, src: `
func st§(n int) (out int, err error) {
	var p *int = &out
	*p = n
	x := uint(n)
	x += 3
	x -= 1
	x *= 2
	x /= 2
	x %= 100
	x <<= 2
	x >>= 1
	x |= 1
	x &= 0xff
	x ^= 5
	x &^= 2
	out++
	out--
	if y := -n; y < 0 {
		out += y
	} else if y == 0 {
		out = ^out
	} else {
		out = +y
	}
	switch z := bits.OnesCount(x); z {
	case 1, 2:
		out += 1
	case 3:
		out += 3
	default:
		out += z
	}
	b := !(n > 3) && (n < 10 || n == «1»)
	if b {
		out += int(math.Sqrt(16))
	}
	q := (n + 1) * (n - 1) / 2 % 7
	out += q + int(x)
	go func() {}()
	defer func() {}()
	if err != nil {
		return
	}
	return out, nil
}

func stw§() int { v, _ := st§(«2»%7 + 2); return v }
`, expr: "stw§()"},
	{name: "imports", src: ``, expr: "imp§()", imports: []string{`"math"`, `m2 "math/cmplx"`, `. "unicode"`, `_ "container/list"`, `"sync/atomic"`}},
	{name: "functypes", src: `
type handler§ func(int) (int, error)
type reducer§ func(acc, v int) (next int)
type table§ map[string][]handler§
type ring§ [4]*[2]chan int
type pfn§ *func()
type iface§ interface {
	handle§(handler§) handler§
	inner§
}
type inner§ interface{ in§() }
type impl§ struct{}

func (impl§) handle§(h handler§) handler§ { return h }
func (impl§) in§()                        {}

func named§() (a, b int, s string) {
	a, b = 1, «1»
	s = "n"
	return
}

func ft§() int {
	var i iface§ = impl§{}
	h := i.handle§(func(v int) (int, error) { return v + 1, nil })
	t := table§{"k": {h}}
	v, _ := t["k"][0](«2»)
	var r reducer§ = func(acc, x int) int { return acc + x }
	a, b, s := named§()
	var rg ring§
	_ = rg
	return r(v, a+b) + len(s)
}
`, expr: "ft§()"},
	{name: "pointers", src: `
type node§ struct {
	next *node§
	val  int
	arr  [2]int
}

func ptr§() int {
	n := &node§{val: 1}
	n.next = &node§{val: «1», next: nil}
	pp := &n
	(*pp).val++
	(**pp).arr[1] = 4
	ap := &n.arr
	ap[0] = «2»
	x := 5
	px := &x
	*px *= 2
	ps := &[]int{1, 2, 3}
	(*ps)[1] = 7
	sum := 0
	for c := n; c != nil; c = c.next {
		sum += c.val
	}
	return sum + n.arr[0] + n.arr[1] + x + (*ps)[1]
}
`, expr: "ptr§()"},
}

const importsFeatureSrc = `
func imp§() int {
	v := int32(«1»)
	atomic.AddInt32(&v, 2)
	up := 0
	if IsUpper('A') {
		up = 1
	}
	return int(math.Floor(2.5)) + int(m2.Abs(complex(3, 4))) + int(v) + up
}
`

// corpusPkg is one generated package.
type corpusPkg struct {
	Name     string // package name = last path element
	Path     string // import path: prog/<Name>
	Files    map[string]string
	Features []string
	Floating bool // contains a floating directive (open defect class)
	Impl     bool
}

var fileHeaders = []string{
	"", // nothing before the package clause
	"// Copyright header: a free-floating comment group before the package doc.\n\n",
	"//go:build !c20_never_set\n\n",
	"/* block comment header */\n\n//go:build !c20_never_set && (js || !js)\n// +build !c20_never_set\n\n",
}

func instantiate(f feature, suffix string, r *rand.Rand) (src, expr string) {
	src = f.src
	if f.name == "imports" {
		src = importsFeatureSrc
	}
	rep := []string{"§", suffix, "¶", "`"}
	for k := 1; k <= 5; k++ {
		rep = append(rep, fmt.Sprintf("«%d»", k), fmt.Sprint(1+r.Intn(40)))
	}
	rp := strings.NewReplacer(rep...)
	return rp.Replace(src), rp.Replace(f.expr)
}

// genCorpus builds n packages; every feature is used at least once (round robin) plus random
// extras; the "select" feature (which ends in a blocking select{}) is parsed but never called.
func genCorpus(r *rand.Rand, n int) []corpusPkg { return genCorpusStride(r, n, 1) }

// genCorpusStride gives package i the features [i*stride, (i+1)*stride) (mod the list) plus extras.
func genCorpusStride(r *rand.Rand, n, stride int) []corpusPkg {
	var pkgs []corpusPkg
	nf := len(features)
	for i := 0; i < n; i++ {
		name := fmt.Sprintf("c%02d%s", i, randWord(r))
		p := corpusPkg{Name: name, Path: "prog/" + name, Files: map[string]string{}}
		picked := map[int]bool{(i*7 + 3) % nf: true}
		own := map[int]bool{}
		for q := 0; q < stride; q++ {
			picked[(i*stride+q)%nf] = true
			own[(i*stride+q)%nf] = true
		}
		for k := 0; k < 2+r.Intn(4); k++ {
			picked[r.Intn(nf)] = true
		}
		// the floating linkname lives only in the packages it is assigned to by position, so
		// that the clean program stays large
		for fi := range picked {
			if features[fi].floatingDirective && !own[fi] {
				delete(picked, fi)
			}
		}
		var idx []int
		for fi := range picked {
			idx = append(idx, fi)
		}
		sort.Ints(idx)
		nfiles := 1 + r.Intn(3)
		bodies := make([]string, nfiles)
		imports := make([]map[string]bool, nfiles)
		for k := range imports {
			imports[k] = map[string]bool{}
		}
		var exprs []string
		for j, fi := range idx {
			f := features[fi]
			suffix := fmt.Sprintf("%s%d", strings.ToUpper(randWord(r)[:1])+randWord(r), j)
			src, expr := instantiate(f, suffix, r)
			k := r.Intn(nfiles)
			bodies[k] += src
			for _, im := range f.imports {
				imports[k][im] = true
			}
			exprs = append(exprs, expr)
			p.Features = append(p.Features, f.name)
			p.Floating = p.Floating || f.floatingDirective
			p.Impl = p.Impl || f.needsImpl
		}
		for k := 0; k < nfiles; k++ {
			var sb strings.Builder
			sb.WriteString(fileHeaders[r.Intn(len(fileHeaders))])
			if k == 0 {
				fmt.Fprintf(&sb, "// Package %s is generated corpus package %d.\n//\n// It has a package doc comment.\n", name, i)
			}
			fmt.Fprintf(&sb, "package %s\n", name)
			var ims []string
			for im := range imports[k] {
				ims = append(ims, im)
			}
			sort.Strings(ims)
			switch {
			case len(ims) == 1 && r.Intn(2) == 0:
				fmt.Fprintf(&sb, "\nimport %s // single import with a line comment\n", ims[0])
			case len(ims) > 0:
				sb.WriteString("\n// doc comment of the import declaration\nimport (\n")
				for q, im := range ims {
					if q == 1 {
						sb.WriteString("\t// doc comment of an import spec\n")
					}
					fmt.Fprintf(&sb, "\t%s", im)
					if q == 0 {
						sb.WriteString(" // line comment of an import spec")
					}
					sb.WriteString("\n")
				}
				sb.WriteString(")\n")
			}
			sb.WriteString(bodies[k])
			if k == 0 {
				fmt.Fprintf(&sb, "\n// Sum is called by the main package.\nfunc Sum() int {\n\treturn %s\n}\n", strings.Join(exprs, " +\n\t\t"))
			}
			if r.Intn(2) == 0 {
				sb.WriteString("\n// trailing free-floating comment at the end of the file\n")
			}
			p.Files[fmt.Sprintf("f%d.go", k)] = sb.String()
		}
		pkgs = append(pkgs, p)
	}
	return pkgs
}

func randWord(r *rand.Rand) string {
	const c = "bcdfghjklmnprstvz"
	const v = "aeiou"
	b := []byte{c[r.Intn(len(c))], v[r.Intn(len(v))], c[r.Intn(len(c))], v[r.Intn(len(v))]}
	return string(b)
}

// implPkg is the target of the go:linkname directives.
const implPkg = `// Package impl holds the implementations that corpus packages link to.
package impl

func Target(x int) int { return x*3 + 1 }

func Target2(x int) int { return x*5 + 2 }
`

// badPkg has syntax errors: parsed leniently its files yield BadStmt, BadDecl and BadExpr nodes.
// It is only used for the serializer round trip (a package with syntax errors is never built).
var badPkg = map[string]string{
	"bad/bad1.go": "package bad\n\nfunc f() int {\n\telse\n\treturn 1\n}\n",
	"bad/bad2.go": "package bad\n\n= 3\n\nfunc g() {}\n",
	"bad/bad3.go": "package bad\n\nfunc h() {\n\tx := [  ]\n\t_ = x\n}\n",
}

// mainFor generates the main package calling Sum of every given package.
func mainFor(pkgs []corpusPkg, extra string) string {
	var sb strings.Builder
	sb.WriteString("package main\n\nimport (\n")
	for _, p := range pkgs {
		fmt.Fprintf(&sb, "\t%q\n", p.Path)
	}
	sb.WriteString(")\n\n" + extra + `
func itoa(v int) string {
	if v == 0 {
		return "0"
	}
	neg := v < 0
	if neg {
		v = -v
	}
	var b [24]byte
	i := len(b)
	for v > 0 {
		i--
		b[i] = byte('0' + v%10)
		v /= 10
	}
	if neg {
		i--
		b[i] = '-'
	}
	return string(b[i:])
}

func main() {
	total := 0
`)
	for _, p := range pkgs {
		fmt.Fprintf(&sb, "\t{\n\t\tv := %s.Sum()\n\t\tprintln(%q + itoa(v))\n\t\ttotal += v\n\t}\n", p.Name, p.Name+" ")
	}
	sb.WriteString("\tprintln(\"total \" + itoa(total))\n}\n")
	return sb.String()
}
