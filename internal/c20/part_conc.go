package c20

import (
	"fmt"
	"os"
	"path/filepath"
	"strings"
	"sync"
	"time"

	"verif/internal/c20/cw"
	"verif/internal/core"
)

type concState struct {
	mu                          sync.Mutex
	stores, loads, hits, misses int
	rawReads                    int
	payloadsSeen                map[string]int
	raceReports, raceReportsGJS int
	raceRuns                    int
}

var cc = &concState{payloadsSeen: map[string]int{}}

func (k *check) concPayloads() (mocks, srcs []cw.PayloadSpec) {
	c := k.c
	mocks = []cw.PayloadSpec{"mock:300:21", "mock:2500:22", "mock:9000:23", "mock:40000:24"}
	d := c.Dir("conc-src")
	for i, extra := range []string{"\nfunc A() int { return 1 }\n", "\n// B is longer.\nfunc B(xs []int) (s int) {\n\tfor _, x := range xs {\n\t\ts += x\n\t}\n\treturn\n}\n", "\nvar C = map[string][]int{\"k\": {1, 2, 3}}\n"} {
		dir := filepath.Join(d, fmt.Sprint("p", i))
		os.MkdirAll(dir, 0o755)
		os.WriteFile(filepath.Join(dir, "p.go"), []byte(tinySource+extra), 0o644)
		srcs = append(srcs, cw.PayloadSpec(fmt.Sprintf("src:%s:prog/p%d", dir, i)))
	}
	return
}

func (k *check) concurrencyJobs() (jobs, post []func()) {
	cc = &concState{payloadsSeen: map[string]int{}}
	mocks, srcs := k.concPayloads()
	jobs = append(jobs,
		func() { k.concRun("processes-mock", mocks, k.c.N(8, 16), k.c.N(8, 16), 50) },
		func() { k.concRun("processes-sources", srcs, k.c.N(4, 16), k.c.N(4, 16), k.c.N(25, 50)) })
	return
}

// concRun: writer processes store different complete payloads under ONE key while reader
// processes load it; every hit must be one of the complete payloads, and the key path must hold
// a complete file whenever it is read.
func (k *check) concRun(name string, payloads []cw.PayloadSpec, writers, readers, iters int) {
	c := k.c
	home := c.Dir("conc")
	work := c.Dir("conc-work")
	base := cw.ConcJob{Scratch: c.Scratch, WorkDir: work, Payloads: payloads, ImportPath: "conc/contended", Iterations: iters, StopFile: filepath.Join(work, "stop")}
	var dummy cw.ConcOut
	prime := base
	prime.Out = filepath.Join(work, "prime.json")
	r, _ := k.child("c20-prime", home, prime, prime.Out, &dummy, 2*time.Minute)
	if r.Exit != 0 {
		c.Inconclusive("conc-prime-failed")
		return
	}
	outs := make([]cw.ConcOut, writers+readers)
	oks := make([]bool, writers+readers)
	var ww, rw sync.WaitGroup
	for i := 0; i < readers; i++ {
		rw.Add(1)
		go func(i int) {
			defer rw.Done()
			j := base
			j.Role, j.Index, j.Iterations, j.Out = "reader", i, 100, filepath.Join(work, fmt.Sprintf("reader%d.json", i))
			_, oks[writers+i] = k.child("c20-conc", home, j, j.Out, &outs[writers+i], 10*time.Minute)
		}(i)
	}
	for i := 0; i < writers; i++ {
		ww.Add(1)
		go func(i int) {
			defer ww.Done()
			j := base
			j.Role, j.Index, j.Out = "writer", i, filepath.Join(work, fmt.Sprintf("writer%d.json", i))
			_, oks[i] = k.child("c20-conc", home, j, j.Out, &outs[i], 10*time.Minute)
		}(i)
	}
	ww.Wait()
	os.WriteFile(base.StopFile, nil, 0o644)
	rw.Wait()
	k.concJudge(name, payloads, outs, oks)
}

func (k *check) concJudge(name string, payloads []cw.PayloadSpec, outs []cw.ConcOut, oks []bool) {
	c := k.c
	files := map[string]string{"payloads.json": mustJSON(payloads)}
	seen := 0
	var foreign, panics, rawInc, storeFailed, rawReads, stores int
	detail := ""
	by := make([]int, len(payloads))
	for i, o := range outs {
		if !oks[i] {
			c.Inconclusive("conc-worker-failed")
			continue
		}
		if strings.HasPrefix(o.Detail, "REF: ") {
			c.Inconclusive("conc-reference-failed")
			continue
		}
		k.eval(o.Loads + o.Stores)
		cc.mu.Lock()
		cc.stores += o.Stores
		cc.loads += o.Loads
		cc.hits += o.Hits
		cc.misses += o.Misses
		cc.rawReads += o.RawReads
		cc.mu.Unlock()
		for j, n := range o.ByPayload {
			if j < len(by) {
				by[j] += n
			}
		}
		foreign += o.Foreign
		panics += o.Panics
		rawInc += o.RawIncomplete
		storeFailed += o.StoreFailed
		rawReads += o.RawReads
		stores += o.Stores
		if o.Detail != "" && (o.Foreign > 0 || o.Panics > 0 || o.RawIncomplete > 0) && detail == "" {
			detail = o.Detail
		}
	}
	if foreign > 0 {
		k.violate("concurrency/"+name+"/foreign-content", fmt.Sprintf("%d concurrent loads returned true with content that is none of the complete payloads stored: %s", foreign, detail), files)
	}
	if panics > 0 {
		k.violate("concurrency/"+name+"/panic", fmt.Sprintf("concurrent Store/Load panicked %d times: %s", panics, detail), files)
	}
	if rawInc > 0 {
		k.violate("concurrency/"+name+"/partial-file-visible", fmt.Sprintf("%d of %d raw reads of the key path saw an incomplete file while stores were in flight: %s", rawInc, rawReads, detail), files)
	}
	if storeFailed > 0 {
		k.violate("concurrency/"+name+"/store-failed", fmt.Sprintf("%d of %d concurrent stores returned false in a healthy cache directory", storeFailed, stores), files)
	}
	for j, n := range by {
		if n > 0 {
			seen++
			k.seen(fmt.Sprintf("conc/%s/payload%d", name, j))
		}
		cc.mu.Lock()
		cc.payloadsSeen[fmt.Sprintf("%s/payload%d", name, j)] += n
		cc.mu.Unlock()
	}
	if seen < 2 {
		c.Inconclusive("conc-readers-saw-fewer-than-two-payloads")
	}
}

// ------------------------------------------------------------------------------------------- -race

func (k *check) buildRaceBinary() string {
	c := k.c
	out := filepath.Join(c.Scratch, "bin", "c20race")
	os.MkdirAll(filepath.Dir(out), 0o755)
	args := []string{"build", "-race", "-tags", "verif"}
	if alt := filepath.Join(c.Scratch, "alt.mod"); os.Getenv("VERIF_REPO") != "" {
		if _, err := os.Stat(alt); err == nil {
			args = append(args, "-modfile="+alt)
		}
	}
	args = append(args, "-o", out, "./internal/c20/racemain")
	t0 := time.Now()
	r := core.Exec(c.Verif, core.BaseEnv("CGO_ENABLED=1"), 15*time.Minute, "", "go", args...)
	if os.Getenv("C20_DEBUG") != "" {
		fmt.Printf("C20_DEBUG go build -race took %.1fs\n", time.Since(t0).Seconds())
	}
	if r.Exit != 0 || r.TimedOut {
		c.Inconclusive("race-binary-does-not-build")
		fmt.Println("C20: go build -race failed:", tail(r.Stdout+r.Stderr, 800))
		return ""
	}
	return out
}

func (k *check) raceJobs(bin string) []func() {
	if bin == "" {
		return nil
	}
	mocks, srcs := k.concPayloads()
	one := func(name string, payloads []cw.PayloadSpec, iters int) func() {
		return func() {
			c := k.c
			home := c.Dir("race")
			work := c.Dir("race-work")
			job := cw.RaceJob{Scratch: c.Scratch, WorkDir: work, Payloads: payloads, Writers: 16, Readers: 16, Iterations: iters, Out: filepath.Join(work, "out.json")}
			jf := filepath.Join(work, "job.json")
			os.WriteFile(jf, []byte(mustJSON(job)), 0o644)
			logp := filepath.Join(work, "racelog")
			t0 := time.Now()
			r := core.Exec(work, k.env(home, "GOMAXPROCS=8", "GOGC=400", "GORACE=halt_on_error=0 log_path="+logp), 20*time.Minute, "", bin, jf)
			if os.Getenv("C20_DEBUG") != "" {
				fmt.Printf("C20_DEBUG race run %s took %.1fs\n", name, time.Since(t0).Seconds())
			}
			var out cw.RaceOut
			b, err := os.ReadFile(job.Out)
			if r.TimedOut || err != nil || jsonUnmarshal(b, &out) != nil || out.Err != "" {
				c.Inconclusive("race-run-failed")
				fmt.Println("C20: race run failed:", r.Exit, out.Err, tail(r.Stderr, 600))
				return
			}
			// data-race reports
			logs, _ := filepath.Glob(logp + "*")
			all, ours := 0, 0
			var first string
			for _, lf := range logs {
				lb, _ := os.ReadFile(lf)
				for _, rep := range strings.Split(string(lb), "==================") {
					if !strings.Contains(rep, "WARNING: DATA RACE") {
						continue
					}
					all++
					if strings.Contains(rep, "github.com/gopherjs/gopherjs") {
						ours++
						if first == "" {
							first = rep
						}
					}
				}
			}
			cc.mu.Lock()
			cc.raceRuns++
			cc.raceReports += all
			cc.raceReportsGJS += ours
			cc.mu.Unlock()
			k.eval(1)
			if ours > 0 {
				k.violate("race/"+name, fmt.Sprintf("%d data race report(s) with github.com/gopherjs/gopherjs frames during concurrent Store/Load in one process; first:\n%s", ours, tail(first, 3000)), map[string]string{"payloads.json": mustJSON(payloads)})
			} else if all > 0 {
				c.Inconclusive("race-reports-outside-gopherjs")
				fmt.Println("C20: data race reports without gopherjs frames (harness?):", all)
			}
			outs := append(append([]cw.ConcOut{}, out.Writers...), out.Readers...)
			oks := make([]bool, len(outs))
			for i := range oks {
				oks[i] = true
			}
			k.concJudge("goroutines-"+name, payloads, outs, oks)
		}
	}
	// quick: 16 writers x 12 stores and 16 readers (the race runtime is ~15x slower here); thorough: x 50
	jobs := []func(){one("sources", srcs, k.c.N(8, 50))}
	if !k.c.Quick() {
		jobs = append(jobs, one("mock", mocks[:3], 50))
	}
	return jobs
}

func (k *check) finishConc() {
	c := k.c
	c.Count("concurrent_stores", cc.stores)
	c.Count("concurrent_loads", cc.loads)
	c.Count("concurrent_load_hits", cc.hits)
	c.Count("concurrent_load_misses", cc.misses)
	c.Count("concurrent_raw_reads_of_key_path", cc.rawReads)
	c.Count("race_detector_runs", cc.raceRuns)
	c.Count("race_reports_total", cc.raceReports)
	c.Count("race_reports_with_gopherjs_frames", cc.raceReportsGJS)
	k.extra["concurrent_hits_by_payload"] = cc.payloadsSeen
	k.belowFloor("concurrent load hits", cc.hits, 500)
	k.belowFloor("race detector runs", cc.raceRuns, 1)
}
