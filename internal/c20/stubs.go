package c20

func (k *check) isolationJobs() (jobs, post []func())   { return nil, nil }
func (k *check) damageJobs() (jobs, post []func())      { return nil, nil }
func (k *check) crashJobs() (jobs, post []func())       { return nil, nil }
func (k *check) concurrencyJobs() (jobs, post []func()) { return nil, nil }
func (k *check) raceJobs(bin string) []func()           { return nil }
func (k *check) buildRaceBinary() string                { return "" }
func (k *check) finishDamage()                          {}
func (k *check) finishCrash()                           {}
