package c20

import (
	"fmt"
	"os"
	"path/filepath"
	"sort"
	"strings"
	"sync"
	"time"

	"verif/internal/c20/cw"
	"verif/internal/core"
)

// every ast node type that can occur below an *ast.File
var allNodeKinds = []string{
	"Comment", "CommentGroup", "Field", "FieldList", "File",
	"BadExpr", "Ident", "Ellipsis", "BasicLit", "FuncLit", "CompositeLit", "ParenExpr", "SelectorExpr",
	"IndexExpr", "IndexListExpr", "SliceExpr", "TypeAssertExpr", "CallExpr", "StarExpr", "UnaryExpr",
	"BinaryExpr", "KeyValueExpr", "ArrayType", "StructType", "FuncType", "InterfaceType", "MapType", "ChanType",
	"BadStmt", "DeclStmt", "EmptyStmt", "LabeledStmt", "ExprStmt", "SendStmt", "IncDecStmt", "AssignStmt",
	"GoStmt", "DeferStmt", "ReturnStmt", "BranchStmt", "BlockStmt", "IfStmt", "CaseClause", "SwitchStmt",
	"TypeSwitchStmt", "CommClause", "SelectStmt", "ForStmt", "RangeStmt",
	"ImportSpec", "ValueSpec", "TypeSpec", "BadDecl", "GenDecl", "FuncDecl",
}

type transState struct {
	kinds, kindsRestored map[string]int
	roundTrips           int
	exact                int
	floatingOnly         int
	corpusPkgs, stdPkgs  int
	stdFailed            map[string]string
	bytes                int
	e2eBuilds            int
	e2eHits, e2eMisses   int
	e2eStores            int
	e2ePrograms          int
}

var ts = &transState{kinds: map[string]int{}, kindsRestored: map[string]int{}, stdFailed: map[string]string{}}

func readFiles(dir string) map[string]string {
	out := map[string]string{}
	filepath.Walk(dir, func(p string, info os.FileInfo, err error) error {
		if err == nil && !info.IsDir() && (strings.HasSuffix(p, ".go") || strings.HasSuffix(p, ".mod")) {
			b, _ := os.ReadFile(p)
			rel, _ := filepath.Rel(dir, p)
			out[rel] = string(b)
		}
		return nil
	})
	return out
}

func (k *check) transparencyJobs() (jobs, post []func()) {
	c := k.c
	ts = &transState{kinds: map[string]int{}, kindsRestored: map[string]int{}, stdFailed: map[string]string{}}
	pkgs := genCorpus(c.Rand("corpus"), c.N(30, 150))

	files := map[string]string{"impl/impl.go": implPkg}
	for n, src := range badPkg {
		files[n] = src
	}
	var clean []corpusPkg
	for _, p := range pkgs {
		for n, src := range p.Files {
			files[p.Name+"/"+n] = src
		}
		if !p.Floating {
			clean = append(clean, p)
		}
	}
	files["main.go"] = mainFor(clean, "")
	prog := c.WriteProgram(&core.Program{Name: "c20/corpus", Files: files})
	c.Count("corpus_packages", len(pkgs))
	c.Count("corpus_packages_with_floating_directive", len(pkgs)-len(clean))
	if len(pkgs) > 0 {
		c.Sample(map[string]any{"corpus_package": pkgs[0].Path, "features": pkgs[0].Features, "files": len(pkgs[0].Files)})
	}

	// (a)(b) corpus round trips, sharded
	type rtPkg struct {
		Dir, ImportPath string
		Lenient         bool
	}
	all := []rtPkg{{filepath.Join(prog, "impl"), "prog/impl", false}, {filepath.Join(prog, "bad"), "prog/bad", true}, {prog, "prog", false}}
	for _, p := range pkgs {
		all = append(all, rtPkg{filepath.Join(prog, p.Name), p.Path, false})
	}
	// the sentinels take part as ordinary regression cases
	for _, s := range []string{"floating-linkname", "attached-linkname"} {
		all = append(all, rtPkg{filepath.Join(c.Verif, "sentinels", "C20", s, "lk"), "prog/lk", false})
	}
	shards := 4
	for sh := 0; sh < shards; sh++ {
		sh := sh
		jobs = append(jobs, func() {
			d := c.Dir("rt-corpus")
			var job cw.RTJob
			job.Scratch = c.Scratch
			job.Out = filepath.Join(d, "out.json")
			for i, p := range all {
				if i%shards == sh {
					job.Pkgs = append(job.Pkgs, struct {
						Dir, ImportPath string
						Lenient         bool
					}{p.Dir, p.ImportPath, p.Lenient})
				}
			}
			var res []cw.RTResult
			r, ok := k.child("c20-roundtrip", d, job, job.Out, &res, 10*time.Minute)
			if !ok {
				c.Inconclusive("roundtrip-child-failed")
				fmt.Println("c20-roundtrip child failed:", tail(r.Stderr, 600))
				return
			}
			for i, x := range res {
				k.judgeRoundTrip("corpus", x, job.Pkgs[i].Dir)
			}
		})
	}

	// std packages with overlays, loaded through the real session
	var std []string
	nat := filepath.Join(c.Repo, "compiler", "natives", "src")
	filepath.Walk(nat, func(p string, info os.FileInfo, err error) error {
		if err != nil || !info.IsDir() {
			return nil
		}
		ents, _ := os.ReadDir(p)
		for _, e := range ents {
			if strings.HasSuffix(e.Name(), ".go") && !strings.HasSuffix(e.Name(), "_test.go") {
				rel, _ := filepath.Rel(nat, p)
				std = append(std, filepath.ToSlash(rel))
				break
			}
		}
		return nil
	})
	sort.Strings(std)
	c.Count("std_overlay_packages_requested", len(std))
	stdShards := 4
	for sh := 0; sh < stdShards; sh++ {
		sh := sh
		jobs = append(jobs, func() {
			d := c.Dir("rt-std")
			job := struct {
				Scratch string
				Pkgs    []string
				All     bool
				Out     string
			}{Scratch: c.Scratch, All: !c.Quick(), Out: filepath.Join(d, "out.json")}
			for i, p := range std {
				if i%stdShards == sh {
					job.Pkgs = append(job.Pkgs, p)
				}
			}
			var res struct {
				Results    []cw.RTResult
				LoadFailed map[string]string
			}
			// cwd must be a module directory for the go/build lookups of the session
			os.WriteFile(filepath.Join(d, "go.mod"), []byte("module stdrt\n\ngo 1.20\n"), 0o644)
			r, ok := k.child("c20-stdrt", d, job, job.Out, &res, 15*time.Minute)
			if !ok {
				c.Inconclusive("stdrt-child-failed")
				fmt.Println("c20-stdrt child failed:", tail(r.Stderr, 600))
				return
			}
			for p, e := range res.LoadFailed {
				c.Inconclusive("std-package-does-not-load")
				k.mu.Lock()
				ts.stdFailed[p] = firstLineOf(e)
				k.mu.Unlock()
			}
			for _, x := range res.Results {
				k.judgeRoundTrip("std", x, "")
			}
		})
	}

	// (c) end to end
	e2ePkgs := clean
	if len(e2ePkgs) > 60 {
		e2ePkgs = e2ePkgs[:60]
	}
	if c.Quick() {
		// a smaller program with every clean feature (stride 3 over the feature list)
		e2ePkgs = nil
		for _, p := range genCorpusStride(c.Rand("corpus-e2e"), 8, 3) {
			if !p.Floating {
				e2ePkgs = append(e2ePkgs, p)
			}
		}
	}
	addTagFile(e2ePkgs)
	e2e := []func(){
		func() { k.e2eTags(e2ePkgs) },
		func() { k.e2eTransparency(e2ePkgs) },
		func() { k.e2eStaleness(e2ePkgs) },
		func() { k.e2eSentinel() },
	}
	jobs = append(e2e, jobs...)
	return jobs, nil
}

// addTagFile makes package 0 sensitive to the build tag c20tag (used by the tagged end-to-end build).
func addTagFile(pkgs []corpusPkg) {
	if len(pkgs) == 0 || pkgs[0].Files["tag_on.go"] != "" {
		return
	}
	for n, src := range pkgs[0].Files {
		if strings.Contains(src, "func Sum() int {\n\treturn ") {
			pkgs[0].Files[n] = strings.Replace(src, "func Sum() int {\n\treturn ", "func Sum() int {\n\treturn tagBonus + ", 1)
		}
	}
	pkgs[0].Files["tag_on.go"] = "//go:build c20tag\n\npackage " + pkgs[0].Name + "\n\nconst tagBonus = 100000\n"
	pkgs[0].Files["tag_off.go"] = "//go:build !c20tag\n\npackage " + pkgs[0].Name + "\n\nconst tagBonus = 0\n"
}

func firstLineOf(s string) string {
	if i := strings.IndexByte(s, '\n'); i >= 0 {
		return s[:i]
	}
	return s
}

func (k *check) judgeRoundTrip(origin string, x cw.RTResult, dir string) {
	c := k.c
	name := origin + "/" + x.ImportPath
	if dir != "" && strings.Contains(dir, "sentinels") {
		name = "sentinel/" + filepath.Base(filepath.Dir(dir))
	}
	if strings.HasPrefix(x.Detail, "PARSE: ") {
		c.Inconclusive("corpus-package-does-not-parse")
		fmt.Println("C20 generator mishap:", name, x.Detail)
		return
	}
	k.eval(1)
	var files map[string]string
	if dir != "" {
		files = readFiles(dir)
	}
	k.mu.Lock()
	ts.roundTrips++
	ts.bytes += x.Bytes
	if origin == "std" {
		ts.stdPkgs++
	} else {
		ts.corpusPkgs++
	}
	for kind, n := range x.Kinds {
		ts.kinds[kind] += n
	}
	for kind, n := range x.KindsRestored {
		ts.kindsRestored[kind] += n
	}
	k.distinct["pkg/"+name] = true
	k.mu.Unlock()
	switch {
	case x.Panic != "" && !x.Loaded:
		k.violate("transparency/panic/"+name, fmt.Sprintf("round trip of %s panicked: %s", name, x.Panic), files)
	case !x.Stored:
		k.violate("transparency/store-failed/"+name, fmt.Sprintf("BuildCache.Store refused the well-formed package %s (%d files) in a healthy cache directory: its node kinds cannot be cached (kinds: %v)", name, x.Files, kindList(x.Kinds)), files)
	case !x.Loaded:
		k.violate("transparency/load-missed/"+name, fmt.Sprintf("package %s was stored (%d bytes) but the immediate Load under the same configuration and time missed", name, x.Bytes), files)
	case x.Exact:
		k.mu.Lock()
		ts.exact++
		k.mu.Unlock()
	case x.FloatingOnly:
		k.mu.Lock()
		ts.floatingOnly++
		k.mu.Unlock()
		w := fmt.Sprintf("%s: %d floating comment group(s) lost; %s", name, x.FloatingGroups, x.Detail)
		if x.LinkDiffers {
			k.classViolate("floating-comment-dropped/linkname",
				"a //go:linkname directive in a comment group that is not attached to a declaration is lost in the cache round trip: ParseGoLinknames on the restored package differs (serializer.go prepareFile clears File.Comments, unpackFile rebuilds only comments reachable through ast.Inspect)",
				fmt.Sprintf("%s: directives before %v (err %q), after %v (err %q)", name, x.LinkOrig, firstLineOf(x.LinkErrOrig), x.LinkRestored, firstLineOf(x.LinkErrRestored)), files)
		}
		if x.PrintDiffers {
			k.classViolate("floating-comment-dropped/print",
				"the restored package printed with go/printer differs from the original exactly by the comment groups that are not attached to a node (restored == original minus floating groups, verified per instance)",
				w, nil)
		}
	default:
		k.violate("transparency/content/"+name, fmt.Sprintf("package %s restored from the cache differs from what was stored: %s (print differs=%v, linknames differ=%v: %v → %v)", name, x.Detail, x.PrintDiffers, x.LinkDiffers, x.LinkOrig, x.LinkRestored), files)
	}
	if x.Loaded && !x.SecondGeneration {
		k.violate("transparency/second-generation/"+name, fmt.Sprintf("storing the restored package %s again and loading it does not reproduce it", name), files)
	}
}

func kindList(m map[string]int) []string {
	var out []string
	for k := range m {
		out = append(out, k)
	}
	sort.Strings(out)
	return out
}

func (k *check) finishTransparency() {
	c := k.c
	missing := []string{}
	for _, kind := range allNodeKinds {
		if ts.kindsRestored[kind] > 0 {
			k.seen("kind/" + kind)
		} else {
			missing = append(missing, kind)
		}
	}
	k.extra["node_kinds_round_tripped"] = ts.kindsRestored
	k.extra["node_kinds_in_originals"] = ts.kinds
	k.extra["node_kinds_never_restored"] = missing
	k.extra["std_packages_not_loadable"] = ts.stdFailed
	c.Count("round_trips", ts.roundTrips)
	c.Count("round_trips_exact", ts.exact)
	c.Count("round_trips_equal_minus_floating_comments", ts.floatingOnly)
	c.Count("round_trip_packages_corpus", ts.corpusPkgs)
	c.Count("round_trip_packages_std", ts.stdPkgs)
	c.Count("round_trip_bytes_stored", ts.bytes)
	c.Count("node_kinds_round_tripped", len(allNodeKinds)-len(missing))
	c.Count("e2e_sessions", ts.e2eBuilds)
	c.Count("e2e_cache_hits_observed", ts.e2eHits)
	c.Count("e2e_cache_misses_observed", ts.e2eMisses)
	c.Count("e2e_cache_stores_observed", ts.e2eStores)
	k.belowFloor("node kinds restored", len(allNodeKinds)-len(missing), len(allNodeKinds))
	k.belowFloor("round trips", ts.roundTrips, 30)
	k.belowFloor("std packages round-tripped", ts.stdPkgs, 10)
	k.belowFloor("end-to-end cache hits", ts.e2eHits, 20)
}

// ------------------------------------------------------------------------------------------- end to end

type buildStats struct {
	Mode               string
	LoadHits, LoadMiss []string
	StoreOK, StoreFail []string
	Packages           []string
	Error              string
}

type buildRes struct {
	stats buildStats
	js    string
	ok    bool
	out   string
}

func (k *check) build(dir, cacheHome, mode, name string, tags string, env ...string) buildRes {
	out := filepath.Join(dir, name+".js")
	sf := filepath.Join(dir, name+".stats.json")
	os.Remove(out)
	os.Remove(sf)
	args := []string{"c20-build", "-cache", mode, "-o", out, "-stats", sf, "-scratch", k.c.Scratch}
	if tags != "" {
		args = append(args, "-tags", tags)
	}
	r := core.Exec(dir, k.env(cacheHome, env...), 10*time.Minute, "", k.c.Self, args...)
	res := buildRes{out: r.Stdout + r.Stderr}
	if r.TimedOut {
		k.c.Inconclusive("e2e-build-timeout")
		return res
	}
	var st buildStats
	if b, err := os.ReadFile(sf); err == nil {
		jsonUnmarshal(b, &st)
	}
	res.stats = st
	b, err := os.ReadFile(out)
	res.js = string(b)
	res.ok = r.Exit == 0 && err == nil && len(b) > 0
	k.mu.Lock()
	ts.e2eBuilds++
	ts.e2eHits += len(st.LoadHits)
	ts.e2eMisses += len(st.LoadMiss)
	ts.e2eStores += len(st.StoreOK)
	k.mu.Unlock()
	return res
}

func setOf(xs []string) map[string]bool {
	m := map[string]bool{}
	for _, x := range xs {
		m[x] = true
	}
	return m
}

func minus(a, b []string) []string {
	bs := setOf(b)
	var out []string
	for _, x := range a {
		if !bs[x] {
			out = append(out, x)
		}
	}
	return out
}

func jsDiff(a, b string) string {
	la, lb := strings.Split(a, "\n"), strings.Split(b, "\n")
	for i := 0; i < len(la) || i < len(lb); i++ {
		x, y := "<eof>", "<eof>"
		if i < len(la) {
			x = la[i]
		}
		if i < len(lb) {
			y = lb[i]
		}
		if x != y {
			return fmt.Sprintf("first difference at line %d:\n  A: %.200s\n  B: %.200s", i+1, x, y)
		}
	}
	return "identical"
}

// expectCold / expectWarm check the traffic seen by the recording wrapper.
func (k *check) expectCold(prefix string, r buildRes, files map[string]string) {
	k.eval(1)
	if len(r.stats.LoadHits) > 0 {
		k.violate(prefix+"/cold-session-hit", fmt.Sprintf("a session on an empty cache directory loaded %v from the cache", r.stats.LoadHits), files)
	}
	if len(r.stats.StoreFail) > 0 {
		k.violate(prefix+"/store-failed", fmt.Sprintf("Store failed in a healthy cache directory for %v", r.stats.StoreFail), files)
	}
	if d := minus(r.stats.LoadMiss, r.stats.StoreOK); len(d) > 0 {
		k.violate(prefix+"/missed-not-stored", fmt.Sprintf("packages missed but never stored: %v", d), files)
	}
}

func (k *check) expectWarm(prefix string, r buildRes, stored []string, files map[string]string) {
	k.eval(1)
	if d := minus(stored, r.stats.LoadHits); len(d) > 0 {
		k.violate(prefix+"/warm-session-missed", fmt.Sprintf("a new session over unchanged sources missed %v although the previous session stored them (hits %d, misses %v)", d, len(r.stats.LoadHits), r.stats.LoadMiss), files)
	}
}

// e2eProgram is the corpus program laid out in a GOPATH (module-mode package lookups exec
// `go list` once per package, ~1 s each here; the sentinels are built in module mode).
type e2eProgram struct {
	gopath, dir string
	env         []string
	pkgs        []corpusPkg
}

func (k *check) writeE2E(pkgs []corpusPkg) *e2eProgram {
	gp := k.c.Dir("gopath")
	p := &e2eProgram{gopath: gp, dir: filepath.Join(gp, "src", "prog"), env: []string{"GO111MODULE=off", "GOPATH=" + gp}, pkgs: pkgs}
	files := map[string]string{"impl/impl.go": implPkg, "main.go": mainFor(pkgs, "")}
	for _, q := range pkgs {
		for n, src := range q.Files {
			files[q.Name+"/"+n] = src
		}
	}
	for n, src := range files {
		f := filepath.Join(p.dir, n)
		os.MkdirAll(filepath.Dir(f), 0o755)
		os.WriteFile(f, []byte(src), 0o644)
	}
	return p
}

// e2eFailCached: a session that takes packages from the cache fails although the NoCache
// build of the same sources succeeded – that is a violation, not a generator mishap.
func (k *check) e2eFailCached(prefix, step string, r, none buildRes, files map[string]string) bool {
	if r.ok {
		return false
	}
	if none.ok {
		k.violate(prefix+"/"+step+"-build-fails-with-cache", "the program builds without cache but the session "+step+", which restores packages from the cache, fails:\n"+tail(r.out, 1500), files)
		return true
	}
	return k.e2eFail(step, r)
}

func (k *check) e2eFail(step string, r buildRes) bool {
	if !r.ok {
		k.c.Inconclusive("e2e-program-does-not-build")
		fmt.Printf("C20 e2e: step %s of the corpus program failed to build (inconclusive):\n%s\n", step, tail(r.out, 1500))
		return true
	}
	return false
}

// e2eTransparency: NoCache vs cold vs warm session, then another tag set on the same cache
// directory, then the untagged build again.
func (k *check) e2eTransparency(pkgs []corpusPkg) {
	c := k.c
	const prefix = "e2e/corpus-program"
	p := k.writeE2E(pkgs)
	prog := p.dir
	files := readFiles(prog)
	home := c.Dir("e2e-cache")
	var none buildRes
	var wg sync.WaitGroup
	wg.Add(1)
	go func() { defer wg.Done(); none = k.build(prog, home, "none", "none", "", p.env...) }()
	cold := k.build(prog, home, "on", "cold", "", p.env...)
	wg.Wait()
	if k.e2eFail("none", none) || k.e2eFail("cold", cold) {
		return
	}
	run := c.RunNode(filepath.Join(prog, "none.js"), core.NodeOpt{Timeout: time.Minute})
	if run.Exit != 0 || !strings.Contains(run.Stdout, "total ") {
		c.Inconclusive("e2e-program-does-not-run")
		fmt.Println("C20 e2e: corpus program does not run under node (inconclusive):", tail(run.Stdout+run.Stderr, 800))
	}
	k.mu.Lock()
	ts.e2ePrograms++
	k.mu.Unlock()
	k.expectCold(prefix, cold, files)
	warm := k.build(prog, home, "on", "warm", "", p.env...)
	if !warm.ok {
		k.violate(prefix+"/warm-build-fails", "the program builds from source but fails when its packages are restored from the cache:\n"+tail(warm.out, 1500), files)
		return
	}
	k.expectWarm(prefix, warm, cold.stats.StoreOK, files)
	k.eval(2)
	if cold.js != none.js {
		k.violate(prefix+"/cold-vs-nocache", "JavaScript of the cold-cache session differs from the NoCache build: "+jsDiff(none.js, cold.js), files)
	}
	if warm.js != none.js {
		k.violate(prefix+"/warm-vs-nocache", "JavaScript compiled from packages restored from the cache differs from the NoCache build: "+jsDiff(none.js, warm.js), files)
	}
	c.Sample(map[string]any{"e2e": "corpus program", "packages": len(none.stats.Packages), "cold_misses": len(cold.stats.LoadMiss), "cold_stores": len(cold.stats.StoreOK),
		"warm_hits": len(warm.stats.LoadHits), "warm_misses": len(warm.stats.LoadMiss), "js_bytes": len(none.js)})

}

// e2eTags: another tag set on the same cache directory is another configuration – nothing may
// be shared in either direction.
func (k *check) e2eTags(pkgs []corpusPkg) {
	c := k.c
	const prefix = "e2e/corpus-program"
	p := k.writeE2E(pkgs)
	prog := p.dir
	files := readFiles(prog)
	home := c.Dir("e2e-cache")
	var none, tnone buildRes
	var wg sync.WaitGroup
	wg.Add(2)
	go func() { defer wg.Done(); none = k.build(prog, home, "none", "none", "", p.env...) }()
	go func() { defer wg.Done(); tnone = k.build(prog, home, "none", "tag-none", "c20tag", p.env...) }()
	cold := k.build(prog, home, "on", "cold", "", p.env...)
	if k.e2eFail("cold(tags)", cold) {
		wg.Wait()
		return
	}
	tcold := k.build(prog, home, "on", "tag-cold", "c20tag", p.env...)
	wg.Wait()
	if k.e2eFail("none(tags)", none) {
		return
	}
	if k.e2eFail("tag-none", tnone) || k.e2eFailCached(prefix, "tag-cold", tcold, tnone, files) {
		return
	}
	k.eval(2)
	if tnone.js == none.js {
		c.Inconclusive("e2e-tag-does-not-change-output")
	}
	if len(tcold.stats.LoadHits) > 0 {
		k.violate(prefix+"/other-tags-hit", fmt.Sprintf("a session with build tag c20tag loaded %d packages stored by a session without it: %.300v", len(tcold.stats.LoadHits), tcold.stats.LoadHits), files)
	}
	if tcold.js != tnone.js {
		k.violate(prefix+"/other-tags-js", "JavaScript of the tagged build with cache differs from the tagged NoCache build: "+jsDiff(tnone.js, tcold.js), files)
	}
	var twarm, warm2 buildRes
	wg.Add(1)
	go func() { defer wg.Done(); twarm = k.build(prog, home, "on", "tag-warm", "c20tag", p.env...) }()
	warm2 = k.build(prog, home, "on", "warm2", "", p.env...)
	wg.Wait()
	if !k.e2eFailCached(prefix, "tag-warm", twarm, tnone, files) {
		k.eval(1)
		k.expectWarm(prefix+"/tagged", twarm, tcold.stats.StoreOK, files)
		if twarm.js != tnone.js {
			k.violate(prefix+"/other-tags-warm-js", "JavaScript of the warm tagged build differs from the tagged NoCache build: "+jsDiff(tnone.js, twarm.js), files)
		}
	}
	if !k.e2eFailCached(prefix, "warm2", warm2, none, files) {
		k.eval(1)
		k.expectWarm(prefix+"/after-tagged", warm2, cold.stats.StoreOK, files)
		if warm2.js != none.js {
			k.violate(prefix+"/after-tagged-js", "after a tagged build used the same cache directory the untagged warm build differs from NoCache: "+jsDiff(none.js, warm2.js), files)
		}
	}
}

// e2eStaleness: edit one package after a cold session; it and its importers must be re-parsed,
// everything else must hit, and the output must equal the NoCache build of the edited program.
func (k *check) e2eStaleness(pkgs []corpusPkg) {
	c := k.c
	const prefix = "e2e/corpus-program"
	p := k.writeE2E(pkgs)
	prog := p.dir
	home := c.Dir("e2e-cache")
	cold := k.build(prog, home, "on", "cold", "", p.env...)
	if k.e2eFail("cold(staleness)", cold) {
		return
	}
	victim := pkgs[len(pkgs)/2]
	for n, src := range victim.Files {
		if strings.Contains(src, "func Sum() int {\n\treturn ") {
			src = strings.Replace(src, "func Sum() int {\n\treturn ", "func Sum() int {\n\treturn 777 + ", 1)
			time.Sleep(20 * time.Millisecond)
			os.WriteFile(filepath.Join(prog, victim.Name, n), []byte(src), 0o644)
		}
	}
	files2 := readFiles(prog)
	var mnone buildRes
	var wg sync.WaitGroup
	wg.Add(1)
	go func() { defer wg.Done(); mnone = k.build(prog, home, "none", "mod-none", "", p.env...) }()
	mcold := k.build(prog, home, "on", "mod-cold", "", p.env...)
	wg.Wait()
	if k.e2eFail("mod-none", mnone) || k.e2eFailCached(prefix, "mod-cold", mcold, mnone, files2) {
		return
	}
	k.eval(3)
	if mnone.js == cold.js {
		c.Inconclusive("e2e-edit-does-not-change-output")
	}
	hits := setOf(mcold.stats.LoadHits)
	for _, must := range []string{victim.Path, "prog", "."} {
		if hits[must] {
			k.violate(prefix+"/stale-hit", fmt.Sprintf("after editing %s the next session loaded %s from the cache (entry older than the sources)", victim.Path, must), files2)
		}
	}
	if mcold.js != mnone.js {
		k.violate(prefix+"/stale-js", fmt.Sprintf("after editing %s the cached build differs from the NoCache build: %s", victim.Path, jsDiff(mnone.js, mcold.js)), files2)
	}
	if len(mcold.stats.LoadHits) == 0 {
		c.Inconclusive("e2e-edit-invalidated-everything")
	}
	mwarm := k.build(prog, home, "on", "mod-warm", "", p.env...)
	if !k.e2eFailCached(prefix, "mod-warm", mwarm, mnone, files2) {
		k.eval(1)
		if mwarm.js != mnone.js {
			k.violate(prefix+"/stale-warm-js", "the session after the re-store differs from the NoCache build: "+jsDiff(mnone.js, mwarm.js), files2)
		}
		k.expectWarm(prefix+"/after-edit", mwarm, append(append([]string{}, mcold.stats.StoreOK...), mcold.stats.LoadHits...), files2)
	}
	c.Sample(map[string]any{"e2e": "after editing " + victim.Path, "hits": len(mcold.stats.LoadHits), "misses": mcold.stats.LoadMiss})
}

func (k *check) e2eSentinel() {
	verdict := map[string]string{}
	detail := map[string]string{}
	filesOf := map[string]map[string]string{}
	var wg sync.WaitGroup
	var vmu sync.Mutex
	for _, s := range []string{"floating-linkname", "attached-linkname"} {
		s := s
		wg.Add(1)
		go func() {
			defer wg.Done()
			k.e2eOneSentinel(s, &vmu, verdict, detail, filesOf)
		}()
	}
	wg.Wait()
	if verdict["attached-linkname"] == "differs" {
		k.violate("e2e/attached-linkname/warm-vs-nocache", "JavaScript compiled from restored packages differs from the NoCache build: "+detail["attached-linkname"], filesOf["attached-linkname"])
	}
	if verdict["floating-linkname"] == "differs" {
		if verdict["attached-linkname"] == "equal" {
			// same program, directive attached: round trip is transparent → the only cause is the floating group
			k.classViolate("floating-comment-dropped/e2e",
				"end to end: the program of sentinels/C20/floating-linkname compiles to different JavaScript from packages restored from the cache than from source, while its twin with the directive attached to the declaration (sentinels/C20/attached-linkname) is byte-identical",
				detail["floating-linkname"], filesOf["floating-linkname"])
		} else {
			k.violate("e2e/floating-linkname/warm-vs-nocache", "JavaScript compiled from restored packages differs from the NoCache build: "+detail["floating-linkname"], filesOf["floating-linkname"])
		}
	}
}

func (k *check) e2eOneSentinel(s string, vmu *sync.Mutex, verdict, detail map[string]string, filesOf map[string]map[string]string) {
	c := k.c
	set := func(m map[string]string, v string) { vmu.Lock(); m[s] = v; vmu.Unlock() }
	src := filepath.Join(c.Verif, "sentinels", "C20", s)
	files := readFiles(src)
	vmu.Lock()
	filesOf[s] = files
	vmu.Unlock()
	if len(files) == 0 {
		c.Inconclusive("sentinel-missing")
		return
	}
	prog := c.WriteProgram(&core.Program{Name: "c20/" + s, Files: files})
	home := c.Dir("e2e-cache")
	var none buildRes
	done := make(chan struct{})
	go func() { none = k.build(prog, home, "none", "none", ""); close(done) }()
	cold := k.build(prog, home, "on", "cold", "")
	warm := k.build(prog, home, "on", "warm", "")
	<-done
	if !none.ok || !cold.ok {
		c.Inconclusive("sentinel-does-not-build")
		fmt.Println("C20 e2e: sentinel", s, "does not build:", tail(none.out+cold.out, 800))
		return
	}
	k.mu.Lock()
	ts.e2ePrograms++
	k.mu.Unlock()
	k.expectCold("e2e/"+s, cold, files)
	k.eval(2)
	if cold.js != none.js {
		k.violate("e2e/"+s+"/cold-vs-nocache", "JavaScript of the cold-cache session differs from the NoCache build: "+jsDiff(none.js, cold.js), files)
	}
	switch {
	case !warm.ok:
		set(verdict, "differs")
		set(detail, "the warm build fails: "+tail(warm.out, 600))
	case warm.js != none.js:
		set(verdict, "differs")
		runN := c.RunNode(filepath.Join(prog, "none.js"), core.NodeOpt{Timeout: time.Minute})
		runW := c.RunNode(filepath.Join(prog, "warm.js"), core.NodeOpt{Timeout: time.Minute})
		set(detail, fmt.Sprintf("%s\nNoCache build prints %q (exit %d); build from restored packages prints %q (exit %d) %s", jsDiff(none.js, warm.js),
			strings.TrimSpace(runN.Stdout), runN.Exit, strings.TrimSpace(runW.Stdout), runW.Exit, firstLineOf(strings.TrimSpace(runW.Stderr))))
	default:
		set(verdict, "equal")
		k.expectWarm("e2e/"+s, warm, cold.stats.StoreOK, files)
	}
}
