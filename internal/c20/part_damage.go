package c20

import (
	"encoding/json"
	"fmt"
	"os"
	"path/filepath"
	"strings"
	"time"

	"verif/internal/c20/cw"
	"verif/internal/core"
)

type damageAgg struct {
	payload                                   string
	fileLen                                   int
	shas                                      map[string]bool
	trunc, flips, randoms, specials, sentinel int
	miss, hitEqual, hitDiffInt, hitDiffOther  int
	panics, panicsInt                         int
	boundaries                                int
	hitEqualSamples                           []cw.DamageHit
}

var dmg = map[string]*damageAgg{}

// copyGoFiles copies the non-test Go files of a GOROOT package into a scratch directory.
func copyGoFiles(from, to string, max int) int {
	os.MkdirAll(to, 0o755)
	ents, _ := os.ReadDir(from)
	n := 0
	for _, e := range ents {
		if !strings.HasSuffix(e.Name(), ".go") || strings.HasSuffix(e.Name(), "_test.go") || n >= max {
			continue
		}
		b, err := os.ReadFile(filepath.Join(from, e.Name()))
		if err == nil {
			os.WriteFile(filepath.Join(to, e.Name()), b, 0o644)
			n++
		}
	}
	return n
}

func (k *check) damagePayloads() (tiny, small, medium, large cw.PayloadSpec) {
	c := k.c
	r := core.Exec(c.Verif, core.BaseEnv(), time.Minute, "", "go", "env", "GOROOT")
	goroot := strings.TrimSpace(r.Stdout)
	d := c.Dir("damage-src")
	// small: one generated corpus package (a few hundred bytes to 4 KB of cache file)
	pk := genCorpusStride(c.Rand("damage-small"), 1, 1)[0]
	for n, src := range pk.Files {
		os.MkdirAll(filepath.Join(d, "small"), 0o755)
		os.WriteFile(filepath.Join(d, "small", n), []byte(src), 0o644)
	}
	small = cw.PayloadSpec("src:" + filepath.Join(d, "small") + ":prog/small")
	// the tiny payload is parsed from the committed sentinel directory (a fixed path keeps the
	// entry bytes, which contain Sources.Dir, identical between runs: sentinels/C20/damage.json
	// refers to offsets in it); fall back to a scratch copy if it is missing
	fixed := filepath.Join(c.Verif, "sentinels", "C20", "tiny-src")
	if b, err := os.ReadFile(filepath.Join(fixed, "tiny.go")); err == nil && string(b) == tinySource {
		tiny = cw.PayloadSpec("src:" + fixed + ":prog/tiny")
	} else {
		c.Inconclusive("damage-sentinel-source-missing-or-changed")
		os.MkdirAll(filepath.Join(d, "tiny"), 0o755)
		os.WriteFile(filepath.Join(d, "tiny", "tiny.go"), []byte(tinySource), 0o644)
		tiny = cw.PayloadSpec("src:" + filepath.Join(d, "tiny") + ":prog/tiny")
	}
	if copyGoFiles(filepath.Join(goroot, "src", "container", "list"), filepath.Join(d, "medium"), 100) > 0 {
		medium = cw.PayloadSpec("src:" + filepath.Join(d, "medium") + ":container/list")
	}
	if copyGoFiles(filepath.Join(goroot, "src", "strconv"), filepath.Join(d, "large"), 100) > 0 {
		large = cw.PayloadSpec("src:" + filepath.Join(d, "large") + ":strconv")
	}
	return
}

// tinySource is a real (parsed) Sources payload whose cache entry stays below 4 KB.
const tinySource = `// Package tiny is the smallest real Sources payload of the damage tests.
package tiny

import "math"

// Pair is generic.
type Pair[K comparable, V any] struct {
	Key K // line comment
	Val V
}

// floating comment

func Area(r float64) float64 { return math.Pi * r * r }

func Sum[T ~int | ~float64](xs ...T) (s T) {
	for _, x := range xs {
		s += x
	}
	return
}
`

func (k *check) damageJobs() (jobs, post []func()) {
	c := k.c
	dmg = map[string]*damageAgg{}
	tiny, small, medium, large := k.damagePayloads()
	masks := []int{0x01, 0x80, 0xff}
	var allMasks []int
	for m := 1; m < 256; m++ {
		allMasks = append(allMasks, m)
	}
	var sentinels []cw.DamageSentinel
	if b, err := os.ReadFile(filepath.Join(c.Verif, "sentinels", "C20", "damage.json")); err == nil {
		json.Unmarshal(b, &sentinels)
	}
	type plan struct {
		name   string
		job    cw.DamageJob
		shards int
	}
	seed := c.Seed
	plans := []plan{
		{"mock-tiny", cw.DamageJob{Payload: "mock:90:1", TruncAll: true, FlipMasks: masks, Special: true, Sentinels: sentinels}, 1},
		{"mock-1k", cw.DamageJob{Payload: "mock:1500:2", TruncAll: true, FlipMasks: masks, Random: c.N(1000, 100000)}, c.N(2, 8)},
		{"mock-4k", cw.DamageJob{Payload: "mock:7000:3", TruncAllMax: 8192, FlipMasks: masks, FlipAllMax: 4096, Random: c.N(500, 100000)}, c.N(2, 8)},
		{"sources-tiny", cw.DamageJob{Payload: tiny, TruncAll: true, FlipMasks: masks, Random: c.N(500, 100000), Special: true, Sentinels: sentinels}, c.N(2, 16)},
		{"sources-corpus-package", cw.DamageJob{Payload: small, TruncAllMax: 8192, TruncExtra: c.N(300, 3000), FlipMasks: masks, FlipAllMax: 4096, Random: c.N(1000, 100000)}, c.N(4, 16)},
	}
	if !c.Quick() {
		// thorough: all 255 masks at every offset of the entries up to 4 KB
		for i := range plans {
			plans[i].job.FlipMasks = allMasks
			plans[i].shards = 16
		}
	}
	if medium != "" {
		plans = append(plans, plan{"sources-medium", cw.DamageJob{Payload: medium, TruncAllMax: 8192, TruncExtra: c.N(300, 3000), FlipMasks: masks, FlipAllMax: 4096, Random: c.N(3000, 100000)}, c.N(4, 16)})
	} else {
		c.Inconclusive("damage-medium-payload-unavailable")
	}
	if large != "" {
		plans = append(plans, plan{"sources-large", cw.DamageJob{Payload: large, TruncAllMax: 8192, TruncExtra: c.N(150, 2000), FlipMasks: masks, FlipAllMax: 4096, Random: c.N(800, 20000)}, c.N(8, 32)}) // ~35 ms per load of this entry
	} else {
		c.Inconclusive("damage-large-payload-unavailable")
	}
	for _, pl := range plans {
		pl := pl
		dmg[pl.name] = &damageAgg{payload: string(pl.job.Payload), shas: map[string]bool{}}
		for sh := 0; sh < pl.shards; sh++ {
			sh := sh
			jobs = append(jobs, func() {
				d := c.Dir("damage")
				job := pl.job
				job.Scratch, job.Shard, job.Of, job.Seed, job.Out = c.Scratch, sh, pl.shards, seed, filepath.Join(d, "out.json")
				var out cw.DamageOut
				r, ok := k.child("c20-damage", d, job, job.Out, &out, 60*time.Minute)
				if !ok {
					c.Inconclusive("damage-child-failed")
					fmt.Printf("c20-damage child (%s shard %d) failed: exit=%d %s\n", pl.name, sh, r.Exit, tail(r.Stderr, 1500))
					if r.Exit != 0 && !r.TimedOut && strings.Contains(r.Stderr, "goroutine ") {
						k.violate("damage/"+pl.name+"/child-crashed", "the process loading damaged cache files died (fatal error that recover cannot catch):\n"+tail(r.Stderr, 3000), nil)
					}
					return
				}
				k.damageMerge(pl.name, sh, out)
			})
		}
	}
	return
}

func (k *check) damageMerge(name string, shard int, out cw.DamageOut) {
	c := k.c
	for _, why := range out.Inconclusive {
		c.Inconclusive("damage: " + why)
	}
	k.mu.Lock()
	a := dmg[name]
	a.fileLen = out.FileLen
	a.shas[out.FileSHA] = true
	a.trunc += out.Truncations
	a.flips += out.Flips
	a.randoms += out.Randoms
	a.specials += out.Specials
	a.sentinel += out.SentinelsRun
	if out.SentinelsDrifted > 0 {
		c.Count("damage_sentinels_on_changed_entry_encoding", out.SentinelsDrifted)
	}
	a.miss += out.Miss
	a.hitEqual += out.HitEqual
	a.hitDiffInt += out.HitDiffIntegrity
	a.hitDiffOther += out.HitDiffOther
	a.panics += out.Panics
	a.panicsInt += out.PanicsIntegrity
	if out.Boundaries > a.boundaries {
		a.boundaries = out.Boundaries
	}
	if len(a.hitEqualSamples) < 4 {
		a.hitEqualSamples = append(a.hitEqualSamples, out.HitEqualSamples...)
	}
	k.mu.Unlock()
	k.eval(out.Truncations + out.Flips + out.Randoms + out.Specials + out.SentinelsRun)
	for _, h := range out.Samples {
		id := fmt.Sprintf("%s %s offset=%d mask=%#02x of a %d-byte entry (sha256 %s…, payload %s)", name, h.Op, h.Offset, h.Mask, out.FileLen, out.FileSHA[:12], out.Payload)
		files := map[string]string{"case.json": mustJSON(map[string]any{"payload": out.Payload, "op": h.Op, "offset": h.Offset, "mask": h.Mask, "file_len": out.FileLen, "file_sha256": out.FileSHA, "strict_reader_says": h.StrictErr, "panic": h.Panic})}
		switch {
		case h.Panic != "" && h.StrictErr != "":
			k.classViolate("gzip-integrity-unverified/load-panics",
				"BuildCache.Load PANICS on a damaged entry instead of reporting a miss; an independent reader that drains the gzip stream rejects every one of these files (checksum/length/stream error), i.e. the integrity check documented in cache.go never runs before the decoded garbage is used",
				id+": panic "+h.Panic+"; strict reader: "+h.StrictErr, files)
		case h.Panic != "":
			k.violate(fmt.Sprintf("damage/%s/%s/%d/%d/panic", name, h.Op, h.Offset, h.Mask), "Load panicked on "+id+": "+h.Panic, files)
		case h.StrictErr != "":
			k.classViolate("gzip-integrity-unverified/hit-with-different-content",
				"BuildCache.Load returns true with content DIFFERENT from what was stored for a damaged entry; an independent reader that drains the gzip stream rejects every one of these files (checksum/length/stream error): deserialize never reads the stream to EOF, and gzip.Reader.Close does not verify the checksum, so the documented integrity check never happens",
				id+": "+h.What+"; strict reader: "+h.StrictErr, files)
		default:
			k.violate(fmt.Sprintf("damage/%s/%s/%d/%d", name, h.Op, h.Offset, h.Mask), "Load returned true with different content although the file is a complete, checksum-valid gzip member: "+id+": "+h.What, files)
		}
	}
}

func mustJSON(v any) string {
	b, _ := json.MarshalIndent(v, "", " ")
	return string(b) + "\n"
}

func (k *check) finishDamage() {
	c := k.c
	table := map[string]any{}
	ops := 0
	for name, a := range dmg {
		if len(a.shas) > 1 {
			c.Inconclusive("damage-entry-bytes-differ-between-processes")
		}
		n := a.trunc + a.flips + a.randoms + a.specials + a.sentinel
		ops += n
		table[name] = map[string]any{"payload": a.payload, "entry_bytes": a.fileLen, "truncation_offsets": a.trunc, "exhaustive_flips": a.flips, "random_corruptions": a.randoms,
			"special_cases": a.specials, "sentinels": a.sentinel, "gob_gzip_boundary_offsets": a.boundaries,
			"miss": a.miss, "hit_with_equal_content": a.hitEqual, "hit_with_different_content_integrity_unverified": a.hitDiffInt,
			"hit_with_different_content_other": a.hitDiffOther, "panics": a.panics, "hit_equal_samples": a.hitEqualSamples}
		c.Count("damage_truncations", a.trunc)
		c.Count("damage_single_byte_corruptions", a.flips+a.randoms)
		c.Count("damage_special_cases", a.specials)
		c.Count("damage_miss", a.miss)
		c.Count("damage_hit_equal_content", a.hitEqual)
		c.Count("damage_hit_different_content", a.hitDiffInt+a.hitDiffOther)
		c.Count("damage_panics", a.panics)
		// distinct: truncation points per file, plus outcome classes
		k.mu.Lock()
		for i := 0; i < a.trunc; i++ {
			k.distinct[fmt.Sprintf("trunc/%s/%d", name, i)] = true
		}
		for cls, v := range map[string]int{"miss": a.miss, "hit-equal": a.hitEqual, "hit-different": a.hitDiffInt + a.hitDiffOther, "panic": a.panics} {
			if v > 0 {
				k.distinct["damage/"+name+"/"+cls] = true
			}
		}
		k.mu.Unlock()
	}
	k.extra["damage"] = table
	k.belowFloor("damage operations", ops, c.N(8000, 300000))
}
