// Package cw ("cache workers") holds everything of the C20 check that touches the real
// build cache (github.com/gopherjs/gopherjs/build/cache) and the real Sources serializer. It
// runs only inside child processes whose user cache directory points into the scratch area
// (see Guard) and deliberately imports neither the build session nor the core package, so
// that the -race variant (internal/c20/racemain) stays a small binary.
package cw

import (
	"bytes"
	"encoding/gob"
	"fmt"
	"go/ast"
	"go/parser"
	"go/printer"
	"go/token"
	"hash/fnv"
	"math/rand"
	"os"
	"path/filepath"
	"reflect"
	"sort"
	"strings"

	log "github.com/sirupsen/logrus"

	"github.com/gopherjs/gopherjs/build/cache"
	"github.com/gopherjs/gopherjs/compiler/linkname"
	"github.com/gopherjs/gopherjs/compiler/sources"
)

// Guard refuses to run unless the cache root of this process lies inside the given scratch
// directory. The cache package computes its root once, at init, from os.UserCacheDir().
func Guard(scratch string) string {
	d, err := os.UserCacheDir()
	if err != nil || scratch == "" || !strings.HasPrefix(filepath.Clean(d)+"/", filepath.Clean(scratch)+"/") {
		fmt.Fprintf(os.Stderr, "c20 child: refusing to run, user cache dir %q is not below scratch %q\n", d, scratch)
		os.Exit(97)
	}
	// the cache logs every miss and every damaged entry through logrus; with hundreds of
	// thousands of deliberate misses the formatting dominates, so only errors are kept
	log.SetLevel(log.ErrorLevel)
	return filepath.Join(d, "gopherjs", "build_cache")
}

// Mock is the small cacheable (several gob messages, like Sources).
type Mock struct {
	Name string
	Nums []int64
	Blob []byte
}

func (m *Mock) Write(encode func(any) error) error {
	if err := encode(m.Name); err != nil {
		return err
	}
	if err := encode(m.Nums); err != nil {
		return err
	}
	return encode(m.Blob)
}

func (m *Mock) Read(decode func(any) error) error {
	if err := decode(&m.Name); err != nil {
		return err
	}
	if err := decode(&m.Nums); err != nil {
		return err
	}
	return decode(&m.Blob)
}

// NewMock builds a deterministic mock payload: text of the given size made of words (so that
// the deflate stream contains literals as well as matches) plus a few numbers.
func NewMock(tag string, size int, seed int64) *Mock {
	r := rand.New(rand.NewSource(seed))
	words := []string{"alpha", "beta", "gamma", "delta", "chan", "select", "func", "0123", "{}", "\n"}
	var sb strings.Builder
	sb.WriteString(tag)
	for sb.Len() < size {
		if r.Intn(3) == 0 {
			sb.WriteByte(byte(33 + r.Intn(90)))
		} else {
			sb.WriteString(words[r.Intn(len(words))])
		}
	}
	m := &Mock{Name: sb.String()}
	for i := 0; i < 4+size/64; i++ {
		m.Nums = append(m.Nums, r.Int63n(1<<40)-(1<<39))
	}
	m.Blob = make([]byte, 8+size/16)
	r.Read(m.Blob)
	return m
}

// Payload is a cacheable with an identity.
type Payload interface {
	cache.Cacheable
}

// Fingerprint is a canonical content hash of a loaded/stored cacheable: every exported field
// reachable from it (AST nodes with positions, comments, file set tables, JS files) except
// the deprecated ast fields the serializer documents as dropped (Obj, Scope, Unresolved).
func Fingerprint(p any) (fp string, err error) {
	defer func() {
		if r := recover(); r != nil {
			fp, err = "", fmt.Errorf("panic while fingerprinting: %v", r)
		}
	}()
	h := fnv.New128a()
	switch v := p.(type) {
	case *Mock:
		fmt.Fprintf(h, "mock %q %v %x", v.Name, v.Nums, v.Blob)
	case *sources.Sources:
		fmt.Fprintf(h, "sources %q %q %d\n", v.ImportPath, v.Dir, len(v.Files))
		for _, f := range v.Files {
			hashValue(h, reflect.ValueOf(f), 0)
		}
		h.Write(fileSetBytes(v.FileSet))
		for _, j := range v.JSFiles {
			fmt.Fprintf(h, "js %q %d %x\n", j.Path, j.ModTime.UnixNano(), j.Content)
		}
	default:
		return "", fmt.Errorf("unknown payload %T", p)
	}
	return fmt.Sprintf("%x", h.Sum(nil)), nil
}

func fileSetBytes(fs *token.FileSet) []byte {
	if fs == nil {
		return []byte("nil-fileset")
	}
	var buf bytes.Buffer
	enc := gob.NewEncoder(&buf)
	if err := fs.Write(enc.Encode); err != nil {
		return []byte("fileset-error:" + err.Error())
	}
	return buf.Bytes()
}

type hasher interface{ Write([]byte) (int, error) }

var skipField = map[string]bool{"Obj": true, "Scope": true, "Unresolved": true}

func hashValue(h hasher, v reflect.Value, depth int) {
	if depth > 5000 {
		panic("AST too deep (cyclic?)")
	}
	switch v.Kind() {
	case reflect.Interface:
		if v.IsNil() {
			h.Write([]byte{0})
			return
		}
		hashValue(h, v.Elem(), depth+1)
	case reflect.Pointer:
		if v.IsNil() {
			h.Write([]byte{0})
			return
		}
		h.Write([]byte{1})
		h.Write([]byte(v.Type().Elem().Name()))
		hashValue(h, v.Elem(), depth+1)
	case reflect.Struct:
		t := v.Type()
		for i := 0; i < t.NumField(); i++ {
			f := t.Field(i)
			if !f.IsExported() || skipField[f.Name] {
				continue
			}
			// File.Imports is reconstructed from the declarations: hash the paths only
			if f.Name == "Imports" && t.Name() == "File" {
				for j := 0; j < v.Field(i).Len(); j++ {
					is := v.Field(i).Index(j).Interface().(*ast.ImportSpec)
					if is != nil && is.Path != nil {
						fmt.Fprintf(h, "imp %q %d;", is.Path.Value, is.Path.ValuePos)
					} else {
						h.Write([]byte("imp nil;"))
					}
				}
				continue
			}
			h.Write([]byte{2})
			hashValue(h, v.Field(i), depth+1)
		}
	case reflect.Slice:
		fmt.Fprintf(h, "[%d]", v.Len())
		for i := 0; i < v.Len(); i++ {
			hashValue(h, v.Index(i), depth+1)
		}
	case reflect.String:
		fmt.Fprintf(h, "%q", v.String())
	case reflect.Int, reflect.Int8, reflect.Int16, reflect.Int32, reflect.Int64:
		fmt.Fprintf(h, "i%d;", v.Int())
	case reflect.Uint, reflect.Uint8, reflect.Uint16, reflect.Uint32, reflect.Uint64:
		fmt.Fprintf(h, "u%d;", v.Uint())
	case reflect.Bool:
		fmt.Fprintf(h, "b%v;", v.Bool())
	default:
		fmt.Fprintf(h, "?%s;", v.Kind())
	}
}

// ParseDir parses every .go file of dir (with comments, like the build does) into a Sources.
// Parse errors are tolerated when lenient is set (to obtain Bad* nodes).
func ParseDir(dir, importPath string, lenient bool) (*sources.Sources, error) {
	ents, err := os.ReadDir(dir)
	if err != nil {
		return nil, err
	}
	fset := token.NewFileSet()
	s := &sources.Sources{ImportPath: importPath, Dir: dir, FileSet: fset}
	var names []string
	for _, e := range ents {
		if strings.HasSuffix(e.Name(), ".go") {
			names = append(names, e.Name())
		}
	}
	sort.Strings(names)
	for _, n := range names {
		f, err := parser.ParseFile(fset, filepath.Join(dir, n), nil, parser.ParseComments)
		if err != nil && !(lenient && f != nil) {
			return nil, err
		}
		s.Files = append(s.Files, f)
	}
	return s, nil
}

// PrintFiles renders every file with go/printer, comments included.
func PrintFiles(s *sources.Sources) (out []string, err error) {
	defer func() {
		if r := recover(); r != nil {
			err = fmt.Errorf("panic in go/printer: %v", r)
		}
	}()
	for _, f := range s.Files {
		var buf bytes.Buffer
		cfg := printer.Config{Mode: printer.UseSpaces | printer.TabIndent, Tabwidth: 8}
		if e := cfg.Fprint(&buf, s.FileSet, f); e != nil {
			return out, e
		}
		out = append(out, buf.String())
	}
	return out, nil
}

// AttachedComments returns the comment groups reachable from the declarations (ast.Walk order)
// and the floating ones (in File.Comments only).
func AttachedComments(f *ast.File) (attached map[*ast.CommentGroup]bool, floating []*ast.CommentGroup) {
	attached = map[*ast.CommentGroup]bool{}
	ast.Inspect(f, func(n ast.Node) bool {
		if cg, ok := n.(*ast.CommentGroup); ok {
			attached[cg] = true
		}
		return true
	})
	for _, cg := range f.Comments {
		if !attached[cg] {
			floating = append(floating, cg)
		}
	}
	return
}

// WithoutFloating returns shallow copies of the files whose Comments list holds only the
// attached groups (what a serializer that drops floating comments would restore).
func WithoutFloating(s *sources.Sources) *sources.Sources {
	c := *s
	c.Files = nil
	for _, f := range s.Files {
		att, _ := AttachedComments(f)
		cp := *f
		cp.Comments = nil
		for _, cg := range f.Comments {
			if att[cg] {
				cp.Comments = append(cp.Comments, cg)
			}
		}
		c.Files = append(c.Files, &cp)
	}
	return &c
}

// Linknames runs the real directive parser on every file.
func Linknames(s *sources.Sources) (list []string, errText string) {
	for _, f := range s.Files {
		found, err := linkname.ParseGoLinknames(s.FileSet, s.ImportPath, f)
		if err != nil {
			errText += err.Error() + "\n"
		}
		for _, l := range found {
			list = append(list, fmt.Sprintf("%s.%s <- %s.%s", l.Reference.PkgPath, l.Reference.Name, l.Implementation.PkgPath, l.Implementation.Name))
		}
	}
	return
}

// NodeKinds counts ast node types reachable in the files (ast.Walk) plus the File.Comments lists.
func NodeKinds(s *sources.Sources, into map[string]int) {
	for _, f := range s.Files {
		ast.Inspect(f, func(n ast.Node) bool {
			if n != nil {
				into[reflect.TypeOf(n).Elem().Name()]++
			}
			return true
		})
		_, fl := AttachedComments(f)
		into["(floating CommentGroup)"] += len(fl)
	}
}
