package cw

import (
	"crypto/sha256"
	"fmt"
	"math/rand"
	"os"
	"path/filepath"
	"runtime/pprof"
	"strings"
	"sync"
	"time"

	"github.com/gopherjs/gopherjs/build/cache"
)

// ---------------------------------------------------------------- round trip of parsed directories

type RTJob struct {
	Scratch string
	Pkgs    []struct {
		Dir, ImportPath string
		Lenient         bool
	}
	Out string
}

func ChildRoundtrip(args []string) int {
	var job RTJob
	ReadJob(args[0], &job)
	root := Guard(job.Scratch)
	var out []RTResult
	for _, p := range job.Pkgs {
		s, err := ParseDir(p.Dir, p.ImportPath, p.Lenient)
		if err != nil {
			out = append(out, RTResult{ImportPath: p.ImportPath, Detail: "PARSE: " + err.Error()})
			continue
		}
		out = append(out, RoundTripOne(root, s))
	}
	WriteResult(job.Out, out)
	return 0
}

// ---------------------------------------------------------------- isolation, staleness, tested package

type IsoPair struct {
	Name     string
	Kind     string // field that differs
	Judged   bool   // false: semantically the same configuration, observed only
	A, B     Cfg
	IPA, IPB string
}

type TimeCase struct {
	Name                string
	BuildSec, BuildNsec int64
	SrcSec, SrcNsec     int64
	BuildZero, SrcZero  bool // use time.Time{}
	SrcZoneSec          int  // express the source time in a fixed zone with this offset
	BuildNow            bool // time.Now() (monotonic reading) as build time; Src* are offsets in ns from it
	ExpectHit           bool
}

type IsoJob struct {
	Scratch string
	Pairs   []IsoPair
	Times   []TimeCase
	Tested  []string // import paths P to play the package under test
	Out     string
}

type IsoPairRes struct {
	Name, Kind string
	Judged     bool
	SanityOK   bool // A stored → A loads A's payload
	CrossHitAB bool // stored under A, loaded under B
	CrossHitBA bool
	BothOK     bool // both stored: each loads its own payload
	BothDetail string
	Panic      string
}

type TimeRes struct {
	Name      string
	ExpectHit bool
	Hit       bool
	ContentOK bool
	Stored    bool
}

type TestedRes struct {
	P        string
	Problems []string
	Checks   int
}

type IsoOut struct {
	Pairs  []IsoPairRes
	Times  []TimeRes
	Tested []TestedRes
}

func ChildIso(args []string) int {
	var job IsoJob
	ReadJob(args[0], &job)
	root := Guard(job.Scratch)
	var out IsoOut
	t0 := time.Unix(1700000000, 0)
	for i, p := range job.Pairs {
		r := IsoPairRes{Name: p.Name, Kind: p.Kind, Judged: p.Judged}
		func() {
			defer func() {
				if x := recover(); x != nil {
					r.Panic = fmt.Sprint(x)
				}
			}()
			pa := NewMock("A/"+p.Name, 200, int64(2*i+1))
			pb := NewMock("B/"+p.Name, 260, int64(2*i+2))
			fa, _ := Fingerprint(pa)
			fb, _ := Fingerprint(pb)
			load := func(c Cfg, ip string) (bool, string) {
				m := &Mock{}
				if !c.BC().Load(m, ip, t0) {
					return false, ""
				}
				f, _ := Fingerprint(m)
				return true, f
			}
			cache.Clear()
			if !p.A.BC().Store(pa, p.IPA, t0) {
				return
			}
			h, f := load(p.A, p.IPA)
			r.SanityOK = h && f == fa
			r.CrossHitAB, _ = load(p.B, p.IPB)
			cache.Clear()
			if !p.B.BC().Store(pb, p.IPB, t0) {
				r.SanityOK = false
				return
			}
			r.CrossHitBA, _ = load(p.A, p.IPA)
			cache.Clear()
			p.A.BC().Store(pa, p.IPA, t0)
			p.B.BC().Store(pb, p.IPB, t0)
			ha, fa2 := load(p.A, p.IPA)
			hb, fb2 := load(p.B, p.IPB)
			r.BothOK = ha && hb && fa2 == fa && fb2 == fb
			if !r.BothOK {
				switch {
				case ha && fa2 == fb:
					r.BothDetail = "configuration A loads the payload stored under B"
				case !ha:
					r.BothDetail = "A misses after B was stored"
				default:
					r.BothDetail = fmt.Sprintf("hitA=%v hitB=%v contentA_ok=%v contentB_ok=%v", ha, hb, fa2 == fa, fb2 == fb)
				}
			}
		}()
		out.Pairs = append(out.Pairs, r)
	}
	cache.Clear()
	for i, tc := range job.Times {
		mk := func(sec, nsec int64, zero bool) time.Time {
			if zero {
				return time.Time{}
			}
			return time.Unix(sec, nsec)
		}
		var bt, st time.Time
		if tc.BuildNow {
			bt = time.Now()
			st = bt.Add(time.Duration(tc.SrcNsec)).Round(0) // strip the monotonic reading like an mtime
			if tc.SrcSec != 0 {
				st = bt.Add(time.Duration(tc.SrcSec) * time.Second).Round(0)
			}
		} else {
			bt = mk(tc.BuildSec, tc.BuildNsec, tc.BuildZero)
			st = mk(tc.SrcSec, tc.SrcNsec, tc.SrcZero)
		}
		if tc.SrcZoneSec != 0 {
			st = st.In(time.FixedZone("X", tc.SrcZoneSec))
		}
		p := NewMock("T/"+tc.Name, 180, int64(1000+i))
		fp, _ := Fingerprint(p)
		bc := DefaultCfg().BC()
		ip := fmt.Sprintf("times/%d", i)
		r := TimeRes{Name: tc.Name, ExpectHit: tc.ExpectHit}
		r.Stored = bc.Store(p, ip, bt)
		m := &Mock{}
		r.Hit, _ = SafeLoad(bc, m, ip, st)
		if r.Hit {
			f, _ := Fingerprint(m)
			r.ContentOK = f == fp
		}
		out.Times = append(out.Times, r)
	}
	for i, P := range job.Tested {
		cache.Clear()
		tr := TestedRes{P: P}
		bad := func(f string, a ...any) { tr.Problems = append(tr.Problems, fmt.Sprintf(f, a...)) }
		plain := DefaultCfg()
		tested := DefaultCfg()
		tested.Tested = P
		payload := func(k int) *Mock { return NewMock(fmt.Sprintf("tested/%d/%d", i, k), 150, int64(7000+10*i+k)) }
		hitFP := func(c Cfg, ip string) (bool, string) {
			m := &Mock{}
			if !c.BC().Load(m, ip, t0) {
				return false, ""
			}
			f, _ := Fingerprint(m)
			return true, f
		}
		// 1. never stored under the tested configuration
		for k, ip := range []string{P, P + "_test"} {
			if tested.BC().Store(payload(k), ip, t0) {
				bad("Store(%q) returned true with TestedPackage=%q", ip, P)
			}
			tr.Checks++
		}
		if es, tmps := Entries(root); len(es)+len(tmps) != 0 {
			bad("files appeared in the cache after storing only the package under test: %v %v", es, tmps)
		}
		tr.Checks++
		// 2. never loaded, even if a non-test build left an entry under the same key
		for k, ip := range []string{P, P + "_test"} {
			if !plain.BC().Store(payload(2+k), ip, t0) {
				bad("plain Store(%q) failed", ip)
			}
			if h, _ := hitFP(plain, ip); !h {
				bad("plain Load(%q) missed (vacuous check)", ip)
			}
			if h, _ := hitFP(tested, ip); h {
				bad("Load(%q) hit with TestedPackage=%q", ip, P)
			}
			tr.Checks += 3
		}
		// 3. other packages – including near misses of the name – are cached under the tested
		// configuration and shared with the plain one
		for j, other := range []string{"other/" + P + "x", P + "x", P + "_tes", P + "_test2", P + "_test/sub", P + "/sub", "pre" + P, "_test"[1:] + P} {
			po := payload(10 + j)
			fo, _ := Fingerprint(po)
			if !tested.BC().Store(po, other, t0) {
				bad("Store(%q) refused with TestedPackage=%q", other, P)
			}
			if h, f := hitFP(tested, other); !h || f != fo {
				bad("Load(%q) with TestedPackage=%q: hit=%v content_ok=%v", other, P, h, f == fo)
			}
			if h, f := hitFP(plain, other); !h || f != fo {
				bad("Load(%q) under the plain configuration: hit=%v content_ok=%v", other, h, f == fo)
			}
			tr.Checks += 3
		}
		out.Tested = append(out.Tested, tr)
	}
	WriteResult(job.Out, out)
	return 0
}

// ---------------------------------------------------------------- damage

type DamageJob struct {
	Scratch     string
	Payload     PayloadSpec
	Shard, Of   int
	TruncAll    bool // every offset 0..len-1
	TruncAllMax int  // … or whenever the file is at most this long
	FlipAllMax  int  // exhaustive flips only if the file is at most this long (0 = always)
	TruncExtra  int  // else: boundaries + this many seeded offsets
	Sentinels   []DamageSentinel
	FlipMasks   []int // exhaustive single-byte corruption with these masks (all offsets)
	Random      int   // this many seeded (offset, mask) corruptions
	Seed        int64
	Special     bool // zero-length, directory, unreadable, trailing garbage …
	Out         string
}

// DamageSentinel is a fixed damaged-entry case (sentinels/C20/damage.json).
type DamageSentinel struct {
	Name         string
	Payload      PayloadSpec
	Op           string // "flip" | "trunc"
	Offset, Mask int
	FileSHA      string // of the undamaged entry the offsets refer to
}

type DamageHit struct {
	Op           string // "trunc" "flip" "random" "special:<name>"
	Offset, Mask int
	StrictErr    string // what the independent complete-file check says about the damaged file
	Panic        string
	What         string
}

type DamageOut struct {
	Payload          PayloadSpec
	FileLen          int
	FileSHA          string
	Boundaries       int
	Truncations      int
	Flips            int
	Randoms          int
	Specials         int
	SentinelsRun     int
	SentinelsDrifted int
	Miss             int
	HitEqual         int
	// hits with different content, split by what the independent strict reader says about the file
	HitDiffIntegrity int // strict reader rejects the file (checksum/length/stream error): integrity check missing
	HitDiffOther     int
	Panics           int
	PanicsIntegrity  int
	Inconclusive     []string
	Samples          []DamageHit // first few of each bad class
	HitEqualSamples  []DamageHit
}

func ChildDamage(args []string) int {
	var job DamageJob
	ReadJob(args[0], &job)
	root := Guard(job.Scratch)
	if pf := os.Getenv("C20_CPUPROFILE"); pf != "" { // development aid
		if f, err := os.Create(pf); err == nil {
			pprof.StartCPUProfile(f)
			defer pprof.StopCPUProfile()
		}
	}
	out := DamageOut{Payload: job.Payload}
	p, err := job.Payload.Make()
	if err != nil {
		out.Inconclusive = append(out.Inconclusive, "payload: "+err.Error())
		WriteResult(job.Out, out)
		return 0
	}
	bc := DefaultCfg().BC()
	bt := time.Unix(1700000000, 0)
	const ip = "damage/pkg"
	path, ok := StoreLocate(root, bc, p, ip, bt)
	if !ok || path == "" {
		out.Inconclusive = append(out.Inconclusive, "reference store failed")
		WriteResult(job.Out, out)
		return 0
	}
	orig, _ := os.ReadFile(path)
	out.FileLen = len(orig)
	out.FileSHA = fmt.Sprintf("%x", sha256.Sum256(orig))
	fr := job.Payload.Fresh()
	if hit, _ := SafeLoad(bc, fr, ip, bt); !hit {
		out.Inconclusive = append(out.Inconclusive, "pristine load missed")
		WriteResult(job.Out, out)
		return 0
	}
	ref, _ := Fingerprint(fr)

	n := 0
	mine := func() bool { n++; return job.Of <= 1 || (n-1)%job.Of == job.Shard }
	perClass := map[string]int{}
	addSample := func(h DamageHit) {
		cls := fmt.Sprint(h.Panic != "", h.StrictErr != "", h.Op)
		if perClass[cls] < 4 {
			perClass[cls]++
			out.Samples = append(out.Samples, h)
		}
	}
	judge := func(op string, off, mask int, data []byte) {
		if data != nil {
			if err := os.WriteFile(path, data, 0o644); err != nil {
				out.Inconclusive = append(out.Inconclusive, "cannot write damaged file: "+err.Error())
				return
			}
		}
		into := job.Payload.Fresh()
		hit, pan := SafeLoad(bc, into, ip, bt)
		strict := ""
		if data != nil {
			if e := StrictComplete(data); e != nil {
				strict = e.Error()
			}
		} else {
			strict = "(not a regular readable file)"
		}
		h := DamageHit{Op: op, Offset: off, Mask: mask, StrictErr: strict, Panic: pan}
		switch {
		case pan != "":
			out.Panics++
			if strict != "" {
				out.PanicsIntegrity++
			}
			h.What = "Load panicked"
			addSample(h)
		case !hit:
			out.Miss++
		default:
			fp, ferr := Fingerprint(into)
			if ferr == nil && fp == ref {
				out.HitEqual++
				if len(out.HitEqualSamples) < 6 {
					out.HitEqualSamples = append(out.HitEqualSamples, h)
				}
				return
			}
			if strict != "" {
				out.HitDiffIntegrity++
			} else {
				out.HitDiffOther++
			}
			h.What = "Load returned true with content different from what was stored"
			if ferr != nil {
				h.What += " (" + ferr.Error() + ")"
			}
			if m, ok := into.(*Mock); ok {
				h.What += fmt.Sprintf("; Name=%.60q… Nums=%d Blob=%d bytes", m.Name, len(m.Nums), len(m.Blob))
			}
			addSample(h)
		}
	}

	// truncations
	var offs []int
	if job.TruncAll || len(orig) <= job.TruncAllMax {
		for o := 0; o < len(orig); o++ {
			offs = append(offs, o)
		}
	} else if job.TruncExtra > 0 {
		b := Boundaries(orig)
		out.Boundaries = len(b)
		seen := map[int]bool{}
		for _, o := range b {
			seen[o] = true
		}
		r := rand.New(rand.NewSource(job.Seed ^ 0x7472756e63))
		for i := 0; i < job.TruncExtra; i++ {
			seen[r.Intn(len(orig))] = true
		}
		for o := 0; o < len(orig); o++ {
			if seen[o] {
				offs = append(offs, o)
			}
		}
	}
	for _, o := range offs {
		if !mine() {
			continue
		}
		out.Truncations++
		judge("trunc", o, 0, orig[:o])
	}
	// exhaustive flips
	buf := make([]byte, len(orig))
	for _, m := range job.FlipMasks {
		if job.FlipAllMax > 0 && len(orig) > job.FlipAllMax {
			break
		}
		for o := 0; o < len(orig); o++ {
			if !mine() {
				continue
			}
			copy(buf, orig)
			buf[o] ^= byte(m)
			out.Flips++
			judge("flip", o, m, buf)
		}
	}
	// random corruptions
	if job.Random > 0 {
		r := rand.New(rand.NewSource(job.Seed ^ 0x72616e64))
		for i := 0; i < job.Random; i++ {
			o, m := r.Intn(len(orig)), 1+r.Intn(255)
			if !mine() {
				continue
			}
			copy(buf, orig)
			buf[o] ^= byte(m)
			out.Randoms++
			judge("random", o, m, buf)
		}
	}
	for _, sn := range job.Sentinels {
		if job.Shard != 0 {
			break
		}
		if sn.Payload != job.Payload {
			continue
		}
		if sn.Offset >= len(orig) {
			out.Inconclusive = append(out.Inconclusive, "sentinel "+sn.Name+": offset beyond the entry")
			continue
		}
		if sn.FileSHA != out.FileSHA {
			// the entry encoding changed (e.g. after a serializer fix): the case no longer is the
			// recorded witness, but it still is a valid damaged-entry case for the same oracle
			out.SentinelsDrifted++
		}
		out.SentinelsRun++
		if sn.Op == "trunc" {
			judge("trunc", sn.Offset, 0, orig[:sn.Offset])
		} else {
			copy(buf, orig)
			buf[sn.Offset] ^= byte(sn.Mask)
			judge("flip", sn.Offset, sn.Mask, buf)
		}
	}
	if job.Special && job.Shard == 0 {
		sp := func(name string, data []byte) {
			out.Specials++
			judge("special:"+name, 0, 0, data)
		}
		sp("zero-length", []byte{})
		sp("one-byte", orig[:1])
		sp("header-only", orig[:10])
		sp("trailing-garbage", append(append([]byte{}, orig...), []byte("garbage after the gzip member")...))
		sp("doubled", append(append([]byte{}, orig...), orig...))
		sp("all-zero", make([]byte, len(orig)))
		sp("not-gzip", []byte("package main\n"))
		// a directory in place of the file
		os.Remove(path)
		if err := os.Mkdir(path, 0o755); err == nil {
			out.Specials++
			judge("special:directory", 0, 0, nil)
			os.Remove(path)
		}
		// dangling symlink
		if err := os.Symlink(filepath.Join(root, "does-not-exist"), path); err == nil {
			out.Specials++
			judge("special:dangling-symlink", 0, 0, nil)
			os.Remove(path)
		}
		// unreadable
		os.WriteFile(path, orig, 0o644)
		os.Chmod(path, 0)
		if f, err := os.Open(path); err == nil {
			f.Close()
			out.Inconclusive = append(out.Inconclusive, "chmod 000 file still readable (running as root)")
		} else {
			out.Specials++
			judge("special:unreadable", 0, 0, nil)
		}
		os.Chmod(path, 0o644)
		// missing
		os.Remove(path)
		out.Specials++
		judge("special:missing", 0, 0, nil)
	}
	WriteResult(job.Out, out)
	return 0
}

// ---------------------------------------------------------------- crash points: store under fault, verify afterwards

type StoreJob struct {
	Scratch    string
	Payload    PayloadSpec
	ImportPath string
}

// ChildStore performs exactly one Store (the process that strace injects faults into).
// exit 0: Store returned true; 3: returned false; 4: panicked.
func ChildStore(args []string) int {
	var job StoreJob
	ReadJob(args[0], &job)
	Guard(job.Scratch)
	p, err := job.Payload.Make()
	if err != nil {
		return 5
	}
	ok, pan := SafeStore(DefaultCfg().BC(), p, job.ImportPath, time.Unix(1700000000, 0))
	if pan != "" {
		fmt.Fprintln(os.Stderr, "PANIC in Store:", pan)
		return 4
	}
	if !ok {
		return 3
	}
	return 0
}

type VerifyJob struct {
	Scratch    string
	ImportPath string
	Allowed    []PayloadSpec // complete payloads that may legitimately be found
	Again      PayloadSpec   // stored afterwards; must succeed and load exactly
	// Homes: cache homes (XDG_CACHE_HOME values) left behind by faulted stores. Their cache
	// directory is moved, one after the other, to the root of this fresh process and examined.
	Homes []string
	Out   string
}

type VerifyOut struct {
	Entries, Temps  int
	IncompleteEntry string // an entry (key path) that is not a complete file
	Hit             bool
	HitIndex        int // which allowed payload, -1 = none (violation)
	Panic           string
	AgainStored     bool
	AgainExact      bool
	Err             string
}

// ChildVerify runs in a fresh process after (faulted) stores of other processes.
func ChildVerify(args []string) int {
	var job VerifyJob
	ReadJob(args[0], &job)
	root := Guard(job.Scratch)
	refs := map[PayloadSpec]string{}
	ref := func(p PayloadSpec) (string, error) {
		if r, ok := refs[p]; ok {
			return r, nil
		}
		r, err := RefFP(p, fmt.Sprint("ref", len(refs)))
		if err == nil {
			refs[p] = r
		}
		return r, err
	}
	var outs []VerifyOut
	for _, home := range job.Homes {
		out := VerifyOut{HitIndex: -1}
		src := filepath.Join(home, "gopherjs", "build_cache")
		if !strings.HasPrefix(filepath.Clean(home)+"/", filepath.Clean(job.Scratch)+"/") {
			out.Err = "home outside scratch"
			outs = append(outs, out)
			continue
		}
		// reference fingerprints are computed on an empty root first, then the root is replaced
		// by the directory the faulted store left behind
		os.RemoveAll(root)
		var allowed []string
		for _, a := range job.Allowed {
			r, err := ref(a)
			if err != nil {
				out.Err = err.Error()
			}
			allowed = append(allowed, r)
		}
		againRef := ""
		if job.Again != "" {
			var err error
			if againRef, err = ref(job.Again); err != nil {
				out.Err = err.Error()
			}
		}
		os.RemoveAll(root)
		os.MkdirAll(filepath.Dir(root), 0o755)
		if _, err := os.Stat(src); err == nil {
			if err := os.Rename(src, root); err != nil {
				out.Err = "cannot move cache directory: " + err.Error()
				outs = append(outs, out)
				continue
			}
		}
		es, ts := Entries(root)
		out.Entries, out.Temps = len(es), len(ts)
		for _, e := range es {
			b, err := os.ReadFile(e)
			if err != nil {
				out.IncompleteEntry = e + ": " + err.Error()
			} else if err := StrictComplete(b); err != nil {
				out.IncompleteEntry = fmt.Sprintf("%s (%d bytes): %v", filepath.Base(e), len(b), err)
			}
		}
		bc := DefaultCfg().BC()
		bt := time.Unix(1700000000, 0)
		var fresh cache.Cacheable = &Mock{}
		if len(job.Allowed) > 0 {
			fresh = job.Allowed[0].Fresh()
		}
		out.Hit, out.Panic = SafeLoad(bc, fresh, job.ImportPath, bt)
		if out.Hit {
			fp, _ := Fingerprint(fresh)
			for i, r := range allowed {
				if r == fp {
					out.HitIndex = i
				}
			}
		}
		if job.Again != "" {
			p, err := job.Again.Make()
			if err != nil {
				out.Err = err.Error()
			} else {
				out.AgainStored, _ = SafeStore(bc, p, job.ImportPath, bt)
				fr := job.Again.Fresh()
				if hit, _ := SafeLoad(bc, fr, job.ImportPath, bt); hit {
					fp, _ := Fingerprint(fr)
					out.AgainExact = fp == againRef
				}
			}
		}
		outs = append(outs, out)
	}
	os.RemoveAll(root)
	WriteResult(job.Out, outs)
	return 0
}

// ---------------------------------------------------------------- concurrency (processes and goroutines)

type ConcJob struct {
	Scratch     string
	WorkDir     string // holds the keypath file written by the priming process
	Role        string // "writer" | "reader"
	Index       int
	Payloads    []PayloadSpec
	ImportPath  string
	Iterations  int    // writer: stores; reader: minimum loads
	StopFile    string // reader: stop when this file exists (and the minimum is reached)
	SleepMicros int    // reader: pause between loads once the minimum is reached
	Out         string
}

type ConcOut struct {
	Role          string
	Stores        int
	StoreFailed   int
	Loads         int
	Hits          int
	Misses        int
	Foreign       int // hits whose content is none of the complete payloads
	Panics        int
	ByPayload     []int
	RawReads      int
	RawIncomplete int // raw reads of the key path that were not complete files
	Detail        string
}

// ConcWorker is one writer or reader; used by separate processes and by goroutines (-race).
func ConcWorker(root string, job ConcJob, refs []string, keyPath func() string) ConcOut {
	out := ConcOut{Role: job.Role, ByPayload: make([]int, len(job.Payloads))}
	bc := DefaultCfg().BC()
	bt := time.Unix(1700000000, 0)
	if job.Role == "writer" {
		k := job.Index % len(job.Payloads)
		for i := 0; i < job.Iterations; i++ {
			p, err := job.Payloads[k].Make()
			if err != nil {
				out.Detail = err.Error()
				return out
			}
			ok, pan := SafeStore(bc, p, job.ImportPath, bt)
			out.Stores++
			if pan != "" {
				out.Panics++
				out.Detail = pan
			} else if !ok {
				out.StoreFailed++
			}
		}
		return out
	}
	for i := 0; ; i++ {
		if i >= job.Iterations {
			if _, err := os.Stat(job.StopFile); err == nil || i > 200*job.Iterations+100000 {
				break
			}
		}
		if i >= job.Iterations {
			// keep observing without burning a core per reader
			d := time.Duration(job.SleepMicros) * time.Microsecond
			if d == 0 {
				d = 500 * time.Microsecond
			}
			time.Sleep(d)
		}
		fr := job.Payloads[0].Fresh()
		hit, pan := SafeLoad(bc, fr, job.ImportPath, bt)
		out.Loads++
		switch {
		case pan != "":
			out.Panics++
			out.Detail = pan
		case !hit:
			out.Misses++
		default:
			out.Hits++
			fp, _ := Fingerprint(fr)
			found := false
			for j, r := range refs {
				if r == fp {
					out.ByPayload[j]++
					found = true
				}
			}
			if !found {
				out.Foreign++
				if m, ok := fr.(*Mock); ok {
					out.Detail = fmt.Sprintf("foreign content: Name=%.50q Nums=%d Blob=%d", m.Name, len(m.Nums), len(m.Blob))
				}
			}
		}
		if kp := keyPath(); kp != "" && i%4 == 0 {
			if b, err := os.ReadFile(kp); err == nil {
				out.RawReads++
				if err := StrictComplete(b); err != nil {
					out.RawIncomplete++
					out.Detail = fmt.Sprintf("key path held an incomplete file (%d bytes): %v", len(b), err)
				}
			}
		}
	}
	return out
}

func refsFor(ps []PayloadSpec) ([]string, error) {
	var refs []string
	for i, p := range ps {
		r, err := RefFP(p, fmt.Sprint("conc", i))
		if err != nil {
			return nil, err
		}
		refs = append(refs, r)
	}
	return refs, nil
}

func ChildConc(args []string) int {
	var job ConcJob
	ReadJob(args[0], &job)
	root := Guard(job.Scratch)
	var refs []string
	if job.Role == "reader" {
		var err error
		// reference fingerprints live under per-process side keys (index in the side name)
		for i, p := range job.Payloads {
			r, e := RefFP(p, fmt.Sprintf("conc-%d-%d", job.Index, i))
			if e != nil {
				err = e
			}
			refs = append(refs, r)
		}
		if err != nil {
			WriteResult(job.Out, ConcOut{Role: job.Role, Detail: "REF: " + err.Error()})
			return 0
		}
	}
	kp := keyPathByProbe(root, job)
	out := ConcWorker(root, job, refs, func() string { return kp })
	WriteResult(job.Out, out)
	return 0
}

// keyPathByProbe returns the path of the contended entry, which a priming process (ChildPrime)
// recorded in <workdir>/keypath.
func keyPathByProbe(root string, job ConcJob) string {
	b, err := os.ReadFile(filepath.Join(job.WorkDir, "keypath"))
	if err != nil {
		return ""
	}
	return string(b)
}

// ChildPrime stores payload 0 once under the contended key and records the entry path.
func ChildPrime(args []string) int {
	var job ConcJob
	ReadJob(args[0], &job)
	root := Guard(job.Scratch)
	p, err := job.Payloads[0].Make()
	if err != nil {
		return 5
	}
	path, ok := StoreLocate(root, DefaultCfg().BC(), p, job.ImportPath, time.Unix(1700000000, 0))
	if !ok || path == "" {
		return 3
	}
	os.WriteFile(filepath.Join(job.WorkDir, "keypath"), []byte(path), 0o644)
	return 0
}

// RaceMain is the body of the -race binary: goroutine writers and readers in one process.
type RaceJob struct {
	Scratch    string
	WorkDir    string
	Payloads   []PayloadSpec
	Writers    int
	Readers    int
	Iterations int
	Out        string
}

type RaceOut struct {
	Writers, Readers []ConcOut
	Err              string
}

func RaceMain(args []string) int {
	var job RaceJob
	ReadJob(args[0], &job)
	root := Guard(job.Scratch)
	var out RaceOut
	refs, err := refsFor(job.Payloads)
	if err != nil {
		out.Err = err.Error()
		WriteResult(job.Out, out)
		return 0
	}
	const ip = "race/contended"
	p0, _ := job.Payloads[0].Make()
	kp, _ := StoreLocate(root, DefaultCfg().BC(), p0, ip, time.Unix(1700000000, 0))
	stop := filepath.Join(job.WorkDir, "race-stop")
	out.Writers = make([]ConcOut, job.Writers)
	out.Readers = make([]ConcOut, job.Readers)
	var ww, rw sync.WaitGroup
	for i := 0; i < job.Readers; i++ {
		rw.Add(1)
		go func(i int) {
			defer rw.Done()
			out.Readers[i] = ConcWorker(root, ConcJob{Role: "reader", Index: i, Payloads: job.Payloads, ImportPath: ip, Iterations: job.Iterations, StopFile: stop, SleepMicros: 3000}, refs, func() string { return kp })
		}(i)
	}
	for i := 0; i < job.Writers; i++ {
		ww.Add(1)
		go func(i int) {
			defer ww.Done()
			out.Writers[i] = ConcWorker(root, ConcJob{Role: "writer", Index: i, Payloads: job.Payloads, ImportPath: ip, Iterations: job.Iterations}, nil, nil)
		}(i)
	}
	ww.Wait()
	os.WriteFile(stop, nil, 0o644)
	rw.Wait()
	WriteResult(job.Out, out)
	return 0
}
