package cw

import (
	"fmt"
	"go/ast"
	"strings"
	"time"

	"github.com/gopherjs/gopherjs/compiler/sources"
)

// RTResult is the observation of one Sources round trip through the real cache.
type RTResult struct {
	ImportPath string
	Files      int
	Bytes      int // size of the stored entry
	Stored     bool
	Loaded     bool
	Panic      string
	// Exact: restored content, printed source (with comments) and linkname directives all
	// equal the original.
	Exact bool
	// FloatingOnly: not exact, but exactly equal to the original with its floating comment
	// groups (those not attached to any node) removed – one root cause.
	FloatingOnly     bool
	FloatingGroups   int      // floating comment groups in the original
	FloatingDirs     []string // directive-like comments among them (//go:… //gopherjs:…)
	PrintDiffers     bool
	LinkDiffers      bool
	LinkOrig         []string
	LinkRestored     []string
	LinkErrOrig      string
	LinkErrRestored  string
	Detail           string // first difference, for reports
	SecondGeneration bool   // restored → Store → Load again is identical to restored
	Kinds            map[string]int
	KindsRestored    map[string]int
}

// RoundTripOne sends s through Store and Load of the real cache and compares.
func RoundTripOne(root string, s *sources.Sources) (res RTResult) {
	res.ImportPath = s.ImportPath
	res.Files = len(s.Files)
	res.Kinds = map[string]int{}
	res.KindsRestored = map[string]int{}
	defer func() {
		if r := recover(); r != nil {
			res.Panic = fmt.Sprint(r)
		}
	}()
	NodeKinds(s, res.Kinds)
	for _, f := range s.Files {
		_, fl := AttachedComments(f)
		res.FloatingGroups += len(fl)
		for _, cg := range fl {
			for _, c := range cg.List {
				if isDirective(c) {
					res.FloatingDirs = append(res.FloatingDirs, c.Text)
				}
			}
		}
	}
	printOrig, err := PrintFiles(s)
	if err != nil {
		res.Detail = "printing the original failed: " + err.Error()
		return
	}
	fpOrig, _ := Fingerprint(s)
	res.LinkOrig, res.LinkErrOrig = Linknames(s)
	nf := WithoutFloating(s)
	printNF, _ := PrintFiles(nf)
	fpNF, _ := Fingerprint(nf)
	linkNF, linkErrNF := Linknames(nf)

	bc := DefaultCfg().BC()
	bt := time.Unix(1700000000, 0)
	var path string
	path, res.Stored = StoreLocate(root, bc, s, s.ImportPath, bt)
	if !res.Stored {
		return
	}
	if st, err := osStat(path); err == nil {
		res.Bytes = st
	}
	r := &sources.Sources{}
	res.Loaded, res.Panic = SafeLoad(bc, r, s.ImportPath, bt)
	if !res.Loaded {
		return
	}
	NodeKinds(r, res.KindsRestored)
	printRest, err := PrintFiles(r)
	if err != nil {
		res.Detail = "printing the restored package failed: " + err.Error()
		return
	}
	fpRest, _ := Fingerprint(r)
	res.LinkRestored, res.LinkErrRestored = Linknames(r)
	res.PrintDiffers = !eqStrings(printOrig, printRest)
	res.LinkDiffers = !eqStrings(res.LinkOrig, res.LinkRestored) || res.LinkErrOrig != res.LinkErrRestored
	res.Exact = fpRest == fpOrig && !res.PrintDiffers && !res.LinkDiffers
	if !res.Exact {
		if fpRest == fpNF && eqStrings(printRest, printNF) && eqStrings(res.LinkRestored, linkNF) && res.LinkErrRestored == linkErrNF && res.FloatingGroups > 0 {
			res.FloatingOnly = true
			res.Detail = firstDiff(printOrig, printRest)
		} else {
			res.Detail = firstDiff(printOrig, printRest)
			if res.Detail == "" {
				res.Detail = "printed source equal; structural fingerprint (positions/fields/file set) differs"
			}
		}
	}
	// second generation
	bc2 := DefaultCfg()
	bc2.Version = "second-generation"
	fpBefore, _ := Fingerprint(r)
	if ok, _ := SafeStore(bc2.BC(), r, s.ImportPath, bt); ok {
		r2 := &sources.Sources{}
		if hit, _ := SafeLoad(bc2.BC(), r2, s.ImportPath, bt); hit {
			fp2, _ := Fingerprint(r2)
			res.SecondGeneration = fp2 == fpBefore
		}
	}
	return
}

func isDirective(c *ast.Comment) bool {
	t := c.Text
	if !strings.HasPrefix(t, "//") || len(t) < 4 {
		return false
	}
	t = t[2:]
	if strings.HasPrefix(t, "line ") || strings.HasPrefix(t, "extern ") || strings.HasPrefix(t, "export ") {
		return true
	}
	// //[a-z0-9]+:[a-z0-9]
	i := strings.IndexByte(t, ':')
	if i <= 0 || i+1 >= len(t) {
		return false
	}
	for _, ch := range t[:i] {
		if !(ch >= 'a' && ch <= 'z' || ch >= '0' && ch <= '9') {
			return false
		}
	}
	ch := t[i+1]
	return ch >= 'a' && ch <= 'z' || ch >= '0' && ch <= '9'
}

func eqStrings(a, b []string) bool {
	if len(a) != len(b) {
		return false
	}
	for i := range a {
		if a[i] != b[i] {
			return false
		}
	}
	return true
}

func firstDiff(a, b []string) string {
	for i := 0; i < len(a) && i < len(b); i++ {
		if a[i] == b[i] {
			continue
		}
		la, lb := strings.Split(a[i], "\n"), strings.Split(b[i], "\n")
		for j := 0; j < len(la) || j < len(lb); j++ {
			x, y := "<eof>", "<eof>"
			if j < len(la) {
				x = la[j]
			}
			if j < len(lb) {
				y = lb[j]
			}
			if x != y {
				return fmt.Sprintf("file #%d line %d: original %q, restored %q", i, j+1, x, y)
			}
		}
	}
	if len(a) != len(b) {
		return fmt.Sprintf("file count %d vs %d", len(a), len(b))
	}
	return ""
}
