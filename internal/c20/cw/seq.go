package cw

// Types shared by the parent (c20.seq*) and the child `vp c20-seq` (cmd/vp/sub_c20_seq.go) of
// the end-to-end staleness sweep.

// SeqStep is one step of a scenario.
type SeqStep struct {
	Op string // "write" | "remove" | "build"

	// write / remove: path relative to the job's Root
	Path    string
	Content string

	// build
	Kind       string   // "pkg" | "files"
	ImportPath string   // pkg: the argument of `gopherjs build <path>`
	Dir        string   // cwd of the build, relative to Root
	Files      []string // files: the arguments of `gopherjs build a.go b.inc.js`, relative to Dir
	Tags       []string
	Minify     bool
}

type SeqJob struct {
	Scratch string
	Root    string // all paths of the steps are relative to this directory (the GOPATH)
	OutDir  string // the JavaScript of every build is left here (<step>.cached.js / <step>.ref.js)
	Steps   []SeqStep
	Out     string
}

// SeqBuild is the observation of one build step.
type SeqBuild struct {
	Step                      int
	CachedErr, RefErr         string
	CachedSHA, RefSHA         string
	CachedBytes, RefBytes     int
	Equal                     bool
	Diff                      string
	LoadHits, LoadMiss        []string
	StoreOK, StoreFail        []string
	CachedMarkers, RefMarkers []string // version markers (c20v_…) found in the two outputs
}

type SeqOut struct {
	Builds []SeqBuild
	Error  string // machinery problem (an edit could not be applied …)
}
